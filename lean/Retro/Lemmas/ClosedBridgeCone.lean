/-
C15 helper (general closedness, all counts): cap fans under closures with poles (pointed cones).
-/
import Retro.Lemmas.ClosedBridgePole

namespace Retro.Lathe
open Retro.Surface Retro.Cyl

/-- `ident` of a cap vertex is `ident` of the ring vertex it copies. -/
theorem ident_cap_src {np secs k : Nat} (cl : Closure) (hn : 1 ≤ np) (hk : k < 2 * (secs + 1)) :
    ident np secs cl (np * (secs + 1) + k) = ident np secs cl (capSource np secs k) := by
  have hsrc : capSource np secs k < np * (secs + 1) := by
    obtain ⟨m, rfl⟩ : ∃ m, np = m + 1 := ⟨np - 1, by omega⟩
    unfold capSource ringVertCount
    rw [Nat.add_mul, Nat.one_mul]
    split <;> omega
  unfold ident
  have h1 : np * (secs + 1) + k ≥ ringVertCount np secs := by unfold ringVertCount; omega
  have h2 : ¬ (capSource np secs k ≥ ringVertCount np secs) := by unfold ringVertCount; omega
  have h3 : np * (secs + 1) + k - ringVertCount np secs = k := by unfold ringVertCount; omega
  simp only [h1, h2, if_true, if_false, h3]

/-- value of `ident` on bottom-cap vertex `k ≤ secs` -/
theorem ident_cap_bottom_cl {np secs k : Nat} (cl : Closure) (hseam : cl.seam = true)
    (hwrap : cl.wrap = false) (hs : 0 < secs) (hn : 1 ≤ np) (hk : k ≤ secs) :
    ident np secs cl (np * (secs + 1) + k) =
      0 * (secs + 1) + (if isPole np cl 0 then 0 else if k = secs then 0 else k) := by
  rw [ident_cap_src cl hn (by omega)]
  have : capSource np secs k = 0 * (secs + 1) + k := by unfold capSource; simp; omega
  rw [this]
  exact ident_ring_pole cl hseam hwrap hs (by omega) hk

/-- value of `ident` on top-cap vertex `k ≤ secs` -/
theorem ident_cap_top_cl {np secs k : Nat} (cl : Closure) (hseam : cl.seam = true)
    (hwrap : cl.wrap = false) (hs : 0 < secs) (hn : 1 ≤ np) (hk : k ≤ secs) :
    ident np secs cl (np * (secs + 1) + (secs + 1) + k) =
      (np - 1) * (secs + 1) + (if isPole np cl (np - 1) then 0 else if k = secs then 0 else k) := by
  rw [Nat.add_assoc, ident_cap_src cl hn (by omega)]
  have : capSource np secs (secs + 1 + k) = (np - 1) * (secs + 1) + k := by
    obtain ⟨m, rfl⟩ : ∃ m, np = m + 1 := ⟨np - 1, by omega⟩
    unfold capSource ringVertCount
    rw [Nat.add_sub_cancel, Nat.add_mul, Nat.one_mul]
    have : ¬ (secs + 1 + k < secs + 1) := by omega
    simp only [this, if_false]
    omega
  rw [this]
  exact ident_ring_pole cl hseam hwrap hs (by omega) hk

end Retro.Lathe

namespace Retro.Lathe
open Retro.Surface Retro.Cyl

def bottomMerged (np secs : Nat) (cl : Closure) : List (Nat × Nat) :=
  dirEdges (((bottomCap (np * (secs + 1)) secs).map (mapTri (ident np secs cl))).filter nondegenerate)
def topMerged (np secs : Nat) (cl : Closure) : List (Nat × Nat) :=
  dirEdges (((topCap (np * (secs + 1) + (secs + 1)) secs).map (mapTri (ident np secs cl))).filter nondegenerate)

theorem bottomMerged_nopole {np secs : Nat} (cl : Closure) (hseam : cl.seam = true) (hwrap : cl.wrap = false)
    (hs : 3 ≤ secs) (hn : 1 ≤ np) (h0 : isPole np cl 0 = false) :
    bottomMerged np secs cl = mapEdges (enc secs) (fanFwd 0 secs) := by
  rw [← bottom_bridge (np := np) hs]
  unfold bottomMerged
  congr 2
  apply List.map_congr_left
  intro t ht
  unfold bottomCap at ht
  rw [List.mem_map] at ht
  obtain ⟨i0, hi0, rfl⟩ := ht
  rw [List.mem_range] at hi0
  have e : np * (secs + 1) + (i0 + 1) + 1 = np * (secs + 1) + (i0 + 2) := by omega
  have a := ident_cap_bottom_cl (np := np) (secs := secs) (k := 0) cl hseam hwrap (by omega) hn (by omega)
  have b := ident_cap_bottom_cl (np := np) (secs := secs) (k := i0 + 1) cl hseam hwrap (by omega) hn (by omega)
  have c := ident_cap_bottom_cl (np := np) (secs := secs) (k := i0 + 2) cl hseam hwrap (by omega) hn (by omega)
  have a' := ident_cap_bottom (np := np) (secs := secs) (k := 0) (by omega) (by omega)
  have b' := ident_cap_bottom (np := np) (secs := secs) (k := i0 + 1) (by omega) (by omega)
  have c' := ident_cap_bottom (np := np) (secs := secs) (k := i0 + 2) (by omega) (by omega)
  simp only [h0, Bool.false_eq_true, if_false, Nat.add_zero] at a b c a'
  simp only [mapTri, e, a, b, c, a', b', c']

theorem bottomMerged_pole {np secs : Nat} (cl : Closure) (hseam : cl.seam = true) (hwrap : cl.wrap = false)
    (hs : 3 ≤ secs) (hn : 1 ≤ np) (h0 : isPole np cl 0 = true) : bottomMerged np secs cl = [] := by
  unfold bottomMerged
  have : List.filter nondegenerate (List.map (mapTri (ident np secs cl)) (bottomCap (np * (secs + 1)) secs)) = [] := by
    rw [List.filter_eq_nil_iff]
    intro t ht
    rw [List.mem_map] at ht
    obtain ⟨t0, ht0, rfl⟩ := ht
    unfold bottomCap at ht0
    rw [List.mem_map] at ht0
    obtain ⟨i0, hi0, rfl⟩ := ht0
    rw [List.mem_range] at hi0
    have e : np * (secs + 1) + (i0 + 1) + 1 = np * (secs + 1) + (i0 + 2) := by omega
    have a := ident_cap_bottom_cl (np := np) (secs := secs) (k := 0) cl hseam hwrap (by omega) hn (by omega)
    have b := ident_cap_bottom_cl (np := np) (secs := secs) (k := i0 + 1) cl hseam hwrap (by omega) hn (by omega)
    simp only [h0, if_true, Nat.add_zero] at a b
    simp [mapTri, nondegenerate, a, b]
  rw [this]; rfl

end Retro.Lathe

namespace Retro.Lathe
open Retro.Surface Retro.Cyl

theorem topMerged_nopole {np secs : Nat} (cl : Closure) (hseam : cl.seam = true) (hwrap : cl.wrap = false)
    (hs : 3 ≤ secs) (hn : 1 ≤ np) (h0 : isPole np cl (np - 1) = false) :
    topMerged np secs cl = mapEdges (enc secs) (fanBwd (np - 1) secs) := by
  rw [← top_bridge (np := np) hs hn]
  unfold topMerged
  congr 2
  apply List.map_congr_left
  intro t ht
  unfold topCap at ht
  rw [List.mem_map] at ht
  obtain ⟨i0, hi0, rfl⟩ := ht
  rw [List.mem_range] at hi0
  have e : np * (secs + 1) + (secs + 1) + (i0 + 1) + 1 = np * (secs + 1) + (secs + 1) + (i0 + 2) := by omega
  have a := ident_cap_top_cl (np := np) (secs := secs) (k := 0) cl hseam hwrap (by omega) hn (by omega)
  have b := ident_cap_top_cl (np := np) (secs := secs) (k := i0 + 1) cl hseam hwrap (by omega) hn (by omega)
  have c := ident_cap_top_cl (np := np) (secs := secs) (k := i0 + 2) cl hseam hwrap (by omega) hn (by omega)
  have a' := ident_cap_top (np := np) (secs := secs) (k := 0) (by omega) hn (by omega)
  have b' := ident_cap_top (np := np) (secs := secs) (k := i0 + 1) (by omega) hn (by omega)
  have c' := ident_cap_top (np := np) (secs := secs) (k := i0 + 2) (by omega) hn (by omega)
  simp only [h0, Bool.false_eq_true, if_false, Nat.add_zero] at a b c a'
  simp only [mapTri, e, a, b, c, a', b', c']

theorem topMerged_pole {np secs : Nat} (cl : Closure) (hseam : cl.seam = true) (hwrap : cl.wrap = false)
    (hs : 3 ≤ secs) (hn : 1 ≤ np) (h0 : isPole np cl (np - 1) = true) : topMerged np secs cl = [] := by
  unfold topMerged
  have : List.filter nondegenerate
      (List.map (mapTri (ident np secs cl)) (topCap (np * (secs + 1) + (secs + 1)) secs)) = [] := by
    rw [List.filter_eq_nil_iff]
    intro t ht
    rw [List.mem_map] at ht
    obtain ⟨t0, ht0, rfl⟩ := ht
    unfold topCap at ht0
    rw [List.mem_map] at ht0
    obtain ⟨i0, hi0, rfl⟩ := ht0
    rw [List.mem_range] at hi0
    have a := ident_cap_top_cl (np := np) (secs := secs) (k := 0) cl hseam hwrap (by omega) hn (by omega)
    have b := ident_cap_top_cl (np := np) (secs := secs) (k := i0 + 1) cl hseam hwrap (by omega) hn (by omega)
    simp only [h0, if_true, Nat.add_zero] at a b
    simp [mapTri, nondegenerate, a, b]
  rw [this]; rfl

/-- Capped model: directed edges of the merged faces = rows, then bottom cap, then top cap. -/
theorem merged_rows_capped (np secs : Nat) (cl : Closure) (hn : 1 ≤ np) :
    dirEdges (mergedFaces np secs true cl) =
      (List.range (np - 1)).flatMap (rowMerged np secs cl) ++ (bottomMerged np secs cl ++ topMerged np secs cl) := by
  unfold mergedFaces faces bottomMerged topMerged
  have : hasCaps np true = true := by simp [hasCaps]; omega
  rw [this, if_pos rfl]
  simp only [List.map_append, List.filter_append, dirEdges_append]
  rw [sideFaces_rows, dirEdges_filter_map_flatMap]
  rfl

end Retro.Lathe

namespace Retro.Lathe
open Retro.Surface Retro.Cyl

theorem band_zero (m S : Nat) : bandEdges 0 m S = sideEdges m S := by
  unfold bandEdges mapEdges
  have : (fun e : V × V => (shift 0 e.1, shift 0 e.2)) = id := by
    funext e; simp [shift]
  rw [this, List.map_id]

/-- Capped cone with the apex on the axis (`m + 1` rows of quads): rows, pole fan, bottom fan. -/
theorem coneApex_bridge {m secs : Nat} (hs : 3 ≤ secs) :
    dirEdges (mergedFaces (m + 2) secs true { poleTop := true }) =
      mapEdges (enc secs)
        (bandEdges 0 m secs ++ (apexBwd (m + 1, 0) m secs ++ fanFwd 0 secs)) := by
  rw [merged_rows_capped _ _ _ (by omega), show m + 2 - 1 = m + 1 by omega, List.range_succ]
  simp only [List.flatMap_append, List.flatMap_cons, List.flatMap_nil, List.append_nil]
  have ht := row_top_pole (np := m + 2) (secs := secs) (j0 := m) { poleTop := true } rfl rfl
    (by omega) (by omega) (by simp [isPole]) (by simp [isPole])
  have hm : (List.range m).flatMap (rowMerged (m + 2) secs { poleTop := true }) =
      mapEdges (enc secs) (bandEdges 0 m secs) := by
    rw [band_zero]
    unfold sideEdges
    rw [mapEdges_flatMap]
    apply flatMap_congr'
    intro j hj
    rw [List.mem_range] at hj
    exact row_normal _ rfl rfl (by omega) (by omega) (by simp [isPole]; omega) (by simp [isPole]; omega)
  have hb := bottomMerged_nopole (np := m + 2) (secs := secs) { poleTop := true } rfl rfl hs (by omega)
    (by simp [isPole])
  have htop := topMerged_pole (np := m + 2) (secs := secs) { poleTop := true } rfl rfl hs (by omega)
    (by simp [isPole])
  rw [ht, hm, hb, htop]
  simp [mapEdges]

/-- Capped cone with the base on the axis. -/
theorem coneBase_bridge {m secs : Nat} (hs : 3 ≤ secs) :
    dirEdges (mergedFaces (m + 2) secs true { poleBottom := true }) =
      mapEdges (enc secs)
        (apexFwd (0, 0) 1 secs ++ (bandEdges 1 m secs ++ fanBwd (m + 1) secs)) := by
  rw [merged_rows_capped _ _ _ (by omega), show m + 2 - 1 = m + 1 by omega, List.range_succ_eq_map]
  simp only [List.flatMap_cons]
  have hb := row_bottom_pole (np := m + 2) (secs := secs) (j0 := 0) { poleBottom := true } rfl rfl
    (by omega) (by omega) (by simp [isPole]) (by simp [isPole])
  have hm : (List.map Nat.succ (List.range m)).flatMap (rowMerged (m + 2) secs { poleBottom := true }) =
      mapEdges (enc secs) (bandEdges 1 m secs) := by
    rw [band_one_rows, mapEdges_flatMap, List.flatMap_map]
    apply flatMap_congr'
    intro j hj
    rw [List.mem_range] at hj
    exact row_normal _ rfl rfl (by omega) (by simp; omega) (by simp [isPole]) (by simp [isPole])
  have hbot := bottomMerged_pole (np := m + 2) (secs := secs) { poleBottom := true } rfl rfl hs (by omega)
    (by simp [isPole])
  have htop := topMerged_nopole (np := m + 2) (secs := secs) { poleBottom := true } rfl rfl hs (by omega)
    (by simp [isPole])
  rw [hb, hm, hbot, htop]
  simp [mapEdges]

end Retro.Lathe
