/-
C15 helper (general closedness, all counts): `ident` with pole closures, and the rows of the
lathe model next to a pole.
-/
import Retro.Lemmas.ClosedBridgeCap
import Retro.Lemmas.ClosedSolids

namespace Retro.Lathe
open Retro.Surface Retro.Cyl

/-- is ring `j` collapsed to a point by the closure? -/
def isPole (np : Nat) (cl : Closure) (j : Nat) : Bool :=
  (cl.poleBottom && j == 0) || (cl.poleTop && j == np - 1)

/-- `ident` on a ring vertex for a closure with seam and poles (no wrap). -/
theorem ident_ring_pole {np secs j i : Nat} (cl : Closure) (hseam : cl.seam = true) (hwrap : cl.wrap = false)
    (hs : 0 < secs) (hj : j < np) (hi : i ≤ secs) :
    ident np secs cl (j * (secs + 1) + i) =
      j * (secs + 1) + (if isPole np cl j then 0 else if i = secs then 0 else i) := by
  have hlt : j * (secs + 1) + i < np * (secs + 1) := by
    have : (j + 1) * (secs + 1) ≤ np * (secs + 1) := Nat.mul_le_mul_right _ hj
    rw [Nat.add_mul, Nat.one_mul] at this
    omega
  unfold ident ringVertCount isPole
  simp only [ge_iff_le, Nat.not_le.mpr hlt, if_false, hseam, hwrap, Bool.false_and, if_true,
    Bool.false_eq_true]
  rw [div_enc (by omega), mod_enc (by omega), mod_secs hs hi]

end Retro.Lathe

namespace Retro.Lathe
open Retro.Surface Retro.Cyl

theorem dirEdges_filter_map_flatMap {α : Type} (l : List α) (f : α → List Tri) (g : Tri → Tri)
    (p : Tri → Bool) :
    dirEdges (((l.flatMap f).map g).filter p) = l.flatMap fun x => dirEdges (((f x).map g).filter p) := by
  induction l with
  | nil => rfl
  | cons x xs ih =>
    simp only [List.flatMap_cons, List.map_append, List.filter_append, dirEdges_append]
    rw [ih]

/-- One quad of the model after `ident` for a seam closure with poles. -/
theorem quad_bridge_cl {np secs j0 i0 : Nat} (cl : Closure) (hseam : cl.seam = true)
    (hwrap : cl.wrap = false) (hs : 0 < secs) (hj : j0 + 1 < np) (hi : i0 < secs) :
    (quadFaces (secs + 1) (j0 + 1) (i0 + 1)).map (mapTri (ident np secs cl)) =
      [(enc secs (j0, if isPole np cl j0 then 0 else i0),
        enc secs (j0 + 1, if isPole np cl (j0 + 1) then 0 else sm secs i0),
        enc secs (j0, if isPole np cl j0 then 0 else sm secs i0)),
       (enc secs (j0, if isPole np cl j0 then 0 else i0),
        enc secs (j0 + 1, if isPole np cl (j0 + 1) then 0 else i0),
        enc secs (j0 + 1, if isPole np cl (j0 + 1) then 0 else sm secs i0))] := by
  have e1 : j0 * (secs + 1) + (i0 + 1) - 1 = j0 * (secs + 1) + i0 := by omega
  have e2 : (j0 + 1 - 1) * (secs + 1) + (i0 + 1) = j0 * (secs + 1) + (i0 + 1) := by
    simp only [Nat.add_sub_cancel]
  have e3 : (j0 + 1) * (secs + 1) + (i0 + 1) - 1 = (j0 + 1) * (secs + 1) + i0 := by omega
  have p := ident_ring_pole (np := np) (secs := secs) (j := j0) (i := i0) cl hseam hwrap hs (by omega) (by omega)
  have q := ident_ring_pole (np := np) (secs := secs) (j := j0) (i := i0 + 1) cl hseam hwrap hs (by omega) (by omega)
  have r := ident_ring_pole (np := np) (secs := secs) (j := j0 + 1) (i := i0) cl hseam hwrap hs hj (by omega)
  have s := ident_ring_pole (np := np) (secs := secs) (j := j0 + 1) (i := i0 + 1) cl hseam hwrap hs hj (by omega)
  have hne : ¬ i0 = secs := by omega
  simp only [hne, if_false] at p r
  simp only [quadFaces, e2, e1, e3, List.map_cons, List.map_nil, mapTri, p, q, r, s, enc, sm]

end Retro.Lathe

namespace Retro.Lathe
open Retro.Surface Retro.Cyl

/-- the faces of quad row `j0` of the model (lathe.rs inner loop) -/
def rowFaces (secs j0 : Nat) : List Tri :=
  (List.range secs).flatMap fun i0 => quadFaces (secs + 1) (j0 + 1) (i0 + 1)

theorem sideFaces_rows (np secs : Nat) :
    sideFaces np secs = (List.range (np - 1)).flatMap fun j0 => rowFaces secs j0 := rfl

/-- directed edges of one row after `ident`, degenerate faces dropped -/
def rowMerged (np secs : Nat) (cl : Closure) (j0 : Nat) : List (Nat × Nat) :=
  dirEdges (((rowFaces secs j0).map (mapTri (ident np secs cl))).filter nondegenerate)

theorem enc_succ_row (secs j i : Nat) : enc secs (j + 1, i) = enc secs (j, i) + (secs + 1) := by
  simp only [enc]; rw [Nat.add_mul, Nat.one_mul]; omega

/-- A row between two rings that are not poles: all faces kept, the coordinate quad row. -/
theorem row_normal {np secs j0 : Nat} (cl : Closure) (hseam : cl.seam = true) (hwrap : cl.wrap = false)
    (hs : 2 ≤ secs) (hj : j0 + 1 < np) (h0 : isPole np cl j0 = false) (h1 : isPole np cl (j0 + 1) = false) :
    rowMerged np secs cl j0 = mapEdges (enc secs) (rowEdges secs j0) := by
  unfold rowMerged rowFaces rowEdges
  rw [dirEdges_filter_map_flatMap, mapEdges_flatMap]
  apply flatMap_congr'
  intro i0 hi0
  rw [List.mem_range] at hi0
  rw [quad_bridge_cl cl hseam hwrap (by omega) hj hi0]
  have h2 : sm secs i0 < secs := sm_lt hi0
  have h3 : sm secs i0 ≠ i0 := sm_ne hs
  simp only [h0, h1, Bool.false_eq_true, if_false]
  have nd1 : nondegenerate (enc secs (j0, i0), enc secs (j0 + 1, sm secs i0), enc secs (j0, sm secs i0)) = true := by
    simp only [nondegenerate, enc_succ_row]
    simp only [enc, bne_iff_ne, Bool.and_eq_true]
    refine ⟨⟨?_, ?_⟩, ?_⟩ <;> omega
  have nd2 : nondegenerate (enc secs (j0, i0), enc secs (j0 + 1, i0), enc secs (j0 + 1, sm secs i0)) = true := by
    simp only [nondegenerate, enc_succ_row]
    simp only [enc, bne_iff_ne, Bool.and_eq_true]
    refine ⟨⟨?_, ?_⟩, ?_⟩ <;> omega
  simp [List.filter, nd1, nd2, dirEdges, triEdges, mapEdges, quadEdges]

end Retro.Lathe

namespace Retro.Lathe
open Retro.Surface Retro.Cyl

/-- The row above a bottom pole: the first triangle of each quad collapses, the second ones form
the pole fan. -/
theorem row_bottom_pole {np secs j0 : Nat} (cl : Closure) (hseam : cl.seam = true) (hwrap : cl.wrap = false)
    (hs : 2 ≤ secs) (hj : j0 + 1 < np) (h0 : isPole np cl j0 = true) (h1 : isPole np cl (j0 + 1) = false) :
    rowMerged np secs cl j0 = mapEdges (enc secs) (apexFwd (j0, 0) (j0 + 1) secs) := by
  unfold rowMerged rowFaces apexFwd
  rw [dirEdges_filter_map_flatMap, mapEdges_flatMap]
  apply flatMap_congr'
  intro i0 hi0
  rw [List.mem_range] at hi0
  rw [quad_bridge_cl cl hseam hwrap (by omega) hj hi0]
  have h2 : sm secs i0 < secs := sm_lt hi0
  have h3 : sm secs i0 ≠ i0 := sm_ne hs
  simp only [h0, h1, Bool.false_eq_true, if_false, if_true]
  have nd1 : nondegenerate (enc secs (j0, 0), enc secs (j0 + 1, sm secs i0), enc secs (j0, 0)) = false := by
    simp [nondegenerate]
  have nd2 : nondegenerate (enc secs (j0, 0), enc secs (j0 + 1, i0), enc secs (j0 + 1, sm secs i0)) = true := by
    simp only [nondegenerate, enc_succ_row]
    simp only [enc, bne_iff_ne, Bool.and_eq_true]
    refine ⟨⟨?_, ?_⟩, ?_⟩ <;> omega
  simp [List.filter, nd1, nd2, dirEdges, triEdges, mapEdges]

/-- The row below a top pole: the second triangle of each quad collapses. -/
theorem row_top_pole {np secs j0 : Nat} (cl : Closure) (hseam : cl.seam = true) (hwrap : cl.wrap = false)
    (hs : 2 ≤ secs) (hj : j0 + 1 < np) (h0 : isPole np cl j0 = false) (h1 : isPole np cl (j0 + 1) = true) :
    rowMerged np secs cl j0 = mapEdges (enc secs) (apexBwd (j0 + 1, 0) j0 secs) := by
  unfold rowMerged rowFaces apexBwd
  rw [dirEdges_filter_map_flatMap, mapEdges_flatMap]
  apply flatMap_congr'
  intro i0 hi0
  rw [List.mem_range] at hi0
  rw [quad_bridge_cl cl hseam hwrap (by omega) hj hi0]
  have h2 : sm secs i0 < secs := sm_lt hi0
  have h3 : sm secs i0 ≠ i0 := sm_ne hs
  simp only [h0, h1, Bool.false_eq_true, if_false, if_true]
  have nd1 : nondegenerate (enc secs (j0, i0), enc secs (j0 + 1, 0), enc secs (j0, sm secs i0)) = true := by
    simp only [nondegenerate, enc_succ_row]
    simp only [enc, bne_iff_ne, Bool.and_eq_true]
    refine ⟨⟨?_, ?_⟩, ?_⟩ <;> omega
  have nd2 : nondegenerate (enc secs (j0, i0), enc secs (j0 + 1, 0), enc secs (j0 + 1, 0)) = false := by
    simp [nondegenerate]
  simp [List.filter, nd1, nd2, dirEdges, triEdges, mapEdges]

end Retro.Lathe

namespace Retro.Lathe
open Retro.Surface Retro.Cyl

/-- Closedness does not depend on the order in which the faces are listed. -/
theorem closedG_rotate {α : Type} {B F T : List (α × α)} (h : ClosedG (B ++ (F ++ T))) :
    ClosedG (F ++ (B ++ T)) := by
  have hp : List.Perm (F ++ (B ++ T)) (B ++ (F ++ T)) := by
    rw [← List.append_assoc, ← List.append_assoc]
    exact List.Perm.append_right T List.perm_append_comm
  constructor
  · exact hp.nodup_iff.mpr h.nodup
  · intro e he
    exact hp.mem_iff.mpr (h.paired e (hp.mem_iff.mp he))

theorem shift_rowEdges (S j : Nat) : mapEdges (shift 1) (rowEdges S j) = rowEdges S (j + 1) := by
  unfold rowEdges
  rw [mapEdges_flatMap]
  apply flatMap_congr'
  intro i _
  simp [mapEdges, quadEdges, shift]

theorem band_one_rows (m S : Nat) :
    bandEdges 1 m S = (List.range m).flatMap fun j => rowEdges S (j + 1) := by
  unfold bandEdges sideEdges
  rw [mapEdges_flatMap]
  apply flatMap_congr'
  intro j _
  exact shift_rowEdges S j

theorem range_split (m : Nat) :
    List.range (m + 2) = 0 :: ((List.range m).map (· + 1) ++ [m + 1]) := by
  rw [List.range_succ_eq_map, List.range_succ, List.map_append]
  rfl

end Retro.Lathe

namespace Retro.Lathe
open Retro.Surface Retro.Cyl

/-- Uncapped model: directed edges of the merged faces, row by row. -/
theorem merged_rows (np secs : Nat) (cl : Closure) :
    dirEdges (mergedFaces np secs false cl) = (List.range (np - 1)).flatMap (rowMerged np secs cl) := by
  unfold mergedFaces faces
  have : hasCaps np false = false := by simp [hasCaps]
  rw [this]
  simp only [Bool.false_eq_true, if_false, List.append_nil]
  rw [sideFaces_rows, dirEdges_filter_map_flatMap]
  rfl

/-- **Sphere / capsule model after `ident` = pole fan + band + pole fan** (`m + 2` rows of quads). -/
theorem sphere_bridge {m secs : Nat} (hs : 3 ≤ secs) :
    dirEdges (mergedFaces (m + 3) secs false { poleBottom := true, poleTop := true }) =
      mapEdges (enc secs)
        (apexFwd (0, 0) 1 secs ++ (bandEdges 1 m secs ++ apexBwd (m + 2, 0) (m + 1) secs)) := by
  rw [merged_rows, show m + 3 - 1 = m + 2 by omega, range_split]
  simp only [List.flatMap_cons, List.flatMap_append, List.flatMap_nil, List.append_nil]
  have hb := row_bottom_pole (np := m + 3) (secs := secs) (j0 := 0)
    { poleBottom := true, poleTop := true } rfl rfl (by omega) (by omega)
    (by simp [isPole]) (by simp [isPole])
  have ht := row_top_pole (np := m + 3) (secs := secs) (j0 := m + 1)
    { poleBottom := true, poleTop := true } rfl rfl (by omega) (by omega)
    (by simp [isPole]) (by simp [isPole])
  rw [hb, ht]
  have hm : (List.map (fun x => x + 1) (List.range m)).flatMap
      (rowMerged (m + 3) secs { poleBottom := true, poleTop := true }) =
      mapEdges (enc secs) (bandEdges 1 m secs) := by
    rw [band_one_rows, mapEdges_flatMap, List.flatMap_map]
    apply flatMap_congr'
    intro j hj
    rw [List.mem_range] at hj
    exact row_normal _ rfl rfl (by omega) (by omega) (by simp [isPole]; omega) (by simp [isPole]; omega)
  rw [hm]
  simp [mapEdges]

end Retro.Lathe

namespace Retro.Lathe
open Retro.Surface Retro.Cyl

theorem band_cols {lo cnt S : Nat} (hS : 3 ≤ S) : ∀ e ∈ bandEdges lo cnt S, e.1.2 < S + 1 ∧ e.2.2 < S + 1 := by
  intro e he
  obtain ⟨e0, he0, rfl⟩ := mem_band.mp he
  have := cylEdges_cols (R := cnt) hS e0 (by unfold cylEdges; exact List.mem_append_left _ he0)
  simpa [shift] using this

theorem apexFwd_cols {P : V} {r S : Nat} (hP : P.2 < S + 1) :
    ∀ e ∈ apexFwd P r S, e.1.2 < S + 1 ∧ e.2.2 < S + 1 := by
  intro e he
  obtain ⟨i, hi, h | h | h⟩ := mem_apexFwd.mp he <;> subst h <;> have := sm_lt hi <;> simp <;> omega

theorem apexBwd_cols {P : V} {r S : Nat} (hP : P.2 < S + 1) :
    ∀ e ∈ apexBwd P r S, e.1.2 < S + 1 ∧ e.2.2 < S + 1 := by
  intro e he
  have := apexFwd_cols hP (e.2, e.1) (mem_apexBwd.mp he)
  exact ⟨this.2, this.1⟩

/-- Transfer of closedness from a coordinate edge list to the index model. -/
theorem closed_of_enc {secs : Nat} {E : List (V × V)} (hcols : ∀ e ∈ E, e.1.2 < secs + 1 ∧ e.2.2 < secs + 1)
    (h : ClosedG E) : ClosedOriented (mapEdges (enc secs) E) :=
  closedG_nat (closedG_map (enc secs) (fun v => v.2 < secs + 1) _ (fun x y => enc_inj secs x y) hcols h)

end Retro.Lathe
