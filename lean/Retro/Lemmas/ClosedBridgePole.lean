/-
C15 helper (general closedness, all counts): `ident` with pole closures, and the rows of the
lathe model next to a pole.
-/
import Retro.Lemmas.ClosedBridgeCap
import Retro.Lemmas.ClosedSolids

namespace Retro.Lathe
open Retro.Surface Retro.Cyl

/-- is ring `j` collapsed to a point by the closure? -/
def isPole (np : Nat) (cl : Closure) (j : Nat) : Bool :=
  (cl.poleBottom && j == 0) || (cl.poleTop && j == np - 1)

/-- `ident` on a ring vertex for a closure with seam and poles (no wrap). -/
theorem ident_ring_pole {np secs j i : Nat} (cl : Closure) (hseam : cl.seam = true) (hwrap : cl.wrap = false)
    (hs : 0 < secs) (hj : j < np) (hi : i ≤ secs) :
    ident np secs cl (j * (secs + 1) + i) =
      j * (secs + 1) + (if isPole np cl j then 0 else if i = secs then 0 else i) := by
  have hlt : j * (secs + 1) + i < np * (secs + 1) := by
    have : (j + 1) * (secs + 1) ≤ np * (secs + 1) := Nat.mul_le_mul_right _ hj
    rw [Nat.add_mul, Nat.one_mul] at this
    omega
  unfold ident ringVertCount isPole
  simp only [ge_iff_le, Nat.not_le.mpr hlt, if_false, hseam, hwrap, Bool.false_and, if_true,
    Bool.false_eq_true]
  rw [div_enc (by omega), mod_enc (by omega), mod_secs hs hi]

end Retro.Lathe

namespace Retro.Lathe
open Retro.Surface Retro.Cyl

theorem dirEdges_filter_map_flatMap {α : Type} (l : List α) (f : α → List Tri) (g : Tri → Tri)
    (p : Tri → Bool) :
    dirEdges (((l.flatMap f).map g).filter p) = l.flatMap fun x => dirEdges (((f x).map g).filter p) := by
  induction l with
  | nil => rfl
  | cons x xs ih =>
    simp only [List.flatMap_cons, List.map_append, List.filter_append, dirEdges_append]
    rw [ih]

/-- One quad of the model after `ident` for a seam closure with poles. -/
theorem quad_bridge_cl {np secs j0 i0 : Nat} (cl : Closure) (hseam : cl.seam = true)
    (hwrap : cl.wrap = false) (hs : 0 < secs) (hj : j0 + 1 < np) (hi : i0 < secs) :
    (quadFaces (secs + 1) (j0 + 1) (i0 + 1)).map (mapTri (ident np secs cl)) =
      [(enc secs (j0, if isPole np cl j0 then 0 else i0),
        enc secs (j0 + 1, if isPole np cl (j0 + 1) then 0 else sm secs i0),
        enc secs (j0, if isPole np cl j0 then 0 else sm secs i0)),
       (enc secs (j0, if isPole np cl j0 then 0 else i0),
        enc secs (j0 + 1, if isPole np cl (j0 + 1) then 0 else i0),
        enc secs (j0 + 1, if isPole np cl (j0 + 1) then 0 else sm secs i0))] := by
  have e1 : j0 * (secs + 1) + (i0 + 1) - 1 = j0 * (secs + 1) + i0 := by omega
  have e2 : (j0 + 1 - 1) * (secs + 1) + (i0 + 1) = j0 * (secs + 1) + (i0 + 1) := by
    simp only [Nat.add_sub_cancel]
  have e3 : (j0 + 1) * (secs + 1) + (i0 + 1) - 1 = (j0 + 1) * (secs + 1) + i0 := by omega
  have p := ident_ring_pole (np := np) (secs := secs) (j := j0) (i := i0) cl hseam hwrap hs (by omega) (by omega)
  have q := ident_ring_pole (np := np) (secs := secs) (j := j0) (i := i0 + 1) cl hseam hwrap hs (by omega) (by omega)
  have r := ident_ring_pole (np := np) (secs := secs) (j := j0 + 1) (i := i0) cl hseam hwrap hs hj (by omega)
  have s := ident_ring_pole (np := np) (secs := secs) (j := j0 + 1) (i := i0 + 1) cl hseam hwrap hs hj (by omega)
  have hne : ¬ i0 = secs := by omega
  simp only [hne, if_false] at p r
  simp only [quadFaces, e2, e1, e3, List.map_cons, List.map_nil, mapTri, p, q, r, s, enc, sm]

end Retro.Lathe

namespace Retro.Lathe
open Retro.Surface Retro.Cyl

/-- the faces of quad row `j0` of the model (lathe.rs inner loop) -/
def rowFaces (secs j0 : Nat) : List Tri :=
  (List.range secs).flatMap fun i0 => quadFaces (secs + 1) (j0 + 1) (i0 + 1)

theorem sideFaces_rows (np secs : Nat) :
    sideFaces np secs = (List.range (np - 1)).flatMap fun j0 => rowFaces secs j0 := rfl

/-- directed edges of one row after `ident`, degenerate faces dropped -/
def rowMerged (np secs : Nat) (cl : Closure) (j0 : Nat) : List (Nat × Nat) :=
  dirEdges (((rowFaces secs j0).map (mapTri (ident np secs cl))).filter nondegenerate)

theorem enc_succ_row (secs j i : Nat) : enc secs (j + 1, i) = enc secs (j, i) + (secs + 1) := by
  simp only [enc]; rw [Nat.add_mul, Nat.one_mul]; omega

/-- A row between two rings that are not poles: all faces kept, the coordinate quad row. -/
theorem row_normal {np secs j0 : Nat} (cl : Closure) (hseam : cl.seam = true) (hwrap : cl.wrap = false)
    (hs : 2 ≤ secs) (hj : j0 + 1 < np) (h0 : isPole np cl j0 = false) (h1 : isPole np cl (j0 + 1) = false) :
    rowMerged np secs cl j0 = mapEdges (enc secs) (rowEdges secs j0) := by
  unfold rowMerged rowFaces rowEdges
  rw [dirEdges_filter_map_flatMap, mapEdges_flatMap]
  apply flatMap_congr'
  intro i0 hi0
  rw [List.mem_range] at hi0
  rw [quad_bridge_cl cl hseam hwrap (by omega) hj hi0]
  have h2 : sm secs i0 < secs := sm_lt hi0
  have h3 : sm secs i0 ≠ i0 := sm_ne hs
  simp only [h0, h1, Bool.false_eq_true, if_false]
  have nd1 : nondegenerate (enc secs (j0, i0), enc secs (j0 + 1, sm secs i0), enc secs (j0, sm secs i0)) = true := by
    simp only [nondegenerate, enc_succ_row]
    simp only [enc, bne_iff_ne, Bool.and_eq_true]
    refine ⟨⟨?_, ?_⟩, ?_⟩ <;> omega
  have nd2 : nondegenerate (enc secs (j0, i0), enc secs (j0 + 1, i0), enc secs (j0 + 1, sm secs i0)) = true := by
    simp only [nondegenerate, enc_succ_row]
    simp only [enc, bne_iff_ne, Bool.and_eq_true]
    refine ⟨⟨?_, ?_⟩, ?_⟩ <;> omega
  simp [List.filter, nd1, nd2, dirEdges, triEdges, mapEdges, quadEdges]

end Retro.Lathe
