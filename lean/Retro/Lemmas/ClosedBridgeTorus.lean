/-
C15 helper (general closedness, all counts): the lathe model with the wrap closure (torus).
-/
import Retro.Lemmas.ClosedBridgePole
import Retro.Lemmas.ClosedTorus

namespace Retro.Lathe
open Retro.Surface Retro.Cyl

/-- `ident` on a ring vertex with the torus closure: last ring ↦ ring 0, seam column ↦ column 0. -/
theorem ident_ring_wrap {R secs j i : Nat} (hs : 0 < secs) (hj : j < R + 1) (hi : i ≤ secs) :
    ident (R + 1) secs { wrap := true } (j * (secs + 1) + i) =
      (if j = R then 0 else j) * (secs + 1) + (if i = secs then 0 else i) := by
  have hlt : j * (secs + 1) + i < (R + 1) * (secs + 1) := by
    have : (j + 1) * (secs + 1) ≤ (R + 1) * (secs + 1) := Nat.mul_le_mul_right _ hj
    rw [Nat.add_mul j, Nat.one_mul] at this
    omega
  unfold ident ringVertCount
  simp only [ge_iff_le, Nat.not_le.mpr hlt, if_false, Bool.false_and, Bool.or_self, if_true,
    Bool.false_eq_true, Bool.true_and, Nat.add_sub_cancel, beq_iff_eq]
  rw [div_enc (by omega), mod_enc (by omega), mod_secs hs hi]

/-- One quad of the torus model after `ident`. -/
theorem quad_bridge_wrap {R secs j0 i0 : Nat} (hs : 0 < secs) (hj : j0 < R) (hi : i0 < secs) :
    (quadFaces (secs + 1) (j0 + 1) (i0 + 1)).map (mapTri (ident (R + 1) secs { wrap := true })) =
      [(enc secs (j0, i0), enc secs (sm R j0, sm secs i0), enc secs (j0, sm secs i0)),
       (enc secs (j0, i0), enc secs (sm R j0, i0), enc secs (sm R j0, sm secs i0))] := by
  have e1 : j0 * (secs + 1) + (i0 + 1) - 1 = j0 * (secs + 1) + i0 := by omega
  have e2 : (j0 + 1 - 1) * (secs + 1) + (i0 + 1) = j0 * (secs + 1) + (i0 + 1) := by
    simp only [Nat.add_sub_cancel]
  have e3 : (j0 + 1) * (secs + 1) + (i0 + 1) - 1 = (j0 + 1) * (secs + 1) + i0 := by omega
  have p := ident_ring_wrap (R := R) (secs := secs) (j := j0) (i := i0) hs (by omega) (by omega)
  have q := ident_ring_wrap (R := R) (secs := secs) (j := j0) (i := i0 + 1) hs (by omega) (by omega)
  have r := ident_ring_wrap (R := R) (secs := secs) (j := j0 + 1) (i := i0) hs (by omega) (by omega)
  have s := ident_ring_wrap (R := R) (secs := secs) (j := j0 + 1) (i := i0 + 1) hs (by omega) (by omega)
  have hne : ¬ i0 = secs := by omega
  have hjne : ¬ j0 = R := by omega
  simp only [hne, hjne, if_false] at p q r
  simp only [quadFaces, e2, e1, e3, List.map_cons, List.map_nil, mapTri, p, q, r, s, enc, sm]

end Retro.Lathe

namespace Retro.Lathe
open Retro.Surface Retro.Cyl

/-- **Torus model after `ident` = coordinate torus** (`R` rows of quads, `R = minor_sectors`). -/
theorem torus_bridge {R secs : Nat} (hR : 2 ≤ R) (hs : 2 ≤ secs) :
    dirEdges (mergedFaces (R + 1) secs false { wrap := true }) =
      mapEdges (enc secs) (torusEdges R secs) := by
  rw [merged_rows, Nat.add_sub_cancel]
  unfold torusEdges
  rw [mapEdges_flatMap]
  apply flatMap_congr'
  intro j0 hj0
  rw [List.mem_range] at hj0
  unfold rowMerged rowFaces trowEdges
  rw [dirEdges_filter_map_flatMap, mapEdges_flatMap]
  apply flatMap_congr'
  intro i0 hi0
  rw [List.mem_range] at hi0
  rw [quad_bridge_wrap (by omega) hj0 hi0]
  have h2 : sm secs i0 < secs := sm_lt hi0
  have h3 : sm secs i0 ≠ i0 := sm_ne hs
  have r2 : sm R j0 < R := sm_lt hj0
  have r3 : sm R j0 ≠ j0 := sm_ne hR
  -- distinct rows give distinct indices
  have hrow : ∀ a b : Nat, a < secs + 1 → b < secs + 1 →
      enc secs (sm R j0, a) ≠ enc secs (j0, b) := by
    intro a b ha hb h
    have := enc_inj secs (sm R j0, a) (j0, b) ha hb h
    simp only [Prod.mk.injEq] at this
    exact r3 this.1
  have hcol : ∀ j : Nat, enc secs (j, sm secs i0) ≠ enc secs (j, i0) := by
    intro j h
    have := enc_inj secs (j, sm secs i0) (j, i0) (by simp; omega) (by simp; omega) h
    simp only [Prod.mk.injEq] at this
    exact h3 this.2
  have nd1 : nondegenerate (enc secs (j0, i0), enc secs (sm R j0, sm secs i0), enc secs (j0, sm secs i0)) = true := by
    simp only [nondegenerate, bne_iff_ne, Bool.and_eq_true]
    exact ⟨⟨fun h => hrow _ _ (by omega) (by omega) h.symm, hrow _ _ (by omega) (by omega)⟩,
      fun h => hcol j0 h.symm⟩
  have nd2 : nondegenerate (enc secs (j0, i0), enc secs (sm R j0, i0), enc secs (sm R j0, sm secs i0)) = true := by
    simp only [nondegenerate, bne_iff_ne, Bool.and_eq_true]
    exact ⟨⟨fun h => hrow _ _ (by omega) (by omega) h.symm, fun h => hcol _ h.symm⟩,
      fun h => hrow _ _ (by omega) (by omega) h.symm⟩
  simp [List.filter, nd1, nd2, dirEdges, triEdges, mapEdges, tquadEdges]

end Retro.Lathe
