/-
C15 helper (general closedness, all counts): which vertices and how many edges the coordinate
cylinder has.
-/
import Retro.Lemmas.ClosedFan
import Retro.Lemmas.Lathe

namespace Retro.Cyl
open Retro.Surface

/-- Rows of all vertices of the coordinate cylinder are `≤ R`, columns `< S`. -/
theorem cylEdges_bounds {R S : Nat} (hS : 3 ≤ S) :
    ∀ e ∈ cylEdges R S, (e.1.1 ≤ R ∧ e.1.2 < S) ∧ (e.2.1 ≤ R ∧ e.2.2 < S) := by
  intro e he
  unfold cylEdges at he
  simp only [List.mem_append] at he
  have hfan : ∀ r (e : V × V), e ∈ fanFwd r S → (e.1.1 = r ∧ e.1.2 < S) ∧ (e.2.1 = r ∧ e.2.2 < S) := by
    intro r e he
    obtain ⟨k, hk, h | h | h⟩ := mem_fanFwd.mp he <;> subst h <;> simp <;> omega
  rcases he with he | he | he
  · obtain ⟨j, hj, i, hi, hq⟩ := mem_sideEdges.mp he
    have := sm_lt hi
    simp only [quadEdges, List.mem_cons, List.mem_nil_iff, or_false] at hq
    rcases hq with rfl | rfl | rfl | rfl | rfl | rfl <;> simp <;> omega
  · have := hfan 0 e he; omega
  · have := hfan R (e.2, e.1) (mem_fanBwd.mp he)
    simp only at this
    omega

/-- Every grid vertex `(j, i)`, `j ≤ R`, `i < S`, is the source of an edge (it is used by a face). -/
theorem cyl_source {R S j i : Nat} (hR : 1 ≤ R) (hj : j ≤ R) (hi : i < S) :
    ∃ e ∈ cylEdges R S, e.1 = (j, i) := by
  by_cases h : j < R
  · exact ⟨((j, i), (j + 1, sm S i)),
      List.mem_append_left _ (quad_mem_side h hi (by simp [quadEdges])), rfl⟩
  · have hj' : j = R := by omega
    subst hj'
    refine ⟨((j, i), (j, sm S i)), List.mem_append_left _ (quad_mem_side (j := j - 1) (by omega) hi ?_), rfl⟩
    have : j - 1 + 1 = j := by omega
    simp [quadEdges, this]

theorem length_cylEdges (R S : Nat) : (cylEdges R S).length = R * (S * 6) + (S - 2) * 3 + (S - 2) * 3 := by
  unfold cylEdges sideEdges rowEdges fanFwd fanBwd
  rw [List.length_append, List.length_append,
    Retro.Lathe.length_flatMap_const _ _ (S * 6), Retro.Lathe.length_flatMap_const _ _ 3,
    Retro.Lathe.length_flatMap_const _ _ 3]
  · simp; omega
  · intro _; rfl
  · intro _; rfl
  · intro j
    rw [Retro.Lathe.length_flatMap_const _ _ 6]
    · simp
    · intro _; rfl

end Retro.Cyl
