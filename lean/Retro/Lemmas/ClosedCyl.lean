/-
C15 helper (general closedness, all counts): the side surface of the lathe in coordinates
(ring j, column i) with the seam column identified with column 0, for every number of rings and
every `S ≥ 3` columns.
-/
import Retro.Lemmas.ClosedBasic

namespace Retro.Cyl
open Retro.Surface

abbrev V := Nat × Nat

/-- next / previous column on a ring of `S` columns -/
def sm (S i : Nat) : Nat := if i + 1 = S then 0 else i + 1
def pm (S i : Nat) : Nat := if i = 0 then S - 1 else i - 1

theorem sm_lt {S i : Nat} (hi : i < S) : sm S i < S := by unfold sm; split <;> omega
theorem pm_lt {S i : Nat} (hi : i < S) : pm S i < S := by unfold pm; split <;> omega
theorem sm_ne {S i : Nat} (hS : 2 ≤ S) : sm S i ≠ i := by unfold sm; split <;> omega
theorem sm_sm_ne {S i : Nat} (hS : 3 ≤ S) : sm S (sm S i) ≠ i := by
  unfold sm; split <;> split <;> omega
theorem pm_sm {S i : Nat} (hS : 2 ≤ S) : pm S (sm S i) = i := by
  unfold sm pm; split <;> split <;> omega
theorem sm_pm {S i : Nat} (hS : 2 ≤ S) (hi : i < S) : sm S (pm S i) = i := by
  unfold sm pm; split <;> split <;> omega
theorem sm_inj {S i k : Nat} (h : sm S i = sm S k) : i = k := by
  unfold sm at h; split at h <;> split at h <;> omega

/-- Directed edges of the two triangles `(a,d,b)`, `(a,c,d)` of quad `(j,i)`:
`a = (j,i)`, `b = (j,i+1)`, `c = (j+1,i)`, `d = (j+1,i+1)` (lathe.rs `p,q,r,s`). -/
def quadEdges (S j i : Nat) : List (V × V) :=
  [((j, i), (j + 1, sm S i)), ((j + 1, sm S i), (j, sm S i)), ((j, sm S i), (j, i)),
   ((j, i), (j + 1, i)), ((j + 1, i), (j + 1, sm S i)), ((j + 1, sm S i), (j, i))]

def rowEdges (S j : Nat) : List (V × V) := (List.range S).flatMap fun i => quadEdges S j i

/-- All directed edges of the side surface with `R` rows of quads (`R + 1` rings). -/
def sideEdges (R S : Nat) : List (V × V) := (List.range R).flatMap fun j => rowEdges S j

theorem mem_sideEdges {R S : Nat} {e : V × V} :
    e ∈ sideEdges R S ↔ ∃ j, j < R ∧ ∃ i, i < S ∧ e ∈ quadEdges S j i := by
  simp [sideEdges, rowEdges, List.mem_flatMap, List.mem_range]

/-- quad row of an edge: the lower of its two rings; an edge inside one ring belongs to the quad
row above it if it runs against the column order (`b→a`), to the row below if it runs with it (`c→d`) -/
def rowKey (S : Nat) (e : V × V) : Nat :=
  if e.1.1 = e.2.1 then (if e.2.2 = sm S e.1.2 then e.1.1 - 1 else e.1.1) else min e.1.1 e.2.1

/-- quad column of an edge -/
def colKey (S : Nat) (e : V × V) : Nat :=
  if e.1.1 < e.2.1 then e.1.2                              -- a→d, a→c
  else if e.2.1 < e.1.1 then (if e.1.2 = e.2.2 then pm S e.2.2 else e.2.2)   -- d→b, d→a
  else if e.2.2 = sm S e.1.2 then e.1.2 else e.2.2         -- c→d, b→a

theorem rowKey_quad {S j i : Nat} (hS : 3 ≤ S) {e : V × V} (he : e ∈ quadEdges S j i) :
    rowKey S e = j := by
  have h1 : i ≠ sm S (sm S i) := fun h => sm_sm_ne hS h.symm
  simp only [quadEdges, List.mem_cons, List.mem_nil_iff, or_false] at he
  rcases he with rfl | rfl | rfl | rfl | rfl | rfl <;> simp [rowKey, h1]

theorem colKey_quad {S j i : Nat} (hS : 3 ≤ S) {e : V × V} (he : e ∈ quadEdges S j i) :
    colKey S e = i := by
  have h1 : i ≠ sm S (sm S i) := fun h => sm_sm_ne hS h.symm
  have h2 : sm S i ≠ i := sm_ne (by omega)
  have h3 := pm_sm (S := S) (i := i) (by omega)
  simp only [quadEdges, List.mem_cons, List.mem_nil_iff, or_false] at he
  rcases he with rfl | rfl | rfl | rfl | rfl | rfl <;> simp [colKey, h1, h2, h3]

theorem quadEdges_nodup {S j i : Nat} (hS : 3 ≤ S) : (quadEdges S j i).Nodup := by
  have h1 : sm S i ≠ i := by unfold sm; split <;> omega
  simp only [quadEdges, List.nodup_cons, List.mem_cons, or_false, Prod.mk.injEq,
    List.not_mem_nil, not_false_eq_true, List.nodup_nil, and_true, not_or]
  refine ⟨⟨?_, ?_, ?_, ?_, ?_⟩, ⟨?_, ?_, ?_, ?_⟩, ⟨?_, ?_, ?_⟩, ⟨?_, ?_⟩, ?_⟩ <;> omega

theorem rowEdges_nodup {S j : Nat} (hS : 3 ≤ S) : (rowEdges S j).Nodup :=
  nodup_flatMap_of_key _ _ (colKey S) List.nodup_range (fun _ _ => quadEdges_nodup hS)
    (fun _ _ _ hy => colKey_quad hS hy)

/-- **No directed edge of the side surface is used twice**, any number of rows, `S ≥ 3`. -/
theorem sideEdges_nodup (R : Nat) {S : Nat} (hS : 3 ≤ S) : (sideEdges R S).Nodup := by
  refine nodup_flatMap_of_key _ _ (rowKey S) List.nodup_range (fun _ _ => rowEdges_nodup hS) ?_
  intro j _ e he
  simp only [rowEdges, List.mem_flatMap, List.mem_range] at he
  obtain ⟨i, _, hq⟩ := he
  exact rowKey_quad hS hq

end Retro.Cyl

namespace Retro.Cyl
open Retro.Surface

/-- both ends of the edge lie on ring `r` -/
def onRing (r : Nat) (e : V × V) : Prop := e.1.1 = r ∧ e.2.1 = r

theorem quad_mem_side {R S j i : Nat} (hj : j < R) (hi : i < S) {e : V × V}
    (he : e ∈ quadEdges S j i) : e ∈ sideEdges R S :=
  mem_sideEdges.mpr ⟨j, hj, i, hi, he⟩

/-- An edge running *with* the column order inside ring 0 is not an edge of the side surface. -/
theorem ring0_forward_not_mem {R S i : Nat} (hS : 3 ≤ S) :
    ((0, i), (0, sm S i)) ∉ sideEdges R S := by
  intro h
  obtain ⟨j', _, i', _, hq⟩ := mem_sideEdges.mp h
  simp only [quadEdges, List.mem_cons, List.mem_nil_iff, or_false, Prod.mk.injEq] at hq
  rcases hq with h | h | h | h | h | h
  · omega
  · omega
  · obtain ⟨⟨_, h1⟩, _, h2⟩ := h
    subst h2
    exact sm_sm_ne hS h1.symm
  · omega
  · omega
  · omega

/-- An edge running *against* the column order inside the last ring `R` is not an edge of the side. -/
theorem ringR_backward_not_mem {R S i : Nat} (hS : 3 ≤ S) :
    ((R, sm S i), (R, i)) ∉ sideEdges R S := by
  intro h
  obtain ⟨j', hj', i', _, hq⟩ := mem_sideEdges.mp h
  simp only [quadEdges, List.mem_cons, List.mem_nil_iff, or_false, Prod.mk.injEq] at hq
  rcases hq with h | h | h | h | h | h
  · omega
  · omega
  · omega
  · omega
  · obtain ⟨⟨_, h1⟩, _, h2⟩ := h
    subst h1
    exact sm_sm_ne hS h2.symm
  · omega

end Retro.Cyl

namespace Retro.Cyl
open Retro.Surface

/-- **Pairing of the side surface, all counts.**  The reverse of a directed edge of the side
surface is again an edge of the side surface iff the edge does not lie inside the first ring
(ring 0) or inside the last ring (ring `R`). -/
theorem side_paired {R S : Nat} (hS : 3 ≤ S) {e : V × V} (he : e ∈ sideEdges R S) :
    (e.2, e.1) ∈ sideEdges R S ↔ ¬ (onRing 0 e ∨ onRing R e) := by
  obtain ⟨j, hj, i, hi, hq⟩ := mem_sideEdges.mp he
  have hsm := sm_lt (S := S) hi
  simp only [quadEdges, List.mem_cons, List.mem_nil_iff, or_false] at hq
  rcases hq with rfl | rfl | rfl | rfl | rfl | rfl
  · -- a→d, reverse d→a in the same quad
    refine ⟨fun _ => by simp [onRing]; omega, fun _ => quad_mem_side hj hi ?_⟩
    simp [quadEdges]
  · -- d→b, reverse b→d is a→c of the next column
    refine ⟨fun _ => by simp [onRing]; omega, fun _ => quad_mem_side hj hsm ?_⟩
    simp [quadEdges]
  · -- b→a inside ring j
    constructor
    · intro h
      simp only [onRing, not_or, not_and]
      refine ⟨fun h0 => ?_, fun hR => by omega⟩
      subst h0
      exact absurd h (ring0_forward_not_mem hS)
    · intro h
      have hj0 : j ≠ 0 := by
        intro h0; subst h0; exact h (Or.inl ⟨rfl, rfl⟩)
      have : ((j, i), (j, sm S i)) ∈ quadEdges S (j - 1) i := by
        have : j - 1 + 1 = j := by omega
        simp [quadEdges, this]
      exact quad_mem_side (by omega) hi this
  · -- a→c, reverse c→a is d→b of the previous column
    refine ⟨fun _ => by simp [onRing]; omega, fun _ => quad_mem_side hj (pm_lt hi) ?_⟩
    simp [quadEdges, sm_pm (S := S) (by omega) hi]
  · -- c→d inside ring j+1
    constructor
    · intro h
      simp only [onRing, not_or, not_and]
      refine ⟨fun h0 => by omega, fun hR _ => ?_⟩
      subst hR
      exact absurd h (ringR_backward_not_mem hS)
    · intro h
      have hjR : j + 1 < R := by
        rcases Nat.lt_or_ge (j + 1) R with h' | h'
        · exact h'
        · have : j + 1 = R := by omega
          exact absurd (Or.inr ⟨this, this⟩) h
      exact quad_mem_side hjR hi (by simp [quadEdges])
  · -- d→a, reverse a→d in the same quad
    refine ⟨fun _ => by simp [onRing]; omega, fun _ => quad_mem_side hj hi ?_⟩
    simp [quadEdges]

end Retro.Cyl
