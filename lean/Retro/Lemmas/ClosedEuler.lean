/-
C15 helper (general closedness, all counts): counting vertices for the Euler characteristic.
-/
import Retro.Lemmas.Surface
import Retro.Lemmas.ClosedBasic

namespace Retro.Surface

theorem usedMask_fold (fs : List Tri) : ∀ (m k : Nat),
    (fs.foldl (fun m t => m ||| (1 <<< t.1) ||| (1 <<< t.2.1) ||| (1 <<< t.2.2)) m).testBit k = true ↔
      (m.testBit k = true ∨ ∃ t ∈ fs, t.1 = k ∨ t.2.1 = k ∨ t.2.2 = k) := by
  induction fs with
  | nil => intro m k; simp
  | cons t ts ih =>
    intro m k
    rw [List.foldl_cons, ih, bit_or, bit_or, bit_or]
    simp only [Bool.or_eq_true, decide_eq_true_eq, List.mem_cons, exists_eq_or_imp]
    constructor
    · rintro ((((h | h) | h) | h) | h)
      · exact Or.inl h
      · exact Or.inr (Or.inl (Or.inl h))
      · exact Or.inr (Or.inl (Or.inr (Or.inl h)))
      · exact Or.inr (Or.inl (Or.inr (Or.inr h)))
      · exact Or.inr (Or.inr h)
    · rintro (h | (h | h | h) | h)
      · exact Or.inl (Or.inl (Or.inl (Or.inl h)))
      · exact Or.inl (Or.inl (Or.inl (Or.inr h)))
      · exact Or.inl (Or.inl (Or.inr h))
      · exact Or.inl (Or.inr h)
      · exact Or.inr h

/-- Bit `k` of `usedMask` is set iff `k` is the source of a directed edge of some face. -/
theorem usedMask_testBit (fs : List Tri) (k : Nat) :
    (usedMask fs).testBit k = true ↔ ∃ e ∈ dirEdges fs, e.1 = k := by
  unfold usedMask
  rw [usedMask_fold]
  simp only [Nat.zero_testBit, Bool.false_eq_true, false_or, dirEdges, List.mem_flatMap, triEdges,
    List.mem_cons, List.mem_nil_iff, or_false]
  constructor
  · rintro ⟨t, ht, h | h | h⟩
    · exact ⟨(t.1, t.2.1), ⟨t, ht, Or.inl rfl⟩, h⟩
    · exact ⟨(t.2.1, t.2.2), ⟨t, ht, Or.inr (Or.inl rfl)⟩, h⟩
    · exact ⟨(t.2.2, t.1), ⟨t, ht, Or.inr (Or.inr rfl)⟩, h⟩
  · rintro ⟨e, ⟨t, ht, h | h | h⟩, hk⟩ <;> subst h
    · exact ⟨t, ht, Or.inl hk⟩
    · exact ⟨t, ht, Or.inr (Or.inl hk)⟩
    · exact ⟨t, ht, Or.inr (Or.inr hk)⟩

end Retro.Surface

namespace Retro.Surface

/-- Number of elements of `a, a+1, …, a+len−1` satisfying `p`, when exactly the first `S` do. -/
theorem count_prefix (a len S : Nat) (p : Nat → Bool) (hS : S ≤ len)
    (hp : ∀ i, i < len → (p (a + i) = true ↔ i < S)) :
    (((List.range len).map fun i => a + i).filter p).length = S := by
  obtain ⟨d, rfl⟩ : ∃ d, len = S + d := ⟨len - S, by omega⟩
  rw [List.range_add, List.map_append, List.filter_append, List.length_append]
  have h1 : List.filter p (List.map (fun i => a + i) (List.range S)) = List.map (fun i => a + i) (List.range S) := by
    rw [List.filter_eq_self]
    intro x hx
    rw [List.mem_map] at hx
    obtain ⟨i, hi, rfl⟩ := hx
    rw [List.mem_range] at hi
    exact (hp i (by omega)).mpr hi
  have h2 : List.filter p (List.map (fun i => a + i) (List.map (fun x => S + x) (List.range d))) = [] := by
    rw [List.filter_eq_nil_iff]
    intro x hx
    rw [List.mem_map] at hx
    obtain ⟨i, hi, rfl⟩ := hx
    rw [List.mem_map] at hi
    obtain ⟨i', hi', rfl⟩ := hi
    rw [List.mem_range] at hi'
    intro hpx
    have := (hp (S + i') (by omega)).mp hpx
    omega
  rw [h1, h2]
  simp

/-- Vertices `j·n + i` with `j < M`, `i < S` (`S ≤ n`) among the indices below `bound ≥ M·n`. -/
theorem count_grid (M n S bound : Nat) (hS : S ≤ n) (hb : M * n ≤ bound) :
    ((List.range bound).filter fun k => decide (k < M * n ∧ k % n < S)).length = M * S := by
  obtain ⟨d, rfl⟩ : ∃ d, bound = M * n + d := ⟨bound - M * n, by omega⟩
  rw [List.range_add, List.filter_append, List.length_append]
  have htail : (List.filter (fun k => decide (k < M * n ∧ k % n < S))
      (List.map (fun x => M * n + x) (List.range d))) = [] := by
    rw [List.filter_eq_nil_iff]
    intro x hx
    rw [List.mem_map] at hx
    obtain ⟨i, _, rfl⟩ := hx
    simp only [decide_eq_true_eq, not_and]
    intro h; omega
  rw [htail, List.length_nil, Nat.add_zero]
  clear htail hb
  induction M with
  | zero => simp
  | succ M ih =>
    rw [Nat.add_mul, Nat.one_mul, List.range_add, List.filter_append, List.length_append]
    have h1 : (List.filter (fun k => decide (k < M * n + n ∧ k % n < S)) (List.range (M * n))) =
        (List.filter (fun k => decide (k < M * n ∧ k % n < S)) (List.range (M * n))) := by
      apply List.filter_congr
      intro x hx
      rw [List.mem_range] at hx
      have : x < M * n + n := by omega
      simp [hx, this]
    rw [h1, ih]
    have h2 := count_prefix (M * n) n S (fun k => decide (k < M * n + n ∧ k % n < S)) hS (by
      intro i hi
      have hm : (M * n + i) % n = i := by
        rw [Nat.mul_comm, Nat.mul_add_mod, Nat.mod_eq_of_lt hi]
      simp [hm, hi])
    rw [h2, Nat.add_mul, Nat.one_mul]

end Retro.Surface

namespace Retro.Surface

/-- `w 0 + … + w (M−1)` -/
def rowSum (w : Nat → Nat) : Nat → Nat
  | 0 => 0
  | M + 1 => rowSum w M + w M

/-- Counting index by rows of width `n`: if in row `j < M` exactly the first `w j` columns satisfy
`p`, and nothing from `M·n` on does, the number of indices below `bound` satisfying `p` is `Σ w j`. -/
theorem count_rows (M n bound : Nat) (p : Nat → Bool) (w : Nat → Nat) (hb : M * n ≤ bound)
    (hw : ∀ j, j < M → w j ≤ n)
    (hp : ∀ j, j < M → ∀ i, i < n → (p (j * n + i) = true ↔ i < w j))
    (htail : ∀ k, M * n ≤ k → p k = false) :
    ((List.range bound).filter p).length = rowSum w M := by
  obtain ⟨d, rfl⟩ : ∃ d, bound = M * n + d := ⟨bound - M * n, by omega⟩
  rw [List.range_add, List.filter_append, List.length_append]
  have ht : (List.filter p (List.map (fun x => M * n + x) (List.range d))) = [] := by
    rw [List.filter_eq_nil_iff]
    intro x hx
    rw [List.mem_map] at hx
    obtain ⟨i, _, rfl⟩ := hx
    rw [htail _ (by omega)]
    simp
  rw [ht, List.length_nil, Nat.add_zero]
  clear ht htail hb
  induction M with
  | zero => simp [rowSum]
  | succ M ih =>
    rw [Nat.add_mul, Nat.one_mul, List.range_add, List.filter_append, List.length_append,
      ih (fun j hj => hw j (by omega)) (fun j hj => hp j (by omega))]
    rw [count_prefix (M * n) n (w M) p (hw M (by omega)) (fun i hi => hp M (by omega) i hi)]
    rfl

theorem rowSum_const (S : Nat) (w : Nat → Nat) (M : Nat) (h : ∀ j, j < M → w j = S) :
    rowSum w M = M * S := by
  induction M with
  | zero => simp [rowSum]
  | succ M ih =>
    rw [rowSum, ih (fun j hj => h j (by omega)), h M (by omega), Nat.add_mul, Nat.one_mul]

end Retro.Surface
