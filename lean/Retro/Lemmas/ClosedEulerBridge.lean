/-
C15 helper (general closedness, all counts): number of used vertices of a merged face list from
the row widths of its coordinate form.
-/
import Retro.Lemmas.ClosedEuler
import Retro.Lemmas.ClosedBridgeCap

namespace Retro.Lathe
open Retro.Surface Retro.Cyl

theorem vertexCount_rows (fs : List Tri) (E : List (V × V)) (secs M bound : Nat) (w : Nat → Nat)
    (hE : dirEdges fs = mapEdges (enc secs) E)
    (hcols : ∀ e ∈ E, e.1.2 < secs + 1 ∧ e.2.2 < secs + 1)
    (hsrc : ∀ j i, i < secs + 1 → ((∃ e ∈ E, e.1 = (j, i)) ↔ (j < M ∧ i < w j)))
    (hw : ∀ j, j < M → w j ≤ secs + 1) (hb : M * (secs + 1) ≤ bound) :
    vertexCount bound fs = rowSum w M := by
  have key : ∀ j i, i < secs + 1 →
      ((usedMask fs).testBit (j * (secs + 1) + i) = true ↔ (j < M ∧ i < w j)) := by
    intro j i hi
    rw [usedMask_testBit, hE, ← hsrc j i hi]
    constructor
    · rintro ⟨e, he, hk⟩
      unfold mapEdges at he
      rw [List.mem_map] at he
      obtain ⟨e0, he0, rfl⟩ := he
      refine ⟨e0, he0, ?_⟩
      exact enc_inj secs e0.1 (j, i) (hcols e0 he0).1 hi hk
    · rintro ⟨e, he, hk⟩
      refine ⟨(enc secs e.1, enc secs e.2), ?_, by simp [hk, enc]⟩
      unfold mapEdges; rw [List.mem_map]; exact ⟨e, he, rfl⟩
  unfold vertexCount
  apply count_rows M (secs + 1) bound _ w hb hw
  · intro j hj i hi
    rw [key j i hi]
    exact ⟨fun h => h.2, fun h => ⟨hj, h⟩⟩
  · intro k hk
    have hk' : k = (k / (secs + 1)) * (secs + 1) + k % (secs + 1) := (Nat.div_add_mod' k (secs + 1)).symm
    have hmod : k % (secs + 1) < secs + 1 := Nat.mod_lt _ (by omega)
    have hdiv : M ≤ k / (secs + 1) := (Nat.le_div_iff_mul_le (by omega)).mpr hk
    rw [hk', Bool.eq_false_iff]
    intro h
    have := (key _ _ hmod).mp h
    omega

end Retro.Lathe
