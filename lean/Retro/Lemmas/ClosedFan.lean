/-
C15 helper (general closedness, all counts): the cap fan `(0, k, k+1)`, `k = 1 .. S−2`, over the
`S` vertices of one ring, in coordinates.
-/
import Retro.Lemmas.ClosedCyl

namespace Retro.Cyl
open Retro.Surface

/-- Edges of the fan triangles `((r,0),(r,k+1),(r,k+2))`, `k < S − 2` (the bottom cap's
non-degenerate faces, lathe.rs:139-141, after identifying the cap ring with ring `r`). -/
def fanFwd (r S : Nat) : List (V × V) :=
  (List.range (S - 2)).flatMap fun k =>
    [((r, 0), (r, k + 1)), ((r, k + 1), (r, k + 2)), ((r, k + 2), (r, 0))]

theorem mem_fanFwd {r S : Nat} {e : V × V} :
    e ∈ fanFwd r S ↔ ∃ k, k < S - 2 ∧
      (e = ((r, 0), (r, k + 1)) ∨ e = ((r, k + 1), (r, k + 2)) ∨ e = ((r, k + 2), (r, 0))) := by
  simp [fanFwd, List.mem_flatMap, List.mem_range]

def fanKey (e : V × V) : Nat :=
  if e.1.2 = 0 then e.2.2 - 1 else if e.2.2 = 0 then e.1.2 - 2 else e.1.2 - 1

theorem fanFwd_nodup (r S : Nat) : (fanFwd r S).Nodup := by
  refine nodup_flatMap_of_key _ _ fanKey List.nodup_range ?_ ?_
  · intro k _
    simp only [List.nodup_cons, List.mem_cons, or_false, Prod.mk.injEq,
      List.not_mem_nil, not_false_eq_true, List.nodup_nil, and_true, not_or]
    refine ⟨⟨?_, ?_⟩, ?_⟩ <;> omega
  · intro k _ e he
    simp only [List.mem_cons, List.mem_nil_iff, or_false] at he
    rcases he with rfl | rfl | rfl <;> simp [fanKey]

theorem fanFwd_onRing {r S : Nat} {e : V × V} (he : e ∈ fanFwd r S) : onRing r e := by
  obtain ⟨k, _, h | h | h⟩ := mem_fanFwd.mp he <;> subst h <;> exact ⟨rfl, rfl⟩

/-- The fan contains every polygon edge `i → i+1 (mod S)` of its ring. -/
theorem fanFwd_boundary {r S i : Nat} (hS : 3 ≤ S) (hi : i < S) :
    ((r, i), (r, sm S i)) ∈ fanFwd r S := by
  rw [mem_fanFwd]
  by_cases h0 : i = 0
  · subst h0
    exact ⟨0, by omega, Or.inl (by simp [sm]; omega)⟩
  · by_cases hl : i + 1 = S
    · refine ⟨S - 3, by omega, Or.inr (Or.inr ?_)⟩
      have : S - 3 + 2 = i := by omega
      simp [sm, hl, this]
    · refine ⟨i - 1, by omega, Or.inr (Or.inl ?_)⟩
      have h1 : i - 1 + 1 = i := by omega
      have h2 : i - 1 + 2 = i + 1 := by omega
      simp [sm, hl, h1, h2]

/-- … and none of the reversed polygon edges. -/
theorem fanFwd_no_backward {r S i : Nat} (hS : 3 ≤ S) :
    ((r, sm S i), (r, i)) ∉ fanFwd r S := by
  intro h
  obtain ⟨k, hk, h | h | h⟩ := mem_fanFwd.mp h <;>
    simp only [Prod.mk.injEq, true_and] at h <;> unfold sm at h <;> split at h <;> omega

/-- Every fan edge is either an interior diagonal, whose reverse is in the fan too, or a polygon edge. -/
theorem fanFwd_paired {r S : Nat} {e : V × V} (he : e ∈ fanFwd r S) :
    (e.2, e.1) ∈ fanFwd r S ∨ ∃ i, i < S ∧ e = ((r, i), (r, sm S i)) := by
  obtain ⟨k, hk, h | h | h⟩ := mem_fanFwd.mp he <;> subst h
  · by_cases h0 : k = 0
    · subst h0
      exact Or.inr ⟨0, by omega, by simp [sm]; omega⟩
    · refine Or.inl (mem_fanFwd.mpr ⟨k - 1, by omega, Or.inr (Or.inr ?_)⟩)
      have : k - 1 + 2 = k + 1 := by omega
      simp [this]
  · exact Or.inr ⟨k + 1, by omega, by simp [sm]; omega⟩
  · by_cases hl : k + 3 = S
    · refine Or.inr ⟨k + 2, by omega, ?_⟩
      have : k + 2 + 1 = S := by omega
      simp [sm, this]
    · refine Or.inl (mem_fanFwd.mpr ⟨k + 1, by omega, Or.inl ?_⟩)
      simp

end Retro.Cyl

namespace Retro.Cyl
open Retro.Surface

/-- Edges of the reversed fan `((r,0),(r,k+2),(r,k+1))` (the top cap, lathe.rs:150-152). -/
def fanBwd (r S : Nat) : List (V × V) :=
  (List.range (S - 2)).flatMap fun k =>
    [((r, 0), (r, k + 2)), ((r, k + 2), (r, k + 1)), ((r, k + 1), (r, 0))]

theorem mem_fanBwd {r S : Nat} {e : V × V} : e ∈ fanBwd r S ↔ (e.2, e.1) ∈ fanFwd r S := by
  obtain ⟨⟨a, b⟩, ⟨c, d⟩⟩ := e
  simp only [fanBwd, List.mem_flatMap, List.mem_range, List.mem_cons, List.mem_nil_iff, or_false,
    Prod.mk.injEq, mem_fanFwd]
  constructor
  · rintro ⟨k, hk, h | h | h⟩
    · exact ⟨k, hk, Or.inr (Or.inr (by omega))⟩
    · exact ⟨k, hk, Or.inr (Or.inl (by omega))⟩
    · exact ⟨k, hk, Or.inl (by omega)⟩
  · rintro ⟨k, hk, h | h | h⟩
    · exact ⟨k, hk, Or.inr (Or.inr (by omega))⟩
    · exact ⟨k, hk, Or.inr (Or.inl (by omega))⟩
    · exact ⟨k, hk, Or.inl (by omega)⟩

def fanKeyB (e : V × V) : Nat :=
  if e.1.2 = 0 then e.2.2 - 2 else if e.2.2 = 0 then e.1.2 - 1 else e.2.2 - 1

theorem fanBwd_nodup (r S : Nat) : (fanBwd r S).Nodup := by
  refine nodup_flatMap_of_key _ _ fanKeyB List.nodup_range ?_ ?_
  · intro k _
    simp only [List.nodup_cons, List.mem_cons, or_false, Prod.mk.injEq,
      List.not_mem_nil, not_false_eq_true, List.nodup_nil, and_true, not_or]
    refine ⟨⟨?_, ?_⟩, ?_⟩ <;> omega
  · intro k _ e he
    simp only [List.mem_cons, List.mem_nil_iff, or_false] at he
    rcases he with rfl | rfl | rfl <;> simp [fanKeyB]

/-- A side edge inside ring 0 runs against the column order. -/
theorem side_ring0 {R S : Nat} {e : V × V} (he : e ∈ sideEdges R S) (h0 : onRing 0 e) :
    ∃ i, i < S ∧ e = ((0, sm S i), (0, i)) := by
  obtain ⟨j, _, i, hi, hq⟩ := mem_sideEdges.mp he
  obtain ⟨h1, h2⟩ := h0
  simp only [quadEdges, List.mem_cons, List.mem_nil_iff, or_false] at hq
  rcases hq with rfl | rfl | rfl | rfl | rfl | rfl <;> simp only at h1 h2 <;> try omega
  subst h1
  exact ⟨i, hi, rfl⟩

/-- A side edge inside the last ring runs with the column order. -/
theorem side_ringR {R S : Nat} {e : V × V} (he : e ∈ sideEdges R S) (hR : onRing R e) :
    ∃ i, i < S ∧ e = ((R, i), (R, sm S i)) := by
  obtain ⟨j, hj, i, hi, hq⟩ := mem_sideEdges.mp he
  obtain ⟨h1, h2⟩ := hR
  simp only [quadEdges, List.mem_cons, List.mem_nil_iff, or_false] at hq
  rcases hq with rfl | rfl | rfl | rfl | rfl | rfl <;> simp only at h1 h2 <;> try omega
  subst h1
  exact ⟨i, hi, rfl⟩

end Retro.Cyl

namespace Retro.Cyl
open Retro.Surface

/-- Side surface plus bottom fan on ring 0 plus reversed fan on the last ring `R`. -/
def cylEdges (R S : Nat) : List (V × V) := sideEdges R S ++ (fanFwd 0 S ++ fanBwd R S)

/-- **Capped cylinder / truncated cone, all counts**: for every `R ≥ 1` rows of quads and every
`S ≥ 3` columns, side + bottom fan + top fan is closed and consistently wound. -/
theorem cyl_closed {R S : Nat} (hR : 1 ≤ R) (hS : 3 ≤ S) : ClosedG (cylEdges R S) := by
  constructor
  · unfold cylEdges
    rw [List.nodup_append]
    refine ⟨sideEdges_nodup R hS, ?_, ?_⟩
    · rw [List.nodup_append]
      refine ⟨fanFwd_nodup 0 S, fanBwd_nodup R S, ?_⟩
      intro a ha b hb hab
      subst hab
      have h1 := fanFwd_onRing ha
      have h2 := fanFwd_onRing (mem_fanBwd.mp hb)
      obtain ⟨h1, _⟩ := h1
      obtain ⟨_, h2⟩ := h2
      simp only at h1 h2
      omega
    · intro a ha b hb hab
      subst hab
      rw [List.mem_append] at hb
      rcases hb with hb | hb
      · obtain ⟨i, _, rfl⟩ := side_ring0 ha (fanFwd_onRing hb)
        exact fanFwd_no_backward hS hb
      · have hb' := mem_fanBwd.mp hb
        have hr := fanFwd_onRing hb'
        obtain ⟨i, _, rfl⟩ := side_ringR ha ⟨hr.2, hr.1⟩
        exact fanFwd_no_backward hS hb'
  · intro e he
    unfold cylEdges at he ⊢
    simp only [List.mem_append] at he ⊢
    rcases he with he | he | he
    · by_cases hb : onRing 0 e ∨ onRing R e
      · rcases hb with hb | hb
        · obtain ⟨i, hi, rfl⟩ := side_ring0 he hb
          exact Or.inr (Or.inl (fanFwd_boundary hS hi))
        · obtain ⟨i, hi, rfl⟩ := side_ringR he hb
          exact Or.inr (Or.inr (mem_fanBwd.mpr (fanFwd_boundary hS hi)))
      · exact Or.inl ((side_paired hS he).mpr hb)
    · rcases fanFwd_paired he with h | ⟨i, hi, rfl⟩
      · exact Or.inr (Or.inl h)
      · refine Or.inl (quad_mem_side (j := 0) (by omega) hi ?_)
        simp [quadEdges]
    · have he' := mem_fanBwd.mp he
      rcases fanFwd_paired he' with h | ⟨i, hi, h⟩
      · exact Or.inr (Or.inr (mem_fanBwd.mpr h))
      · refine Or.inl (quad_mem_side (j := R - 1) (by omega) hi ?_)
        have hR' : R - 1 + 1 = R := by omega
        simp only [Prod.mk.injEq] at h
        obtain ⟨h1, h2⟩ := h
        have : (e.2, e.1) = ((R, i), (R, sm S i)) := Prod.ext h1 h2
        rw [this]
        simp [quadEdges, hR']

end Retro.Cyl
