/-
C15 helper (general closedness, all counts): the closed solids in coordinates –
sphere / capsule (two poles), cone with the apex on the axis (cap + pole).
-/
import Retro.Lemmas.ClosedApex

namespace Retro.Cyl
open Retro.Surface

/-- every edge of an apex fan either contains the apex or is a forward edge of the ring -/
theorem apexFwd_cases {P : V} {r S : Nat} {e : V × V} (he : e ∈ apexFwd P r S) :
    e.1 = P ∨ e.2 = P ∨ ∃ i, i < S ∧ e = fwd S r i := by
  obtain ⟨i, hi, h | h | h⟩ := mem_apexFwd.mp he <;> subst h
  · exact Or.inl rfl
  · exact Or.inr (Or.inr ⟨i, hi, rfl⟩)
  · exact Or.inr (Or.inl rfl)

theorem apexFwd_rows {P : V} {r S : Nat} {e : V × V} (he : e ∈ apexFwd P r S) :
    (e.1 = P ∨ e.1.1 = r) ∧ (e.2 = P ∨ e.2.1 = r) := by
  obtain ⟨i, hi, h | h | h⟩ := mem_apexFwd.mp he <;> subst h <;> simp

/-- Two poles: rows `1 .. R−2` of quads between the pole fans at rings `1` and `R−1`;
`R ≥ 2` rows of the original grid (`R = 2`: the two fans meet in ring 1). -/
def sphereEdges (R S : Nat) : List (V × V) :=
  bandEdges 1 (R - 2) S ++ (apexFwd (0, 0) 1 S ++ apexBwd (R, 0) (R - 1) S)

theorem sphere_closed {R S : Nat} (hR : 2 ≤ R) (hS : 3 ≤ S) : ClosedG (sphereEdges R S) := by
  have hhi : 1 + (R - 2) = R - 1 := by omega
  unfold sphereEdges
  refine band_closed hS (fillLo_apex hS (Or.inl (by simp))) ?_ ?_
  · rw [hhi]
    have := fillHi_apex (P := (R, 0)) (lo := 1) (cnt := R - 2) hS (Or.inr (by simp; omega))
    rw [hhi] at this
    exact this
  · intro e he hT
    have h1 := apexFwd_rows he
    have h2 := apexFwd_rows (mem_apexBwd.mp hT)
    rcases apexFwd_cases he with h | h | ⟨i, hi, rfl⟩
    · have : e.1.1 = 0 := by rw [h]
      rcases h2.2 with h' | h'
      · simp only at h'; rw [h] at h'; simp at h'; omega
      · simp only at h'; omega
    · have : e.2.1 = 0 := by rw [h]
      rcases h2.1 with h' | h'
      · simp only at h'; rw [h] at h'; simp at h'; omega
      · simp only at h'; omega
    · -- a forward edge of ring 1 in the reversed fan of ring R−1: only if R = 2, and then it is excluded
      rcases apexFwd_cases (mem_apexBwd.mp hT) with h | h | ⟨k, hk, h⟩
      · simp [fwd] at h; omega
      · simp [fwd] at h; omega
      · simp only [fwd, Prod.mk.injEq] at h
        obtain ⟨⟨_, a⟩, _, b⟩ := h
        subst a
        exact sm_sm_ne hS b.symm

end Retro.Cyl

namespace Retro.Cyl
open Retro.Surface

/-- Cone with the apex (last profile point) on the axis, capped: polygon fan on ring 0, quad rows
`0 .. R−2`, pole fan from ring `R−1` to the apex. -/
def coneApexEdges (R S : Nat) : List (V × V) :=
  bandEdges 0 (R - 1) S ++ (fanFwd 0 S ++ apexBwd (R, 0) (R - 1) S)

theorem coneApex_closed {R S : Nat} (hR : 1 ≤ R) (hS : 3 ≤ S) : ClosedG (coneApexEdges R S) := by
  have hhi : 0 + (R - 1) = R - 1 := by omega
  unfold coneApexEdges
  refine band_closed hS (fillLo_fan hS) ?_ ?_
  · have := fillHi_apex (P := (R, 0)) (lo := 0) (cnt := R - 1) hS (Or.inr (by simp; omega))
    rw [hhi] at this ⊢
    exact this
  · intro e he hT
    have h0 := fanFwd_onRing he
    have h2 := apexFwd_rows (mem_apexBwd.mp hT)
    rcases apexFwd_cases (mem_apexBwd.mp hT) with h | h | ⟨k, hk, h⟩
    · have : e.2.1 = R := by simp only at h; rw [h]
      have := h0.2; omega
    · have : e.1.1 = R := by simp only at h; rw [h]
      have := h0.1; omega
    · simp only [fwd, Prod.mk.injEq] at h
      have : e = bwd S (R - 1) k := Prod.ext h.2 h.1
      have hr : R - 1 = 0 := by
        have h1 := h0.1
        rw [this] at h1
        simpa [bwd] using h1
      rw [this, hr] at he
      exact fanFwd_no_backward hS he

/-- Cone with the base (first profile point) on the axis, capped. -/
def coneBaseEdges (R S : Nat) : List (V × V) :=
  bandEdges 1 (R - 1) S ++ (apexFwd (0, 0) 1 S ++ fanBwd R S)

theorem coneBase_closed {R S : Nat} (hR : 1 ≤ R) (hS : 3 ≤ S) : ClosedG (coneBaseEdges R S) := by
  have hhi : 1 + (R - 1) = R := by omega
  unfold coneBaseEdges
  refine band_closed hS (fillLo_apex hS (Or.inl (by simp))) ?_ ?_
  · have := fillHi_fan (lo := 1) (cnt := R - 1) hS
    rw [hhi] at this ⊢
    exact this
  · intro e he hT
    have hR' := fanFwd_onRing (mem_fanBwd.mp hT)
    simp only [onRing] at hR'
    rcases apexFwd_cases he with h | h | ⟨i, hi, rfl⟩
    · have : e.1.1 = 0 := by rw [h]
      omega
    · have : e.2.1 = 0 := by rw [h]
      omega
    · simp only [fwd] at hR'
      have hr : R = 1 := by omega
      subst hr
      exact fanFwd_no_backward hS (mem_fanBwd.mp hT)

end Retro.Cyl
