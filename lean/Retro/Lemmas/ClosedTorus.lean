/-
C15 helper (general closedness, all counts): the torus – quad rows wrap around (`R ≥ 3` rows,
ring `R` is ring 0) as well as columns (`S ≥ 3`).
-/
import Retro.Lemmas.ClosedCyl

namespace Retro.Cyl
open Retro.Surface

/-- Directed edges of quad `(j,i)` on the torus: the upper ring of row `j` is ring `j+1 mod R`. -/
def tquadEdges (R S j i : Nat) : List (V × V) :=
  [((j, i), (sm R j, sm S i)), ((sm R j, sm S i), (j, sm S i)), ((j, sm S i), (j, i)),
   ((j, i), (sm R j, i)), ((sm R j, i), (sm R j, sm S i)), ((sm R j, sm S i), (j, i))]

def trowEdges (R S j : Nat) : List (V × V) := (List.range S).flatMap fun i => tquadEdges R S j i
def torusEdges (R S : Nat) : List (V × V) := (List.range R).flatMap fun j => trowEdges R S j

theorem mem_torusEdges {R S : Nat} {e : V × V} :
    e ∈ torusEdges R S ↔ ∃ j, j < R ∧ ∃ i, i < S ∧ e ∈ tquadEdges R S j i := by
  simp [torusEdges, trowEdges, List.mem_flatMap, List.mem_range]

def trowKey (R S : Nat) (e : V × V) : Nat :=
  if e.2.1 = sm R e.1.1 then e.1.1                     -- a→d, a→c
  else if e.1.1 = sm R e.2.1 then e.2.1                -- d→b, d→a
  else if e.2.2 = sm S e.1.2 then pm R e.1.1 else e.1.1   -- c→d, b→a

def tcolKey (R S : Nat) (e : V × V) : Nat :=
  if e.2.1 = sm R e.1.1 then e.1.2
  else if e.1.1 = sm R e.2.1 then (if e.1.2 = e.2.2 then pm S e.2.2 else e.2.2)
  else if e.2.2 = sm S e.1.2 then e.1.2 else e.2.2

theorem trowKey_quad {R S j i : Nat} (hR : 3 ≤ R) (hS : 3 ≤ S) {e : V × V}
    (he : e ∈ tquadEdges R S j i) : trowKey R S e = j := by
  have h1 : i ≠ sm S (sm S i) := fun h => sm_sm_ne hS h.symm
  have r1 : sm R j ≠ j := sm_ne (by omega)
  have r1' : j ≠ sm R j := fun h => r1 h.symm
  have r2 : j ≠ sm R (sm R j) := fun h => sm_sm_ne hR h.symm
  have r3 := pm_sm (S := R) (i := j) (by omega)
  have r4 : sm R j ≠ sm R (sm R j) := fun h => sm_ne (S := R) (i := sm R j) (by omega) h.symm
  simp only [tquadEdges, List.mem_cons, List.mem_nil_iff, or_false] at he
  rcases he with rfl | rfl | rfl | rfl | rfl | rfl <;> simp [trowKey, h1, r1, r1', r2, r3, r4]

theorem tcolKey_quad {R S j i : Nat} (hR : 3 ≤ R) (hS : 3 ≤ S) {e : V × V}
    (he : e ∈ tquadEdges R S j i) : tcolKey R S e = i := by
  have h1 : i ≠ sm S (sm S i) := fun h => sm_sm_ne hS h.symm
  have h2 : sm S i ≠ i := sm_ne (by omega)
  have h3 := pm_sm (S := S) (i := i) (by omega)
  have r1 : sm R j ≠ j := sm_ne (by omega)
  have r1' : j ≠ sm R j := fun h => r1 h.symm
  have r2 : j ≠ sm R (sm R j) := fun h => sm_sm_ne hR h.symm
  have r4 : sm R j ≠ sm R (sm R j) := fun h => sm_ne (S := R) (i := sm R j) (by omega) h.symm
  simp only [tquadEdges, List.mem_cons, List.mem_nil_iff, or_false] at he
  rcases he with rfl | rfl | rfl | rfl | rfl | rfl <;> simp [tcolKey, h1, h2, h3, r1, r1', r2, r4]

end Retro.Cyl

namespace Retro.Cyl
open Retro.Surface

theorem tquadEdges_nodup {R S j i : Nat} (hR : 2 ≤ R) (hS : 3 ≤ S) : (tquadEdges R S j i).Nodup := by
  have h1 : sm S i ≠ i := sm_ne (by omega)
  have h1' : i ≠ sm S i := fun h => h1 h.symm
  have r1 : sm R j ≠ j := sm_ne hR
  have r1' : j ≠ sm R j := fun h => r1 h.symm
  simp [tquadEdges, h1, h1', r1, r1']

theorem torus_nodup {R S : Nat} (hR : 3 ≤ R) (hS : 3 ≤ S) : (torusEdges R S).Nodup := by
  refine nodup_flatMap_of_key _ _ (trowKey R S) List.nodup_range ?_ ?_
  · intro j _
    exact nodup_flatMap_of_key _ _ (tcolKey R S) List.nodup_range
      (fun _ _ => tquadEdges_nodup (by omega) hS) (fun _ _ _ hy => tcolKey_quad hR hS hy)
  · intro j _ e he
    simp only [trowEdges, List.mem_flatMap, List.mem_range] at he
    obtain ⟨i, _, hq⟩ := he
    exact trowKey_quad hR hS hq

theorem tquad_mem {R S j i : Nat} (hj : j < R) (hi : i < S) {e : V × V}
    (he : e ∈ tquadEdges R S j i) : e ∈ torusEdges R S :=
  mem_torusEdges.mpr ⟨j, hj, i, hi, he⟩

/-- **Torus, all counts**: every directed edge once, its reverse present. -/
theorem torus_closed {R S : Nat} (hR : 3 ≤ R) (hS : 3 ≤ S) : ClosedG (torusEdges R S) := by
  refine ⟨torus_nodup hR hS, ?_⟩
  intro e he
  obtain ⟨j, hj, i, hi, hq⟩ := mem_torusEdges.mp he
  have hsi := sm_lt (S := S) hi
  have hsj := sm_lt (S := R) hj
  simp only [tquadEdges, List.mem_cons, List.mem_nil_iff, or_false] at hq
  rcases hq with rfl | rfl | rfl | rfl | rfl | rfl
  · exact tquad_mem hj hi (by simp [tquadEdges])
  · exact tquad_mem hj hsi (by simp [tquadEdges])
  · -- b→a in ring j: reverse is c→d of the row below
    refine tquad_mem (j := pm R j) (pm_lt hj) hi ?_
    simp [tquadEdges, sm_pm (S := R) (by omega) hj]
  · refine tquad_mem hj (pm_lt hi) ?_
    simp [tquadEdges, sm_pm (S := S) (by omega) hi]
  · -- c→d in ring j+1: reverse is b→a of the row above
    exact tquad_mem hsj hi (by simp [tquadEdges])
  · exact tquad_mem hj hi (by simp [tquadEdges])

theorem torus_cols {R S : Nat} : ∀ e ∈ torusEdges R S, e.1.2 < S + 1 ∧ e.2.2 < S + 1 := by
  intro e he
  obtain ⟨j, _, i, hi, hq⟩ := mem_torusEdges.mp he
  have := sm_lt (S := S) hi
  simp only [tquadEdges, List.mem_cons, List.mem_nil_iff, or_false] at hq
  rcases hq with rfl | rfl | rfl | rfl | rfl | rfl <;> simp <;> omega

end Retro.Cyl
