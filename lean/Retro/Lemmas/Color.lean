/-
Helper lemmas for the C16 property theorems (lean/Retro/Props/C16/*.lean): facts about the
transliterated integer operations, bit arithmetic, the float helpers read over an ordered field,
and the closed-form reference of the spec.  No property statements here.
-/
import Retro.Model.Color
import Retro.Spec.Color
import Mathlib.Algebra.Order.Field.Basic
import Mathlib.Algebra.Order.Floor.Ring
import Mathlib.Data.Rat.Floor
import Mathlib.Tactic.Ring
import Mathlib.Tactic.Linarith
import Mathlib.Tactic.FieldSimp
import Mathlib.Tactic.NormNum
import Mathlib.Tactic.Positivity

set_option linter.unusedSectionVars false

namespace Retro.Lemmas.Color
open Retro Retro.Color

/-! ## integer (8-bit) helpers -/

/-- an integer that is a `u8` value -/
def IsU8 (x : Int) : Prop := 0 ≤ x ∧ x ≤ 255

instance (x : Int) : Decidable (IsU8 x) := by unfold IsU8; infer_instance

theorem asU8_of_isU8 {x : Int} (h : IsU8 x) : asU8 x = x := by
  unfold asU8; unfold IsU8 at h; omega

theorem absI_eq (x : Int) : absI x = if x < 0 then -x else x := rfl

theorem tdiv_nonneg_eq {a : Int} (b : Int) (h : 0 ≤ a) : Int.tdiv a b = a / b :=
  Int.tdiv_eq_ediv_of_nonneg h

theorem tmod_nonneg_eq {a : Int} (b : Int) (h : 0 ≤ a) : Int.tmod a b = a % b :=
  Int.tmod_eq_emod_of_nonneg h

theorem chan8_ok {ch m : Int} (h0 : 0 ≤ ch + m) (h1 : ch + m ≤ 255) : chan8 ch m = .ok (ch + m) := by
  unfold chan8
  simp only
  rw [if_pos (by omega), asU8_of_isU8 ⟨h0, h1⟩]

/-- Bounds on the three fixed-point quantities of `to_rgb`: `0 ≤ x ≤ c`, `0 ≤ m`, `c + m ≤ 255`. -/
theorem cxm8_bounds (h s l : Int) (hh : IsU8 h) (hs : IsU8 s) (hl : IsU8 l) :
    0 ≤ (cxm8 h s l).2.1 ∧ (cxm8 h s l).2.1 ≤ (cxm8 h s l).1 ∧
    0 ≤ (cxm8 h s l).2.2 ∧ (cxm8 h s l).1 + (cxm8 h s l).2.2 ≤ 255 := by
  unfold IsU8 at hh hs hl
  obtain ⟨h0, h255⟩ := hh; obtain ⟨s0, s255⟩ := hs; obtain ⟨l0, l255⟩ := hl
  -- A = M - |2l - M| ∈ [0, 256], and A * s = 2 p with p = min(l, 256 - l) * s
  obtain ⟨p, hp0, hpA, hpl, hpu⟩ : ∃ p : Int, 0 ≤ p ∧ (M - absI (2 * l - M)) * s = 2 * p ∧
      (l ≤ 128 → p ≤ 255 * l) ∧ (128 < l → p ≤ 255 * (256 - l)) := by
    by_cases hl128 : l ≤ 128
    · refine ⟨l * s, by positivity, ?_, fun _ => by nlinarith, fun h => by omega⟩
      have hA : M - absI (2 * l - M) = 2 * l := by unfold M; rw [absI_eq]; split <;> omega
      rw [hA]; ring
    · refine ⟨(256 - l) * s, by apply Int.mul_nonneg <;> omega, ?_, fun h => by omega, fun _ => by nlinarith⟩
      have hA : M - absI (2 * l - M) = 2 * (256 - l) := by unfold M; rw [absI_eq]; split <;> omega
      rw [hA]; ring
  -- B = M - |h6 % 2M - M| ∈ [0, 256]
  obtain ⟨B, hB, hB0, hB256⟩ : ∃ B : Int, B = M - absI (Int.tmod (h * 6) (2 * M) - M) ∧ 0 ≤ B ∧ B ≤ 256 := by
    refine ⟨_, rfl, ?_, ?_⟩ <;>
    · unfold M; rw [tmod_nonneg_eq _ (by omega), absI_eq]; split <;> omega
  -- x0 = 2p * B ∈ [0, 2p * 256]
  obtain ⟨x0, hx0, hx00, hx0u⟩ : ∃ x0 : Int, x0 = 2 * p * B ∧ 0 ≤ x0 ∧ x0 ≤ 2 * p * 256 := by
    refine ⟨_, rfl, by positivity, by nlinarith⟩
  have hcxm : cxm8 h s l = (Int.tdiv (2 * p) M, Int.tdiv (Int.tdiv x0 M) M, Int.tdiv (M * l - Int.tdiv (2 * p) 2) M) := by
    unfold cxm8; simp only [hpA, ← hB, ← hx0]
  rw [hcxm]
  simp only
  have hp2 : Int.tdiv (2 * p) 2 = p := by rw [tdiv_nonneg_eq _ (by omega)]; omega
  rw [hp2]
  have hm0 : 0 ≤ M * l - p := by
    unfold M
    by_cases hl128 : l ≤ 128
    · have := hpl hl128; omega
    · have := hpu (by omega); omega
  rw [tdiv_nonneg_eq _ (by omega : (0:Int) ≤ 2 * p), tdiv_nonneg_eq _ hx00, tdiv_nonneg_eq _ hm0]
  have hx1 : 0 ≤ x0 / M := by unfold M; omega
  rw [tdiv_nonneg_eq _ hx1]
  unfold M at *
  by_cases hl128 : l ≤ 128
  · have := hpl hl128
    refine ⟨by omega, by omega, by omega, by omega⟩
  · have := hpu (by omega)
    refine ⟨by omega, by omega, by omega, by omega⟩

theorem sextant8_cases (k c x : Int) (hk0 : 0 ≤ k) (hk5 : k ≤ 5) :
    ∃ r g b, sextant8 k c x = some (r, g, b) ∧
      (r = 0 ∨ r = c ∨ r = x) ∧ (g = 0 ∨ g = c ∨ g = x) ∧ (b = 0 ∨ b = c ∨ b = x) := by
  have : k = 0 ∨ k = 1 ∨ k = 2 ∨ k = 3 ∨ k = 4 ∨ k = 5 := by omega
  rcases this with rfl | rfl | rfl | rfl | rfl | rfl <;> simp [sextant8]

theorem clamp_isU8 (x : Int) : IsU8 (asU8 (clampI x 0 255)) := by
  unfold asU8 clampI IsU8; split <;> [skip; split] <;> omega

/-- truncating division by a positive `d` keeps a bound `|a| ≤ k·d` as `|a / d| ≤ k` -/
theorem tdiv_bounds {a d k : Int} (hd : 0 < d) (hk : 0 ≤ k) (h1 : -(k * d) ≤ a) (h2 : a ≤ k * d) :
    -k ≤ Int.tdiv a d ∧ Int.tdiv a d ≤ k := by
  by_cases ha : 0 ≤ a
  · rw [tdiv_nonneg_eq _ ha]
    constructor
    · have := Int.ediv_nonneg ha hd.le; omega
    · exact Int.ediv_le_of_le_mul hd h2
  · have hna : 0 ≤ -a := by omega
    have e : Int.tdiv a d = -((-a) / d) := by
      have := Int.neg_tdiv (-a) d
      rw [Int.neg_neg] at this
      rw [this, tdiv_nonneg_eq _ hna]
    rw [e]
    have h3 : (-a) / d ≤ k := Int.ediv_le_of_le_mul hd (by omega)
    have h4 := Int.ediv_nonneg hna hd.le
    omega

/-! ## bounded enumeration -/

/-- `p` holds for every `i < n`, as a structurally recursive Boolean. -/
def allBelow : Nat → (Nat → Bool) → Bool
  | 0, _ => true
  | n + 1, p => p n && allBelow n p

theorem allBelow_spec {n : Nat} {p : Nat → Bool} (h : allBelow n p = true) : ∀ i, i < n → p i = true := by
  induction n with
  | zero => intro i hi; omega
  | succ n ih =>
    simp only [allBelow, Bool.and_eq_true] at h
    intro i hi
    by_cases hin : i = n
    · subst hin; exact h.1
    · exact ih h.2 i (by omega)

/-! ## bits and float -> 8-bit helpers -/

theorem or_shl_add (a b i : Nat) (hb : b < 2 ^ i) : (a <<< i) ||| b = a * 2 ^ i + b := by
  rw [← Nat.shiftLeft_add_eq_or_of_lt hb, Nat.shiftLeft_eq]

theorem isNaN_toRat? (b : UInt32) (h : F32.isNaN b = true) : F32.toRat? b = none := by
  unfold F32.isNaN at h
  unfold F32.toRat?
  simp only [Bool.and_eq_true] at h
  simp [h.1]

theorem mul255_zero : castU8 (mul255 0) = 0 := by decide +kernel

theorem mul255_one : castU8 (mul255 1) = 255 := by decide +kernel

/-! ## ordered-field helpers for the float conversions -/

variable {K : Type} [Field K] [LinearOrder K] [IsStrictOrderedRing K] [FloorRing K]
  [HasFloor K] [HasTruncI K]

/-- The scalar's `floor` (`HasFloor`) and `as i32` (`HasTruncI`) are the field's floor and
truncation toward zero. -/
structure FloorLaws (K : Type) [Field K] [LinearOrder K] [IsStrictOrderedRing K] [FloorRing K]
    [HasFloor K] [HasTruncI K] : Prop where
  floor_eq : ∀ x : K, HasFloor.floor x = ((⌊x⌋ : ℤ) : K)
  trunc_eq : ∀ x : K, HasTruncI.truncI x = if x < 0 then -⌊-x⌋ else ⌊x⌋

/-- a scalar in the nominal channel range -/
def InUnit (x : K) : Prop := 0 ≤ x ∧ x ≤ 1

theorem maxS_eq (a b : K) : maxS a b = max a b := by
  unfold maxS; split_ifs with h
  · exact (max_eq_right h.le).symm
  · exact (max_eq_left (not_lt.mp h)).symm

theorem minS_eq (a b : K) : minS a b = min a b := by
  unfold minS; split_ifs with h
  · exact (min_eq_right h.le).symm
  · exact (min_eq_left (not_lt.mp h)).symm

theorem absS_eq (x : K) : absS x = |x| := by
  unfold absS; split_ifs with h
  · exact (abs_of_neg h).symm
  · exact (abs_of_nonneg (not_lt.mp h)).symm

theorem inUnit_iff (x : K) : inUnit x = true ↔ InUnit x := by
  unfold inUnit InUnit; simp

theorem truncS_nonneg (L : FloorLaws K) {x : K} (hx : 0 ≤ x) : truncS x = ((⌊x⌋ : ℤ) : K) := by
  unfold truncS; rw [if_neg (not_lt.mpr hx), L.floor_eq]

theorem truncS_neg (L : FloorLaws K) {x : K} (hx : x < 0) : truncS x = -((⌊-x⌋ : ℤ) : K) := by
  unfold truncS; rw [if_pos hx, L.floor_eq]

/-- `x % y` for `n·y ≤ x < (n+1)·y`, `n ≥ 0`. -/
theorem fmodS_eq (L : FloorLaws K) {x y : K} (n : ℤ) (hn : 0 ≤ n) (hy : 0 < y)
    (h1 : (n : K) * y ≤ x) (h2 : x < ((n : K) + 1) * y) : fmodS x y = x - (n : K) * y := by
  have hq1 : (n : K) ≤ x / y := by rw [le_div_iff₀ hy]; exact h1
  have hq2 : x / y < (n : K) + 1 := by rw [div_lt_iff₀ hy]; exact h2
  have hq0 : (0 : K) ≤ x / y := le_trans (by exact_mod_cast hn) hq1
  have hfl : ⌊x / y⌋ = n := Int.floor_eq_iff.mpr ⟨hq1, hq2⟩
  unfold fmodS; rw [truncS_nonneg L hq0, hfl]

/-- `x % y = x` for `-y < x < 0` (the quotient truncates to zero). -/
theorem fmodS_small_neg (L : FloorLaws K) {x y : K} (hy : 0 < y) (h1 : -y < x) (h2 : x < 0) :
    fmodS x y = x := by
  have hq : x / y < 0 := div_neg_of_neg_of_pos h2 hy
  have hfl : ⌊-(x / y)⌋ = 0 := by
    rw [Int.floor_eq_iff]
    refine ⟨by simpa using hq.le, ?_⟩
    rw [← neg_div, div_lt_iff₀ hy]; simp; linarith
  unfold fmodS; rw [truncS_neg L hq, hfl]; simp

theorem truncI_eq (L : FloorLaws K) {x : K} (n : ℤ) (hn : 0 ≤ n) (h1 : (n : K) ≤ x) (h2 : x < (n : K) + 1) :
    HasTruncI.truncI x = n := by
  have h0 : (0 : K) ≤ x := le_trans (by exact_mod_cast hn) h1
  rw [L.trunc_eq, if_neg (not_lt.mpr h0)]
  exact Int.floor_eq_iff.mpr ⟨h1, h2⟩

/-- If the sextant table yields `(a1, a2, a3)` and the three shifted channels pass the assertion,
`to_rgb` returns them. -/
theorem toRgbF_of_sextant {h s l a1 a2 a3 : K}
    (hs : sextantF (HasTruncI.truncI (h * 6)) (chromaF s l) (secondF (chromaF s l) (h * 6)) = some (a1, a2, a3))
    (h1 : InUnit (a1 + offsetF (chromaF s l) l)) (h2 : InUnit (a2 + offsetF (chromaF s l) l))
    (h3 : InUnit (a3 + offsetF (chromaF s l) l)) :
    toRgbF h s l = .ok (a1 + offsetF (chromaF s l) l, a2 + offsetF (chromaF s l) l, a3 + offsetF (chromaF s l) l) := by
  unfold toRgbF
  simp only [hs, chanF, (inUnit_iff _).mpr h1, (inUnit_iff _).mpr h2, (inUnit_iff _).mpr h3, if_true]

/-- `1 - |h % 2 - 1|` on an even unit interval `[2j, 2j+1)`: rises as `h - 2j`. -/
theorem secondF_even (L : FloorLaws K) (c : K) {H : K} (j : ℤ) (hj : 0 ≤ j)
    (h1 : 2 * (j : K) ≤ H) (h2 : H < 2 * (j : K) + 1) : secondF c H = c * (H - 2 * (j : K)) := by
  have hf : fmodS H 2 = H - (j : K) * 2 := fmodS_eq L j hj (by norm_num) (by linarith) (by linarith)
  unfold secondF; rw [hf, absS_eq, abs_of_nonpos (by linarith)]; ring

/-- … and on an odd unit interval `[2j+1, 2j+2)`: falls as `2j + 2 - h`. -/
theorem secondF_odd (L : FloorLaws K) (c : K) {H : K} (j : ℤ) (hj : 0 ≤ j)
    (h1 : 2 * (j : K) + 1 ≤ H) (h2 : H < 2 * (j : K) + 2) : secondF c H = c * (2 * (j : K) + 2 - H) := by
  have hf : fmodS H 2 = H - (j : K) * 2 := fmodS_eq L j hj (by norm_num) (by linarith) (by linarith)
  unfold secondF; rw [hf, absS_eq, abs_of_nonneg (by linarith)]; ring

/-- for any non-negative `H`, the factor `1 - |H % 2 - 1|` lies in `[0, 1]` -/
theorem second_factor_unit (L : FloorLaws K) {H : K} (hH : 0 ≤ H) :
    0 ≤ 1 - absS (fmodS H 2 - 1) ∧ 1 - absS (fmodS H 2 - 1) ≤ 1 := by
  have h2 : (0 : K) < 2 := by norm_num
  have hfl := Int.floor_le (H / 2)
  have hfl' := Int.lt_floor_add_one (H / 2)
  have hn : 0 ≤ ⌊H / 2⌋ := Int.floor_nonneg.mpr (div_nonneg hH h2.le)
  have hf : fmodS H 2 = H - (⌊H / 2⌋ : K) * 2 :=
    fmodS_eq L _ hn h2 (by rw [← le_div_iff₀ h2]; exact hfl) (by rw [← div_lt_iff₀ h2]; exact hfl')
  have e : H = H / 2 * 2 := by ring
  rw [hf, absS_eq]
  have ha : |H - (⌊H / 2⌋ : K) * 2 - 1| ≤ 1 := by
    rw [abs_le]; constructor <;> nlinarith
  exact ⟨by linarith, by linarith [abs_nonneg (H - (⌊H / 2⌋ : K) * 2 - 1)]⟩

/-- chroma of an in-range `(s, l)`: `0 ≤ c ≤ 2l`, `c ≤ 2 - 2l` -/
theorem chromaF_bounds {s l : K} (hs : InUnit s) (hl : InUnit l) :
    0 ≤ chromaF s l ∧ chromaF s l ≤ 2 * l ∧ chromaF s l ≤ 2 - 2 * l := by
  obtain ⟨s0, s1⟩ := hs; obtain ⟨l0, l1⟩ := hl
  unfold chromaF; rw [absS_eq]
  have hA0 : 0 ≤ 1 - |2 * l - 1| := by
    have : |2 * l - 1| ≤ 1 := by rw [abs_le]; constructor <;> linarith
    linarith
  have hA1 : 1 - |2 * l - 1| ≤ 2 * l := by linarith [neg_abs_le (2 * l - 1)]
  have hA2 : 1 - |2 * l - 1| ≤ 2 - 2 * l := by linarith [le_abs_self (2 * l - 1)]
  refine ⟨mul_nonneg hA0 s0, ?_, ?_⟩
  · calc (1 - |2 * l - 1|) * s ≤ (1 - |2 * l - 1|) * 1 := mul_le_mul_of_nonneg_left s1 hA0
      _ ≤ 2 * l := by linarith
  · calc (1 - |2 * l - 1|) * s ≤ (1 - |2 * l - 1|) * 1 := mul_le_mul_of_nonneg_left s1 hA0
      _ ≤ 2 - 2 * l := by linarith

/-- the three candidate channel values `m`, `c + m`, `x + m` of an in-range HSL colour pass the
assertion -/
theorem channels_in_unit (L : FloorLaws K) (h s l : K) (hh : InUnit h) (hs : InUnit s) (hl : InUnit l) :
    InUnit (0 + offsetF (chromaF s l) l) ∧ InUnit (chromaF s l + offsetF (chromaF s l) l) ∧
    InUnit (secondF (chromaF s l) (h * 6) + offsetF (chromaF s l) l) := by
  obtain ⟨hc0, hc1, hc2⟩ := chromaF_bounds hs hl
  have hH0 : 0 ≤ h * 6 := by have := hh.1; positivity
  obtain ⟨hx0, hx1⟩ := second_factor_unit L hH0
  have hxc : 0 ≤ secondF (chromaF s l) (h * 6) ∧ secondF (chromaF s l) (h * 6) ≤ chromaF s l := by
    unfold secondF
    exact ⟨mul_nonneg hc0 hx0, by nlinarith⟩
  unfold offsetF InUnit
  refine ⟨⟨?_, ?_⟩, ⟨?_, ?_⟩, ⟨?_, ?_⟩⟩ <;> linarith [hl.1, hl.2, hxc.1, hxc.2]

/-- whatever the sextant, the table only permutes `c`, `x` and `0` -/
theorem sextantF_mem {k : ℤ} {c x a1 a2 a3 : K} (h : sextantF k c x = some (a1, a2, a3)) :
    (a1 = 0 ∨ a1 = c ∨ a1 = x) ∧ (a2 = 0 ∨ a2 = c ∨ a2 = x) ∧ (a3 = 0 ∨ a3 = c ∨ a3 = x) := by
  unfold sextantF at h
  simp only at h
  split_ifs at h <;> simp only [Option.some.injEq, Prod.mk.injEq] at h <;>
    obtain ⟨rfl, rfl, rfl⟩ := h <;> simp

/-- shape of `to_rgb` on the sextant `[n, n+1)` for an in-range colour, assertion discharged -/
theorem toRgbF_sextant (L : FloorLaws K) (h s l : K) (hh : InUnit h) (hs : InUnit s) (hl : InUnit l)
    (n : ℤ) (hn : 0 ≤ n) (h1 : (n : K) ≤ h * 6) (h2 : h * 6 < (n : K) + 1) {a1 a2 a3 : K}
    (hsx : sextantF n (chromaF s l) (secondF (chromaF s l) (h * 6)) = some (a1, a2, a3)) :
    toRgbF h s l = .ok (a1 + offsetF (chromaF s l) l, a2 + offsetF (chromaF s l) l, a3 + offsetF (chromaF s l) l) := by
  obtain ⟨u0, uc, ux⟩ := channels_in_unit L h s l hh hs hl
  obtain ⟨m1, m2, m3⟩ := sextantF_mem hsx
  have hk := truncI_eq L n hn h1 h2
  rw [← hk] at hsx
  refine toRgbF_of_sextant hsx ?_ ?_ ?_
  · rcases m1 with rfl | rfl | rfl <;> assumption
  · rcases m2 with rfl | rfl | rfl <;> assumption
  · rcases m3 with rfl | rfl | rfl <;> assumption

/-- facts about `max(max(r,g),b)` and `min(min(r,g),b)` used throughout -/
theorem mx_facts (r g b : K) :
    r ≤ max (max r g) b ∧ g ≤ max (max r g) b ∧ b ≤ max (max r g) b ∧
    (max (max r g) b = r ∨ max (max r g) b = g ∨ max (max r g) b = b) := by
  refine ⟨le_trans (le_max_left r g) (le_max_left _ b), le_trans (le_max_right r g) (le_max_left _ b),
    le_max_right _ b, ?_⟩
  rcases max_choice (max r g) b with h | h
  · rcases max_choice r g with h' | h'
    · left; rw [h, h']
    · right; left; rw [h, h']
  · right; right; exact h

theorem mn_facts (r g b : K) :
    min (min r g) b ≤ r ∧ min (min r g) b ≤ g ∧ min (min r g) b ≤ b ∧
    (min (min r g) b = r ∨ min (min r g) b = g ∨ min (min r g) b = b) := by
  refine ⟨le_trans (min_le_left _ b) (min_le_left r g), le_trans (min_le_left _ b) (min_le_right r g),
    min_le_right _ b, ?_⟩
  rcases min_choice (min r g) b with h | h
  · rcases min_choice r g with h' | h'
    · left; rw [h, h']
    · right; left; rw [h, h']
  · right; right; exact h

/-- `rem_euclid(q, 6)` for a quotient `q ∈ [-1, 1]` -/
theorem remEuclid_six (L : FloorLaws K) {q : K} (h1 : -1 ≤ q) (h2 : q ≤ 1) :
    remEuclidS q 6 = if q < 0 then q + 6 else q := by
  unfold remEuclidS
  by_cases hq : q < 0
  · have hf : fmodS q 6 = q := fmodS_small_neg L (by norm_num) (by linarith) hq
    simp only [hf, if_pos hq, absS_eq]
    rw [abs_of_pos (by norm_num : (0 : K) < 6)]
  · have hf : fmodS q 6 = q := by
      have := fmodS_eq L 0 le_rfl (by norm_num : (0 : K) < 6) (x := q)
        (by simpa using not_lt.mp hq) (by simp; linarith)
      simpa using this
    simp only [hf, if_neg hq]

/-- a difference of two values inside `[lo, hi]`, divided by `hi - lo > 0`, lies in `[-1, 1]` -/
theorem quot_bounds {u v lo hi : K} (hd : 0 < hi - lo) (hu : lo ≤ u ∧ u ≤ hi) (hv : lo ≤ v ∧ v ≤ hi) :
    -1 ≤ (u - v) / (hi - lo) ∧ (u - v) / (hi - lo) ≤ 1 := by
  constructor
  · rw [le_div_iff₀ hd]; linarith [hu.1, hv.2]
  · rw [div_le_iff₀ hd]; linarith [hu.2, hv.1]

/-- The hue, scaled back by 6 (this is what `to_rgb` recomputes as `h * 6.0`), by cases. -/
theorem hueF_six (L : FloorLaws K) (r g b : K) :
    hueF r g b * 6 =
      if max (max r g) b - min (min r g) b = 0 then 0
      else if max (max r g) b = r then
        (if (g - b) / (max (max r g) b - min (min r g) b) < 0
         then (g - b) / (max (max r g) b - min (min r g) b) + 6
         else (g - b) / (max (max r g) b - min (min r g) b))
      else if max (max r g) b = g then (b - r) / (max (max r g) b - min (min r g) b) + 2
      else (r - g) / (max (max r g) b - min (min r g) b) + 4 := by
  obtain ⟨hr1, hg1, hb1, -⟩ := mx_facts r g b
  obtain ⟨hr0, hg0, hb0, -⟩ := mn_facts r g b
  unfold hueF
  simp only [maxS_eq, minS_eq]
  rw [div_mul_cancel₀ _ (by norm_num : (6 : K) ≠ 0)]
  by_cases hd : max (max r g) b - min (min r g) b = 0
  · simp only [hd, if_true]
  · simp only [hd, if_false]
    have hdpos : 0 < max (max r g) b - min (min r g) b :=
      lt_of_le_of_ne (by linarith) (Ne.symm hd)
    by_cases hmr : max (max r g) b = r
    · simp only [hmr, if_true]
      rw [hmr] at hdpos hg1 hb1
      obtain ⟨q1, q2⟩ := quot_bounds hdpos ⟨hg0, hg1⟩ ⟨hb0, hb1⟩
      exact remEuclid_six L q1 q2
    · simp only [hmr, if_false]

theorem lightF_eq (r g b : K) : lightF r g b = (max (max r g) b + min (min r g) b) / 2 := by
  unfold lightF; simp only [maxS_eq, minS_eq]

/-- The chroma recomputed by `to_rgb` from `to_hsl`'s saturation and lightness is exactly
`max - min`; and the saturation is in `[0, 1]`. -/
theorem chroma_sat (r g b : K) (hr : InUnit r) (hg : InUnit g) (hb : InUnit b) :
    chromaF (satF r g b) (lightF r g b) = max (max r g) b - min (min r g) b ∧ InUnit (satF r g b) := by
  obtain ⟨hr1, hg1, hb1, hmx⟩ := mx_facts r g b
  obtain ⟨hr0, hg0, hb0, hmn⟩ := mn_facts r g b
  have hmx1 : max (max r g) b ≤ 1 := by rcases hmx with h | h | h <;> rw [h] <;> [exact hr.2; exact hg.2; exact hb.2]
  have hmn0 : 0 ≤ min (min r g) b := by rcases hmn with h | h | h <;> rw [h] <;> [exact hr.1; exact hg.1; exact hb.1]
  unfold satF chromaF
  simp only [maxS_eq, minS_eq, lightF_eq, absS_eq]
  set mx := max (max r g) b with hmxdef
  set mn := min (min r g) b with hmndef
  have hle : mn ≤ mx := le_trans hr0 hr1
  by_cases hd : mx - mn = 0
  · simp [hd, InUnit]
  · have hdpos : 0 < mx - mn := lt_of_le_of_ne (by linarith) (Ne.symm hd)
    have hl0 : ¬ ((mx + mn) / 2 = 0) := by
      intro h; have : mx + mn = 0 := by linarith
      linarith
    have hl1 : ¬ ((mx + mn) / 2 = 1) := by
      intro h; have : mx + mn = 2 := by linarith
      linarith
    have hcond : ¬ (mx - mn = 0 ∨ (mx + mn) / 2 = 0 ∨ (mx + mn) / 2 = 1) := by
      rintro (h | h | h) <;> contradiction
    rw [if_neg hcond]
    have h2l : 2 * ((mx + mn) / 2) - 1 = mx + mn - 1 := by ring
    rw [h2l]
    -- the divisor D = 1 - |mx + mn - 1| is at least d = mx - mn > 0
    have hD : mx - mn ≤ 1 - |mx + mn - 1| := by
      have : |mx + mn - 1| ≤ 1 - (mx - mn) := by
        rw [abs_le]; constructor <;> linarith
      linarith
    have hDpos : 0 < 1 - |mx + mn - 1| := lt_of_lt_of_le hdpos hD
    have hq1 : (mx - mn) / (1 - |mx + mn - 1|) ≤ 1 := by rw [div_le_iff₀ hDpos]; linarith
    have hq0 : 0 ≤ (mx - mn) / (1 - |mx + mn - 1|) := div_nonneg hdpos.le hDpos.le
    rw [min_eq_left hq1]
    refine ⟨?_, hq0, hq1⟩
    field_simp

/-- the offset `m = 1·l − c/2` recomputed by `to_rgb` is `min` -/
theorem offset_light (r g b : K) :
    offsetF (max (max r g) b - min (min r g) b) (lightF r g b) = min (min r g) b := by
  unfold offsetF; rw [lightF_eq]; ring

/-- closing step shared by all cases: `h·6` lies in the unit interval `[n, n+1)`, the sextant table
at `n` gives `(a1, a2, a3)`, and the shifted channels are the wanted in-range colour. -/
theorem toRgbF_finish (L : FloorLaws K) {h s l r g b a1 a2 a3 : K} (n : ℤ) (hn : 0 ≤ n)
    (h1 : (n : K) ≤ h * 6) (h2 : h * 6 < (n : K) + 1)
    (hs : sextantF n (chromaF s l) (secondF (chromaF s l) (h * 6)) = some (a1, a2, a3))
    (e1 : a1 + offsetF (chromaF s l) l = r) (e2 : a2 + offsetF (chromaF s l) l = g)
    (e3 : a3 + offsetF (chromaF s l) l = b)
    (hr : InUnit r) (hg : InUnit g) (hb : InUnit b) : toRgbF h s l = .ok (r, g, b) := by
  have hk := truncI_eq L n hn h1 h2
  rw [← hk] at hs
  have := toRgbF_of_sextant hs (by rw [e1]; exact hr) (by rw [e2]; exact hg) (by rw [e3]; exact hb)
  rw [this, e1, e2, e3]

/-! ## helpers about the closed-form reference (Retro.Spec.Color) -/

open Retro.Spec.Color (mod12 hslChannel)

theorem ratMin_eq (a b : ℚ) : ratMin a b = min a b := by
  unfold ratMin; split_ifs with h
  · exact (min_eq_left h).symm
  · exact (min_eq_right (le_of_lt (not_le.mp h))).symm

theorem ratMax_eq (a b : ℚ) : ratMax a b = max a b := by
  unfold ratMax; split_ifs with h
  · exact (max_eq_right h).symm
  · exact (max_eq_left (le_of_lt (not_le.mp h))).symm

/-- `x mod 12` on the window `[12j, 12j + 12)` -/
theorem mod12_eq (x : ℚ) (j : ℤ) (h1 : 12 * (j : ℚ) ≤ x) (h2 : x < 12 * (j : ℚ) + 12) :
    mod12 x = x - 12 * (j : ℚ) := by
  have hfl : ⌊x / 12⌋ = j := by
    rw [Int.floor_eq_iff]
    constructor
    · rw [le_div_iff₀ (by norm_num)]; linarith
    · rw [div_lt_iff₀ (by norm_num)]; linarith
  unfold mod12
  show x - 12 * ((⌊x / 12⌋ : ℤ) : ℚ) = _
  rw [hfl]

/-- the trapezoid `max(−1, min(k−3, 9−k, 1))` on its five pieces -/
theorem trap_lo (k : ℚ) (h : k ≤ 2) : ratMax (-1) (ratMin (ratMin (k - 3) (9 - k)) 1) = -1 := by
  simp only [ratMin_eq, ratMax_eq]
  rw [min_eq_left (by linarith : k - 3 ≤ 9 - k), min_eq_left (by linarith : k - 3 ≤ 1), max_eq_left (by linarith)]

theorem trap_up (k : ℚ) (h1 : 2 ≤ k) (h2 : k ≤ 4) : ratMax (-1) (ratMin (ratMin (k - 3) (9 - k)) 1) = k - 3 := by
  simp only [ratMin_eq, ratMax_eq]
  rw [min_eq_left (by linarith : k - 3 ≤ 9 - k), min_eq_left (by linarith : k - 3 ≤ 1), max_eq_right (by linarith)]

theorem trap_top (k : ℚ) (h1 : 4 ≤ k) (h2 : k ≤ 8) : ratMax (-1) (ratMin (ratMin (k - 3) (9 - k)) 1) = 1 := by
  simp only [ratMin_eq, ratMax_eq]
  rw [min_eq_right (by rw [le_min_iff]; constructor <;> linarith), max_eq_right (by norm_num)]

theorem trap_down (k : ℚ) (h1 : 8 ≤ k) (h2 : k ≤ 10) : ratMax (-1) (ratMin (ratMin (k - 3) (9 - k)) 1) = 9 - k := by
  simp only [ratMin_eq, ratMax_eq]
  rw [min_eq_right (by linarith : 9 - k ≤ k - 3), min_eq_left (by linarith : 9 - k ≤ 1), max_eq_right (by linarith)]

theorem trap_hi (k : ℚ) (h : 10 ≤ k) : ratMax (-1) (ratMin (ratMin (k - 3) (9 - k)) 1) = -1 := by
  simp only [ratMin_eq, ratMax_eq]
  rw [min_eq_right (by linarith : 9 - k ≤ k - 3), min_eq_left (by linarith : 9 - k ≤ 1), max_eq_left (by linarith)]

/-- chroma is twice the reference's amplitude `a = s·min(l, 1−l)` -/
theorem chroma_two_a (s l : ℚ) : chromaF s l = 2 * (s * ratMin l (1 - l)) := by
  unfold chromaF; rw [absS_eq, ratMin_eq]
  rcases le_total l (1 - l) with h | h
  · rw [min_eq_left h, abs_of_nonpos (by linarith)]; ring
  · rw [min_eq_right h, abs_of_nonneg (by linarith)]; ring

/-- one channel of the reference, once the window of `n + 12h` is known -/
theorem hslChannel_eq (n h s l : ℚ) (j : ℤ) (h1 : 12 * (j : ℚ) ≤ n + 12 * h) (h2 : n + 12 * h < 12 * (j : ℚ) + 12) :
    hslChannel n h s l = l - s * ratMin l (1 - l) *
      ratMax (-1) (ratMin (ratMin (n + 12 * h - 12 * (j : ℚ) - 3) (9 - (n + 12 * h - 12 * (j : ℚ)))) 1) := by
  unfold hslChannel; simp only []; rw [mod12_eq _ j h1 h2]

end Retro.Lemmas.Color
