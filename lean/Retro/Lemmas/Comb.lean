/-
Affine combinations of three varying tuples and their closure under the componentwise
operations `lerpL`, `dvdtL`, `stepL` of the Vary/Lerp model. Used by C05 (and C01).
-/
import Retro.Model.Scalar
import Mathlib.Tactic.Ring
import Mathlib.Algebra.Field.Basic

namespace Retro.Lemmas.Comb
open Retro

variable {K : Type} [Field K]

/-- a·A + b·B + c·C, componentwise -/
def combL (a b c : K) : List K → List K → List K → List K
  | x :: xs, y :: ys, z :: zs => (a * x + b * y + c * z) :: combL a b c xs ys zs
  | _, _, _ => []

theorem lerpL_combL (a b c a' b' c' s : K) (A B C : List K) :
    lerpL (combL a b c A B C) (combL a' b' c' A B C) s =
      combL (lerp a a' s) (lerp b b' s) (lerp c c' s) A B C := by
  induction A generalizing B C with
  | nil => simp [combL, lerpL]
  | cons x xs ih =>
    cases B with
    | nil => simp [combL, lerpL]
    | cons y ys =>
      cases C with
      | nil => simp [combL, lerpL]
      | cons z zs =>
        simp only [combL, lerpL, ih]
        congr 1
        simp only [lerp]; ring

theorem dvdtL_combL (a b c a' b' c' r : K) (A B C : List K) :
    dvdtL (combL a b c A B C) (combL a' b' c' A B C) r =
      combL ((a' - a) * r) ((b' - b) * r) ((c' - c) * r) A B C := by
  induction A generalizing B C with
  | nil => simp [combL, dvdtL]
  | cons x xs ih =>
    cases B with
    | nil => simp [combL, dvdtL]
    | cons y ys =>
      cases C with
      | nil => simp [combL, dvdtL]
      | cons z zs =>
        simp only [combL, dvdtL, ih]
        congr 1
        ring

theorem stepL_combL (a b c a' b' c' : K) (A B C : List K) :
    stepL (combL a b c A B C) (combL a' b' c' A B C) = combL (a + a') (b + b') (c + c') A B C := by
  induction A generalizing B C with
  | nil => simp [combL, stepL]
  | cons x xs ih =>
    cases B with
    | nil => simp [combL, stepL]
    | cons y ys =>
      cases C with
      | nil => simp [combL, stepL]
      | cons z zs =>
        simp only [combL, stepL, ih]
        congr 1
        ring

theorem combL_unit (A B C : List K) (h1 : A.length = B.length) (h2 : B.length = C.length) :
    combL 1 0 0 A B C = A ∧ combL 0 1 0 A B C = B ∧ combL 0 0 1 A B C = C := by
  induction A generalizing B C with
  | nil => cases B <;> cases C <;> simp_all [combL]
  | cons x xs ih =>
    cases B with
    | nil => simp at h1
    | cons y ys =>
      cases C with
      | nil => simp at h2
      | cons z zs =>
        obtain ⟨i1, i2, i3⟩ := ih ys zs (by simpa using h1) (by simpa using h2)
        simp [combL, i1, i2, i3]

/-- `v` is an affine combination of the three tuples (one set of weights for every component). -/
def Aff (A B C v : List K) : Prop := ∃ a b c : K, a + b + c = 1 ∧ v = combL a b c A B C
/-- `d` is a difference of affine combinations (weights sum to 0). -/
def Dif (A B C d : List K) : Prop := ∃ a b c : K, a + b + c = 0 ∧ d = combL a b c A B C

theorem aff_lerp {A B C v w : List K} (t : K) (hv : Aff A B C v) (hw : Aff A B C w) : Aff A B C (lerpL v w t) := by
  obtain ⟨a, b, c, hs, rfl⟩ := hv
  obtain ⟨a', b', c', hs', rfl⟩ := hw
  refine ⟨lerp a a' t, lerp b b' t, lerp c c' t, ?_, lerpL_combL ..⟩
  simp only [lerp]
  have e : a + (a' - a) * t + (b + (b' - b) * t) + (c + (c' - c) * t) =
      (a + b + c) + ((a' + b' + c') - (a + b + c)) * t := by ring
  rw [e, hs, hs']; ring

theorem dif_dvdt {A B C v w : List K} (r : K) (hv : Aff A B C v) (hw : Aff A B C w) : Dif A B C (dvdtL v w r) := by
  obtain ⟨a, b, c, hs, rfl⟩ := hv
  obtain ⟨a', b', c', hs', rfl⟩ := hw
  refine ⟨(a' - a) * r, (b' - b) * r, (c' - c) * r, ?_, dvdtL_combL ..⟩
  have e : (a' - a) * r + (b' - b) * r + (c' - c) * r = ((a' + b' + c') - (a + b + c)) * r := by ring
  rw [e, hs, hs']; ring

theorem aff_step {A B C v d : List K} (hv : Aff A B C v) (hd : Dif A B C d) : Aff A B C (stepL v d) := by
  obtain ⟨a, b, c, hs, rfl⟩ := hv
  obtain ⟨a', b', c', hs', rfl⟩ := hd
  refine ⟨a + a', b + b', c + c', ?_, stepL_combL ..⟩
  have e : a + a' + (b + b') + (c + c') = (a + b + c) + (a' + b' + c') := by ring
  rw [e, hs, hs']; ring

end Retro.Lemmas.Comb
