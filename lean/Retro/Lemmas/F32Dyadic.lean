/-
Exact `f32` arithmetic on dyadic rationals, on the binary32 bit model (`F32.ofRat`, `F32.toRat?`,
`Rep`, `F32.add / sub / mul` = one round-to-nearest-even of the exact result):

  * `toRat?_neg`            – `neg` (sign-bit flip) negates the decoded value of every finite pattern
  * `sub_finite_exact`, `mul_finite_exact` – a difference / product whose exact value is a binary32
                               value is returned without rounding (companions of `add_finite_exact`)
  * `rep_dyadic`            – `n / 2^k` is a binary32 value for `n ≤ 2^24`, `k ≤ 149`
  * `lerpF`                 – the literal `f32` `Lerp` (math.rs:96) on bit patterns
  * `lerpF_half_dyadic`     – bisecting `[i/2^k, (i+1)/2^k]` with `2i+1 ≤ 2^24` is exact in all three operations

Used by `Retro.Props.C17.Dyadic`.
-/
import Retro.Lemmas.F32Ops
import Retro.Lemmas.F32Nearest

namespace Retro.F32
open Retro

/-! ### `neg` -/

theorem xor_two_pow_31 {n : ℕ} (hn : n < 2 ^ 32) :
    n ^^^ 2 ^ 31 = if n < 2 ^ 31 then n + 2 ^ 31 else n - 2 ^ 31 := by
  have hm : (n ^^^ 2 ^ 31) % 2 ^ 31 = n % 2 ^ 31 := by
    rw [Nat.xor_mod_two_pow, Nat.mod_self, Nat.xor_zero]
  have hd : (n ^^^ 2 ^ 31) / 2 ^ 31 = n / 2 ^ 31 ^^^ 1 := by
    rw [Nat.xor_div_two_pow, Nat.div_self (by norm_num)]
  have hq : n / 2 ^ 31 = 0 ∨ n / 2 ^ 31 = 1 := by omega
  have := Nat.div_add_mod (n ^^^ 2 ^ 31) (2 ^ 31)
  rcases hq with h | h
  · rw [h] at hd
    have h1 : (0 ^^^ 1 : ℕ) = 1 := by decide
    rw [h1] at hd
    split <;> omega
  · rw [h] at hd
    have h1 : (1 ^^^ 1 : ℕ) = 0 := by decide
    rw [h1] at hd
    split <;> omega

theorem toNat_neg (b : UInt32) :
    (neg b).toNat = if b.toNat < 2 ^ 31 then b.toNat + 2 ^ 31 else b.toNat - 2 ^ 31 := by
  unfold neg
  rw [UInt32.toNat_xor]
  have : signMask.toNat = 2 ^ 31 := by decide
  rw [this]
  exact xor_two_pow_31 b.toNat_lt

theorem expField_neg (b : UInt32) : expField (neg b) = expField b := by
  rw [expField_eq, expField_eq, toNat_neg]
  have := b.toNat_lt
  split <;> omega

theorem manField_neg (b : UInt32) : manField (neg b) = manField b := by
  rw [manField_eq, manField_eq, toNat_neg]
  have := b.toNat_lt
  split <;> omega

theorem signBit_neg (b : UInt32) : signBit (neg b) = !signBit b := by
  rw [signBit_eq, signBit_eq, toNat_neg]
  have := b.toNat_lt
  by_cases h : b.toNat < 2 ^ 31
  · rw [if_pos h]
    have h1 : 2 ^ 31 ≤ b.toNat + 2 ^ 31 := by omega
    have h2 : ¬ 2 ^ 31 ≤ b.toNat := by omega
    rw [decide_eq_true h1, decide_eq_false h2]; rfl
  · rw [if_neg h]
    have h1 : ¬ 2 ^ 31 ≤ b.toNat - 2 ^ 31 := by omega
    have h2 : 2 ^ 31 ≤ b.toNat := by omega
    rw [decide_eq_false h1, decide_eq_true h2]; rfl

/-- `-x` on bit patterns negates the decoded value (`-0.0` and `+0.0` both decode to `0`). -/
theorem toRat?_neg {b : UInt32} {q : ℚ} (h : toRat? b = some q) : toRat? (neg b) = some (-q) := by
  rw [toRat?_def] at h ⊢
  rw [expField_neg, manField_neg, signBit_neg]
  by_cases he : expField b = 255
  · rw [if_pos he] at h; cases h
  · rw [if_neg he] at h ⊢
    cases hs : signBit b <;> rw [hs] at h <;> simp at h ⊢ <;> rw [← h]
    simp

/-! ### Exact subtraction and multiplication -/

/-- `a - b` is exact whenever the exact difference is a binary32 value. -/
theorem sub_finite_exact {a b : UInt32} {x y : ℚ} (ha : toRat? a = some x) (hb : toRat? b = some y)
    (hr : Rep (x - y)) : toRat? (sub a b) = some (x - y) := by
  unfold sub
  rw [sub_eq_add_neg] at hr ⊢
  exact add_finite_exact ha (toRat?_neg hb) hr

/-- `a * b` is exact whenever the exact product is a binary32 value. -/
theorem mul_finite_exact {a b : UInt32} {x y : ℚ} (ha : toRat? a = some x) (hb : toRat? b = some y)
    (hr : Rep (x * y)) : toRat? (mul a b) = some (x * y) := by
  unfold mul
  rw [isNaN_eq_false_of_some ha, isNaN_eq_false_of_some hb, ha, hb]
  simp only [Bool.or_false, Bool.false_eq_true, ↓reduceIte]
  by_cases h0 : x * y = 0
  · have : (x * y == 0) = true := by simp [h0]
    rw [this, h0]
    simp only [↓reduceIte]
    exact toRat?_zeroS _
  · have : (x * y == 0) = false := by simpa using h0
    rw [this]
    simp only [Bool.false_eq_true, ↓reduceIte]
    exact toRat?_ofRat hr

/-! ### Dyadic rationals -/

/-- `n / 2^k` with at most 24 significant bits and `k ≤ 149` is the exact value of a binary32. -/
theorem rep_dyadic {n k : ℕ} (hn : n ≤ 2 ^ 24) (hk : k ≤ 149) : Rep ((n : ℚ) / 2 ^ k) := by
  have h2 : (2 : ℚ) ≠ 0 := by norm_num
  have hnn : (0 : ℚ) ≤ (n : ℚ) / 2 ^ k := by positivity
  by_cases h : n = 2 ^ 24
  · refine ⟨2 ^ 23, 1 - (k : ℤ), by norm_num, by omega, by omega, ?_⟩
    rw [abs_of_nonneg hnn, h, zpow_sub₀ h2, zpow_natCast]
    push_cast
    ring
  · refine ⟨n, -(k : ℤ), by omega, by omega, by omega, ?_⟩
    rw [abs_of_nonneg hnn, zpow_neg, zpow_natCast]
    rfl

/-- Distinct binary32 values have distinct encodings. -/
theorem ofRat_injective_rep {p q : ℚ} (hp : Rep p) (hq : Rep q) (h : ofRat p = ofRat q) : p = q := by
  have := toRat?_ofRat hp
  rw [h, toRat?_ofRat hq] at this
  exact (Option.some.inj this).symm

theorem ofRat_one : ofRat 1 = one := ofRat_toRat? toRat?_one (by norm_num)
theorem ofRat_half : ofRat (1 / 2) = half := ofRat_toRat? toRat?_half (by norm_num)

/-! ### The `f32` `Lerp` -/

/-- math.rs:96 `self.add(&other.sub(self).mul(t))` at `f32` (space.rs:87-105: `self + other`,
`self - other`, `self * rhs`), on bit patterns. -/
def lerpF (a b t : UInt32) : UInt32 := add a (mul (sub b a) t)

/-- Bisecting the dyadic interval `[i/2^k, (i+1)/2^k]` whose midpoint `(2i+1)/2^(k+1)` has at most 24
significant bits (`2i+1 ≤ 2^24`; any `k ≤ 148`): the difference `2^-k`, the product `2^-(k+1)` and the
sum `(2i+1)/2^(k+1)` are all binary32 values, so none of the three operations rounds. -/
theorem lerpF_half_dyadic_value {i k : ℕ} (hi : 2 * i + 1 ≤ 2 ^ 24) (hk : k ≤ 148) :
    toRat? (sub (ofRat (((i + 1 : ℕ) : ℚ) / 2 ^ k)) (ofRat ((i : ℚ) / 2 ^ k))) = some (1 / 2 ^ k) ∧
    toRat? (mul (sub (ofRat (((i + 1 : ℕ) : ℚ) / 2 ^ k)) (ofRat ((i : ℚ) / 2 ^ k))) half)
      = some (1 / 2 ^ (k + 1)) ∧
    toRat? (lerpF (ofRat ((i : ℚ) / 2 ^ k)) (ofRat (((i + 1 : ℕ) : ℚ) / 2 ^ k)) half)
      = some (((2 * i + 1 : ℕ) : ℚ) / 2 ^ (k + 1)) := by
  have hA : toRat? (ofRat ((i : ℚ) / 2 ^ k)) = some ((i : ℚ) / 2 ^ k) :=
    toRat?_ofRat (rep_dyadic (by omega) (by omega))
  have hB : toRat? (ofRat (((i + 1 : ℕ) : ℚ) / 2 ^ k)) = some (((i + 1 : ℕ) : ℚ) / 2 ^ k) :=
    toRat?_ofRat (rep_dyadic (by omega) (by omega))
  have e1 : ((i + 1 : ℕ) : ℚ) / 2 ^ k - (i : ℚ) / 2 ^ k = ((1 : ℕ) : ℚ) / 2 ^ k := by
    push_cast; ring
  have hS := sub_finite_exact hB hA (by rw [e1]; exact rep_dyadic (by norm_num) (by omega))
  rw [e1] at hS
  have e2 : ((1 : ℕ) : ℚ) / 2 ^ k * (1 / 2) = ((1 : ℕ) : ℚ) / 2 ^ (k + 1) := by
    rw [pow_succ]; push_cast; field_simp
  have hM := mul_finite_exact hS toRat?_half (by rw [e2]; exact rep_dyadic (by norm_num) (by omega))
  rw [e2] at hM
  have e3 : (i : ℚ) / 2 ^ k + ((1 : ℕ) : ℚ) / 2 ^ (k + 1) = ((2 * i + 1 : ℕ) : ℚ) / 2 ^ (k + 1) := by
    rw [pow_succ]; push_cast; field_simp
  have hL := add_finite_exact hA hM (by rw [e3]; exact rep_dyadic (by omega) (by omega))
  rw [e3] at hL
  refine ⟨by simpa using hS, by simpa using hM, hL⟩

/-- … hence the bit pattern returned is the encoding of the exact midpoint. -/
theorem lerpF_half_dyadic {i k : ℕ} (hi : 2 * i + 1 ≤ 2 ^ 24) (hk : k ≤ 148) :
    lerpF (ofRat ((i : ℚ) / 2 ^ k)) (ofRat (((i + 1 : ℕ) : ℚ) / 2 ^ k)) half
      = ofRat (((2 * i + 1 : ℕ) : ℚ) / 2 ^ (k + 1)) := by
  have h := (lerpF_half_dyadic_value hi hk).2.2
  have hne : ((2 * i + 1 : ℕ) : ℚ) / 2 ^ (k + 1) ≠ 0 := by
    have : (0 : ℚ) < ((2 * i + 1 : ℕ) : ℚ) / 2 ^ (k + 1) := by
      apply div_pos
      · exact_mod_cast Nat.succ_pos _
      · positivity
    exact this.ne'
  exact (ofRat_toRat? h hne).symm

end Retro.F32
