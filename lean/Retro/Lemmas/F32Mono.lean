/-
Monotonicity of binary32 rounding, on the bit model (`F32.ofRat`, `F32.toRat?`, `Rep`, `F32.add / sub / mul`
= one round-to-nearest-even of the exact result), for `Retro.Props.C02.SlackF32`.

  * `div`                     the IEEE `/` on bit patterns (one rounding; NaN, ∞ and signed-zero rules), the
                              companion of `F32.mul / add / sub` of `Model/F32Ops.lean`
  * `ofRat_mono`              round-to-nearest is monotone: `p ≤ q` ⇒ `value (ofRat p) ≤ value (ofRat q)`
  * `mul_between`, `add_between`, `sub_between`, `div_between`
                              an operation on finite operands whose EXACT result lies between two binary32
                              values `lo ≤ · ≤ hi` returns a finite value between the same two (rounding never
                              crosses a representable value) — no epsilon involved
  * `mul_rep_exact`, `div_rep_exact`
                              … in particular an exactly representable result is returned without rounding
  * `mul_zero_left`, `add_zero_left`, `add_zero_right`, `mul_one_right`
                              products with a zero are zeros, sums with a zero and products with 1.0 are exact
                              (for FINITE other operands — `0 · ∞` is NaN, see `mul_zero_inf_nan`)
  * `rep_nat`, `rep_half_nat`, `toRat?_natF`
                              small integers and half-integers are binary32 values; `c as f32` is exact
  * `sub_pos_iff`, `add_pos_iff`  the f32 difference / sum of two finite values is `> 0.0` iff the exact one is
                              (gradual underflow: a non-zero result is at least `2^-149`; −∞ is not `> 0.0`)
-/
import Retro.Lemmas.F32Ops
import Retro.Lemmas.F32Nearest
import Retro.Lemmas.F32Rows

namespace Retro.F32
open Retro

/-! ### Division -/

/-- `a / b` on `f32`: one rounding of the exact quotient; `x / 0 = ±∞` for `x ≠ 0`, `0 / 0 = NaN`,
`∞ / ∞ = NaN`, `finite / ∞ = ±0`, `∞ / finite = ±∞`; the sign of a zero or infinite result is the xor of
the operands' signs. -/
def div (a b : UInt32) : UInt32 :=
  if isNaN a || isNaN b then canonNaN
  else
    let s := signBit a != signBit b
    match toRat? a, toRat? b with
    | some x, some y =>
      if y == 0 then (if x == 0 then canonNaN else infS s)
      else if x / y == 0 then zeroS s else ofRat (x / y)
    | some _, none => zeroS s
    | none, some _ => infS s
    | none, none => canonNaN

/-! ### Monotonicity of the rounding itself -/

/-- **Round-to-nearest is monotone** (below the overflow threshold). -/
theorem ofRat_mono {p q : ℚ} (hp : |p| < (2:ℚ)^128 - (2:ℚ)^103) (hq : |q| < (2:ℚ)^128 - (2:ℚ)^103)
    (h : p ≤ q) :
    ∃ vp vq : ℚ, toRat? (ofRat p) = some vp ∧ toRat? (ofRat q) = some vq ∧ vp ≤ vq := by
  obtain ⟨vp, hvp, rp, np⟩ := ofRat_nearest hp
  obtain ⟨vq, hvq, rq, nq⟩ := ofRat_nearest hq
  refine ⟨vp, vq, hvp, hvq, ?_⟩
  by_contra hc
  rw [not_le] at hc
  have n1 := np vq rq
  have n2 := nq vp rp
  rcases le_or_gt p vq with h1 | h1
  · rw [abs_of_nonneg (by linarith : 0 ≤ vq - p)] at n1
    have := le_abs_self (vp - p)
    linarith
  · rw [abs_of_nonpos (by linarith : vq - p ≤ 0)] at n1
    rcases le_or_gt vp q with h2 | h2
    · rw [abs_of_nonpos (by linarith : vp - q ≤ 0)] at n2
      have := neg_abs_le (vq - q)
      linarith
    · rw [abs_of_nonneg (by linarith : 0 ≤ vp - q)] at n2
      have a1 := le_abs_self (vp - p)
      have a2 := neg_abs_le (vq - q)
      have hpq : p = q := le_antisymm h (by linarith)
      subst hpq
      rw [hvp] at hvq
      have := Option.some.inj hvq
      linarith

/-! ### Operations never cross a representable value -/

theorem mul_between {a b : UInt32} {x y lo hi : ℚ} (ha : toRat? a = some x) (hb : toRat? b = some y)
    (hlo : Rep lo) (hhi : Rep hi) (h1 : lo ≤ x * y) (h2 : x * y ≤ hi) :
    ∃ v : ℚ, toRat? (mul a b) = some v ∧ lo ≤ v ∧ v ≤ hi := by
  unfold mul
  rw [isNaN_eq_false_of_some ha, isNaN_eq_false_of_some hb, ha, hb]
  simp only [Bool.or_false, Bool.false_eq_true, ↓reduceIte]
  by_cases h0 : x * y = 0
  · have : (x * y == 0) = true := by simp [h0]
    rw [this]
    simp only [↓reduceIte]
    exact ⟨0, toRat?_zeroS _, by linarith, by linarith⟩
  · have : (x * y == 0) = false := by simpa using h0
    rw [this]
    simp only [Bool.false_eq_true, ↓reduceIte]
    exact ofRat_between hlo hhi h1 h2

theorem add_between {a b : UInt32} {x y lo hi : ℚ} (ha : toRat? a = some x) (hb : toRat? b = some y)
    (hlo : Rep lo) (hhi : Rep hi) (h1 : lo ≤ x + y) (h2 : x + y ≤ hi) :
    ∃ v : ℚ, toRat? (add a b) = some v ∧ lo ≤ v ∧ v ≤ hi := by
  unfold add
  rw [isNaN_eq_false_of_some ha, isNaN_eq_false_of_some hb, ha, hb]
  simp only [Bool.or_false, Bool.false_eq_true, ↓reduceIte]
  by_cases h0 : x + y = 0
  · have : (x + y == 0) = true := by simp [h0]
    rw [this]
    simp only [↓reduceIte]
    refine ⟨0, ?_, by linarith, by linarith⟩
    split
    · exact toRat?_zeroS _
    · exact toRat?_zero
  · have : (x + y == 0) = false := by simpa using h0
    rw [this]
    simp only [Bool.false_eq_true, ↓reduceIte]
    exact ofRat_between hlo hhi h1 h2

theorem sub_between {a b : UInt32} {x y lo hi : ℚ} (ha : toRat? a = some x) (hb : toRat? b = some y)
    (hlo : Rep lo) (hhi : Rep hi) (h1 : lo ≤ x - y) (h2 : x - y ≤ hi) :
    ∃ v : ℚ, toRat? (sub a b) = some v ∧ lo ≤ v ∧ v ≤ hi := by
  unfold sub
  rw [sub_eq_add_neg] at h1 h2
  exact add_between ha (toRat?_neg hb) hlo hhi h1 h2

theorem div_between {a b : UInt32} {x y lo hi : ℚ} (ha : toRat? a = some x) (hb : toRat? b = some y)
    (hy : y ≠ 0) (hlo : Rep lo) (hhi : Rep hi) (h1 : lo ≤ x / y) (h2 : x / y ≤ hi) :
    ∃ v : ℚ, toRat? (div a b) = some v ∧ lo ≤ v ∧ v ≤ hi := by
  unfold div
  rw [isNaN_eq_false_of_some ha, isNaN_eq_false_of_some hb, ha, hb]
  simp only [Bool.or_false, Bool.false_eq_true, ↓reduceIte]
  have hy0 : (y == 0) = false := by simpa using hy
  rw [hy0]
  simp only [Bool.false_eq_true, ↓reduceIte]
  by_cases h0 : x / y = 0
  · have : (x / y == 0) = true := by simp [h0]
    rw [this]
    simp only [↓reduceIte]
    exact ⟨0, toRat?_zeroS _, by linarith, by linarith⟩
  · have : (x / y == 0) = false := by simpa using h0
    rw [this]
    simp only [Bool.false_eq_true, ↓reduceIte]
    exact ofRat_between hlo hhi h1 h2

/-- `a * b` is exact whenever the exact product is a binary32 value. -/
theorem mul_rep_exact {a b : UInt32} {x y : ℚ} (ha : toRat? a = some x) (hb : toRat? b = some y)
    (hr : Rep (x * y)) : toRat? (mul a b) = some (x * y) := by
  obtain ⟨v, hv, h1, h2⟩ := mul_between ha hb hr hr le_rfl le_rfl
  rw [hv, le_antisymm h2 h1]

/-- `a / b` is exact whenever the exact quotient is a binary32 value. -/
theorem div_rep_exact {a b : UInt32} {x y : ℚ} (ha : toRat? a = some x) (hb : toRat? b = some y)
    (hy : y ≠ 0) (hr : Rep (x / y)) : toRat? (div a b) = some (x / y) := by
  obtain ⟨v, hv, h1, h2⟩ := div_between ha hb hy hr hr le_rfl le_rfl
  rw [hv, le_antisymm h2 h1]

/-! ### Zeros and ones -/

/-- `0 · y` is a zero for FINITE `y` (either sign of zero, either sign of `y`). -/
theorem mul_zero_left {a b : UInt32} {y : ℚ} (ha : toRat? a = some 0) (hb : toRat? b = some y) :
    toRat? (mul a b) = some 0 := by
  have := mul_rep_exact ha hb (by rw [zero_mul]; exact rep_zero)
  rwa [zero_mul] at this

/-- `0 + y = y` in value, for finite `y`. -/
theorem add_zero_left {a b : UInt32} {y : ℚ} (ha : toRat? a = some 0) (hb : toRat? b = some y) :
    toRat? (add a b) = some y := by
  have := add_finite_exact ha hb (by rw [zero_add]; exact rep_of_toRat? hb)
  rwa [zero_add] at this

/-- `x + 0 = x` in value, for finite `x`. -/
theorem add_zero_right {a b : UInt32} {x : ℚ} (ha : toRat? a = some x) (hb : toRat? b = some 0) :
    toRat? (add a b) = some x := by
  have := add_finite_exact ha hb (by rw [add_zero]; exact rep_of_toRat? ha)
  rwa [add_zero] at this

/-- `x · 1.0 = x` in value, for finite `x`. -/
theorem mul_one_right {a : UInt32} {x : ℚ} (ha : toRat? a = some x) : toRat? (mul a one) = some x := by
  have := mul_rep_exact ha toRat?_one (by rw [mul_one]; exact rep_of_toRat? ha)
  rwa [mul_one] at this

/-- … whereas `0 · ∞` is NaN: the finiteness hypothesis of `mul_zero_left` cannot be dropped. -/
theorem mul_zero_inf_nan : mul 0 posInf = canonNaN := by decide +kernel

/-! ### Small integers and half-integers; `c as f32` -/

theorem rep_nat {n : ℕ} (h : n ≤ 2 ^ 24) : Rep (n : ℚ) := by
  have := rep_int (z := (n : ℤ)) (by rw [abs_of_nonneg (by positivity)]; exact_mod_cast h)
  simpa using this

theorem rep_neg_nat {n : ℕ} (h : n ≤ 2 ^ 24) : Rep (-(n : ℚ)) := (rep_nat h).neg

/-- `N / 2` for an integer `|N| < 2^24`. -/
theorem rep_half_nat {n : ℕ} (h : n < 2 ^ 24) : Rep ((n : ℚ) / 2) := by
  have := rep_half_mul (N := (n : ℤ)) (by rw [abs_of_nonneg (by positivity)]; exact_mod_cast h)
  simpa using this

/-- `c as f32` for an unsigned integer `c`. -/
def natF (n : ℕ) : UInt32 := intToF32 (n : ℤ)

/-- `c as f32` is exact up to `2^24`. -/
theorem toRat?_natF {n : ℕ} (h : n ≤ 2 ^ 24) : toRat? (natF n) = some (n : ℚ) := by
  have := toRat?_intToF32 (n := (n : ℤ)) (by rw [abs_of_nonneg (by positivity)]; exact_mod_cast h)
  simpa [natF] using this

/-! ### The sign of a difference is exact -/

/-- every binary32 value is an integer multiple of `2^-149` -/
theorem rep_grid {q : ℚ} (h : Rep q) : ∃ N : ℤ, q = (N : ℚ) * (2:ℚ) ^ (-149 : ℤ) := by
  have t2 : (2:ℚ) ≠ 0 := by norm_num
  obtain ⟨m, s, -, hs, -, habs⟩ := h
  obtain ⟨k, hk⟩ : ∃ k : ℕ, s = -149 + k := ⟨(s + 149).toNat, by omega⟩
  have hval : |q| = ((m * 2 ^ k : ℕ) : ℚ) * (2:ℚ) ^ (-149 : ℤ) := by
    rw [habs, hk, zpow_add₀ t2, zpow_natCast]; push_cast; ring
  rcases abs_choice q with hc | hc
  · exact ⟨((m * 2 ^ k : ℕ) : ℤ), by rw [Int.cast_natCast, ← hval, hc]⟩
  · refine ⟨-((m * 2 ^ k : ℕ) : ℤ), ?_⟩
    rw [Int.cast_neg, Int.cast_natCast, neg_mul, ← hval, hc, neg_neg]

theorem rep_min_sub : Rep ((2:ℚ) ^ (-149 : ℤ)) :=
  ⟨1, -149, by norm_num, by norm_num, by norm_num, by rw [abs_of_pos (by positivity)]; norm_num⟩

theorem rep_max : Rep ((2:ℚ) ^ 128 - (2:ℚ) ^ 104) :=
  ⟨2 ^ 24 - 1, 104, by norm_num, by norm_num, by norm_num, by
    rw [abs_of_pos (by norm_num)]; norm_num⟩

/-- a pattern with the sign bit set (−0, negative, −∞, or a NaN) is not `> 0.0` -/
theorem lt_zero_of_signBit {c : UInt32} (h : signBit c = true) : lt 0 c = false := by
  unfold lt
  by_cases hn : isNaN c = true
  · simp [hn]
  · have h0 : isNaN (0 : UInt32) = false := by decide +kernel
    rw [Bool.not_eq_true] at hn
    rw [h0, hn, toRat?_zero]
    simp only [Bool.or_false, Bool.false_eq_true, ↓reduceIte]
    cases hc : toRat? c with
    | none => simp [h]
    | some v =>
      simp only [decide_eq_false_iff_not, not_lt]
      obtain ⟨-, -, hs⟩ := abs_of_toRat? hc
      by_contra hv
      rw [not_le] at hv
      have := hs hv.ne'
      rw [h] at this
      simp at this
      linarith

/-- a sum of finite values whose exact value is `≤ 0` is not `> 0.0` in f32 — also when it overflows to −∞ -/
theorem add_nonpos {a b : UInt32} {x y : ℚ} (ha : toRat? a = some x) (hb : toRat? b = some y)
    (h : x + y ≤ 0) : lt 0 (add a b) = false := by
  unfold add
  rw [isNaN_eq_false_of_some ha, isNaN_eq_false_of_some hb, ha, hb]
  simp only [Bool.or_false, Bool.false_eq_true, ↓reduceIte]
  by_cases h0 : x + y = 0
  · have : (x + y == 0) = true := by simp [h0]
    rw [this]
    simp only [↓reduceIte]
    split
    · rw [lt_finite toRat?_zero (toRat?_zeroS _)]; simp
    · rw [lt_finite toRat?_zero toRat?_zero]; simp
  · have : (x + y == 0) = false := by simpa using h0
    rw [this]
    simp only [Bool.false_eq_true, ↓reduceIte]
    exact lt_zero_of_signBit (signBit_ofRat_of_neg (lt_of_le_of_ne h h0))

/-- **The sign of an f32 difference is the sign of the exact difference** (gradual underflow: two distinct
finite values differ by at least `2^-149`, which does not round to zero; a negative overflow gives −∞, which
is not `> 0.0` either).  For `0 ≤ y`, so that a positive difference cannot overflow. -/
theorem sub_pos_iff {a b : UInt32} {x y : ℚ} (ha : toRat? a = some x) (hb : toRat? b = some y)
    (hy : 0 ≤ y) : lt 0 (sub a b) = true ↔ y < x := by
  have hmax := rep_abs_le (rep_of_toRat? ha)
  rw [abs_le] at hmax
  constructor
  · intro h
    by_contra hc
    rw [not_lt] at hc
    have : lt 0 (sub a b) = false := by
      unfold sub
      exact add_nonpos ha (toRat?_neg hb) (by linarith)
    rw [this] at h
    exact absurd h (by simp)
  · intro h
    obtain ⟨N, hN⟩ := rep_grid (rep_of_toRat? ha)
    obtain ⟨M, hM⟩ := rep_grid (rep_of_toRat? hb)
    have hp : (0:ℚ) < (2:ℚ) ^ (-149 : ℤ) := by positivity
    have hNM : M < N := by
      by_contra hc
      rw [not_lt] at hc
      have : (N : ℚ) ≤ M := by exact_mod_cast hc
      have := mul_le_mul_of_nonneg_right this hp.le
      linarith
    have h1 : (2:ℚ) ^ (-149 : ℤ) ≤ x - y := by
      have : (M : ℚ) + 1 ≤ N := by exact_mod_cast hNM
      have := mul_le_mul_of_nonneg_right this hp.le
      rw [hN, hM]; linarith
    obtain ⟨v, hv, hv1, -⟩ := sub_between ha hb rep_min_sub rep_max h1 (by linarith [hmax.2])
    rw [lt_finite toRat?_zero hv, decide_eq_true_eq]
    linarith

/-- **The sign of an f32 sum is the sign of the exact sum**, for `y ≤ 0` (so that a positive sum cannot
overflow): the form the clipper's `signed_dist(pt) > 0.0` takes (`… + (-1.0)·w`). -/
theorem add_pos_iff {a b : UInt32} {x y : ℚ} (ha : toRat? a = some x) (hb : toRat? b = some y)
    (hy : y ≤ 0) : lt 0 (add a b) = true ↔ 0 < x + y := by
  have hmax := rep_abs_le (rep_of_toRat? ha)
  rw [abs_le] at hmax
  constructor
  · intro h
    by_contra hc
    rw [not_lt] at hc
    rw [add_nonpos ha hb hc] at h
    exact absurd h (by simp)
  · intro h
    obtain ⟨N, hN⟩ := rep_grid (rep_of_toRat? ha)
    obtain ⟨M, hM⟩ := rep_grid (rep_of_toRat? hb)
    have hp : (0:ℚ) < (2:ℚ) ^ (-149 : ℤ) := by positivity
    have hNM : 0 < N + M := by
      by_contra hc
      rw [not_lt] at hc
      have : ((N + M : ℤ) : ℚ) ≤ 0 := by exact_mod_cast hc
      have := mul_le_mul_of_nonneg_right this hp.le
      push_cast at this
      linarith
    have h1 : (2:ℚ) ^ (-149 : ℤ) ≤ x + y := by
      have : (1 : ℚ) ≤ ((N + M : ℤ) : ℚ) := by exact_mod_cast hNM
      have := mul_le_mul_of_nonneg_right this hp.le
      push_cast at this
      rw [hN, hM]; linarith
    obtain ⟨v, hv, hv1, -⟩ := add_between ha hb rep_min_sub rep_max h1 (by linarith [hmax.2])
    rw [lt_finite toRat?_zero hv, decide_eq_true_eq]
    linarith

end Retro.F32
