/-
`F32.ofRat` rounds to a nearest binary32 value: nearest-ness, anchoring between representable
values, sign bit, and the half-ulp relative error bound in the normal range.
-/
import Retro.Lemmas.F32Round
import Mathlib.Tactic.Linarith
import Mathlib.Tactic.Ring
import Mathlib.Tactic.FieldSimp
import Mathlib.Tactic.Positivity
import Mathlib.Tactic.NormNum
import Mathlib.Data.Rat.Floor
import Mathlib.Algebra.Order.Floor.Ring
import Mathlib.Algebra.Order.Field.Power

namespace Retro.F32

/-! ### `roundNearestEven` picks a nearest integer -/

theorem rne_nearest (x : ℚ) (n : ℤ) : |((roundNearestEven x : ℤ) : ℚ) - x| ≤ |(n : ℚ) - x| := by
  have hf1 : ((⌊x⌋ : ℤ) : ℚ) ≤ x := Int.floor_le x
  have hf2 : x < ((⌊x⌋ : ℤ) : ℚ) + 1 := Int.lt_floor_add_one x
  have hfl : x.floor = ⌊x⌋ := rfl
  unfold roundNearestEven
  simp only [hfl]
  generalize ⌊x⌋ = f at *
  have A : |(f : ℚ) - x| = x - f := by rw [abs_of_nonpos (by linarith)]; ring
  have B : |((f + 1 : ℤ) : ℚ) - x| = f + 1 - x := by
    push_cast; rw [abs_of_nonneg (by linarith)]
  rcases le_or_gt n f with hn | hn
  · have hn' : (n : ℚ) ≤ f := by exact_mod_cast hn
    have C : |(n : ℚ) - x| = x - n := by rw [abs_of_nonpos (by linarith)]; ring
    split_ifs <;> simp only [A, B, C] <;> linarith
  · have hn' : (f : ℚ) + 1 ≤ n := by exact_mod_cast hn
    have C : |(n : ℚ) - x| = n - x := by rw [abs_of_nonneg (by linarith)]
    split_ifs <;> simp only [A, B, C] <;> linarith

theorem rne_half (x : ℚ) : |((roundNearestEven x : ℤ) : ℚ) - x| ≤ 1 / 2 := by
  have hf1 : ((⌊x⌋ : ℤ) : ℚ) ≤ x := Int.floor_le x
  have hf2 : x < ((⌊x⌋ : ℤ) : ℚ) + 1 := Int.lt_floor_add_one x
  have a1 := rne_nearest x ⌊x⌋
  have a2 := rne_nearest x (⌊x⌋ + 1)
  have A : |((⌊x⌋ : ℤ) : ℚ) - x| = x - ⌊x⌋ := by rw [abs_of_nonpos (by linarith)]; ring
  have B : |((⌊x⌋ + 1 : ℤ) : ℚ) - x| = ⌊x⌋ + 1 - x := by
    push_cast; rw [abs_of_nonneg (by linarith)]
  rw [A] at a1
  rw [B] at a2
  linarith

theorem rne_ge {x : ℚ} {k : ℤ} (h : (k : ℚ) ≤ x) : k ≤ roundNearestEven x := by
  by_contra hc
  rw [not_le] at hc
  have hc' : ((roundNearestEven x : ℤ) : ℚ) + 1 ≤ k := by exact_mod_cast hc
  have a1 := rne_nearest x k
  have A : |((roundNearestEven x : ℤ) : ℚ) - x| = x - roundNearestEven x := by
    rw [abs_of_nonpos (by linarith)]; ring
  have B : |(k : ℚ) - x| = x - k := by rw [abs_of_nonpos (by linarith)]; ring
  rw [A, B] at a1
  linarith

theorem rne_le {x : ℚ} {k : ℤ} (h : x ≤ (k : ℚ)) : roundNearestEven x ≤ k := by
  by_contra hc
  rw [not_le] at hc
  have hc' : (k : ℚ) + 1 ≤ ((roundNearestEven x : ℤ) : ℚ) := by exact_mod_cast hc
  have a1 := rne_nearest x k
  have A : |((roundNearestEven x : ℤ) : ℚ) - x| = roundNearestEven x - x := by
    rw [abs_of_nonneg (by linarith)]
  have B : |(k : ℚ) - x| = k - x := by rw [abs_of_nonneg (by linarith)]
  rw [A, B] at a1
  linarith

/-- the rounded multiple of `2^s` is a nearest multiple of `2^s` -/
theorem grid_nearest (a : ℚ) (s : ℤ) (n : ℤ) :
    |((roundNearestEven (a / (2:ℚ) ^ s) : ℤ) : ℚ) * (2:ℚ) ^ s - a| ≤ |(n : ℚ) * (2:ℚ) ^ s - a| := by
  have hp : (0:ℚ) < (2:ℚ) ^ s := by positivity
  have e1 : ∀ y : ℚ, y * (2:ℚ) ^ s - a = (y - a / (2:ℚ) ^ s) * (2:ℚ) ^ s := by
    intro y; field_simp
  rw [e1, e1, abs_mul, abs_mul, abs_of_pos hp]
  exact mul_le_mul_of_nonneg_right (rne_nearest _ n) hp.le

/-! ### Value computed by `ofRat` -/

theorem magOf_carry (E : ℕ) : magOf (E + 1) 0 = magOf E (2 ^ 23) := by
  have h2 : (2:ℚ) ≠ 0 := by norm_num
  unfold magOf
  rw [if_neg (by omega)]
  split
  · rename_i h0; subst h0
    norm_num
  · rw [show (((E + 1 : ℕ) : ℤ)) - 150 = 1 + ((E : ℤ) - 150) by push_cast; ring, zpow_add₀ h2]
    push_cast; ring

theorem toRat?_pack_carry {neg : Bool} {E R : ℕ} (hE : E ≤ 254) (hR : R ≤ 2 ^ 23)
    (h : E * 2 ^ 23 + R < 255 * 2 ^ 23) :
    toRat? (pack neg E R) = some (if neg then -magOf E R else magOf E R) := by
  rcases Nat.lt_or_ge R (2 ^ 23) with hlt | hge
  · exact toRat?_pack hE hlt
  · have hR' : R = 2 ^ 23 := by omega
    have : pack neg E (2 ^ 23) = pack neg (E + 1) 0 := by
      unfold pack; rw [show E * 2 ^ 23 + 2 ^ 23 = (E + 1) * 2 ^ 23 + 0 by ring]
    rw [hR', this, toRat?_pack (by omega) (by norm_num), magOf_carry]

/-- what `ofRat` computes, once the rounded significand is known to fit: normal case -/
theorem ofRat_eq_pack_normal {q : ℚ} (hq : q ≠ 0) {e : ℤ} (h1 : (2:ℚ)^e ≤ |q|) (h2 : |q| < (2:ℚ)^(e+1))
    (he : -126 ≤ e) (he2 : e ≤ 127) {M : ℤ} (hM : roundNearestEven (|q| / (2:ℚ) ^ (e - 23)) = M)
    (hM1 : 8388608 ≤ M) (hM2 : M ≤ 16777216) (hM3 : e = 127 → M < 16777216) :
    ofRat q = pack (decide (q < 0)) (e + 127).toNat (M - 8388608).toNat := by
  rw [ofRat_of_log hq h1 h2]
  have hnot : ¬ (e < -126) := by omega
  simp only [hnot, if_false]
  rw [hM, or_sign]
  have hlt : ¬ ((e + 127) * 8388608 + (M - 8388608) ≥ 2139095040) := by omega
  simp only [hlt, if_false]
  unfold pack
  have : ((e + 127) * 8388608 + (M - 8388608)).toNat
      = (e + 127).toNat * 2 ^ 23 + (M - 8388608).toNat := by omega
  rw [this]

theorem ofRat_eq_pack_sub {q : ℚ} (hq : q ≠ 0) {e : ℤ} (h1 : (2:ℚ)^e ≤ |q|) (h2 : |q| < (2:ℚ)^(e+1))
    (he : e < -126) {M : ℤ} (hM : roundNearestEven (|q| / (2:ℚ) ^ (-149 : ℤ)) = M)
    (hM1 : 0 ≤ M) (hM2 : M ≤ 8388608) :
    ofRat q = pack (decide (q < 0)) 0 M.toNat := by
  rw [ofRat_of_log hq h1 h2]
  simp only [he, if_true]
  rw [show (-126 : ℤ) - 23 = -149 by norm_num, hM, or_sign]
  have hlt : ¬ (M ≥ 2139095040) := by omega
  simp only [hlt, if_false]
  unfold pack
  rw [Nat.zero_mul, Nat.zero_add]

/-- attach the sign of `q` to a magnitude -/
def withSign (q a : ℚ) : ℚ := if q < 0 then -a else a

theorem withSign_decide (q a : ℚ) : (if decide (q < 0) = true then -a else a) = withSign q a := by
  unfold withSign; simp only [decide_eq_true_eq]

theorem ofRat_value_normal {q : ℚ} (hthr : |q| < (2:ℚ)^128 - (2:ℚ)^103) {e : ℤ}
    (h1 : (2:ℚ)^e ≤ |q|) (h2 : |q| < (2:ℚ)^(e+1)) (he : -126 ≤ e) :
    toRat? (ofRat q) = some (withSign q
      (((roundNearestEven (|q| / (2:ℚ) ^ (e - 23)) : ℤ) : ℚ) * (2:ℚ) ^ (e - 23))) := by
  have t2 : (2:ℚ) ≠ 0 := by norm_num
  have hq : q ≠ 0 := by
    intro h0; rw [h0, abs_zero] at h1; exact absurd h1 (not_le.mpr (by positivity))
  have hp : (0:ℚ) < (2:ℚ) ^ (e - 23) := by positivity
  have he2 : e ≤ 127 := by
    have : (2:ℚ) ^ e < (2:ℚ) ^ (128 : ℤ) := by
      refine lt_of_le_of_lt h1 (lt_trans hthr ?_); norm_num
    have := (zpow_lt_zpow_iff_right₀ (by norm_num : (1:ℚ) < 2)).mp this
    omega
  have hx1 : ((8388608 : ℤ) : ℚ) ≤ |q| / (2:ℚ) ^ (e - 23) := by
    rw [le_div_iff₀ hp]
    have : (2:ℚ) ^ e = ((8388608 : ℤ) : ℚ) * (2:ℚ) ^ (e - 23) := by
      rw [show e = 23 + (e - 23) by ring, zpow_add₀ t2]; norm_num
    rw [← this]; exact h1
  have hx2 : |q| / (2:ℚ) ^ (e - 23) < ((16777216 : ℤ) : ℚ) := by
    rw [div_lt_iff₀ hp]
    have : (2:ℚ) ^ (e + 1) = ((16777216 : ℤ) : ℚ) * (2:ℚ) ^ (e - 23) := by
      rw [show e + 1 = 24 + (e - 23) by ring, zpow_add₀ t2]; norm_num
    rw [← this]; exact h2
  have hM1 := rne_ge hx1
  have hM2 := rne_le hx2.le
  have hM3 : e = 127 → roundNearestEven (|q| / (2:ℚ) ^ (e - 23)) < 16777216 := by
    intro h127
    by_contra hc
    rw [not_lt] at hc
    have hc' : ((16777216 : ℤ) : ℚ) ≤ ((roundNearestEven (|q| / (2:ℚ) ^ (e - 23)) : ℤ) : ℚ) := by
      exact_mod_cast hc
    have hh := rne_half (|q| / (2:ℚ) ^ (e - 23))
    have hx3 : |q| / (2:ℚ) ^ (e - 23) < 16777216 - 1 / 2 := by
      rw [div_lt_iff₀ hp, h127]
      refine lt_of_lt_of_le hthr ?_
      norm_num
    rw [abs_le] at hh
    push_cast at hc'
    linarith [hh.2]
  generalize hM : roundNearestEven (|q| / (2:ℚ) ^ (e - 23)) = M at hM1 hM2 hM3 ⊢
  rw [ofRat_eq_pack_normal hq h1 h2 he he2 hM hM1 hM2 hM3]
  rw [toRat?_pack_carry (by omega) (by omega) (by omega), withSign_decide]
  congr 2
  unfold magOf
  rw [if_neg (by omega)]
  have c1 : (((M - 8388608).toNat + 2 ^ 23 : ℕ) : ℤ) = M := by omega
  have c2 : ((((e + 127).toNat : ℕ) : ℤ)) - 150 = e - 23 := by omega
  rw [c2, ← Int.cast_natCast, c1]

theorem ofRat_value_sub {q : ℚ} (hq : q ≠ 0) {e : ℤ}
    (h1 : (2:ℚ)^e ≤ |q|) (h2 : |q| < (2:ℚ)^(e+1)) (he : e < -126) :
    toRat? (ofRat q) = some (withSign q
      (((roundNearestEven (|q| / (2:ℚ) ^ (-149 : ℤ)) : ℤ) : ℚ) * (2:ℚ) ^ (-149 : ℤ))) := by
  have t2 : (2:ℚ) ≠ 0 := by norm_num
  have hp : (0:ℚ) < (2:ℚ) ^ (-149 : ℤ) := by positivity
  have hx1 : ((0 : ℤ) : ℚ) ≤ |q| / (2:ℚ) ^ (-149 : ℤ) := by
    push_cast; exact div_nonneg (abs_nonneg q) hp.le
  have hx2 : |q| / (2:ℚ) ^ (-149 : ℤ) ≤ ((8388608 : ℤ) : ℚ) := by
    rw [div_le_iff₀ hp]
    have : (2:ℚ) ^ (-126 : ℤ) = ((8388608 : ℤ) : ℚ) * (2:ℚ) ^ (-149 : ℤ) := by
      rw [show (-126 : ℤ) = 23 + (-149) by norm_num, zpow_add₀ t2]; norm_num
    rw [← this]
    exact le_trans h2.le (zpow_le_zpow_right₀ (by norm_num) (by omega))
  have hM1 := rne_ge hx1
  have hM2 := rne_le hx2
  generalize hM : roundNearestEven (|q| / (2:ℚ) ^ (-149 : ℤ)) = M at hM1 hM2 ⊢
  rw [ofRat_eq_pack_sub hq h1 h2 he hM hM1 hM2]
  rw [toRat?_pack_carry (by omega) (by omega) (by omega), withSign_decide]
  congr 2
  unfold magOf
  rw [if_pos rfl]
  have c1 : ((M.toNat : ℕ) : ℤ) = M := by omega
  rw [← Int.cast_natCast, c1]

/-! ### Nearest among representables -/

theorem Rep.neg {r : ℚ} (h : Rep r) : Rep (-r) := by
  obtain ⟨m, s, a, b, c, d⟩ := h
  exact ⟨m, s, a, b, c, by rw [abs_neg]; exact d⟩

theorem Rep.zero : Rep 0 := ⟨0, 0, by norm_num, by norm_num, by norm_num, by simp⟩

/-- a grid of spacing `2^s` that starts no later than `2^(s+23) ≤ a` beats every representable -/
theorem nearest_of_grid {a : ℚ} {s : ℤ} (hs : s = -149 ∨ (2:ℚ) ^ (s + 23) ≤ a)
    {r : ℚ} (hr : Rep r) :
    |((roundNearestEven (a / (2:ℚ) ^ s) : ℤ) : ℚ) * (2:ℚ) ^ s - a| ≤ |r - a| := by
  have t2 : (2:ℚ) ≠ 0 := by norm_num
  obtain ⟨m, t, hm, ht1, ht2, habs⟩ := hr
  by_cases hts : s ≤ t
  · -- `r` lies on the grid
    obtain ⟨k, hk⟩ : ∃ k : ℕ, t = s + k := ⟨(t - s).toNat, by omega⟩
    have hval : |r| = ((m * 2 ^ k : ℕ) : ℚ) * (2:ℚ) ^ s := by
      rw [habs, hk, zpow_add₀ t2, zpow_natCast]; push_cast; ring
    rcases abs_choice r with hc | hc
    · have := grid_nearest a s ((m * 2 ^ k : ℕ) : ℤ)
      rw [Int.cast_natCast, ← hval, hc] at this
      exact this
    · have := grid_nearest a s (-((m * 2 ^ k : ℕ) : ℤ))
      rw [Int.cast_neg, Int.cast_natCast, neg_mul, ← hval, hc, neg_neg] at this
      exact this
  · -- `r` is below the first grid point of the binade
    rw [not_le] at hts
    have hs' : (2:ℚ) ^ (s + 23) ≤ a := by
      rcases hs with h | h
      · omega
      · exact h
    have hmq : (m : ℚ) < (2:ℚ) ^ (24 : ℤ) := by
      rw [zpow_ofNat]; exact_mod_cast hm
    have hr1 : |r| < (2:ℚ) ^ (s + 23) := by
      rw [habs]
      calc (m : ℚ) * (2:ℚ) ^ t < (2:ℚ) ^ (24 : ℤ) * (2:ℚ) ^ t :=
            mul_lt_mul_of_pos_right hmq (by positivity)
        _ = (2:ℚ) ^ (24 + t) := by rw [zpow_add₀ t2]
        _ ≤ (2:ℚ) ^ (s + 23) := zpow_le_zpow_right₀ (by norm_num) (by omega)
    have hr2 : r < (2:ℚ) ^ (s + 23) := lt_of_le_of_lt (le_abs_self r) hr1
    have := grid_nearest a s (8388608 : ℤ)
    have hg : ((8388608 : ℤ) : ℚ) * (2:ℚ) ^ s = (2:ℚ) ^ (s + 23) := by
      rw [add_comm, zpow_add₀ t2]; norm_num
    rw [hg, abs_of_nonpos (by linarith : (2:ℚ) ^ (s + 23) - a ≤ 0)] at this
    refine le_trans this ?_
    rw [abs_of_nonpos (by linarith : r - a ≤ 0)]
    linarith

/-! ### Main results -/

theorem abs_withSign_sub (q a : ℚ) : |withSign q a - q| = |a - (|q|)| := by
  unfold withSign
  by_cases h : q < 0
  · rw [if_pos h, abs_of_neg h, show -a - q = -(a - -q) by ring, abs_neg]
  · rw [if_neg h, abs_of_nonneg (not_lt.mp h)]

theorem abs_sub_withSign (q r : ℚ) : |r - q| = |withSign q r - (|q|)| := by
  unfold withSign
  by_cases h : q < 0
  · rw [if_pos h, abs_of_neg h, show -r - -q = -(r - q) by ring, abs_neg]
  · rw [if_neg h, abs_of_nonneg (not_lt.mp h)]

theorem Rep.withSign {r : ℚ} (q : ℚ) (h : Rep r) : Rep (withSign q r) := by
  unfold F32.withSign; split
  · exact h.neg
  · exact h

/-- the value `ofRat` produces below the overflow threshold, as a rounded multiple of `2^s` -/
theorem ofRat_core {q : ℚ} (hq : q ≠ 0) (hthr : |q| < (2:ℚ)^128 - (2:ℚ)^103) :
    ∃ s : ℤ, (s = -149 ∨ (2:ℚ) ^ (s + 23) ≤ |q|) ∧
      ((2:ℚ) ^ (-126 : ℤ) ≤ |q| → (2:ℚ) ^ (s + 23) ≤ |q|) ∧
      toRat? (ofRat q) = some (withSign q
        (((roundNearestEven (|q| / (2:ℚ) ^ s) : ℤ) : ℚ) * (2:ℚ) ^ s)) := by
  obtain ⟨e, h1, h2⟩ := exists_log (abs_pos.mpr hq)
  by_cases he : -126 ≤ e
  · have hs : (2:ℚ) ^ (e - 23 + 23) ≤ |q| := by rw [sub_add_cancel]; exact h1
    exact ⟨e - 23, Or.inr hs, fun _ => hs, ofRat_value_normal hthr h1 h2 he⟩
  · rw [not_le] at he
    refine ⟨-149, Or.inl rfl, ?_, ofRat_value_sub hq h1 h2 he⟩
    intro h3
    have := (zpow_lt_zpow_iff_right₀ (by norm_num : (1:ℚ) < 2)).mp (lt_of_le_of_lt h3 h2)
    omega

/-- below the overflow threshold, `ofRat q` is finite, representable, and no representable value is
closer to `q` -/
theorem ofRat_nearest {q : ℚ} (hq : |q| < (2:ℚ)^128 - (2:ℚ)^103) :
    ∃ v : ℚ, toRat? (ofRat q) = some v ∧ Rep v ∧ ∀ r : ℚ, Rep r → |v - q| ≤ |r - q| := by
  by_cases h0 : q = 0
  · subst h0
    refine ⟨0, by rw [ofRat_zero, toRat?_zero], Rep.zero, fun r _ => ?_⟩
    simp
  · obtain ⟨s, hs, -, hv⟩ := ofRat_core h0 hq
    refine ⟨_, hv, rep_of_toRat? hv, fun r hr => ?_⟩
    rw [abs_withSign_sub, abs_sub_withSign q r]
    exact nearest_of_grid hs (hr.withSign q)

theorem rep_abs_le {r : ℚ} (h : Rep r) : |r| ≤ (2:ℚ)^128 - (2:ℚ)^104 := by
  obtain ⟨m, s, hm, -, hs, habs⟩ := h
  have hm' : (m : ℚ) ≤ 2 ^ 24 - 1 := by
    have : m + 1 ≤ 2 ^ 24 := hm
    have : ((m + 1 : ℕ) : ℚ) ≤ ((2 ^ 24 : ℕ) : ℚ) := Nat.cast_le.mpr this
    push_cast at this; linarith
  have hp : (2:ℚ) ^ s ≤ (2:ℚ) ^ (104 : ℤ) := zpow_le_zpow_right₀ (by norm_num) hs
  rw [habs]
  calc (m : ℚ) * (2:ℚ) ^ s ≤ (2 ^ 24 - 1) * (2:ℚ) ^ (104 : ℤ) :=
        mul_le_mul hm' hp (by positivity) (by norm_num)
    _ = (2:ℚ)^128 - (2:ℚ)^104 := by norm_num

/-- rounding never crosses a representable value: anchors on both sides are respected -/
theorem ofRat_between {q lo hi : ℚ} (hlo : Rep lo) (hhi : Rep hi) (h1 : lo ≤ q) (h2 : q ≤ hi) :
    ∃ v : ℚ, toRat? (ofRat q) = some v ∧ lo ≤ v ∧ v ≤ hi := by
  have hthr : |q| < (2:ℚ)^128 - (2:ℚ)^103 := by
    have a1 := rep_abs_le hlo
    have a2 := rep_abs_le hhi
    have : |q| ≤ (2:ℚ)^128 - (2:ℚ)^104 := by
      rw [abs_le] at a1 a2 ⊢
      constructor <;> linarith [a1.1, a2.2]
    refine lt_of_le_of_lt this ?_
    norm_num
  obtain ⟨v, hv, -, hn⟩ := ofRat_nearest hthr
  have n1 := hn lo hlo
  have n2 := hn hi hhi
  rw [abs_of_nonpos (by linarith : lo - q ≤ 0), abs_le] at n1
  rw [abs_of_nonneg (by linarith : 0 ≤ hi - q), abs_le] at n2
  exact ⟨v, hv, by linarith [n1.1], by linarith [n2.2]⟩

/-- relative error in the normal range: half an ulp -/
theorem ofRat_rel_error {q : ℚ} (h1 : (2:ℚ)^(-126:ℤ) ≤ |q|) (h2 : |q| < (2:ℚ)^128 - (2:ℚ)^103) :
    ∃ v : ℚ, toRat? (ofRat q) = some v ∧ |v - q| ≤ (2:ℚ)^(-24:ℤ) * |q| := by
  have t2 : (2:ℚ) ≠ 0 := by norm_num
  have hq : q ≠ 0 := by
    intro h0; rw [h0, abs_zero] at h1; exact absurd h1 (not_le.mpr (by positivity))
  obtain ⟨s, -, hs, hv⟩ := ofRat_core hq h2
  refine ⟨_, hv, ?_⟩
  rw [abs_withSign_sub]
  have hp : (0:ℚ) < (2:ℚ) ^ s := by positivity
  have hh := rne_half (|q| / (2:ℚ) ^ s)
  have e1 : ((roundNearestEven (|q| / (2:ℚ) ^ s) : ℤ) : ℚ) * (2:ℚ) ^ s - |q|
      = (((roundNearestEven (|q| / (2:ℚ) ^ s) : ℤ) : ℚ) - |q| / (2:ℚ) ^ s) * (2:ℚ) ^ s := by
    field_simp
  rw [e1, abs_mul, abs_of_pos hp]
  have hs' := hs h1
  have e2 : (2:ℚ) ^ (s + 23) = 8388608 * (2:ℚ) ^ s := by
    rw [add_comm, zpow_add₀ t2]; norm_num
  have e3 : (2:ℚ) ^ (-24 : ℤ) = 1 / 16777216 := by norm_num
  rw [e2] at hs'
  rw [e3]
  calc |((roundNearestEven (|q| / (2:ℚ) ^ s) : ℤ) : ℚ) - |q| / (2:ℚ) ^ s| * (2:ℚ) ^ s
      ≤ 1 / 2 * (2:ℚ) ^ s := mul_le_mul_of_nonneg_right hh hp.le
    _ ≤ 1 / 16777216 * |q| := by linarith

/-! ### Sign bit -/

theorem mag_toNat_lt (field : ℤ) :
    (if field ≥ 0x7F800000 then (0x7F800000 : UInt32) else UInt32.ofNat field.toNat).toNat < 2 ^ 31 := by
  split
  · decide
  · rename_i h
    rw [UInt32.toNat_ofNat']
    omega

/-- shape of `ofRat`: a magnitude below `2^31`, with the sign bit or-ed in for negative inputs -/
theorem ofRat_shape {q : ℚ} (hq : q ≠ 0) :
    ∃ mag : UInt32, mag.toNat < 2 ^ 31 ∧
      ofRat q = if q < 0 then mag ||| 0x80000000 else mag := by
  unfold ofRat
  have : (q == 0) = false := by simpa using hq
  simp only [this, Bool.false_eq_true, if_false, decide_eq_true_eq]
  exact ⟨_, mag_toNat_lt _, rfl⟩

/-- sign bit of the encoding (also when a tiny negative value rounds to −0.0) -/
theorem signBit_ofRat_of_nonneg {q : ℚ} (h : 0 ≤ q) : signBit (ofRat q) = false := by
  by_cases h0 : q = 0
  · subst h0; rw [ofRat_zero, signBit_eq]; decide
  · obtain ⟨mag, hm, he⟩ := ofRat_shape h0
    rw [he, if_neg (not_lt.mpr h), signBit_eq, decide_eq_false_iff_not]
    omega

theorem signBit_ofRat_of_neg {q : ℚ} (h : q < 0) : signBit (ofRat q) = true := by
  obtain ⟨mag, hm, he⟩ := ofRat_shape h.ne
  rw [he, if_pos h, signBit_eq, decide_eq_true_eq, UInt32.toNat_or]
  have : UInt32.toNat 0x80000000 = 2 ^ 31 := by decide
  rw [this]
  exact Nat.right_le_or

end Retro.F32
