/-
Value-level facts about the bit-level `f32` model `Retro.Model.F32Ops`, derived from the exactness
of the encoder (`Retro.Lemmas.F32Round`): what `floor`, the saturating casts, the comparisons and
`clamp` do in terms of the decoded rational value.
-/
import Retro.Lemmas.F32Round

namespace Retro.F32
open Retro

/-! ### Decoding -/

theorem toRat?_signMask : toRat? signMask = some 0 := by decide +kernel
theorem toRat?_one : toRat? one = some 1 := by decide +kernel
theorem toRat?_half : toRat? half = some (1/2) := by decide +kernel

theorem isNaN_eq_false_of_some {b : UInt32} {q : ℚ} (h : toRat? b = some q) : isNaN b = false := by
  have : expField b ≠ 255 := by
    intro he
    have := (toRat?_eq_none_iff b).2 he
    rw [this] at h; cases h
  simp [isNaN, this]

theorem expField_of_none {b : UInt32} (h : toRat? b = none) : expField b = 255 :=
  (toRat?_eq_none_iff b).1 h

/-- `b &&& 0x80000000` is `+0.0` or `−0.0`. -/
theorem and_signMask_cases (b : UInt32) : b &&& signMask = 0 ∨ b &&& signMask = signMask := by
  have h : (b &&& signMask).toNat = b.toNat &&& 2147483648 := by
    rw [UInt32.toNat_and]; rfl
  have h2 : b.toNat &&& 2147483648 = 0 ∨ b.toNat &&& 2147483648 = 2147483648 := by
    have e : (2147483648 : ℕ) = 2 ^ 31 := by norm_num
    rw [e]
    by_cases hb : b.toNat.testBit 31
    · right; apply Nat.eq_of_testBit_eq; intro i
      rw [Nat.testBit_and, Nat.testBit_two_pow]
      by_cases hi : 31 = i
      · subst hi; simp [hb]
      · simp [hi]
    · left; apply Nat.eq_of_testBit_eq; intro i
      rw [Nat.testBit_and, Nat.testBit_two_pow]
      by_cases hi : 31 = i
      · subst hi; simp [hb]
      · simp [hi]
  rcases h2 with h2 | h2
  · left; apply UInt32.toNat_inj.1; rw [h, h2]; rfl
  · right; apply UInt32.toNat_inj.1; rw [h, h2]; rfl

theorem toRat?_and_signMask (b : UInt32) : toRat? (b &&& signMask) = some 0 := by
  rcases and_signMask_cases b with h | h <;> rw [h]
  · exact toRat?_zero
  · exact toRat?_signMask

/-! ### Representable values -/

theorem rep_zero : Rep 0 := ⟨0, 0, by norm_num, by norm_num, by norm_num, by simp⟩

/-- Integers up to `2^24` in magnitude are binary32 values. -/
theorem rep_int {z : ℤ} (h : |z| ≤ 2 ^ 24) : Rep (z : ℚ) := by
  by_cases h2 : |z| = 2 ^ 24
  · refine ⟨2 ^ 23, 1, by norm_num, by norm_num, by norm_num, ?_⟩
    rw [← Int.cast_abs, h2]; norm_num
  · refine ⟨z.natAbs, 0, ?_, by norm_num, by norm_num, ?_⟩
    · have : (z.natAbs : ℤ) < 2 ^ 24 := by rw [Int.natCast_natAbs]; omega
      exact_mod_cast this
    · rw [← Int.cast_abs, zpow_zero, mul_one, Int.abs_eq_natAbs]; simp

/-- The floor of a binary32 value is a binary32 value. -/
theorem rep_floor {q : ℚ} (h : Rep q) : Rep ((⌊q⌋ : ℤ) : ℚ) := by
  obtain ⟨m, s, hm, hs1, hs2, hq⟩ := h
  by_cases hs : 0 ≤ s
  · -- q is an integer
    obtain ⟨k, rfl⟩ := Int.eq_ofNat_of_zero_le hs
    have hint : ∃ z : ℤ, q = z := by
      rcases abs_cases q with ⟨ha, _⟩ | ⟨ha, _⟩
      · exact ⟨(m : ℤ) * 2 ^ k, by rw [← ha, hq]; push_cast; rfl⟩
      · exact ⟨-((m : ℤ) * 2 ^ k), by
          have : q = -|q| := by rw [ha]; ring
          rw [this, hq]; push_cast; rfl⟩
    obtain ⟨z, rfl⟩ := hint
    rw [Int.floor_intCast]
    exact ⟨m, (k : ℤ), hm, hs1, hs2, hq⟩
  · -- |q| < 2^23, so |⌊q⌋| ≤ 2^23
    have hs' : s ≤ -1 := by omega
    have hlt : |q| < 2 ^ 23 := by
      rw [hq]
      have h1 : (m : ℚ) < 2 ^ 24 := by exact_mod_cast hm
      have h2 : (2 : ℚ) ^ s ≤ 2 ^ (-1 : ℤ) := zpow_le_zpow_right₀ (by norm_num) hs'
      have h3 : (0 : ℚ) < 2 ^ s := zpow_pos (by norm_num) s
      calc (m : ℚ) * 2 ^ s ≤ m * 2 ^ (-1 : ℤ) := by
              apply mul_le_mul_of_nonneg_left h2; positivity
        _ < 2 ^ 24 * 2 ^ (-1 : ℤ) := by
              apply mul_lt_mul_of_pos_right h1; positivity
        _ = 2 ^ 23 := by norm_num
    apply rep_int
    have hb := abs_lt.1 hlt
    have h1 : (-(2 : ℚ) ^ 23) = ((-(2 ^ 23) : ℤ) : ℚ) := by norm_num
    have hlo : -(2 ^ 23 : ℤ) ≤ ⌊q⌋ := by
      apply Int.le_floor.2; rw [← h1]; exact le_of_lt hb.1
    have hhi : ⌊q⌋ < 2 ^ 23 := by
      apply Int.floor_lt.2; exact_mod_cast hb.2
    rw [abs_le]; constructor <;> omega

/-! ### Truncation and the saturating casts -/

theorem ratTrunc_intCast (z : ℤ) : ratTrunc (z : ℚ) = z := by
  unfold ratTrunc
  split
  · have : ((-(z : ℚ)).floor) = -z := by
      have : (-(z : ℚ)) = ((-z : ℤ) : ℚ) := by push_cast; ring
      rw [this, Rat.floor_intCast]
    rw [this]; ring
  · exact Rat.floor_intCast z

theorem ratTrunc_nonneg {q : ℚ} (h : 0 ≤ q) : ratTrunc q = ⌊q⌋ := by
  unfold ratTrunc; rw [if_neg (not_lt.2 h)]; rfl

theorem ratTrunc_neg {q : ℚ} (h : q < 0) : ratTrunc q = -⌊-q⌋ := by
  unfold ratTrunc; rw [if_pos h]; rfl

/-- A cast never leaves the target range, whatever the bit pattern. -/
theorem toIntSat_bounds (lo hi : ℤ) (hlo : lo ≤ 0) (hhi : 0 ≤ hi) (b : UInt32) :
    lo ≤ toIntSat lo hi b ∧ toIntSat lo hi b ≤ hi := by
  unfold toIntSat
  split
  · split
    · exact ⟨hlo, hhi⟩
    · split
      · exact ⟨le_refl _, by omega⟩
      · exact ⟨by omega, le_refl _⟩
  · dsimp only
    split
    · exact ⟨le_refl _, by omega⟩
    · split
      · exact ⟨by omega, le_refl _⟩
      · constructor <;> omega

/-- On an integral value inside the range the cast is the identity. -/
theorem toIntSat_int {lo hi z : ℤ} {b : UInt32} (h : toRat? b = some (z : ℚ))
    (h1 : lo ≤ z) (h2 : z ≤ hi) : toIntSat lo hi b = z := by
  unfold toIntSat
  rw [h]; dsimp only
  rw [ratTrunc_intCast, if_neg (by omega), if_neg (by omega)]

/-- General finite case: truncate toward zero, then saturate. -/
theorem toIntSat_finite {lo hi : ℤ} {q : ℚ} {b : UInt32} (h : toRat? b = some q) :
    toIntSat lo hi b = if ratTrunc q < lo then lo else if ratTrunc q > hi then hi else ratTrunc q := by
  unfold toIntSat; rw [h]

theorem toIntSat_nan {lo hi : ℤ} {b : UInt32} (h : isNaN b = true) : toIntSat lo hi b = 0 := by
  unfold toIntSat
  have : toRat? b = none := by
    rw [toRat?_eq_none_iff]
    simp [isNaN] at h; exact h.1
  rw [this]; simp [h]

theorem toU32Sat_lt (b : UInt32) : toU32Sat b < 4294967296 := by
  have := toIntSat_bounds 0 (pow32 - 1) (le_refl _) (by decide) b
  unfold toU32Sat; unfold pow32 at *; omega

/-! ### floor -/

theorem floor_of_none {b : UInt32} (h : toRat? b = none) : floor b = b := by
  unfold floor; rw [h]

/-- `f32::floor` returns the mathematical floor, exactly, for every finite input. -/
theorem floor_value {b : UInt32} {q : ℚ} (h : toRat? b = some q) :
    toRat? (floor b) = some ((⌊q⌋ : ℤ) : ℚ) := by
  unfold floor; rw [h]; dsimp only
  by_cases hf : q.floor = 0
  · have hf' : ⌊q⌋ = 0 := hf
    rw [if_pos (by simp [hf]), toRat?_and_signMask, hf']; simp
  · rw [if_neg (by simpa using hf)]
    exact toRat?_ofRat (rep_floor (rep_of_toRat? h))

theorem floor_finite_iff (b : UInt32) : (toRat? (floor b)).isSome = (toRat? b).isSome := by
  cases h : toRat? b with
  | none => rw [floor_of_none h, h]
  | some q => rw [floor_value h]; rfl

theorem floor_isNaN (b : UInt32) : isNaN (floor b) = isNaN b := by
  cases h : toRat? b with
  | none => rw [floor_of_none h]
  | some q => rw [isNaN_eq_false_of_some h, isNaN_eq_false_of_some (floor_value h)]

/-! ### Comparisons on finite values -/

theorem lt_finite {a b : UInt32} {x y : ℚ} (ha : toRat? a = some x) (hb : toRat? b = some y) :
    lt a b = decide (x < y) := by
  unfold lt
  rw [isNaN_eq_false_of_some ha, isNaN_eq_false_of_some hb, ha, hb]; rfl

theorem feq_finite {a b : UInt32} {x y : ℚ} (ha : toRat? a = some x) (hb : toRat? b = some y) :
    feq a b = decide (x = y) := by
  unfold feq
  rw [isNaN_eq_false_of_some ha, isNaN_eq_false_of_some hb, ha, hb]
  exact Bool.beq_eq_decide_eq x y

theorem le_finite {a b : UInt32} {x y : ℚ} (ha : toRat? a = some x) (hb : toRat? b = some y) :
    le a b = decide (x ≤ y) := by
  unfold le; rw [lt_finite ha hb, feq_finite ha hb]
  by_cases h1 : x < y
  · simp [h1, le_of_lt h1]
  · by_cases h2 : x = y
    · simp [h2]
    · have : ¬ x ≤ y := fun h => h1 (lt_of_le_of_ne h h2)
      simp [h1, h2, this]

theorem lt_nan_left {a b : UInt32} (h : isNaN a = true) : lt a b = false := by
  unfold lt; simp [h]
theorem lt_nan_right {a b : UInt32} (h : isNaN b = true) : lt a b = false := by
  unfold lt; simp [h]

/-! ### Integer → float conversions that are exact -/

theorem toRat?_intToF32 {n : ℤ} (h : |n| ≤ 2 ^ 24) : toRat? (intToF32 n) = some (n : ℚ) :=
  toRat?_ofRat (rep_int h)

theorem rep_two_pow {k : ℕ} (hk : k ≤ 104) : Rep ((2 : ℚ) ^ k) :=
  ⟨1, k, by norm_num, by omega, by omega, by rw [abs_of_pos (by positivity)]; simp⟩

theorem toRat?_intToF32_two_pow {k : ℕ} (hk : k ≤ 104) :
    toRat? (intToF32 ((2 ^ k : ℕ) : ℤ)) = some ((2 : ℚ) ^ k) := by
  unfold intToF32
  have : (((2 ^ k : ℕ) : ℤ) : ℚ) = (2 : ℚ) ^ k := by push_cast; rfl
  rw [this]; exact toRat?_ofRat (rep_two_pow hk)

/-! ### Addition / subtraction of finite values whose exact result is representable -/

theorem toRat?_zeroS (s : Bool) : toRat? (zeroS s) = some 0 := by
  cases s
  · exact toRat?_zero
  · exact toRat?_signMask

theorem add_finite_exact {a b : UInt32} {x y : ℚ} (ha : toRat? a = some x) (hb : toRat? b = some y)
    (hr : Rep (x + y)) : toRat? (add a b) = some (x + y) := by
  unfold add
  rw [isNaN_eq_false_of_some ha, isNaN_eq_false_of_some hb, ha, hb]
  simp only [Bool.or_false, Bool.false_eq_true, ↓reduceIte]
  by_cases h0 : x + y = 0
  · have : (x + y == 0) = true := by simp [h0]
    rw [this, h0]
    simp only [↓reduceIte]
    split
    · exact toRat?_zeroS _
    · exact toRat?_zero
  · have : (x + y == 0) = false := by simp [h0]
    rw [this]
    simp only [Bool.false_eq_true, ↓reduceIte]
    exact toRat?_ofRat hr

theorem neg_one_bits : neg one = 0xBF800000 := by decide +kernel
theorem toRat?_neg_one : toRat? (neg one) = some (-1) := by decide +kernel

/-- `x - 1.0` is exact whenever the exact difference is a binary32 value. -/
theorem sub_one_exact {a : UInt32} {x : ℚ} (ha : toRat? a = some x) (hr : Rep (x - 1)) :
    toRat? (sub a one) = some (x - 1) := by
  unfold sub
  have := add_finite_exact ha toRat?_neg_one (by rwa [← sub_eq_add_neg])
  rw [this, sub_eq_add_neg]

end Retro.F32
