/-
A binary32 value just below a normal binary32 value, and the range of `u * (b - a) + a` in binary32
(for `Retro.Props.C19.UniformF32`).  Bit model as in `F32Mono.lean`: `F32.add / sub / mul` = one
round-to-nearest-even of the exact result.

  * `add_nearest`, `sub_nearest`   the value of a finite, non-overflowing f32 sum / difference is a binary32
                                   value NEAREST to the exact one (no binary32 value is strictly closer)
  * `nearest_ge`, `nearest_le`     a nearest value never crosses a binary32 value
  * `rep_sub_small`                the difference of two binary32 values is itself a binary32 value when it
                                   is below `2^-126` in magnitude (it is a multiple of `2^-149`): a subnormal
                                   f32 difference is EXACT
  * `rep_below`                    for a NORMAL binary32 value `D ≥ 2^-126` there is a binary32 value `r` with
                                   `D·(1 − 2^-23) ≤ r < D` (one unit in the last place of `D`'s own binade
                                   below `D`; at a power of two this is not the predecessor but the value
                                   before it — any value in that window serves)
  * `rne_top`, `ofRat_overflow`, `add_finite_lt_thr`, `sub_finite_lt_thr`
                                   at or beyond `2^128 − 2^103` round-to-nearest gives `±∞` (the tie
                                   `2^128 − 2^103` itself rounds up: the significand `2^24 − 1` is odd); hence a
                                   FINITE f32 sum / difference of finite values has its exact value strictly
                                   below that threshold — the converse of `add_nearest` / `sub_nearest`
  * `affine_unit_between`          for finite `a < b` whose exact width is below the rounding-overflow
                                   threshold `2^128 − 2^103` and a finite `0 ≤ u ≤ 1 − 2^-23`:
                                   `fl(fl(u · fl(b − a)) + a)` is finite and lies in `[a, b]`
-/
import Retro.Lemmas.F32Mono

namespace Retro.F32
open Retro

/-! ### Nearest values -/

theorem add_nearest {a b : UInt32} {x y : ℚ} (ha : toRat? a = some x) (hb : toRat? b = some y)
    (h : |x + y| < (2:ℚ)^128 - (2:ℚ)^103) :
    ∃ v : ℚ, toRat? (add a b) = some v ∧ Rep v ∧ ∀ r : ℚ, Rep r → |v - (x + y)| ≤ |r - (x + y)| := by
  unfold add
  rw [isNaN_eq_false_of_some ha, isNaN_eq_false_of_some hb, ha, hb]
  simp only [Bool.or_false, Bool.false_eq_true, ↓reduceIte]
  by_cases h0 : x + y = 0
  · have : (x + y == 0) = true := by simp [h0]
    rw [this]
    simp only [↓reduceIte]
    refine ⟨0, ?_, rep_zero, fun r _ => by rw [h0]; simp⟩
    split
    · exact toRat?_zeroS _
    · exact toRat?_zero
  · have : (x + y == 0) = false := by simpa using h0
    rw [this]
    simp only [Bool.false_eq_true, ↓reduceIte]
    exact ofRat_nearest h

theorem sub_nearest {a b : UInt32} {x y : ℚ} (ha : toRat? a = some x) (hb : toRat? b = some y)
    (h : |x - y| < (2:ℚ)^128 - (2:ℚ)^103) :
    ∃ v : ℚ, toRat? (sub a b) = some v ∧ Rep v ∧ ∀ r : ℚ, Rep r → |v - (x - y)| ≤ |r - (x - y)| := by
  unfold sub
  rw [sub_eq_add_neg] at h ⊢
  exact add_nearest ha (toRat?_neg hb) h

/-- a nearest value is not below a binary32 value that the exact value is not below -/
theorem nearest_ge {v q lo : ℚ} (n : ∀ r : ℚ, Rep r → |v - q| ≤ |r - q|) (hlo : Rep lo) (h : lo ≤ q) :
    lo ≤ v := by
  by_contra hc
  rw [not_le] at hc
  have := n lo hlo
  rw [abs_of_nonpos (by linarith), abs_of_nonpos (by linarith)] at this
  linarith

/-- a nearest value is not above a binary32 value that the exact value is not above -/
theorem nearest_le {v q hi : ℚ} (n : ∀ r : ℚ, Rep r → |v - q| ≤ |r - q|) (hhi : Rep hi) (h : q ≤ hi) :
    v ≤ hi := by
  by_contra hc
  rw [not_le] at hc
  have := n hi hhi
  rw [abs_of_nonneg (by linarith), abs_of_nonneg (by linarith)] at this
  linarith

/-! ### The binary32 grid near a value -/

theorem two_pow_m126 : (2:ℚ) ^ (-126 : ℤ) = 8388608 * (2:ℚ) ^ (-149 : ℤ) := by
  rw [show (-126 : ℤ) = 23 + -149 by norm_num, zpow_add₀ (by norm_num : (2:ℚ) ≠ 0)]
  norm_num

theorem rep_m126 : Rep ((2:ℚ) ^ (-126 : ℤ)) :=
  ⟨1, -126, by norm_num, by norm_num, by norm_num, by rw [abs_of_pos (by positivity)]; norm_num⟩

/-- **A subnormal difference is exact**: the difference of two binary32 values is a multiple of `2^-149`,
hence a binary32 value when its magnitude is below `2^-126`. -/
theorem rep_sub_small {x y : ℚ} (hx : Rep x) (hy : Rep y) (h : |x - y| < (2:ℚ) ^ (-126 : ℤ)) :
    Rep (x - y) := by
  obtain ⟨N, hN⟩ := rep_grid hx
  obtain ⟨M, hM⟩ := rep_grid hy
  have hp : (0:ℚ) < (2:ℚ) ^ (-149 : ℤ) := by positivity
  have e : x - y = ((N - M : ℤ) : ℚ) * (2:ℚ) ^ (-149 : ℤ) := by rw [hN, hM]; push_cast; ring
  have eabs : |x - y| = (((N - M).natAbs : ℕ) : ℚ) * (2:ℚ) ^ (-149 : ℤ) := by
    rw [e, abs_mul, abs_of_pos hp, Nat.cast_natAbs, Int.cast_abs]
  refine ⟨(N - M).natAbs, -149, ?_, le_rfl, by norm_num, eabs⟩
  rw [eabs, two_pow_m126] at h
  have h' : (((N - M).natAbs : ℕ) : ℚ) < 8388608 := lt_of_mul_lt_mul_right h hp.le
  have : (N - M).natAbs < 8388608 := by exact_mod_cast h'
  omega

/-- **One unit in the last place below a normal value.** -/
theorem rep_below {D : ℚ} (hD : Rep D) (hn : (2:ℚ) ^ (-126 : ℤ) ≤ D) :
    ∃ r : ℚ, Rep r ∧ 0 ≤ r ∧ D * (1 - (2:ℚ) ^ (-23 : ℤ)) ≤ r ∧ r < D := by
  have hpos : 0 < D := lt_of_lt_of_le (by positivity) hn
  obtain ⟨E, R, hE, hR, hm⟩ := rep_normalize hD hpos.ne'
  rw [abs_of_pos hpos] at hm
  have hE0 : E ≠ 0 := by
    intro h0
    subst h0
    unfold magOf at hm
    rw [if_pos rfl] at hm
    have hRq : (R : ℚ) < 8388608 := by exact_mod_cast hR
    have hp : (0:ℚ) < (2:ℚ) ^ (-149 : ℤ) := by positivity
    rw [two_pow_m126, hm] at hn
    have := lt_of_mul_lt_mul_right (lt_of_lt_of_le (mul_lt_mul_of_pos_right hRq hp) hn) hp.le
    exact lt_irrefl _ this
  unfold magOf at hm
  rw [if_neg hE0] at hm
  have hp : (0:ℚ) < (2:ℚ) ^ ((E : ℤ) - 150) := by positivity
  have e23 : (2:ℚ) ^ (-23 : ℤ) = 1 / 8388608 := by norm_num
  have hD' : D = ((R : ℚ) + 8388608) * (2:ℚ) ^ ((E : ℤ) - 150) := by rw [hm]; push_cast; ring
  have hr : (((R + 8388607 : ℕ) : ℕ) : ℚ) = (R : ℚ) + 8388607 := by push_cast; ring
  refine ⟨((R + 8388607 : ℕ) : ℚ) * (2:ℚ) ^ ((E : ℤ) - 150), ?_, by positivity, ?_, ?_⟩
  · exact ⟨R + 8388607, (E : ℤ) - 150, by omega, by omega, by omega, by rw [abs_of_nonneg (by positivity)]⟩
  · rw [hr, hD', e23]
    have hR0 : (0:ℚ) ≤ R := by positivity
    nlinarith
  · rw [hr, hD']
    nlinarith

/-! ### `u * (b - a) + a` stays in `[a, b]` -/

/-- **The affine map of a unit sample stays in the closed range, in binary32.**  `a < b` finite, the exact
width `b − a` below the overflow threshold of round-to-nearest (`2^128 − 2^103`: exactly the widths whose f32
difference is finite), `u` finite with `0 ≤ u ≤ 1 − 2^-23`.  Then every intermediate of
`u * (b - a) + a` is finite, and the result lies in `[a, b]`.

With `q = b − a` exact and `D = fl(q)`: if `D ≤ q` then `u·D ≤ D`, so `fl(u·D) ≤ D` and `fl(u·D) + a ≤ b`.
If `q < D` the difference was rounded, so `q ≥ 2^-126` (`rep_sub_small`) and `D` is normal; there is a
binary32 value `r` with `D·(1 − 2^-23) ≤ r < D` (`rep_below`), and `r ≤ q` because otherwise `r` would be
strictly closer to `q` than `D`; `u·D ≤ r`, so `fl(u·D) ≤ r` and `fl(u·D) + a ≤ q + a = b`.  Rounding a value
in `[a, b]` stays in `[a, b]`. -/
theorem affine_unit_between {a b u : UInt32} {A B U : ℚ} (ha : toRat? a = some A) (hb : toRat? b = some B)
    (hu : toRat? u = some U) (hU0 : 0 ≤ U) (hU1 : U ≤ 1 - (2:ℚ) ^ (-23 : ℤ)) (hab : A < B)
    (hw : B - A < (2:ℚ)^128 - (2:ℚ)^103) :
    ∃ D P S : ℚ, toRat? (sub b a) = some D ∧ toRat? (mul u (sub b a)) = some P ∧
      toRat? (add (mul u (sub b a)) a) = some S ∧ 0 < D ∧ 0 ≤ P ∧ A ≤ S ∧ S ≤ B := by
  have hq : 0 < B - A := by linarith
  have rA := rep_of_toRat? ha
  have rB := rep_of_toRat? hb
  obtain ⟨D, hD, rD, nD⟩ := sub_nearest hb ha (by rw [abs_of_pos hq]; exact hw)
  have hp149 : (0:ℚ) < (2:ℚ) ^ (-149 : ℤ) := by positivity
  have e23 : (2:ℚ) ^ (-23 : ℤ) = 1 / 8388608 := by norm_num
  -- the exact width is at least the smallest subnormal, hence so is `D`
  have hq149 : (2:ℚ) ^ (-149 : ℤ) ≤ B - A := by
    obtain ⟨N, hN⟩ := rep_grid rB
    obtain ⟨M, hM⟩ := rep_grid rA
    have hNM : M < N := by
      by_contra hc
      rw [not_lt] at hc
      have : (N : ℚ) ≤ M := by exact_mod_cast hc
      have := mul_le_mul_of_nonneg_right this hp149.le
      linarith
    have : (M : ℚ) + 1 ≤ N := by exact_mod_cast hNM
    have := mul_le_mul_of_nonneg_right this hp149.le
    rw [hN, hM]; linarith
  have hD149 : (2:ℚ) ^ (-149 : ℤ) ≤ D := nearest_ge nD rep_min_sub hq149
  have hDpos : 0 < D := lt_of_lt_of_le hp149 hD149
  -- a binary32 value `r` with `U·D ≤ r ≤ B − A`
  obtain ⟨r, rr, hr0, hr1, hr2⟩ : ∃ r : ℚ, Rep r ∧ 0 ≤ r ∧ U * D ≤ r ∧ r ≤ B - A := by
    rcases le_or_gt D (B - A) with hle | hgt
    · refine ⟨D, rD, hDpos.le, ?_, hle⟩
      rw [e23] at hU1
      nlinarith
    · have h126 : (2:ℚ) ^ (-126 : ℤ) ≤ B - A := by
        by_contra hc
        rw [not_le] at hc
        have := nD (B - A) (rep_sub_small rB rA (by rw [abs_of_pos hq]; exact hc))
        rw [sub_self, abs_zero] at this
        have := abs_nonneg (D - (B - A))
        have : D - (B - A) = 0 := abs_eq_zero.mp (le_antisymm ‹_› ‹_›)
        linarith
      have hD126 : (2:ℚ) ^ (-126 : ℤ) ≤ D := nearest_ge nD rep_m126 h126
      obtain ⟨r, rr, hr0, hr1, hr2⟩ := rep_below rD hD126
      refine ⟨r, rr, hr0, ?_, ?_⟩
      · rw [e23] at hU1 hr1
        nlinarith
      · by_contra hc
        rw [not_le] at hc
        have := nD r rr
        rw [abs_of_pos (by linarith), abs_of_pos (by linarith)] at this
        linarith
  obtain ⟨P, hP, hP0, hP1⟩ := mul_between hu hD rep_zero rr (mul_nonneg hU0 hDpos.le) hr1
  obtain ⟨S, hS, hS0, hS1⟩ := add_between hP ha rA rB (by linarith : A ≤ P + A) (by linarith : P + A ≤ B)
  exact ⟨D, P, S, hD, hP, hS, hDpos, hP0, hS0, hS1⟩

/-! ### Overflow: a finite f32 sum / difference has its exact value below the threshold -/

/-- the tie `2^24 − 1/2` rounds UP to `2^24` (the floor `2^24 − 1` is odd) -/
theorem rne_top {x : ℚ} (h : 16777215 + 1 / 2 ≤ x) : 16777216 ≤ roundNearestEven x := by
  rcases le_or_gt (16777216 : ℚ) x with hx | hx
  · exact rne_ge (k := 16777216) (by push_cast; exact hx)
  · have hfl : x.floor = ⌊x⌋ := rfl
    have hf : ⌊x⌋ = 16777215 := by
      rw [Int.floor_eq_iff]; push_cast; constructor <;> linarith
    unfold roundNearestEven
    simp only [hfl, hf]
    push_cast
    split
    · rename_i h1; linarith
    · split
      · norm_num
      · norm_num

/-- **Overflow**: at or beyond the threshold `2^128 − 2^103` round-to-nearest gives `±∞`. -/
theorem ofRat_overflow {q : ℚ} (h : (2:ℚ)^128 - (2:ℚ)^103 ≤ |q|) : toRat? (ofRat q) = none := by
  have t2 : (2:ℚ) ≠ 0 := by norm_num
  have hpos : 0 < |q| := lt_of_lt_of_le (by norm_num) h
  have hq : q ≠ 0 := abs_pos.mp hpos
  obtain ⟨e, h1, h2⟩ := exists_log hpos
  have he : 127 ≤ e := by
    have : (2:ℚ) ^ (127 : ℤ) < (2:ℚ) ^ (e + 1) := lt_of_le_of_lt (le_trans (by norm_num) h) h2
    have := (zpow_lt_zpow_iff_right₀ (by norm_num : (1:ℚ) < 2)).mp this
    omega
  rw [ofRat_of_log hq h1 h2]
  have hnot : ¬ (e < -126) := by omega
  simp only [hnot, if_false]
  have hp : (0:ℚ) < (2:ℚ) ^ (e - 23) := by positivity
  have hM : (if e = 127 then (16777216 : ℤ) else 8388608) ≤ roundNearestEven (|q| / (2:ℚ) ^ (e - 23)) := by
    split
    · rename_i h127
      subst h127
      apply rne_top
      rw [le_div_iff₀ hp]
      refine le_trans (le_of_eq ?_) h
      norm_num
    · apply rne_ge
      rw [le_div_iff₀ hp]
      refine le_trans (le_of_eq ?_) h1
      rw [show e = 23 + (e - 23) by ring, zpow_add₀ t2]
      norm_num
  have hfield : (e + 127) * 8388608 + (roundNearestEven (|q| / (2:ℚ) ^ (e - 23)) - 8388608) ≥ 2139095040 := by
    split at hM <;> omega
  simp only [hfield, if_true]
  split <;> decide +kernel

theorem add_finite_lt_thr {a b : UInt32} {x y v : ℚ} (ha : toRat? a = some x) (hb : toRat? b = some y)
    (h : toRat? (add a b) = some v) : |x + y| < (2:ℚ)^128 - (2:ℚ)^103 := by
  by_contra hc
  rw [not_lt] at hc
  have h0 : x + y ≠ 0 := by
    intro h0; rw [h0, abs_zero] at hc; norm_num at hc
  unfold add at h
  rw [isNaN_eq_false_of_some ha, isNaN_eq_false_of_some hb, ha, hb] at h
  simp only [Bool.or_false, Bool.false_eq_true, ↓reduceIte] at h
  have : (x + y == 0) = false := by simpa using h0
  rw [this] at h
  simp only [Bool.false_eq_true, ↓reduceIte] at h
  rw [ofRat_overflow hc] at h
  cases h

/-- a finite f32 difference of finite values has its exact value below the overflow threshold -/
theorem sub_finite_lt_thr {a b : UInt32} {x y v : ℚ} (ha : toRat? a = some x) (hb : toRat? b = some y)
    (h : toRat? (sub a b) = some v) : |x - y| < (2:ℚ)^128 - (2:ℚ)^103 := by
  unfold sub at h
  rw [sub_eq_add_neg]
  exact add_finite_lt_thr ha (toRat?_neg hb) h

end Retro.F32
