/-
Exactness of the binary32 round-to-nearest-even encoder on representable rationals.
-/
import Retro.Model.F32Ops
import Mathlib.Tactic.Linarith
import Mathlib.Tactic.Ring
import Mathlib.Tactic.FieldSimp
import Mathlib.Tactic.Positivity
import Mathlib.Tactic.NormNum
import Mathlib.Data.Rat.Floor
import Mathlib.Algebra.Order.Floor.Ring
import Mathlib.Algebra.Order.Field.Power
import Mathlib.Data.Nat.Log

namespace Retro.F32

theorem pow2_eq (n : ℕ) : pow2 n = 2 ^ n := by
  simp [pow2, Nat.one_shiftLeft]

theorem ratPow2_eq (e : ℤ) : ratPow2 e = (2 : ℚ) ^ e := by
  unfold ratPow2
  split
  · rename_i h
    rw [pow2_eq]
    obtain ⟨n, rfl⟩ := Int.eq_ofNat_of_zero_le h
    simp
  · rename_i h
    rw [pow2_eq]
    have : e = -((-e).toNat : ℤ) := by omega
    rw [this]
    generalize (-e).toNat = n
    simp [zpow_neg]

theorem ratAbs_eq (q : ℚ) : ratAbs q = |q| := by
  unfold ratAbs
  split
  · rename_i h; rw [abs_of_neg h]
  · rename_i h; rw [abs_of_nonneg (not_lt.mp h)]

theorem expField_eq (b : UInt32) : expField b = b.toNat / 2 ^ 23 % 256 := by
  unfold expField
  rw [UInt32.toNat_and, UInt32.toNat_shiftRight]
  have h1 : UInt32.toNat 23 % 32 = 23 := by decide
  have h2 : UInt32.toNat 255 = 2 ^ 8 - 1 := by decide
  rw [h1, h2, Nat.and_two_pow_sub_one_eq_mod, Nat.shiftRight_eq_div_pow]

theorem manField_eq (b : UInt32) : manField b = b.toNat % 2 ^ 23 := by
  unfold manField
  rw [UInt32.toNat_and]
  have h2 : UInt32.toNat 8388607 = 2 ^ 23 - 1 := by decide
  rw [h2, Nat.and_two_pow_sub_one_eq_mod]

theorem signBit_eq (b : UInt32) : signBit b = decide (2 ^ 31 ≤ b.toNat) := by
  unfold signBit
  have h : (b >>> 31 = 0) ↔ ¬ (2^31 ≤ b.toNat) := by
    rw [← UInt32.toNat_inj, UInt32.toNat_shiftRight]
    have h1 : UInt32.toNat 31 % 32 = 31 := by decide
    rw [h1, Nat.shiftRight_eq_div_pow]
    have := b.toNat_lt
    simp only [UInt32.toNat_zero]
    omega
  by_cases hb : 2 ^ 31 ≤ b.toNat
  · rw [decide_eq_true hb]
    have : ¬ (b >>> 31 = 0) := fun h' => (h.mp h') hb
    simp [bne, this]
  · rw [decide_eq_false hb]
    have : (b >>> 31 = 0) := h.mpr hb
    simp [bne, this]

/-! ### Rounding and logarithm -/

theorem roundNearestEven_intCast (n : ℤ) : roundNearestEven (n : ℚ) = n := by
  unfold roundNearestEven
  simp only [Rat.floor_intCast, sub_self]
  norm_num

theorem ilog2Rat_spec {n d : ℕ} (hn : 0 < n) (hd : 0 < d) :
    (2 : ℚ) ^ (ilog2Rat n d) ≤ (n : ℚ) / d ∧ (n : ℚ) / d < (2 : ℚ) ^ (ilog2Rat n d + 1) := by
  have hn1 : (2:ℚ) ^ (Nat.log2 n) ≤ n := by exact_mod_cast Nat.log2_self_le hn.ne'
  have hn2 : (n : ℚ) < (2:ℚ) ^ (Nat.log2 n + 1) := by exact_mod_cast @Nat.lt_log2_self n
  have hd1 : (2:ℚ) ^ (Nat.log2 d) ≤ d := by exact_mod_cast Nat.log2_self_le hd.ne'
  have hd2 : (d : ℚ) < (2:ℚ) ^ (Nat.log2 d + 1) := by exact_mod_cast @Nat.lt_log2_self d
  have hdq : (0:ℚ) < d := by exact_mod_cast hd
  have h2 : (2:ℚ) ≠ 0 := by norm_num
  unfold ilog2Rat
  simp only [ratPow2_eq]
  split
  · rename_i h
    refine ⟨h, ?_⟩
    rw [div_lt_iff₀ hdq]
    have : (2:ℚ) ^ ((Nat.log2 n : ℤ) - (Nat.log2 d : ℤ) + 1) = 2 ^ (Nat.log2 n + 1) / 2 ^ (Nat.log2 d) := by
      rw [show (Nat.log2 n : ℤ) - (Nat.log2 d : ℤ) + 1 = ((Nat.log2 n + 1 : ℕ) : ℤ) - (Nat.log2 d : ℤ) by push_cast; ring]
      rw [zpow_sub₀ h2, zpow_natCast, zpow_natCast]
    rw [this, div_mul_eq_mul_div, lt_div_iff₀ (by positivity)]
    calc (n:ℚ) * 2 ^ Nat.log2 d < 2 ^ (Nat.log2 n + 1) * 2 ^ Nat.log2 d := by
          apply mul_lt_mul_of_pos_right hn2 (by positivity)
      _ ≤ 2 ^ (Nat.log2 n + 1) * d := by
          apply mul_le_mul_of_nonneg_left hd1 (by positivity)
  · rename_i h
    rw [not_le] at h
    rw [sub_add_cancel]
    refine ⟨?_, h⟩
    rw [le_div_iff₀ hdq]
    have : (2:ℚ) ^ ((Nat.log2 n : ℤ) - (Nat.log2 d : ℤ) - 1) = 2 ^ (Nat.log2 n) / 2 ^ (Nat.log2 d + 1) := by
      rw [show (Nat.log2 n : ℤ) - (Nat.log2 d : ℤ) - 1 = ((Nat.log2 n : ℕ) : ℤ) - ((Nat.log2 d + 1 : ℕ): ℤ) by push_cast; ring]
      rw [zpow_sub₀ h2, zpow_natCast, zpow_natCast]
    rw [this, div_mul_eq_mul_div, div_le_iff₀ (by positivity)]
    calc (2:ℚ) ^ Nat.log2 n * d ≤ n * d := by
          apply mul_le_mul_of_nonneg_right hn1 hdq.le
      _ ≤ n * 2 ^ (Nat.log2 d + 1) := by
          apply mul_le_mul_of_nonneg_left hd2.le (by positivity)

theorem zlog_unique {a : ℚ} {e e' : ℤ} (h1 : (2:ℚ)^e ≤ a) (h2 : a < (2:ℚ)^(e+1))
    (h1' : (2:ℚ)^e' ≤ a) (h2' : a < (2:ℚ)^(e'+1)) : e = e' := by
  have A : e < e' + 1 := (zpow_lt_zpow_iff_right₀ (by norm_num : (1:ℚ) < 2)).mp (lt_of_le_of_lt h1 h2')
  have B : e' < e + 1 := (zpow_lt_zpow_iff_right₀ (by norm_num : (1:ℚ) < 2)).mp (lt_of_le_of_lt h1' h2)
  omega

theorem ilog2Rat_abs {q : ℚ} (hq : q ≠ 0) {e : ℤ} (h1 : (2:ℚ)^e ≤ |q|) (h2 : |q| < (2:ℚ)^(e+1)) :
    ilog2Rat |q|.num.natAbs |q|.den = e := by
  have ha : 0 < |q| := abs_pos.mpr hq
  have hnum : 0 < |q|.num := Rat.num_pos.mpr ha
  have hn : 0 < |q|.num.natAbs := Int.natAbs_pos.mpr hnum.ne'
  have hd : 0 < |q|.den := |q|.den_pos
  obtain ⟨s1, s2⟩ := ilog2Rat_spec hn hd
  have hval : ((|q|.num.natAbs : ℕ) : ℚ) / (|q|.den : ℚ) = |q| := by
    have : ((|q|.num.natAbs : ℕ) : ℤ) = |q|.num := Int.natAbs_of_nonneg hnum.le
    have h3 : ((|q|.num.natAbs : ℕ) : ℚ) = ((|q|.num : ℤ) : ℚ) := by
      rw [← Int.cast_natCast, this]
    rw [h3, Rat.num_div_den]
  rw [hval] at s1 s2
  exact zlog_unique s1 s2 h1 h2

/-! ### Unfolding `ofRat`; packing bit fields -/

theorem ofRat_of_log {q : ℚ} (hq : q ≠ 0) {e : ℤ} (h1 : (2:ℚ)^e ≤ |q|) (h2 : |q| < (2:ℚ)^(e+1)) :
    ofRat q =
      (let ec : ℤ := if e < -126 then -126 else e
       let m : ℤ := roundNearestEven (|q| / (2:ℚ) ^ (ec - 23))
       let field : ℤ := if e < -126 then m else (ec + 127) * 0x800000 + (m - 0x800000)
       let mag : UInt32 := if field ≥ 0x7F800000 then 0x7F800000 else UInt32.ofNat field.toNat
       if q < 0 then mag ||| 0x80000000 else mag) := by
  unfold ofRat
  have : (q == 0) = false := by simpa using hq
  simp only [this, ratAbs_eq, ratPow2_eq, ilog2Rat_abs hq h1 h2, Bool.false_eq_true, if_false,
    decide_eq_true_eq]

/-- Assemble a bit pattern from sign, biased exponent and mantissa fields. -/
def pack (neg : Bool) (E R : ℕ) : UInt32 :=
  UInt32.ofNat (E * 2 ^ 23 + R) ||| (if neg then 0x80000000 else 0)

theorem toNat_pack {neg : Bool} {E R : ℕ} (hE : E ≤ 255) (hR : R < 2 ^ 23) :
    (pack neg E R).toNat = E * 2 ^ 23 + R + (if neg then 2 ^ 31 else 0) := by
  unfold pack
  have hlt : E * 2 ^ 23 + R < 2 ^ 31 := by omega
  rw [UInt32.toNat_or, UInt32.toNat_ofNat']
  rw [Nat.mod_eq_of_lt (by omega)]
  cases neg
  · simp
  · simp only [if_true]
    have : UInt32.toNat 0x80000000 = 2 ^ 31 * 1 := by decide
    rw [this, Nat.or_comm, ← Nat.two_pow_add_eq_or_of_lt hlt]
    omega

theorem expField_pack {neg : Bool} {E R : ℕ} (hE : E ≤ 255) (hR : R < 2 ^ 23) :
    expField (pack neg E R) = E := by
  rw [expField_eq, toNat_pack hE hR]; cases neg <;> simp only [if_true, if_false, Bool.false_eq_true] <;> omega

theorem manField_pack {neg : Bool} {E R : ℕ} (hE : E ≤ 255) (hR : R < 2 ^ 23) :
    manField (pack neg E R) = R := by
  rw [manField_eq, toNat_pack hE hR]; cases neg <;> simp only [if_true, if_false, Bool.false_eq_true] <;> omega

theorem signBit_pack {neg : Bool} {E R : ℕ} (hE : E ≤ 255) (hR : R < 2 ^ 23) :
    signBit (pack neg E R) = neg := by
  rw [signBit_eq, toNat_pack hE hR]
  cases neg <;> simp only [if_true, if_false, Bool.false_eq_true, decide_eq_true_eq, decide_eq_false_iff_not] <;> omega

theorem pack_fields (b : UInt32) : pack (signBit b) (expField b) (manField b) = b := by
  have hE : expField b ≤ 255 := by rw [expField_eq]; omega
  have hR : manField b < 2 ^ 23 := by rw [manField_eq]; omega
  rw [← UInt32.toNat_inj, toNat_pack hE hR, signBit_eq, expField_eq, manField_eq]
  have := b.toNat_lt
  by_cases h : 2 ^ 31 ≤ b.toNat
  · simp only [h, decide_true, if_true]; omega
  · simp only [h, decide_false, if_false, Bool.false_eq_true]; omega

/-! ### `ofRat` on values in normal form -/

theorem or_sign (mag : UInt32) (q : ℚ) :
    (if q < 0 then mag ||| 0x80000000 else mag) = mag ||| (if decide (q < 0) then 0x80000000 else 0) := by
  by_cases h : q < 0 <;> simp [h]

theorem ofRat_normal {q : ℚ} {E R : ℕ} (hE1 : 1 ≤ E) (hE2 : E ≤ 254) (hR : R < 2 ^ 23)
    (h : |q| = ((R + 2 ^ 23 : ℕ) : ℚ) * (2:ℚ) ^ ((E : ℤ) - 150)) :
    ofRat q = pack (decide (q < 0)) E R := by
  have h2 : (2:ℚ) ≠ 0 := by norm_num
  have hM1 : ((2:ℚ) ^ (23:ℤ)) ≤ ((R + 2 ^ 23 : ℕ) : ℚ) := by
    rw [zpow_ofNat]; push_cast; linarith [(Nat.cast_nonneg R : (0:ℚ) ≤ R)]
  have hM2 : ((R + 2 ^ 23 : ℕ) : ℚ) < ((2:ℚ) ^ (24:ℤ)) := by
    rw [zpow_ofNat]
    have : ((R:ℕ):ℚ) < 2 ^ 23 := by exact_mod_cast hR
    push_cast; linarith
  have hpos : (0:ℚ) < (2:ℚ) ^ ((E : ℤ) - 150) := by positivity
  have h1 : (2:ℚ) ^ ((E:ℤ) - 127) ≤ |q| := by
    rw [h, show (E:ℤ) - 127 = 23 + ((E:ℤ) - 150) by ring, zpow_add₀ h2]
    exact mul_le_mul_of_nonneg_right hM1 hpos.le
  have h1' : |q| < (2:ℚ) ^ ((E:ℤ) - 127 + 1) := by
    rw [h, show (E:ℤ) - 127 + 1 = 24 + ((E:ℤ) - 150) by ring, zpow_add₀ h2]
    exact mul_lt_mul_of_pos_right hM2 hpos
  have hq : q ≠ 0 := by
    intro h0; rw [h0, abs_zero] at h1; exact absurd h1 (not_le.mpr (by positivity))
  rw [ofRat_of_log hq h1 h1']
  have hnot : ¬ ((E:ℤ) - 127 < -126) := by omega
  simp only [hnot, if_false]
  have hdiv : |q| / (2:ℚ) ^ ((E:ℤ) - 127 - 23) = (((R + 2 ^ 23 : ℕ) : ℤ) : ℚ) := by
    rw [show (E:ℤ) - 127 - 23 = (E:ℤ) - 150 by ring, h, mul_div_assoc, div_self hpos.ne', mul_one]
    simp
  rw [hdiv, roundNearestEven_intCast, or_sign]
  unfold pack
  have hfield : ((E:ℤ) - 127 + 127) * 8388608 + (((R + 2 ^ 23 : ℕ) : ℤ) - 8388608) = ((E * 2 ^ 23 + R : ℕ) : ℤ) := by
    push_cast; ring
  rw [hfield]
  have : ¬ (((E * 2 ^ 23 + R : ℕ) : ℤ) ≥ 2139095040) := by omega
  simp only [this, if_false, Int.toNat_natCast]

/-- every positive rational lies in a unique binade -/
theorem exists_log {a : ℚ} (ha : 0 < a) : ∃ e : ℤ, (2:ℚ) ^ e ≤ a ∧ a < (2:ℚ) ^ (e + 1) := by
  have hnum : 0 < a.num := Rat.num_pos.mpr ha
  have hn : 0 < a.num.natAbs := Int.natAbs_pos.mpr hnum.ne'
  have hd : 0 < a.den := a.den_pos
  obtain ⟨s1, s2⟩ := ilog2Rat_spec hn hd
  have hval : ((a.num.natAbs : ℕ) : ℚ) / (a.den : ℚ) = a := by
    have : ((a.num.natAbs : ℕ) : ℤ) = a.num := Int.natAbs_of_nonneg hnum.le
    have h3 : ((a.num.natAbs : ℕ) : ℚ) = ((a.num : ℤ) : ℚ) := by
      rw [← Int.cast_natCast, this]
    rw [h3, Rat.num_div_den]
  rw [hval] at s1 s2
  exact ⟨_, s1, s2⟩

theorem ofRat_subnormal {q : ℚ} {R : ℕ} (hR0 : 0 < R) (hR : R < 2 ^ 23)
    (h : |q| = (R : ℚ) * (2:ℚ) ^ (-149 : ℤ)) :
    ofRat q = pack (decide (q < 0)) 0 R := by
  have h2 : (2:ℚ) ≠ 0 := by norm_num
  have hpos : (0:ℚ) < (2:ℚ) ^ (-149 : ℤ) := by positivity
  have hRq : (0:ℚ) < R := by exact_mod_cast hR0
  have ha : 0 < |q| := by rw [h]; positivity
  have hq : q ≠ 0 := abs_pos.mp ha
  obtain ⟨e, h1, h1'⟩ := exists_log ha
  have hlt : |q| < (2:ℚ) ^ (-126 : ℤ) := by
    rw [h, show (-126 : ℤ) = 23 + (-149) by norm_num, zpow_add₀ h2]
    apply mul_lt_mul_of_pos_right _ hpos
    rw [zpow_ofNat]; exact_mod_cast hR
  have he : e < -126 := (zpow_lt_zpow_iff_right₀ (by norm_num : (1:ℚ) < 2)).mp (lt_of_le_of_lt h1 hlt)
  rw [ofRat_of_log hq h1 h1']
  simp only [he, if_true]
  have hdiv : |q| / (2:ℚ) ^ ((-126:ℤ) - 23) = (((R : ℕ) : ℤ) : ℚ) := by
    rw [show (-126:ℤ) - 23 = -149 by norm_num, h, mul_div_assoc, div_self hpos.ne', mul_one]
    simp
  rw [hdiv, roundNearestEven_intCast, or_sign]
  unfold pack
  have : ¬ (((R : ℕ) : ℤ) ≥ 2139095040) := by omega
  simp only [this, if_false, Int.toNat_natCast, Nat.zero_mul, Nat.zero_add]

/-! ### Decoding -/

/-- magnitude encoded by exponent field `E` and mantissa field `R` -/
def magOf (E R : ℕ) : ℚ :=
  if E = 0 then (R : ℚ) * (2:ℚ) ^ (-149 : ℤ) else ((R + 2 ^ 23 : ℕ) : ℚ) * (2:ℚ) ^ ((E : ℤ) - 150)

theorem toRat?_def (b : UInt32) :
    toRat? b = if expField b = 255 then none
      else some (if signBit b then -magOf (expField b) (manField b) else magOf (expField b) (manField b)) := by
  unfold toRat? magOf
  simp only [ratPow2_eq, beq_iff_eq]
  rfl

theorem toRat?_eq_none_iff (b : UInt32) : toRat? b = none ↔ expField b = 255 := by
  rw [toRat?_def]
  by_cases h : expField b = 255 <;> simp [h]

theorem toRat?_pack {neg : Bool} {E R : ℕ} (hE : E ≤ 254) (hR : R < 2 ^ 23) :
    toRat? (pack neg E R) = some (if neg then -magOf E R else magOf E R) := by
  rw [toRat?_def, expField_pack (by omega) hR, manField_pack (by omega) hR, signBit_pack (by omega) hR]
  rw [if_neg (by omega)]

theorem magOf_nonneg (E R : ℕ) : 0 ≤ magOf E R := by
  unfold magOf; split <;> positivity

/-! ### Representable rationals -/

/-- `q` is the exact value of some finite binary32. -/
def Rep (q : ℚ) : Prop :=
  ∃ (m : ℕ) (s : ℤ), m < 2 ^ 24 ∧ -149 ≤ s ∧ s ≤ 104 ∧ |q| = (m : ℚ) * (2 : ℚ) ^ s

theorem ofRat_magOf {q : ℚ} {E R : ℕ} (hq : q ≠ 0) (hE : E ≤ 254) (hR : R < 2 ^ 23)
    (h : |q| = magOf E R) : ofRat q = pack (decide (q < 0)) E R := by
  unfold magOf at h
  by_cases h0 : E = 0
  · subst h0
    rw [if_pos rfl] at h
    have hR0 : 0 < R := by
      rcases Nat.eq_zero_or_pos R with r0 | r0
      · subst r0; simp at h; exact absurd h hq
      · exact r0
    exact ofRat_subnormal hR0 hR h
  · rw [if_neg h0] at h
    exact ofRat_normal (by omega) hE hR h

theorem rep_normalize {q : ℚ} (h : Rep q) (hq : q ≠ 0) :
    ∃ E R : ℕ, E ≤ 254 ∧ R < 2 ^ 23 ∧ |q| = magOf E R := by
  obtain ⟨m, s, hm, hs1, hs2, h⟩ := h
  have h2 : (2:ℚ) ≠ 0 := by norm_num
  have hm0 : m ≠ 0 := by
    rintro rfl; simp at h; exact hq h
  have hk1 : 2 ^ Nat.log2 m ≤ m := Nat.log2_self_le hm0
  have hk2 : m < 2 ^ (Nat.log2 m + 1) := Nat.lt_log2_self
  generalize Nat.log2 m = k at hk1 hk2
  have hk : k < 24 := (Nat.pow_lt_pow_iff_right (by norm_num : 1 < 2)).mp (lt_of_le_of_lt hk1 hm)
  by_cases hc : -126 ≤ s + k
  · -- normal
    obtain ⟨j, hj⟩ : ∃ j : ℕ, j + k = 23 := ⟨23 - k, by omega⟩
    have e1 : 2 ^ 23 ≤ m * 2 ^ j := by
      calc 2 ^ 23 = 2 ^ k * 2 ^ j := by rw [← pow_add, Nat.add_comm, hj]
        _ ≤ m * 2 ^ j := Nat.mul_le_mul_right _ hk1
    have e2 : m * 2 ^ j < 2 ^ 24 := by
      calc m * 2 ^ j < 2 ^ (k + 1) * 2 ^ j := Nat.mul_lt_mul_of_pos_right hk2 (by positivity)
        _ = 2 ^ 24 := by rw [← pow_add]; congr 1; omega
    refine ⟨(s + k + 127).toNat, m * 2 ^ j - 2 ^ 23, by omega, by omega, ?_⟩
    unfold magOf
    rw [if_neg (by omega)]
    have : m * 2 ^ j - 2 ^ 23 + 2 ^ 23 = m * 2 ^ j := by omega
    rw [this, h]
    have hE : (((s + k + 127).toNat : ℕ) : ℤ) - 150 = s - j := by omega
    rw [hE, zpow_sub₀ h2, zpow_natCast]
    push_cast
    field_simp
  · -- subnormal
    rw [not_le] at hc
    obtain ⟨j, hj⟩ : ∃ j : ℕ, (j : ℤ) = s + 149 := ⟨(s + 149).toNat, by omega⟩
    have e2 : m * 2 ^ j < 2 ^ 23 := by
      calc m * 2 ^ j < 2 ^ (k + 1) * 2 ^ j := Nat.mul_lt_mul_of_pos_right hk2 (by positivity)
        _ = 2 ^ (k + 1 + j) := by rw [← pow_add]
        _ ≤ 2 ^ 23 := Nat.pow_le_pow_right (by norm_num) (by omega)
    refine ⟨0, m * 2 ^ j, by omega, e2, ?_⟩
    unfold magOf
    rw [if_pos rfl, h, show s = (j : ℤ) + (-149) by omega, zpow_add₀ h2, zpow_natCast]
    push_cast
    ring

/-! ### Main results -/

theorem ofRat_zero : ofRat 0 = 0 := by
  unfold ofRat; simp

theorem signed_abs (q : ℚ) : (if decide (q < 0) = true then -|q| else |q|) = q := by
  by_cases h : q < 0
  · simp [h, abs_of_neg h]
  · simp [h, abs_of_nonneg (not_lt.mp h)]

theorem toRat?_zero : toRat? 0 = some 0 := by
  have : (0 : UInt32) = pack false 0 0 := by decide
  rw [this, toRat?_pack (by omega) (by omega)]
  simp [magOf]

/-- encoding an exactly representable value loses nothing -/
theorem toRat?_ofRat {q : ℚ} (h : Rep q) : toRat? (ofRat q) = some q := by
  by_cases hq : q = 0
  · subst hq; rw [ofRat_zero, toRat?_zero]
  · obtain ⟨E, R, hE, hR, hm⟩ := rep_normalize h hq
    rw [ofRat_magOf hq hE hR hm, toRat?_pack hE hR, ← hm, signed_abs]

theorem signBit_ofRat {q : ℚ} (h : Rep q) (hq : q ≠ 0) : signBit (ofRat q) = decide (q < 0) := by
  obtain ⟨E, R, hE, hR, hm⟩ := rep_normalize h hq
  rw [ofRat_magOf hq hE hR hm, signBit_pack (by omega) hR]

theorem fields_bound (b : UInt32) : expField b ≤ 255 ∧ manField b < 2 ^ 23 := by
  rw [expField_eq, manField_eq]; omega

theorem abs_of_toRat? {b : UInt32} {q : ℚ} (h : toRat? b = some q) :
    expField b ≤ 254 ∧ |q| = magOf (expField b) (manField b) ∧ (q ≠ 0 → (signBit b = decide (q < 0))) := by
  rw [toRat?_def] at h
  have hb := (fields_bound b).1
  by_cases he : expField b = 255
  · rw [if_pos he] at h; exact absurd h (by simp)
  · rw [if_neg he] at h
    have hnn := magOf_nonneg (expField b) (manField b)
    refine ⟨by omega, ?_, ?_⟩
    · cases hs : signBit b <;> rw [hs] at h <;> simp at h <;> rw [← h]
      · exact abs_of_nonneg hnn
      · rw [abs_neg]; exact abs_of_nonneg hnn
    · intro hq
      cases hs : signBit b <;> rw [hs] at h <;> simp at h <;> rw [← h]
      · symm; simpa using hnn
      · symm; simp only [decide_eq_true_eq]
        rcases hnn.lt_or_eq with h1 | h1
        · linarith
        · rw [← h, ← h1] at hq; simp at hq

theorem rep_of_toRat? {b : UInt32} {q : ℚ} (h : toRat? b = some q) : Rep q := by
  obtain ⟨hE, hm, -⟩ := abs_of_toRat? h
  have hR := (fields_bound b).2
  unfold magOf at hm
  by_cases h0 : expField b = 0
  · rw [if_pos h0] at hm
    exact ⟨manField b, -149, by omega, by norm_num, by norm_num, hm⟩
  · rw [if_neg h0] at hm
    exact ⟨manField b + 2 ^ 23, (expField b : ℤ) - 150, by omega, by omega, by omega, hm⟩

/-- decoding then encoding gives the same bits back (except that −0.0 ↦ +0.0) -/
theorem ofRat_toRat? {b : UInt32} {q : ℚ} (h : toRat? b = some q) (hq : q ≠ 0) : ofRat q = b := by
  obtain ⟨hE, hm, hs⟩ := abs_of_toRat? h
  have hR := (fields_bound b).2
  rw [ofRat_magOf hq hE hR hm, ← hs hq, pack_fields]

theorem magOf_lt {E R : ℕ} (hE : E ≤ 254) (hR : R < 2 ^ 23) : magOf E R < (2:ℚ) ^ (128 : ℤ) := by
  have h2 : (2:ℚ) ≠ 0 := by norm_num
  have hRq : (R : ℚ) < 2 ^ 23 := by exact_mod_cast hR
  unfold magOf
  split
  · calc (R : ℚ) * (2:ℚ) ^ (-149 : ℤ) < 2 ^ 23 * (2:ℚ) ^ (-149 : ℤ) :=
          mul_lt_mul_of_pos_right hRq (by positivity)
      _ = (2:ℚ) ^ ((23 : ℤ) + (-149)) := by rw [zpow_add₀ h2]; norm_num
      _ ≤ (2:ℚ) ^ (128 : ℤ) := zpow_le_zpow_right₀ (by norm_num) (by norm_num)
  · have : ((R + 2 ^ 23 : ℕ) : ℚ) < (2:ℚ) ^ (24 : ℤ) := by
      rw [zpow_ofNat]; push_cast; linarith
    calc ((R + 2 ^ 23 : ℕ) : ℚ) * (2:ℚ) ^ ((E : ℤ) - 150) < (2:ℚ) ^ (24 : ℤ) * (2:ℚ) ^ ((E : ℤ) - 150) :=
          mul_lt_mul_of_pos_right this (by positivity)
      _ = (2:ℚ) ^ ((24 : ℤ) + ((E : ℤ) - 150)) := by rw [zpow_add₀ h2]
      _ ≤ (2:ℚ) ^ (128 : ℤ) := zpow_le_zpow_right₀ (by norm_num) (by omega)

theorem toRat?_abs_lt {b : UInt32} {q : ℚ} (h : toRat? b = some q) : |q| < (2 : ℚ) ^ (128 : ℤ) := by
  obtain ⟨hE, hm, -⟩ := abs_of_toRat? h
  rw [hm]; exact magOf_lt hE (fields_bound b).2

end Retro.F32
