/-
Helper lemmas for `Retro.Props.C04.RowsF32`: the binary32 facts behind "the ROWS of a scan are exact".

  * `toRat?_neg`, `sub_finite_exact`   negation flips the sign bit only; a difference whose exact value is a
                                        binary32 value is computed exactly
  * `rep_half_int`                      the half-integers `z + ½`, `−2^23 ≤ z < 2^23`, are binary32 values
  * `toUsizeSat_half_int`               `as usize` of a half-integer is the (saturating) integer part
  * `toU32Sat_int`                      `as u32` of an integral value is the (saturating) integer
  * `rowsLoop`, `rowsLoop_exact`        the y part of `ScanlineIter::next`, iterated: starting at a half-integer
                                        `a + ½` it visits the rows `a, a+1, …` as long as `a + n < 2^23`
-/
import Retro.Model.FloatFallback
import Retro.Lemmas.F32Ops
import Retro.Lemmas.FloatFallback
import Mathlib.Tactic.Linarith
import Mathlib.Tactic.Ring
import Mathlib.Tactic.NormNum
import Mathlib.Tactic.Positivity

namespace Retro.F32
open Retro

/-! ### Negation -/

theorem xor_two_pow31_of_lt {m : ℕ} (h : m < 2 ^ 31) : m ^^^ 2 ^ 31 = 2 ^ 31 + m := by
  apply Nat.eq_of_testBit_eq; intro i
  rw [Nat.testBit_xor, Nat.testBit_two_pow]
  rcases Nat.lt_trichotomy i 31 with hi | hi | hi
  · rw [Nat.testBit_two_pow_add_gt hi]
    have : ¬ 31 = i := by omega
    simp [this]
  · subst hi
    rw [Nat.testBit_two_pow_add_eq, Nat.testBit_lt_two_pow h]; simp
  · have h1 : (2 : ℕ) ^ 32 ≤ 2 ^ i := Nat.pow_le_pow_right (by norm_num) (by omega)
    have h2 : 2 ^ 31 + m < 2 ^ i := by omega
    have h3 : m < 2 ^ i := by omega
    have : ¬ 31 = i := by omega
    rw [Nat.testBit_lt_two_pow h2, Nat.testBit_lt_two_pow h3]; simp [this]

theorem neg_toNat (b : UInt32) :
    (neg b).toNat = if b.toNat < 2 ^ 31 then b.toNat + 2 ^ 31 else b.toNat - 2 ^ 31 := by
  unfold neg
  rw [UInt32.toNat_xor]
  have hs : signMask.toNat = 2 ^ 31 := by decide
  rw [hs]
  have hb := b.toNat_lt
  split
  · rename_i h; rw [xor_two_pow31_of_lt h]; omega
  · rename_i h
    obtain ⟨m, hm⟩ : ∃ m, b.toNat = 2 ^ 31 + m := ⟨b.toNat - 2 ^ 31, by omega⟩
    have hm' : m < 2 ^ 31 := by omega
    rw [hm, ← xor_two_pow31_of_lt hm', Nat.xor_assoc, Nat.xor_self, Nat.xor_zero,
      xor_two_pow31_of_lt hm']
    omega

theorem expField_neg (b : UInt32) : expField (neg b) = expField b := by
  rw [expField_eq, expField_eq, neg_toNat]; split <;> omega

theorem manField_neg (b : UInt32) : manField (neg b) = manField b := by
  rw [manField_eq, manField_eq, neg_toNat]; split <;> omega

theorem signBit_neg (b : UInt32) : signBit (neg b) = !signBit b := by
  rw [signBit_eq, signBit_eq, neg_toNat]
  have hb := b.toNat_lt
  by_cases h : b.toNat < 2 ^ 31
  · rw [if_pos h]
    have h1 : ¬ 2 ^ 31 ≤ b.toNat := by omega
    have h2 : 2 ^ 31 ≤ b.toNat + 2 ^ 31 := by omega
    rw [decide_eq_false h1, decide_eq_true h2]; rfl
  · rw [if_neg h]
    have h1 : 2 ^ 31 ≤ b.toNat := by omega
    have h2 : ¬ 2 ^ 31 ≤ b.toNat - 2 ^ 31 := by omega
    rw [decide_eq_true h1, decide_eq_false h2]; rfl

/-- `-x` of a finite value is the negated value (for ±0: the other zero). -/
theorem toRat?_neg {b : UInt32} {q : ℚ} (h : toRat? b = some q) : toRat? (neg b) = some (-q) := by
  rw [toRat?_def] at h ⊢
  rw [expField_neg, manField_neg, signBit_neg]
  by_cases he : expField b = 255
  · rw [if_pos he] at h; cases h
  · rw [if_neg he] at h ⊢
    cases hs : signBit b <;> rw [hs] at h <;> simp at h ⊢
    · rw [← h]
    · rw [← h, neg_neg]

theorem isNaN_neg (b : UInt32) : isNaN (neg b) = isNaN b := by
  unfold isNaN; rw [expField_neg, manField_neg]

/-- `a - b` is exact whenever the exact difference is a binary32 value. -/
theorem sub_finite_exact {a b : UInt32} {x y : ℚ} (ha : toRat? a = some x) (hb : toRat? b = some y)
    (hr : Rep (x - y)) : toRat? (sub a b) = some (x - y) := by
  unfold sub
  rw [sub_eq_add_neg] at hr ⊢
  exact add_finite_exact ha (toRat?_neg hb) hr

/-! ### Half-integers -/

/-- The pixel centres `z + ½` with `−2^23 ≤ z < 2^23` are binary32 values (24-bit odd numerator over 2). -/
theorem rep_half_int {z : ℤ} (h1 : -(2 ^ 23 : ℤ) ≤ z) (h2 : z < 2 ^ 23) : Rep ((z : ℚ) + 1 / 2) := by
  refine ⟨(2 * z + 1).natAbs, -1, ?_, by norm_num, by norm_num, ?_⟩
  · have : ((2 * z + 1).natAbs : ℤ) < 2 ^ 24 := by
      rw [Int.natCast_natAbs, abs_lt]; constructor <;> omega
    exact_mod_cast this
  · have e : (z : ℚ) + 1 / 2 = ((2 * z + 1 : ℤ) : ℚ) * (2 : ℚ) ^ (-1 : ℤ) := by
      push_cast; norm_num; ring
    rw [e, abs_mul, abs_of_pos (by positivity : (0 : ℚ) < (2 : ℚ) ^ (-1 : ℤ)), ← Int.cast_abs,
      Int.abs_eq_natAbs]
    simp

/-- truncation toward zero of a half-integer -/
theorem ratTrunc_half_int (z : ℤ) : ratTrunc ((z : ℚ) + 1 / 2) = if 0 ≤ z then z else z + 1 := by
  by_cases hz : 0 ≤ z
  · rw [if_pos hz]
    have h0 : (0 : ℚ) ≤ (z : ℚ) + 1 / 2 := by
      have : (0 : ℚ) ≤ (z : ℚ) := by exact_mod_cast hz
      linarith
    rw [ratTrunc_nonneg h0, Int.floor_eq_iff]
    constructor <;> linarith
  · rw [if_neg hz]
    have hz' : z ≤ -1 := by omega
    have h0 : (z : ℚ) + 1 / 2 < 0 := by
      have : (z : ℚ) ≤ -1 := by exact_mod_cast hz'
      linarith
    rw [ratTrunc_neg h0]
    have : ⌊-((z : ℚ) + 1 / 2)⌋ = -z - 1 := by
      rw [Int.floor_eq_iff]; push_cast
      constructor <;> linarith
    rw [this]; ring

/-- **`y as usize` of a half-integer** `z + ½` is `z` for `z ≥ 0` and saturates to `0` below — the same
number as `⌊z + ½⌋.toNat` of the exact model. -/
theorem toUsizeSat_half_int {b : UInt32} {z : ℤ} (h : toRat? b = some ((z : ℚ) + 1 / 2))
    (hz : z < 2 ^ 63) : toUsizeSat b = z.toNat := by
  unfold toUsizeSat
  rw [toIntSat_finite h, ratTrunc_half_int]
  unfold pow63
  by_cases h0 : 0 ≤ z
  · rw [if_pos h0, if_neg (by omega), if_neg (by omega)]
  · rw [if_neg h0]
    by_cases h1 : z + 1 < 0
    · rw [if_pos h1]; omega
    · rw [if_neg h1, if_neg (by omega)]; omega

/-- **`d as u32` of an integral value** is `d` for `0 ≤ d < 2^32` and saturates to `0` below. -/
theorem toU32Sat_int {b : UInt32} {d : ℤ} (h : toRat? b = some (d : ℚ)) (hd : d < 2 ^ 32) :
    toU32Sat b = d.toNat := by
  unfold toU32Sat
  rw [toIntSat_finite h, ratTrunc_intCast]
  unfold pow32
  by_cases h0 : d < 0
  · rw [if_pos h0]; omega
  · rw [if_neg h0, if_neg (by omega)]

/-- `y + 1.0` on a half-integer below `2^23 − 1` is exact. -/
theorem add_one_half_int {b : UInt32} {z : ℤ} (h : toRat? b = some ((z : ℚ) + 1 / 2))
    (h1 : -(2 ^ 23 : ℤ) - 1 ≤ z) (h2 : z + 1 < 2 ^ 23) :
    toRat? (add b one) = some (((z + 1 : ℤ) : ℚ) + 1 / 2) := by
  have hr : Rep (((z + 1 : ℤ) : ℚ) + 1 / 2) := rep_half_int (by omega) h2
  have e : ((z + 1 : ℤ) : ℚ) + 1 / 2 = (z : ℚ) + 1 / 2 + 1 := by push_cast; ring
  rw [e] at hr ⊢
  exact add_finite_exact h toRat?_one hr

/-! ### The row loop -/

/-- The `y` part of raster.rs:68-104 `ScanlineIter::next`, taken `n` times from state `y`:
`let y = self.y; … self.y += 1.0; … Scanline { y: y as usize, … }`. -/
def rowsLoop : Nat → UInt32 → List Nat
  | 0, _ => []
  | n + 1, y => toUsizeSat y :: rowsLoop n (add y one)

theorem rowsLoop_length (n : Nat) (y : UInt32) : (rowsLoop n y).length = n := by
  induction n generalizing y with
  | zero => rfl
  | succ n ih => simp [rowsLoop, ih]

/-- Started at the pixel centre `a + ½`, the loop visits rows `a, a + 1, …, a + n − 1` (saturating at 0
for negative `a`) as long as all the centres stay below `2^23`: every `+= 1.0` is exact and every
`as usize` truncates a half-integer. -/
theorem rowsLoop_exact (n : Nat) (y : UInt32) (a : ℤ) (h : toRat? y = some ((a : ℚ) + 1 / 2))
    (h1 : -(2 ^ 23 : ℤ) ≤ a) (h2 : a + n < 2 ^ 23) :
    rowsLoop n y = List.map (fun k : ℕ => (a + (k : ℤ)).toNat) (List.range n) := by
  induction n generalizing y a with
  | zero => rfl
  | succ n ih =>
    rw [rowsLoop, List.range_succ_eq_map, List.map_cons, List.map_map]
    congr 1
    · rw [toUsizeSat_half_int h (by omega)]; simp
    · have hstep := add_one_half_int h (by omega) (by push_cast at h2; omega)
      rw [ih _ (a + 1) hstep (by omega) (by push_cast at h2 ⊢; omega)]
      apply List.map_congr_left
      intro k _
      simp only [Function.comp, Nat.succ_eq_add_one]
      congr 1; push_cast; ring

/-- **The rows between two pixel centres.** With `y0r = a + ½` and `y1r = b + ½` (both below `2^23` in
magnitude) the literal f32 computation `n = (y1r - y0r) as u32`, then `n` times `(y as usize, y += 1.0)`
from `y0r`, visits the rows `a, a + 1, …, b − 1`: the difference is an integer below `2^24` (exact), every
increment is exact, every cast truncates a half-integer. -/
theorem rows_of_centres {y0r y1r : UInt32} {a b : ℤ}
    (h0 : toRat? y0r = some ((a : ℚ) + 1 / 2)) (h1 : toRat? y1r = some ((b : ℚ) + 1 / 2))
    (ha : -(2 ^ 23 : ℤ) ≤ a) (ha' : a < 2 ^ 23) (hb : -(2 ^ 23 : ℤ) ≤ b) (hb' : b < 2 ^ 23) :
    rowsLoop (toU32Sat (sub y1r y0r)) y0r
      = List.map (fun k : ℕ => (a + (k : ℤ)).toNat) (List.range (b - a).toNat) := by
  have hd : toRat? (sub y1r y0r) = some (((b - a : ℤ) : ℤ) : ℚ) := by
    have e : (((b - a : ℤ) : ℤ) : ℚ) = ((b : ℚ) + 1 / 2) - ((a : ℚ) + 1 / 2) := by push_cast; ring
    rw [e]
    apply sub_finite_exact h1 h0
    rw [← e]
    exact rep_int (by rw [abs_le]; constructor <;> omega)
  rw [toU32Sat_int hd (by omega)]
  exact rowsLoop_exact _ _ a h0 ha (by omega)

/-! ### `round_up_to_half` between `2^22` and `2^23`: nothing is rounded at all -/

/-- A binary32 value of magnitude at least `2^22` is a multiple of `½`. -/
theorem rep_half_of_large {q : ℚ} (h : Rep q) (hq : (2 : ℚ) ^ 22 ≤ |q|) : ∃ X : ℤ, q = (X : ℚ) / 2 := by
  obtain ⟨m, s, hm, hs1, hs2, hv⟩ := h
  have hs : -1 ≤ s := by
    by_contra hneg
    have hs' : s ≤ -2 := by omega
    have h1 : (m : ℚ) < 2 ^ 24 := by exact_mod_cast hm
    have h2 : (2 : ℚ) ^ s ≤ 2 ^ (-2 : ℤ) := zpow_le_zpow_right₀ (by norm_num) hs'
    have h3 : (0 : ℚ) < 2 ^ s := zpow_pos (by norm_num) s
    have : |q| < 2 ^ 22 := by
      rw [hv]
      calc (m : ℚ) * 2 ^ s ≤ m * 2 ^ (-2 : ℤ) := by
              apply mul_le_mul_of_nonneg_left h2; positivity
        _ < 2 ^ 24 * 2 ^ (-2 : ℤ) := by
              apply mul_lt_mul_of_pos_right h1; positivity
        _ = 2 ^ 22 := by norm_num
    linarith
  obtain ⟨X, hX⟩ := FloatFallback.rep_as_multiple hv hs
  exact ⟨X, by rw [hX]; norm_num; ring⟩

/-- Halves of integers below `2^24` in magnitude are binary32 values. -/
theorem rep_half_mul {N : ℤ} (h : |N| < 2 ^ 24) : Rep ((N : ℚ) / 2) := by
  refine ⟨N.natAbs, -1, ?_, by norm_num, by norm_num, ?_⟩
  · have : (N.natAbs : ℤ) < 2 ^ 24 := by rw [Int.natCast_natAbs]; exact h
    exact_mod_cast this
  · have e : (N : ℚ) / 2 = (N : ℚ) * (2 : ℚ) ^ (-1 : ℤ) := by norm_num; ring
    rw [e, abs_mul, abs_of_pos (by positivity : (0 : ℚ) < (2 : ℚ) ^ (-1 : ℤ)), ← Int.cast_abs,
      Int.abs_eq_natAbs]
    simp

/-- For `2^22 ≤ |x| ≤ 2^23 − 1` the sum `x + 0.5` is exact (both are multiples of `½` below `2^23`). -/
theorem add_half_exact_large {x : UInt32} {q : ℚ} (hx : toRat? x = some q)
    (hlo : (2 : ℚ) ^ 22 ≤ |q|) (hhi : |q| ≤ 2 ^ 23 - 1) :
    toRat? (add x half) = some (q + 1 / 2) := by
  obtain ⟨X, hX⟩ := rep_half_of_large (rep_of_toRat? hx) hlo
  have hXb : |X| < 2 ^ 24 - 1 := by
    have h1 : |(X : ℚ)| ≤ 2 ^ 24 - 2 := by
      have : |q| = |(X : ℚ)| / 2 := by rw [hX, abs_div]; norm_num
      rw [this] at hhi; linarith
    have h2 : |(X : ℚ)| ≤ (16777214 : ℚ) := by linarith
    have h3 : |X| ≤ 16777214 := by exact_mod_cast h2
    omega
  apply add_finite_exact hx toRat?_half
  have e : q + 1 / 2 = ((X + 1 : ℤ) : ℚ) / 2 := by rw [hX]; push_cast; ring
  rw [e]
  apply rep_half_mul
  have := abs_lt.1 hXb
  rw [abs_lt]; constructor <;> omega

open FloatFallback in
/-- **`round_up_to_half` for `2^22 ≤ |x| ≤ 2^23 − 1`** (the range `Props.C20.round_up_to_half_exact` leaves
out): `x` is a multiple of `½`, so `x + 0.5`, `n ∓ 0.5` are all exact and the result is `⌊x + ½⌋ + ½`.
The bound is sharp: `x = 2^23 − ½` gives `2^23`, not `2^23 + ½`, which is no binary32 value. -/
theorem round_up_to_half_exact_large {x : UInt32} {q : ℚ} (hx : toRat? x = some q)
    (hlo : (2 : ℚ) ^ 22 ≤ |q|) (hhi : |q| ≤ 2 ^ 23 - 1) :
    toRat? (roundUpHalfFp F32.floor x) = some (((⌊q + 1 / 2⌋ : ℤ) : ℚ) + 1 / 2) := by
  have hsum := add_half_exact_large hx hlo hhi
  have hn := floor_value hsum
  set k : ℤ := ⌊q + 1 / 2⌋ with hk
  have hk1 : (k : ℚ) ≤ q + 1 / 2 := Int.floor_le _
  have hb := abs_le.1 hhi
  have hklo : -(2 ^ 23 : ℤ) + 1 ≤ k := by
    apply Int.le_floor.2; push_cast; linarith
  have hkhi : k < 2 ^ 23 := by
    have : (k : ℚ) < ((2 ^ 23 : ℤ) : ℚ) := by push_cast; linarith
    exact_mod_cast this
  have hsub : toRat? (sub (F32.floor (add x half)) half) = some ((k : ℚ) - 1 / 2) := by
    apply sub_finite_exact hn toRat?_half
    have := rep_half_int (z := k - 1) (by omega) (by omega)
    have e : (k : ℚ) - 1 / 2 = ((k - 1 : ℤ) : ℚ) + 1 / 2 := by push_cast; ring
    rw [e]; exact this
  unfold roundUpHalfFp roundUpHalfCore
  rw [gt, lt_finite hx hsub]
  have : ¬ q < (k : ℚ) - 1 / 2 := by linarith
  simp only [this, decide_false, Bool.false_eq_true, ↓reduceIte]
  exact add_finite_exact hn toRat?_half (rep_half_int (by omega) hkhi)

-- satisfiable: x = 2^22 + ½ (0x4A800001) is itself a pixel centre, the next one is 2^22 + 1.5 (0x4A800003)
example : toRat? (0x4A800001 : UInt32) = some (2 ^ 22 + 1 / 2) ∧
    FloatFallback.roundUpHalfFp F32.floor 0x4A800001 = 0x4A800003 := by
  unfold FloatFallback.roundUpHalfFp FloatFallback.roundUpHalfCore
  decide +kernel
example : (2 : ℚ) ^ 22 ≤ |(2 ^ 22 + 1 / 2 : ℚ)| ∧ |(2 ^ 22 + 1 / 2 : ℚ)| ≤ 2 ^ 23 - 1 := by
  rw [abs_of_nonneg (by norm_num)]; norm_num

end Retro.F32
