/-
Helper lemmas for C20: bit-level facts about `fallback::abs`, the zero bit patterns, truncation
bounds, integrality of large binary32 values, and the representability of the `fmod` remainder.
-/
import Retro.Model.FloatFallback
import Retro.Lemmas.F32Ops
import Retro.Lemmas.F32Nearest

namespace Retro.FloatFallback
open Retro Retro.F32

/-! ### `abs` clears the sign bit and nothing else -/

theorem abs_toNat (b : UInt32) : (abs b).toNat = b.toNat % 2 ^ 31 := by
  unfold abs
  rw [UInt32.toNat_and]
  exact Nat.and_two_pow_sub_one_eq_mod b.toNat 31

theorem expField_abs (b : UInt32) : expField (abs b) = expField b := by
  rw [expField_eq, expField_eq, abs_toNat]; omega

theorem manField_abs (b : UInt32) : manField (abs b) = manField b := by
  rw [manField_eq, manField_eq, abs_toNat]; omega

theorem signBit_abs (b : UInt32) : signBit (abs b) = false := by
  rw [signBit_eq, abs_toNat]
  have : b.toNat % 2 ^ 31 < 2 ^ 31 := Nat.mod_lt _ (by norm_num)
  simp only [decide_eq_false_iff_not, not_le]; exact this

theorem isNaN_abs (b : UInt32) : isNaN (abs b) = isNaN b := by
  unfold isNaN; rw [expField_abs, manField_abs]

theorem toRat?_abs_none {b : UInt32} (h : toRat? b = none) : toRat? (abs b) = none := by
  rw [toRat?_eq_none_iff] at *; rw [expField_abs]; exact h

theorem toRat?_abs {b : UInt32} {q : ℚ} (h : toRat? b = some q) : toRat? (abs b) = some |q| := by
  obtain ⟨hE, hm, -⟩ := abs_of_toRat? h
  rw [toRat?_def, expField_abs, manField_abs, signBit_abs, if_neg (by omega), hm]
  simp

/-! ### The two zeros -/

theorem magOf_eq_zero {E R : ℕ} (h : magOf E R = 0) : E = 0 ∧ R = 0 := by
  unfold magOf at h
  split at h
  · rename_i hE
    refine ⟨hE, ?_⟩
    have hp : (0 : ℚ) < (2 : ℚ) ^ (-149 : ℤ) := zpow_pos (by norm_num) _
    rcases mul_eq_zero.1 h with h1 | h1
    · exact_mod_cast h1
    · exact absurd h1 (ne_of_gt hp)
  · exfalso
    have hp : (0 : ℚ) < (2 : ℚ) ^ ((E : ℤ) - 150) := zpow_pos (by norm_num) _
    have hq : (0 : ℚ) < ((R + 2 ^ 23 : ℕ) : ℚ) := by positivity
    exact absurd h (ne_of_gt (mul_pos hq hp))

/-- A pattern whose value is zero is `+0.0` or `−0.0`. -/
theorem zero_bits {x : UInt32} (h : toRat? x = some 0) : x = 0 ∨ x = signMask := by
  obtain ⟨-, hm, -⟩ := abs_of_toRat? h
  rw [abs_zero] at hm
  obtain ⟨hE, hR⟩ := magOf_eq_zero hm.symm
  have hp := pack_fields x
  rw [hE, hR] at hp
  cases hs : signBit x <;> rw [hs] at hp
  · left; rw [← hp]; decide
  · right; rw [← hp]; decide

theorem and_signMask_of_zero {x : UInt32} (h : toRat? x = some 0) : x &&& signMask = x := by
  rcases zero_bits h with h | h <;> rw [h] <;> decide

theorem and_signMask_of_signBit_false {x : UInt32} (h : signBit x = false) : x &&& signMask = 0 := by
  rw [signBit_eq] at h
  have hlt : x.toNat < 2 ^ 31 := by simpa using h
  apply UInt32.toNat_inj.1
  rw [UInt32.toNat_and]
  show x.toNat &&& 2147483648 = 0
  have e : (2147483648 : ℕ) = 2 ^ 31 := by norm_num
  rw [e]
  apply Nat.eq_of_testBit_eq; intro i
  rw [Nat.testBit_and, Nat.testBit_two_pow, Nat.zero_testBit]
  by_cases hi : 31 = i
  · subst hi; rw [Nat.testBit_lt_two_pow hlt]; rfl
  · simp [hi]

theorem signBit_false_of_pos {x : UInt32} {q : ℚ} (h : toRat? x = some q) (hq : 0 < q) :
    signBit x = false := by
  obtain ⟨-, -, hs⟩ := abs_of_toRat? h
  rw [hs (ne_of_gt hq)]; simp [le_of_lt hq]

/-! ### Truncation toward zero -/

/-- `trunc q` is within one of `q`, on the side of zero. -/
theorem ratTrunc_bounds (q : ℚ) :
    (0 ≤ q → ((ratTrunc q : ℤ) : ℚ) ≤ q ∧ q < (ratTrunc q : ℤ) + 1 ∧ 0 ≤ ratTrunc q) ∧
    (q < 0 → ((ratTrunc q : ℤ) : ℚ) - 1 < q ∧ q ≤ (ratTrunc q : ℤ) ∧ ratTrunc q ≤ 0) := by
  constructor
  · intro h
    rw [ratTrunc_nonneg h]
    exact ⟨Int.floor_le q, Int.lt_floor_add_one q, Int.floor_nonneg.2 h⟩
  · intro h
    rw [ratTrunc_neg h]
    have h1 := Int.floor_le (-q)
    have h2 := Int.lt_floor_add_one (-q)
    have h3 : 0 ≤ ⌊-q⌋ := Int.floor_nonneg.2 (by linarith)
    push_cast
    refine ⟨by linarith, by linarith, by omega⟩

theorem abs_ratTrunc_le (q : ℚ) : |((ratTrunc q : ℤ) : ℚ)| ≤ |q| := by
  rcases le_or_gt 0 q with h | h
  · obtain ⟨h1, -, h3⟩ := (ratTrunc_bounds q).1 h
    have : (0 : ℚ) ≤ ((ratTrunc q : ℤ) : ℚ) := by exact_mod_cast h3
    rw [abs_of_nonneg this, abs_of_nonneg h]; exact h1
  · obtain ⟨-, h2, h3⟩ := (ratTrunc_bounds q).2 h
    have : ((ratTrunc q : ℤ) : ℚ) ≤ 0 := by exact_mod_cast h3
    rw [abs_of_nonpos this, abs_of_neg h]; linarith

/-- `|q − trunc q| < 1` and `|q − trunc q| ≤ |q|`. -/
theorem sub_ratTrunc_bounds (q : ℚ) :
    |q - ((ratTrunc q : ℤ) : ℚ)| < 1 ∧ |q - ((ratTrunc q : ℤ) : ℚ)| ≤ |q| := by
  rcases le_or_gt 0 q with h | h
  · obtain ⟨h1, h2, h3⟩ := (ratTrunc_bounds q).1 h
    have h3' : (0 : ℚ) ≤ ((ratTrunc q : ℤ) : ℚ) := by exact_mod_cast h3
    rw [abs_of_nonneg (by linarith), abs_of_nonneg h]
    constructor <;> linarith
  · obtain ⟨h1, h2, h3⟩ := (ratTrunc_bounds q).2 h
    have h3' : ((ratTrunc q : ℤ) : ℚ) ≤ 0 := by exact_mod_cast h3
    rw [abs_of_nonpos (by linarith), abs_of_neg h]
    constructor <;> linarith

/-! ### Large binary32 values are integers -/

theorem rep_int_of_large {q : ℚ} (h : Rep q) (hq : (2 : ℚ) ^ 23 ≤ |q|) : ∃ z : ℤ, q = z := by
  obtain ⟨m, s, hm, hs1, hs2, hv⟩ := h
  have hs : 0 ≤ s := by
    by_contra hneg
    have hs' : s ≤ -1 := by omega
    have h1 : (m : ℚ) < 2 ^ 24 := by exact_mod_cast hm
    have h2 : (2 : ℚ) ^ s ≤ 2 ^ (-1 : ℤ) := zpow_le_zpow_right₀ (by norm_num) hs'
    have h3 : (0 : ℚ) < 2 ^ s := zpow_pos (by norm_num) s
    have : |q| < 2 ^ 23 := by
      rw [hv]
      calc (m : ℚ) * 2 ^ s ≤ m * 2 ^ (-1 : ℤ) := by
              apply mul_le_mul_of_nonneg_left h2; positivity
        _ < 2 ^ 24 * 2 ^ (-1 : ℤ) := by
              apply mul_lt_mul_of_pos_right h1; positivity
        _ = 2 ^ 23 := by norm_num
    linarith
  obtain ⟨k, rfl⟩ := Int.eq_ofNat_of_zero_le hs
  rcases abs_cases q with ⟨ha, _⟩ | ⟨ha, _⟩
  · exact ⟨(m : ℤ) * 2 ^ k, by rw [← ha, hv]; push_cast; rfl⟩
  · exact ⟨-((m : ℤ) * 2 ^ k), by
      have : q = -|q| := by rw [ha]; ring
      rw [this, hv]; push_cast; rfl⟩

/-! ### The `fmod` remainder is a binary32 value -/

/-- integer multiples of `2^u`: a representable value is one, for every `u` not above its scale -/
theorem rep_as_multiple {q : ℚ} {m : ℕ} {s u : ℤ} (hv : |q| = (m : ℚ) * (2 : ℚ) ^ s) (hu : u ≤ s) :
    ∃ X : ℤ, q = (X : ℚ) * (2 : ℚ) ^ u := by
  obtain ⟨k, hk⟩ := Int.eq_ofNat_of_zero_le (show 0 ≤ s - u by omega)
  have hs : s = u + k := by omega
  have h2 : (2 : ℚ) ^ s = (2 : ℚ) ^ k * (2 : ℚ) ^ u := by
    rw [hs, zpow_add₀ (by norm_num : (2 : ℚ) ≠ 0), zpow_natCast]; ring
  rcases abs_cases q with ⟨ha, _⟩ | ⟨ha, _⟩
  · exact ⟨(m : ℤ) * 2 ^ k, by rw [← ha, hv, h2]; push_cast; ring⟩
  · refine ⟨-((m : ℤ) * 2 ^ k), ?_⟩
    have : q = -|q| := by rw [ha]; ring
    rw [this, hv, h2]; push_cast; ring

/-- `x − trunc(x/m)·m` is exactly representable whenever `x` and `m ≠ 0` are: the reason why the
`%` operator on floats never rounds. -/
theorem rep_fmod {x m : ℚ} (hx : Rep x) (hm : Rep m) (hm0 : m ≠ 0) :
    Rep (x - ((ratTrunc (x / m) : ℤ) : ℚ) * m) ∧
    |x - ((ratTrunc (x / m) : ℤ) : ℚ) * m| < |m| ∧
    |x - ((ratTrunc (x / m) : ℤ) : ℚ) * m| ≤ |x| := by
  set n : ℤ := ratTrunc (x / m) with hn
  set ρ : ℚ := x - (n : ℚ) * m with hρ
  have hmabs : 0 < |m| := abs_pos.2 hm0
  -- ρ = (x/m − n)·m
  have hfac : ρ = (x / m - (n : ℚ)) * m := by
    rw [hρ]; field_simp
  obtain ⟨hb1, hb2⟩ := sub_ratTrunc_bounds (x / m)
  have hlt : |ρ| < |m| := by
    rw [hfac, abs_mul]
    calc |x / m - (n : ℚ)| * |m| < 1 * |m| := by
            apply mul_lt_mul_of_pos_right hb1 hmabs
      _ = |m| := one_mul _
  have hle : |ρ| ≤ |x| := by
    rw [hfac, abs_mul]
    calc |x / m - (n : ℚ)| * |m| ≤ |x / m| * |m| := by
            apply mul_le_mul_of_nonneg_right hb2 (le_of_lt hmabs)
      _ = |x| := by rw [abs_div]; field_simp
  refine ⟨?_, hlt, hle⟩
  obtain ⟨a, s, ha, hs1, hs2, hxv⟩ := hx
  obtain ⟨c, t, hc, ht1, ht2, hmv⟩ := hm
  -- common scale u = min s t
  set u : ℤ := min s t with hu
  obtain ⟨X, hX⟩ := rep_as_multiple hxv (show u ≤ s from min_le_left _ _)
  obtain ⟨M, hM⟩ := rep_as_multiple hmv (show u ≤ t from min_le_right _ _)
  have hpos : (0 : ℚ) < (2 : ℚ) ^ u := zpow_pos (by norm_num) u
  have hJ : ρ = ((X - n * M : ℤ) : ℚ) * (2 : ℚ) ^ u := by
    rw [hρ, hX, hM]; push_cast; ring
  have habsJ : |ρ| = (((X - n * M).natAbs : ℕ) : ℚ) * (2 : ℚ) ^ u := by
    rw [hJ, abs_mul, abs_of_pos hpos, ← Int.cast_abs, Int.abs_eq_natAbs]; simp
  refine ⟨(X - n * M).natAbs, u, ?_, by omega, by omega, habsJ⟩
  -- the integer multiplier is below 2^24
  have hJlt : ((((X - n * M).natAbs : ℕ) : ℚ)) < 2 ^ 24 := by
    rcases le_total s t with hst | hst
    · -- u = s: |ρ| ≤ |x| = a·2^s
      have hus : u = s := min_eq_left hst
      have : (((X - n * M).natAbs : ℕ) : ℚ) * (2 : ℚ) ^ u ≤ (a : ℚ) * (2 : ℚ) ^ u := by
        rw [← habsJ]; rw [hus]; rw [← hxv]; exact hle
      have h' := le_of_mul_le_mul_right this hpos
      have : (a : ℚ) < 2 ^ 24 := by exact_mod_cast ha
      linarith
    · -- u = t: |ρ| < |m| = c·2^t
      have hut : u = t := min_eq_right hst
      have : (((X - n * M).natAbs : ℕ) : ℚ) * (2 : ℚ) ^ u < (c : ℚ) * (2 : ℚ) ^ u := by
        rw [← habsJ]; rw [hut]; rw [← hmv]; exact hlt
      have h' := lt_of_mul_lt_mul_right this (le_of_lt hpos)
      have : (c : ℚ) < 2 ^ 24 := by exact_mod_cast hc
      linarith
  exact_mod_cast hJlt

end Retro.FloatFallback
