/-
Helper lemmas for C15: membership and counting facts for the lathe's face list.
-/
import Retro.Model.Lathe

namespace Retro.Lathe

theorem mem_sideFaces {np secs : Nat} {f : Tri} :
    f ∈ sideFaces np secs ↔
      ∃ j0, j0 < np - 1 ∧ ∃ i0, i0 < secs ∧ f ∈ quadFaces (secs + 1) (j0 + 1) (i0 + 1) := by
  simp [sideFaces, List.mem_flatMap, List.mem_range]

theorem mem_bottomCap {l secs : Nat} {f : Tri} :
    f ∈ bottomCap l secs ↔ ∃ i0, i0 < secs - 1 ∧ f = (l, l + (i0 + 1), l + (i0 + 1) + 1) := by
  simp [bottomCap, List.mem_map, List.mem_range, eq_comm]

theorem mem_topCap {l secs : Nat} {f : Tri} :
    f ∈ topCap l secs ↔ ∃ i0, i0 < secs - 1 ∧ f = (l, l + (i0 + 1) + 1, l + (i0 + 1)) := by
  simp [topCap, List.mem_map, List.mem_range, eq_comm]

theorem length_flatMap_const {α β : Type} (l : List α) (g : α → List β) (k : Nat)
    (h : ∀ a, (g a).length = k) : (l.flatMap g).length = l.length * k := by
  induction l with
  | nil => simp
  | cons a t ih => simp [List.flatMap_cons, h, ih, Nat.add_mul, Nat.add_comm]

theorem length_sideFaces (np secs : Nat) : (sideFaces np secs).length = (np - 1) * (secs * 2) := by
  unfold sideFaces
  rw [length_flatMap_const _ _ (secs * 2)]
  · simp
  · intro j0
    rw [length_flatMap_const _ _ 2]
    · simp
    · intro i0; simp [quadFaces]

/-- The largest index of a side quad is `s = j·n + i`. -/
theorem quad_index_bound {np secs j0 i0 : Nat} (hj : j0 < np - 1) (hi : i0 < secs) {f : Tri}
    (hf : f ∈ quadFaces (secs + 1) (j0 + 1) (i0 + 1)) :
    f.1 < np * (secs + 1) ∧ f.2.1 < np * (secs + 1) ∧ f.2.2 < np * (secs + 1) := by
  have h1 : (j0 + 1) * (secs + 1) + (secs + 1) ≤ np * (secs + 1) := by
    have : j0 + 2 ≤ np := by omega
    calc (j0 + 1) * (secs + 1) + (secs + 1) = (j0 + 2) * (secs + 1) := by
          rw [show j0 + 2 = (j0 + 1) + 1 from rfl, Nat.add_mul (j0 + 1) 1, Nat.one_mul]
      _ ≤ np * (secs + 1) := Nat.mul_le_mul_right _ this
  have h2 : j0 * (secs + 1) + (secs + 1) = (j0 + 1) * (secs + 1) := by
    rw [Nat.add_mul, Nat.one_mul]
  simp only [quadFaces, Nat.add_sub_cancel, List.mem_cons, List.mem_nil_iff, or_false] at hf
  rcases hf with hf | hf <;> subst hf <;> simp only <;> refine ⟨?_, ?_, ?_⟩ <;> omega

end Retro.Lathe
