/-
C15 helper: the Boolean certificate `solidOK` evaluated by `decide +kernel` on parameter grids,
and what it establishes.
-/
import Retro.Model.Lathe
import Retro.Model.Platonic
import Retro.Spec.Surface
import Retro.Lemmas.Surface

namespace Retro.Lathe
open Retro.Surface

/-- Closed, consistently wound and of Euler characteristic `chi`, for a face list over `bound` vertices. -/
def facesOK (bound : Nat) (fs : List Tri) (chi : Int) : Bool :=
  checkClosed bound (dirEdges fs) && eulerChar bound fs == chi

def solidOK (np secs : Nat) (capped : Bool) (cl : Closure) (chi : Int) : Bool :=
  facesOK (vertCount np secs capped) (mergedFaces np secs capped cl) chi

theorem facesOK_sound (bound : Nat) (fs : List Tri) (chi : Int) (h : facesOK bound fs chi = true) :
    ClosedOriented (dirEdges fs) ∧ eulerChar bound fs = chi := by
  unfold facesOK at h
  rw [Bool.and_eq_true] at h
  exact ⟨checkClosed_sound _ _ h.1, by simpa using h.2⟩

theorem solidOK_sound (np secs : Nat) (capped : Bool) (cl : Closure) (chi : Int)
    (h : solidOK np secs capped cl chi = true) :
    ClosedOriented (dirEdges (mergedFaces np secs capped cl)) ∧
      eulerChar (vertCount np secs capped) (mergedFaces np secs capped cl) = chi :=
  facesOK_sound _ _ _ h

def sphereClosure : Closure := { poleBottom := true, poleTop := true }
def torusClosure : Closure := { wrap := true }
def cappedClosure : Closure := { }
def coneApexClosure : Closure := { poleTop := true }
def coneBaseClosure : Closure := { poleBottom := true }

/-- All segment counts `lo ≤ segs < lo + cnt` for one sector count. -/
def gridRow (pts : Nat → Nat) (lo cnt secs : Nat) (capped : Bool) (cl : Closure) (chi : Int) : Bool :=
  (List.range' lo cnt).all fun segs => solidOK (pts segs) secs capped cl chi

theorem gridRow_elim {pts : Nat → Nat} {lo cnt secs : Nat} {capped : Bool} {cl : Closure} {chi : Int}
    (h : gridRow pts lo cnt secs capped cl chi = true) (segs : Nat) (h1 : lo ≤ segs) (h2 : segs < lo + cnt) :
    solidOK (pts segs) secs capped cl chi = true := by
  unfold gridRow at h
  rw [List.all_eq_true] at h
  exact h segs (by rw [List.mem_range']; exact ⟨segs - lo, by omega, by omega⟩)

end Retro.Lathe
