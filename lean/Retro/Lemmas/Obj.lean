/-
Helper lemmas for C14 (OBJ reader): lexer facts, the max-index invariant of the reader loop.
-/
import Retro.Model.Obj

namespace Retro.Obj

/-! ### Lexer -/

theorem splitWs_ne_nil (l : List UInt8) : ∀ t ∈ splitWs l, t ≠ [] := by
  induction l with
  | nil => intro t h; simp [splitWs] at h
  | cons b bs ih =>
    intro t h
    unfold splitWs at h
    split at h
    · exact ih t h
    · split at h
      · simp at h; subst h; simp
      · split at h
        · simp at h
          rcases h with h | h
          · subst h; simp
          · exact ih t h
        · split at h
          · rename_i t' ts heq
            simp at h
            rcases h with h | h
            · subst h; simp
            · exact ih t (by rw [heq]; simp [h])
          · simp at h; subst h; simp

/-! ### No panic in one step -/

theorem stepLine_no_panic (pf : List UInt8 → Option UInt32) (st : St) (line : List UInt8) :
    ∀ s, stepLine pf st line ≠ .panic s := by
  intro s
  unfold stepLine
  split
  · simp
  · rename_i item toks heq
    have hne : item ≠ [] := splitWs_ne_nil line item (by rw [heq]; simp)
    split
    · simp
    · split <;> simp
    · split <;> simp
    · split <;> simp
    · split <;> simp
    · simp
    · rename_i hmap
      cases item with
      | nil => exact absurd rfl hne
      | cons c cs => simp at hmap

/-! ### The max-index invariant -/

def faceLe (m : Nat) (f : Face) : Prop := f.1.pos ≤ m ∧ f.2.1.pos ≤ m ∧ f.2.2.pos ≤ m

/-- Every face pushed so far has all three position indices `≤ max_i.pos`. -/
def Inv (st : St) : Prop := ∀ f ∈ st.faces, faceLe st.maxI.pos f

theorem inv_init : Inv {} := by
  intro f h; simp at h

theorem faceLe_mono {m m' : Nat} {f : Face} (h : m ≤ m') (hf : faceLe m f) : faceLe m' f := by
  obtain ⟨h1, h2, h3⟩ := hf
  exact ⟨by omega, by omega, by omega⟩

theorem stepLine_inv (pf : List UInt8 → Option UInt32) (st st' : St) (line : List UInt8)
    (hinv : Inv st) (h : stepLine pf st line = .ok (.ok st')) : Inv st' := by
  unfold stepLine at h
  split at h
  · simp at h; subst h; exact hinv
  · split at h
    · simp at h; subst h; exact hinv
    · split at h
      · simp at h; subst h; exact hinv
      · simp at h
    · split at h
      · simp at h; subst h; exact hinv
      · simp at h
    · split at h
      · simp at h; subst h; exact hinv
      · simp at h
    · split at h
      · rename_i a b c _
        simp at h; subst h
        intro f hf
        simp only [List.mem_append, List.mem_singleton] at hf
        rcases hf with hf | hf
        · exact faceLe_mono (by simp [maxIndices]; omega) (hinv f hf)
        · subst hf
          simp only [faceLe, maxIndices]
          refine ⟨?_, ?_, ?_⟩ <;> omega
      · simp at h
    · simp at h
    · simp at h

theorem foldLines_no_panic (pf : List UInt8 → Option UInt32) (lines : List (List UInt8)) :
    ∀ st s, foldLines pf st lines ≠ .panic s := by
  induction lines with
  | nil => intro st s; simp [foldLines]
  | cons l ls ih =>
    intro st s
    unfold foldLines
    split
    · exact ih _ s
    · simp
    · rename_i s' heq
      exact absurd heq (stepLine_no_panic pf st l s')

theorem foldLines_inv (pf : List UInt8 → Option UInt32) (lines : List (List UInt8)) :
    ∀ st st', Inv st → foldLines pf st lines = .ok (.ok st') → Inv st' := by
  induction lines with
  | nil => intro st st' hinv h; simp [foldLines] at h; subst h; exact hinv
  | cons l ls ih =>
    intro st st' hinv h
    unfold foldLines at h
    split at h
    · rename_i st1 heq
      exact ih st1 st' (stepLine_inv pf st st1 l hinv heq) h
    · simp at h
    · simp at h

/-! ### The deferred checks imply `Mesh::new`'s assertion -/

theorem faceInRange_iff (n : Nat) (f : Nat × Nat × Nat) :
    faceInRange n f = true ↔ f.1 < n ∧ f.2.1 < n ∧ f.2.2 < n := by
  unfold faceInRange
  simp [Bool.and_eq_true, and_assoc]

theorem finish_faces_in_range (st : St) (hinv : Inv st)
    (hchk : ¬ (!st.faces.isEmpty && decide (st.maxI.pos ≥ st.verts.length)) = true) :
    (st.faces.map facePos).all (faceInRange st.verts.length) = true := by
  rw [List.all_eq_true]
  intro p hp
  rw [List.mem_map] at hp
  obtain ⟨f, hf, rfl⟩ := hp
  have hne : st.faces.isEmpty = false := by
    cases hfs : st.faces with
    | nil => rw [hfs] at hf; simp at hf
    | cons _ _ => rfl
  have hlt : st.maxI.pos < st.verts.length := by
    simp [hne] at hchk; exact hchk
  obtain ⟨h1, h2, h3⟩ := hinv f hf
  rw [faceInRange_iff]
  simp only [facePos]
  exact ⟨by omega, by omega, by omega⟩

end Retro.Obj
