/-
C14 helper lemmas, part 4: the canonical printer `printObj` produces a well-formed document
that lists exactly the mesh.
-/
import Retro.Spec.Obj
import Retro.Lemmas.ObjPrint

namespace Retro.ObjSpec
open Retro.Obj

theorem docVerts_append (a b : List Item) : docVerts (a ++ b) = docVerts a ++ docVerts b := by
  induction a with
  | nil => rfl
  | cons it rest ih => cases it <;> simp [docVerts, ih]

theorem docFaces_append (a b : List Item) : docFaces (a ++ b) = docFaces a ++ docFaces b := by
  induction a with
  | nil => rfl
  | cons it rest ih => cases it <;> simp [docFaces, ih]

theorem docTexCount_append (a b : List Item) : docTexCount (a ++ b) = docTexCount a + docTexCount b := by
  induction a with
  | nil => simp [docTexCount]
  | cons it rest ih => cases it <;> simp [docTexCount, ih] <;> omega

theorem docNormCount_append (a b : List Item) : docNormCount (a ++ b) = docNormCount a + docNormCount b := by
  induction a with
  | nil => simp [docNormCount]
  | cons it rest ih => cases it <;> simp [docNormCount, ih] <;> omega

section
variable (lay : Layout)

theorem verts_block (vs : List ((Bytes × UInt32) × (Bytes × UInt32) × (Bytes × UInt32))) :
    docVerts (vs.map (vertItem lay)) = vs.map (fun (x, y, z) => (x.2, y.2, z.2)) ∧
    docFaces (vs.map (vertItem lay)) = [] ∧ docTexCount (vs.map (vertItem lay)) = 0 ∧
    docNormCount (vs.map (vertItem lay)) = 0 := by
  induction vs with
  | nil => simp [docVerts, docFaces, docTexCount, docNormCount]
  | cons v rest ih =>
    obtain ⟨h1, h2, h3, h4⟩ := ih
    simp [vertItem, docVerts, docFaces, docTexCount, docNormCount] at *
    exact ⟨h1, h2, h3, h4⟩

theorem faces_block (fs : List (Nat × Nat × Nat)) :
    docVerts (fs.map (faceItem lay)) = [] ∧ docFaces (fs.map (faceItem lay)) = fs ∧
    docTexCount (fs.map (faceItem lay)) = 0 ∧ docNormCount (fs.map (faceItem lay)) = 0 := by
  induction fs with
  | nil => simp [docVerts, docFaces, docTexCount, docNormCount]
  | cons f rest ih =>
    obtain ⟨h1, h2, h3, h4⟩ := ih
    simp [faceItem, docVerts, docFaces, docTexCount, docNormCount] at *
    exact ⟨h1, h2, h3, h4⟩

def headerItems : List Item :=
  match lay.comment with | some t => [Item.comment lay.indent t] | none => []
def blankItems : List Item := if lay.blankBetween then [Item.blank lay.trail] else []

theorem header_block :
    docVerts (headerItems lay) = [] ∧ docFaces (headerItems lay) = [] ∧
    docTexCount (headerItems lay) = 0 ∧ docNormCount (headerItems lay) = 0 := by
  unfold headerItems
  cases lay.comment <;> simp [docVerts, docFaces, docTexCount, docNormCount]

theorem blank_block :
    docVerts (blankItems lay) = [] ∧ docFaces (blankItems lay) = [] ∧
    docTexCount (blankItems lay) = 0 ∧ docNormCount (blankItems lay) = 0 := by
  unfold blankItems
  cases lay.blankBetween <;> simp [docVerts, docFaces, docTexCount, docNormCount]

theorem printObj_eq (m : TextMesh) : printObj lay m =
    headerItems lay ++ (if lay.facesFirst then
      m.faces.map (faceItem lay) ++ (blankItems lay ++ m.verts.map (vertItem lay))
    else m.verts.map (vertItem lay) ++ (blankItems lay ++ m.faces.map (faceItem lay))) := rfl

/-- The printed document lists exactly the mesh and no texture coordinates or normals. -/
theorem printObj_lists (m : TextMesh) :
    docVerts (printObj lay m) = m.vertVals ∧ docFaces (printObj lay m) = m.faces ∧
    docTexCount (printObj lay m) = 0 ∧ docNormCount (printObj lay m) = 0 := by
  obtain ⟨v1, v2, v3, v4⟩ := verts_block lay m.verts
  obtain ⟨f1, f2, f3, f4⟩ := faces_block lay m.faces
  obtain ⟨c1, c2, c3, c4⟩ := header_block lay
  obtain ⟨b1, b2, b3, b4⟩ := blank_block lay
  rw [printObj_eq]
  unfold TextMesh.vertVals
  cases lay.facesFirst <;>
    simp only [docVerts_append, docFaces_append, docTexCount_append, docNormCount_append,
      v1, v2, v3, v4, f1, f2, f3, f4, c1, c2, c3, c4, b1, b2, b3, b4, if_true, if_false,
      Bool.false_eq_true, List.append_nil, List.nil_append, Nat.add_zero] <;>
    exact ⟨trivial, trivial, trivial, trivial⟩

theorem printObj_mem (m : TextMesh) (it : Item) (h : it ∈ printObj lay m) :
    (∃ t, lay.comment = some t ∧ it = Item.comment lay.indent t) ∨ it = Item.blank lay.trail ∨
    (∃ v ∈ m.verts, it = vertItem lay v) ∨ (∃ f ∈ m.faces, it = faceItem lay f) := by
  unfold printObj at h
  simp only [List.mem_append, List.mem_map] at h
  rcases h with h | h
  · left
    cases hc : lay.comment with
    | none => rw [hc] at h; simp at h
    | some t => rw [hc] at h; simp at h; exact ⟨t, rfl, h⟩
  · right
    have hb : ∀ j, j ∈ (if lay.blankBetween then [Item.blank lay.trail] else []) → j = Item.blank lay.trail := by
      intro j hj
      split at hj
      · simpa using hj
      · simp at hj
    cases hff : lay.facesFirst <;> rw [hff] at h <;>
      simp only [if_true, if_false, Bool.false_eq_true, List.mem_append, List.mem_map] at h
    · rcases h with ⟨v, hv, rfl⟩ | h | ⟨f, hf, rfl⟩
      · exact Or.inr (Or.inl ⟨v, hv, rfl⟩)
      · exact Or.inl (hb it h)
      · exact Or.inr (Or.inr ⟨f, hf, rfl⟩)
    · rcases h with ⟨f, hf, rfl⟩ | h | ⟨v, hv, rfl⟩
      · exact Or.inr (Or.inr ⟨f, hf, rfl⟩)
      · exact Or.inl (hb it h)
      · exact Or.inr (Or.inl ⟨v, hv, rfl⟩)

theorem printObj_docOk (pf : Bytes → Option UInt32) (m : TextMesh)
    (hl : layoutOk lay) (hm : textMeshOk pf m) : docOk pf (printObj lay m) := by
  obtain ⟨hi, hs, ht, hc⟩ := hl
  obtain ⟨hv, hf, hlen⟩ := hm
  obtain ⟨l1, _, l3, l4⟩ := printObj_lists lay m
  have hvl : (docVerts (printObj lay m)).length = m.verts.length := by
    rw [l1]; simp [TextMesh.vertVals]
  constructor
  · intro it hit
    rcases printObj_mem lay m it hit with ⟨t, ht', rfl⟩ | rfl | ⟨v, hv', rfl⟩ | ⟨f, hf', rfl⟩
    · exact ⟨hi, hc t ht'⟩
    · exact ht
    · obtain ⟨hx, hy, hz⟩ := hv v hv'
      exact ⟨hi, hs, ⟨hx.1, hx.2, hs.2, fun _ => hs.1⟩, ⟨hy.1, hy.2, hs.2, fun _ => hs.1⟩,
        ⟨hz.1, hz.2, ht, fun h => by simp at h⟩⟩
    · obtain ⟨h1, h2, h3⟩ := hf f hf'
      have b : ∀ i, i < m.verts.length → idxOk i := fun i hi => by unfold idxOk; omega
      exact ⟨hi, hs,
        ⟨b _ h1, by intro t h; simp at h, by intro t h; simp at h, hs.2, fun _ => hs.1⟩,
        ⟨b _ h2, by intro t h; simp at h, by intro t h; simp at h, hs.2, fun _ => hs.1⟩,
        ⟨b _ h3, by intro t h; simp at h, by intro t h; simp at h, ht, fun h => by simp at h⟩⟩
  · intro it hit
    rw [hvl, l3, l4]
    rcases printObj_mem lay m it hit with ⟨t, _, rfl⟩ | rfl | ⟨v, _, rfl⟩ | ⟨f, hf', rfl⟩
    · trivial
    · trivial
    · trivial
    · obtain ⟨h1, h2, h3⟩ := hf f hf'
      exact ⟨⟨h1, by intro t h; simp at h, by intro t h; simp at h⟩,
        ⟨h2, by intro t h; simp at h, by intro t h; simp at h⟩,
        ⟨h3, by intro t h; simp at h, by intro t h; simp at h⟩⟩

end

end Retro.ObjSpec
