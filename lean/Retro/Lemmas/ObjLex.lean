/-
C14 helper lemmas, part 2: lexing printed text back (whitespace tokens, lines, `/`-separated
pieces, decimal numbers).
-/
import Retro.Model.Obj
import Retro.Spec.Obj

namespace Retro.ObjSpec
open Retro.Obj

/-! ### Character classes -/

theorem isWs_of_isHws {b : UInt8} (h : isHws b = true) : isWs b = true := by
  simp only [isHws, isWs, Bool.or_eq_true] at *
  rcases h with ((h | h) | h) | h <;> simp [h]

theorem ne_nl_of_isHws {b : UInt8} (h : isHws b = true) : b ≠ 10 := by
  intro hb; subst hb; revert h; decide

theorem isWs_nl : isWs 10 = true := by decide

theorem ne_nl_of_not_isWs {b : UInt8} (h : isWs b = false) : b ≠ 10 := by
  intro hb; subst hb; revert h; decide

theorem hws_isWs {s : Bytes} (h : hws s) : ∀ b ∈ s, isWs b = true :=
  fun b hb => isWs_of_isHws (h b hb)

theorem hws_no_nl {s : Bytes} (h : hws s) : (10 : UInt8) ∉ s :=
  fun hb => ne_nl_of_isHws (h 10 hb) rfl

theorem tok_no_nl {t : Bytes} (h : tokOk t) : (10 : UInt8) ∉ t :=
  fun hb => ne_nl_of_not_isWs (h.2 10 hb) rfl

/-! ### `split_ascii_whitespace` -/

theorem splitWs_ws_append (ws l : Bytes) (h : ∀ b ∈ ws, isWs b = true) :
    splitWs (ws ++ l) = splitWs l := by
  induction ws with
  | nil => rfl
  | cons b bs ih =>
    have hb : isWs b = true := h b (by simp)
    have ih' := ih (fun c hc => h c (by simp [hc]))
    simp only [List.cons_append]
    rw [splitWs.eq_def]
    simp only [hb, if_true]
    exact ih' 

theorem splitWs_tok_ws (t : Bytes) (w : UInt8) (l : Bytes) (hne : t ≠ [])
    (ht : ∀ b ∈ t, isWs b = false) (hw : isWs w = true) :
    splitWs (t ++ w :: l) = t :: splitWs (w :: l) := by
  induction t with
  | nil => exact absurd rfl hne
  | cons b t' ih =>
    have hb : isWs b = false := ht b (by simp)
    cases t' with
    | nil =>
      simp only [List.cons_append, List.nil_append]
      rw [splitWs]
      simp [hb, hw]
    | cons c t'' =>
      have hc : isWs c = false := ht c (by simp)
      have ih' := ih (by simp) (fun d hd => ht d (by simp [hd]))
      simp only [List.cons_append] at ih' ⊢
      rw [splitWs]
      simp only [hb, hc, Bool.false_eq_true, if_false]
      rw [ih']

theorem splitWs_nil : splitWs [] = [] := rfl

theorem splitWs_tok_only (t : Bytes) (hne : t ≠ []) (ht : ∀ b ∈ t, isWs b = false) :
    splitWs t = [t] := by
  induction t with
  | nil => exact absurd rfl hne
  | cons b t' ih =>
    have hb : isWs b = false := ht b (by simp)
    cases t' with
    | nil => rw [splitWs]; simp [hb]
    | cons c t'' =>
      have hc : isWs c = false := ht c (by simp)
      have ih' := ih (by simp) (fun d hd => ht d (by simp [hd]))
      rw [splitWs]
      simp only [hb, hc, Bool.false_eq_true, if_false]
      rw [ih']

/-- A token, a non-empty separator, then anything. -/
theorem splitWs_tok_sep (t s rest : Bytes) (ht : tokOk t) (hs : sepOk s) :
    splitWs (t ++ (s ++ rest)) = t :: splitWs rest := by
  obtain ⟨hsne, hsw⟩ := hs
  cases s with
  | nil => exact absurd rfl hsne
  | cons w s' =>
    have hw : isWs w = true := isWs_of_isHws (hsw w (by simp))
    simp only [List.cons_append]
    rw [splitWs_tok_ws t w _ ht.1 ht.2 hw]
    have : w :: (s' ++ rest) = (w :: s') ++ rest := rfl
    rw [this, splitWs_ws_append _ _ (hws_isWs hsw)]

/-- The last token of a line and its (possibly empty) trailing whitespace. -/
theorem splitWs_tok_trail (t s : Bytes) (ht : tokOk t) (hs : hws s) :
    splitWs (t ++ s) = [t] := by
  cases s with
  | nil => simp only [List.append_nil]; exact splitWs_tok_only t ht.1 ht.2
  | cons w s' =>
    have h := splitWs_tok_sep t (w :: s') [] ht ⟨by simp, hs⟩
    simp only [List.append_nil] at h
    rw [h, splitWs_nil]

/-- A line whose first non-blank character is not whitespace starts a token with it. -/
theorem splitWs_head (b : UInt8) (l : Bytes) (hb : isWs b = false) :
    ∃ t ts, splitWs (b :: l) = (b :: t) :: ts := by
  rw [splitWs.eq_def]
  simp only [hb, Bool.false_eq_true, if_false]
  cases l with
  | nil => exact ⟨[], [], rfl⟩
  | cons c l' =>
    simp only
    split
    · exact ⟨[], _, rfl⟩
    · split
      · exact ⟨_, _, rfl⟩
      · exact ⟨[], [], rfl⟩

/-! ### Lines -/

theorem splitLines_line (l rest : Bytes) (h : (10 : UInt8) ∉ l) :
    splitLines (l ++ 10 :: rest) = l :: splitLines rest := by
  induction l with
  | nil => simp [splitLines]
  | cons b bs ih =>
    have hb : b ≠ 10 := fun hb => h (by simp [hb])
    have ih' := ih (fun hc => h (by simp [hc]))
    simp only [List.cons_append]
    rw [splitLines]
    simp only [beq_iff_eq, hb, if_false]
    rw [ih']

theorem splitLines_last (l : Bytes) (h : (10 : UInt8) ∉ l) (hne : l ≠ []) :
    splitLines l = [l] := by
  induction l with
  | nil => exact absurd rfl hne
  | cons b bs ih =>
    have hb : b ≠ 10 := fun hb => h (by simp [hb])
    rw [splitLines]
    simp only [beq_iff_eq, hb, if_false]
    cases bs with
    | nil => simp [splitLines]
    | cons c cs =>
      rw [ih (fun hc => h (by simp [hc])) (by simp)]

/-! ### `split('/')` -/

theorem splitOn_nosep (sep : UInt8) (l : Bytes) (h : sep ∉ l) : splitOn sep l = [l] := by
  induction l with
  | nil => rfl
  | cons b bs ih =>
    have hb : b ≠ sep := fun hb => h (by simp [hb])
    rw [splitOn]
    simp only [beq_iff_eq, hb, if_false]
    rw [ih (fun hc => h (by simp [hc]))]

theorem splitOn_append (sep : UInt8) (l r : Bytes) (h : sep ∉ l) :
    splitOn sep (l ++ sep :: r) = l :: splitOn sep r := by
  induction l with
  | nil => simp [splitOn]
  | cons b bs ih =>
    have hb : b ≠ sep := fun hb => h (by simp [hb])
    simp only [List.cons_append]
    rw [splitOn]
    simp only [beq_iff_eq, hb, if_false]
    rw [ih (fun hc => h (by simp [hc]))]

/-! ### Decimal numbers -/

theorem digit_toNat (d : Nat) (h : d < 10) : (UInt8.ofNat (48 + d)).toNat = 48 + d := by
  rw [UInt8.toNat_ofNat']
  omega

theorem digit_isDigit (d : Nat) (h : d < 10) : isDigit (UInt8.ofNat (48 + d)) = true := by
  simp only [isDigit, digit_toNat d h, Bool.and_eq_true, decide_eq_true_eq]
  omega

theorem parseDigits_cons_digit (a d : Nat) (h : d < 10) (tail : Bytes) :
    parseDigits a (UInt8.ofNat (48 + d) :: tail) = parseDigits (a * 10 + d) tail := by
  rw [parseDigits, if_pos (digit_isDigit d h), digit_toNat d h]
  congr 1
  omega

theorem digitsAux_parse (f : Nat) : ∀ (n : Nat) (tail : Bytes), n < 10 ^ f →
    ∃ k, ∀ a, parseDigits a (digitsAux f n tail) = parseDigits (a * k + n) tail := by
  induction f with
  | zero =>
    intro n tail hn
    have : n = 0 := by simpa using hn
    subst this
    exact ⟨1, fun a => by simp [digitsAux]⟩
  | succ f ih =>
    intro n tail hn
    rw [digitsAux]
    split
    · rename_i h10
      exact ⟨10, fun a => parseDigits_cons_digit a n h10 tail⟩
    · have hdiv : n / 10 < 10 ^ f := by
        rw [Nat.div_lt_iff_lt_mul (by decide)]
        rw [Nat.pow_succ] at hn
        exact hn
      obtain ⟨k, hk⟩ := ih (n / 10) (UInt8.ofNat (48 + n % 10) :: tail) hdiv
      refine ⟨k * 10, fun a => ?_⟩
      rw [hk a, parseDigits_cons_digit _ _ (Nat.mod_lt _ (by decide))]
      congr 1
      have := Nat.div_add_mod n 10
      rw [Nat.add_mul, Nat.mul_assoc]
      omega

theorem digitsAux_all_digits (f : Nat) : ∀ (n : Nat) (tail : Bytes),
    ∀ b ∈ digitsAux f n tail, isDigit b = true ∨ b ∈ tail := by
  induction f with
  | zero => intro n tail b hb; right; simpa [digitsAux] using hb
  | succ f ih =>
    intro n tail b hb
    rw [digitsAux] at hb
    split at hb
    · rename_i h10
      simp only [List.mem_cons] at hb
      rcases hb with rfl | hb
      · left; exact digit_isDigit n h10
      · right; exact hb
    · rcases ih _ _ b hb with h | h
      · left; exact h
      · simp only [List.mem_cons] at h
        rcases h with rfl | h
        · left; exact digit_isDigit _ (Nat.mod_lt _ (by decide))
        · right; exact h

theorem digitsAux_succ_ne_nil (f : Nat) : ∀ (n : Nat) (tail : Bytes), digitsAux (f + 1) n tail ≠ [] := by
  induction f with
  | zero =>
    intro n tail
    rw [digitsAux]
    split
    · simp
    · simp [digitsAux]
  | succ f ih =>
    intro n tail
    rw [digitsAux]
    split
    · simp
    · exact ih _ _

theorem lt_ten_pow_succ (n : Nat) : n < 10 ^ (n + 1) := by
  have h1 : n < 10 ^ n := Nat.lt_pow_self (by decide)
  have h2 : 10 ^ n ≤ 10 ^ (n + 1) := Nat.pow_le_pow_right (by decide) (by omega)
  omega

theorem natDigits_parse (n : Nat) : parseDigits 0 (natDigits n) = some n := by
  obtain ⟨k, hk⟩ := digitsAux_parse (n + 1) n [] (lt_ten_pow_succ n)
  unfold natDigits
  rw [hk 0]
  simp [parseDigits]

theorem natDigits_all_digits (n : Nat) : ∀ b ∈ natDigits n, isDigit b = true := by
  intro b hb
  rcases digitsAux_all_digits (n + 1) n [] b hb with h | h
  · exact h
  · simp at h

theorem natDigits_ne_nil (n : Nat) : natDigits n ≠ [] := digitsAux_succ_ne_nil n n []

theorem isDigit_ne {b : UInt8} (h : isDigit b = true) (c : UInt8) (hc : c.toNat < 48) : b ≠ c := by
  intro hb; subst hb
  simp only [isDigit, Bool.and_eq_true, decide_eq_true_eq] at h
  omega

theorem isDigit_not_ws {b : UInt8} (h : isDigit b = true) : isWs b = false := by
  have h20 := isDigit_ne h 0x20 (by decide)
  have h09 := isDigit_ne h 0x09 (by decide)
  have h0a := isDigit_ne h 0x0A (by decide)
  have h0c := isDigit_ne h 0x0C (by decide)
  have h0d := isDigit_ne h 0x0D (by decide)
  simp [isWs, h20, h09, h0a, h0c, h0d]

theorem natDigits_no_slash (n : Nat) : (47 : UInt8) ∉ natDigits n :=
  fun h => isDigit_ne (natDigits_all_digits n 47 h) 47 (by decide) rfl

/-- `usize::from_str` reads back what was printed. -/
theorem parseUsize_natDigits (n : Nat) (h : n < usizeBound) : parseUsize (natDigits n) = some n := by
  have hne := natDigits_ne_nil n
  have hall := natDigits_all_digits n
  have hp := natDigits_parse n
  cases hd : natDigits n with
  | nil => exact absurd hd hne
  | cons b rest =>
    rw [hd] at hp hall
    have hb : b ≠ 43 := isDigit_ne (hall b (by simp)) 43 (by decide)
    unfold parseUsize stripPlus parseUnsigned
    simp only [beq_iff_eq, hb, if_false, hp, h, if_true]

/-- `parse_index` maps the printed one-based index back to the zero-based one. -/
theorem parseIndex_natDigits (i : Nat) (h : idxOk i) : parseIndex (natDigits (i + 1)) = .ok i := by
  unfold parseIndex
  rw [parseUsize_natDigits (i + 1) h]

end Retro.ObjSpec
