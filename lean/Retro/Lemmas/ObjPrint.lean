/-
C14 helper lemmas, part 3: the reader applied to a rendered document.
-/
import Retro.Model.Obj
import Retro.Spec.Obj
import Retro.Lemmas.Obj
import Retro.Lemmas.ObjLex

namespace Retro.ObjSpec
open Retro.Obj

/-! ### Face corners -/

theorem parseIndices_cornerText (c : Indices) (hp : idxOk c.pos)
    (ht : ∀ t, c.uv = some t → idxOk t) (hn : ∀ n, c.n = some n → idxOk n) :
    parseIndices (cornerText c) = .ok c := by
  obtain ⟨pos, uv, n⟩ := c
  simp only at hp ht hn
  have hs1 := natDigits_no_slash (pos + 1)
  have hi1 := parseIndex_natDigits pos hp
  cases uv with
  | none =>
    cases n with
    | none =>
      simp only [cornerText, parseIndices]
      rw [splitOn_nosep 47 _ hs1]
      simp only [hi1]
    | some n =>
      have hi3 := parseIndex_natDigits n (hn n rfl)
      simp only [cornerText, parseIndices]
      rw [splitOn_append 47 _ _ hs1]
      have : splitOn 47 (47 :: natDigits (n + 1)) = [] :: splitOn 47 (natDigits (n + 1)) := by
        rw [splitOn]; simp
      rw [this, splitOn_nosep 47 _ (natDigits_no_slash (n + 1))]
      simp only [hi1, hi3]
  | some t =>
    have hi2 := parseIndex_natDigits t (ht t rfl)
    have hne2 := natDigits_ne_nil (t + 1)
    cases n with
    | none =>
      simp only [cornerText, parseIndices]
      rw [splitOn_append 47 _ _ hs1, splitOn_nosep 47 _ (natDigits_no_slash (t + 1))]
      simp only [hi1]
      cases hd : natDigits (t + 1) with
      | nil => exact absurd hd hne2
      | cons b r => simp only [← hd, hi2]
    | some n =>
      have hi3 := parseIndex_natDigits n (hn n rfl)
      simp only [cornerText, parseIndices]
      rw [splitOn_append 47 _ _ hs1, splitOn_append 47 _ _ (natDigits_no_slash (t + 1)),
        splitOn_nosep 47 _ (natDigits_no_slash (n + 1))]
      simp only [hi1]
      cases hd : natDigits (t + 1) with
      | nil => exact absurd hd hne2
      | cons b r => simp only [← hd, hi2, hi3]

theorem natDigits_tokOk (n : Nat) : tokOk (natDigits n) :=
  ⟨natDigits_ne_nil n, fun b hb => isDigit_not_ws (natDigits_all_digits n b hb)⟩

theorem slash_not_ws : isWs 47 = false := by decide

theorem cornerText_tokOk (c : Indices) : tokOk (cornerText c) := by
  obtain ⟨pos, uv, n⟩ := c
  have h1 := natDigits_tokOk (pos + 1)
  constructor
  · cases uv <;> cases n <;> simp [cornerText, h1.1]
  · intro b hb
    cases uv <;> cases n <;>
      simp only [cornerText, List.mem_append, List.mem_cons] at hb
    · exact h1.2 b hb
    · rename_i n
      rcases hb with hb | rfl | rfl | hb
      · exact h1.2 b hb
      · exact slash_not_ws
      · exact slash_not_ws
      · exact (natDigits_tokOk (n + 1)).2 b hb
    · rename_i t
      rcases hb with hb | rfl | hb
      · exact h1.2 b hb
      · exact slash_not_ws
      · exact (natDigits_tokOk (t + 1)).2 b hb
    · rename_i t n
      rcases hb with hb | rfl | hb | rfl | hb
      · exact h1.2 b hb
      · exact slash_not_ws
      · exact (natDigits_tokOk (t + 1)).2 b hb
      · exact slash_not_ws
      · exact (natDigits_tokOk (n + 1)).2 b hb

/-! ### Lexing a whole item line -/

theorem lex3 (ws0 k sepK t1 s1 t2 s2 t3 s3 : Bytes) (h0 : hws ws0) (hk : tokOk k) (hsk : sepOk sepK)
    (ht1 : tokOk t1) (hs1 : sepOk s1) (ht2 : tokOk t2) (hs2 : sepOk s2) (ht3 : tokOk t3) (hs3 : hws s3) :
    splitWs (ws0 ++ (k ++ (sepK ++ ((t1 ++ s1) ++ ((t2 ++ s2) ++ (t3 ++ s3)))))) = [k, t1, t2, t3] := by
  rw [splitWs_ws_append _ _ (hws_isWs h0), splitWs_tok_sep _ _ _ hk hsk,
    List.append_assoc t1, splitWs_tok_sep _ _ _ ht1 hs1,
    List.append_assoc t2, splitWs_tok_sep _ _ _ ht2 hs2, splitWs_tok_trail _ _ ht3 hs3]

theorem lex2 (ws0 k sepK t1 s1 t2 s2 : Bytes) (h0 : hws ws0) (hk : tokOk k) (hsk : sepOk sepK)
    (ht1 : tokOk t1) (hs1 : sepOk s1) (ht2 : tokOk t2) (hs2 : hws s2) :
    splitWs (ws0 ++ (k ++ (sepK ++ ((t1 ++ s1) ++ (t2 ++ s2))))) = [k, t1, t2] := by
  rw [splitWs_ws_append _ _ (hws_isWs h0), splitWs_tok_sep _ _ _ hk hsk,
    List.append_assoc t1, splitWs_tok_sep _ _ _ ht1 hs1, splitWs_tok_trail _ _ ht2 hs2]

theorem tokOk_v : tokOk [118] := ⟨by simp, by intro b hb; simp at hb; subst hb; decide⟩
theorem tokOk_vt : tokOk [118, 116] :=
  ⟨by simp, by intro b hb; simp at hb; rcases hb with rfl | rfl <;> decide⟩
theorem tokOk_vn : tokOk [118, 110] :=
  ⟨by simp, by intro b hb; simp at hb; rcases hb with rfl | rfl <;> decide⟩
theorem tokOk_f : tokOk [102] := ⟨by simp, by intro b hb; simp at hb; subst hb; decide⟩

/-! ### One line: the reader performs exactly the item's abstract effect -/

/-- Abstract effect of an item on the reader state. -/
def applyItem (st : St) : Item → St
  | .blank _ => st
  | .comment _ _ => st
  | .vertex _ _ x y z => { st with verts := st.verts ++ [(x.val, y.val, z.val)] }
  | .texcoord _ _ u v => { st with texcs := st.texcs ++ [(u.val, v.val)] }
  | .normal _ _ x y z => { st with norms := st.norms ++ [(x.val, y.val, z.val)] }
  | .face _ _ a b c =>
    { st with
      maxI := maxIndices (maxIndices (maxIndices st.maxI a.idx) b.idx) c.idx
      faces := st.faces ++ [(a.idx, b.idx, c.idx)] }

theorem parseVector_ok (pf : Bytes → Option UInt32) (x y z : FloatTok)
    (hx : pf x.tok = some x.val) (hy : pf y.tok = some y.val) (hz : pf z.tok = some z.val) :
    parseVector pf [x.tok, y.tok, z.tok] = .ok (x.val, y.val, z.val) := by
  simp [parseVector, nextFloat, hx, hy, hz]

theorem parseTexcoord_ok (pf : Bytes → Option UInt32) (u v : FloatTok)
    (hu : pf u.tok = some u.val) (hv : pf v.tok = some v.val) :
    parseTexcoord pf [u.tok, v.tok] = .ok (u.val, v.val) := by
  simp [parseTexcoord, nextFloat, hu, hv]

theorem parseFace_ok (a b c : CornerTok) (ha : cornerOk false a) (hb : cornerOk false b)
    (hc : cornerOk true c) :
    parseFace [cornerText a.idx, cornerText b.idx, cornerText c.idx] = .ok (a.idx, b.idx, c.idx) := by
  have h1 := parseIndices_cornerText a.idx ha.1 ha.2.1 ha.2.2.1
  have h2 := parseIndices_cornerText b.idx hb.1 hb.2.1 hb.2.2.1
  have h3 := parseIndices_cornerText c.idx hc.1 hc.2.1 hc.2.2.1
  simp [parseFace, nextIndices, h1, h2, h3]

theorem stepLine_item (pf : Bytes → Option UInt32) (st : St) (it : Item) (h : itemOk pf it) :
    stepLine pf st (renderItem it) = .ok (.ok (applyItem st it)) := by
  cases it with
  | blank ws =>
    simp only [itemOk] at h
    have : splitWs ws = [] := by
      have := splitWs_ws_append ws [] (hws_isWs h)
      rw [List.append_nil] at this
      rw [this]; rfl
    simp [stepLine, renderItem, this, applyItem]
  | comment ws0 text =>
    simp only [itemOk] at h
    obtain ⟨t, ts, hsp⟩ := splitWs_head 35 text (by decide)
    have : splitWs (ws0 ++ 35 :: text) = (35 :: t) :: ts := by
      rw [splitWs_ws_append _ _ (hws_isWs h.1), hsp]
    simp only [stepLine, renderItem, this, applyItem]
    simp
  | vertex ws0 sepK x y z =>
    simp only [itemOk] at h
    obtain ⟨h0, hk, hx, hy, hz⟩ := h
    have := lex3 ws0 [118] sepK x.tok x.sep y.tok y.sep z.tok z.sep h0 tokOk_v hk hx.1
      ⟨hx.2.2.2 rfl, hx.2.2.1⟩ hy.1 ⟨hy.2.2.2 rfl, hy.2.2.1⟩ hz.1 hz.2.2.1
    simp only [List.singleton_append] at this
    simp only [stepLine, renderItem, renderFloat, this, applyItem]
    simp [parseVector_ok pf x y z hx.2.1 hy.2.1 hz.2.1]
  | texcoord ws0 sepK u v =>
    simp only [itemOk] at h
    obtain ⟨h0, hk, hu, hv⟩ := h
    have := lex2 ws0 [118, 116] sepK u.tok u.sep v.tok v.sep h0 tokOk_vt hk hu.1
      ⟨hu.2.2.2 rfl, hu.2.2.1⟩ hv.1 hv.2.2.1
    simp only [List.cons_append, List.nil_append] at this
    simp only [stepLine, renderItem, renderFloat, this, applyItem]
    simp [parseTexcoord_ok pf u v hu.2.1 hv.2.1]
  | normal ws0 sepK x y z =>
    simp only [itemOk] at h
    obtain ⟨h0, hk, hx, hy, hz⟩ := h
    have := lex3 ws0 [118, 110] sepK x.tok x.sep y.tok y.sep z.tok z.sep h0 tokOk_vn hk hx.1
      ⟨hx.2.2.2 rfl, hx.2.2.1⟩ hy.1 ⟨hy.2.2.2 rfl, hy.2.2.1⟩ hz.1 hz.2.2.1
    simp only [List.cons_append, List.nil_append] at this
    simp only [stepLine, renderItem, renderFloat, this, applyItem]
    simp [parseVector_ok pf x y z hx.2.1 hy.2.1 hz.2.1]
  | face ws0 sepK a b c =>
    simp only [itemOk] at h
    obtain ⟨h0, hk, ha, hb, hc⟩ := h
    have := lex3 ws0 [102] sepK (cornerText a.idx) a.sep (cornerText b.idx) b.sep
      (cornerText c.idx) c.sep h0 tokOk_f hk (cornerText_tokOk _)
      ⟨ha.2.2.2.2 rfl, ha.2.2.2.1⟩ (cornerText_tokOk _) ⟨hb.2.2.2.2 rfl, hb.2.2.2.1⟩
      (cornerText_tokOk _) hc.2.2.2.1
    simp only [List.singleton_append] at this
    simp only [stepLine, renderItem, renderCorner, this, applyItem]
    simp [parseFace_ok a b c ha hb hc]

/-! ### The loop over a rendered document -/

theorem foldLines_items (pf : Bytes → Option UInt32) (doc : List Item) :
    ∀ st, (∀ it ∈ doc, itemOk pf it) →
      foldLines pf st (doc.map renderItem) = .ok (.ok (doc.foldl applyItem st)) := by
  induction doc with
  | nil => intro st _; rfl
  | cons it rest ih =>
    intro st h
    simp only [List.map_cons, foldLines, List.foldl_cons]
    rw [stepLine_item pf st it (h it (by simp))]
    exact ih _ (fun j hj => h j (by simp [hj]))

theorem item_no_nl (pf : Bytes → Option UInt32) (it : Item) (h : itemOk pf it) :
    (10 : UInt8) ∉ renderItem it := by
  have kw : ∀ b : UInt8, b ∈ ([118, 116, 110, 102, 35] : List UInt8) → b ≠ 10 := by decide
  cases it with
  | blank ws => exact hws_no_nl h
  | comment ws0 text =>
    simp only [itemOk] at h
    simp only [renderItem, List.mem_append, List.mem_cons, not_or]
    exact ⟨hws_no_nl h.1, by decide, h.2⟩
  | vertex ws0 sepK x y z =>
    simp only [itemOk] at h
    obtain ⟨h0, hk, hx, hy, hz⟩ := h
    simp only [renderItem, renderFloat, List.mem_append, List.mem_cons, not_or]
    exact ⟨hws_no_nl h0, by decide, hws_no_nl hk.2, ⟨tok_no_nl hx.1, hws_no_nl hx.2.2.1⟩,
      ⟨tok_no_nl hy.1, hws_no_nl hy.2.2.1⟩, tok_no_nl hz.1, hws_no_nl hz.2.2.1⟩
  | texcoord ws0 sepK u v =>
    simp only [itemOk] at h
    obtain ⟨h0, hk, hu, hv⟩ := h
    simp only [renderItem, renderFloat, List.mem_append, List.mem_cons, not_or]
    exact ⟨hws_no_nl h0, by decide, by decide, hws_no_nl hk.2, ⟨tok_no_nl hu.1, hws_no_nl hu.2.2.1⟩,
      tok_no_nl hv.1, hws_no_nl hv.2.2.1⟩
  | normal ws0 sepK x y z =>
    simp only [itemOk] at h
    obtain ⟨h0, hk, hx, hy, hz⟩ := h
    simp only [renderItem, renderFloat, List.mem_append, List.mem_cons, not_or]
    exact ⟨hws_no_nl h0, by decide, by decide, hws_no_nl hk.2, ⟨tok_no_nl hx.1, hws_no_nl hx.2.2.1⟩,
      ⟨tok_no_nl hy.1, hws_no_nl hy.2.2.1⟩, tok_no_nl hz.1, hws_no_nl hz.2.2.1⟩
  | face ws0 sepK a b c =>
    simp only [itemOk] at h
    obtain ⟨h0, hk, ha, hb, hc⟩ := h
    simp only [renderItem, renderCorner, List.mem_append, List.mem_cons, not_or]
    exact ⟨hws_no_nl h0, by decide, hws_no_nl hk.2,
      ⟨tok_no_nl (cornerText_tokOk _), hws_no_nl ha.2.2.2.1⟩,
      ⟨tok_no_nl (cornerText_tokOk _), hws_no_nl hb.2.2.2.1⟩,
      tok_no_nl (cornerText_tokOk _), hws_no_nl hc.2.2.2.1⟩

theorem splitLines_renderDocNl (pf : Bytes → Option UInt32) (doc : List Item)
    (h : ∀ it ∈ doc, itemOk pf it) : splitLines (renderDocNl doc) = doc.map renderItem := by
  induction doc with
  | nil => rfl
  | cons it rest ih =>
    simp only [renderDocNl, List.map_cons]
    rw [splitLines_line _ _ (item_no_nl pf it (h it (by simp))), ih (fun j hj => h j (by simp [hj]))]

theorem stepLine_nil (pf : Bytes → Option UInt32) (st : St) : stepLine pf st [] = .ok (.ok st) := by
  simp [stepLine, splitWs]

theorem foldLines_renderDoc (pf : Bytes → Option UInt32) (doc : List Item) :
    ∀ st, (∀ it ∈ doc, itemOk pf it) →
      foldLines pf st (splitLines (renderDoc doc)) = .ok (.ok (doc.foldl applyItem st)) := by
  induction doc with
  | nil => intro st _; rfl
  | cons it rest ih =>
    intro st h
    have hit := h it (by simp)
    have hstep := stepLine_item pf st it hit
    cases rest with
    | nil =>
      simp only [renderDoc, List.foldl_cons, List.foldl_nil]
      by_cases hne : renderItem it = []
      · -- an empty last line is not even iterated over; it has no effect anyway
        rw [hne] at hstep ⊢
        rw [stepLine_nil] at hstep
        simp only [splitLines, foldLines]
        exact hstep
      · rw [splitLines_last _ (item_no_nl pf it hit) hne]
        simp only [foldLines, hstep]
    | cons it2 rest2 =>
      simp only [renderDoc, List.foldl_cons]
      rw [splitLines_line _ _ (item_no_nl pf it hit)]
      simp only [foldLines, hstep]
      have := ih (applyItem st it) (fun j hj => h j (by simp [hj]))
      simp only [List.foldl_cons] at this
      exact this

/-! ### The final state -/

def docFacesI : List Item → List Face
  | [] => []
  | .face _ _ a b c :: rest => (a.idx, b.idx, c.idx) :: docFacesI rest
  | _ :: rest => docFacesI rest

theorem docFaces_eq (doc : List Item) : docFaces doc = (docFacesI doc).map facePos := by
  induction doc with
  | nil => rfl
  | cons it rest ih => cases it <;> simp [docFaces, docFacesI, ih, facePos]

theorem foldl_verts (doc : List Item) : ∀ st,
    (doc.foldl applyItem st).verts = st.verts ++ docVerts doc := by
  induction doc with
  | nil => intro st; simp [docVerts]
  | cons it rest ih => intro st; cases it <;> simp [List.foldl_cons, applyItem, docVerts, ih]

theorem foldl_faces (doc : List Item) : ∀ st,
    (doc.foldl applyItem st).faces = st.faces ++ docFacesI doc := by
  induction doc with
  | nil => intro st; simp [docFacesI]
  | cons it rest ih => intro st; cases it <;> simp [List.foldl_cons, applyItem, docFacesI, ih]

theorem foldl_texcs (doc : List Item) : ∀ st,
    (doc.foldl applyItem st).texcs.length = st.texcs.length + docTexCount doc := by
  induction doc with
  | nil => intro st; simp [docTexCount]
  | cons it rest ih =>
    intro st; cases it <;> simp [List.foldl_cons, applyItem, docTexCount, ih] <;> omega

theorem foldl_norms (doc : List Item) : ∀ st,
    (doc.foldl applyItem st).norms.length = st.norms.length + docNormCount doc := by
  induction doc with
  | nil => intro st; simp [docNormCount]
  | cons it rest ih =>
    intro st; cases it <;> simp [List.foldl_cons, applyItem, docNormCount, ih] <;> omega

/-- Bounds on the running maxima, for fixed final counts. -/
def MaxOk (nv nt nn : Nat) (st : St) : Prop :=
  (st.maxI.pos < nv ∨ (st.faces = [] ∧ st.maxI.pos = 0)) ∧
  (∀ t, st.maxI.uv = some t → t < nt) ∧ (∀ n, st.maxI.n = some n → n < nn)

theorem optMax_lt {m : Option Nat} {i : Option Nat} {k : Nat}
    (hm : ∀ t, m = some t → t < k) (hi : ∀ t, i = some t → t < k) :
    ∀ t, optMax m i = some t → t < k := by
  intro t ht
  cases m with
  | none => simp [optMax] at ht; exact hi t ht
  | some a =>
    cases i with
    | none => simp [optMax] at ht; subst ht; exact hm a rfl
    | some b =>
      simp [optMax] at ht; subst ht
      have := hm a rfl; have := hi b rfl
      omega

theorem maxOk_step (nv nt nn : Nat) (st : St) (it : Item) (h : MaxOk nv nt nn st)
    (hr : itemInRange nv nt nn it) : MaxOk nv nt nn (applyItem st it) := by
  cases it with
  | blank _ => exact h
  | comment _ _ => exact h
  | vertex _ _ x y z => exact h
  | texcoord _ _ u v => exact h
  | normal _ _ x y z => exact h
  | face ws0 sepK a b c =>
    obtain ⟨ha, hb, hc⟩ := hr
    obtain ⟨h1, h2, h3⟩ := h
    refine ⟨Or.inl ?_, ?_, ?_⟩
    · simp only [applyItem, maxIndices]
      have := ha.1; have := hb.1; have := hc.1
      rcases h1 with h1 | ⟨_, h1⟩ <;> omega
    · simp only [applyItem, maxIndices]
      exact optMax_lt (optMax_lt (optMax_lt h2 ha.2.1) hb.2.1) hc.2.1
    · simp only [applyItem, maxIndices]
      exact optMax_lt (optMax_lt (optMax_lt h3 ha.2.2) hb.2.2) hc.2.2

theorem maxOk_foldl (nv nt nn : Nat) (doc : List Item) : ∀ st, MaxOk nv nt nn st →
    (∀ it ∈ doc, itemInRange nv nt nn it) → MaxOk nv nt nn (doc.foldl applyItem st) := by
  induction doc with
  | nil => intro st h _; exact h
  | cons it rest ih =>
    intro st h hr
    exact ih _ (maxOk_step nv nt nn st it h (hr it (by simp))) (fun j hj => hr j (by simp [hj]))

theorem docFacesI_inRange (nv nt nn : Nat) (doc : List Item)
    (hr : ∀ it ∈ doc, itemInRange nv nt nn it) :
    ∀ f ∈ docFacesI doc, f.1.pos < nv ∧ f.2.1.pos < nv ∧ f.2.2.pos < nv := by
  induction doc with
  | nil => intro f hf; simp [docFacesI] at hf
  | cons it rest ih =>
    intro f hf
    have ih' := ih (fun j hj => hr j (by simp [hj]))
    cases it with
    | face ws0 sepK a b c =>
      simp only [docFacesI, List.mem_cons] at hf
      rcases hf with rfl | hf
      · obtain ⟨ha, hb, hc⟩ := hr _ (List.mem_cons_self)
        exact ⟨ha.1, hb.1, hc.1⟩
      · exact ih' f hf
    | blank _ => exact ih' f hf
    | comment _ _ => exact ih' f hf
    | vertex _ _ _ _ _ => exact ih' f hf
    | texcoord _ _ _ _ => exact ih' f hf
    | normal _ _ _ _ _ => exact ih' f hf

/-- The deferred checks pass and `Mesh::new` accepts: the result is the listed mesh. -/
theorem finish_doc (pf : Bytes → Option UInt32) (doc : List Item) (h : docOk pf doc) :
    finish (doc.foldl applyItem {}) = .ok (.ok { faces := docFaces doc, verts := docVerts doc }) := by
  obtain ⟨_, hr⟩ := h
  have hv := foldl_verts doc {}
  have hf := foldl_faces doc {}
  have ht := foldl_texcs doc {}
  have hn := foldl_norms doc {}
  simp only [List.nil_append, List.length_nil, Nat.zero_add] at hv hf ht hn
  have hm := maxOk_foldl (docVerts doc).length (docTexCount doc) (docNormCount doc) doc {}
    ⟨Or.inr ⟨rfl, rfl⟩, by intro t h; simp at h, by intro t h; simp at h⟩ hr
  obtain ⟨hm1, hm2, hm3⟩ := hm
  have hrange := docFacesI_inRange _ _ _ doc hr
  unfold finish
  rw [hv, hf, ht, hn]
  have hc1 : ¬ ((!(docFacesI doc).isEmpty && decide ((List.foldl applyItem {} doc).maxI.pos ≥ (docVerts doc).length)) = true) := by
    rcases hm1 with h1 | ⟨h1, _⟩
    · simp; intro _; omega
    · rw [hf] at h1; simp [h1]
  rw [if_neg hc1]
  have hc2 : Option.filter (fun i => decide (i ≥ docTexCount doc)) (List.foldl applyItem {} doc).maxI.uv = none := by
    cases hu : (List.foldl applyItem {} doc).maxI.uv with
    | none => rfl
    | some t => have := hm2 t hu; simp [Option.filter]; omega
  have hc3 : Option.filter (fun i => decide (i ≥ docNormCount doc)) (List.foldl applyItem {} doc).maxI.n = none := by
    cases hu : (List.foldl applyItem {} doc).maxI.n with
    | none => rfl
    | some t => have := hm3 t hu; simp [Option.filter]; omega
  simp only [hc2, hc3]
  have hall : ((docFacesI doc).map facePos).all (faceInRange (docVerts doc).length) = true := by
    rw [List.all_eq_true]
    intro p hp
    rw [List.mem_map] at hp
    obtain ⟨f, hf', rfl⟩ := hp
    rw [faceInRange_iff]
    exact hrange f hf'
  simp only [meshNew, hall, if_true, docFaces_eq]

end Retro.ObjSpec
