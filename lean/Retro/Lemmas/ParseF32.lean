/-
C14 helper: the float-token parser model `Retro.ParseF32.parseF32` on a printed decimal literal.
-/
import Retro.Model.ParseF32
import Retro.Spec.Decimal

namespace Retro.ParseF32
open Retro.Decimal

theorem digit_toNat (d : Nat) (h : d < 10) : (UInt8.ofNat (48 + d)).toNat = 48 + d := by
  rw [UInt8.toNat_ofNat']; omega

theorem digit_isDigit (d : Nat) (h : d < 10) : isDigit (UInt8.ofNat (48 + d)) = true := by
  simp only [isDigit, digit_toNat d h, Bool.and_eq_true, decide_eq_true_eq]; omega

/-- First character of the remainder is not a digit (or there is no remainder). -/
def stops (rest : Bytes) : Prop := ∀ b r, rest = b :: r → isDigit b = false

theorem stops_nil : stops [] := by intro b r h; simp at h
theorem stops_cons (b : UInt8) (r : Bytes) (h : isDigit b = false) : stops (b :: r) := by
  intro b' r' h'; simp at h'; rw [← h'.1]; exact h

theorem takeDigits_digs (ds : List Nat) (hd : allDigits ds) (rest : Bytes) (hr : stops rest) :
    ∀ acc cnt, takeDigits acc cnt (digs ds ++ rest) = (digitsVal acc ds, cnt + ds.length, rest) := by
  induction ds with
  | nil =>
    intro acc cnt
    simp only [digs, List.map_nil, List.nil_append, digitsVal, List.foldl_nil, List.length_nil, Nat.add_zero]
    cases rest with
    | nil => rfl
    | cons b r => rw [takeDigits, if_neg (by rw [hr b r rfl]; simp)]
  | cons d ds ih =>
    intro acc cnt
    have hd10 : d < 10 := hd d (by simp)
    have ih' := ih (fun e he => hd e (by simp [he]))
    simp only [digs, List.map_cons, List.cons_append] at ih' ⊢
    rw [takeDigits, if_pos (digit_isDigit d hd10), digit_toNat d hd10]
    rw [show 48 + d - 48 = d by omega]
    rw [ih']
    simp only [digitsVal, List.foldl_cons, List.length_cons]
    congr 2
    omega

theorem not_digit_dot : isDigit 46 = false := by decide
theorem not_digit_e : isDigit 101 = false := by decide
theorem not_digit_E : isDigit 69 = false := by decide

theorem expText_stops (e : Option ExpPart) : stops (expText e) := by
  cases e with
  | none => exact stops_nil
  | some e =>
    simp only [expText]
    by_cases hu : e.upper = true
    · rw [if_pos hu]; exact stops_cons _ _ not_digit_E
    · rw [if_neg hu]; exact stops_cons _ _ not_digit_e

theorem parseExp_text (s : Option Bool) (ds : List Nat) (hd : allDigits ds) (hne : ds ≠ []) :
    parseExp (signText s ++ digs ds) =
      some (if s = some true then -(digitsVal 0 ds : Int) else (digitsVal 0 ds : Int), []) := by
  have htd := takeDigits_digs ds hd [] stops_nil 0 0
  simp only [List.append_nil, Nat.zero_add] at htd
  have hlen : (ds.length == 0) = false := by
    cases ds with
    | nil => exact absurd rfl hne
    | cons _ _ => rfl
  cases s with
  | none =>
    simp only [signText, List.nil_append]
    unfold parseExp
    cases hds : digs ds with
    | nil =>
      cases ds with
      | nil => exact absurd rfl hne
      | cons d ds' => simp [digs] at hds
    | cons b r =>
      -- the first digit is neither '-' nor '+'
      have hb : isDigit b = true := by
        cases ds with
        | nil => exact absurd rfl hne
        | cons d ds' =>
          simp only [digs, List.map_cons, List.cons.injEq] at hds
          rw [← hds.1]; exact digit_isDigit d (hd d (by simp))
      have h45 : (b == 45) = false := by
        cases h : b == 45 with
        | false => rfl
        | true => have := eq_of_beq h; subst this; revert hb; decide
      have h43 : (b == 43) = false := by
        cases h : b == 43 with
        | false => rfl
        | true => have := eq_of_beq h; subst this; revert hb; decide
      simp only [h45, h43, Bool.false_eq_true, if_false]
      rw [← hds, htd]
      simp [hlen]
  | some sg =>
    cases sg with
    | false =>
      simp only [signText, List.cons_append, List.nil_append]
      unfold parseExp
      simp only [show ((43 : UInt8) == 45) = false by decide, show ((43 : UInt8) == 43) = true by decide,
        Bool.false_eq_true, if_false, if_true]
      rw [htd]
      simp [hlen]
    | true =>
      simp only [signText, List.cons_append, List.nil_append]
      unfold parseExp
      simp only [show ((45 : UInt8) == 45) = true by decide, if_true]
      rw [htd]
      simp [hlen]

theorem digitsVal_append (acc : Nat) (a b : List Nat) :
    digitsVal (digitsVal acc a) b = digitsVal acc (a ++ b) := by
  simp [digitsVal, List.foldl_append]

theorem parseNumber_text (l : Literal) (h : wf l) :
    parseNumber (digs l.ip ++ (fracText l ++ expText l.exp)) = some (mantissa l, exponent l) := by
  obtain ⟨hip, hfp, hpos, hdot, hexp⟩ := h
  have hstop1 : stops (fracText l ++ expText l.exp) := by
    unfold fracText
    cases l.dot
    · simp only [Bool.false_eq_true, if_false, List.nil_append]; exact expText_stops _
    · simp only [if_true, List.cons_append]; exact stops_cons _ _ not_digit_dot
  have h1 := takeDigits_digs l.ip hip _ hstop1 0 0
  have h2 := takeDigits_digs l.fp hfp _ (expText_stops l.exp) (digitsVal 0 l.ip) 0
  simp only [Nat.zero_add] at h1 h2
  have hfrac : takeFraction (digitsVal 0 l.ip) (fracText l ++ expText l.exp) =
      (mantissa l, l.fp.length, expText l.exp) := by
    unfold takeFraction fracText mantissa
    cases hd : l.dot with
    | true =>
      simp only [if_true, List.cons_append, beq_self_eq_true]
      rw [h2, digitsVal_append]
    | false =>
      have hfp0 := hdot hd
      simp only [Bool.false_eq_true, if_false, List.nil_append, hfp0, List.length_nil, List.append_nil]
      cases he : l.exp with
      | none => simp [expText]
      | some e =>
        simp only [expText]
        cases e.upper <;> simp
  have hcnt : (l.ip.length + l.fp.length == 0) = false := by
    cases hc : l.ip.length + l.fp.length with
    | zero => omega
    | succ n => rfl
  have htail : parseTail (mantissa l) l.ip.length l.fp.length (expText l.exp) =
      some (mantissa l, exponent l) := by
    unfold parseTail exponent
    rw [hcnt]
    simp only [Bool.false_eq_true, if_false]
    cases he : l.exp with
    | none => simp [expText, expVal]
    | some e =>
      obtain ⟨hed, hene⟩ := hexp e he
      have hpe := parseExp_text e.sign e.digits hed hene
      simp only [expText, expVal]
      by_cases hu : e.upper = true
      · rw [if_pos hu]; simp only [hpe]; simp
      · rw [if_neg hu]; simp only [hpe]; simp
  unfold parseNumber
  rw [h1]
  simp only [hfrac, htail]

/-- The characters a literal can start with after its sign. -/
theorem body_ne_nil (l : Literal) (h : wf l) : digs l.ip ++ (fracText l ++ expText l.exp) ≠ [] := by
  obtain ⟨_, _, hpos, hdot, _⟩ := h
  cases hip : l.ip with
  | cons d ds => simp [digs]
  | nil =>
    have : l.dot = true := by
      cases hd : l.dot with
      | true => rfl
      | false => have := hdot hd; rw [hip, this] at hpos; simp at hpos
    simp [digs, fracText, this]

theorem body_head (l : Literal) (h : wf l) :
    ∃ b r, digs l.ip ++ (fracText l ++ expText l.exp) = b :: r ∧ b ≠ 45 ∧ b ≠ 43 := by
  obtain ⟨hipd, _, hpos, hdot, _⟩ := h
  cases hip : l.ip with
  | cons d ds =>
    refine ⟨UInt8.ofNat (48 + d), digs ds ++ (fracText l ++ expText l.exp),
      by simp only [digs, List.map_cons, List.cons_append], ?_, ?_⟩ <;>
    · have hd := digit_isDigit d (hipd d (by rw [hip]; simp))
      intro hb; rw [hb] at hd; revert hd; decide
  | nil =>
    have : l.dot = true := by
      cases hd : l.dot with
      | true => rfl
      | false => have := hdot hd; rw [hip, this] at hpos; simp at hpos
    exact ⟨46, digs l.fp ++ expText l.exp,
      by simp only [digs, List.map_nil, List.nil_append, fracText, this, if_true, List.cons_append],
      by decide, by decide⟩

/-- `f32::from_str` model on a printed literal: the sign bit and the correctly rounded magnitude
of `mantissa · 10^exponent`. -/
theorem parseF32_text (l : Literal) (h : wf l) :
    parseF32 (text l) =
      some (encodeMag (mantissa l) (exponent l) ||| (if l.sign = some true then 0x80000000 else 0)) := by
  have hnum := parseNumber_text l h
  obtain ⟨b, r, hbr, h45, h43⟩ := body_head l h
  unfold text
  cases hs : l.sign with
  | none =>
    simp only [signText, List.nil_append]
    rw [hbr] at hnum ⊢
    unfold parseF32
    simp only [beq_iff_eq, h45, h43, Bool.or_eq_true, decide_eq_true_eq, or_self, if_false, hnum]
    simp
  | some sg =>
    cases sg with
    | false =>
      simp only [signText, List.cons_append, List.nil_append]
      rw [hbr] at hnum ⊢
      unfold parseF32
      simp only [show ((43 : UInt8) == 45) = false by decide, show ((43 : UInt8) == 43) = true by decide,
        Bool.false_or, if_true, hnum]
      simp
    | true =>
      simp only [signText, List.cons_append, List.nil_append]
      rw [hbr] at hnum ⊢
      unfold parseF32
      simp only [show ((45 : UInt8) == 45) = true by decide, Bool.true_or, if_true, hnum]

end Retro.ParseF32

namespace Retro.ParseF32
open Retro.Decimal

/-- Characters of a literal: digits, sign, point, exponent marker – never whitespace. -/
def litChar (b : UInt8) : Prop := isDigit b = true ∨ b = 43 ∨ b = 45 ∨ b = 46 ∨ b = 69 ∨ b = 101

theorem digs_litChar (ds : List Nat) (hd : allDigits ds) : ∀ b ∈ digs ds, litChar b := by
  intro b hb
  simp only [digs, List.mem_map] at hb
  obtain ⟨d, hd', rfl⟩ := hb
  exact Or.inl (digit_isDigit d (hd d hd'))

theorem signText_litChar (s : Option Bool) : ∀ b ∈ signText s, litChar b := by
  intro b hb
  cases s with
  | none => simp [signText] at hb
  | some sg =>
    cases sg <;> simp [signText] at hb <;> subst hb
    · exact Or.inr (Or.inl rfl)
    · exact Or.inr (Or.inr (Or.inl rfl))

theorem text_litChar (l : Literal) (h : wf l) : ∀ b ∈ text l, litChar b := by
  obtain ⟨hip, hfp, _, _, hexp⟩ := h
  intro b hb
  simp only [text, List.mem_append] at hb
  rcases hb with hb | hb | hb | hb
  · exact signText_litChar _ b hb
  · exact digs_litChar _ hip b hb
  · unfold fracText at hb
    split at hb
    · simp only [List.mem_cons] at hb
      rcases hb with rfl | hb
      · exact Or.inr (Or.inr (Or.inr (Or.inl rfl)))
      · exact digs_litChar _ hfp b hb
    · simp at hb
  · cases he : l.exp with
    | none => rw [he] at hb; simp [expText] at hb
    | some e =>
      rw [he] at hb
      simp only [expText, List.mem_cons, List.mem_append] at hb
      rcases hb with rfl | hb | hb
      · by_cases hu : e.upper = true
        · rw [if_pos hu]; exact Or.inr (Or.inr (Or.inr (Or.inr (Or.inl rfl))))
        · rw [if_neg hu]; exact Or.inr (Or.inr (Or.inr (Or.inr (Or.inr rfl))))
      · exact signText_litChar _ b hb
      · exact digs_litChar _ (hexp e he).1 b hb

end Retro.ParseF32
