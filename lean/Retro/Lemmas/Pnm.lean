/-
Helper lemmas about `Retro.Model.Pnm`: the tokenizer `parse_num` on well-formed layouts, decimal
printing/parsing, pixel byte grouping.
-/
import Retro.Model.Pnm
import Retro.Lemmas.Buf
import Mathlib.Tactic.Linarith
import Mathlib.Tactic.SplitIfs

namespace Retro.Pnm
open Retro

/-! ### Byte classes -/

/-- A byte that `parse_num` keeps inside a token (in the no-comment state): not `#`, not ASCII whitespace. -/
def TokenChar (b : UInt8) : Prop := wsOrComment false b = (false, false)

instance (b : UInt8) : Decidable (TokenChar b) := by unfold TokenChar; infer_instance

/-- A byte that ends a token: `#` or ASCII whitespace. -/
def Delim (b : UInt8) : Prop := (wsOrComment false b).1 = true

instance (b : UInt8) : Decidable (Delim b) := by unfold Delim; infer_instance

theorem tokenChar_or_delim (b : UInt8) : TokenChar b ∨ Delim b := by
  unfold TokenChar Delim wsOrComment
  split_ifs <;> simp

theorem isWs_delim {b : UInt8} (h : isWs b = true) : wsOrComment false b = (true, false) := by
  have h35 : (b == 35) = false := by
    cases hb : (b == 35)
    · rfl
    · have : b = 35 := by simpa using hb
      subst this; revert h; decide
  unfold wsOrComment
  rw [h35]
  by_cases h10 : (b == 10) = true
  · simp [h10]
  · simp [h10, h]

theorem digit_facts : ∀ d, d < 10 →
    isDigit (UInt8.ofNat (48 + d)) = true ∧ (UInt8.ofNat (48 + d)).toNat - 48 = d ∧
    TokenChar (UInt8.ofNat (48 + d)) ∧ (UInt8.ofNat (48 + d) == 43) = false := by decide

/-! ### Tokenizer -/

theorem skipWs_ws {b : UInt8} (h : isWs b = true) (l : List UInt8) : skipWs false (b :: l) = skipWs false l := by
  simp [skipWs, isWs_delim h]

theorem skipWs_token {b : UInt8} (h : TokenChar b) (st : Bool) (l : List UInt8) (hst : st = false) :
    skipWs st (b :: l) = b :: l := by
  subst hst
  unfold TokenChar at h
  simp [skipWs, h]

/-- Inside a comment everything up to and including the next `\n` is skipped. -/
theorem skipWs_comment (c : List UInt8) (hc : ∀ x ∈ c, x ≠ 10) (l : List UInt8) :
    skipWs true (c ++ 10 :: l) = skipWs false l := by
  induction c with
  | nil => simp [skipWs, wsOrComment]
  | cons x xs ih =>
    have hx : x ≠ 10 := hc x (by simp)
    have hx' : (x == 10) = false := by simpa using hx
    have : wsOrComment true x = (true, true) := by
      unfold wsOrComment
      by_cases h35 : (x == 35) = true
      · simp [h35]
      · simp [h35, hx']
    simp only [List.cons_append, skipWs, this, if_true]
    exact ih (fun y hy => hc y (by simp [hy]))

/-- `(whitespace | '#' … '\n')*`: what may stand between header fields and between text samples
(after the single delimiter byte that ends the previous token). -/
inductive Gap : List UInt8 → Prop
  | nil : Gap []
  | ws {b : UInt8} {l : List UInt8} : isWs b = true → Gap l → Gap (b :: l)
  | comment {c l : List UInt8} : (∀ x ∈ c, x ≠ 10) → Gap l → Gap (35 :: (c ++ 10 :: l))

theorem skipWs_gap {g : List UInt8} (hg : Gap g) (l : List UInt8) : skipWs false (g ++ l) = skipWs false l := by
  induction hg with
  | nil => rfl
  | ws hb _ ih => rw [List.cons_append, skipWs_ws hb, ih]
  | @comment c l' hc _ ih =>
    have : wsOrComment false 35 = (true, true) := by decide
    simp only [List.cons_append, skipWs, this, if_true, List.append_assoc]
    rw [skipWs_comment c hc, ih]

theorem takeToken_chars (ds : List UInt8) (hds : ∀ b ∈ ds, TokenChar b) (d : UInt8) (hd : Delim d) (rest : List UInt8) :
    takeToken false (ds ++ d :: rest) = (ds, rest) := by
  induction ds with
  | nil => unfold Delim at hd; simp [takeToken, hd]
  | cons b bs ih =>
    have hb : wsOrComment false b = (false, false) := hds b (by simp)
    have := ih (fun x hx => hds x (by simp [hx]))
    simp [takeToken, hb, this]

theorem takeToken_eof (ds : List UInt8) (hds : ∀ b ∈ ds, TokenChar b) : takeToken false ds = (ds, []) := by
  induction ds with
  | nil => rfl
  | cons b bs ih =>
    have hb : wsOrComment false b = (false, false) := hds b (by simp)
    have := ih (fun x hx => hds x (by simp [hx]))
    simp [takeToken, hb, this]

/-- **One field.** A gap, a non-empty token, one delimiter byte: `parse_num` returns the token's
value and leaves exactly what follows the delimiter. -/
theorem parseNum_item (M : Nat) {g : List UInt8} (hg : Gap g) (ds : List UInt8) (hne : ds ≠ [])
    (hds : ∀ b ∈ ds, TokenChar b) (d : UInt8) (hd : Delim d) (rest : List UInt8) :
    parseNum M (g ++ ds ++ d :: rest) = (parseUnsigned M ds, rest) := by
  obtain ⟨b, bs, rfl⟩ := List.exists_cons_of_ne_nil hne
  have hb : TokenChar b := hds b (by simp)
  unfold parseNum
  rw [List.append_assoc, skipWs_gap hg, List.cons_append, skipWs_token hb false _ rfl,
    ← List.cons_append, takeToken_chars _ hds d hd rest]

/-- The same at the end of the input (no delimiter after the last token). -/
theorem parseNum_item_eof (M : Nat) {g : List UInt8} (hg : Gap g) (ds : List UInt8) (hne : ds ≠ [])
    (hds : ∀ b ∈ ds, TokenChar b) : parseNum M (g ++ ds) = (parseUnsigned M ds, []) := by
  obtain ⟨b, bs, rfl⟩ := List.exists_cons_of_ne_nil hne
  have hb : TokenChar b := hds b (by simp)
  unfold parseNum
  rw [skipWs_gap hg, skipWs_token hb false _ rfl, takeToken_eof _ hds]

/-! ### Decimal printing and parsing -/

theorem digitsValue_append (l1 l2 : List UInt8) (acc : Nat) :
    digitsValue (l1 ++ l2) acc = (digitsValue l1 acc).bind (digitsValue l2) := by
  induction l1 generalizing acc with
  | nil => rfl
  | cons b bs ih =>
    simp only [List.cons_append, digitsValue]
    split_ifs
    · exact ih _
    · rfl

/-- `format!("{n}")` consists of digits, is not empty, does not start with `+`, and reads back as `n`. -/
theorem decimal_spec (n : Nat) :
    (∀ b ∈ decimal n, TokenChar b ∧ isDigit b = true) ∧ decimal n ≠ [] ∧
    (∀ b rest, decimal n = b :: rest → (b == 43) = false) ∧ digitsValue (decimal n) 0 = some n := by
  induction n using Nat.strongRecOn with
  | _ n ih =>
    rw [decimal]
    by_cases hlt : n < 10
    · obtain ⟨f1, f2, f3, f4⟩ := digit_facts n hlt
      simp only [hlt, if_true]
      refine ⟨?_, by simp, ?_, ?_⟩
      · intro b hb; rw [List.mem_singleton] at hb; subst hb; exact ⟨f3, f1⟩
      · intro b rest h; injection h with h1 _; rw [← h1]; exact f4
      · simp only [digitsValue, f1, if_true, f2, Nat.zero_mul, Nat.zero_add]
    · obtain ⟨i1, i2, i3, i4⟩ := ih (n / 10) (by omega)
      obtain ⟨f1, f2, f3, f4⟩ := digit_facts (n % 10) (Nat.mod_lt _ (by omega))
      simp only [hlt, if_false]
      refine ⟨?_, by simp, ?_, ?_⟩
      · intro b hb
        rcases List.mem_append.mp hb with h | h
        · exact i1 b h
        · rw [List.mem_singleton] at h; subst h; exact ⟨f3, f1⟩
      · intro b rest h
        obtain ⟨b', r', hr⟩ := List.exists_cons_of_ne_nil i2
        rw [hr, List.cons_append] at h
        simp only [List.cons.injEq] at h
        rw [← h.1]; exact i3 b' r' hr
      · rw [digitsValue_append, i4]
        simp only [Option.bind_some, digitsValue, f1, if_true, f2]
        congr 1; omega

theorem parseUnsigned_decimal (M n : Nat) (h : n ≤ M) : parseUnsigned M (decimal n) = .ok n := by
  obtain ⟨_, d2, d3, d4⟩ := decimal_spec n
  obtain ⟨b, rest, hr⟩ := List.exists_cons_of_ne_nil d2
  have hb := d3 b rest hr
  rw [hr] at d4 ⊢
  simp [parseUnsigned, hb, d4, h]

/-! ### Pixel bytes -/

theorem triples_pixelBytes (px : List Pixel) (tail : List UInt8) (ht : tail.length < 3) :
    triples (px.flatMap pixelBytes ++ tail) = px := by
  induction px with
  | nil =>
    match tail, ht with
    | [], _ => rfl
    | [_], _ => rfl
    | [_, _], _ => rfl
  | cons p ps ih =>
    obtain ⟨r, g, b⟩ := p
    simp [pixelBytes, triples, ih]

theorem triples_take (px : List Pixel) (tail : List UInt8) :
    (triples (px.flatMap pixelBytes ++ tail)).take px.length = px := by
  induction px with
  | nil => simp
  | cons p ps ih =>
    obtain ⟨r, g, b⟩ := p
    simp [pixelBytes, triples, ih]

end Retro.Pnm
