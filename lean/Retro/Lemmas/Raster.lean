/-
Helper lemmas for C04/C05 (scan conversion) over a linearly ordered field with floor.
-/
import Retro.Model.Raster
import Mathlib.Tactic.Linarith
import Mathlib.Tactic.Ring
import Mathlib.Tactic.FieldSimp
import Mathlib.Algebra.Order.Field.Basic
import Mathlib.Algebra.Order.Floor.Ring
import Mathlib.Algebra.Order.Ring.Rat
import Mathlib.Data.Rat.Floor

namespace Retro.Lemmas.Raster
open Retro Retro.Raster

variable {K : Type} [Field K] [LinearOrder K] [IsStrictOrderedRing K] [FloorRing K]

/-- The model's `floor` at a floor ring: `⌊x⌋` cast back. -/
@[reducible] def hasFloorK : HasFloor K := ⟨fun x => ((⌊x⌋ : Int) : K)⟩
/-- The model's saturating cast at a floor ring: `⌊x⌋.toNat`. -/
@[reducible] def hasToNatK : HasToNat K := ⟨fun x => (⌊x⌋ : Int).toNat⟩

attribute [local instance] hasFloorK hasToNatK

/-- At ℚ these are exactly the instances the compiled driver uses (`Retro.Basic`, `Model/Raster`). -/
theorem hasFloor_rat_eq : (hasFloorK : HasFloor Rat) = (inferInstance : HasFloor Rat) := rfl
theorem hasToNat_rat_eq : (hasToNatK : HasToNat Rat) = (inferInstance : HasToNat Rat) := rfl

/-- Over a field the guarded reciprocal of `scan` is the plain reciprocal (`1 / 0 = 0 = 0 * 0`). -/
theorem recip0_eq (dx : K) : recip0 dx = 1 / dx := by
  unfold recip0
  split_ifs with h
  · rfl
  · have : dx = 0 := by
      rcases lt_trichotomy dx 0 with h1 | h1 | h1
      · exact absurd (Or.inl h1) h
      · exact h1
      · exact absurd (Or.inr h1) h
    subst this; simp

theorem roundUpHalf_eq (x : K) : roundUpHalf x = ((⌊x + 1 / 2⌋ : Int) : K) + 1 / 2 := rfl

/-- floor of a rounded-up-to-half value is the integer part it was built from -/
theorem floor_roundUpHalf (x : K) : ⌊roundUpHalf x⌋ = ⌊x + 1 / 2⌋ := by
  rw [roundUpHalf_eq, Int.floor_intCast_add]
  have : ⌊(1 / 2 : K)⌋ = 0 := by
    rw [Int.floor_eq_iff]; constructor <;> norm_num
  omega

/-- `⌊x + ½⌋ ≤ n ↔ x < n + ½`: pixel `n` is at or after the first centre strictly right of `x` -/
theorem floor_half_le_iff (x : K) (n : Int) : ⌊x + 1 / 2⌋ ≤ n ↔ x < (n : K) + 1 / 2 := by
  rw [← Int.lt_add_one_iff, Int.floor_lt]
  push_cast
  constructor <;> intro h <;> linarith

/-- `n < ⌊x + ½⌋ ↔ n + ½ ≤ x`: pixel `n` is before the one-past-the-end pixel -/
theorem lt_floor_half_iff (x : K) (n : Int) : n < ⌊x + 1 / 2⌋ ↔ (n : K) + 1 / 2 ≤ x := by
  rw [← Int.add_one_le_iff, Int.le_floor]
  push_cast
  constructor <;> intro h <;> linarith

/-- The half-open pixel rule: pixel `n` lies in `[⌊a+½⌋, ⌊b+½⌋)` iff its centre lies in `(a, b]`. -/
theorem pixel_in_span_iff (a b : K) (n : Int) :
    (⌊a + 1 / 2⌋ ≤ n ∧ n < ⌊b + 1 / 2⌋) ↔ (a < (n : K) + 1 / 2 ∧ (n : K) + 1 / 2 ≤ b) := by
  rw [floor_half_le_iff, lt_floor_half_iff]


/-! ### The iterators -/

theorem varyN_length (d : List K) (n : Nat) (v : List K) : (varyN d n v).length = n := by
  induction n generalizing v with
  | zero => rfl
  | succ n ih => simp [varyN, ih]

/-- `k` applications of `step`: what `Iter::next` has advanced to after `k` rows. -/
def stepN (d : List K) : Nat → List K → List K
  | 0, v => v
  | k + 1, v => stepN d k (stepL v d)

theorem stepL_length (v d : List K) : (stepL v d).length = min v.length d.length := by
  induction v generalizing d with
  | nil => simp [stepL]
  | cons a as ih =>
    cases d with
    | nil => simp [stepL]
    | cons b bs => simp [stepL, ih, Nat.succ_min_succ]

theorem nth0_stepL (v d : List K) (hv : 0 < v.length) (hd : 0 < d.length) :
    nth0 (stepL v d) = nth0 v + nth0 d := by
  cases v with
  | nil => simp at hv
  | cons a as =>
    cases d with
    | nil => simp at hd
    | cons b bs => simp [stepL, nth0]

theorem stepN_length (d : List K) (k : Nat) (v : List K) (h : v.length = d.length) :
    (stepN d k v).length = d.length := by
  induction k generalizing v with
  | zero => simpa [stepN] using h
  | succ k ih => exact ih _ (by rw [stepL_length, h, Nat.min_self])

theorem nth0_stepN (d : List K) (k : Nat) (v : List K) (h : v.length = d.length) (hd : 0 < d.length) :
    nth0 (stepN d k v) = nth0 v + (k : K) * nth0 d := by
  induction k generalizing v with
  | zero => simp [stepN]
  | succ k ih =>
    rw [stepN, ih _ (by rw [stepL_length, h, Nat.min_self]), nth0_stepL _ _ (by omega) hd]
    push_cast; ring

/-- The scanline the iterator emits in state (y, left, right). -/
def rowOf (dvdx : List K) (y : K) (left : List K) (right : K) : Scanline K :=
  let x0 := roundUpHalf (nth0 left)
  let x1 := roundUpHalf right
  { y := HasToNat.toNatSat y, x0 := HasToNat.toNatSat x0, x1 := HasToNat.toNatSat x1,
    frags := varyN dvdx (HasToNat.toNatSat (x1 - x0)) (lerpL left (stepL left dvdx) (x0 - nth0 left)) }

theorem scanRows_length (dl : List K) (drx : K) (dvdx : List K) (n : Nat) (y : K) (left : List K) (right : K) :
    (scanRows dl drx dvdx n y left right).length = n := by
  induction n generalizing y left right with
  | zero => rfl
  | succ n ih => simp [scanRows, ih]

/-- Row `k` of the iterator: state advanced `k` times. -/
theorem scanRows_get (dl : List K) (drx : K) (dvdx : List K) (n : Nat) (y : K) (left : List K) (right : K)
    (k : Nat) (hk : k < n) :
    (scanRows dl drx dvdx n y left right)[k]? =
      some (rowOf dvdx (y + (k : K)) (stepN dl k left) (right + (k : K) * drx)) := by
  induction n generalizing y left right k with
  | zero => omega
  | succ n ih =>
    cases k with
    | zero => simp [scanRows, rowOf, stepN]
    | succ k =>
      simp only [scanRows, List.getElem?_cons_succ]
      rw [ih _ _ _ k (by omega)]
      simp only [stepN]
      congr 2
      · push_cast; ring
      · push_cast; ring


/-! ### Componentwise operations: lengths and the x component -/

theorem dvdtL_length (a b : List K) (r : K) : (dvdtL a b r).length = min a.length b.length := by
  induction a generalizing b with
  | nil => simp [dvdtL]
  | cons x xs ih =>
    cases b with
    | nil => simp [dvdtL]
    | cons y ys => simp [dvdtL, ih, Nat.succ_min_succ]

theorem lerpL_length (a b : List K) (t : K) : (lerpL a b t).length = min a.length b.length := by
  induction a generalizing b with
  | nil => simp [lerpL]
  | cons x xs ih =>
    cases b with
    | nil => simp [lerpL]
    | cons y ys => simp [lerpL, ih, Nat.succ_min_succ]

theorem nth0_dvdtL (a b : List K) (r : K) (ha : 0 < a.length) (hb : 0 < b.length) :
    nth0 (dvdtL a b r) = (nth0 b - nth0 a) * r := by
  cases a with
  | nil => simp at ha
  | cons x xs =>
    cases b with
    | nil => simp at hb
    | cons y ys => simp [dvdtL, nth0]

theorem nth0_lerpL (a b : List K) (t : K) (ha : 0 < a.length) (hb : 0 < b.length) :
    nth0 (lerpL a b t) = lerp (nth0 a) (nth0 b) t := by
  cases a with
  | nil => simp at ha
  | cons x xs =>
    cases b with
    | nil => simp at hb
    | cons y ys => simp [lerpL, nth0]

/-- x coordinate of the edge from `a` to `b` (parametrised by y from `y0` to `y1`) at height `c`. -/
def edgeX (y0 y1 : K) (a b : List K) (c : K) : K :=
  nth0 a + (nth0 b - nth0 a) * ((c - y0) / (y1 - y0))


/-! ### The y component (second entry) -/

theorem nth1_stepL (v d : List K) (hv : 1 < v.length) (hd : 1 < d.length) :
    nth1 (stepL v d) = nth1 v + nth1 d := by
  match v, d, hv, hd with
  | _ :: _ :: _, _ :: _ :: _, _, _ => simp [stepL, nth1]

theorem nth1_dvdtL (a b : List K) (r : K) (ha : 1 < a.length) (hb : 1 < b.length) :
    nth1 (dvdtL a b r) = (nth1 b - nth1 a) * r := by
  match a, b, ha, hb with
  | _ :: _ :: _, _ :: _ :: _, _, _ => simp [dvdtL, nth1]

theorem nth1_lerpL (a b : List K) (t : K) (ha : 1 < a.length) (hb : 1 < b.length) :
    nth1 (lerpL a b t) = lerp (nth1 a) (nth1 b) t := by
  match a, b, ha, hb with
  | _ :: _ :: _, _ :: _ :: _, _, _ => simp [lerpL, nth1]

theorem nth1_stepN (d : List K) (k : Nat) (v : List K) (h : v.length = d.length) (hd : 1 < d.length) :
    nth1 (stepN d k v) = nth1 v + (k : K) * nth1 d := by
  induction k generalizing v with
  | zero => simp [stepN]
  | succ k ih =>
    rw [stepN, ih _ (by rw [stepL_length, h, Nat.min_self]), nth1_stepL _ _ (by omega) hd]
    push_cast; ring

theorem varyN_get (d : List K) (n : Nat) (v : List K) (j : Nat) (hj : j < n) :
    (varyN d n v)[j]? = some (stepN d j v) := by
  induction n generalizing v j with
  | zero => omega
  | succ n ih =>
    cases j with
    | zero => simp [varyN, stepN]
    | succ j => simp only [varyN, List.getElem?_cons_succ, stepN]; exact ih _ j (by omega)

end Retro.Lemmas.Raster
