/-
Helper lemmas for C17: the vector-level model (lists of components, `vadd/vsub/vmul/vneg`)
acts componentwise, so each vector-level evaluator is `map4` of a scalar function.
-/
import Retro.Model.Spline
import Retro.Spec.Spline
import Mathlib.Tactic.Ring
import Mathlib.Tactic.Linarith
import Mathlib.Algebra.Order.Field.Basic

namespace Retro.Lemmas.Spline
open Retro Retro.Spline Retro.Spec.Spline

section Ring
variable {K : Type} [Field K]

/-- De Casteljau on one component (spline.rs:73-76). -/
def casteljau (a b c d t : K) : K :=
  lerp (lerp (lerp a b t) (lerp b c t) t) (lerp (lerp b c t) (lerp c d t) t) t

/-- Horner evaluation with the `coefficients()` of one component (spline.rs:93, 152-155). -/
def horner (a b c d t : K) : K :=
  a + ((((d - a) + (b - c) * 3) * t + -((b - a) * 3 + (b - c) * 3)) * t + (b - a) * 3) * t

/-- `tangent` on one component (spline.rs:108-112), `t` already clamped. -/
def tangent1 (a b c d t : K) : K :=
  ((((b - c) * 3 + (d - a)) * t + ((a - b) + (c - b)) * 2) * t + (b - a)) * 3

theorem casteljau_eq_bernstein (a b c d t : K) : casteljau a b c d t = bernstein a b c d t := by
  unfold casteljau lerp bernstein; ring

theorem horner_eq_bernstein (a b c d t : K) : horner a b c d t = bernstein a b c d t := by
  unfold horner bernstein; ring

theorem tangent1_eq_deriv (a b c d t : K) : tangent1 a b c d t = bernsteinDeriv a b c d t := by
  unfold tangent1 bernsteinDeriv; ring

theorem evalCore_componentwise (p0 p1 p2 p3 : List K) (t : K) :
    vlerp (vlerp (vlerp p0 p1 t) (vlerp p1 p2 t) t) (vlerp (vlerp p1 p2 t) (vlerp p2 p3 t) t) t
      = map4 (fun a b c d => casteljau a b c d t) p0 p1 p2 p3 := by
  induction p0 generalizing p1 p2 p3 with
  | nil => simp [vlerp, vadd, vsub, vmul, map4]
  | cons a as ih =>
    cases p1 with
    | nil => simp [vlerp, vadd, vsub, vmul, map4]
    | cons b bs =>
      cases p2 with
      | nil => simp [vlerp, vadd, vsub, vmul, map4]
      | cons c cs =>
        cases p3 with
        | nil => simp [vlerp, vadd, vsub, vmul, map4]
        | cons d ds =>
          have := ih bs cs ds
          simp only [vlerp, vadd, vsub, vmul, map4] at this ⊢
          rw [this]
          simp [casteljau, lerp]

theorem fastCore_componentwise (p0 p1 p2 p3 : List K) (t : K) :
    vadd p0 (vmul (vadd (vmul (vadd (vmul (coefficients p0 p1 p2 p3).1 t)
        (coefficients p0 p1 p2 p3).2.1) t) (coefficients p0 p1 p2 p3).2.2) t)
      = map4 (fun a b c d => horner a b c d t) p0 p1 p2 p3 := by
  induction p0 generalizing p1 p2 p3 with
  | nil => simp [vadd, map4]
  | cons a as ih =>
    cases p1 with
    | nil => simp [coefficients, vadd, vsub, vmul, vneg, map4]
    | cons b bs =>
      cases p2 with
      | nil => simp [coefficients, vadd, vsub, vmul, vneg, map4]
      | cons c cs =>
        cases p3 with
        | nil => simp [coefficients, vadd, vsub, vmul, vneg, map4]
        | cons d ds =>
          have := ih bs cs ds
          simp only [coefficients, vadd, vsub, vmul, vneg, map4] at this ⊢
          rw [this]
          simp [horner]

theorem tangentCore_componentwise (p0 p1 p2 p3 : List K) (t : K) :
    vmul (vadd (vmul (vadd (vmul (vadd (vmul (vsub p1 p2) 3) (vsub p3 p0)) t)
        (vmul (vadd (vsub p0 p1) (vsub p2 p1)) 2)) t) (vsub p1 p0)) 3
      = map4 (fun a b c d => tangent1 a b c d t) p0 p1 p2 p3 := by
  induction p0 generalizing p1 p2 p3 with
  | nil => cases p1 <;> cases p2 <;> cases p3 <;> simp [vadd, vsub, vmul, map4]
  | cons a as ih =>
    cases p1 with
    | nil => cases p2 <;> cases p3 <;> simp [vadd, vsub, vmul, map4]
    | cons b bs =>
      cases p2 with
      | nil => cases p3 <;> simp [vadd, vsub, vmul, map4]
      | cons c cs =>
        cases p3 with
        | nil => simp [vadd, vsub, vmul, map4]
        | cons d ds =>
          have := ih bs cs ds
          simp only [vadd, vsub, vmul, map4] at this ⊢
          rw [this]
          simp [tangent1]

end Ring

/-! ### `map4` -/

theorem map4_congr {α β : Type} {f g : α → α → α → α → β} (h : ∀ a b c d, f a b c d = g a b c d)
    (p0 p1 p2 p3 : List α) : map4 f p0 p1 p2 p3 = map4 g p0 p1 p2 p3 := by
  have : f = g := by funext a b c d; exact h a b c d
  rw [this]

theorem map4_getElem? {α β : Type} (f : α → α → α → α → β) (p0 p1 p2 p3 : List α) (i : Nat)
    {a b c d : α} (h0 : p0[i]? = some a) (h1 : p1[i]? = some b) (h2 : p2[i]? = some c)
    (h3 : p3[i]? = some d) : (map4 f p0 p1 p2 p3)[i]? = some (f a b c d) := by
  induction p0 generalizing p1 p2 p3 i with
  | nil => simp at h0
  | cons x xs ih =>
    cases p1 with
    | nil => simp at h1
    | cons y ys =>
      cases p2 with
      | nil => simp at h2
      | cons z zs =>
        cases p3 with
        | nil => simp at h3
        | cons w ws =>
          cases i with
          | zero =>
            simp only [List.getElem?_cons_zero, Option.some.injEq] at h0 h1 h2 h3
            simp [map4, h0, h1, h2, h3]
          | succ j =>
            simp only [List.getElem?_cons_succ] at h0 h1 h2 h3
            simpa [map4] using ih ys zs ws j h0 h1 h2 h3

theorem map4_length {α β : Type} (f : α → α → α → α → β) (p0 p1 p2 p3 : List α) (n : Nat)
    (h0 : p0.length = n) (h1 : p1.length = n) (h2 : p2.length = n) (h3 : p3.length = n) :
    (map4 f p0 p1 p2 p3).length = n := by
  induction p0 generalizing p1 p2 p3 n with
  | nil => simp [map4] at h0 ⊢; omega
  | cons x xs ih =>
    cases p1 with
    | nil => simp at h0 h1; omega
    | cons y ys =>
      cases p2 with
      | nil => simp at h0 h2; omega
      | cons z zs =>
        cases p3 with
        | nil => simp at h0 h3; omega
        | cons w ws =>
          simp only [List.length_cons] at h0 h1 h2 h3
          simp only [map4, List.length_cons]
          rw [ih ys zs ws (n - 1) (by omega) (by omega) (by omega) (by omega)]; omega

/-- Selecting the first argument componentwise gives it back when all lengths agree. -/
theorem map4_fst {α : Type} (f : α → α → α → α → α) (hf : ∀ a b c d, f a b c d = a)
    (p0 p1 p2 p3 : List α) (h1 : p1.length = p0.length) (h2 : p2.length = p0.length)
    (h3 : p3.length = p0.length) : map4 f p0 p1 p2 p3 = p0 := by
  induction p0 generalizing p1 p2 p3 with
  | nil => simp [map4]
  | cons x xs ih =>
    cases p1 with
    | nil => simp at h1
    | cons y ys =>
      cases p2 with
      | nil => simp at h2
      | cons z zs =>
        cases p3 with
        | nil => simp at h3
        | cons w ws =>
          simp only [List.length_cons, Nat.add_right_cancel_iff] at h1 h2 h3
          simp [map4, hf, ih ys zs ws h1 h2 h3]

theorem map4_fourth {α : Type} (f : α → α → α → α → α) (hf : ∀ a b c d, f a b c d = d)
    (p0 p1 p2 p3 : List α) (h1 : p1.length = p0.length) (h2 : p2.length = p0.length)
    (h3 : p3.length = p0.length) : map4 f p0 p1 p2 p3 = p3 := by
  induction p0 generalizing p1 p2 p3 with
  | nil => cases p3 with
    | nil => simp [map4]
    | cons _ _ => simp at h3
  | cons x xs ih =>
    cases p1 with
    | nil => simp at h1
    | cons y ys =>
      cases p2 with
      | nil => simp at h2
      | cons z zs =>
        cases p3 with
        | nil => simp at h3
        | cons w ws =>
          simp only [List.length_cons, Nat.add_right_cancel_iff] at h1 h2 h3
          simp [map4, hf, ih ys zs ws h1 h2 h3]

end Retro.Lemmas.Spline
