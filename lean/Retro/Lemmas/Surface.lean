/-
C15 helper: a linear-time, kernel-friendly checker for `ClosedOriented` (bit set of the directed
edge keys `a·V + b` held in one `Nat`) and its soundness proof.  The checker is proof machinery
only; the property is stated with `Retro.Surface.ClosedOriented`.
-/
import Retro.Spec.Surface

namespace Retro.Surface

theorem bit_one (k x : Nat) : (1 <<< k).testBit x = decide (k = x) := by
  rw [Nat.one_shiftLeft, Nat.testBit_two_pow]

theorem bit_or (m k x : Nat) : (m ||| (1 <<< k)).testBit x = (m.testBit x || decide (k = x)) := by
  rw [Nat.testBit_or, bit_one]

def key (V : Nat) (e : Nat × Nat) : Nat := e.1 * V + e.2

theorem key_inj (V : Nat) (e f : Nat × Nat) (he : e.2 < V) (hf : f.2 < V)
    (h : key V e = key V f) : e = f := by
  obtain ⟨a, b⟩ := e
  obtain ⟨c, d⟩ := f
  simp only [key] at h he hf
  have h1 : (a * V + b) / V = a := by
    rw [Nat.mul_comm, Nat.mul_add_div (by omega), Nat.div_eq_of_lt he]; rfl
  have h2 : (c * V + d) / V = c := by
    rw [Nat.mul_comm, Nat.mul_add_div (by omega), Nat.div_eq_of_lt hf]; rfl
  have hac : a = c := by rw [← h1, ← h2, h]
  subst hac
  have : b = d := by omega
  subst this
  rfl

/-- Insert every key into the bit set; `none` as soon as a key is already present. -/
def insertAll (V : Nat) : List (Nat × Nat) → Nat → Option Nat
  | [], m => some m
  | e :: es, m =>
    if m.testBit (key V e) then none else insertAll V es (m ||| (1 <<< key V e))

def checkClosed (V : Nat) (edges : List (Nat × Nat)) : Bool :=
  edges.all (fun e => decide (e.1 < V) && decide (e.2 < V)) &&
  match insertAll V edges 0 with
  | none => false
  | some m => edges.all fun e => m.testBit (key V (e.2, e.1))

def checkOriented (V : Nat) (edges : List (Nat × Nat)) : Bool :=
  edges.all (fun e => decide (e.1 < V) && decide (e.2 < V)) && (insertAll V edges 0).isSome

theorem insertAll_spec (V : Nat) : ∀ (es : List (Nat × Nat)) (m m' : Nat),
    insertAll V es m = some m' →
      (∀ x, m'.testBit x = true ↔ (m.testBit x = true ∨ ∃ e ∈ es, key V e = x)) ∧
      (es.map (key V)).Nodup := by
  intro es
  induction es with
  | nil =>
    intro m m' h
    simp only [insertAll, Option.some.injEq] at h
    subst h
    simp
  | cons e es ih =>
    intro m m' h
    rw [insertAll] at h
    split at h
    · simp at h
    · rename_i hnot
      obtain ⟨h1, h2⟩ := ih _ _ h
      constructor
      · intro x
        rw [h1 x, bit_or]
        simp only [Bool.or_eq_true, decide_eq_true_eq, List.mem_cons, exists_eq_or_imp]
        constructor
        · rintro ((h | h) | h)
          · exact Or.inl h
          · exact Or.inr (Or.inl h)
          · exact Or.inr (Or.inr h)
        · rintro (h | h | h)
          · exact Or.inl (Or.inl h)
          · exact Or.inl (Or.inr h)
          · exact Or.inr h
      · simp only [List.map_cons, List.nodup_cons]
        refine ⟨?_, h2⟩
        intro hmem
        rw [List.mem_map] at hmem
        obtain ⟨f, hf, hkf⟩ := hmem
        -- the key of `e` would have been found present when `f` was inserted … but simpler:
        -- `m'` has bit key e set via `m ||| bit`, and inserting `f` later would have failed.
        -- Use the nodup of the tail with the invariant on the intermediate mask:
        have : ∀ (fs : List (Nat × Nat)) (a a' : Nat), insertAll V fs a = some a' →
            ∀ g ∈ fs, a.testBit (key V g) = false := by
          intro fs
          induction fs with
          | nil => intro a a' _ g hg; simp at hg
          | cons g0 gs ihg =>
            intro a a' ha g hg
            rw [insertAll] at ha
            split at ha
            · simp at ha
            · rename_i hn
              simp only [List.mem_cons] at hg
              rcases hg with rfl | hg
              · simpa using hn
              · have := ihg _ _ ha g hg
                rw [bit_or] at this
                simp only [Bool.or_eq_false_iff] at this
                exact this.1
        have hbit := this es _ _ h f hf
        rw [bit_or, hkf] at hbit
        simp at hbit

theorem checkClosed_sound (V : Nat) (edges : List (Nat × Nat)) (h : checkClosed V edges = true) :
    ClosedOriented edges := by
  unfold checkClosed at h
  rw [Bool.and_eq_true] at h
  obtain ⟨hb, h⟩ := h
  rw [List.all_eq_true] at hb
  have hlt : ∀ e ∈ edges, e.1 < V ∧ e.2 < V := by
    intro e he
    have := hb e he
    simpa using this
  split at h
  · simp at h
  · rename_i m hm
    obtain ⟨h1, h2⟩ := insertAll_spec V edges 0 m hm
    constructor
    · exact List.Pairwise.of_map (key V) (fun a b hne hab => hne (by rw [hab])) h2
    · rw [List.all_eq_true] at h
      intro e he
      have hbit := h e he
      rw [h1] at hbit
      rcases hbit with hbit | ⟨f, hf, hkf⟩
      · simp at hbit
      · have := key_inj V f (e.2, e.1) (hlt f hf).2 (hlt e he).1 hkf
        rw [← this]; exact hf

theorem checkOriented_sound (V : Nat) (edges : List (Nat × Nat)) (h : checkOriented V edges = true) :
    Oriented edges := by
  unfold checkOriented at h
  rw [Bool.and_eq_true] at h
  obtain ⟨_, h⟩ := h
  cases hm : insertAll V edges 0 with
  | none => rw [hm] at h; simp at h
  | some m =>
    obtain ⟨_, h2⟩ := insertAll_spec V edges 0 m hm
    exact List.Pairwise.of_map (key V) (fun a b hne hab => hne (by rw [hab])) h2

end Retro.Surface
