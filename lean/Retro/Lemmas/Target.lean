/-
Pointwise semantics of the framebuffer update functions of `Retro.Render` (row lists):
what `writeSpan`, `setRow`, `shadeSpan` and `rasterize` do to the pixel at (x, y).
Used to lift the per-pixel z-buffer theorems of C06 to whole framebuffers.
-/
import Retro.Model.Render
import Mathlib.Tactic.Linarith
import Mathlib.Algebra.Order.Field.Basic

namespace Retro.Lemmas.Target
open Retro Retro.Clip Retro.Raster Retro.Render

theorem writeSpan_getElem? {β : Type} (row : List β) (x0 : Nat) (vals : List β) (x : Nat) :
    (writeSpan row x0 vals)[x]? =
      if x0 ≤ x ∧ x < x0 + vals.length ∧ x < row.length then vals[x - x0]? else row[x]? := by
  induction row generalizing x0 vals x with
  | nil =>
    cases vals <;> simp [writeSpan]
  | cons r rs ih =>
    cases vals with
    | nil =>
      simp only [writeSpan, List.length_nil, Nat.add_zero]
      rw [if_neg (by omega)]
    | cons v vs =>
      cases x0 with
      | zero =>
        cases x with
        | zero => simp [writeSpan]
        | succ x =>
          simp only [writeSpan, List.getElem?_cons_succ, ih, List.length_cons]
          by_cases h : x < vs.length ∧ x < rs.length
          · have h1 : 0 ≤ x ∧ x < 0 + vs.length ∧ x < rs.length := ⟨by omega, by omega, h.2⟩
            have h2 : 0 ≤ x + 1 ∧ x + 1 < 0 + (vs.length + 1) ∧ x + 1 < rs.length + 1 := ⟨by omega, by omega, by omega⟩
            rw [if_pos h1, if_pos h2]; simp
          · have h1 : ¬(0 ≤ x ∧ x < 0 + vs.length ∧ x < rs.length) := by intro hh; exact h ⟨by omega, hh.2.2⟩
            have h2 : ¬(0 ≤ x + 1 ∧ x + 1 < 0 + (vs.length + 1) ∧ x + 1 < rs.length + 1) := by
              intro hh; exact h ⟨by omega, by omega⟩
            rw [if_neg h1, if_neg h2]
      | succ x0 =>
        cases x with
        | zero => simp [writeSpan]
        | succ x =>
          simp only [writeSpan, List.getElem?_cons_succ, ih, List.length_cons]
          by_cases h : x0 ≤ x ∧ x < x0 + (vs.length + 1) ∧ x < rs.length
          · have h2 : x0 + 1 ≤ x + 1 ∧ x + 1 < x0 + 1 + (vs.length + 1) ∧ x + 1 < rs.length + 1 := by omega
            rw [if_pos h, if_pos h2]
            congr 1; omega
          · have h2 : ¬(x0 + 1 ≤ x + 1 ∧ x + 1 < x0 + 1 + (vs.length + 1) ∧ x + 1 < rs.length + 1) := by
              intro hh; apply h; omega
            rw [if_neg h, if_neg h2]

theorem setRow_getElem? {β : Type} (rows : List (List β)) (y : Nat) (r : List β) (y' : Nat) :
    (setRow rows y r)[y']? = if y' = y ∧ y < rows.length then some r else rows[y']? := by
  induction rows generalizing y y' with
  | nil => simp [setRow]
  | cons r0 rs ih =>
    cases y with
    | zero =>
      cases y' with
      | zero => simp [setRow]
      | succ y' => simp [setRow]
    | succ y =>
      cases y' with
      | zero => simp [setRow]
      | succ y' =>
        simp only [setRow, List.getElem?_cons_succ, ih, List.length_cons]
        by_cases h : y' = y ∧ y < rs.length
        · rw [if_pos h, if_pos ⟨by omega, by omega⟩]
        · rw [if_neg h, if_neg (by intro hh; apply h; omega)]


section Span
variable {α : Type} [Add α] [Sub α] [Mul α] [Div α] [Neg α] [LT α] [DecidableLT α]
  [OfNat α 0] [OfNat α 1] [OfNat α 2] [HasFloor α] [HasToNat α] {C : Type}

theorem shadeSpan_lengths (ctx : Ctx) (shade : List α → Option C) (fs : List (List α)) (cs : List C) (zs : List α) :
    (shadeSpan ctx shade fs cs zs).1.length = cs.length ∧ (shadeSpan ctx shade fs cs zs).2.1.length = zs.length := by
  induction fs generalizing cs zs with
  | nil => simp [shadeSpan]
  | cons f fs ih =>
    cases cs with
    | nil => simp [shadeSpan]
    | cons c cs =>
      cases zs with
      | nil => simp [shadeSpan]
      | cons z zs =>
        obtain ⟨h1, h2⟩ := ih cs zs
        simp [shadeSpan, h1, h2]

/-- Position `i` of a span after the fragment loop: the `i`-th fragment applied to the `i`-th colour
and depth if all three exist, otherwise unchanged. -/
theorem shadeSpan_get (ctx : Ctx) (shade : List α → Option C) (fs : List (List α)) (cs : List C) (zs : List α)
    (i : Nat) :
    (shadeSpan ctx shade fs cs zs).1[i]? =
      (match fs[i]?, cs[i]?, zs[i]? with
       | some f, some c, some z => some (shadeFrag ctx shade f c z).1
       | _, _, _ => cs[i]?) ∧
    (shadeSpan ctx shade fs cs zs).2.1[i]? =
      (match fs[i]?, cs[i]?, zs[i]? with
       | some f, some c, some z => some (shadeFrag ctx shade f c z).2.1
       | _, _, _ => zs[i]?) := by
  induction fs generalizing cs zs i with
  | nil => simp [shadeSpan]
  | cons f fs ih =>
    cases cs with
    | nil => simp [shadeSpan]
    | cons c cs =>
      cases zs with
      | nil =>
        simp only [shadeSpan, List.getElem?_nil]
        constructor
        · cases h : (f :: fs)[i]? <;> cases h' : (c :: cs)[i]? <;> rfl
        · cases h : (f :: fs)[i]? <;> cases h' : (c :: cs)[i]? <;> rfl
      | cons z zs =>
        cases i with
        | zero => simp [shadeSpan]
        | succ i =>
          simp only [shadeSpan, List.getElem?_cons_succ]
          exact ih cs zs i

end Span

section Raster
variable {α : Type} [Add α] [Sub α] [Mul α] [Div α] [Neg α] [LT α] [DecidableLT α]
  [OfNat α 0] [OfNat α 1] [OfNat α 2] [HasFloor α] [HasToNat α] {C : Type}

/-- colour at pixel (x, y) -/
def pixC (t : Target α C) (x y : Nat) : Option C := (t.color[y]?).bind (·[x]?)
/-- depth at pixel (x, y) (none for colour-only targets) -/
def pixZ (t : Target α C) (x y : Nat) : Option α := t.depth.bind fun d => (d[y]?).bind (·[x]?)

/-- What one fragment list position does to a pixel. -/
def applyAt (ctx : Ctx) (shade : List α → Option C) (f : Option (List α)) (c : Option C) (z : Option α) :
    Option C × Option α :=
  match f, c, z with
  | some f, some c, some z => (some (shadeFrag ctx shade f c z).1, some (shadeFrag ctx shade f c z).2.1)
  | _, _, _ => (c, z)

/-- **Pointwise semantics of `rasterize` on a framebuffer.** Inside the buffer the scanline changes
exactly the pixels `x0 ≤ x < max x1 x0` of row `y`, each by its own fragment (if the fragment sequence
reaches that far), and nothing else. -/
theorem rasterize_pix (ctx : Ctx) (shade : List α → Option C) (t : Target α C) (W H : Nat) (sl : Scanline α)
    (dbuf : List (List α)) (hd : t.depth = some dbuf)
    (hc : t.color.length = H) (hcr : ∀ row ∈ t.color, row.length = W)
    (hdl : dbuf.length = H) (hdr : ∀ row ∈ dbuf, row.length = W)
    (hy : sl.y < H) (hx : Nat.max sl.x1 sl.x0 ≤ W) :
    ∃ t' i o, rasterize ctx shade t sl = .ok (t', i, o) ∧ t'.depth.isSome = true ∧
      ∀ x y, (pixC t' x y, pixZ t' x y) =
        if y = sl.y ∧ sl.x0 ≤ x ∧ x < Nat.max sl.x1 sl.x0 then
          applyAt ctx shade ((sl.frags.map zdiv)[x - sl.x0]?) (pixC t x y) (pixZ t x y)
        else (pixC t x y, pixZ t x y) := by
  have hcy : sl.y < t.color.length := by omega
  have hdy : sl.y < dbuf.length := by omega
  have hcl : (t.color[sl.y]).length = W := hcr _ (List.getElem_mem hcy)
  have hzl : (dbuf[sl.y]).length = W := hdr _ (List.getElem_mem hdy)
  unfold rasterize
  simp only [hd]
  rw [List.getElem?_eq_getElem hcy]
  simp only
  rw [if_neg (by omega)]
  rw [List.getElem?_eq_getElem hdy]
  simp only
  rw [if_neg (by omega)]
  refine ⟨_, _, _, rfl, rfl, ?_⟩
  intro x y
  set crow := t.color[sl.y] with hcrow
  set zrow := dbuf[sl.y] with hzrow
  set x1 := Nat.max sl.x1 sl.x0 with hx1
  have hx01 : sl.x0 ≤ x1 := by rw [hx1]; exact Nat.le_max_right _ _
  set cspan := (crow.drop sl.x0).take (x1 - sl.x0) with hcspan
  set zspan := (zrow.drop sl.x0).take (x1 - sl.x0) with hzspan
  have hcsl : cspan.length = x1 - sl.x0 := by rw [hcspan, List.length_take, List.length_drop, hcl]; omega
  have hzsl : zspan.length = x1 - sl.x0 := by rw [hzspan, List.length_take, List.length_drop, hzl]; omega
  obtain ⟨hl1, hl2⟩ := shadeSpan_lengths ctx shade (sl.frags.map zdiv) cspan zspan
  simp only [pixC, pixZ, hd, Option.bind_some]
  by_cases hyy : y = sl.y
  · subst hyy
    rw [setRow_getElem?, setRow_getElem?, if_pos ⟨rfl, hcy⟩, if_pos ⟨rfl, hdy⟩]
    simp only [Option.bind_some]
    rw [writeSpan_getElem?, writeSpan_getElem?, hl1, hl2, hcsl, hzsl, hcl, hzl]
    rw [List.getElem?_eq_getElem hcy, List.getElem?_eq_getElem hdy]
    simp only [Option.bind_some]
    by_cases hxin : sl.x0 ≤ x ∧ x < x1
    · have h1 : sl.x0 ≤ x ∧ x < sl.x0 + (x1 - sl.x0) ∧ x < W := ⟨hxin.1, by omega, by omega⟩
      rw [if_pos h1, if_pos h1, if_pos ⟨by trivial, hxin.1, hxin.2⟩]
      obtain ⟨g1, g2⟩ := shadeSpan_get ctx shade (sl.frags.map zdiv) cspan zspan (x - sl.x0)
      rw [g1, g2]
      have e1 : cspan[x - sl.x0]? = crow[x]? := by
        rw [hcspan, List.getElem?_take]
        rw [if_pos (by omega), List.getElem?_drop]
        congr 1; omega
      have e2 : zspan[x - sl.x0]? = zrow[x]? := by
        rw [hzspan, List.getElem?_take]
        rw [if_pos (by omega), List.getElem?_drop]
        congr 1; omega
      rw [e1, e2]
      unfold applyAt
      cases (List.map zdiv sl.frags)[x - sl.x0]? <;> cases crow[x]? <;> cases zrow[x]? <;> rfl
    · have h1 : ¬(sl.x0 ≤ x ∧ x < sl.x0 + (x1 - sl.x0) ∧ x < W) := by intro hh; apply hxin; omega
      rw [if_neg h1, if_neg h1, if_neg (by intro hh; exact hxin ⟨hh.2.1, hh.2.2⟩)]
  · rw [setRow_getElem?, setRow_getElem?, if_neg (by intro hh; exact hyy hh.1), if_neg (by intro hh; exact hyy hh.1)]
    rw [if_neg (by intro hh; exact hyy hh.1)]

end Raster

end Retro.Lemmas.Target
