/-
Pointwise semantics of `rasterize` / `rasterizeAll` / `drawTris` on a COLOUR-ONLY target
(`impl Target for Buf: AsMutSlice2<u32>`, target.rs:80-109: no depth buffer, no depth test).
-/
import Retro.Lemmas.Target
import Retro.Props.C02.Links

namespace Retro.Lemmas.TargetColor
open Retro Retro.Clip Retro.Raster Retro.Render Retro.Lemmas.Target

section
variable {α : Type} [Add α] [Sub α] [Mul α] [Div α] [Neg α] [LT α] [DecidableLT α]
  [OfNat α 0] [OfNat α 1] [OfNat α 2] [HasFloor α] [HasToNat α] {C : Type}

/-- One fragment applied to a pixel of a colour-only target. -/
def stepC (ctx : Ctx) (shade : List α → Option C) (c : C) (f : List α) : C :=
  match shade f with
  | some col => if ctx.colorWrite then col else c
  | none => c

theorem shadeSpanColor_length (ctx : Ctx) (shade : List α → Option C) (fs : List (List α)) (cs : List C) :
    (shadeSpanColor ctx shade fs cs).1.length = cs.length := by
  induction fs generalizing cs with
  | nil => simp [shadeSpanColor]
  | cons f fs ih =>
    cases cs with
    | nil => simp [shadeSpanColor]
    | cons c cs =>
      simp only [shadeSpanColor]
      cases shade f with
      | none => simp [ih cs]
      | some col => by_cases h : ctx.colorWrite = true <;> simp [h, ih cs]

theorem shadeSpanColor_get (ctx : Ctx) (shade : List α → Option C) (fs : List (List α)) (cs : List C) (i : Nat) :
    (shadeSpanColor ctx shade fs cs).1[i]? =
      match fs[i]?, cs[i]? with
      | some f, some c => some (stepC ctx shade c f)
      | _, _ => cs[i]? := by
  induction fs generalizing cs i with
  | nil => simp [shadeSpanColor]
  | cons f fs ih =>
    cases cs with
    | nil =>
      simp only [shadeSpanColor, List.getElem?_nil]
      cases (f :: fs)[i]? <;> rfl
    | cons c cs =>
      cases i with
      | zero =>
        cases hs : shade f with
        | none => simp [shadeSpanColor, stepC, hs]
        | some col => by_cases h : ctx.colorWrite = true <;> simp [shadeSpanColor, stepC, hs, h]
      | succ i =>
        have := ih cs i
        cases hs : shade f with
        | none => simpa [shadeSpanColor, hs] using this
        | some col => by_cases h : ctx.colorWrite = true <;> simpa [shadeSpanColor, hs, h] using this

/-- **Pointwise semantics of `rasterize` on a colour-only target.** -/
theorem rasterize_pixC (ctx : Ctx) (shade : List α → Option C) (t : Target α C) (W H : Nat) (sl : Scanline α)
    (hd : t.depth = none) (hc : t.color.length = H) (hcr : ∀ row ∈ t.color, row.length = W)
    (hy : sl.y < H) (hx : Nat.max sl.x1 sl.x0 ≤ W) :
    ∃ t' i o, rasterize ctx shade t sl = .ok (t', i, o) ∧ t'.depth = none ∧
      ∀ x y, pixC t' x y =
        if y = sl.y ∧ sl.x0 ≤ x ∧ x < Nat.max sl.x1 sl.x0 then
          match (sl.frags.map zdiv)[x - sl.x0]?, pixC t x y with
          | some f, some c => some (stepC ctx shade c f)
          | _, _ => pixC t x y
        else pixC t x y := by
  have hcy : sl.y < t.color.length := by omega
  have hcl : (t.color[sl.y]).length = W := hcr _ (List.getElem_mem hcy)
  unfold rasterize
  simp only [hd]
  rw [List.getElem?_eq_getElem hcy]
  simp only
  rw [if_neg (by omega)]
  refine ⟨_, _, _, rfl, rfl, ?_⟩
  intro x y
  set crow := t.color[sl.y] with hcrow
  set x1 := Nat.max sl.x1 sl.x0 with hx1
  have hx01 : sl.x0 ≤ x1 := by rw [hx1]; exact Nat.le_max_right _ _
  set cspan := (crow.drop sl.x0).take (x1 - sl.x0) with hcspan
  have hcsl : cspan.length = x1 - sl.x0 := by rw [hcspan, List.length_take, List.length_drop, hcl]; omega
  have hl1 := shadeSpanColor_length ctx shade (sl.frags.map zdiv) cspan
  simp only [pixC]
  by_cases hyy : y = sl.y
  · subst hyy
    rw [setRow_getElem?, if_pos ⟨rfl, hcy⟩]
    simp only [Option.bind_some]
    rw [writeSpan_getElem?, hl1, hcsl, hcl]
    rw [List.getElem?_eq_getElem hcy]
    simp only [Option.bind_some]
    by_cases hxin : sl.x0 ≤ x ∧ x < x1
    · have h1 : sl.x0 ≤ x ∧ x < sl.x0 + (x1 - sl.x0) ∧ x < W := ⟨hxin.1, by omega, by omega⟩
      rw [if_pos h1, if_pos ⟨by trivial, hxin.1, hxin.2⟩]
      rw [shadeSpanColor_get]
      have e1 : cspan[x - sl.x0]? = crow[x]? := by
        rw [hcspan, List.getElem?_take]
        rw [if_pos (by omega), List.getElem?_drop]
        congr 1; omega
      rw [e1]
    · have h1 : ¬(sl.x0 ≤ x ∧ x < sl.x0 + (x1 - sl.x0) ∧ x < W) := by intro hh; apply hxin; omega
      rw [if_neg h1, if_neg (by intro hh; exact hxin ⟨hh.2.1, hh.2.2⟩)]
  · rw [setRow_getElem?, if_neg (by intro hh; exact hyy hh.1)]
    rw [if_neg (by intro hh; exact hyy hh.1)]

end
end Retro.Lemmas.TargetColor
