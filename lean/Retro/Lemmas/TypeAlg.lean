/-
Helper lemmas about the tag algebra (`Retro/Model/TypeAlg.lean`) used by `Retro/Props/C10.lean`.
-/
import Retro.Model.TypeAlg

namespace Retro.TypeAlg
set_option linter.unusedSimpArgs false

theorem spaceClash_self (a : Tag) : spaceClash a a = none := by simp [spaceClash]

/-- Equal space tags and equal component counts never clash. -/
theorem tagClash0_of_eq (x y : Ty) (hs : x.space? = y.space?) (hd : x.dim? = y.dim?) :
    tagClash0 x y = none := by
  unfold tagClash0
  rw [hs, hd]
  cases h1 : y.space? <;> cases h2 : y.dim? <;> simp [spaceClash_self]

theorem tagClash_self (x : Ty) : tagClash x x = none := by
  induction x with
  | pair a b iha ihb => simp [tagClash, iha, ihb]
  | _ => simp [tagClash, tagClash0_of_eq]

/-- A value never clashes with its own `Diff` type. -/
theorem tagClash_diff (x d : Ty) (hd : affineDiff x = some d) (hs : d.space? = x.space?)
    (hn : d.dim? = x.dim?) : tagClash x d = none := by
  cases x <;> first | (simp [affineDiff] at hd; done) | simp [tagClash, tagClash0_of_eq _ _ hs.symm hn.symm]

theorem unitClash_of_eq (x y : Ty) (ha : x.isAngle = y.isAngle) (hs : x.isScalar = y.isScalar) :
    unitClash x y = none := by
  unfold unitClash
  cases x <;> cases y <;> simp_all [Ty.isAngle, Ty.isScalar]

theorem unitClash_self (x : Ty) : unitClash x x = none := unitClash_of_eq x x rfl rfl

/-- `<T as Affine>::Diff` keeps the space tag and the number of components, is never a point,
and is an angle / a scalar exactly when `T` is. -/
theorem affineDiff_tags (x d : Ty) (h : affineDiff x = some d) :
    d.space? = x.space? ∧ d.dim? = x.dim? ∧ d.isPt = false ∧
      d.isAngle = x.isAngle ∧ d.isScalar = x.isScalar := by
  cases x with
  | sc s =>
    cases s <;> simp [affineDiff, scAffineDiff] at h <;> subst h <;>
      simp [Ty.space?, Ty.dim?, Ty.isPt, Ty.isAngle, Ty.isScalar]
  | angle =>
    simp [affineDiff] at h; subst h; simp [Ty.space?, Ty.dim?, Ty.isPt, Ty.isAngle, Ty.isScalar]
  | vec s n sp =>
    cases s <;> simp [affineDiff, scAffineDiff, scLinear] at h <;> subst h <;>
      simp [Ty.space?, Ty.dim?, Ty.isPt, Ty.isAngle, Ty.isScalar]
  | pt s n sp =>
    cases s <;> simp [affineDiff, scLinear] at h <;> subst h <;>
      simp [Ty.space?, Ty.dim?, Ty.isPt, Ty.isAngle, Ty.isScalar]
  | col s n sp =>
    cases s <;> simp [affineDiff] at h <;> subst h <;>
      simp [Ty.space?, Ty.dim?, Ty.isPt, Ty.isAngle, Ty.isScalar]
  | mat n m => simp [affineDiff] at h
  | pair a b => simp [affineDiff] at h
  | arr s n => simp [affineDiff] at h
  | arr2 n => simp [affineDiff] at h
  | unit => simp [affineDiff] at h

/-- Combining a value with its own `Diff` type is never a misuse (for any additive operator). -/
theorem mis2_diff (o : Op2)
    (ho : o = .add ∨ o = .sub ∨ o = .mAdd ∨ o = .mSub ∨ o = .addAssign ∨ o = .subAssign)
    (x d : Ty) (hd : affineDiff x = some d) : mis2 o x d = none := by
  obtain ⟨h1, h2, h3, h4, h5⟩ := affineDiff_tags x d hd
  rcases ho with rfl | rfl | rfl | rfl | rfl | rfl <;>
    simp [mis2, h3, tagClash_diff x d hd h1 h2, unitClash_of_eq x d h4.symm h5.symm]

/-- Combining two values of the same type is a misuse only for point + point. -/
theorem mis2_self (o : Op2)
    (ho : o = .sub ∨ o = .mSub ∨ o = .subAssign ∨ o = .dot ∨ o = .cross ∨ o = .distance ∨ o = .vproj ∨ o = .min ∨
      o = .sproj ∨ o = .distanceSqr ∨ o = .rem ∨ o = .orientY ∨ o = .orientZ)
    (x : Ty) : mis2 o x x = none := by
  rcases ho with rfl | rfl | rfl | rfl | rfl | rfl | rfl | rfl | rfl | rfl | rfl | rfl | rfl <;>
    simp [mis2, tagClash_self, unitClash_self]

theorem mis2_add_self (o : Op2) (ho : o = .add ∨ o = .mAdd ∨ o = .addAssign) (x : Ty) (hx : x.isPt = false) :
    mis2 o x x = none := by
  rcases ho with rfl | rfl | rfl <;> simp [mis2, hx, tagClash_self, unitClash_self]

end Retro.TypeAlg
