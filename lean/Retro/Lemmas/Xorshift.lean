/-
GF(2) linear algebra on 64-bit words, for the period computation of `Retro.Rand.step`
(property C19).  A 64×64 matrix over GF(2) is the list of its 64 columns; `apply M x`
XORs the columns selected by the bits of `x`.

Part 1 (this file, `BitVec 64` layer): definitions and the algebra
  `apply_linear`, `apply_mul`, `apply_identity`, `apply_addMat`, `apply_matPow`,
  `apply_basis` (a XOR-linear map is the matrix of its values on the 64 basis vectors).
Part 2 (`Retro.Lemmas.XorshiftPacked`): a packed-`Nat` mirror that the kernel evaluates
  quickly, and the bridge between both.

Only `Mathlib.Logic.Function.Iterate` (definition of `f^[n]`) is imported, so the per-prime
certificate modules load in a moment.
-/
import Retro.Model.Rand
import Mathlib.Logic.Function.Iterate

namespace Retro.Xorshift
open Retro.Rand

/-- 64 columns, least significant input bit first. -/
abbrev Mat := List (BitVec 64)

def applyAux : List (BitVec 64) → Nat → BitVec 64 → BitVec 64
  | [], _, _ => 0#64
  | c :: cs, i, x => (bif x.getLsbD i then c else 0#64) ^^^ applyAux cs (i + 1) x

/-- GF(2) matrix–vector product: XOR of the columns `M[i]` with bit `i` of `x` set. -/
def apply (M : Mat) (x : BitVec 64) : BitVec 64 := applyAux M 0 x

/-- Matrix product (columns of `B` mapped through `A`). -/
def mul (A B : Mat) : Mat := B.map (apply A)

def identity : Mat := (List.range 64).map (BitVec.twoPow 64)

/-- Entry-wise sum; the longer operand's tail is kept so that `apply_addMat` needs no length
hypothesis. -/
def addMat : Mat → Mat → Mat
  | [], B => B
  | a :: A, [] => a :: A
  | a :: A, b :: B => (a ^^^ b) :: addMat A B

/-- Binary powering; structural on the fuel so that the kernel can evaluate it. -/
def matPowAux : Nat → Mat → Nat → Mat
  | 0, _, _ => identity
  | f + 1, M, n =>
    if n = 0 then identity
    else
      let H := matPowAux f M (n / 2)
      if n % 2 = 1 then mul M (mul H H) else mul H H

def matPow (M : Mat) (n : Nat) : Mat := matPowAux n M n

/-- The matrix of `next_bits`: column `i` is `step (2^i)`. -/
def stepMat : Mat := (List.range 64).map (fun i => step (BitVec.twoPow 64 i))

/-! ### XOR algebra -/

theorem xor4 (a b c d : BitVec 64) : (a ^^^ b) ^^^ (c ^^^ d) = (a ^^^ c) ^^^ (b ^^^ d) := by
  ext i; simp only [BitVec.getElem_xor]
  cases a[i] <;> cases b[i] <;> cases c[i] <;> cases d[i] <;> rfl

theorem shl_xor (a b : BitVec 64) (k : Nat) : (a ^^^ b) <<< k = (a <<< k) ^^^ (b <<< k) := by
  ext i; simp only [BitVec.getElem_shiftLeft, BitVec.getElem_xor]; cases decide (i < k) <;> simp

theorem shr_xor (a b : BitVec 64) (k : Nat) : (a ^^^ b) >>> k = (a >>> k) ^^^ (b >>> k) := by
  ext i; simp [BitVec.getElem_ushiftRight]

/-- `f` is additive over GF(2). -/
def Lin (f : BitVec 64 → BitVec 64) : Prop := ∀ x y, f (x ^^^ y) = f x ^^^ f y

theorem Lin.zero {f} (h : Lin f) : f 0#64 = 0#64 := by
  have h1 : f 0#64 = f 0#64 ^^^ f 0#64 := by
    have := h 0#64 0#64
    rwa [BitVec.xor_zero] at this
  have h2 : f 0#64 ^^^ f 0#64 = f 0#64 ^^^ (f 0#64 ^^^ f 0#64) := congrArg (f 0#64 ^^^ ·) h1
  rw [BitVec.xor_self, BitVec.xor_zero] at h2
  exact h2.symm

/-- (same statement as `Retro.Props.C19.step_linear`; repeated here because this file sits
below `Retro.Props.C19` in the import graph). -/
theorem step_lin : Lin step := by
  intro x y
  unfold step
  simp only [shl_xor, shr_xor, xor4]

/-! ### `apply` -/

theorem applyAux_zero (cs : List (BitVec 64)) (i : Nat) : applyAux cs i 0#64 = 0#64 := by
  induction cs generalizing i with
  | nil => rfl
  | cons c cs ih => simp [applyAux, ih]

theorem applyAux_xor (cs : List (BitVec 64)) (i : Nat) (x y : BitVec 64) :
    applyAux cs i (x ^^^ y) = applyAux cs i x ^^^ applyAux cs i y := by
  induction cs generalizing i with
  | nil => simp [applyAux]
  | cons c cs ih =>
    simp only [applyAux, ih, BitVec.getLsbD_xor]
    rw [xor4]
    congr 1
    cases x.getLsbD i <;> cases y.getLsbD i <;> simp

theorem apply_linear (M : Mat) : Lin (apply M) := fun x y => applyAux_xor M 0 x y

theorem apply_zero (M : Mat) : apply M 0#64 = 0#64 := applyAux_zero M 0

/-- A linear map commutes with the column combination. -/
theorem applyAux_map {f} (h : Lin f) (cs : List (BitVec 64)) (i : Nat) (x : BitVec 64) :
    applyAux (cs.map f) i x = f (applyAux cs i x) := by
  induction cs generalizing i with
  | nil => simp [applyAux, h.zero]
  | cons c cs ih =>
    simp only [List.map_cons, applyAux, ih, h _ _]
    congr 1
    cases x.getLsbD i <;> simp [h.zero]

theorem apply_mul (A B : Mat) (x : BitVec 64) : apply (mul A B) x = apply A (apply B x) :=
  applyAux_map (apply_linear A) B 0 x

theorem getLsbD_applyAux_basis (n i j : Nat) (x : BitVec 64) (hn : i + n ≤ 64) :
    (applyAux ((List.range' i n).map (BitVec.twoPow 64)) i x).getLsbD j
      = (decide (i ≤ j) && decide (j < i + n) && x.getLsbD j) := by
  induction n generalizing i with
  | zero =>
    have : (decide (i ≤ j) && decide (j < i + 0)) = false := by
      rw [Bool.and_eq_false_iff]; simp only [decide_eq_false_iff_not]; omega
    rw [this, Bool.false_and]
    simp [applyAux]
  | succ n ih =>
    rw [List.range'_succ, List.map_cons, applyAux, BitVec.getLsbD_xor, ih (i + 1) (by omega)]
    by_cases hij : i = j
    · subst hij
      have h1 : decide (i + 1 ≤ i) = false := by simp
      cases hx : x.getLsbD i <;> simp [BitVec.getLsbD_twoPow, h1]; omega
    · have h3 : (bif x.getLsbD i then BitVec.twoPow 64 i else 0#64).getLsbD j = false := by
        cases x.getLsbD i <;> simp [BitVec.getLsbD_twoPow, hij]
      rw [h3, Bool.false_xor]
      have h4 : (decide (i + 1 ≤ j) && decide (j < i + 1 + n))
          = (decide (i ≤ j) && decide (j < i + (n + 1))) := by
        rw [Bool.eq_iff_iff]; simp only [Bool.and_eq_true, decide_eq_true_eq]; omega
      rw [h4]

theorem apply_identity (x : BitVec 64) : apply identity x = x := by
  apply BitVec.eq_of_getLsbD_eq
  intro j hj
  have := getLsbD_applyAux_basis 64 0 j x (by omega)
  unfold apply identity
  rw [List.range_eq_range', this]
  simp [hj]

/-- A XOR-linear function is determined by its values on the 64 basis vectors. -/
theorem apply_basis {f} (h : Lin f) (x : BitVec 64) :
    apply ((List.range 64).map (fun i => f (BitVec.twoPow 64 i))) x = f x := by
  have : (List.range 64).map (fun i => f (BitVec.twoPow 64 i)) = identity.map f := by
    simp [identity, List.map_map, Function.comp_def]
  rw [this]
  show applyAux (identity.map f) 0 x = f x
  rw [applyAux_map h]
  exact congrArg f (apply_identity x)

theorem step_eq_apply (x : BitVec 64) : step x = apply stepMat x :=
  (apply_basis step_lin x).symm

theorem applyAux_addMat (A B : Mat) (i : Nat) (x : BitVec 64) :
    applyAux (addMat A B) i x = applyAux A i x ^^^ applyAux B i x := by
  induction A generalizing B i with
  | nil => simp [addMat, applyAux]
  | cons a A ih =>
    cases B with
    | nil => simp [addMat, applyAux]
    | cons b B =>
      simp only [addMat, applyAux, ih]
      rw [xor4]
      congr 1
      cases x.getLsbD i <;> simp

theorem apply_addMat (A B : Mat) (x : BitVec 64) :
    apply (addMat A B) x = apply A x ^^^ apply B x := applyAux_addMat A B 0 x

/-! ### Iteration -/

theorem apply_matPowAux (M : Mat) (f n : Nat) (h : n ≤ f) (x : BitVec 64) :
    apply (matPowAux f M n) x = (apply M)^[n] x := by
  induction f generalizing n x with
  | zero =>
    have : n = 0 := by omega
    subst this; exact apply_identity x
  | succ f ih =>
    unfold matPowAux
    by_cases h0 : n = 0
    · subst h0; simp [apply_identity]
    · have hh : n / 2 ≤ f := by omega
      simp only [h0, if_false]
      have hsq : ∀ y, apply (mul (matPowAux f M (n / 2)) (matPowAux f M (n / 2))) y
          = (apply M)^[n / 2 + n / 2] y := by
        intro y; rw [apply_mul, ih _ hh, ih _ hh, Function.iterate_add_apply]
      by_cases h1 : n % 2 = 1
      · simp only [h1, if_true]
        rw [apply_mul, hsq, ← Function.iterate_succ_apply' (apply M)]
        congr 1; omega
      · simp only [h1, if_false]
        rw [hsq]; congr 1; omega

theorem apply_matPow (M : Mat) (n : Nat) (x : BitVec 64) :
    apply (matPow M n) x = (apply M)^[n] x := apply_matPowAux M n n (Nat.le_refl n) x

theorem iterate_eq_pow (n : Nat) (x : BitVec 64) :
    step^[n] x = apply (matPow stepMat n) x := by
  have : step = apply stepMat := funext step_eq_apply
  rw [apply_matPow, this]

/-- From the matrix identity `M^n = 1` to the pointwise statement. -/
theorem iterate_of_pow_eq_identity {n : Nat} (h : matPow stepMat n = identity) (x : BitVec 64) :
    step^[n] x = x := by
  rw [iterate_eq_pow, h, apply_identity]

/-- If `J · (M^e + 1) = 1` then `step^[e]` has no fixed point but 0. -/
theorem fixed_eq_zero_of_inverse {J : Mat} {e : Nat}
    (h : mul J (addMat (matPow stepMat e) identity) = identity)
    (x : BitVec 64) (hx : step^[e] x = x) : x = 0#64 := by
  have h1 : apply (addMat (matPow stepMat e) identity) x = 0#64 := by
    rw [apply_addMat, ← iterate_eq_pow, hx, apply_identity, BitVec.xor_self]
  have h2 := apply_mul J (addMat (matPow stepMat e) identity) x
  rw [h, apply_identity, h1, apply_zero] at h2
  exact h2

end Retro.Xorshift
