/-
Packed mirror of `Retro.Lemmas.Xorshift`, written for evaluation by the Lean kernel
(`decide +kernel`), and the bridge to the `BitVec 64` layer.

A 64×64 matrix is ONE natural number: column `j` occupies bits `64·j … 64·j+63`
(`packM`).  The product then needs 64 big-number steps instead of 4096 word steps:

    A · B  =  XOR over i < 64 of   ((B >>> i) &&& ones) * column_i(A)

`(B >>> i) &&& ones` has bit `64·j` set iff bit `i` of column `j` of `B` is set, and multiplying
this by a 64-bit word `a` writes `a` into exactly those blocks (no carries: blocks are
disjoint).  `Nat.xor/land/shiftRight/mul/mod` on literals are run by the kernel's GMP
acceleration.

The kernel evaluates call-by-name with caches only, so every value that is used more than
once is passed through `force` (a `match` on the number: the kernel must reduce it to a
literal first).  `force x k = k x` (`force_eq`), so this is invisible to the theorems.

Measured: a full `stepMat ^ (2^64−1)` is ≈ 1 s in the kernel (the column-list version of the same
computation took 90 s and 6 GB).
-/
import Retro.Lemmas.Xorshift

namespace Retro.Xorshift
open Retro.Rand

/-- Continuation-passing `let` that is strict for the kernel. -/
def force {β : Type} (x : Nat) (k : Nat → β) : β :=
  match x with
  | 0 => k 0
  | n + 1 => k (Nat.succ n)

theorem force_eq {β : Type} (x : Nat) (k : Nat → β) : force x k = k x := by
  cases x <;> rfl

/-! ### One 64-bit block in front of a packed number -/

def blk (v P : Nat) : Nat := 2 ^ 64 * P + v

theorem testBit_blk {v : Nat} (hv : v < 2 ^ 64) (P j : Nat) :
    (blk v P).testBit j = if j < 64 then v.testBit j else P.testBit (j - 64) :=
  Nat.testBit_two_pow_mul_add P hv j

theorem blk_mod {v : Nat} (hv : v < 2 ^ 64) (P : Nat) : blk v P % 2 ^ 64 = v := by
  unfold blk; omega

theorem blk_shift {v : Nat} (hv : v < 2 ^ 64) (P : Nat) : blk v P >>> 64 = P := by
  rw [Nat.shiftRight_eq_div_pow]; unfold blk; omega

theorem blk_zero : blk 0 0 = 0 := rfl

theorem blk_xor {v w : Nat} (hv : v < 2 ^ 64) (hw : w < 2 ^ 64) (P Q : Nat) :
    blk v P ^^^ blk w Q = blk (v ^^^ w) (P ^^^ Q) := by
  apply Nat.eq_of_testBit_eq; intro j
  rw [Nat.testBit_xor, testBit_blk hv, testBit_blk hw, testBit_blk (Nat.xor_lt_two_pow hv hw)]
  split <;> simp [Nat.testBit_xor]

theorem blk_mul (v P a : Nat) : blk v P * a = blk (v * a) (P * a) := by
  unfold blk; rw [Nat.add_mul, Nat.mul_assoc]

/-- Selecting bit `i` of every block: the head block contributes its bit `i`, the rest recurses. -/
theorem blk_sel {v : Nat} (hv : v < 2 ^ 64) {i : Nat} (hi : i < 64) (P O : Nat) :
    (blk v P >>> i) &&& blk 1 O = blk ((v >>> i) % 2) ((P >>> i) &&& O) := by
  have h2 : (v >>> i) % 2 < 2 ^ 64 := by omega
  apply Nat.eq_of_testBit_eq; intro t
  rw [Nat.testBit_and, Nat.testBit_shiftRight, testBit_blk hv, testBit_blk (by omega : 1 < 2 ^ 64),
    testBit_blk h2]
  by_cases ht : t < 64
  · simp only [ht, if_true]
    cases t with
    | zero =>
      have : i + 0 < 64 := by omega
      simp only [this, if_true]
      simp
    | succ s =>
      have h1 : Nat.testBit 1 (s + 1) = false := Nat.testBit_lt_two_pow (by
        have := Nat.one_lt_two_pow (n := s + 1) (by omega); omega)
      have h3 : ((v >>> i) % 2).testBit (s + 1) = false := Nat.testBit_lt_two_pow (by
        have := Nat.one_lt_two_pow (n := s + 1) (by omega); omega)
      rw [h1, h3, Bool.and_false]
  · have h4 : ¬ (i + t < 64) := by omega
    simp only [ht, h4, if_false, Nat.testBit_and, Nat.testBit_shiftRight]
    congr 2; omega

/-! ### Packing a column list -/

def packM : Mat → Nat
  | [] => 0
  | b :: bs => blk b.toNat (packM bs)

/-- `n` blocks, each holding the number 1. -/
def ones : Nat → Nat
  | 0 => 0
  | n + 1 => blk 1 (ones n)

/-- Bit `i` of every column, one per block. -/
def sel (i : Nat) : Mat → Nat
  | [] => 0
  | b :: bs => blk (b.getLsbD i).toNat (sel i bs)

theorem sel_eq {i : Nat} (hi : i < 64) (Bs : Mat) :
    (packM Bs >>> i) &&& ones Bs.length = sel i Bs := by
  induction Bs with
  | nil => simp [packM, ones, sel]
  | cons b Bs ih =>
    simp only [packM, List.length_cons, ones, sel]
    rw [blk_sel b.isLt hi, ih]
    congr 1
    rw [BitVec.getLsbD, Nat.toNat_testBit, Nat.shiftRight_eq_div_pow]

theorem sel_mul (i : Nat) (a : BitVec 64) (Bs : Mat) :
    sel i Bs * a.toNat = packM (Bs.map fun b => bif b.getLsbD i then a else 0#64) := by
  induction Bs with
  | nil => simp [packM, sel]
  | cons b Bs ih =>
    simp only [sel, List.map_cons, packM, blk_mul, ih]
    congr 1
    cases b.getLsbD i <;> simp

theorem packM_map_xor (f g : BitVec 64 → BitVec 64) (Bs : Mat) :
    packM (Bs.map f) ^^^ packM (Bs.map g) = packM (Bs.map fun b => f b ^^^ g b) := by
  induction Bs with
  | nil => simp [packM]
  | cons b Bs ih =>
    simp only [List.map_cons, packM]
    rw [blk_xor (f b).isLt (g b).isLt, ih, BitVec.toNat_xor]

theorem packM_map_zero (Bs : Mat) : packM (Bs.map fun _ => 0#64) = 0 := by
  induction Bs with
  | nil => rfl
  | cons b Bs ih => simp only [List.map_cons, packM, ih]; rfl

theorem packM_addMat (A B : Mat) : packM (addMat A B) = packM A ^^^ packM B := by
  induction A generalizing B with
  | nil => simp [addMat, packM]
  | cons a A ih =>
    cases B with
    | nil => simp [addMat, packM]
    | cons b B =>
      simp only [addMat, packM, ih]
      rw [blk_xor a.isLt b.isLt, BitVec.toNat_xor]

theorem packM_inj {A B : Mat} (hl : A.length = B.length) (h : packM A = packM B) : A = B := by
  induction A generalizing B with
  | nil => cases B with
    | nil => rfl
    | cons b B => simp at hl
  | cons a A ih => cases B with
    | nil => simp at hl
    | cons b B =>
      simp only [packM] at h
      have h1 := congrArg (· % 2 ^ 64) h
      have h2 := congrArg (· >>> 64) h
      simp only [blk_mod a.isLt, blk_mod b.isLt, blk_shift a.isLt, blk_shift b.isLt] at h1 h2
      rw [BitVec.toNat_inj.mp h1, ih (by simpa using hl) h2]

/-! ### Packed product -/

/-- `acc ^^^` (the product of the first `k` columns of `A` — taken from bit `i` on — with `B`).
`L` is `ones 64`. -/
def mulAux : Nat → Nat → Nat → Nat → Nat → Nat → Nat
  | 0, _, _, _, _, acc => acc
  | k + 1, A, B, L, i, acc =>
    force (A >>> 64) fun A' =>
    force (i + 1) fun i' =>
    force (acc ^^^ ((B >>> i) &&& L) * (A % 2 ^ 64)) fun acc' =>
    mulAux k A' B L i' acc'

def mulP (L A B : Nat) : Nat := mulAux 64 A B L 0 0

theorem mulAux_spec (cs Bs : Mat) (i : Nat) (hi : i + cs.length ≤ 64) (acc : Nat) :
    mulAux cs.length (packM cs) (packM Bs) (ones Bs.length) i acc
      = acc ^^^ packM (Bs.map (applyAux cs i)) := by
  induction cs generalizing i acc with
  | nil =>
    have : (Bs.map (applyAux [] i)) = Bs.map fun _ => 0#64 := rfl
    rw [this, packM_map_zero]; simp [mulAux]
  | cons c cs ih =>
    have hi' : i < 64 := by simp only [List.length_cons] at hi; omega
    simp only [List.length_cons, mulAux, force_eq, packM, blk_shift c.isLt, blk_mod c.isLt]
    rw [ih (i + 1) (by simp only [List.length_cons] at hi; omega)]
    rw [sel_eq hi' Bs, sel_mul, Nat.xor_assoc, packM_map_xor]
    rfl

theorem mulP_spec (A B : Mat) (hA : A.length = 64) (hB : B.length = 64) :
    mulP (ones 64) (packM A) (packM B) = packM (mul A B) := by
  have := mulAux_spec A B 0 (by omega) 0
  rw [hA, hB, Nat.zero_xor] at this
  exact this

/-! ### Packed powering -/

/-- `M`, `I` (packed identity) and `L = ones 64` are literals supplied by the caller. -/
def matPowAuxP : Nat → Nat → Nat → Nat → Nat → Nat
  | 0, _, I, _, _ => I
  | f + 1, M, I, L, n =>
    force n fun n =>
    if n = 0 then I
    else
      force (matPowAuxP f M I L (n / 2)) fun H =>
      force (mulP L H H) fun S =>
      if n % 2 = 1 then mulP L M S else S

theorem length_identity : identity.length = 64 := by simp [identity]
theorem length_stepMat : stepMat.length = 64 := by simp [stepMat]
theorem length_mul (A B : Mat) : (mul A B).length = B.length := by simp [mul]

theorem length_matPowAux (f : Nat) (M : Mat) (n : Nat) :
    (matPowAux f M n).length = 64 := by
  induction f generalizing n with
  | zero => exact length_identity
  | succ f ih =>
    unfold matPowAux
    by_cases h0 : n = 0
    · simp only [h0, if_true]; exact length_identity
    · simp only [h0, if_false]
      by_cases h1 : n % 2 = 1
      · simp only [h1, if_true, length_mul, ih]
      · simp only [h1, if_false, length_mul, ih]

theorem length_addMat (A B : Mat) (h : A.length = B.length) : (addMat A B).length = A.length := by
  induction A generalizing B with
  | nil => cases B with
    | nil => rfl
    | cons b B => simp at h
  | cons a A ih => cases B with
    | nil => simp at h
    | cons b B => simp only [addMat, List.length_cons, ih B (by simpa using h)]

theorem packM_matPowAux (f : Nat) (M : Mat) (n : Nat) (hM : M.length = 64) :
    packM (matPowAux f M n) = matPowAuxP f (packM M) (packM identity) (ones 64) n := by
  induction f generalizing n with
  | zero => rfl
  | succ f ih =>
    unfold matPowAux matPowAuxP
    simp only [force_eq]
    have hl := length_matPowAux f M (n / 2)
    have hsq := mulP_spec _ _ hl hl
    by_cases h0 : n = 0
    · simp only [h0, if_true]
    · simp only [h0, if_false]
      rw [← ih, hsq]
      by_cases h1 : n % 2 = 1
      · simp only [h1, if_true]
        rw [mulP_spec M _ hM (by rw [length_mul]; exact hl)]
      · simp only [h1, if_false]

/-! ### The two kernel-evaluated checks -/

/-- `stepMat ^ n`, packed. -/
def powP (n : Nat) : Nat :=
  force (packM stepMat) fun M =>
  force (packM identity) fun I =>
  force (ones 64) fun L =>
  matPowAuxP n M I L n

theorem powP_eq (n : Nat) : powP n = packM (matPow stepMat n) := by
  simp only [powP, force_eq, matPow, packM_matPowAux _ _ _ length_stepMat]

/-- `J · (stepMat ^ e + 1)`, packed. -/
def certP (J : Mat) (e : Nat) : Nat :=
  force (packM J) fun Jp =>
  force (powP e ^^^ packM identity) fun A =>
  force (ones 64) fun L =>
  mulP L Jp A

theorem length_pow (n : Nat) : (matPow stepMat n).length = 64 :=
  length_matPowAux n stepMat n

theorem certP_eq (J : Mat) (hJ : J.length = 64) (e : Nat) :
    certP J e = packM (mul J (addMat (matPow stepMat e) identity)) := by
  have hl : (addMat (matPow stepMat e) identity).length = 64 := by
    rw [length_addMat _ _ (by rw [length_pow, length_identity]), length_pow]
  simp only [certP, force_eq, powP_eq, ← packM_addMat]
  exact mulP_spec J _ hJ hl

theorem pow_eq_identity_of_powP {n : Nat} (h : powP n = packM identity) :
    matPow stepMat n = identity := by
  rw [powP_eq] at h
  exact packM_inj (by rw [length_pow, length_identity]) h

theorem inverse_of_certP {J : Mat} (hJ : J.length = 64) {e : Nat}
    (h : certP J e = packM identity) :
    mul J (addMat (matPow stepMat e) identity) = identity := by
  rw [certP_eq J hJ] at h
  refine packM_inj ?_ h
  rw [length_mul, length_addMat _ _ (by rw [length_pow, length_identity]), length_pow,
    length_identity]

end Retro.Xorshift
