/-
GF(2)-linear Boolean functionals on 64-bit words (property C19, unit-sphere part).

A parity `par S x := XOR_{(n, j) ∈ S} bit j of step^[n] x` is XOR-linear in `x`; a XOR-linear
functional that vanishes on the 64 basis words `2^i` vanishes on every word
(`LinB.eq_false_of_basis`, through `apply_identity`: `x` is the XOR of the basis words selected by its
bits).  So a kernel check on 64 words decides a statement about all 2^64 states.

Imports only `Retro.Lemmas.Xorshift`.
-/
import Retro.Lemmas.Xorshift

namespace Retro.Xorshift
open Retro.Rand

/-- `φ` is additive over GF(2) with values in `Bool`. -/
def LinB (φ : BitVec 64 → Bool) : Prop := ∀ x y, φ (x ^^^ y) = (φ x ^^ φ y)

theorem LinB.zero {φ} (h : LinB φ) : φ 0#64 = false := by
  have h0 := h 0#64 0#64
  rw [BitVec.xor_zero] at h0
  cases hφ : φ 0#64
  · rfl
  · rw [hφ] at h0; exact absurd h0 (by decide)

/-- A linear functional that kills every column kills every column combination. -/
theorem LinB.applyAux {φ} (h : LinB φ) (cs : List (BitVec 64)) (hc : ∀ c ∈ cs, φ c = false)
    (i : Nat) (x : BitVec 64) : φ (Xorshift.applyAux cs i x) = false := by
  induction cs generalizing i with
  | nil => exact h.zero
  | cons c cs ih =>
    rw [Xorshift.applyAux, h, ih (fun c' hc' => hc c' (List.mem_cons_of_mem _ hc'))]
    cases x.getLsbD i
    · simp [h.zero]
    · simp [hc c List.mem_cons_self]

/-- **A XOR-linear Boolean functional that is 0 on the 64 basis words is 0 on every word.** -/
theorem LinB.eq_false_of_basis {φ} (h : LinB φ)
    (hb : ∀ i < 64, φ (BitVec.twoPow 64 i) = false) (x : BitVec 64) : φ x = false := by
  rw [← apply_identity x]
  refine h.applyAux identity ?_ 0 x
  intro c hc
  simp only [identity, List.mem_map, List.mem_range] at hc
  obtain ⟨i, hi, rfl⟩ := hc
  exact hb i hi

/-- Iterates of a linear map are linear. -/
theorem Lin.iterate {f} (h : Lin f) (n : Nat) : Lin (f^[n]) := by
  induction n with
  | zero => intro x y; rfl
  | succ n ih =>
    intro x y
    rw [Function.iterate_succ_apply, Function.iterate_succ_apply, Function.iterate_succ_apply, h, ih]

/-- Bit `p.2` of the `p.1`-th generator output after state `x`. -/
def bitAt (x : BitVec 64) (p : Nat × Nat) : Bool := (step^[p.1] x).getLsbD p.2

/-- Parity (XOR) of the selected output bits. -/
def par : List (Nat × Nat) → BitVec 64 → Bool
  | [], _ => false
  | p :: S, x => bitAt x p ^^ par S x

/-- The same parity of prescribed bit values `t`. -/
def parOf (t : Nat × Nat → Bool) : List (Nat × Nat) → Bool
  | [] => false
  | p :: S => t p ^^ parOf t S

theorem bitAt_xor (x y : BitVec 64) (p : Nat × Nat) : bitAt (x ^^^ y) p = (bitAt x p ^^ bitAt y p) := by
  unfold bitAt
  rw [step_lin.iterate p.1 x y, BitVec.getLsbD_xor]

theorem par_linB (S : List (Nat × Nat)) : LinB (par S) := by
  intro x y
  induction S with
  | nil => rfl
  | cons p S ih =>
    simp only [par, ih, bitAt_xor]
    cases bitAt x p <;> cases bitAt y p <;> cases par S x <;> cases par S y <;> rfl

/-- If every selected bit has its prescribed value, the parity is the parity of the prescription. -/
theorem par_eq_parOf (t : Nat × Nat → Bool) (S : List (Nat × Nat)) (x : BitVec 64)
    (h : ∀ p ∈ S, bitAt x p = t p) : par S x = parOf t S := by
  induction S with
  | nil => rfl
  | cons p S ih =>
    simp only [par, parOf]
    rw [h p List.mem_cons_self, ih (fun q hq => h q (List.mem_cons_of_mem _ hq))]

/-- A parity that vanishes on the 64 basis states vanishes on every state. -/
theorem par_eq_false_of_basis (S : List (Nat × Nat))
    (hb : ∀ i < 64, par S (BitVec.twoPow 64 i) = false) (x : BitVec 64) : par S x = false :=
  (par_linB S).eq_false_of_basis hb x

end Retro.Xorshift
