/-
Model of core/src/math/angle.rs: `Angle` (a newtype over radians), unit conversions, `wrap`
(via `f32::rem_euclid`), clamp/min/max/operators, and the polar / spherical coordinate changes.

Generic over the scalar. `π` is a *parameter* (`pi`): the Rust constants are
`RADS_PER_DEG = PI / 180.0` and `RADS_PER_TURN = TAU` (= `2·PI`, exactly, also in `f32`).
The trigonometric functions, `sqrt` and `atan2` are *parameters* of the coordinate-change
skeletons: the driver instantiates them with the values `std` produced (reported by the harness),
the theorems with Mathlib's real functions. An `Angle` is modelled as its radian value.
-/
import Retro.Model.Spline

namespace Retro.Angle
open Retro.Spline (HasFloorInt clampS)

section Units
variable {α : Type} [Mul α] [Div α] [OfNat α 2] [OfNat α 180]

/-- angle.rs:129 `RADS_PER_DEG = PI / 180.0` -/
def radsPerDeg (pi : α) : α := pi / 180
/-- angle.rs:130 `RADS_PER_TURN = TAU` -/
def radsPerTurn (pi : α) : α := 2 * pi

/-- angle.rs:47 -/
def rads (a : α) : α := a
/-- angle.rs:52 -/
def degs (pi a : α) : α := a * radsPerDeg pi
/-- angle.rs:57 -/
def turns (pi a : α) : α := a * radsPerTurn pi
/-- angle.rs:154 -/
def toRads (x : α) : α := x
/-- angle.rs:163 -/
def toDegs (pi x : α) : α := x / radsPerDeg pi
/-- angle.rs:173 -/
def toTurns (pi x : α) : α := x / radsPerTurn pi
end Units

section Ord
variable {α : Type} [LT α] [DecidableLT α]

/-- angle.rs:178 `f32::min` on non-NaN values -/
def amin (a b : α) : α := if b < a then b else a
/-- angle.rs:182 `f32::max` on non-NaN values -/
def amax (a b : α) : α := if a < b then b else a
/-- angle.rs:198 `f32::clamp`: `assert!(min <= max)` then clamp. -/
def aclamp (a mn mx : α) : Outcome α :=
  if mx < mn then .panic "min > max" else .ok (clampS a mn mx)
end Ord

section Ops
variable {α : Type} [Add α] [Sub α] [Mul α] [Div α] [Neg α]

/-- angle.rs:499-529: the operators act on the stored radians. -/
def aadd (a b : α) : α := a + b
def asub (a b : α) : α := a - b
def aneg (a : α) : α := -a
def amul (a s : α) : α := a * s
def adiv (a s : α) : α := a / s
end Ops

section Inverse
variable {α : Type} [Neg α] [LE α] [DecidableLE α] [OfNat α 1]

/-- angle.rs:76-79 `asin`: `assert!(-1.0 <= x && x <= 1.0)`, then `f32::asin`. -/
def asinChecked (asin : α → α) (x : α) : Outcome α :=
  if -1 ≤ x ∧ x ≤ 1 then .ok (asin x) else .panic "assertion failed: -1.0 <= x && x <= 1.0"
end Inverse

section Rem
variable {α : Type} [Add α] [Sub α] [Mul α] [Div α] [Neg α] [LT α] [DecidableLT α]
  [OfNat α 0] [IntCast α] [HasFloorInt α]

/-- Integer part toward zero of a scalar. -/
def truncInt (x : α) : Int :=
  if x < 0 then -(HasFloorInt.floorInt (-x)) else HasFloorInt.floorInt x

/-- `x % m` on floats (`fmod`): `x − trunc(x/m)·m`, computed exactly; the result has the sign of
`x`. (IEEE `fmod` is exact, so this is also the `f32` value when `x` and `m` are.)
`x % 0.0` is NaN: `none`. No value is ever computed from a division by zero. -/
def fmod (x m : α) : Option α :=
  if m < 0 ∨ 0 < m then some (x - ((truncInt (x / m) : Int) : α) * m) else none

def absS (m : α) : α := if m < 0 then -m else m

/-- `f32::rem_euclid`: `let r = self % rhs; if r < 0.0 { r + rhs.abs() } else { r }` – std's
algorithm, and since /repo e9e07c1 also `float::fallback::rem_euclid` (float.rs:131-136, used by
the no_std and libm backends). NaN (`none`) for a zero modulus. -/
def remEuclid (x m : α) : Option α :=
  match fmod x m with
  | some r => some (if r < 0 then r + absS m else r)
  | none => none

/-- angle.rs:261-263 `wrap`: `min + rem_euclid(self − min, max − min)`. `none` = NaN, which is
what the code returns for the degenerate interval `max = min`. A reversed interval (`max < min`)
is not rejected: the modulus enters through `abs`, see `Props.C18.wrap_reversed`. -/
def wrap (a mn mx : α) : Option α :=
  match remEuclid (a - mn) (mx - mn) with
  | some r => some (mn + r)
  | none => none

/-- angle.rs:530-535 `Rem for Angle` (`none` = NaN for a zero divisor). -/
def arem (a b : α) : Option α := fmod a b
end Rem

section Coords
variable {α : Type} [Add α] [Mul α] [OfNat α 0]

/-- angle.rs:237 `sin_cos`: `(self.sin(), self.cos())`. -/
def sinCos (sin cos : α → α) (a : α) : α × α := (sin a, cos a)

/-- angle.rs:304-307 `PolarVec::to_cart`: `let (y, x) = az.sin_cos(); vec2(x, y) * r`. -/
def polarToCart (sin cos : α → α) (r az : α) : α × α :=
  let yx := sinCos sin cos az
  (yx.2 * r, yx.1 * r)

/-- vec.rs:188-194 `dot` of a 2-vector with itself: left fold from zero. -/
def dot2 (x y : α) : α := (0 + x * x) + y * y
/-- the same for a 3-vector -/
def dot3 (x y z : α) : α := ((0 + x * x) + y * y) + z * z

/-- angle.rs:379-383 `Vec2::to_polar`: `r = len() = sqrt(dot)`, `az = atan2(y, x)`. -/
def cartToPolar (sqrt : α → α) (atan2 : α → α → α) (x y : α) : α × α :=
  (sqrt (dot2 x y), atan2 y x)

/-- angle.rs:332-341 `SphericalVec::to_cart`: `x = cos_az·cos_alt, z = sin_az·cos_alt, y = sin_alt`,
then `r * vec3(x, y, z)` (vec.rs:604: `rhs * self`, i.e. each component times `r`). -/
def sphToCart (sin cos : α → α) (r az alt : α) : α × α × α :=
  let sa := sinCos sin cos alt
  let sz := sinCos sin cos az
  let x := sz.2 * sa.2
  let z := sz.1 * sa.2
  let y := sa.1
  (x * r, y * r, z * r)

/-- angle.rs:418-424 `Vec3::to_spherical`: `az = atan2(z, x)`, `alt = atan2(y, sqrt(x·x + z·z))`,
`r = len()`. Result `(r, az, alt)`. -/
def cartToSph (sqrt : α → α) (atan2 : α → α → α) (x y z : α) : α × α × α :=
  let az := atan2 z x
  let alt := atan2 y (sqrt (x * x + z * z))
  let r := sqrt (dot3 x y z)
  (r, az, alt)

end Coords

end Retro.Angle
