/-
Model of `core/src/util/buf.rs` (Buf2 / Slice2 / MutSlice2 through their common `Inner`)
and of the range forms of `core/src/util/rect.rs`.

The backing storage of the *root* object (the `Vec` of a `Buf2`, or the slice handed to
`Slice2::new` / `MutSlice2::new`) is a `List α`.  A view is the absolute window
`{w h stride off len}`: its `data` field is the sub-slice `root[off .. off+len]` — exactly what the
re-borrow `&self.data[rg]` of `slice`/`slice_mut` denotes.  All `u32` arithmetic panics on overflow
(the harness profile has overflow checks on), all slice indexing panics as in Rust.

Import-free (only `Retro.Basic`) so the driver links without Mathlib.
-/
import Retro.Basic

namespace Retro.Buf
open Retro

/-- `u32::MAX + 1`. A macro, so that the literal itself appears in terms (`omega` sees it). -/
local macro "U32" : term => `((4294967296 : Nat))

/-! ### u32 arithmetic in the debug profile

Used where the Rust code still computes in `u32`: `Buf2::new`'s `w * h` and the `x + 1` of the
range-form conversion in rect.rs. `Inner::new` and `to_index` compute in `usize` (since 7b7718a):
with `u32` operands on a 64-bit target that cannot overflow, in either profile, so they are plain
`Nat` arithmetic below. -/

def mulU32 (a b : Nat) : Outcome Nat :=
  if a * b < U32 then .ok (a * b) else .panic "attempt to multiply with overflow"

def addU32 (a b : Nat) : Outcome Nat :=
  if a + b < U32 then .ok (a + b) else .panic "attempt to add with overflow"

/-! ### Views -/

/-- `Inner { dims: (w, h), stride, data }` where `data = root[off .. off+len]` (buf.rs:363-368). -/
structure View where
  w : Nat
  h : Nat
  stride : Nat
  off : Nat
  len : Nat
  deriving Repr, DecidableEq, Inhabited

/-- buf.rs:397-400 `is_contiguous`. -/
def isContiguous (v : View) : Bool := v.stride == v.w || decide (v.h ≤ 1) || v.w == 0

/-- buf.rs:402-404 `is_empty`. -/
def isEmpty (v : View) : Bool := v.w == 0 || v.h == 0

/-- buf.rs:409-411 `to_index`: `y as usize * self.stride as usize + x as usize`. Cannot overflow
(`u32` operands, 64-bit `usize`); kept as an `Outcome` so that callers read like the Rust code. -/
def toIndex (v : View) (x y : Nat) : Outcome Nat := .ok (y * v.stride + x)

/-- buf.rs:427-430 `to_index_checked`. -/
def toIndexChecked (v : View) (x y : Nat) : Outcome (Option Nat) :=
  if x < v.w ∧ y < v.h then
    match toIndex v x y with
    | .ok i => .ok (some i)
    | .panic m => .panic m
  else .ok none

/-- buf.rs:416-423 `to_index_strict`. -/
def toIndexStrict (v : View) (x y : Nat) : Outcome Nat :=
  match toIndexChecked v x y with
  | .panic m => .panic m
  | .ok (some i) => .ok i
  | .ok none => .panic "position out of bounds"

/-- buf.rs:484-505 `Inner::new(dims, stride, data)` with `data.len() = len`: the four assertions. -/
def innerNew (w h stride len : Nat) : Outcome Unit :=
  if ¬ w ≤ stride then .panic "width > stride"
  else if ¬ (h ≤ 1 ∨ stride ≤ len) then .panic "stride > data length"
  else if ¬ (w = 0 ∨ h ≤ len) then .panic "height > data length"
  else if 0 < h then
    -- buf.rs:497-502 `let size = (h as usize - 1) * stride as usize + w as usize; assert!(size <= len)`
    if (h - 1) * stride + w ≤ len then .ok () else .panic "required size > data length"
  else .ok ()

/-- `Slice2::new` / `MutSlice2::new` (buf.rs:229, 239) over a slice of `n` elements:
the view keeps the *whole* slice (`off = 0`, `len = n`). -/
def sliceNew (w h stride n : Nat) : Outcome View :=
  match innerNew w h stride n with
  | .panic m => .panic m
  | .ok () => .ok { w := w, h := h, stride := stride, off := 0, len := n }

/-- buf.rs:143-149 `Buf2::new((w, h))`: `vec![T::default(); (w * h) as usize]` then `Inner::new`.
Returns the view and the backing vector. -/
def buf2New {α : Type} (w h : Nat) (dflt : α) : Outcome (View × List α) :=
  match mulU32 w h with
  | .panic m => .panic m
  | .ok n =>
    match innerNew w h w n with
    | .panic m => .panic m
    | .ok () => .ok ({ w := w, h := h, stride := w, off := 0, len := n }, List.replicate n dflt)

/-- `isize::MAX` on the 64-bit targets the harness runs on. -/
def isizeMax : Nat := 9223372036854775807

/-- buf.rs:105-126 `Buf2::new_from((w, h), init)` for an iterator yielding the elements of `init`. -/
def buf2NewFrom {α : Type} (w h : Nat) (init : List α) : Outcome (View × List α) :=
  if w * h > isizeMax then .panic "w * h cannot exceed isize::MAX"
  else
    let data := init.take (w * h)
    if data.length ≠ w * h then .panic "insufficient items in iterator"
    else
      match innerNew w h w data.length with
      | .panic m => .panic m
      | .ok () => .ok ({ w := w, h := h, stride := w, off := 0, len := data.length }, data)

/-- The `iter::from_fn` closure of `Buf2::new_with` (buf.rs:174-185): `fuel` calls starting at `(x, y)`. -/
def newWithSeq {α : Type} (w : Nat) (f : Nat → Nat → α) : Nat → Nat → Nat → List α
  | 0, _, _ => []
  | n + 1, x, y =>
    f x y :: (if x + 1 = w then newWithSeq w f n 0 (y + 1) else newWithSeq w f n (x + 1) y)

/-- buf.rs:170-186 `Buf2::new_with`. (`take(len)` stops the infinite iterator after `w*h` calls.) -/
def buf2NewWith {α : Type} (w h : Nat) (f : Nat → Nat → α) : Outcome (View × List α) :=
  if w * h > isizeMax then .panic "w * h cannot exceed isize::MAX"
  else buf2NewFrom w h (newWithSeq w f (w * h) 0 0)

/-! ### Rectangles (rect.rs) -/

/-- rect.rs:18-27 `Rect<u32>`: each side bounded or not. -/
structure Rect where
  left : Option Nat := none
  top : Option Nat := none
  right : Option Nat := none
  bottom : Option Nat := none
  deriving Repr, DecidableEq, Inhabited

/-- `core::ops::Bound<u32>`. -/
inductive Bound where
  | incl (x : Nat)
  | excl (x : Nat)
  | unb
  deriving Repr, DecidableEq, Inhabited

/-- rect.rs:120-124 the `resolve` closure: `Included(x) => Some(x + i)`, `Excluded(x) => Some(x + e)`. -/
def resolveBound (b : Bound) (i e : Nat) : Outcome (Option Nat) :=
  match b with
  | .incl x => match addU32 x i with | .ok r => .ok (some r) | .panic m => .panic m
  | .excl x => match addU32 x e with | .ok r => .ok (some r) | .panic m => .panic m
  | .unb => .ok none

/-- rect.rs:116-132 `From<(H, V)> for Rect<u32>`: start bounds inclusive, end bounds exclusive. -/
def Rect.ofBounds (hs he vs ve : Bound) : Outcome Rect :=
  match resolveBound hs 0 1 with
  | .panic m => .panic m
  | .ok left =>
    match resolveBound vs 0 1 with
    | .panic m => .panic m
    | .ok top =>
      match resolveBound he 1 0 with
      | .panic m => .panic m
      | .ok right =>
        match resolveBound ve 1 0 with
        | .panic m => .panic m
        | .ok bottom => .ok { left := left, top := top, right := right, bottom := bottom }

/-- rect.rs:134-145 `From<Range<Vec2u>>`. -/
def Rect.ofCorners (l t r b : Nat) : Rect :=
  { left := some l, top := some t, right := some r, bottom := some b }

/-- rect.rs:147-157 `From<RangeFull>`. -/
def Rect.full : Rect := {}

/-! ### Slicing -/

/-- buf.rs:433-465 `resolve_bounds`: `(w', h', start, end)`. -/
def resolveBounds (v : View) (rc : Rect) : Outcome (Nat × Nat × Nat × Nat) :=
  let l := rc.left.getD 0
  let t := rc.top.getD 0
  let r := rc.right.getD v.w
  let b := rc.bottom.getD v.h
  if ¬ l ≤ r then .panic "range left > right"
  else if ¬ t ≤ b then .panic "range top > bottom"
  else if ¬ r ≤ v.w then .panic "range right > width"
  else if ¬ b ≤ v.h then .panic "range bottom > height"
  else if b = t then
    -- buf.rs:450-454: a view of zero height contains no elements: `return ((r - l, 0), 0..0)`
    .ok (r - l, 0, 0, 0)
  else
    match toIndex v l t with
    | .panic m => .panic m
    | .ok start =>
      -- buf.rs:458-463 (the `b == t` arm is dead after the early return; kept literally)
      match (if b = t then toIndex v r t else toIndex v r (b - 1)) with
      | .panic m => .panic m
      | .ok stop => .ok (r - l, b - t, start, stop)

/-- `&data[start..stop]` on a slice of length `len` (core::slice::index, message chosen as rustc 1.95 does). -/
def sliceRangeCheck (len start stop : Nat) : Outcome Unit :=
  if start > len then .panic "range start index out of range"
  else if stop > len then .panic "range end index out of range"
  else if start > stop then .panic "slice index starts at a greater index than it ends"
  else .ok ()

/-- buf.rs:521-524 `slice` and buf.rs:643-646 `slice_mut`: `resolve_bounds`, re-borrow
`&self.data[rg]`, `Inner::new(dims, self.stride, …)`. -/
def slice (v : View) (rc : Rect) : Outcome View :=
  match resolveBounds v rc with
  | .panic m => .panic m
  | .ok (w', h', start, stop) =>
    match sliceRangeCheck v.len start stop with
    | .panic m => .panic m
    | .ok () =>
      match innerNew w' h' v.stride (stop - start) with
      | .panic m => .panic m
      | .ok () => .ok { w := w', h := h', stride := v.stride, off := v.off + start, len := stop - start }

/-- buf.rs:513-515 / 554-556 `as_slice2` / `as_mut_slice2`: `Slice2::new(self.dims, self.stride, &self.data)`. -/
def asSlice (v : View) : Outcome View :=
  match innerNew v.w v.h v.stride v.len with
  | .panic m => .panic m
  | .ok () => .ok v

/-! ### Reading -/

section Read
variable {α : Type}

/-- The `data` field of the view: `root[off .. off+len]`. -/
def viewData (root : List α) (v : View) : List α := (root.drop v.off).take v.len

/-- The view's slice lies inside the root storage. Always true of views obtained through the API
(`Props.C11.reachable_inv`); the operations below check it instead of assuming it. -/
def viewFits (root : List α) (v : View) : Bool := decide (v.off + v.len ≤ root.length)

/-- `self.data[i]`. -/
def dataAt (root : List α) (v : View) (i : Nat) : Outcome α :=
  match (viewData root v)[i]? with
  | some a => .ok a
  | none => .panic "index out of bounds"

/-- buf.rs:528-531 `get`. -/
def get (root : List α) (v : View) (x y : Nat) : Outcome (Option α) :=
  match toIndexChecked v x y with
  | .panic m => .panic m
  | .ok none => .ok none
  | .ok (some i) =>
    match dataAt root v i with
    | .ok a => .ok (some a)
    | .panic m => .panic m

/-- buf.rs:701-704 `Index<Pos>`: `&self.data[self.to_index_strict(x, y)]`. -/
def indexPt (root : List α) (v : View) (x y : Nat) : Outcome α :=
  match toIndexStrict v x y with
  | .panic m => .panic m
  | .ok i => dataAt root v i

/-- buf.rs:659-665 `Index<usize>` (and 680-686 `IndexMut<usize>`):
`to_index_strict(0, u32::try_from(i).unwrap_or(u32::MAX))` then `&self.data[idx..][..w]`,
as the window `(start, length)` inside the view's data. -/
def rowWindow (v : View) (i : Nat) : Outcome (Nat × Nat) :=
  match toIndexStrict v 0 (if i < U32 then i else 4294967295) with
  | .panic m => .panic m
  | .ok idx =>
    if idx > v.len then .panic "range start index out of range"
    else if v.w > v.len - idx then .panic "range end index out of range"
    else .ok (idx, v.w)

/-- `data[start..][..n]` once the window has been bounds-checked against `v.len`. -/
def readRange (root : List α) (v : View) (start n : Nat) : Outcome (List α) :=
  let r := ((viewData root v).drop start).take n
  if r.length = n then .ok r else .panic "model: view exceeds its root storage"

/-- buf.rs:659-665 `Index<usize>`. -/
def rowIndex (root : List α) (v : View) (i : Nat) : Outcome (List α) :=
  match rowWindow v i with
  | .panic m => .panic m
  | .ok (s, n) => readRange root v s n

/-- `slice.chunks(n)` (n ≥ 1) on a slice of `rem` remaining elements starting at `start`,
as `(start, length)` windows: full chunks of `n`, a shorter last one, none when empty. -/
def chunkWindows (n : Nat) : Nat → Nat → Nat → List (Nat × Nat)
  | 0, _, _ => []
  | fuel + 1, start, rem =>
    if rem = 0 then [] else (start, min n rem) :: chunkWindows n fuel (start + n) (rem - n)

/-- `.map(|row| &row[..w])`: every yielded chunk must be at least `w` long. -/
def rowStartsOf (w : Nat) : List (Nat × Nat) → Outcome (List Nat)
  | [] => .ok []
  | (s, l) :: rest =>
    if w ≤ l then
      match rowStartsOf w rest with
      | .ok r => .ok (s :: r)
      | .panic m => .panic m
    else .panic "range end index out of range"

/-- buf.rs:536-541 / 566-571 `rows` / `rows_mut`:
`data.chunks(stride.max(1)).take(h).map(|row| &row[..w])`, as the start index of every row. -/
def rowWindows (v : View) : Outcome (List Nat) :=
  rowStartsOf v.w ((chunkWindows (max v.stride 1) v.len 0 v.len).take v.h)

def readRows (root : List α) (v : View) : List Nat → Outcome (List (List α))
  | [] => .ok []
  | s :: ss =>
    match readRange root v s v.w with
    | .panic m => .panic m
    | .ok r =>
      match readRows root v ss with
      | .panic m => .panic m
      | .ok rs => .ok (r :: rs)

/-- buf.rs:536-541 `rows`, fully consumed. -/
def rows (root : List α) (v : View) : Outcome (List (List α)) :=
  match rowWindows v with
  | .panic m => .panic m
  | .ok starts => readRows root v starts

/-- buf.rs:547-549 `iter`: `self.rows().flatten()`. -/
def iter (root : List α) (v : View) : Outcome (List α) :=
  match rows root v with
  | .panic m => .panic m
  | .ok rs => .ok rs.flatten

end Read

/-! ### Writing -/

section Write
variable {α : Type}

/-- `self.data[i] = a`. -/
def dataSet (root : List α) (v : View) (i : Nat) (a : α) : Outcome (List α) :=
  if i < v.len ∧ v.off + i < root.length then .ok (root.set (v.off + i) a)
  else .panic "index out of bounds"

/-- buf.rs:717-721 `IndexMut<Pos>`: `self[pos] = a`. -/
def setPoint (root : List α) (v : View) (x y : Nat) (a : α) : Outcome (List α) :=
  match toIndexStrict v x y with
  | .panic m => .panic m
  | .ok i => dataSet root v i a

/-- buf.rs:633-637 `get_mut(pos)` followed by an assignment through the reference if it is `Some`.
`none` = the call returned `None` and nothing was written. -/
def getMutSet (root : List α) (v : View) (x y : Nat) (a : α) : Outcome (Option (List α)) :=
  match toIndexChecked v x y with
  | .panic m => .panic m
  | .ok none => .ok none
  | .ok (some i) =>
    match dataSet root v i a with
    | .ok r => .ok (some r)
    | .panic m => .panic m

/-- buf.rs:680-686 `IndexMut<usize>` then element `j` of the row: `self[i][j] = a`. -/
def rowSet (root : List α) (v : View) (i j : Nat) (a : α) : Outcome (List α) :=
  match rowWindow v i with
  | .panic m => .panic m
  | .ok (s, n) => if j < n then dataSet root v (s + j) a else .panic "index out of bounds"

/-- Consecutive stores `root[start] = a₀, root[start+1] = a₁, …` (`fill`, `copy_from_slice`, a `for` over a row). -/
def setRun (root : List α) (start : Nat) : List α → List α
  | [] => root
  | a :: as => setRun (root.set start a) (start + 1) as

/-- Row-wise stores: the `k`-th yielded row (starting at `off + startsₖ`) receives the `k`-th list.
`zip` semantics: stops with the shorter of the two. -/
def writeRows (root : List α) (off : Nat) : List Nat → List (List α) → List α
  | s :: ss, r :: rs => writeRows (setRun root (off + s) r) off ss rs
  | _, _ => root

/-- The common shape of everything that goes through `rows_mut()`: row `y` receives `vals y`
truncated to the row (each `vals y` has length `w` at all call sites). -/
def rowsMutWrite (root : List α) (v : View) (vals : Nat → List α) : Outcome (List α) :=
  if ¬ viewFits root v then .panic "model: view exceeds its root storage"
  else
    match rowWindows v with
    | .panic m => .panic m
    | .ok starts => .ok (writeRows root v.off starts ((List.range starts.length).map vals))

/-- buf.rs:580-592 `fill`: one `slice::fill` over `data[..w*h]` when contiguous, else row by row. -/
def fill (root : List α) (v : View) (a : α) : Outcome (List α) :=
  if isContiguous v then
    if ¬ viewFits root v then .panic "model: view exceeds its root storage"
    else if v.w * v.h ≤ v.len then .ok (setRun root v.off (List.replicate (v.w * v.h) a))
    else .panic "range end index out of range"
  else rowsMutWrite root v (fun _ => List.replicate v.w a)

/-- buf.rs:597-606 `fill_with`: `f(x, y)` row-major. -/
def fillWith (root : List α) (v : View) (f : Nat → Nat → α) : Outcome (List α) :=
  rowsMutWrite root v (fun y => (List.range v.w).map (fun x => f x y))

/-- buf.rs:615-629 `copy_from(other)`: `other.as_slice2()`, dims assertion, `rows_mut().zip(other.rows())`. -/
def copyFrom (root : List α) (v : View) (srcRoot : List α) (src : View) : Outcome (List α) :=
  match asSlice src with
  | .panic m => .panic m
  | .ok src =>
    if ¬ (v.w = src.w ∧ v.h = src.h) then .panic "dimension mismatch"
    else if ¬ viewFits root v then .panic "model: view exceeds its root storage"
    else
      match rowWindows v with
      | .panic m => .panic m
      | .ok starts =>
        match rows srcRoot src with
        | .panic m => .panic m
        | .ok srows => .ok (writeRows root v.off starts srows)

end Write

end Retro.Buf
