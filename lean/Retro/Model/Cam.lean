/-
Executable model of `core/src/render/cam.rs`: `Camera::{new, viewport, perspective,
orthographic, world_to_project}`, the vertex path of `render()` (perspective division and
viewport transform, render.rs:138-152) and the `FirstPerson` mode with the trigonometric values of
its heading as parameters.
-/
import Retro.Model.Mat
import Retro.Model.Rect

namespace Retro.Cam
open Retro Retro.Mat Retro.Rect

/-- cam.rs:31 `Camera` without the mode (the view matrix is passed where it is used). -/
structure Camera (α : Type) where
  /-- "Viewport width and height" — see `setViewport`: after a call it is the *viewport's* size. -/
  dims : Nat × Nat
  project : M4 α
  viewport : M4 α

/-- cam.rs:47 `FirstPerson`: position and heading `spherical(r, az, alt)`; the model carries
`cos/sin` of the two angles instead of the angles. -/
structure FirstPerson (α : Type) where
  pos : V3 α
  r : α
  caz : α
  saz : α
  calt : α
  salt : α

section
variable {α : Type} [Add α] [Sub α] [Mul α] [Div α] [Neg α] [OfNat α 0] [OfNat α 1] [OfNat α 2]
  [LT α] [DecidableLT α] [DecidableEq α] [NatCast α]

/-- cam.rs:60 `Camera::new(dims)`: identity projection (`Default`), viewport = whole frame. -/
def Camera.new (w h : Nat) : Camera α :=
  { dims := (w, h), project := M4.identity
    viewport := Mat.viewport ((0 : Nat) : α) ((0 : Nat) : α) (w : α) (h : α) }

/-- cam.rs:77 `Camera::viewport(bounds)`: intersect with `(0..w, 0..h)` where `(w, h) = self.dims`,
then `dims = (r.abs_diff(l), b.abs_diff(t))` and `viewport(pt2(l, t)..pt2(r, b))`. -/
def Camera.setViewport (c : Camera α) (bounds : Rect) : Outcome (Camera α) :=
  match intersect bounds ⟨some 0, some 0, some c.dims.1, some c.dims.2⟩ with
  | ⟨some l, some t, some r, some b⟩ =>
    .ok { c with dims := (absDiff r l, absDiff b t)
                 viewport := Mat.viewport (l : α) (t : α) (r : α) (b : α) }
  | _ => .panic "unreachable: bounded ∩ bounded should be bounded"

/-- cam.rs:98 `Camera::perspective(focal_ratio, near..far)`: aspect ratio `dims.0 as f32 / dims.1 as f32` from the
current `dims`, then `perspective()` with its four asserts in source order (mat.rs:606-609).
**Zero height** (`dims.1 = 0`, e.g. after a viewport with an empty vertical extent) is outside the exact model, so it is
made explicit, following what the f32 code does:
* `dims.0 > 0`: the ratio is `+inf`, which *passes* `assert!(aspect_ratio > 0.0)`; if the other three asserts pass too,
  Rust **returns a matrix with `e11 = inf`** — no panic. The model reports that as the outcome `nonfinite: …`
  (the same convention as `orthographic` with a zero extent), never as a value and never as a Rust panic;
* `dims.0 = 0`: the ratio is `0/0 = NaN`, `NaN > 0.0` is false: the aspect-ratio assert panics (after the focal one).
All theorems about `Camera.perspective` are stated for the `.ok` outcome, which implies `dims.1 ≠ 0`
(`camera_perspective_ok_height_pos`). -/
def Camera.perspective (c : Camera α) (focal near far : α) : Outcome (Camera α) :=
  if c.dims.2 = 0 then
    if !decide (0 < focal) then .panic "focal ratio must be positive"
    else if c.dims.1 = 0 then .panic "aspect ratio must be positive"
    else if !decide (0 < near) then .panic "near must be positive"
    else if !decide (near < far) then .panic "far must be greater than near"
    else .panic "nonfinite: zero-height dims give an infinite aspect ratio (perspective() returns e11 = inf)"
  else
    match Mat.perspective focal ((c.dims.1 : α) / (c.dims.2 : α)) near far with
    | .ok p => .ok { c with project := p }
    | .panic m => .panic m

/-- cam.rs:109 `Camera::orthographic(lbn..rtf)` -/
def Camera.orthographic (c : Camera α) (lbn rtf : V3 α) : Outcome (Camera α) :=
  match Mat.orthographic lbn rtf with
  | .ok p => .ok { c with project := p }
  | .panic m => .panic m

/-- cam.rs:117 `world_to_project = world_to_view().then(&self.project)` -/
def Camera.worldToProject (c : Camera α) (view : M4 α) : M4 α := view.andThen c.project

/-- render.rs:138-152: clip position → perspective division `vec3(x, y, 1.0).z_div(w)` → viewport
transform `to_screen.apply(&pos)`. The screen-space z is the reciprocal depth `1/w`.
`w = 0` divides by zero in f32 (clipping normally removes such vertices). -/
def toScreen (vp : M4 α) (clip : V4 α) : Outcome (V3 α) :=
  if clip.w = 0 then .panic "nonfinite: w = 0"
  else .ok (vp.apply ⟨clip.x / clip.w, clip.y / clip.w, 1 / clip.w⟩)

/-- World point → screen point (pixel coordinates and reciprocal depth) through the camera. -/
def Camera.projectPoint (c : Camera α) (view : M4 α) (p : V3 α) : Outcome (V3 α) :=
  toScreen c.viewport ((c.worldToProject view).applyProj p)

/-! ### FirstPerson (cam.rs:151-209) -/

/-- angle.rs:332 `SphericalVec::to_cart`: `r * vec3(cos_az*cos_alt, sin_alt, sin_az*cos_alt)`;
`f32 * Vector` is `Vector * f32` (vec.rs:604). -/
def toCart (r caz saz calt salt : α) : V3 α :=
  (⟨caz * calt, salt, saz * calt⟩ : V3 α).smul r

/-- `spherical(1.0, az, turns(0.0)).to_cart()`: `sin 0 = 0`, `cos 0 = 1` exactly. -/
def FirstPerson.fwdMove (fp : FirstPerson α) : V3 α := toCart 1 fp.caz fp.saz 1 0
/-- `self.heading.into()` -/
def FirstPerson.fwd (fp : FirstPerson α) : V3 α := toCart fp.r fp.caz fp.saz fp.calt fp.salt
/-- `vec3(0.0, 1.0, 0.0).cross(&fwd_move.to_cart())` -/
def FirstPerson.right (fp : FirstPerson α) : V3 α := cross ⟨0, 1, 0⟩ fp.fwdMove

/-- cam.rs:194 `Mode::world_to_view`: `translate(-pos).then(&orient_z(fwd, right).transpose())`.
`rho` is the reciprocal square root `normalize` computes inside `orient_z`. -/
def FirstPerson.worldToView (eps rho : α) (fp : FirstPerson α) : Outcome (M4 α) :=
  match orientZ eps rho fp.fwd fp.right with
  | .panic m => .panic m
  | .ok o => .ok ((translate fp.pos.neg).andThen o.transpose)

/-- cam.rs:154 `FirstPerson::new()` (= `Default`): `pos = 0`, `heading = spherical(1.0, turns(0.0), turns(0.0))`,
i.e. along the positive **x** axis (`cos 0 = 1`, `sin 0 = 0`). -/
def FirstPerson.new : FirstPerson α := ⟨⟨0, 0, 0⟩, 1, 1, 0, 1, 0⟩

/-! #### heading angles: `rotate_to` / `rotate` (cam.rs:169-179, angle.rs:198, 261) -/

/-- `f32::rem_euclid(x, m)` for `m > 0`: `x − m·⌊x/m⌋`. -/
def remEuclid [HasFloor α] (x m : α) : α := x - m * HasFloor.floor (x / m)
/-- angle.rs:261 `Angle::wrap(min, max) = min + rem_euclid(self − min, max − min)` -/
def wrapAngle [HasFloor α] (a lo hi : α) : α := lo + remEuclid (a - lo) (hi - lo)
/-- `f32::clamp` (no NaN in the exact model) -/
def clampS (x lo hi : α) : α := if x < lo then lo else if hi < x then hi else x

/-- cam.rs:173 `rotate_to(az, alt)`: azimuth wrapped to `[-half, half)`, altitude clamped to `[-quarter, quarter]`
(`half = turns(0.5)`, `quarter = turns(0.25)` as f32 constants). Returns the new `(az, alt)`. -/
def rotateTo [HasFloor α] (half quarter az alt : α) : α × α :=
  (wrapAngle az (-half) half, clampS alt (-quarter) quarter)
/-- cam.rs:169 `rotate(d_az, d_alt) = rotate_to(heading.az() + d_az, heading.alt() + d_alt)` -/
def rotateBy [HasFloor α] (half quarter : α) (cur : α × α) (daz dalt : α) : α × α :=
  rotateTo half quarter (cur.1 + daz) (cur.2 + dalt)

/-- cam.rs:181 `translate(delta)`: `pos += from_basis(right, up, fwd).apply(&delta)` with the
*horizontal* forward direction. -/
def FirstPerson.translate (fp : FirstPerson α) (delta : V3 α) : FirstPerson α :=
  let fwd := fp.fwdMove
  let up : V3 α := ⟨0, 1, 0⟩
  let right := cross up fwd
  { fp with pos := fp.pos.add ((fromBasis right up fwd).apply delta) }

end

end Retro.Cam
