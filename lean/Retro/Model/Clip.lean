/-
Model of core/src/render/clip.rs: outcodes, per-plane Sutherland–Hodgman, the six-plane loop
with its early break, trivial accept/reject and fan re-triangulation.
Generic over the scalar; attributes are lists of scalar components (lerped componentwise).
-/
import Retro.Model.Scalar

namespace Retro.Clip

structure Vec4 (α : Type) where
  x : α
  y : α
  z : α
  w : α
  deriving Repr, DecidableEq, Inhabited

/-- clip.rs:56-61 `ClipVert`: position, attribute, stored outcode. -/
structure ClipVert (α : Type) where
  pos : Vec4 α
  attr : List α
  oc : Nat
  deriving Repr, DecidableEq, Inhabited

/-- clip.rs:73-80 `ClipPlane(ClipVec, u8)`; `new(x,y,z,off,bit)` stores `[x,y,z,-off]`. -/
structure Plane (α : Type) where
  n : Vec4 α
  bit : Nat

section
variable {α : Type} [Add α] [Sub α] [Mul α] [Div α] [Neg α] [LT α] [DecidableLT α]
  [OfNat α 0] [OfNat α 1]

/-- clip.rs:200-207 `view_frustum::PLANES`: near, far, left, right, bottom, top. -/
def planes : List (Plane α) :=
  [ ⟨⟨0, 0, -1, -1⟩, 1⟩, ⟨⟨0, 0, 1, -1⟩, 2⟩, ⟨⟨-1, 0, 0, -1⟩, 4⟩,
    ⟨⟨1, 0, 0, -1⟩, 8⟩, ⟨⟨0, -1, 0, -1⟩, 16⟩, ⟨⟨0, 1, 0, -1⟩, 32⟩ ]

/-- clip.rs:103-105 `signed_dist` = `self.0.dot(pt)`. -/
def signedDist (p : Plane α) (v : Vec4 α) : α :=
  dot4 p.n.x p.n.y p.n.z p.n.w v.x v.y v.z v.w

/-- clip.rs:111-113: the plane's bit if the point is strictly outside, else 0. -/
def planeOutcode (p : Plane α) (v : Vec4 α) : Nat :=
  if 0 < signedDist p v then p.bit else 0

/-- clip.rs:222-224: sum over a plane list. -/
def outcodeOf (ps : List (Plane α)) (v : Vec4 α) : Nat :=
  ps.foldl (fun acc p => acc + planeOutcode p v) 0

/-- clip.rs:286-291 `ClipVert::new` (always against the six frustum planes). -/
def mkVert (pos : Vec4 α) (attr : List α) : ClipVert α :=
  ⟨pos, attr, outcodeOf planes pos⟩

/-- clip.rs:119-121 `is_inside`: the plane's bit is clear in the *stored* outcode. -/
def isInside (p : Plane α) (v : ClipVert α) : Bool := p.bit &&& v.oc == 0

def lerpPos (a b : Vec4 α) (t : α) : Vec4 α :=
  ⟨lerp a.x b.x t, lerp a.y b.y t, lerp a.z b.z t, lerp a.w b.w t⟩

/-- The vertex inserted where edge v0→v1 crosses the plane (clip.rs:161-176). -/
def crossing (p : Plane α) (v0 v1 : ClipVert α) : ClipVert α :=
  let d0 := signedDist p v0.pos
  let d1 := signedDist p v1.pos
  let t := -d0 / (d1 - d0)
  mkVert (lerpPos v0.pos v1.pos t) (lerpL v0.attr v1.attr t)

/-- One iteration of the `for v1 in verts` loop body (clip.rs:147-178) for edge v0→v1. -/
def clipEdge (p : Plane α) (v0 v1 : ClipVert α) : List (ClipVert α) :=
  let keep := if isInside p v0 then [v0] else []
  let d0 := signedDist p v0.pos
  let d1 := signedDist p v1.pos
  if d0 * d1 < 0 then keep ++ [crossing p v0 v1] else keep

/-- Walk the cyclic edge list: `first` closes the polygon (`verts_in.iter().chain(&verts_in[..1])`). -/
def clipEdges (p : Plane α) (first : ClipVert α) : List (ClipVert α) → List (ClipVert α)
  | [] => []
  | [v] => clipEdge p v first
  | v0 :: v1 :: rest => clipEdge p v0 v1 ++ clipEdges p first (v1 :: rest)

/-- clip.rs:137-179 `ClipPlane::clip_simple_polygon`. (The Rust code indexes `verts_in[..1]` and
would panic on an empty polygon; the six-plane loop never passes one, see `clipPolygon`.) -/
def clipPlane (p : Plane α) : List (ClipVert α) → List (ClipVert α)
  | [] => []
  | v :: vs => clipEdges p v (v :: vs)

/-- clip.rs:266-284: plane loop; an empty intermediate result ends it. -/
def clipPolygon : List (Plane α) → List (ClipVert α) → List (ClipVert α)
  | [], _ => []
  | [p], vs => clipPlane p vs
  | p :: q :: ps, vs =>
    let out := clipPlane p vs
    if out.isEmpty then [] else clipPolygon (q :: ps) out

inductive Status where
  | visible | clipped | hidden
  deriving Repr, DecidableEq

/-- clip.rs:227-249 `status` on the stored outcodes (u8 arithmetic: `!0` = 255). -/
def status (vs : List (ClipVert α)) : Status :=
  let allOut := vs.foldl (fun a v => a &&& v.oc) 255
  let anyOut := vs.foldl (fun a v => a ||| v.oc) 0
  if allOut != 0 then .hidden else if anyOut == 0 then .visible else .clipped

structure Tri (α : Type) where
  a : ClipVert α
  b : ClipVert α
  c : ClipVert α
  deriving Repr, DecidableEq, Inhabited

/-- `rest.windows(2).map(|e| Tri([a, e[0], e[1]]))` -/
def fan (a : ClipVert α) : List (ClipVert α) → List (Tri α)
  | e0 :: e1 :: rest => ⟨a, e0, e1⟩ :: fan a (e1 :: rest)
  | _ => []

/-- Body of the `for tri in self` loop (clip.rs:303-336) for one triangle. -/
def clipTri (t : Tri α) : List (Tri α) :=
  match status [t.a, t.b, t.c] with
  | .visible => [t]
  | .hidden => []
  | .clipped =>
    match clipPolygon planes [t.a, t.b, t.c] with
    | [] => []
    | a :: rest => fan a rest

/-- clip.rs:293-339 `impl Clip for [Tri<ClipVert<A>>]` with `view_frustum::PLANES`. -/
def clipTris (ts : List (Tri α)) : List (Tri α) := ts.flatMap clipTri

end
end Retro.Clip
