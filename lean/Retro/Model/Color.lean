/-
Model of core/src/math/color.rs (property C16): 8-bit and floating-point HSL<->RGB conversion,
u32 packing, RGB<->RGBA, float -> 8-bit conversion, saturating `Affine::add` of 8-bit colours.

Import-free apart from `Retro.Basic`.  The Rust operation order is transliterated literally:
  * `i32` code runs on `Int` with Rust's *truncating* `/` (`Int.tdiv`) and `%` (`Int.tmod`),
    `rem_euclid`, `abs`, `clamp`, `as u8` written out;
  * `f32` code is generic over the scalar (`Rat` in the driver, any ordered field in the proofs);
  * `debug_assert!`, `unreachable!` and checked-arithmetic overflow are `Outcome.panic`.
-/
import Retro.Basic

namespace Retro.Color

/-! ## 8-bit colours (color.rs:118-146, 307-340) -/

/-- `const M: i32 = 256`, the fixed-point multiplier (color.rs:120, 311). -/
def M : Int := 256

/-- `i32::abs` (no overflow possible for the magnitudes below). -/
def absI (x : Int) : Int := if x < 0 then -x else x

/-- `Ord::clamp(self, lo, hi)` for `lo <= hi`. -/
def clampI (x lo hi : Int) : Int := if x < lo then lo else if x > hi then hi else x

/-- `i32::rem_euclid`: `let r = self % rhs; if r < 0 { r + rhs.abs() } else { r }`. -/
def remEuclidI (a n : Int) : Int :=
  let r := Int.tmod a n
  if r < 0 then r + absI n else r

/-- `x as u8` for an `i32`: keeps the low 8 bits. -/
def asU8 (x : Int) : Int := x % 256

def max3 (r g b : Int) : Int := max (max r g) b
def min3 (r g b : Int) : Int := min (min r g) b

/-- color.rs:128-137, the hue in 0..=255 before clamping. -/
def hue8 (r g b : Int) : Int :=
  let mx := max3 r g b
  let mn := min3 r g b
  let d := mx - mn
  let h :=
    if d = 0 then 0
    else if mx = r then remEuclidI (Int.tdiv ((g - b) * M) d) (6 * M)
    else if mx = g then Int.tdiv ((b - r) * M) d + 2 * M
    else Int.tdiv ((r - g) * M) d + 4 * M
  Int.tdiv h 6

/-- color.rs:138 `(max + min + 1) / 2`. -/
def light8 (r g b : Int) : Int := Int.tdiv (max3 r g b + min3 r g b + 1) 2

/-- color.rs:139-143. The divisor is at least 2 when `0 < l < 255`. -/
def sat8 (r g b : Int) : Int :=
  let d := max3 r g b - min3 r g b
  let l := light8 r g b
  if l = 0 ∨ l = 255 then 0 else Int.tdiv (d * M) (M - absI (2 * l - M))

/-- color.rs:118-146 `Color3<Rgb>::to_hsl`; channels are `u8` values given as integers 0..=255.
(No assertion and, for `u8` inputs, no division by zero or `i32` overflow in this function.) -/
def toHsl8 (r g b : Int) : Int × Int × Int :=
  (asU8 (clampI (hue8 r g b) 0 255), asU8 (clampI (sat8 r g b) 0 255), asU8 (clampI (light8 r g b) 0 255))

/-- color.rs:334-336: `let ch = ch + m; debug_assert!(0 <= ch && ch < 256); ch as u8`. -/
def chan8 (ch m : Int) : Outcome Int :=
  let ch := ch + m
  if 0 ≤ ch ∧ ch < 256 then .ok (asU8 ch) else .panic "channel oob"

/-- color.rs:324-332: the `match h / M` on the sextant. -/
def sextant8 (k c x : Int) : Option (Int × Int × Int) :=
  if k = 0 then some (c, x, 0)
  else if k = 1 then some (x, c, 0)
  else if k = 2 then some (0, c, x)
  else if k = 3 then some (0, x, c)
  else if k = 4 then some (x, 0, c)
  else if k = 5 then some (c, 0, x)
  else none

/-- The scaled chroma `c / M`, second component `x / M / M` and offset `m / M` (color.rs:314-322). -/
def cxm8 (h s l : Int) : Int × Int × Int :=
  let h := h * 6
  let c := (M - absI (2 * l - M)) * s
  let x := c * (M - absI (Int.tmod h (2 * M) - M))
  let m := M * l - Int.tdiv c 2
  (Int.tdiv c M, Int.tdiv (Int.tdiv x M) M, Int.tdiv m M)

/-- color.rs:307-340 `Color3<Hsl>::to_rgb`. -/
def toRgb8 (h s l : Int) : Outcome (Int × Int × Int) :=
  match cxm8 h s l with
  | (c, x, m) =>
    match sextant8 (Int.tdiv (h * 6) M) c x with
    | none => .panic "unreachable"
    | some (r, g, b) =>
      match chan8 r m with
      | .panic e => .panic e
      | .ok r' =>
        match chan8 g m with
        | .panic e => .panic e
        | .ok g' =>
          match chan8 b m with
          | .panic e => .panic e
          | .ok b' => .ok (r', g', b')

/-- RGB -> HSL -> RGB. -/
def roundTrip8 (r g b : Int) : Outcome (Int × Int × Int) :=
  match toHsl8 r g b with
  | (h, s, l) => toRgb8 h s l

/-- color.rs:171-175 / 378-381: the alpha channel rides along unchanged. -/
def toHsla8 (r g b a : Int) : Int × Int × Int × Int :=
  match toHsl8 r g b with
  | (h, s, l) => (h, s, l, a)

def hslaToRgba8 (h s l a : Int) : Outcome (Int × Int × Int × Int) :=
  match toRgb8 h s l with
  | .ok (r, g, b) => .ok (r, g, b, a)
  | .panic e => .panic e

/-! ## Packing into 32-bit words, RGB <-> RGBA (color.rs:101-116, 149-168) -/

/-- `u32::from_be_bytes([b0, b1, b2, b3])`. -/
def fromBeBytes (b0 b1 b2 b3 : UInt8) : UInt32 :=
  (b0.toUInt32 <<< 24) ||| (b1.toUInt32 <<< 16) ||| (b2.toUInt32 <<< 8) ||| b3.toUInt32

/-- `u32::rotate_right(n)` for `0 < n < 32`. -/
def rotateRight32 (x : UInt32) (n : UInt32) : UInt32 := (x >>> n) ||| (x <<< (32 - n))

/-- color.rs:105-108 `to_rgb_u32`: `0x00_RR_GG_BB`. -/
def toRgbU32 (r g b : UInt8) : UInt32 := fromBeBytes 0 r g b
/-- color.rs:159-161 `to_rgba_u32`: `0xRR_GG_BB_AA`. -/
def toRgbaU32 (r g b a : UInt8) : UInt32 := fromBeBytes r g b a
/-- color.rs:166-168 `to_argb_u32`: `0xAA_RR_GG_BB`. -/
def toArgbU32 (r g b a : UInt8) : UInt32 := rotateRight32 (toRgbaU32 r g b a) 8

/-- color.rs:112-115 `Color3::to_rgba`: alpha set to 0xFF. -/
def rgbToRgba {β : Type} [OfNat β 255] (r g b : β) : β × β × β × β := (r, g, b, 255)
/-- color.rs:152-155 `Color4::to_rgb` (also 259-262 for floats): alpha dropped. -/
def rgbaToRgb {β : Type} (r g b _a : β) : β × β × β := (r, g, b)
/-- color.rs:181-184 `Color3f::to_rgba`: alpha set to 1.0. -/
def rgbToRgbaF {β : Type} [OfNat β 1] (r g b : β) : β × β × β × β := (r, g, b, 1)

/-! ## Floating-point colours (color.rs:223-254, 342-369), generic in the scalar -/

/-- `x as i32` for a finite `x`: truncation toward zero (saturation is never reached by the
magnitudes that occur here, and would not change `.min(5)` or the `unreachable!` arm). -/
class HasTruncI (α : Type) where
  truncI : α → Int

instance : HasTruncI Rat where
  truncI q := if q < 0 then -((-q).floor) else q.floor

section Float
variable {α : Type} [Add α] [Sub α] [Mul α] [Div α] [Neg α]
  [LT α] [DecidableLT α] [LE α] [DecidableLE α] [DecidableEq α]
  [OfNat α 0] [OfNat α 1] [OfNat α 2] [OfNat α 4] [OfNat α 6] [HasFloor α] [HasTruncI α]

/-- `f32::max` on non-NaN values. -/
def maxS (a b : α) : α := if a < b then b else a
/-- `f32::min` on non-NaN values. -/
def minS (a b : α) : α := if b < a then b else a
/-- `f32::abs`. -/
def absS (x : α) : α := if x < 0 then -x else x
/-- `f32::trunc`, through the floor the scalar provides. -/
def truncS (x : α) : α := if x < 0 then -(HasFloor.floor (-x)) else HasFloor.floor x
/-- `x % y` on floats (C `fmod`): exact, `x - trunc(x / y) * y`. -/
def fmodS (x y : α) : α := x - truncS (x / y) * y
/-- std `f32::rem_euclid`: `let r = self % rhs; if r < 0.0 { r + rhs.abs() } else { r }`. -/
def remEuclidS (x y : α) : α :=
  let r := fmodS x y
  if r < 0 then r + absS y else r

/-- `debug_assert!(0.0 <= ch && ch <= 1.0, "channel oob")` (color.rs:250, 364). -/
def inUnit (x : α) : Bool := decide (0 ≤ x) && decide (x ≤ 1)

/-- color.rs:230-239, hue in turns. -/
def hueF (r g b : α) : α :=
  let mx := maxS (maxS r g) b
  let mn := minS (minS r g) b
  let d := mx - mn
  let h :=
    if d = 0 then 0
    else if mx = r then remEuclidS ((g - b) / d) 6
    else if mx = g then (b - r) / d + 2
    else (r - g) / d + 4
  h / 6

/-- color.rs:240. -/
def lightF (r g b : α) : α := (maxS (maxS r g) b + minS (minS r g) b) / 2

/-- color.rs:241-247: `if d == 0.0 || l == 0.0 || l == 1.0 { 0.0 } else
`(d / (1.0 - abs(2.0 * l - 1.0))).min(1.0)`. -/
def satF (r g b : α) : α :=
  let d := maxS (maxS r g) b - minS (minS r g) b
  let l := lightF r g b
  if d = 0 ∨ l = 0 ∨ l = 1 then 0 else minS (d / (1 - absS (2 * l - 1))) 1

/-- color.rs:223-254 `Color3f<Rgb>::to_hsl`, with the three `debug_assert!`s in order h, s, l. -/
def toHslF (r g b : α) : Outcome (α × α × α) :=
  let h := hueF r g b
  let s := satF r g b
  let l := lightF r g b
  if !inUnit h then .panic "channel oob"
  else if !inUnit s then .panic "channel oob"
  else if !inUnit l then .panic "channel oob"
  else .ok (h, s, l)

/-- color.rs:348 `(1.0 - abs(2.0 * l - 1.0)) * s`. -/
def chromaF (s l : α) : α := (1 - absS (2 * l - 1)) * s
/-- color.rs:349 `c * (1.0 - abs(h % 2.0 - 1.0))` with `h` already multiplied by 6. -/
def secondF (c h6 : α) : α := c * (1 - absS (fmodS h6 2 - 1))
/-- color.rs:350 `1.0 * l - c / 2.0`. -/
def offsetF (c l : α) : α := 1 * l - c / 2

/-- color.rs:352-360: `match (h as i32).min(5)`. -/
def sextantF (k : Int) (c x : α) : Option (α × α × α) :=
  let k := if k ≤ 5 then k else 5
  if k = 0 then some (c, x, 0)
  else if k = 1 then some (x, c, 0)
  else if k = 2 then some (0, c, x)
  else if k = 3 then some (0, x, c)
  else if k = 4 then some (x, 0, c)
  else if k = 5 then some (c, 0, x)
  else none

/-- color.rs:362-366. -/
def chanF (ch m : α) : Outcome α :=
  let ch := ch + m
  if inUnit ch then .ok ch else .panic "channel oob"

/-- color.rs:342-369 `Color3f<Hsl>::to_rgb`. -/
def toRgbF (h s l : α) : Outcome (α × α × α) :=
  let h6 := h * 6
  let c := chromaF s l
  let x := secondF c h6
  let m := offsetF c l
  match sextantF (HasTruncI.truncI h6) c x with
  | none => .panic "unreachable"
  | some (r, g, b) =>
    match chanF r m with
    | .panic e => .panic e
    | .ok r' =>
      match chanF g m with
      | .panic e => .panic e
      | .ok g' =>
        match chanF b m with
        | .panic e => .panic e
        | .ok b' => .ok (r', g', b')

/-- RGB -> HSL -> RGB on floats. -/
def roundTripF (r g b : α) : Outcome (α × α × α) :=
  match toHslF r g b with
  | .panic e => .panic e
  | .ok (h, s, l) => toRgbF h s l

end Float

/-! ## Float -> 8-bit (color.rs:186-204, 263-279): `(c.clamp(0.0, 1.0) * 255.0) as u8` -/

/-- `x as u8` for a float value given exactly: truncate toward zero, saturate to 0..=255. -/
def castU8 (q : Rat) : UInt8 :=
  if q < 0 then 0 else if q ≥ 255 then 255 else UInt8.ofNat q.floor.toNat

/-- One `f32` multiplication by 255.0 of a finite value: exact product, one rounding. -/
def mul255 (c : Rat) : Rat := F32.toRatD (F32.ofRat (c * 255))

/-- `(c.clamp(0.0, 1.0) * 255.0) as u8` on the bit pattern of `c`.  `clamp` passes NaN through
(`NaN as u8 = 0`), maps -inf to 0.0 and +inf to 1.0. -/
def toU8 (bits : UInt32) : UInt8 :=
  match F32.toRat? bits with
  | none =>
    if F32.isNaN bits then 0
    else if F32.signBit bits then castU8 (mul255 0) else castU8 (mul255 1)
  | some v =>
    let c : Rat := if v < 0 then 0 else if v > 1 then 1 else v
    castU8 (mul255 c)

/-- color.rs:189-199 / 266-275: `to_color3`, `to_color4` on three or four channels. -/
def toColor3 (r g b : UInt32) : UInt8 × UInt8 × UInt8 := (toU8 r, toU8 g, toU8 b)
def toColor4of3 (r g b : UInt32) : UInt8 × UInt8 × UInt8 × UInt8 := (toU8 r, toU8 g, toU8 b, 0xFF)
def toColor3of4 (r g b _a : UInt32) : UInt8 × UInt8 × UInt8 := (toU8 r, toU8 g, toU8 b)
def toColor4 (r g b a : UInt32) : UInt8 × UInt8 × UInt8 × UInt8 := (toU8 r, toU8 g, toU8 b, toU8 a)

/-! ## Saturating `Affine::add` for 8-bit colours (color.rs:484-501) -/

def i32Min : Int := -2147483648
def i32Max : Int := 2147483647

/-- `i32::saturating_add`. -/
def satAddI32 (a b : Int) : Int := clampI (a + b) i32Min i32Max

/-- color.rs:493-494 for one channel:
`let sum = i32::from(c).saturating_add(d); sum.clamp(0, u8::MAX as i32) as u8`. -/
def addSat (c d : Int) : Int := asU8 (clampI (satAddI32 c d) 0 255)

/-- `array::from_fn(|i| …)`: channels in index order. -/
def addColor : List Int → List Int → List Int
  | c :: cs, d :: ds => addSat c d :: addColor cs ds
  | _, _ => []

/-- color.rs:498-500 `sub`: per-channel `i32` difference of two `u8` colours. -/
def subColor : List Int → List Int → List Int
  | a :: as, b :: bs => (a - b) :: subColor as bs
  | _, _ => []

/-! ## Channel accessors, `gray`, `Linear::zero`, gamma constants (color.rs:75-95, 394-476, 519-526) -/

/-- A colour as the list of its channels (`Color<[Ch; N], Space>` is a transparent wrapper of the
array). The accessors index it: `r`/`h` = `self.0[0]`, `g`/`s` = `self.0[1]`, `b`/`l` = `self.0[2]`,
`a` = `self.0[3]` (color.rs:400-475). An index past the end is Rust's index panic. -/
def channel {β : Type} (c : List β) (i : Nat) : Outcome β :=
  match c[i]? with
  | some v => .ok v
  | none => .panic "index out of bounds"

def idxR : Nat := 0
def idxG : Nat := 1
def idxB : Nat := 2
def idxA : Nat := 3
def idxH : Nat := 0
def idxS : Nat := 1
def idxL : Nat := 2

/-- color.rs:75-77 `gray(lum) = rgb(lum, lum, lum)`. -/
def grayC {β : Type} (lum : β) : List β := [lum, lum, lum]

/-- color.rs:521-523 `Linear::zero` for float colours: `[0.0; DIM]`. -/
def zeroColor {β : Type} [OfNat β 0] (dim : Nat) : List β := List.replicate dim 0

/-- color.rs:91, 95: `GAMMA = 2.2`, `INV_GAMMA = 1.0 / GAMMA` (exact values; `to_linear` and `to_srgb`
apply `powf(c, GAMMA)` resp. `powf(c, INV_GAMMA)` per channel — `powf` itself is a parameter of the
model, see Drv/C16.lean). -/
def gamma : Rat := 11 / 5
def invGamma : Rat := 1 / gamma

end Retro.Color
