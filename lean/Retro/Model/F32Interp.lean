/-
The `Float32` interpretation of the render-pipeline model: core `Float32` (native IEEE binary32,
round-to-nearest-even, no fused operations: every `+ - * /` of the compiled Lean code is one C `float`
operation) plugged into the SAME generic definitions the theorems are about, as a *diagnostic,
non-gating* channel (DESIGN.md 2.2, design/Float32.md). Where this run reproduces the implementation's
output bit for bit, the exact-arithmetic theorems are about the very expression tree the Rust code
evaluates; where it does not, the first differing component localises the difference in operation order.

What is shared with the theorems and what is re-instantiated here:

  * clip (`Model/Clip.lean`): NOTHING is copied. `Clip.clipTris` / `mkVert` are run at `α := Float32`
    as they stand (`dot4`, `crossing`, `lerpPos`, `lerpL` already have the Rust operation order:
    `fold(0, acc + a*b)`, `-d0 / (d1 - d0)`, `a + (b - a) * t`).
  * raster (`Model/Raster.lean`): `sort3`, `nth*`, `lerpL`, `dvdtL`, `stepL`, `varyN`, `zdiv` and the
    `Scanline` structure are the generic ones. `scanRows`, `scan`, `triFill` are re-instantiated below
    (`scanRowsF`, `scanF`, `triFillF`) because three spots of the generic text are written for exact
    arithmetic and are NOT what the f32 code computes:
      1. `Raster.roundUpHalf x = floor (x + 1/2) + 1/2`, whereas raster.rs `round_up_to_half` (after
         fix b772987) is `let n = floor(x + 0.5); if n - 0.5 > x { n - 0.5 } else { n + 0.5 }`.
         Over an ordered field with floor the test `n - 1/2 > x` is never true (`floor (x + 1/2) ≤ x + 1/2`),
         so the two coincide there (`Props/C20` has `round_up_to_half_exact`); at f32 they differ exactly
         when `x + 0.5` rounds up across an integer (x = 0.49999997).
      2. `Raster.recip0 dx = if dx < 0 ∨ 0 < dx then 1 / dx else dx * 0` (poison-faithful spelling), whereas
         raster.rs:198 is `if dx != 0.0 { dx.recip() } else { 0.0 }`: for `dx = -0.0` the generic form gives
         `-0.0`, Rust `0.0`; for `dx = NaN` the generic form gives `NaN * 0`, Rust `NaN.recip()` (both NaN).
      3. the choice of the wider base is `if dx0*dx0 < dx1*dx1 then (l1,r1) else (l0,r0)` in the generic
         model and `if dx0*dx0 >= dx1*dx1 { (l0,r0) } else { (l1,r1) }` in raster.rs:199 — the same over
         an ordered field, opposite branches when a square is NaN.
    plus the casts: `HasToNat Rat` is unbounded, Rust's `as usize` saturates at 2^64-1 and `as u32` at
    2^32-1 (`asUsize`, `asU32`).
  Everything else (`1 / (y1 - y0)` for `.recip()`, `(b - a) * r` for `dv_dt`, `a + ((a + d) - a) * t` for
  `v.lerp(&v.step(d), t)`, `r0.x + dr.x * tweak`, true division in `z_div`) is already literal in the
  generic model and is used unchanged.

Probed with `#eval` on this toolchain (Lean 4.33, x86-64):
  `Float32.toUInt32 (0/0) = 0`, `(-1) ↦ 0`, `(-0.5) ↦ 0`, `3.99 ↦ 3`, `2^40 ↦ 4294967295`, `+∞ ↦ 4294967295`,
  `-∞ ↦ 0`; `Float32.toUInt64 (2^40) = 1099511627776`, `+∞ ↦ 2^64-1`, `NaN ↦ 0` — i.e. exactly Rust's
  saturating `as u32` / `as usize` (64-bit target). `OfNat Float32 0/1/2`, `Neg`, `LT`, `DecidableLT`,
  `LE`/`DecidableLE`, `BEq` (IEEE `==`) exist in core. `Float32.toBits` canonicalises every NaN to
  `0x7fc00000`, so NaN payloads and signs are not observable; the comparison below treats NaN = NaN.

Imports only `Retro.Basic`, `Retro.Model.Raster`, `Retro.Model.Clip`; no Mathlib. No theorem is stated
about `Float32` (its arithmetic is opaque to the kernel); this file is executed, not reasoned about.
-/
import Retro.Basic
import Retro.Model.Raster
import Retro.Model.Clip

namespace Retro

instance : HasFloor Float32 where
  floor := Float32.floor

/-- `x as usize` on a 64-bit target: NaN ↦ 0, negative ↦ 0, truncation toward zero, saturating at 2^64-1.
(`as u32` is `F32I.asU32`; the two agree below 2^32.) -/
instance : HasToNat Float32 where
  toNatSat x := x.toUInt64.toNat

namespace F32I
open Retro.Raster

/-! ### tokens -/

/-- 8 hex digits of a bit pattern → the `Float32` with these bits. -/
def f32OfHex (s : String) : Option Float32 := (parseF32Bits? s).map Float32.ofBits

/-- The bit pattern as the harness prints it (`util::h32`); every NaN prints as `7fc00000`. -/
def hexOfF32 (x : Float32) : String := hex8 x.toBits

/-- Bit-for-bit equality with an implementation word, NaN = NaN (any payload, any sign). -/
def bitsEq (x : Float32) (b : UInt32) : Bool :=
  if x.isNaN then F32.isNaN b else x.toBits == b

/-- First position at which the model's words differ from the implementation's tokens
(`some (index, model bits, impl token)`), or a length mismatch (`impl token = "<none>"` / model `"<none>"`). -/
def firstWordDiff : Nat → List Float32 → List String → Option (Nat × String × String)
  | _, [], [] => none
  | i, [], t :: _ => some (i, "<none>", t)
  | i, x :: _, [] => some (i, hexOfF32 x, "<none>")
  | i, x :: xs, t :: ts =>
    match parseF32Bits? t with
    | some b => if bitsEq x b then firstWordDiff (i + 1) xs ts else some (i, hexOfF32 x, t)
    | none => some (i, hexOfF32 x, t)

/-! ### raster.rs, literal f32 forms -/

/-- `x as usize` (64-bit). -/
def asUsize (x : Float32) : Nat := x.toUInt64.toNat
/-- `x as u32`. -/
def asU32 (x : Float32) : Nat := x.toUInt32.toNat

/-- raster.rs:228-239 `round_up_to_half` (fp build, after fix b772987), literally. -/
def roundUpHalfF (x : Float32) : Float32 :=
  let n := Float32.floor (x + 0.5)
  if n - 0.5 > x then n - 0.5 else n + 0.5

/-- raster.rs:198 `let recip = |dx: f32| if dx != 0.0 { dx.recip() } else { 0.0 };` -/
def recipF (dx : Float32) : Float32 := if dx != 0 then 1 / dx else 0

/-- raster.rs:68-104 `ScanlineIter::next` taken `n` times; `Raster.scanRows` with the literal rounding
and the saturating casts. -/
def scanRowsF (dl : List Float32) (drx : Float32) (dvdx : List Float32) :
    Nat → Float32 → List Float32 → Float32 → List (Scanline Float32)
  | 0, _, _, _ => []
  | n + 1, y, left, right =>
    let x0 := roundUpHalfF (nth0 left)
    let x1 := roundUpHalfF right
    let v0 := lerpL left (stepL left dvdx) (x0 - nth0 left)
    let row : Scanline Float32 :=
      { y := asUsize y, x0 := asUsize x0, x1 := asUsize x1,
        frags := varyN dvdx (asU32 (x1 - x0)) v0 }
    row :: scanRowsF dl drx dvdx n (y + 1) (stepL left dl) (right + drx)

/-- raster.rs:171-225 `scan`; `Raster.scan` with the literal reciprocal guard, branch order and rounding. -/
def scanF (y0 y1 : Float32) (l0 l1 r0 r1 : List Float32) : List (Scanline Float32) :=
  let recipDy := 1 / (y1 - y0)
  let dl := dvdtL l0 l1 recipDy
  -- `r0.dv_dt(r1, recip_dy)` is computed for the whole tuple in Rust; only its x component is used
  let drx := (nth0 r1 - nth0 r0) * recipDy
  let dx0 := nth0 r0 - nth0 l0
  let dx1 := nth0 r1 - nth0 l1
  let dvdx := if dx0 * dx0 ≥ dx1 * dx1 then dvdtL l0 r0 (recipF dx0) else dvdtL l1 r1 (recipF dx1)
  let y0r := roundUpHalfF y0
  let y1r := roundUpHalfF y1
  let tweak := y0r - y0
  let l0' := lerpL l0 (stepL l0 dl) tweak
  let r0' := nth0 r0 + drx * tweak
  scanRowsF dl drx dvdx (asU32 (y1r - y0r)) y0r l0' r0'

/-- raster.rs:110-147 `tri_fill` at f32 (`Raster.triFill` over `scanF`). The comparator's
`partial_cmp(..).unwrap()` panics on a NaN y; the harness never sends one. -/
def triFillF (a b c : List Float32) : List (Scanline Float32) :=
  let (top, mid0, bot) := sort3 a b c
  let topY := nth1 top
  let midY := nth1 mid0
  let botY := nth1 bot
  let mid1 := lerpL top bot ((midY - topY) / (botY - topY))
  let (left, right) := if nth0 mid0 < nth0 mid1 then (mid0, mid1) else (mid1, mid0)
  scanF topY midY top left top right ++ scanF midY botY left bot right bot

/-- Compare the Float32 run with the rows the harness printed (`raster_common::fill`):
`<nrows> { y x0 x1 nfrags { x y z v1..vk }* }*`; `stride = 0` means rows only (C04).
Returns the first difference in words. -/
def cmpRows (stride : Nat) : List (Scanline Float32) → List String → Option String
  | [], [] => none
  | [], t :: _ => some s!"implementation has an extra row starting with token {t}"
  | s :: ss, y :: x0 :: x1 :: n :: rest =>
    let cnt := s.frags.length
    if toString s.y != y || toString s.x0 != x0 || toString s.x1 != x1 || toString cnt != n then
      some s!"row header: model y={s.y} xs={s.x0}..{s.x1} n={cnt}, impl y={y} xs={x0}..{x1} n={n}"
    else if stride == 0 then cmpRows stride ss rest
    else
      let words := rest.take (cnt * stride)
      match firstWordDiff 0 (s.frags.flatMap zdiv) words with
      | some (i, m, t) =>
        some s!"row {s.y} fragment {i / stride} (pixel {s.x0 + i / stride}) component {i % stride}: model {m} impl {t}"
      | none => cmpRows stride ss (rest.drop (cnt * stride))
  | s :: _, _ => some s!"implementation output ends before model row y={s.y}"

/-- The whole raster channel: `none` = bit-exact. `impl` is the implementation's output token list. -/
def rasterCheck (stride : Nat) (v0 v1 v2 : List Float32) (impl : List String) : Option String :=
  match impl with
  | [] => some "no implementation output"
  | nStr :: rest =>
    if nStr.startsWith "panic" then some "implementation panicked, the Float32 run does not" else
    let model := triFillF v0 v1 v2
    if toString model.length != nStr then some s!"row count: model {model.length} impl {nStr}"
    else cmpRows stride model rest

/-! ### clip.rs at f32: the generic model itself -/

def parseVertF (ws : List Float32) : Clip.ClipVert Float32 :=
  match ws with
  | x :: y :: z :: w :: attr => Clip.mkVert ⟨x, y, z, w⟩ attr
  | _ => Clip.mkVert ⟨0, 0, 0, 0⟩ []

def chunkF {α : Type} (n : Nat) : Nat → List α → List (List α)
  | 0, _ => []
  | fuel + 1, xs => if xs.isEmpty || n == 0 then [] else xs.take n :: chunkF n fuel (xs.drop n)

def parseTrisF (stride : Nat) (ws : List Float32) : List (Clip.Tri Float32) :=
  let vs := (chunkF stride ws.length ws).map parseVertF
  (chunkF 3 vs.length vs).filterMap fun
    | [a, b, c] => some ⟨a, b, c⟩
    | _ => none

def vertWords (v : Clip.ClipVert Float32) : List Float32 := v.pos.x :: v.pos.y :: v.pos.z :: v.pos.w :: v.attr
def triWords (t : Clip.Tri Float32) : List Float32 := vertWords t.a ++ vertWords t.b ++ vertWords t.c

/-- The whole clip channel: `Clip.clipTris` at `Float32` on the input bits against
`<m> <m*3 vertices: 4 pos words + attribute words>`; `none` = bit-exact. -/
def clipCheck (stride : Nat) (input : List Float32) (implTris : List String) : Option String :=
  match implTris with
  | [] => some "no implementation output"
  | mStr :: outWords =>
    if mStr.startsWith "panic" then some "implementation panicked, the Float32 run does not" else
    let model := Clip.clipTris (parseTrisF stride input)
    if toString model.length != mStr then some s!"triangle count: model {model.length} impl {mStr}"
    else
      match firstWordDiff 0 (model.flatMap triWords) outWords with
      | some (i, m, t) =>
        let c := i % stride
        let what := if c < 4 then s!"position component {c}" else s!"attribute component {c - 4}"
        some s!"triangle {i / (3 * stride)} vertex {(i / stride) % 3} {what}: model {m} impl {t}"
      | none => none

end F32I
end Retro
