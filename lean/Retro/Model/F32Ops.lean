/-
Bit-level model of the Rust `f32` operations that the texture samplers (C12) and the float helper
back ends (C20) are built from.  Every function takes and returns IEEE-754 binary32 *bit patterns*
(`UInt32`); finite patterns are decoded to an exact rational with `F32.toRat?`, the operation is
carried out exactly in `Rat`, and the result is re-encoded with the round-to-nearest-even
`F32.ofRat` of `Retro/Basic.lean`.

Modelled Rust semantics (each one has its own differential op in the C20 harness, `rs.*`):
  * `f32::floor`                       `floor`
  * `x as i32`, `x as u32`, `x as i64` `toI32Sat`, `toU32Sat`, `toI64Sat` (truncate toward zero, saturate, NaN ↦ 0)
  * `i as u32` for `i : i32`           `i32ToU32` (two's complement wrap)
  * `n as f32` for integers            `intToF32` (round to nearest even)
  * `<`, `<=`, `==` on floats          `lt`, `le`, `feq` (false when a NaN is involved; −0 == +0)
  * `f32::clamp`                       `clamp` (panics when `!(min <= max)`; NaN stays NaN)
  * `*`, `+`, `-`                      `mul`, `add`, `sub` (one rounding, signed zeros, ∞ and NaN rules)
  * `%`                                `rem` (C `fmodf`: exact, sign of the dividend)

Import-free apart from `Retro.Basic`, so that the drivers link.
-/
import Retro.Basic

namespace Retro.F32

/-! ### Constants and classification -/

/-- The quiet NaN produced by arithmetic; NaN payloads are not tracked (any NaN compares equal to any
other NaN in the drivers). -/
def canonNaN : UInt32 := 0x7FC00000
def posInf : UInt32 := 0x7F800000
def negInf : UInt32 := 0xFF800000
def signMask : UInt32 := 0x80000000
def one : UInt32 := 0x3F800000
def half : UInt32 := 0x3F000000

/-- `±0.0` with the given sign. -/
def zeroS (neg : Bool) : UInt32 := if neg then signMask else 0
/-- `±∞` with the given sign. -/
def infS (neg : Bool) : UInt32 := if neg then negInf else posInf

/-- `-x`: flips the sign bit (also of NaN, zero and infinities). -/
def neg (b : UInt32) : UInt32 := b ^^^ signMask

def pow31 : Int := 2147483648
def pow32 : Int := 4294967296
def pow63 : Int := 9223372036854775808

/-! ### Integer conversions -/

/-- Truncation toward zero of a rational. -/
def ratTrunc (q : Rat) : Int := if q < 0 then -((-q).floor) else q.floor

/-- `x as iN / uN` for a float: truncate toward zero, saturate at `lo`/`hi`, NaN ↦ 0. -/
def toIntSat (lo hi : Int) (b : UInt32) : Int :=
  match toRat? b with
  | none => if isNaN b then 0 else if signBit b then lo else hi
  | some q =>
    let t := ratTrunc q
    if t < lo then lo else if t > hi then hi else t

/-- `x as i32`. -/
def toI32Sat (b : UInt32) : Int := toIntSat (-pow31) (pow31 - 1) b
/-- `x as u32`. -/
def toU32Sat (b : UInt32) : Nat := (toIntSat 0 (pow32 - 1) b).toNat
/-- `x as i64`. -/
def toI64Sat (b : UInt32) : Int := toIntSat (-pow63) (pow63 - 1) b
/-- `x as usize` on a 64-bit target. -/
def toUsizeSat (b : UInt32) : Nat := (toIntSat 0 (2 * pow63 - 1) b).toNat

/-- `i as u32` for `i : i32`: two's complement reinterpretation. -/
def i32ToU32 (i : Int) : Nat := (i % pow32).toNat

/-- `n as f32` for an integer `n` (any width): round to nearest, ties to even. -/
def intToF32 (n : Int) : UInt32 := ofRat (n : Rat)

/-! ### Rounding to an integral value -/

/-- `f32::floor`: NaN and ±∞ pass through; `−0.0 ↦ −0.0`; values in `[0,1)` give `+0.0`;
otherwise the exact integer `⌊x⌋` re-encoded (it is always representable, see
`Retro.Lemmas.F32.floor_value`). -/
def floor (b : UInt32) : UInt32 :=
  match toRat? b with
  | none => b
  | some q =>
    let f := q.floor
    if f == 0 then b &&& signMask else ofRat (f : Rat)

/-! ### Comparisons (IEEE: anything involving a NaN is false) -/

def lt (a b : UInt32) : Bool :=
  if isNaN a || isNaN b then false
  else
    match toRat? a, toRat? b with
    | some x, some y => decide (x < y)
    | none, some _ => signBit a                  -- a = ±∞, b finite
    | some _, none => !signBit b                 -- a finite, b = ±∞
    | none, none => signBit a && !signBit b      -- −∞ < +∞ only

def feq (a b : UInt32) : Bool :=
  if isNaN a || isNaN b then false
  else
    match toRat? a, toRat? b with
    | some x, some y => x == y
    | none, none => signBit a == signBit b
    | _, _ => false

def le (a b : UInt32) : Bool := lt a b || feq a b
def gt (a b : UInt32) : Bool := lt b a

/-- `f32::clamp(self, min, max)` (core/num/f32.rs): `assert!(min <= max)`, then
`if self < min { min } else if self > max { max } else { self }`; NaN stays NaN. -/
def clamp (x lo hi : UInt32) : Outcome UInt32 :=
  if !(le lo hi) then .panic "clamp: min > max, or either was NaN"
  else if lt x lo then .ok lo
  else if gt x hi then .ok hi
  else .ok x

/-! ### Arithmetic with one rounding -/

def mul (a b : UInt32) : UInt32 :=
  if isNaN a || isNaN b then canonNaN
  else
    let s := signBit a != signBit b
    match toRat? a, toRat? b with
    | some x, some y => if x * y == 0 then zeroS s else ofRat (x * y)
    | some x, none => if x == 0 then canonNaN else infS s
    | none, some y => if y == 0 then canonNaN else infS s
    | none, none => infS s

def add (a b : UInt32) : UInt32 :=
  if isNaN a || isNaN b then canonNaN
  else
    match toRat? a, toRat? b with
    | some x, some y =>
      if x + y == 0 then
        -- exact zero sum: −0 only for (−0) + (−0) under round-to-nearest
        (if x == 0 && y == 0 then zeroS (signBit a && signBit b) else 0)
      else ofRat (x + y)
    | some _, none => b
    | none, some _ => a
    | none, none => if signBit a == signBit b then a else canonNaN

def sub (a b : UInt32) : UInt32 := add a (neg b)

/-- `a % b` on `f32` (C `fmodf`): exact remainder of the truncated division with the sign of `a`;
NaN when `a` is infinite or `b` is zero; `a` when `b` is infinite. -/
def rem (a b : UInt32) : UInt32 :=
  if isNaN a || isNaN b then canonNaN
  else
    match toRat? a, toRat? b with
    | none, _ => canonNaN
    | some _, none => a
    | some x, some y =>
      if y == 0 then canonNaN
      else
        let r := x - (ratTrunc (x / y) : Rat) * y
        if r == 0 then a &&& signMask else ofRat r

/-- `f32::abs`: clears the sign bit. -/
def fabs (b : UInt32) : UInt32 := b &&& 0x7FFFFFFF

/-- `f32::rem_euclid` of the standard library (library/std/src/f32.rs):
`let r = self % rhs; if r < 0.0 { r + rhs.abs() } else { r }`. -/
def remEuclidStd (x m : UInt32) : UInt32 :=
  let r := rem x m
  if lt r 0 then add r (fabs m) else r

/-- angle.rs `Angle::wrap` on bit patterns (after fix ff0ac1e), with the `rem_euclid` of std / the fallback / libm:
`let w = min + rem_euclid(self - min, max - min); if min < max && w > max { max } else { w }`. -/
def wrapStd (a lo hi : UInt32) : UInt32 :=
  let w := add lo (remEuclidStd (sub a lo) (sub hi lo))
  if lt lo hi && lt hi w then hi else w

/-- the same before fix ff0ac1e (no cap); kept to state the repaired defect (`Props.C18.wrap_old_above_max`) -/
def wrapStdOld (a lo hi : UInt32) : UInt32 := add lo (remEuclidStd (sub a lo) (sub hi lo))

/-- `b as u32 as f32` for a `bool`. -/
def boolToF32 (c : Bool) : UInt32 := if c then one else 0

/-- Two bit patterns denote the same float for comparison purposes: equal bits, or both NaN. -/
def sameFloat (a b : UInt32) : Bool := a == b || (isNaN a && isNaN b)

end Retro.F32
