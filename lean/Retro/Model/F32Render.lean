/-
The `Float32` interpretation of the WHOLE render pipeline (`Model/Render.lean` `render` over a history of
calls), continuing `Model/F32Interp.lean`: a diagnostic, non-gating, bit-exact channel for the drivers that
go through `Drv/RenderCommon.lean` (C01, C02, C06, C07). See design/Float32.md.

What is the generic definition run at `α := Float32` as it stands, and what is re-instantiated:

  generic, unchanged (already in the Rust operation order):
    `Clip.mkVert`, `Clip.clipTris`, `Render.lookupTris`      render.rs:118-133, clip.rs
    `Render.toScreen`   `vec3(x, y, 1.0).z_div(w)` is a TRUE division per component (`x / w`, `y / w`, `1 / w`,
                        not `x * (1/w)`), `to_screen.apply` is `row_vec(i).dot([x, y, z, 1])` with `dot` the left
                        fold from zero `(((0 + m0*x) + m1*y) + m2*z) + m3*1` (`dot4`), rows 0..2 only;
                        `attrib.z_div(w)` divides every component                         render.rs:140-157
    `Render.isBackface`, `culled`   `v[0]*u[1] - v[1]*u[0] > 0.0`                          render.rs:192-196
    `Render.sortKey`    `(z0 + z1) + z2`                                                    render.rs:182
    `Render.shadeSpanColor`, `writeSpan`, `setRow`, `Raster.zdiv`                         target.rs:80-109

  re-instantiated here because the generic text is written for exact arithmetic / an ordered field:
    R1 `triFillF` instead of `Raster.triFill` (rounding, reciprocal guard, branch order, casts: the four
       differences listed in `F32Interp.lean`).
    R2 `depthTestF`: ctx.rs:73-77 is `curr.partial_cmp(&new) == Some(ord)`. For `Ordering::Equal` the generic
       `Render.depthTest` says `¬ curr < new ∧ ¬ new < curr`, which is TRUE when either side is NaN, where
       `partial_cmp` is `None` and the Rust test FAILS. Literal form: `curr == new` (IEEE).
    R3 `depthSortedF`: render.rs:180-190 sorts with `sort_unstable_by(total_cmp)`. (a) `total_cmp` orders
       `-0.0 < +0.0` and NaNs, the generic model compares with `<`; (b) for at most 20 elements core's
       `sort_unstable_by` IS `insertion_sort_shift_left`, which is stable (equal keys keep submission order),
       whereas the generic `Render.depthSorted` (`foldr` + `insertBy`) brings equal keys out in REVERSED
       submission order (documented there as unspecified; no theorem depends on it). Literal form: stable
       insertion by the `total_cmp` key. Above 20 clipped triangles the order of EQUAL keys is whatever
       ipnsort does and is not modelled (distinct keys sort the same under any algorithm).
    R4 the viewport matrix: mat.rs:652-665 computes `half_d = (e - s) / 2.0` where `Vector / f32` is
       `* rhs.recip()` (vec.rs:575-577), i.e. `(e - s) * (1 / 2)`, and the centre as `s + half_d`, all in f32
       after `c as f32` of the `u32` bounds. `RenderCommon.viewportMat` does the same over `Rat`
       (`(r - l) / 2`, `l + dx`); multiplication by 0.5 and division by 2 are the same f32 operation result,
       so this is literal rather than different — it lives here only because the `Rat` one is typed `Mat4 Rat`.
    R5 the harness shader (`render_common.rs` `smuggle` / `discard`): the colour word IS the bit pattern of the
       selected attribute component; discard when `sh = 1` and `floor(x) as i64 + floor(y) as i64` is even.

No theorem is stated about `Float32`; this file is executed only. Imports no Mathlib.
-/
import Retro.Model.F32Interp
import Retro.Model.Render

namespace Retro.F32R
open Retro Retro.Clip Retro.Raster Retro.Render Retro.F32I

abbrev Tgt := Target Float32 UInt32

/-- mat.rs:652-665 `viewport(pt2(l, t)..pt2(r, b))` (R4). -/
def viewportMatF (vp : Nat × Nat × Nat × Nat) : Mat4 Float32 :=
  let (l, t, r, b) := vp
  let sx := Float32.ofNat l
  let sy := Float32.ofNat t
  let ex := Float32.ofNat r
  let ey := Float32.ofNat b
  let rec2 : Float32 := 1 / 2      -- `2.0f32.recip()`
  let dx := (ex - sx) * rec2
  let dy := (ey - sy) * rec2
  ⟨⟨dx, 0, 0, sx + dx⟩, ⟨0, dy, 0, sy + dy⟩, ⟨0, 0, 1, 0⟩, ⟨0, 0, 0, 1⟩⟩

/-- ctx.rs:73-77 `depth_test` (R2): `curr.partial_cmp(&new) == Some(ord)`. -/
def depthTestF (ctx : Ctx) (new curr : Float32) : Bool :=
  match ctx.depthTest with
  | none => true
  | some .less => decide (curr < new)
  | some .greater => decide (curr > new)
  | some .equal => curr == new

/-- `f32::total_cmp` as an integer key (sign-magnitude bits to a monotone integer; `-0.0 < +0.0`).
`Float32.toBits` canonicalises NaN to the positive quiet NaN, which sorts above `+∞`. -/
def totalKey (x : Float32) : Int :=
  let b := x.toBits
  if b >>> 31 == 0 then (b.toNat : Int) else -(((b &&& 0x7fffffff).toNat : Int)) - 1

/-- render.rs:180-190 `depth_sort` (R3): stable insertion by `total_cmp` of the summed clip-space z. -/
def depthSortedF (d : DepthSort) (ts : List (Tri Float32)) : List (Tri Float32) :=
  let lt : Tri Float32 → Tri Float32 → Bool :=
    match d with
    | .frontToBack => fun t u => decide (totalKey (sortKey t) < totalKey (sortKey u))
    | .backToFront => fun t u => decide (totalKey (sortKey u) < totalKey (sortKey t))
  ts.foldl (fun acc t => insertBy lt t acc) []

/-- The harness fragment shader (R5). `frag` is the fragment after `z_div`. -/
def shadeF (sh sel : Nat) (frag : List Float32) : Option UInt32 :=
  let px := (Float32.floor (nth0 frag)).toInt64.toInt
  let py := (Float32.floor (nth1 frag)).toInt64.toInt
  if sh == 1 && (px + py) % 2 == 0 then none
  else some ((frag.drop (3 + sel)).headD 0).toBits

/-- target.rs:57-75, per fragment, with the literal depth test. -/
def shadeFragF (ctx : Ctx) (shade : List Float32 → Option UInt32) (frag : List Float32)
    (curC : UInt32) (curZ : Float32) : UInt32 × Float32 :=
  let newZ := nth2 frag
  if depthTestF ctx newZ curZ then
    match shade frag with
    | some col => (if ctx.colorWrite then col else curC, if ctx.depthWrite then newZ else curZ)
    | none => (curC, curZ)
  else (curC, curZ)

/-- `frags.zip(cbuf_span).zip(zbuf_span)`: stops at the shortest, the rest of the span is untouched. -/
def shadeSpanF (ctx : Ctx) (shade : List Float32 → Option UInt32) :
    List (List Float32) → List UInt32 → List Float32 → List UInt32 × List Float32
  | f :: fs, c :: cs, z :: zs =>
    let (c', z') := shadeFragF ctx shade f c z
    let (cs', zs') := shadeSpanF ctx shade fs cs zs
    (c' :: cs', z' :: zs')
  | _, cs, zs => (cs, zs)

/-- target.rs:33-77 / 80-109 `rasterize` of one scanline (`Render.rasterize` with `shadeSpanF`). -/
def rasterizeF (ctx : Ctx) (shade : List Float32 → Option UInt32) (t : Tgt) (sl : Scanline Float32) :
    Outcome Tgt :=
  let x0 := sl.x0
  let x1 := Nat.max sl.x1 x0
  match t.color[sl.y]? with
  | none => .panic "row index out of bounds"
  | some crow =>
    if crow.length < x1 then .panic "span range out of bounds"
    else
      let frags := sl.frags.map zdiv
      let cspan := (crow.drop x0).take (x1 - x0)
      match t.depth with
      | none =>
        let (cs, _) := shadeSpanColor ctx shade frags cspan
        .ok { t with color := setRow t.color sl.y (writeSpan crow x0 cs) }
      | some dbuf =>
        match dbuf[sl.y]? with
        | none => .panic "row index out of bounds"
        | some zrow =>
          if zrow.length < x1 then .panic "span range out of bounds"
          else
            let zspan := (zrow.drop x0).take (x1 - x0)
            let (cs, zs) := shadeSpanF ctx shade frags cspan zspan
            .ok { color := setRow t.color sl.y (writeSpan crow x0 cs),
                  depth := some (setRow dbuf sl.y (writeSpan zrow x0 zs)) }

def rasterizeAllF (ctx : Ctx) (shade : List Float32 → Option UInt32) : Tgt → List (Scanline Float32) → Outcome Tgt
  | t, [] => .ok t
  | t, sl :: rest =>
    match rasterizeF ctx shade t sl with
    | .panic m => .panic m
    | .ok t' => rasterizeAllF ctx shade t' rest

/-- Per-triangle tail of render() (`Render.drawTris` over `triFillF`). -/
def drawTrisF (ctx : Ctx) (shade : List Float32 → Option UInt32) (m : Mat4 Float32) :
    Tgt → List (Tri Float32) → Outcome Tgt
  | t, [] => .ok t
  | t, tri :: rest =>
    let a := toScreen m tri.a
    let b := toScreen m tri.b
    let c := toScreen m tri.c
    if culled ctx a b c then drawTrisF ctx shade m t rest
    else
      match rasterizeAllF ctx shade t (triFillF a b c) with
      | .panic msg => .panic msg
      | .ok t' => drawTrisF ctx shade m t' rest

/-- render.rs:96-178 `render` at f32 (`Render.render` with R1-R3). -/
def renderF (ctx : Ctx) (shade : List Float32 → Option UInt32) (m : Mat4 Float32)
    (tris : List (Nat × Nat × Nat)) (verts : List (Vec4 Float32 × List Float32)) (t : Tgt) : Outcome Tgt :=
  let cverts := verts.map fun (p, a) => mkVert p a
  match lookupTris cverts tris with
  | .panic msg => .panic msg
  | .ok ts =>
    let clipped := clipTris ts
    let clipped := match ctx.depthSort with
      | some d => depthSortedF d clipped
      | none => clipped
    drawTrisF ctx shade m t clipped

def initTargetF (w h : Nat) (sentinel : UInt32) (zinit : Option UInt32) : Tgt :=
  { color := List.replicate h (List.replicate w sentinel)
    depth := zinit.map fun z => List.replicate h (List.replicate w (Float32.ofBits z)) }

/-- Word equality, NaN = NaN (colour words are smuggled f32 bit patterns). -/
def wordEq (m i : UInt32) : Bool := m == i || (F32.isNaN m && F32.isNaN i)

/-- First pixel at which the final buffers differ: colour first, then depth, row-major. -/
def compareF (w : Nat) (t : Tgt) (color : List UInt32) (depth : Option (List UInt32)) : Option String :=
  let mcol := t.color.flatten
  if mcol.length != color.length then some s!"colour buffer size: model {mcol.length} impl {color.length}" else
  let colBad := ((mcol.zip color).zipIdx).findSome? fun ((m, i), idx) =>
    if wordEq m i then none
    else some s!"pixel ({idx % w},{idx / w}) colour: model {hex8 m} impl {hex8 i}"
  match colBad with
  | some m => some m
  | none =>
    match t.depth, depth with
    | none, none => none
    | some md, some idp =>
      let mz := md.flatten
      if mz.length != idp.length then some s!"depth buffer size: model {mz.length} impl {idp.length}" else
      ((mz.zip idp).zipIdx).findSome? fun ((m, i), idx) =>
        if bitsEq m i then none
        else some s!"pixel ({idx % w},{idx / w}) depth: model {hexOfF32 m} impl {hex8 i}"
    | _, _ => some "depth buffer presence differs"

end Retro.F32R
