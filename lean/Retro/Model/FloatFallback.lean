/-
Model of core/src/math/float.rs: the built-in `fallback` float helpers, micromath's `floor` /
`rem_euclid` as used by the `mm` adapter, the Newton refinement shared by `fallback::recip_sqrt` and
`mm::recip_sqrt`, and the two feature-dependent variants of `round_up_to_half`
(core/src/render/raster.rs:228-238).

Exact functions work on `f32` bit patterns with the operations of `Retro.Model.F32Ops`; the Newton
step is generic over the scalar so that it runs on `Rat` in the driver and is reasoned about over an
arbitrary field in `Retro.Props.C20`.
-/
import Retro.Model.F32Ops

namespace Retro.FloatFallback
open Retro Retro.F32

/-- `8_388_608.0 = 2^23`. -/
def two23 : UInt32 := 0x4B000000

/-- float.rs:111-115 `fallback::abs`: `f32::from_bits(x.to_bits() & !0x8000_0000)`. -/
def abs (x : UInt32) : UInt32 := x &&& 0x7FFFFFFF

/-- float.rs:116-132 `fallback::floor` (after the D11 fix):
```
if !(abs(x) < 8_388_608.0) { return x; }
let trunc = x as i32 as f32;
if trunc > x { trunc - 1.0 } else if trunc == x { x } else { trunc }
``` -/
def floor (x : UInt32) : UInt32 :=
  if !(lt (abs x) two23) then x
  else
    let trunc := intToF32 (toI32Sat x)
    if gt trunc x then sub trunc one
    else if feq trunc x then x
    else trunc

/-- float.rs `fallback::rem_euclid` (after fix e9e07c1; also what the libm back end re-exports):
`let r = x % m; if r < 0.0 { r + abs(m) } else { r }` – as in std; a negative multiple of `m` has the
remainder −0.0, which is not shifted up to `m`. -/
def remEuclid (x m : UInt32) : UInt32 :=
  let r := rem x m
  if lt r 0 then add r (abs m) else r

/-- The formula before e9e07c1, `x % m + (x.is_sign_negative() as u32 as f32) * m`; kept only to state
the repaired defect (`Props.C20.rem_euclid_old_returns_m`). -/
def remEuclidOld (x m : UInt32) : UInt32 :=
  add (rem x m) (mul (boolToF32 (signBit x)) m)

/-- micromath-2.1.0 src/float/floor.rs: `let mut res = (self.0 as i32) as f32; if self.0 < res { res -= 1.0 }`
(saturates beyond the `i32` range, maps NaN to 0.0). -/
def mmFloorRaw (x : UInt32) : UInt32 :=
  let res := intToF32 (toI32Sat x)
  if lt x res then sub res one else res

/-- float.rs:43-51 `mm::floor` (after fix 7bf834c):
`if !(mm::abs(x) < 8_388_608.0) { return x } mm::floor(x)` – micromath's `abs` is the same bit mask as
`fallback::abs`. -/
def mmFloor (x : UInt32) : UInt32 :=
  if !(lt (abs x) two23) then x else mmFloorRaw x

/-- micromath-2.1.0 src/float/rem_euclid.rs: `let r = self % rhs; if r >= 0 { r } else { r + rhs.abs() }`. -/
def mmRemEuclid (x m : UInt32) : UInt32 :=
  let r := rem x m
  if le 0 r then r else add r (abs m)

/-! ### Reciprocal square root -/

/-- The magic-constant seed, float.rs:141 `0x5f37_5a86 - (x.to_bits() >> 1)`: a `u32` subtraction,
which panics on underflow in the checked profile (only for `x < -0.23…`, outside the domain). -/
def rsqrtSeed (x : UInt32) : Outcome UInt32 :=
  let h := x >>> 1
  if h > 0x5f375a86 then .panic "attempt to subtract with overflow"
  else .ok (0x5f375a86 - h)

section Newton
variable {α : Type} [Mul α] [Sub α] [Div α] [OfNat α 1] [OfNat α 2] [OfNat α 3]

/-- float.rs:143 / float.rs:60 one round of Newton's method `y * (1.5 - 0.5 * x * y * y)`
(parsed as `((0.5 * x) * y) * y`). -/
def newtonStep (x y : α) : α := y * ((3 : α) / 2 - (1 : α) / 2 * x * y * y)

/-- float.rs:52-55 `mm::sqrt`: one Heron step `0.5 * (y + x / y)` on micromath's estimate. -/
def heronStep [Add α] (x y : α) : α := (1 : α) / 2 * (y + x / y)
end Newton

/-- `fallback::recip_sqrt` in exact arithmetic: the seed decoded exactly, one exact Newton step.
`none` when `x` is not finite (outside the domain). -/
def recipSqrtNormal (x : UInt32) : Outcome (Option Rat) :=
  match rsqrtSeed x with
  | .panic s => .panic s
  | .ok yb =>
    match toRat? x, toRat? yb with
    | some xv, some y => .ok (some (newtonStep xv y))
    | _, _ => .ok none

/-- float.rs `fallback::recip_sqrt` with the subnormal branch (fix: `if 0.0 < x && x < f32::MIN_POSITIVE
{ return recip_sqrt(x * 16_777_216.0) * 4096.0 }`): a positive subnormal is scaled by 2^24 (exact: its bit
pattern is `m`, the scaled value `m·2^-125` is a normal number) and the result by 2^12 (exact). -/
def recipSqrtRat (x : UInt32) : Outcome (Option Rat) :=
  if !signBit x && expField x == 0 && manField x != 0 then
    match toRat? x with
    | some xv =>
      match recipSqrtNormal (F32.ofRat (xv * 16777216)) with
      | .ok (some r) => .ok (some (r * 4096))
      | other => other
    | none => .ok none
  else recipSqrtNormal x

/-! ### Pixel-centre rounding, raster.rs:233-245 (after fix b772987) -/

/-- raster.rs:242-244 `if n - 0.5 > x { n - 0.5 } else { n + 0.5 }`: `x + 0.5` is not always exact
(0.49999997 + 0.5 rounds up to 1.0), so the candidate centre below `n` is compared with `x` itself. -/
def roundUpHalfCore (n x : UInt32) : UInt32 :=
  if gt (sub n half) x then sub n half else add n half

/-- `#[cfg(feature = "fp")] let n = f32::floor(x + 0.5)`, parametrised by the back end's `floor`. -/
def roundUpHalfFp (floorF : UInt32 → UInt32) (x : UInt32) : UInt32 :=
  roundUpHalfCore (floorF (add x half)) x

/-- `#[cfg(not(feature = "fp"))] let n = (x + 0.5) as i32 as f32`. -/
def roundUpHalfNoFp (x : UInt32) : UInt32 :=
  roundUpHalfCore (intToF32 (toI32Sat (add x half))) x

end Retro.FloatFallback
