/-
Model of `Lathe::build` (/repo/geom/src/solids/lathe.rs:90-155) and of the profile sizes of
the solids built on it (lathe.rs:158-259).

Two parts:
  * the index arithmetic, in `Nat`, exactly as written (vertex count, side quads `p,s,q / p,r,s`,
    cap fans) – compared face by face with the implementation on every run;
  * the vertex rings, generic over the scalar (`Rat` in the driver, any field in the theorems):
    a ring is the orbit of its first vertex under the step rotation `rotate_y`
    (/repo/core/src/math/mat.rs:562-571); `sin`/`cos` of the step angle are parameters.
-/
import Retro.Basic

namespace Retro.Lathe

abbrev Tri := Nat × Nat × Nat

/-! ### Index arithmetic -/

/-- lathe.rs:119-124 for one `(j, i)`, with `n = secs + 1`; `j ≥ 1`, `i ≥ 1` in every call,
so the `usize` subtractions cannot underflow. -/
def quadFaces (n j i : Nat) : List Tri :=
  let p := (j - 1) * n + i - 1
  let q := (j - 1) * n + i
  let r := j * n + i - 1
  let s := j * n + i
  [(p, s, q), (p, r, s)]

/-- lathe.rs:116-126: `for j in 1..n_points { for i in 1..n { … } }`. -/
def sideFaces (nPoints secs : Nat) : List Tri :=
  (List.range (nPoints - 1)).flatMap fun j0 =>
    (List.range secs).flatMap fun i0 => quadFaces (secs + 1) (j0 + 1) (i0 + 1)

/-- lathe.rs:139-141: `for i in 1..secs { push_face(l, l + i, l + i + 1) }`. -/
def bottomCap (l secs : Nat) : List Tri :=
  (List.range (secs - 1)).map fun i0 => (l, l + (i0 + 1), l + (i0 + 1) + 1)

/-- lathe.rs:150-152: `for i in 1..secs { push_face(l, l + i + 1, l + i) }`. -/
def topCap (l secs : Nat) : List Tri :=
  (List.range (secs - 1)).map fun i0 => (l, l + (i0 + 1) + 1, l + (i0 + 1))

/-- Number of vertices pushed by the ring loop (lathe.rs:105-114). -/
def ringVertCount (nPoints secs : Nat) : Nat := nPoints * (secs + 1)

def hasCaps (nPoints : Nat) (capped : Bool) : Bool := capped && decide (nPoints > 0)

/-- `b.mesh.verts.len()` at `b.build()`. -/
def vertCount (nPoints secs : Nat) (capped : Bool) : Nat :=
  ringVertCount nPoints secs + (if hasCaps nPoints capped then 2 * (secs + 1) else 0)

/-- `b.mesh.faces` at `b.build()`, in push order. -/
def faces (nPoints secs : Nat) (capped : Bool) : List Tri :=
  sideFaces nPoints secs ++
    (if hasCaps nPoints capped then
      bottomCap (ringVertCount nPoints secs) secs ++
      topCap (ringVertCount nPoints secs + (secs + 1)) secs
    else [])

/-- Source ring of the cap vertex `k` (`k < 2 (secs+1)`) appended at lathe.rs:134-149:
bottom cap copies `verts[0..=secs]`, top cap copies `verts[l-secs-1..l]`. -/
def capSource (nPoints secs k : Nat) : Nat :=
  if k < secs + 1 then k else ringVertCount nPoints secs - (secs + 1) + (k - (secs + 1))

/-! ### Profile sizes of the concrete solids (`vary_to(_, n)` yields `n + 1` values, vary.rs:51-54) -/

def spherePoints (segments : Nat) : Nat := segments + 1
def torusPoints (minorSectors : Nat) : Nat := minorSectors + 1
def conePoints (segments : Nat) : Nat := segments + 1
/-- lathe.rs:230-256: bottom cap `cap+1`, body `skip(1).take(body-1)`, mirrored top cap `cap+1`. -/
def capsulePoints (body cap : Nat) : Nat := (cap + 1) + (body - 1) + (cap + 1)

/-! ### Vertex rings, generic scalar -/

section Ring
variable {α : Type} [Add α] [Sub α] [Mul α]

abbrev V3 (α : Type) := α × α × α

/-- `rotate_y(a).apply(v)` / `.apply_pt(v)` with `(s, c) = a.sin_cos()` (mat.rs:562-571, 237-247):
rows `[c,0,-s,0]`, `[0,1,0,0]`, `[s,0,c,0]`; the zero products are dropped. -/
def rotY (c s : α) (v : V3 α) : V3 α :=
  (c * v.1 - s * v.2.2, v.2.1, s * v.1 + c * v.2.2)

/-- lathe.rs:109-113: `k` pushes starting from `v`, each followed by a step rotation. -/
def ring (c s : α) : Nat → V3 α → List (V3 α)
  | 0, _ => []
  | k + 1, v => v :: ring c s k (rotY c s v)

def lenSq (v : V3 α) : α := v.1 * v.1 + v.2.1 * v.2.1 + v.2.2 * v.2.2
def radSq (v : V3 α) : α := v.1 * v.1 + v.2.2 * v.2.2

/-- The profile point / profile normal `(x, y)` placed at azimuth `a = (cos, sin)`:
`start.apply_pt(pt3(x, y, 0))` (lathe.rs:106-107) is `place x y (cos az0, sin az0)`. -/
def place (x y : α) (a : α × α) : V3 α := (x * a.1, y, x * a.2)

/-- Azimuth after one step rotation. -/
def stepAngle (c s : α) (a : α × α) : α × α := (c * a.1 - s * a.2, s * a.1 + c * a.2)

def sub3 (a b : V3 α) : V3 α := (a.1 - b.1, a.2.1 - b.2.1, a.2.2 - b.2.2)
def dot3 (a b : V3 α) : α := a.1 * b.1 + a.2.1 * b.2.1 + a.2.2 * b.2.2
def cross3 (a b : V3 α) : V3 α :=
  (a.2.1 * b.2.2 - a.2.2 * b.2.1, a.2.2 * b.1 - a.1 * b.2.2, a.1 * b.2.1 - a.2.1 * b.1)

/-- The azimuths of the `k` pushes of one ring. -/
def angles (c s : α) : Nat → α × α → List (α × α)
  | 0, _ => []
  | k + 1, a => a :: angles c s k (stepAngle c s a)

/-- `v * k` (vec.rs:147 `*self * f32::recip_sqrt(len_sqr)`). -/
def scale3 (k : α) (v : V3 α) : V3 α := (v.1 * k, v.2.1 * k, v.2.2 * k)

/-- `Vector::normalize` with `recip_sqrt` as a parameter `rs` (vec.rs:140-148). -/
def normalize (rs : α → α) (v : V3 α) : V3 α := scale3 (rs (lenSq v)) v

/-- A profile vertex `Vertex2 { pos: (x, y), attrib: (nx, ny) }`. -/
structure ProfilePoint (α : Type) where
  x : α
  y : α
  nx : α
  ny : α

/-- lathe.rs:105-114: all ring vertices (position, normal) in push order; `start` is
`(cos, sin)` of `az_range.start`, `(c, s)` of the step angle. -/
def ringVerts (rs : α → α) (start : α × α) (c s : α) (secs : Nat)
    (profile : List (ProfilePoint α)) : List (V3 α × V3 α) :=
  profile.flatMap fun pt =>
    (ring c s (secs + 1) (place pt.x pt.y start)).zip
      (ring c s (secs + 1) (normalize rs (place pt.nx pt.ny start)))

/-- Geometric normal `(b − a) × (c − a)` of the face `(a, b, c)`, as in `with_vertex_normals`
(mesh.rs:192-193) and in the property. -/
def faceNormal (a b c : V3 α) : V3 α := cross3 (sub3 b a) (sub3 c a)

end Ring

end Retro.Lathe

namespace Retro.Lathe

/-! ### Which vertices of the lathe mesh coincide (closedness model)

`Lathe::build` never shares vertices: the seam column `i = secs` repeats column 0 after a full
turn, a profile point on the axis gives a ring of `secs + 1` copies of one point, the torus
profile ends where it starts, and cap rings are copies of the first / last ring.  `ident`
maps every vertex index to a canonical representative of its class; the driver checks on every
run that the real mesh has exactly these coincidences (and no others). -/

structure Closure where
  /-- full revolution: column `secs` coincides with column 0 -/
  seam : Bool := true
  /-- first / last profile point lies on the axis: its ring is a single point -/
  poleBottom : Bool := false
  poleTop : Bool := false
  /-- last profile point equals the first (torus) -/
  wrap : Bool := false
  deriving Repr, DecidableEq, Inhabited

def ident (nPoints secs : Nat) (cl : Closure) (v : Nat) : Nat :=
  let n := secs + 1
  let ringV := ringVertCount nPoints secs
  let v := if v ≥ ringV then capSource nPoints secs (v - ringV) else v
  let j := v / n
  let i := if cl.seam then (v % n) % secs else v % n
  let j := if cl.wrap && j == nPoints - 1 then 0 else j
  let i := if (cl.poleBottom && j == 0) || (cl.poleTop && j == nPoints - 1) then 0 else i
  j * n + i

def mapTri (f : Nat → Nat) (t : Tri) : Tri := (f t.1, f t.2.1, f t.2.2)

def nondegenerate (t : Tri) : Bool := t.1 != t.2.1 && t.2.1 != t.2.2 && t.1 != t.2.2

/-- Faces over class representatives, faces with two coinciding corners dropped. -/
def mergedFaces (nPoints secs : Nat) (capped : Bool) (cl : Closure) : List Tri :=
  ((faces nPoints secs capped).map (mapTri (ident nPoints secs cl))).filter nondegenerate

end Retro.Lathe
