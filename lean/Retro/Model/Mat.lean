/-
Executable model of `core/src/math/mat.rs` (+ the parts of `vec.rs` it uses).

Generic over the scalar through *core* classes only, so that the same definitions run at
`Rat` in the driver and unfold at any ordered field in `Retro/Props/C09.lean`, `C08.lean`.
Operation order is transliterated literally:

* `dot`            vec.rs:188   `zip.map(a*b).fold(zero, acc + x)`
* `compose`        mat.rs:170   entry (j,i) = `self.row_vec(j).dot(other.col_vec(i))`
* `then`           mat.rs:191   `other.compose(self)`
* `apply/apply_pt` mat.rs:211-247 implicit homogeneous 1, **also for vectors** (`// TODO w=0.0`)
* `determinant`    mat.rs:266   cofactors along row 0 through `det2`, `det3`
* `inverse`        mat.rs:300   Gauss–Jordan, partial pivoting with `max_by` (last maximum wins),
                                guard `det² > ε²·Π|rowᵢ|²` (debug profile)

Rust panics are `Outcome.panic`; nothing is totalised: a zero divisor in `inverse` is the
`debug_assert!(inv.is_finite())` panic, never `x / 0 = 0`.
-/
import Retro.Basic

namespace Retro.Mat

structure V2 (α : Type) where
  x : α
  y : α
  deriving Repr, DecidableEq, Inhabited

structure V3 (α : Type) where
  x : α
  y : α
  z : α
  deriving Repr, DecidableEq, Inhabited

structure V4 (α : Type) where
  x : α
  y : α
  z : α
  w : α
  deriving Repr, DecidableEq, Inhabited

/-- `[[f32; 3]; 3]`, row major. -/
structure M3 (α : Type) where
  r0 : V3 α
  r1 : V3 α
  r2 : V3 α
  deriving Repr, DecidableEq, Inhabited

/-- `[[f32; 4]; 4]`, row major. -/
structure M4 (α : Type) where
  r0 : V4 α
  r1 : V4 α
  r2 : V4 α
  r3 : V4 α
  deriving Repr, DecidableEq, Inhabited

def allIdx : List (Fin 4) := [0, 1, 2, 3]

section Ring
variable {α : Type} [Add α] [Sub α] [Mul α] [Neg α] [OfNat α 0] [OfNat α 1]

/-! ### vec.rs -/

/-- vec.rs:188 `dot`: `fold(Sc::zero(), |acc, x| acc.add(&x))` over the products. -/
def dot2 (a b : V2 α) : α := 0 + a.x * b.x + a.y * b.y
def dot3 (a b : V3 α) : α := 0 + a.x * b.x + a.y * b.y + a.z * b.z
def dot4 (a b : V4 α) : α := 0 + a.x * b.x + a.y * b.y + a.z * b.z + a.w * b.w

/-- vec.rs:182 -/
def V3.lenSqr (v : V3 α) : α := dot3 v v

def V2.add (a b : V2 α) : V2 α := ⟨a.x + b.x, a.y + b.y⟩
def V2.sub (a b : V2 α) : V2 α := ⟨a.x - b.x, a.y - b.y⟩
/-- vec.rs:382 `self.map(|c| c.mul(scalar))` -/
def V2.smul (a : V2 α) (c : α) : V2 α := ⟨a.x * c, a.y * c⟩

def V3.add (a b : V3 α) : V3 α := ⟨a.x + b.x, a.y + b.y, a.z + b.z⟩
def V3.sub (a b : V3 α) : V3 α := ⟨a.x - b.x, a.y - b.y, a.z - b.z⟩
def V3.smul (a : V3 α) (c : α) : V3 α := ⟨a.x * c, a.y * c, a.z * c⟩
def V3.neg (a : V3 α) : V3 α := ⟨-a.x, -a.y, -a.z⟩
def V3.zero : V3 α := ⟨0, 0, 0⟩

def V4.sub (a b : V4 α) : V4 α := ⟨a.x - b.x, a.y - b.y, a.z - b.z, a.w - b.w⟩
def V4.smul (a : V4 α) (c : α) : V4 α := ⟨a.x * c, a.y * c, a.z * c, a.w * c⟩

/-- vec.rs:298 `cross` -/
def cross (s o : V3 α) : V3 α :=
  ⟨s.y * o.z - s.z * o.y, s.z * o.x - s.x * o.z, s.x * o.y - s.y * o.x⟩

def V3.get (v : V3 α) : Fin 3 → α
  | 0 => v.x | 1 => v.y | 2 => v.z
def V4.get (v : V4 α) : Fin 4 → α
  | 0 => v.x | 1 => v.y | 2 => v.z | 3 => v.w

/-! ### rows, columns, transpose, identity -/

/-- mat.rs:99 `row_vec` -/
def M4.row (m : M4 α) : Fin 4 → V4 α
  | 0 => m.r0 | 1 => m.r1 | 2 => m.r2 | 3 => m.r3
/-- mat.rs:109 `col_vec`: `self.0.map(|row| row[i])` -/
def M4.col (m : M4 α) (i : Fin 4) : V4 α :=
  ⟨m.r0.get i, m.r1.get i, m.r2.get i, m.r3.get i⟩
def M4.get (m : M4 α) (r c : Fin 4) : α := (m.row r).get c
def M4.setRow (m : M4 α) (i : Fin 4) (v : V4 α) : M4 α :=
  match i with
  | 0 => { m with r0 := v }
  | 1 => { m with r1 := v }
  | 2 => { m with r2 := v }
  | 3 => { m with r3 := v }

def M3.row (m : M3 α) : Fin 3 → V3 α
  | 0 => m.r0 | 1 => m.r1 | 2 => m.r2
def M3.col (m : M3 α) (i : Fin 3) : V3 α := ⟨m.r0.get i, m.r1.get i, m.r2.get i⟩

/-- mat.rs:117 `transpose`: `from_fn(|j| from_fn(|i| self.0[i][j]))` -/
def M4.transpose (m : M4 α) : M4 α := ⟨m.col 0, m.col 1, m.col 2, m.col 3⟩
def M3.transpose (m : M3 α) : M3 α := ⟨m.col 0, m.col 1, m.col 2⟩

/-- mat.rs:125 `identity` -/
def M4.identity : M4 α := ⟨⟨1, 0, 0, 0⟩, ⟨0, 1, 0, 0⟩, ⟨0, 0, 1, 0⟩, ⟨0, 0, 0, 1⟩⟩
def M3.identity : M3 α := ⟨⟨1, 0, 0⟩, ⟨0, 1, 0⟩, ⟨0, 0, 1⟩⟩

/-! ### compose / then (mat.rs:155-197) -/

/-- Row `j` of `self.compose(other)`: `from_fn(|i| row.dot(&cols[i]))`. -/
def composeRow4 (row : V4 α) (other : M4 α) : V4 α :=
  ⟨dot4 row (other.col 0), dot4 row (other.col 1), dot4 row (other.col 2), dot4 row (other.col 3)⟩
/-- mat.rs:170 `self.compose(other)`: apply `other` first, then `self`. -/
def M4.compose (self other : M4 α) : M4 α :=
  ⟨composeRow4 self.r0 other, composeRow4 self.r1 other, composeRow4 self.r2 other,
   composeRow4 self.r3 other⟩
/-- mat.rs:191 `self.then(other) = other.compose(self)` -/
def M4.andThen (self other : M4 α) : M4 α := other.compose self

def composeRow3 (row : V3 α) (other : M3 α) : V3 α :=
  ⟨dot3 row (other.col 0), dot3 row (other.col 1), dot3 row (other.col 2)⟩
def M3.compose (self other : M3 α) : M3 α :=
  ⟨composeRow3 self.r0 other, composeRow3 self.r1 other, composeRow3 self.r2 other⟩
def M3.andThen (self other : M3 α) : M3 α := other.compose self

/-- A product of any length built with `then`: `c₁.then(c₂)…then(cₙ)` (apply `c₁` first). -/
def M4.chain : List (M4 α) → M4 α
  | [] => M4.identity
  | m :: ms => ms.foldl (fun acc c => acc.andThen c) m

/-! ### apply (mat.rs:199-247, 379-402) -/

/-- mat.rs:211 `Mat3x3::apply(&Vec2)`: `[x, y, 1.0]` (`// TODO w=0.0`), rows 0 and 1. -/
def M3.apply (m : M3 α) (v : V2 α) : V2 α :=
  let h : V3 α := ⟨v.x, v.y, 1⟩
  ⟨dot3 m.r0 h, dot3 m.r1 h⟩
/-- mat.rs:218 `Mat3x3::apply_pt(&Point2)` -/
def M3.applyPt (m : M3 α) (p : V2 α) : V2 α :=
  let h : V3 α := ⟨p.x, p.y, 1⟩
  ⟨dot3 m.r0 h, dot3 m.r1 h⟩

/-- mat.rs:237 `Mat4x4::apply(&Vec3)`: `[x, y, z, 1.0]` (`// TODO w=0.0`), rows 0..2. -/
def M4.apply (m : M4 α) (v : V3 α) : V3 α :=
  let h : V4 α := ⟨v.x, v.y, v.z, 1⟩
  ⟨dot4 m.r0 h, dot4 m.r1 h, dot4 m.r2 h⟩
/-- mat.rs:244 `Mat4x4::apply_pt(&Point3)` -/
def M4.applyPt (m : M4 α) (p : V3 α) : V3 α :=
  let h : V4 α := ⟨p.x, p.y, p.z, 1⟩
  ⟨dot4 m.r0 h, dot4 m.r1 h, dot4 m.r2 h⟩
/-- mat.rs:392 `Mat4x4<RealToProj>::apply(&Point3) -> ProjVec4` -/
def M4.applyProj (m : M4 α) (p : V3 α) : V4 α :=
  let h : V4 α := ⟨p.x, p.y, p.z, 1⟩
  ⟨dot4 m.r0 h, dot4 m.r1 h, dot4 m.r2 h, dot4 m.r3 h⟩

/-- Applying the parts of a chain one after the other. -/
def applyPtSeq (ms : List (M4 α)) (p : V3 α) : V3 α := ms.foldl (fun q c => c.applyPt q) p
def applySeq (ms : List (M4 α)) (v : V3 α) : V3 α := ms.foldl (fun q c => c.apply q) v

/-- The linear part of a 4×4 applied to a vector (what the property text asks of `apply`
on vectors); *not* what the code computes when the translation column is non-zero. -/
def M4.linearPart (m : M4 α) (v : V3 α) : V3 α :=
  ⟨m.r0.x * v.x + m.r0.y * v.y + m.r0.z * v.z,
   m.r1.x * v.x + m.r1.y * v.y + m.r1.z * v.z,
   m.r2.x * v.x + m.r2.y * v.y + m.r2.z * v.z⟩

/-! ### determinant (mat.rs:266) -/

/-- mat.rs:266-274, literally: `det2(m,n) = s[m]*t[n] - s[n]*t[m]`,
`det3(j,k,l) = r[j]*det2(k,l) - r[k]*det2(j,l) + r[l]*det2(j,k)`. -/
def M4.det (m : M4 α) : α :=
  let a := m.r0.x; let b := m.r0.y; let c := m.r0.z; let d := m.r0.w
  let r := m.r1; let s := m.r2; let t := m.r3
  let det2 (i j : Fin 4) : α := s.get i * t.get j - s.get j * t.get i
  let det3 (j k l : Fin 4) : α := r.get j * det2 k l - r.get k * det2 j l + r.get l * det2 j k
  a * det3 1 2 3 - b * det3 0 2 3 + c * det3 0 1 3 - d * det3 0 1 2

/-- mat.rs:307-309 `(0..4).map(|i| self.row_vec(i).len_sqr()).product()`: the squared Hadamard bound of the
determinant (`Iterator::product` folds from `1.0`). -/
def M4.scaleSqr (m : M4 α) : α := 1 * dot4 m.r0 m.r0 * dot4 m.r1 m.r1 * dot4 m.r2 m.r2 * dot4 m.r3 m.r3

/-! ### constructors (mat.rs:142-153, 493-583) -/

/-- mat.rs:144 `from_basis(i, j, k)`: the basis vectors are the *columns*. -/
def fromBasis (i j k : V3 α) : M4 α :=
  ⟨⟨i.x, j.x, k.x, 0⟩, ⟨i.y, j.y, k.y, 0⟩, ⟨i.z, j.z, k.z, 0⟩, ⟨0, 0, 0, 1⟩⟩
/-- mat.rs:493 -/
def scale (s : V3 α) : M4 α :=
  ⟨⟨s.x, 0, 0, 0⟩, ⟨0, s.y, 0, 0⟩, ⟨0, 0, s.z, 0⟩, ⟨0, 0, 0, 1⟩⟩
/-- mat.rs:504 -/
def translate (t : V3 α) : M4 α :=
  ⟨⟨1, 0, 0, t.x⟩, ⟨0, 1, 0, t.y⟩, ⟨0, 0, 1, t.z⟩, ⟨0, 0, 0, 1⟩⟩
/-- mat.rs:550 `rotate_x`, with `(sin, cos) = a.sin_cos()` as parameters. -/
def rotateX (sin cos : α) : M4 α :=
  ⟨⟨1, 0, 0, 0⟩, ⟨0, cos, sin, 0⟩, ⟨0, -sin, cos, 0⟩, ⟨0, 0, 0, 1⟩⟩
/-- mat.rs:562 -/
def rotateY (sin cos : α) : M4 α :=
  ⟨⟨cos, 0, -sin, 0⟩, ⟨0, 1, 0, 0⟩, ⟨sin, 0, cos, 0⟩, ⟨0, 0, 0, 1⟩⟩
/-- mat.rs:574 -/
def rotateZ (sin cos : α) : M4 α :=
  ⟨⟨cos, sin, 0, 0⟩, ⟨-sin, cos, 0, 0⟩, ⟨0, 0, 1, 0⟩, ⟨0, 0, 0, 1⟩⟩

end Ring

/-! ### ordered / divisible part: abs, approx_eq, normalize, orient, inverse -/

section Field
variable {α : Type} [Add α] [Sub α] [Mul α] [Div α] [Neg α] [OfNat α 0] [OfNat α 1]
  [LT α] [DecidableLT α] [DecidableEq α]

/-- `f32::abs` -/
def absS (x : α) : α := if x < 0 then -x else x
/-- `f32::max` (no NaN in the exact model) -/
def maxS (a b : α) : α := if a < b then b else a

/-- approx.rs:38 `approx_eq_eps`: `|self - other| <= rel_eps * |self|.max(1.0)` -/
def approxEq (eps a b : α) : Bool := !decide (eps * maxS (absS a) 1 < absS (a - b))
/-- `Vec3::approx_eq(&Vec3::zero())` (component-wise, approx.rs:52) -/
def approxZero3 (eps : α) (v : V3 α) : Bool :=
  approxEq eps v.x 0 && approxEq eps v.y 0 && approxEq eps v.z 0

/-- vec.rs:140 `normalize`: `*self * recip_sqrt(len_sqr)`; the reciprocal square root is a
parameter `rho` of the model (characterised in the theorems by `rho² · len_sqr = 1`).
`debug_assert_ne!(len_sqr, 0.0)` is the panic. -/
def normalize (rho : α) (v : V3 α) : Outcome (V3 α) :=
  if v.lenSqr = 0 then .panic "normalize: zero-length vector" else .ok (v.smul rho)

/-- mat.rs:536 `orient(new_y, new_z)` with its two `assert!(!v.approx_eq(&zero))`. -/
def orient (eps : α) (newY newZ : V3 α) : Outcome (M4 α) :=
  if approxZero3 eps newY then .panic "orient: new_y approx zero"
  else if approxZero3 eps newZ then .panic "orient: new_z approx zero"
  else .ok (fromBasis (cross newY newZ) newY newZ)

/-- mat.rs:521 `orient_y(new_y, x) = orient(new_y, x.cross(&new_y).normalize())` -/
def orientY (eps rho : α) (newY x : V3 α) : Outcome (M4 α) :=
  match normalize rho (cross x newY) with
  | .panic m => .panic m
  | .ok z => orient eps newY z
/-- mat.rs:531 `orient_z(new_z, x) = orient(new_z.cross(&x).normalize(), new_z)` -/
def orientZ (eps rho : α) (newZ x : V3 α) : Outcome (M4 α) :=
  match normalize rho (cross newZ x) with
  | .panic m => .panic m
  | .ok y => orient eps y newZ

/-! #### Gauss–Jordan inverse (mat.rs:300-376) -/

/-- The three elementary row operations of mat.rs:313-325. -/
inductive RowOp (α : Type) where
  /-- `swap_rows(m, r, s)` -/
  | swap (r s : Fin 4)
  /-- `sub_row(m, from, to, mul)`: `m[to] = m[to] - m[from] * mul` -/
  | sub (src dst : Fin 4) (c : α)
  /-- `mul_row(m, row, mul)` -/
  | scale (r : Fin 4) (c : α)

def RowOp.apply : RowOp α → M4 α → M4 α
  | .swap r s, m => (m.setRow r (m.row s)).setRow s (m.row r)
  | .sub src dst c, m => m.setRow dst ((m.row dst).sub ((m.row src).smul c))
  | .scale r c, m => m.setRow r ((m.row r).smul c)

/-- The pair `(this, inv)` that the elimination transforms in lock step. -/
structure GJ (α : Type) where
  this : M4 α
  inv : M4 α

/-- Every row operation in `inverse` is applied to `this` and to `inv`. -/
def GJ.both (s : GJ α) (op : RowOp α) : GJ α := ⟨op.apply s.this, op.apply s.inv⟩

/-- mat.rs:338 `(idx..4).max_by(|r1, r2| |this[r1][idx]|.partial_cmp(|this[r2][idx]|))`.
`Iterator::max_by` keeps the accumulated element only when it compares `Greater`,
so among equal magnitudes the **last** row wins. -/
def pivotRow (m : M4 α) (idx : Fin 4) : Fin 4 :=
  allIdx.foldl (fun best r =>
    if idx < r then (if absS (m.get r idx) < absS (m.get best idx) then best else r) else best) idx

/-- mat.rs:351-355, one iteration of `for r in (idx + 1)..4`. -/
def elimBelow (idx : Fin 4) (div : α) (s : GJ α) (r : Fin 4) : GJ α :=
  if idx < r then s.both (.sub idx r (s.this.get r idx * div)) else s

/-- mat.rs:337-357, one iteration of `for idx in 0..4`. -/
def fwdStep (s : GJ α) (idx : Fin 4) : GJ α :=
  let p := pivotRow s.this idx
  if s.this.get p idx = 0 then s
  else
    let s := s.both (.swap idx p)
    let div := 1 / s.this.get idx idx
    allIdx.foldl (elimBelow idx div) s

/-- mat.rs:361-366, one iteration of `for r in 0..idx`. -/
def backRow (idx : Fin 4) (diag : α) (s : GJ α) (r : Fin 4) : GJ α :=
  if r < idx then s.both (.sub idx r (s.this.get r idx / diag)) else s

/-- mat.rs:359-367, one iteration of `for &idx in &[3, 2, 1]`. A zero `diag` makes `x`
infinite or NaN and with it a whole row of `inv`: that is the
`debug_assert!(inv.is_finite())` panic at mat.rs:374. -/
def backStep (s : Outcome (GJ α)) (idx : Fin 4) : Outcome (GJ α) :=
  match s with
  | .panic m => .panic m
  | .ok s =>
    let diag := s.this.get idx idx
    if diag = 0 then .panic "inverse: result not finite"
    else .ok (allIdx.foldl (backRow idx diag) s)

/-- mat.rs:369-373, one iteration of the normalising loop. -/
def normStep (s : Outcome (GJ α)) (r : Fin 4) : Outcome (GJ α) :=
  match s with
  | .panic m => .panic m
  | .ok s =>
    let d := s.this.get r r
    if d = 0 then .panic "inverse: result not finite"
    else .ok (s.both (.scale r (1 / d)))

/-- The whole elimination, returning the final `(this, inv)`.
`eps` is `f32::EPSILON` of the debug-profile guard (mat.rs:303-315, as of d46db54)
`assert!(det * det > EPSILON * EPSILON * scale_sqr)`: near-singularity is judged relative to the
Hadamard bound `scale_sqr = Π |row_i|²`, not absolutely. -/
def inverseGJ (eps : α) (a : M4 α) : Outcome (GJ α) :=
  if eps * eps * a.scaleSqr < a.det * a.det then
    let s1 := allIdx.foldl fwdStep ⟨a, M4.identity⟩
    let s2 := ([3, 2, 1] : List (Fin 4)).foldl backStep (.ok s1)
    allIdx.foldl normStep s2
  else .panic "inverse: singular or near-singular"

/-- mat.rs:300 `inverse` -/
def inverse (eps : α) (a : M4 α) : Outcome (M4 α) :=
  match inverseGJ eps a with
  | .ok s => .ok s.inv
  | .panic m => .panic m

/-- Number of genuine row exchanges (`pivot ≠ idx`) elimination performs: generator tag. -/
def exchangeCount (a : M4 α) : Nat :=
  (allIdx.foldl (fun (acc : GJ α × Nat) idx =>
    let p := pivotRow acc.1.this idx
    (fwdStep acc.1 idx, if acc.1.this.get p idx = 0 then acc.2 else if p = idx then acc.2 else acc.2 + 1))
    (⟨a, M4.identity⟩, 0)).2

/-! ### projection and viewport matrices (mat.rs:599-660) -/

variable [OfNat α 2]

/-- mat.rs:599 `perspective(focal_ratio, aspect_ratio, near..far)` with its four asserts. -/
def perspective (focal aspect near far : α) : Outcome (M4 α) :=
  if !decide (0 < focal) then .panic "focal ratio must be positive"
  else if !decide (0 < aspect) then .panic "aspect ratio must be positive"
  else if !decide (0 < near) then .panic "near must be positive"
  else if !decide (near < far) then .panic "far must be greater than near"
  else
    let e00 := focal
    let e11 := e00 * aspect
    let e22 := (far + near) / (far - near)
    let e23 := 2 * far * near / (near - far)
    .ok ⟨⟨e00, 0, 0, 0⟩, ⟨0, e11, 0, 0⟩, ⟨0, 0, e22, e23⟩, ⟨0, 0, 1, 0⟩⟩

/-- `Vector / 2.0` (vec.rs:575): multiplication by `2.0.recip()`. -/
def half (x : α) : α := x * (1 / 2)

/-- mat.rs:629 `orthographic(lbn, rtf)`. A box with a zero extent gives `recip(0) = inf`
in Rust: no panic but a non-finite matrix; the model reports that as its own outcome
instead of inventing a value. -/
def orthographic (lbn rtf : V3 α) : Outcome (M4 α) :=
  let hd : V3 α := ⟨half (rtf.x - lbn.x), half (rtf.y - lbn.y), half (rtf.z - lbn.z)⟩
  let c := lbn.add hd
  if hd.x = 0 ∨ hd.y = 0 ∨ hd.z = 0 then .panic "nonfinite: orthographic box has a zero extent"
  else
    let idx := 1 / hd.x; let idy := 1 / hd.y; let idz := 1 / hd.z
    .ok ⟨⟨idx, 0, 0, (-c.x) * idx⟩, ⟨0, idy, 0, (-c.y) * idy⟩, ⟨0, 0, idz, (-c.z) * idz⟩, ⟨0, 0, 0, 1⟩⟩

/-- mat.rs:647 `viewport(pt2(l, t)..pt2(r, b))`, the bounds already converted `as f32`. -/
def viewport (l t r b : α) : M4 α :=
  let dx := half (r - l); let dy := half (b - t)
  let cx := l + dx; let cy := t + dy
  ⟨⟨dx, 0, 0, cx⟩, ⟨0, dy, 0, cy⟩, ⟨0, 0, 1, 0⟩, ⟨0, 0, 0, 1⟩⟩

end Field

end Retro.Mat
