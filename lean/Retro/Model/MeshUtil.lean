/-
U01 — library utilities (part 2): `core/src/geom/mesh.rs`.

  * `Mesh::new`                         index validation → panic            mesh.rs:74-89
  * `Mesh::builder`, `into_builder`     mesh.rs:94-102
  * `Builder::{push_face, push_faces, push_vert, push_verts, build}`   mesh.rs:111-148
  * `Builder<()>::transform`            mesh.rs:156-170
  * `Builder<()>::with_vertex_normals`  mesh.rs:185-212

A `Builder` is a wrapper around its (possibly not yet valid) mesh (`pub struct Builder { pub mesh }`), so the
model uses one structure for both.  Vectors, the cross product and the matrices are those of
`Retro.Model.Mat`.  The reciprocal square root used by `normalize` (vec.rs:140-148) is a parameter `rs`
(characterised in the theorems by `0 ≤ rs x ∧ rs x * rs x * x = 1` for `0 < x`).
-/
import Retro.Model.Mat

namespace Retro.MeshUtil
open Retro.Mat

/-- `Tri<usize>` -/
structure Face where
  a : Nat
  b : Nat
  c : Nat
  deriving Repr, DecidableEq, Inhabited

def Face.toList (f : Face) : List Nat := [f.a, f.b, f.c]

/-- `Mesh<A>` / `Builder<A>`: faces and vertices `(pos, attrib)` in insertion order. -/
structure Mesh (α A : Type) where
  faces : List Face
  verts : List (V3 α × A)

/-- mesh.rs:84 `vs.iter().all(|&j| j < verts.len())` -/
def Face.valid (n : Nat) (f : Face) : Bool := decide (f.a < n) && decide (f.b < n) && decide (f.c < n)

/-- mesh.rs:74-89 `Mesh::new`: the `assert!` of the first face with an index `≥ verts.len()` panics. -/
def meshNew {α A : Type} (faces : List Face) (verts : List (V3 α × A)) : Outcome (Mesh α A) :=
  if faces.all (Face.valid verts.length) then .ok ⟨faces, verts⟩
  else .panic "vertex index out of bounds"

/-- mesh.rs:94 `Mesh::builder()` = `Builder::default()`: the empty builder. -/
def builder {α A : Type} : Mesh α A := ⟨[], []⟩
/-- mesh.rs:100 `into_builder`: `Builder { mesh: self }` -/
def intoBuilder {α A : Type} (m : Mesh α A) : Mesh α A := m

/-- mesh.rs:111 `push_face`: `self.mesh.faces.push(Tri([a, b, c]))` -/
def pushFace {α A : Type} (b : Mesh α A) (i j k : Nat) : Mesh α A := { b with faces := b.faces ++ [⟨i, j, k⟩] }
/-- mesh.rs:120 `push_faces`: `faces.extend(…)` -/
def pushFaces {α A : Type} (b : Mesh α A) (fs : List Face) : Mesh α A := { b with faces := b.faces ++ fs }
/-- mesh.rs:128 `push_vert`: `verts.push(vertex(pos, attrib))` -/
def pushVert {α A : Type} (b : Mesh α A) (p : V3 α) (a : A) : Mesh α A := { b with verts := b.verts ++ [(p, a)] }
/-- mesh.rs:133 `push_verts`: `verts.extend(…)` -/
def pushVerts {α A : Type} (b : Mesh α A) (vs : List (V3 α × A)) : Mesh α A := { b with verts := b.verts ++ vs }
/-- mesh.rs:145 `build`: `Mesh::new(self.mesh.faces, self.mesh.verts)` -/
def build {α A : Type} (b : Mesh α A) : Outcome (Mesh α A) := meshNew b.faces b.verts

section Transform
variable {α : Type} [Add α] [Sub α] [Mul α] [Neg α] [OfNat α 0] [OfNat α 1]

/-- mesh.rs:156-170 `Builder<()>::transform`: `vertex(tf.apply_pt(&v.pos), v.attrib)` for every vertex,
faces moved over unchanged; no validation. -/
def transform (tf : M4 α) (b : Mesh α Unit) : Mesh α Unit :=
  { faces := b.faces, verts := b.verts.map (fun v => (tf.applyPt v.1, v.2)) }

/-- mesh.rs:192-193: `let [a, b, c] = vs.map(|i| verts[i].pos); (b - a).cross(&(c - a))`.
`Point - Point` is `Affine::sub` (point.rs:293). -/
def faceNormalOf (a b c : V3 α) : V3 α := cross (b.sub a) (c.sub a)

/-- The weighted normal of a face, or the index panic of `verts[i]`. -/
def faceNormal (pos : List (V3 α)) (f : Face) : Outcome (V3 α) :=
  match pos[f.a]?, pos[f.b]?, pos[f.c]? with
  | some a, some b, some c => .ok (faceNormalOf a b c)
  | _, _, _ => .panic "index out of bounds"

/-- mesh.rs:203 `verts[i].attrib += n` (vec.rs:535: `Affine::add`) -/
def addAt (acc : List (V3 α)) (i : Nat) (n : V3 α) : List (V3 α) := acc.modify i (fun v => v.add n)

/-- mesh.rs:201-205, one iteration of `for (&Tri(vs), n) in zip(&faces, face_normals)`: the lazily
computed face normal (index panic), then `for i in vs { verts[i].attrib += n }`. -/
def accumFace (pos : List (V3 α)) (acc : Outcome (List (V3 α))) (f : Face) : Outcome (List (V3 α)) :=
  match acc with
  | .panic s => .panic s
  | .ok acc =>
    match faceNormal pos f with
    | .panic s => .panic s
    | .ok n => .ok (addAt (addAt (addAt acc f.a n) f.b n) f.c n)

/-- mesh.rs:196-205: vertex normals initialised to zero, then accumulated over the faces in order. -/
def accumNormals (pos : List (V3 α)) (faces : List Face) : Outcome (List (V3 α)) :=
  faces.foldl (accumFace pos) (.ok (pos.map fun _ => V3.zero))

end Transform

section Normals
variable {α : Type} [Add α] [Sub α] [Mul α] [Neg α] [OfNat α 0] [OfNat α 1] [DecidableEq α]

/-- vec.rs:140-148 `normalize` with the reciprocal square root as a function of `len_sqr`:
`debug_assert_ne!(len_sqr, 0.0)`, then `*self * recip_sqrt(len_sqr)`. -/
def normalizeF (rs : α → α) (v : V3 α) : Outcome (V3 α) :=
  if v.lenSqr = 0 then .panic "normalize: zero-length vector" else .ok (v.smul (rs v.lenSqr))

/-- mesh.rs:207-209 `for v in &mut verts { v.attrib = v.attrib.normalize() }`, in vertex order. -/
def normalizeAll (rs : α → α) : List (V3 α) → Outcome (List (V3 α))
  | [] => .ok []
  | v :: vs =>
    match normalizeF rs v with
    | .panic s => .panic s
    | .ok n =>
      match normalizeAll rs vs with
      | .panic s => .panic s
      | .ok ns => .ok (n :: ns)

/-- mesh.rs:185-212 `with_vertex_normals`. The final `Mesh::new(faces, verts)` re-validates the indices
(it cannot fail any more: the accumulation has already indexed every vertex of every face). -/
def withVertexNormals (rs : α → α) (b : Mesh α Unit) : Outcome (Mesh α (V3 α)) :=
  let pos := b.verts.map (·.1)
  match accumNormals pos b.faces with
  | .panic s => .panic s
  | .ok sums =>
    match normalizeAll rs sums with
    | .panic s => .panic s
    | .ok ns => meshNew b.faces (List.zip pos ns)

end Normals

end Retro.MeshUtil
