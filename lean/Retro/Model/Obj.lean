/-
Model of the Wavefront OBJ reader, /repo/geom/src/io.rs (`parse_obj`) and of
`Mesh::new` / `Builder::build`, /repo/core/src/geom/mesh.rs:74-89,145-148.

Bytes and characters.  `parse_obj` maps every input byte through `char::from(u8)`
(io.rs:131), i.e. the byte `b` becomes the character U+00`b` (Latin-1).  A line is therefore
modelled as the list of its code points, which are again `UInt8`.  All functions of Rust's
`str` that the reader uses are insensitive to the UTF-8 encoding of the characters
U+0080..U+00FF except one: `item.as_bytes()` (io.rs:139), whose *first byte* is reported by
`UnsupportedItem` – see `utf8First`.

The decimal float grammar `f32::from_str` is a parameter `pf : List UInt8 → Option UInt32`
(token ↦ bit pattern) of every function here; the driver instantiates it with
`Retro.ParseF32.parseF32` (Model/ParseF32.lean), the theorems hold for every `pf`.
`usize` is 64 bits wide (x86-64 target of the harness).
-/
import Retro.Basic

namespace Retro.Obj

/-! ### Lexing -/

/-- `u8::is_ascii_whitespace` = U+0020, U+0009, U+000A, U+000C, U+000D (no U+000B). -/
def isWs (b : UInt8) : Bool :=
  b == 0x20 || b == 0x09 || b == 0x0A || b == 0x0C || b == 0x0D

/-- io.rs:126-133: `while it.peek().is_some() { line = it.map(char::from).take_while(c != '\n') }`.
One entry per loop iteration: a line ends at each `\n` (which is consumed) or at the end of input;
no iteration is made for the empty remainder after a final `\n`. -/
def splitLines : List UInt8 → List (List UInt8)
  | [] => []
  | b :: bs =>
    if b == 0x0A then [] :: splitLines bs
    else
      match splitLines bs with
      | [] => [[b]]
      | l :: ls => (b :: l) :: ls

/-- `str::split_ascii_whitespace` (io.rs:135): the maximal non-empty runs of non-whitespace. -/
def splitWs : List UInt8 → List (List UInt8)
  | [] => []
  | b :: bs =>
    if isWs b then splitWs bs
    else
      match bs with
      | [] => [[b]]
      | c :: _ =>
        if isWs c then [b] :: splitWs bs
        else
          match splitWs bs with
          | t :: ts => (b :: t) :: ts
          | [] => [[b]]

/-- `str::split(sep)` (io.rs:231): pieces between separators, possibly empty, never zero pieces. -/
def splitOn (sep : UInt8) : List UInt8 → List (List UInt8)
  | [] => [[]]
  | b :: bs =>
    if b == sep then [] :: splitOn sep bs
    else
      match splitOn sep bs with
      | p :: ps => (b :: p) :: ps
      | [] => [[b]]

/-- First byte of the UTF-8 encoding of U+00`b`: `b` itself below 0x80, else `0xC0 | b >> 6`
(0xC2 or 0xC3).  This is what `[c, ..] => UnsupportedItem(*c as char)` (io.rs:161) sees. -/
def utf8First (b : Nat) : Nat :=
  if b < 0x80 then b else 0xC0 + b / 64

/-! ### Numbers -/

def isDigit (b : UInt8) : Bool := 48 ≤ b.toNat && b.toNat ≤ 57

/-- Decimal digits to a natural number; `none` on any other character. -/
def parseDigits : Nat → List UInt8 → Option Nat
  | acc, [] => some acc
  | acc, b :: bs =>
    if isDigit b then parseDigits (acc * 10 + (b.toNat - 48)) bs else none

def usizeBound : Nat := 18446744073709551616   -- 2^64

/-- The optional leading `+`. -/
def stripPlus (s : List UInt8) : List UInt8 :=
  match s with
  | b :: rest => if b == 43 then rest else s
  | [] => s

/-- At least one digit, digits only, value below 2^64. -/
def parseUnsigned (digits : List UInt8) : Option Nat :=
  match digits with
  | [] => none
  | _ :: _ =>
    match parseDigits 0 digits with
    | some n => if n < usizeBound then some n else none
    | none => none

/-- `usize::from_str` (core::num, `from_str_radix(_, 10)` for an unsigned type): an optional
single `+`, then at least one ASCII digit, nothing else; overflow past `usize::MAX` is an error.
(A `-` is not stripped for unsigned types, so it is an invalid digit.) -/
def parseUsize (s : List UInt8) : Option Nat :=
  parseUnsigned (stripPlus s)

/-- io.rs:58-72 without `Io`. `unsupportedItem` carries the code point of the reported `char`. -/
inductive Kind where
  | vertex | texcoord | normal
  deriving Repr, DecidableEq, Inhabited

inductive Err where
  | unsupportedItem (c : Nat)
  | unexpectedEnd
  | invalidValue
  | indexOutOfBounds (what : Kind) (i : Nat)
  deriving Repr, DecidableEq, Inhabited

/-- io.rs:74-79. Zero-based. -/
structure Indices where
  pos : Nat
  uv : Option Nat
  n : Option Nat
  deriving Repr, DecidableEq, Inhabited

/-- io.rs:225-228: `s.parse::<usize>()?.checked_sub(1).ok_or(InvalidValue)`. -/
def parseIndex (s : List UInt8) : Except Err Nat :=
  match parseUsize s with
  | none => .error .invalidValue
  | some 0 => .error .invalidValue
  | some (n + 1) => .ok n

/-- io.rs:230-250. Pieces after the third are never looked at. -/
def parseIndices (param : List UInt8) : Except Err Indices :=
  match splitOn 47 param with
  | [] => .error .unexpectedEnd                 -- `next(indices)`: cannot happen, kept literally
  | p0 :: rest =>
    match parseIndex p0 with
    | .error e => .error e
    | .ok pos =>
      match rest with
      | [] => .ok { pos := pos, uv := none, n := none }
      | p1 :: rest2 =>
        let uvRes : Except Err (Option Nat) :=
          match p1 with
          | [] => .ok none                      -- `1//2`
          | _ :: _ => match parseIndex p1 with
            | .ok i => .ok (some i)
            | .error e => .error e
        match uvRes with
        | .error e => .error e
        | .ok uv =>
          match rest2 with
          | [] => .ok { pos := pos, uv := uv, n := none }
          | p2 :: _ =>
            match parseIndex p2 with
            | .error e => .error e
            | .ok n => .ok { pos := pos, uv := uv, n := some n }

abbrev Tokens := List (List UInt8)

/-- `next(i)?.parse()?` (io.rs:201-211). -/
def nextFloat (pf : List UInt8 → Option UInt32) : Tokens → Except Err (UInt32 × Tokens)
  | [] => .error .unexpectedEnd
  | t :: ts =>
    match pf t with
    | some v => .ok (v, ts)
    | none => .error .invalidValue

abbrev P3 := UInt32 × UInt32 × UInt32

/-- io.rs:206-213 `parse_vector` (also `parse_point`, `parse_normal`). -/
def parseVector (pf : List UInt8 → Option UInt32) (ts : Tokens) : Except Err P3 :=
  match nextFloat pf ts with
  | .error e => .error e
  | .ok (x, ts) =>
    match nextFloat pf ts with
    | .error e => .error e
    | .ok (y, ts) =>
      match nextFloat pf ts with
      | .error e => .error e
      | .ok (z, _) => .ok (x, y, z)

/-- io.rs:198-204 `parse_texcoord`. -/
def parseTexcoord (pf : List UInt8 → Option UInt32) (ts : Tokens) : Except Err (UInt32 × UInt32) :=
  match nextFloat pf ts with
  | .error e => .error e
  | .ok (u, ts) =>
    match nextFloat pf ts with
    | .error e => .error e
    | .ok (v, _) => .ok (u, v)

/-- `parse_indices(next(i)?)?`. -/
def nextIndices : Tokens → Except Err (Indices × Tokens)
  | [] => .error .unexpectedEnd
  | t :: ts =>
    match parseIndices t with
    | .ok i => .ok (i, ts)
    | .error e => .error e

abbrev Face := Indices × Indices × Indices

/-- io.rs:189-196 `parse_face`: exactly three corners are read, further tokens are ignored. -/
def parseFace (ts : Tokens) : Except Err Face :=
  match nextIndices ts with
  | .error e => .error e
  | .ok (a, ts) =>
    match nextIndices ts with
    | .error e => .error e
    | .ok (b, ts) =>
      match nextIndices ts with
      | .error e => .error e
      | .ok (c, _) => .ok (a, b, c)

/-! ### The reader state and one loop iteration -/

/-- `Option<usize>::max` with the derived order `None < Some _` (io.rs:155-156). -/
def optMax : Option Nat → Option Nat → Option Nat
  | none, b => b
  | a, none => a
  | some a, some b => some (max a b)

def maxIndices (m i : Indices) : Indices :=
  { pos := max m.pos i.pos, uv := optMax m.uv i.uv, n := optMax m.n i.n }

structure St where
  faces : List Face := []
  verts : List P3 := []
  norms : List P3 := []
  texcs : List (UInt32 × UInt32) := []
  maxI : Indices := { pos := 0, uv := none, n := none }   -- io.rs:122
  deriving Repr, DecidableEq, Inhabited

/-- io.rs:135-163, one line. `.ok (.ok st)` continue, `.ok (.error e)` early return `Err(e)`,
`.panic` the `unreachable!` arm. -/
def stepLine (pf : List UInt8 → Option UInt32) (st : St) (line : List UInt8) :
    Outcome (Except Err St) :=
  match splitWs line with
  | [] => .ok (.ok st)                                              -- io.rs:136-138
  | item :: toks =>
    match item.map UInt8.toNat with
    | 35 :: _ => .ok (.ok st)                                       -- b'#'
    | [118] =>                                                      -- b"v"
      match parseVector pf toks with
      | .ok p => .ok (.ok { st with verts := st.verts ++ [p] })
      | .error e => .ok (.error e)
    | [118, 116] =>                                                 -- b"vt"
      match parseTexcoord pf toks with
      | .ok p => .ok (.ok { st with texcs := st.texcs ++ [p] })
      | .error e => .ok (.error e)
    | [118, 110] =>                                                 -- b"vn"
      match parseVector pf toks with
      | .ok p => .ok (.ok { st with norms := st.norms ++ [p] })
      | .error e => .ok (.error e)
    | [102] =>                                                      -- b"f"
      match parseFace toks with
      | .ok (a, b, c) =>
        .ok (.ok { st with
          maxI := maxIndices (maxIndices (maxIndices st.maxI a) b) c
          faces := st.faces ++ [(a, b, c)] })
      | .error e => .ok (.error e)
    | c :: _ => .ok (.error (.unsupportedItem (utf8First c)))       -- io.rs:161
    | [] => .panic "internal error: entered unreachable code: empty slices are filtered out"

/-- The `while` loop (io.rs:126-164) over the lines. -/
def foldLines (pf : List UInt8 → Option UInt32) : St → List (List UInt8) → Outcome (Except Err St)
  | st, [] => .ok (.ok st)
  | st, l :: ls =>
    match stepLine pf st l with
    | .ok (.ok st') => foldLines pf st' ls
    | .ok (.error e) => .ok (.error e)
    | .panic s => .panic s

/-! ### Meshes -/

structure Mesh where
  faces : List (Nat × Nat × Nat)
  verts : List P3
  deriving Repr, DecidableEq, Inhabited

def faceInRange (n : Nat) (f : Nat × Nat × Nat) : Bool :=
  decide (f.1 < n) && decide (f.2.1 < n) && decide (f.2.2 < n)

/-- mesh.rs:74-89 `Mesh::new`: the assertion is a panic, never a repaired mesh. -/
def meshNew (faces : List (Nat × Nat × Nat)) (verts : List P3) : Outcome Mesh :=
  if faces.all (faceInRange verts.length) then .ok { faces := faces, verts := verts }
  else .panic "vertex index out of bounds"

/-- mesh.rs:145-148 `Builder::build`. -/
def build (m : Mesh) : Outcome Mesh := meshNew m.faces m.verts

def facePos (f : Face) : Nat × Nat × Nat := (f.1.pos, f.2.1.pos, f.2.2.pos)

/-- io.rs:166-182: the three deferred checks, then `Mesh::new(..).into_builder()`. -/
def finish (st : St) : Outcome (Except Err Mesh) :=
  if !st.faces.isEmpty && st.maxI.pos ≥ st.verts.length then
    .ok (.error (.indexOutOfBounds .vertex st.maxI.pos))
  else
    match st.maxI.uv.filter (fun i => i ≥ st.texcs.length) with
    | some uv => .ok (.error (.indexOutOfBounds .texcoord uv))
    | none =>
      match st.maxI.n.filter (fun i => i ≥ st.norms.length) with
      | some n => .ok (.error (.indexOutOfBounds .normal n))
      | none =>
        match meshNew (st.faces.map facePos) st.verts with
        | .ok m => .ok (.ok m)
        | .panic s => .panic s

/-- io.rs:116-183 `parse_obj`. The returned `Builder<()>` is identified with its mesh. -/
def parseObj (pf : List UInt8 → Option UInt32) (src : List UInt8) : Outcome (Except Err Mesh) :=
  match foldLines pf {} (splitLines src) with
  | .ok (.ok st) => finish st
  | .ok (.error e) => .ok (.error e)
  | .panic s => .panic s

end Retro.Obj
