/-
`<f32 as FromStr>::from_str` (core::num::dec2flt) as an exact function from the token's
characters to a binary32 bit pattern:

  Float  ::= Sign? ( 'inf' | 'infinity' | 'nan' | Number )        (keywords case-insensitive)
  Number ::= ( Digit+ | Digit+ '.' Digit* | Digit* '.' Digit+ ) Exp?
  Exp    ::= ('e' | 'E') Sign? Digit+
  Sign   ::= [+-]

The value of a Number is the exact rational `digits · 10^(exp − #fraction digits)`, rounded to
nearest, ties to even (`F32.ofRat`, Retro/Basic.lean); dec2flt is documented to be correctly
rounded.  This is the instance of the `pf` parameter of `Retro.Obj` that the driver runs; it is
tied to the real parser by its own differential op (`f32` in harness/src/bin/c14.rs).

Known difference, outside the tested domain: dec2flt saturates the *written* exponent at 65536+
while scanning, which can only matter for tokens with more than 60 000 digits.
-/
import Retro.Basic

namespace Retro.ParseF32

def isDigit (b : UInt8) : Bool := 48 ≤ b.toNat && b.toNat ≤ 57

/-- Longest prefix of digits: (value, number of digits, rest). -/
def takeDigits : Nat → Nat → List UInt8 → Nat × Nat × List UInt8
  | acc, cnt, [] => (acc, cnt, [])
  | acc, cnt, b :: bs =>
    if isDigit b then takeDigits (acc * 10 + (b.toNat - 48)) (cnt + 1) bs else (acc, cnt, b :: bs)

def lower (b : UInt8) : UInt8 := if 65 ≤ b.toNat && b.toNat ≤ 90 then b + 32 else b

/-- Number of decimal digits of a positive number (0 ↦ 0). Fuel = the number itself suffices. -/
def numDigits : Nat → Nat → Nat
  | 0, _ => 0
  | fuel + 1, n => if n == 0 then 0 else 1 + numDigits fuel (n / 10)

def pow10 (n : Nat) : Nat := 10 ^ n

/-- Exact value `d · 10^e` as a binary32 magnitude; far out-of-range exponents are decided without
building the power (10^41 > 2^128, and 10^-50 is below half the least subnormal). -/
def encodeMag (d : Nat) (e : Int) : UInt32 :=
  if d == 0 then 0
  else
    let nd : Int := (numDigits (d.log2 + 1) d : Nat)
    if nd + e > 41 then 0x7F800000
    else if nd + e < -50 then 0
    else
      let q : Rat := if e ≥ 0 then ((d * pow10 e.toNat : Nat) : Rat)
                     else (d : Rat) / ((pow10 (-e).toNat : Nat) : Rat)
      F32.ofRat q

/-- `parse_scientific`: after the 'e'. `none` if no digit follows the optional sign. -/
def parseExp (s : List UInt8) : Option (Int × List UInt8) :=
  let (neg, s) := match s with
    | b :: rest => if b == 45 then (true, rest) else if b == 43 then (false, rest) else (false, s)
    | [] => (false, s)
  let (v, cnt, rest) := takeDigits 0 0 s
  if cnt == 0 then none else some (if neg then -(v : Int) else (v : Int), rest)

/-- The optional `.digits` part: (all digits so far, number of fraction digits, rest). -/
def takeFraction (ip : Nat) (s : List UInt8) : Nat × Nat × List UInt8 :=
  match s with
  | b :: rest => if b == 46 then takeDigits ip 0 rest else (ip, 0, s)
  | [] => (ip, 0, s)

/-- After the digits: at least one digit was seen; then the end, or an exponent up to the end. -/
def parseTail (d ni nf : Nat) (s : List UInt8) : Option (Nat × Int) :=
  if ni + nf == 0 then none
  else
    match s with
    | [] => some (d, -(nf : Int))
    | b :: rest =>
      if b == 101 || b == 69 then
        match parseExp rest with
        | some (e, []) => some (d, e - (nf : Int))
        | _ => none
      else none

/-- `parse_number`: digits, optional fraction, optional exponent, to the end of the token.
Returns (all digits as one number, decimal exponent). -/
def parseNumber (s : List UInt8) : Option (Nat × Int) :=
  match takeDigits 0 0 s with
  | (ip, ni, s1) =>
    match takeFraction ip s1 with
    | (d, nf, s2) => parseTail d ni nf s2

def kwInf : List UInt8 := [105, 110, 102]
def kwInfinity : List UInt8 := [105, 110, 102, 105, 110, 105, 116, 121]
def kwNan : List UInt8 := [110, 97, 110]

/-- `f32::from_str` on the characters of a token (Latin-1 code points; any code point ≥ 0x80 is
just an invalid character). `none` = `Err(ParseFloatError)`. -/
def parseF32 (s : List UInt8) : Option UInt32 :=
  match s with
  | [] => none
  | c :: rest =>
    let neg := c == 45
    let body := if c == 45 || c == 43 then rest else s
    let sign : UInt32 := if neg then 0x80000000 else 0
    match body with
    | [] => none
    | _ :: _ =>
      match parseNumber body with
      | some (d, e) => some (encodeMag d e ||| sign)
      | none =>
        let l := body.map lower
        if l == kwInf || l == kwInfinity then some (0x7F800000 ||| sign)
        else if l == kwNan then some (0x7FC00000 ||| sign)
        else none

end Retro.ParseF32
