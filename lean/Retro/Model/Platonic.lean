/-
Model of the Platonic solids and the box, /repo/geom/src/solids/platonic.rs:91-365:
the coordinate, face and normal tables exactly as written, and the meshes built from them.

Irrational coordinates (√(8/9), components of normalised vectors) are represented exactly as
`(sign, square)`: the real number `sign · √square`, `square : Rat`.  `normalize()` divides by the
length, so the component `d_k / |d|` is `(sign d_k, d_k² / |d|²)`; `recip_sqrt` never appears.
-/
import Retro.Basic

namespace Retro.Platonic

/-- `sign · √sq`. -/
structure Surd where
  sign : Int
  sq : Rat
  deriving Repr, Inhabited, DecidableEq

abbrev S3 := Surd × Surd × Surd
abbrev Tri := Nat × Nat × Nat

def sgn (q : Rat) : Int := if q < 0 then -1 else if q > 0 then 1 else 0
def ofRat (q : Rat) : Surd := { sign := sgn q, sq := q * q }
def neg (s : Surd) : Surd := { s with sign := -s.sign }
def neg3 (v : S3) : S3 := (neg v.1, neg v.2.1, neg v.2.2)
def ofRat3 (v : Rat × Rat × Rat) : S3 := (ofRat v.1, ofRat v.2.1, ofRat v.2.2)

/-- `v.normalize()` (vec.rs:140-148) for a rational vector, exactly. -/
def normalize (v : Rat × Rat × Rat) : S3 :=
  let l2 := v.1 * v.1 + v.2.1 * v.2.1 + v.2.2 * v.2.2
  ({ sign := sgn v.1, sq := v.1 * v.1 / l2 }, { sign := sgn v.2.1, sq := v.2.1 * v.2.1 / l2 },
   { sign := sgn v.2.2, sq := v.2.2 * v.2.2 / l2 })

structure Vert where
  pos : S3
  normal : S3
  deriving Repr, Inhabited

structure Mesh where
  faces : List Tri
  verts : List Vert
  /-- for each vertex, the index into the solid's coordinate table it was copied from -/
  coordIndex : List Nat
  deriving Repr, Inhabited

/-! ### Tetrahedron (platonic.rs:91-116) -/

def tetraFaces : List Tri := [(0, 2, 1), (0, 3, 2), (0, 1, 3), (1, 2, 3)]

def tetraCoords : List S3 :=
  [ (ofRat 0, ofRat 1, ofRat 0),
    (⟨1, 8/9⟩, ofRat (-1/3), ofRat 0),
    (⟨-1, 2/9⟩, ofRat (-1/3), ⟨1, 2/3⟩),
    (⟨-1, 2/9⟩, ofRat (-1/3), ⟨-1, 2/3⟩) ]

/-- `[3, 1, 2, 0].map(|i| -coords[i].to_vec())`. -/
def tetraNorms : List S3 := [3, 1, 2, 0].map fun i => neg3 (tetraCoords.getD i default)

/-- One separate vertex triple per face: face `i` is `(3i, 3i+1, 3i+2)`. -/
def perFaceMesh (faces : List Tri) (coords norms : List S3) : Mesh :=
  { faces := (List.range faces.length).map fun i => (3 * i, 3 * i + 1, 3 * i + 2)
    verts := (faces.zip norms).flatMap fun (f, n) =>
      [f.1, f.2.1, f.2.2].map fun v => { pos := coords.getD v default, normal := n }
    coordIndex := faces.flatMap fun f => [f.1, f.2.1, f.2.2] }

def tetra : Mesh := perFaceMesh tetraFaces tetraCoords tetraNorms

/-! ### Octahedron (platonic.rs:197-250) -/

def octaCoords : List (Rat × Rat × Rat) :=
  [(-1, 0, 0), (0, -1, 0), (0, 0, -1), (0, 1, 0), (0, 0, 1), (1, 0, 0)]
def octaNorms : List (Rat × Rat × Rat) :=
  [(-1, -1, -1), (-1, 1, -1), (-1, 1, 1), (-1, -1, 1), (1, -1, -1), (1, 1, -1), (1, 1, 1), (1, -1, 1)]
/-- First components of `VERTS` (the coordinate index of each of the 24 vertices). -/
def octaVerts : List Nat :=
  [0, 2, 1,  0, 3, 2,  0, 4, 3,  0, 1, 4,  1, 2, 5,  2, 3, 5,  3, 4, 5,  1, 5, 4]
/-- `FACES[i] = [3i, 3i+1, 3i+2]` into `VERTS`; as coordinate indices: -/
def octaFaces : List Tri :=
  (List.range 8).map fun i =>
    (octaVerts.getD (3 * i) 0, octaVerts.getD (3 * i + 1) 0, octaVerts.getD (3 * i + 2) 0)

def octa : Mesh :=
  perFaceMesh octaFaces (octaCoords.map ofRat3) (octaNorms.map normalize)

/-! ### Dodecahedron and icosahedron (platonic.rs:252-365) -/

/-- `const PHI: f32 = 1.618034_f32` and `R_PHI = 1.0 / PHI` evaluated in binary32. -/
def phi : Rat := F32.toRatD (F32.ofRat (1618034 / 1000000))
def rphi : Rat := F32.toRatD (F32.ofRat (1 / phi))

def dodecaCoords : List (Rat × Rat × Rat) :=
  [ (-phi, -rphi, 0), (-phi, rphi, 0), (phi, -rphi, 0), (phi, rphi, 0),
    (0, -phi, -rphi), (0, -phi, rphi), (0, phi, -rphi), (0, phi, rphi),
    (-rphi, 0, -phi), (rphi, 0, -phi), (-rphi, 0, phi), (rphi, 0, phi),
    (-1, -1, -1), (-1, -1, 1), (-1, 1, -1), (-1, 1, 1),
    (1, -1, -1), (1, -1, 1), (1, 1, -1), (1, 1, 1) ]

def dodecaPentagons : List (List Nat) :=
  [ [0, 1, 14, 8, 12], [1, 0, 13, 10, 15], [3, 2, 16, 9, 18], [2, 3, 19, 11, 17],
    [4, 5, 13, 0, 12], [5, 4, 16, 2, 17], [7, 6, 14, 1, 15], [6, 7, 19, 3, 18],
    [8, 9, 16, 4, 12], [9, 8, 14, 6, 18], [11, 10, 13, 5, 17], [10, 11, 19, 7, 15] ]

def icosaCoords : List (Rat × Rat × Rat) :=
  [ (-phi, 0, -1), (-phi, 0, 1), (phi, 0, -1), (phi, 0, 1),
    (-1, -phi, 0), (1, -phi, 0), (-1, phi, 0), (1, phi, 0),
    (0, -1, -phi), (0, 1, -phi), (0, -1, phi), (0, 1, phi) ]

def icosaFaces : List Tri :=
  [ (0, 4, 1), (0, 1, 6), (2, 3, 5), (2, 7, 3), (4, 8, 5), (4, 5, 10), (6, 7, 9), (6, 11, 7),
    (8, 0, 9), (8, 9, 2), (10, 11, 1), (10, 3, 11),
    (0, 8, 4), (1, 4, 10), (0, 6, 9), (1, 11, 6), (2, 5, 8), (3, 10, 5), (2, 9, 7), (3, 7, 11) ]

/-- Triangles of the dodecahedron over coordinate indices: each pentagon `[a,b,c,d,e]` is the fan
`(a,b,c), (a,c,d), (a,d,e)` (platonic.rs:310-313). -/
def dodecaFaces : List Tri :=
  dodecaPentagons.flatMap fun f =>
    let g := fun k => f.getD k 0
    [(g 0, g 1, g 2), (g 0, g 2, g 3), (g 0, g 3, g 4)]

/-- platonic.rs:304-319: five vertices per pentagon, normal `NORMALS[i] = Icosahedron::COORDS[i]`. -/
def dodeca : Mesh :=
  { faces := (List.range 12).flatMap fun i =>
      [(5 * i, 5 * i + 1, 5 * i + 2), (5 * i, 5 * i + 2, 5 * i + 3), (5 * i, 5 * i + 3, 5 * i + 4)]
    verts := (dodecaPentagons.zip icosaCoords).flatMap fun (f, n) =>
      f.map fun j => { pos := normalize (dodecaCoords.getD j default), normal := normalize n }
    coordIndex := dodecaPentagons.flatMap id }

/-- platonic.rs:354-364, normal `NORMALS[i] = Dodecahedron::COORDS[i]`. -/
def icosa : Mesh :=
  perFaceMesh icosaFaces (icosaCoords.map normalize) (dodecaCoords.map normalize)

/-! ### Box (platonic.rs:118-195) -/

def boxCoords : List (Rat × Rat × Rat) :=
  [(0,0,0), (0,0,1), (0,1,0), (0,1,1), (1,0,0), (1,0,1), (1,1,0), (1,1,1)]
def boxNorms : List (Rat × Rat × Rat) :=
  [(-1,0,0), (1,0,0), (0,-1,0), (0,1,0), (0,0,-1), (0,0,1)]
/-- `VERTS`: (position index, normal index). -/
def boxVerts : List (Nat × Nat) :=
  [ (3,0), (2,0), (1,0), (0,0),   (6,1), (7,1), (4,1), (5,1),
    (0,2), (4,2), (1,2), (5,2),   (3,3), (7,3), (2,3), (6,3),
    (2,4), (6,4), (0,4), (4,4),   (7,5), (3,5), (5,5), (1,5) ]
def boxFaces : List Tri :=
  [ (0,1,3), (0,3,2), (4,5,7), (4,7,6), (8,9,11), (8,11,10),
    (12,13,15), (12,15,14), (16,17,19), (16,19,18), (20,21,23), (20,23,22) ]

/-- `l.lerp(r, t) = l + (r − l)·t` per component (math.rs:96). -/
def box (l r : Rat × Rat × Rat) : Mesh :=
  { faces := boxFaces
    verts := boxVerts.map fun (pi, ni) =>
      let t := boxCoords.getD pi default
      { pos := ofRat3 (l.1 + (r.1 - l.1) * t.1, l.2.1 + (r.2.1 - l.2.1) * t.2.1,
                       l.2.2 + (r.2.2 - l.2.2) * t.2.2)
        normal := ofRat3 (boxNorms.getD ni default) }
    coordIndex := boxVerts.map (·.1) }

/-- Faces of the box over the 8 corner indices (for the closedness theorem). -/
def boxCornerFaces : List Tri :=
  boxFaces.map fun (a, b, c) =>
    ((boxVerts.getD a default).1, (boxVerts.getD b default).1, (boxVerts.getD c default).1)

/-! ### Exact orientation facts about the tables (unnormalised: scaling by a positive length does not change a sign) -/

abbrev R3 := Rat × Rat × Rat
def rsub (a b : R3) : R3 := (a.1 - b.1, a.2.1 - b.2.1, a.2.2 - b.2.2)
def rdot (a b : R3) : Rat := a.1 * b.1 + a.2.1 * b.2.1 + a.2.2 * b.2.2
def rcross (a b : R3) : R3 :=
  (a.2.1 * b.2.2 - a.2.2 * b.2.1, a.2.2 * b.1 - a.1 * b.2.2, a.1 * b.2.1 - a.2.1 * b.1)

/-- For every triangle `(a,b,c)` with normal table entry `n`: the geometric normal `(b−a)×(c−a)`
and `n` are on the same side, `n` points away from the origin (the solid's centre), and `n` is
parallel to the geometric normal (their cross product vanishes) when `exactParallel`. -/
def normalsOutward (coords : List R3) (tris : List Tri) (normOf : Nat → R3) (exactParallel : Bool) : Bool :=
  (List.range tris.length).all fun k =>
    let t := tris.getD k default
    let a := coords.getD t.1 default
    let b := coords.getD t.2.1 default
    let c := coords.getD t.2.2 default
    let g := rcross (rsub b a) (rsub c a)
    let n := normOf k
    decide (rdot n g > 0) && decide (rdot n a > 0) && decide (rdot g a > 0) &&
      (!exactParallel || rcross n g == (0, 0, 0))

/-! ### Tetrahedron in exact arithmetic

Its coordinates are irrational, but each axis carries a single radical: `x = qx·√2`, `y = qy`,
`z = qz·√6` with rational `q`.  Hence dot products are rational (`2·qx·qx' + qy·qy' + 6·qz·qz'`) and
every determinant `n·(u×v)` is `√12` times the determinant of the `q` vectors, so signs can be
decided exactly. -/

/-- `(qx, qy, qz)` of the four vertices. -/
def tetraQ : List R3 := [(0, 1, 0), (2/3, -1/3, 0), (-1/3, -1/3, 1/3), (-1/3, -1/3, -1/3)]

/-- the real number `q·√w` as a `Surd` -/
def surdOf (w q : Rat) : Surd := { sign := sgn q, sq := q * q * w }

/-- `tetraQ` with the axis radicals √2, 1, √6 is exactly the coordinate table `tetraCoords`. -/
def tetraQRepresents : Bool :=
  tetraCoords == tetraQ.map fun q => (surdOf 2 q.1, surdOf 1 q.2.1, surdOf 6 q.2.2)

/-- true dot product of two vectors given by their `q` -/
def wdot (a b : R3) : Rat := 2 * a.1 * b.1 + a.2.1 * b.2.1 + 6 * a.2.2 * b.2.2

/-- For every face `(a,b,c)` of `tetraFaces` with the table normal `n = −coords[opposite]`
(`[3,1,2,0]`, platonic.rs:104): `n·((b−a)×(c−a)) > 0` (sign of the `q` determinant), `n·a > 0` and
`((b−a)×(c−a))·a > 0` (outward), and `n` is parallel to the geometric normal
(`q`-cross `(Gx, Gy, Gz)` corresponds to the real vector `(√6·Gx, √12·Gy, √2·Gz)`, parallel to
`(√2·nx, ny, √6·nz)` iff `(Gx/2, Gy, Gz/6) ∥ (nx, ny, nz)`). -/
def tetraNormalsOutward : Bool :=
  (List.range 4).all fun k =>
    let t := tetraFaces.getD k default
    let a := tetraQ.getD t.1 default
    let b := tetraQ.getD t.2.1 default
    let c := tetraQ.getD t.2.2 default
    let o := tetraQ.getD (([3, 1, 2, 0] : List Nat).getD k 0) default
    let n : R3 := (-o.1, -o.2.1, -o.2.2)
    let g := rcross (rsub b a) (rsub c a)
    decide (rdot n g > 0) && decide (wdot n a > 0) && decide (rdot g a > 0) &&
      rcross n (g.1 / 2, g.2.1, g.2.2 / 6) == (0, 0, 0)

/-- Every index used by the tables above is inside its table, i.e. no `getD` default is ever
taken (the Rust code would panic on an out-of-range constant index). -/
def tablesInRange : Bool :=
  tetraFaces.all (fun f => f.1 < 4 && f.2.1 < 4 && f.2.2 < 4) && tetraCoords.length == 4 &&
  octaVerts.all (· < 6) && octaVerts.length == 24 && octaCoords.length == 6 && octaNorms.length == 8 &&
  dodecaPentagons.all (fun f => f.length == 5 && f.all (· < 20)) && dodecaPentagons.length == 12 &&
  dodecaCoords.length == 20 && icosaCoords.length == 12 &&
  icosaFaces.all (fun f => f.1 < 12 && f.2.1 < 12 && f.2.2 < 12) && icosaFaces.length == 20 &&
  boxVerts.all (fun v => v.1 < 8 && v.2 < 6) && boxVerts.length == 24 &&
  boxFaces.all (fun f => f.1 < 24 && f.2.1 < 24 && f.2.2 < 24) && boxCoords.length == 8 && boxNorms.length == 6

end Retro.Platonic
