/-
Model of `core/src/util/pnm.rs`: `parse_num`, `Header::parse`, `parse_pnm` (P2–P6), `Header::write`
and `write_ppm`, over byte lists.  Builds on `Retro.Model.Buf` for `Buf2::new_from` and for the
`rows()` of the (possibly strided) view handed to `write_ppm`.

Import-free apart from `Retro.Basic` / `Retro.Model.Buf`, so the driver links without Mathlib.
No string literals: all constants are byte lists.
-/
import Retro.Basic
import Retro.Model.Buf

namespace Retro.Pnm
open Retro

/-- pnm.rs:91-101 `Error` (without `Io`, which only `read_pnm`/`load_pnm` on real files produce). -/
inductive Err where
  | unsupported (a b : UInt8)
  | unexpectedEnd
  | invalidNumber
  deriving Repr, DecidableEq, Inhabited

/-- An RGB pixel (`Color3 = Color<[u8; 3], Rgb>`). -/
abbrev Pixel := UInt8 × UInt8 × UInt8

/-! ### `parse_num` (pnm.rs:308-334) -/

/-- `u8::is_ascii_whitespace`: space, `\t`, `\n`, form feed, `\r` (not vertical tab). -/
def isWs (b : UInt8) : Bool := b == 32 || b == 9 || b == 10 || b == 12 || b == 13

/-- pnm.rs:313-326 one call of the closure `whitespace_or_comment` in state `inComment`:
`(return value, new state)`. `#` = 35, `\n` = 10. -/
def wsOrComment (inComment : Bool) (b : UInt8) : Bool × Bool :=
  if b == 35 then (true, true)
  else if b == 10 then (true, false)
  else (inComment || isWs b, inComment)

/-- pnm.rs:329 `.skip_while(whitespace_or_comment)` — the closure is `Copy`, so `skip_while` owns a
*copy* with its own `in_comment` state. Returns the input from the first byte that is kept. -/
def skipWs : Bool → List UInt8 → List UInt8
  | _, [] => []
  | st, b :: rest =>
    if (wsOrComment st b).1 then skipWs (wsOrComment st b).2 rest else b :: rest

/-- pnm.rs:330 `.take_while(|b| !whitespace_or_comment(b))` — the *original* closure, fresh state.
`take_while` consumes the first rejected byte. Returns `(token, remaining input)`. -/
def takeToken : Bool → List UInt8 → List UInt8 × List UInt8
  | _, [] => ([], [])
  | st, b :: rest =>
    if (wsOrComment st b).1 then ([], rest)
    else ((b :: (takeToken (wsOrComment st b).2 rest).1), (takeToken (wsOrComment st b).2 rest).2)

def isDigit (b : UInt8) : Bool := 48 ≤ b && b ≤ 57

/-- Value of a digit string (any length, leading zeros allowed); `none` if a byte is not `0`–`9`. -/
def digitsValue : List UInt8 → Nat → Option Nat
  | [], acc => some acc
  | b :: rest, acc => if isDigit b then digitsValue rest (acc * 10 + (b.toNat - 48)) else none

/-- `str::parse::<uN>()` (core::num `from_str_radix`, radix 10, unsigned) followed by
pnm.rs:122-130 `From<ParseIntError>`: empty → `UnexpectedEnd`; otherwise an optional leading `+`,
then one or more digits, value at most `maxVal`; anything else (`+`/`-` alone, `-5`, a non-digit —
including every non-ASCII char `char::from(u8)` produces — or overflow) → `InvalidNumber`. -/
def parseUnsigned (maxVal : Nat) (tok : List UInt8) : Except Err Nat :=
  match tok with
  | [] => .error .unexpectedEnd
  | b :: rest =>
    let digits := if b == 43 then rest else b :: rest
    if digits.isEmpty then .error .invalidNumber
    else
      match digitsValue digits 0 with
      | none => .error .invalidNumber
      | some v => if v ≤ maxVal then .ok v else .error .invalidNumber

/-- pnm.rs:308-334 `parse_num::<T>(&mut it)`: the parsed value and what is left in `it`. -/
def parseNum (maxVal : Nat) (input : List UInt8) : Except Err Nat × List UInt8 :=
  let tr := takeToken false (skipWs false input)
  (parseUnsigned maxVal tr.1, tr.2)

def u32Max : Nat := 4294967295
def u16Max : Nat := 65535
def u8Max : Nat := 255

/-! ### Header (pnm.rs:139-168) -/

inductive Format where
  | p2 | p3 | p4 | p5 | p6
  deriving Repr, DecidableEq, Inhabited

/-- pnm.rs:75-87 `TryFrom<[u8; 2]> for Format`. `P` = 80, `2`..`6` = 50..54. -/
def formatOf (a b : UInt8) : Except Err Format :=
  if a == 80 && b == 50 then .ok .p2
  else if a == 80 && b == 51 then .ok .p3
  else if a == 80 && b == 52 then .ok .p4
  else if a == 80 && b == 53 then .ok .p5
  else if a == 80 && b == 54 then .ok .p6
  else .error (.unsupported a b)

structure Header where
  format : Format
  w : Nat
  h : Nat
  max : Nat
  deriving Repr, DecidableEq, Inhabited

/-- pnm.rs:143-156 `Header::parse`: two magic bytes, width, height, and (except for bitmaps) maxval. -/
def parseHeader (input : List UInt8) : Except Err Header × List UInt8 :=
  match input with
  | [] => (.error .unexpectedEnd, [])
  | [_] => (.error .unexpectedEnd, [])
  | a :: b :: rest =>
    match formatOf a b with
    | .error e => (.error e, rest)
    | .ok fmt =>
      match parseNum u32Max rest with
      | (.error e, r) => (.error e, r)
      | (.ok w, r1) =>
        match parseNum u32Max r1 with
        | (.error e, r) => (.error e, r)
        | (.ok h, r2) =>
          match fmt with
          | .p4 => (.ok { format := fmt, w := w, h := h, max := 1 }, r2)
          | _ =>
            match parseNum u16Max r2 with
            | (.error e, r) => (.error e, r)
            | (.ok m, r3) => (.ok { format := fmt, w := w, h := h, max := m }, r3)

/-! ### Pixel data (pnm.rs:211-254) -/

def gray (c : UInt8) : Pixel := (c, c, c)

/-- pnm.rs:212-221 `BinaryPixmap`: bytes grouped in threes; an incomplete last group yields nothing. -/
def triples : List UInt8 → List Pixel
  | r :: g :: b :: rest => (r, g, b) :: triples rest
  | _ => []

/-- pnm.rs:225-232 `BinaryBitmap`: bits most significant first, 0 is white (0xFF), 1 is black. -/
def bitsOf (byte : UInt8) : List Pixel :=
  [7, 6, 5, 4, 3, 2, 1, 0].map fun (i : UInt8) => gray ((1 - ((byte >>> i) &&& 1)) * 255)

/-- pnm.rs:233-246 `TextPixmap`: `count` times three `parse_num::<u8>`; the first error wins. -/
def textPixmap : Nat → List UInt8 → Except Err (List Pixel)
  | 0, _ => .ok []
  | n + 1, inp =>
    match parseNum u8Max inp with
    | (.error e, _) => .error e
    | (.ok r, i1) =>
      match parseNum u8Max i1 with
      | (.error e, _) => .error e
      | (.ok g, i2) =>
        match parseNum u8Max i2 with
        | (.error e, _) => .error e
        | (.ok b, i3) =>
          match textPixmap n i3 with
          | .error e => .error e
          | .ok rest => .ok ((UInt8.ofNat r, UInt8.ofNat g, UInt8.ofNat b) :: rest)

/-- pnm.rs:247-252 `TextGraymap`: `count` times one `parse_num::<u8>`. -/
def textGraymap : Nat → List UInt8 → Except Err (List Pixel)
  | 0, _ => .ok []
  | n + 1, inp =>
    match parseNum u8Max inp with
    | (.error e, _) => .error e
    | (.ok v, i1) =>
      match textGraymap n i1 with
      | .error e => .error e
      | .ok rest => .ok (gray (UInt8.ofNat v) :: rest)

def pixelData (fmt : Format) (count : Nat) (rest : List UInt8) : Except Err (List Pixel) :=
  match fmt with
  | .p6 => .ok ((triples rest).take count)
  | .p5 => .ok (rest.map gray)
  | .p4 => .ok (rest.flatMap bitsOf)
  | .p3 => textPixmap count rest
  | .p2 => textGraymap count rest

/-- pnm.rs:202-261 `parse_pnm`. The only place that could panic is `Buf2::new_from`. -/
def parsePnm (input : List UInt8) : Outcome (Except Err (Buf.View × List Pixel)) :=
  match parseHeader input with
  | (.error e, _) => .ok (.error e)
  | (.ok hd, rest) =>
    -- pnm.rs:206-210 `checked_mul(...).ok_or(InvalidNumber)?`
    if hd.w * hd.h > u32Max then .ok (.error .invalidNumber)
    else
      match pixelData hd.format (hd.w * hd.h) rest with
      | .error e => .ok (.error e)
      | .ok data =>
        if data.length < hd.w * hd.h then .ok (.error .unexpectedEnd)
        else
          match Buf.buf2NewFrom hd.w hd.h data with
          | .panic m => .panic m
          | .ok r => .ok (.ok r)

/-! ### Writing (pnm.rs:160-167, 286-305) -/

/-- `Display for u32`: decimal, no leading zeros, `0` for zero. -/
def decimal (n : Nat) : List UInt8 :=
  if n < 10 then [UInt8.ofNat (48 + n)]
  else decimal (n / 10) ++ [UInt8.ofNat (48 + n % 10)]

/-- pnm.rs:166 `writeln!(dest, "{format} {w} {h} {max}")` for `BinaryPixmap`, max 255: `P6 w h 255\n`. -/
def ppmHeader (w h : Nat) : List UInt8 :=
  [80, 54, 32] ++ decimal w ++ [32] ++ decimal h ++ [32, 50, 53, 53, 10]

def pixelBytes (p : Pixel) : List UInt8 := [p.1, p.2.1, p.2.2]

/-- pnm.rs:286-305 `write_ppm(out, data)`: `data.as_slice2()`, header, then `rows().flatten()` as
three bytes per pixel. -/
def writePpm (root : List Pixel) (v : Buf.View) : Outcome (List UInt8) :=
  match Buf.asSlice v with
  | .panic m => .panic m
  | .ok s =>
    match Buf.rows root s with
    | .panic m => .panic m
    | .ok rows => .ok (ppmHeader s.w s.h ++ rows.flatten.flatMap pixelBytes)

end Retro.Pnm
