/-
The `Poison` interpretation of the generic scalar model (DESIGN.md sections 1, 2.2, 2.4).

`Poison α` is a scalar that is either a value of `α` or `bad` — "a division by zero happened
upstream". It carries every operator class the render-pipeline model is generic over
(`Model/{Scalar,Clip,Raster,Render}.lean`), so the SAME definitions run at `Poison Rat` in the driver
and unfold at `Poison K` (K any ordered field with floor) in the proof files.

Semantics (IEEE-like, for the ONE source of non-finite values exact arithmetic can exhibit):
  * `+ − × neg floor`: `bad` if an operand is `bad`, otherwise the value operation;
  * `a / b`: `bad` if an operand is `bad` OR the value of `b` is `0`. In IEEE arithmetic `0/0 = NaN`
    and `x/0 = ±∞` (x ≠ 0); both are "not a finite number" and both are `bad` here. No distinction is
    kept, because every later operation on either propagates non-finiteness or (`∞ − ∞`, `0 × ∞`) makes
    a NaN, and the property only asks for "neither NaN nor infinite";
  * `a < b`: `False` when an operand is `bad` (every ordered comparison with a NaN is false);
  * the literals `0`, `1`, `2` are values;
  * `toNatSat bad = 0` (`NaN as u32` is `0` in Rust). `+∞ as u32` would saturate to `u32::MAX`
    instead; that case never arises for the casts of the model on lifted input — it is excluded by
    theorem (`Retro.Props.C05.scan_poison_free`: the arguments of all casts are values).

What it does NOT model: overflow of finite `f32` operands to `±∞` without a zero divisor, signed zeros
(`1/−0 = −∞` vs `1/+0 = +∞` is moot, both `bad`), NaN or infinite INPUT, rounding. See design/Poison.md.
-/
import Retro.Basic
import Retro.Model.Raster

namespace Retro

/-- A scalar of `α`, or `bad`: the result of a computation that divided by zero somewhere upstream
(IEEE: NaN or ±∞). -/
inductive Poison (α : Type) where
  | val (a : α)
  | bad
  deriving Repr, DecidableEq, Inhabited

namespace Poison
variable {α : Type}

/-- Embedding of the finite values. -/
@[inline] def lift (a : α) : Poison α := val a

def isBad : Poison α → Bool
  | val _ => false
  | bad => true

/-- The value, if any (`none` for `bad`). -/
def toOption : Poison α → Option α
  | val a => some a
  | bad => none

instance [Add α] : Add (Poison α) where
  add
    | val a, val b => val (a + b)
    | _, _ => bad

instance [Sub α] : Sub (Poison α) where
  sub
    | val a, val b => val (a - b)
    | _, _ => bad

instance [Mul α] : Mul (Poison α) where
  mul
    | val a, val b => val (a * b)
    | _, _ => bad

instance [Neg α] : Neg (Poison α) where
  neg
    | val a => val (-a)
    | bad => bad

/-- Division: a zero divisor poisons (`0/0 = NaN`, `x/0 = ±∞`: both `bad`). -/
instance [Div α] [OfNat α 0] [DecidableEq α] : Div (Poison α) where
  div
    | val a, val b => if b = 0 then bad else val (a / b)
    | _, _ => bad

/-- Comparisons with a poisoned operand are false (NaN compares false with everything). -/
instance [LT α] : LT (Poison α) where
  lt
    | val a, val b => a < b
    | _, _ => False

instance [LT α] [DecidableLT α] : DecidableLT (Poison α) := fun a b =>
  match a, b with
  | val a, val b => inferInstanceAs (Decidable (a < b))
  | val _, bad => isFalse (fun h => h)
  | bad, _ => isFalse (fun h => h)

instance {n : Nat} [OfNat α n] : OfNat (Poison α) n := ⟨val (OfNat.ofNat n)⟩

instance [HasFloor α] : HasFloor (Poison α) where
  floor
    | val a => val (HasFloor.floor a)
    | bad => bad

/-- `NaN as u32 = 0`. (`+∞ as u32` would saturate high; excluded by theorem, see the file header.) -/
instance [HasToNat α] : HasToNat (Poison α) where
  toNatSat
    | val a => HasToNat.toNatSat a
    | bad => 0

/-! ### Computation rules on values (all by `rfl`) -/

@[simp] theorem val_add [Add α] (a b : α) : (val a + val b : Poison α) = val (a + b) := rfl
@[simp] theorem val_sub [Sub α] (a b : α) : (val a - val b : Poison α) = val (a - b) := rfl
@[simp] theorem val_mul [Mul α] (a b : α) : (val a * val b : Poison α) = val (a * b) := rfl
@[simp] theorem val_neg [Neg α] (a : α) : (-(val a) : Poison α) = val (-a) := rfl
theorem val_div [Div α] [OfNat α 0] [DecidableEq α] (a b : α) :
    (val a / val b : Poison α) = if b = 0 then bad else val (a / b) := rfl
@[simp] theorem val_lt [LT α] (a b : α) : ((val a : Poison α) < val b) = (a < b) := rfl
@[simp] theorem ofNat_eq {n : Nat} [OfNat α n] : (OfNat.ofNat n : Poison α) = val (OfNat.ofNat n) := rfl
@[simp] theorem floor_val [HasFloor α] (a : α) : HasFloor.floor (val a : Poison α) = val (HasFloor.floor a) := rfl
@[simp] theorem toNatSat_val [HasToNat α] (a : α) : HasToNat.toNatSat (val a : Poison α) = HasToNat.toNatSat a := rfl

@[simp] theorem bad_mul [Mul α] (b : Poison α) : (bad * b : Poison α) = bad := rfl
@[simp] theorem not_bad_lt [LT α] (b : Poison α) : ¬ ((bad : Poison α) < b) := fun h => h
@[simp] theorem not_lt_bad [LT α] (a : Poison α) : ¬ (a < (bad : Poison α)) := by
  cases a <;> exact fun h => h

/-! ### Lifting of tuples and scanlines -/

/-- Componentwise embedding of a varying tuple. -/
def liftL (v : List α) : List (Poison α) := v.map val

/-- A tuple is poisoned if some component is `bad`. -/
def anyBad (v : List (Poison α)) : Bool := v.any isBad

@[simp] theorem liftL_nil : liftL ([] : List α) = [] := rfl
@[simp] theorem liftL_cons (a : α) (v : List α) : liftL (a :: v) = val a :: liftL v := rfl

end Poison

namespace Raster

/-- A scanline with every fragment component embedded (`y`, `x0`, `x1` are already naturals). -/
def Scanline.lift {α : Type} (s : Scanline α) : Scanline (Poison α) :=
  { y := s.y, x0 := s.x0, x1 := s.x1, frags := s.frags.map Poison.liftL }

/-- Some component of some raw fragment of the row is `bad`. -/
def Scanline.anyBad {α : Type} (s : Scanline (Poison α)) : Bool := s.frags.any Poison.anyBad

end Raster
end Retro
