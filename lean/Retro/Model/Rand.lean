/-
Model of core/src/math/rand.rs: Xorshift64 and the distributions built on it.
Import-free; the state is a `BitVec 64` (Rust: `pub struct Xorshift64(pub u64)`).
-/
import Retro.Basic

namespace Retro.Rand

/-- rand.rs:173-179 `next_bits`: x ^= x << 13; x ^= x >> 7; x ^= x << 17. The result is
both the new state and the returned bits. -/
def step (x : BitVec 64) : BitVec 64 :=
  let a := x ^^^ (x <<< 13)
  let b := a ^^^ (a >>> 7)
  b ^^^ (b <<< 17)

/-- `bits as i32`: the low 32 bits, two's complement. -/
def lowI32 (s : BitVec 64) : Int := (s.setWidth 32).toInt

def i32Min : Int := -2147483648
def i32Max : Int := 2147483647
def inI32 (v : Int) : Bool := i32Min ≤ v && v ≤ i32Max

/-- rand.rs:237-241 `Uniform<i32>::sample`, debug-profile semantics. Returns sample and new state. -/
def uniformI32 (s : BitVec 64) (start stop : Int) : Outcome (Int × BitVec 64) :=
  let s' := step s
  let bits := lowI32 s'
  let w := stop - start
  if !inI32 w then .panic "attempt to subtract with overflow"
  else if w == 0 then .panic "attempt to calculate the remainder with a divisor of zero"
  else if w == -1 && bits == i32Min then .panic "attempt to calculate the remainder with overflow"
  else
    let r := bits.emod w + start
    if !inI32 r then .panic "attempt to add with overflow" else .ok (r, s')

/-- The 23 mantissa bits a float sample consumes: `next_bits() >> 41`. -/
def mant (s' : BitVec 64) : Nat := (s' >>> 41).toNat

/-- rand.rs:266-267, generic in the scalar: `unit * (end - start) + start`. -/
def affine {α : Type} [Add α] [Sub α] [Mul α] (unit start stop : α) : α :=
  unit * (stop - start) + start

/-- `f32::from_bits(127 << 23 | m) - 1.0` as an exact rational: m / 2^23. That the float expression equals this
rational is not a theorem here; it is established by the exhaustive digest correspondence over all 2^23
mantissas (`fdig` cases of the C19 check, thorough tier; a stratified 2^20 per range in the quick tier). -/
def unitRat (m : Nat) : Rat := (m : Rat) / 8388608

/-- Exact-arithmetic float sample. -/
def uniformRat (s : BitVec 64) (start stop : Rat) : Rat × BitVec 64 :=
  let s' := step s
  (affine (unitRat (mant s')) start stop, s')

/-- Bit-faithful float sample (native IEEE binary32). -/
def uniformF32 (m : Nat) (start stop : Float32) : Float32 :=
  let unit := Float32.ofBits (0x3F800000 ||| UInt32.ofNat m) - 1.0
  affine unit start stop

/-- rand.rs:465-467 `Bernoulli::sample`: `Uniform(0.0..1.0).sample(rng) < p`; with start 0 and
end 1 the float computation is exact, so the comparison is decided in ℚ. -/
def bernoulli (s : BitVec 64) (p : Rat) : Bool × BitVec 64 :=
  let (u, s') := uniformRat s 0 1
  (decide (u < p), s')

/-- Sequential sampling of a list of integer ranges (arrays, vectors, points, tuples all
reduce to this: `array::from_fn(|i| Uniform(start[i]..end[i]).sample(rng))`). -/
def uniformI32List : BitVec 64 → List (Int × Int) → Outcome (List Int × BitVec 64)
  | s, [] => .ok ([], s)
  | s, (a, b) :: rest =>
    match uniformI32 s a b with
    | .panic m => .panic m
    | .ok (v, s1) =>
      match uniformI32List s1 rest with
      | .panic m => .panic m
      | .ok (vs, s2) => .ok (v :: vs, s2)

def uniformRatList : BitVec 64 → List (Rat × Rat) → List Rat × BitVec 64
  | s, [] => ([], s)
  | s, (a, b) :: rest =>
    let (v, s1) := uniformRat s a b
    let (vs, s2) := uniformRatList s1 rest
    (v :: vs, s2)

def lenSqr (v : List Rat) : Rat := v.foldl (fun acc x => acc + x * x) 0

/-- rand.rs:367-376 / 413-422: rejection sampling from the cube [-1,1)^dim, with fuel.
`none` = fuel exhausted. The raw components are exactly representable in f32
(m/2^22 - 1), only the comparison `len_sqr <= 1.0` is rounded in the implementation. -/
def rejectBall (dim : Nat) : Nat → BitVec 64 → Option (List Rat × BitVec 64)
  | 0, _ => none
  | fuel + 1, s =>
    let (v, s1) := uniformRatList s (List.replicate dim (-1, 1))
    if lenSqr v ≤ 1 then some (v, s1) else rejectBall dim fuel s1

/-- Smallest |len² − 1| met on the way (decision margin of the rejection loop). -/
def rejectMargin (dim : Nat) : Nat → BitVec 64 → Rat
  | 0, _ => 1
  | fuel + 1, s =>
    let (v, s1) := uniformRatList s (List.replicate dim (-1, 1))
    let m := ratAbs (lenSqr v - 1)
    if lenSqr v ≤ 1 then m else ratMin m (rejectMargin dim fuel s1)

/-- rand.rs `UnitCircle::sample` (as repaired in /repo 66dde8c): draw from the square [-1,1)² until the
vector is non-zero, with fuel (`none` = fuel exhausted); normalisation happens afterwards. -/
def circleRaw : Nat → BitVec 64 → Option (List Rat × BitVec 64)
  | 0, _ => none
  | fuel + 1, s =>
    let (v, s1) := uniformRatList s (List.replicate 2 (-1, 1))
    if lenSqr v = 0 then circleRaw fuel s1 else some (v, s1)

end Retro.Rand
