/-
Model of core/src/render/raster.rs: tri_fill, scan, ScanlineIter::next, Scanline::fragments,
and of the `Vary` stepping they use (core/src/math/vary.rs, space.rs:157-177).

A varying tuple `(ScreenPt, V)` is a flat list of scalar components `[x, y, z, a₁ … a_k]`
(`lerp`, `dv_dt`, `step` all act componentwise on the tuple, so this loses nothing).
Generic over the scalar; `floor` and the saturating `as usize`/`as u32` casts come from classes.
-/
import Retro.Model.Scalar

namespace Retro

/-- `x as usize` / `x as u32` for a non-NaN scalar: truncate toward zero, negative ↦ 0. -/
class HasToNat (α : Type) where
  toNatSat : α → Nat

instance : HasToNat Rat where
  toNatSat q := q.floor.toNat

namespace Raster

section
variable {α : Type} [Add α] [Sub α] [Mul α] [Div α] [LT α] [DecidableLT α]
  [OfNat α 0] [OfNat α 1] [OfNat α 2] [HasFloor α] [HasToNat α]

def nth0 : List α → α
  | x :: _ => x
  | _ => 0
def nth1 : List α → α
  | _ :: y :: _ => y
  | _ => 0
def nth2 : List α → α
  | _ :: _ :: z :: _ => z
  | _ => 0

/-- raster.rs:228-233 (fp builds): `floor(x + 0.5) + 0.5`, the next pixel centre at or after x
(strictly after when x is itself a centre). -/
def roundUpHalf (x : α) : α := HasFloor.floor (x + 1 / 2) + 1 / 2

/-- One horizontal span. `frags` are the raw varying tuples yielded by `vs` (before `z_div`). -/
structure Scanline (α : Type) where
  y : Nat
  x0 : Nat
  x1 : Nat
  frags : List (List α)
  deriving Repr, DecidableEq

/-- vary.rs:116-126 `Iter::next` taken `n` times: v, v+d, v+2d, … -/
def varyN (d : List α) : Nat → List α → List (List α)
  | 0, _ => []
  | n + 1, v => v :: varyN d n (stepL v d)

/-- raster.rs:68-104 `ScanlineIter::next`, iterated `n` times from state (y, left, right). -/
def scanRows (dl : List α) (drx : α) (dvdx : List α) : Nat → α → List α → α → List (Scanline α)
  | 0, _, _, _ => []
  | n + 1, y, left, right =>
    let x0 := roundUpHalf (nth0 left)
    let x1 := roundUpHalf right
    -- "Adjust v0 to match the rounded x0"
    let v0 := lerpL left (stepL left dvdx) (x0 - nth0 left)
    let row : Scanline α :=
      { y := HasToNat.toNatSat y, x0 := HasToNat.toNatSat x0, x1 := HasToNat.toNatSat x1,
        frags := varyN dvdx (HasToNat.toNatSat (x1 - x0)) v0 }
    row :: scanRows dl drx dvdx n (y + 1) (stepL left dl) (right + drx)

/-- raster.rs:198 `let recip = |dx: f32| if dx != 0.0 { dx.recip() } else { 0.0 };` — the guarded
reciprocal of a base width. Written so that it is faithful under EVERY interpretation of the scalar:
  * `dx ≠ 0` is spelled `dx < 0 ∨ 0 < dx` (the model has no equality on scalars);
  * the `else` value is `dx * 0` rather than the literal `0`: for a number it IS `0` (`0 * 0`), while
    for a poisoned `dx` (NaN in Rust, for which `dx != 0.0` is TRUE and `NaN.recip()` is NaN) both
    comparisons are false and `bad * 0 = bad` keeps the poison instead of laundering it into `0`.
Over a field `recip0 dx = 1 / dx` for every `dx` (`Retro.Lemmas.Raster.recip0_eq`), so nothing computed
at `Rat` changes. (At `f32` the sign of the zero is not modelled: `-0.0 * 0 = -0.0`, Rust gives `0.0`.) -/
def recip0 (dx : α) : α := if dx < 0 ∨ 0 < dx then 1 / dx else dx * 0

/-- raster.rs:171-225 `scan` (with the `fix:`es that take dv/dx along the wider base and guard its
reciprocal). -/
def scan (y0 y1 : α) (l0 l1 r0 r1 : List α) : List (Scanline α) :=
  let recipDy := 1 / (y1 - y0)
  let dl := dvdtL l0 l1 recipDy
  let dr := dvdtL r0 r1 recipDy
  let dx0 := nth0 r0 - nth0 l0
  let dx1 := nth0 r1 - nth0 l1
  let dvdx := if dx0 * dx0 < dx1 * dx1 then dvdtL l1 r1 (recip0 dx1) else dvdtL l0 r0 (recip0 dx0)
  let y0r := roundUpHalf y0
  let y1r := roundUpHalf y1
  let tweak := y0r - y0
  let l0' := lerpL l0 (stepL l0 dl) tweak
  let r0' := nth0 r0 + nth0 dr * tweak
  scanRows dl (nth0 dr) dvdx (HasToNat.toNatSat (y1r - y0r)) y0r l0' r0'

/-- `verts.sort_by(|a, b| a.pos.y().partial_cmp(&b.pos.y()).unwrap())`: stable, three elements. -/
def sort3 (a b c : List α) : List α × List α × List α :=
  let (p, q) := if nth1 b < nth1 a then (b, a) else (a, b)
  -- insert c after every element whose y is ≤ c.y
  if nth1 c < nth1 p then (c, p, q)
  else if nth1 c < nth1 q then (p, c, q)
  else (p, q, c)

/-- raster.rs:110-147 `tri_fill`: the scanlines in the order the callback receives them. -/
def triFill (a b c : List α) : List (Scanline α) :=
  let (top, mid0, bot) := sort3 a b c
  let topY := nth1 top
  let midY := nth1 mid0
  let botY := nth1 bot
  let mid1 := lerpL top bot ((midY - topY) / (botY - topY))
  let (left, right) := if nth0 mid0 < nth0 mid1 then (mid0, mid1) else (mid1, mid0)
  scan topY midY top left top right ++ scan midY botY left bot right bot

/-- raster.rs:58-65 `fragments`: position as is, every attribute component divided by pos.z. -/
def zdiv (v : List α) : List α :=
  match v with
  | x :: y :: z :: attrs => x :: y :: z :: attrs.map (· / z)
  | v => v

end
end Raster
end Retro
