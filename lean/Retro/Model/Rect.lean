/-
Executable model of `core/src/util/rect.rs` (`Rect<u32>`): optional bounds, half-open extents,
intersection, containment, emptiness, and the conversions from range pairs (with the
debug-profile overflow panic of `x + 1` at `u32::MAX`).
-/
import Retro.Basic

namespace Retro.Rect

/-- rect.rs:18 `Rect<u32>`; `none` = unbounded side. -/
structure Rect where
  left : Option Nat
  top : Option Nat
  right : Option Nat
  bottom : Option Nat
  deriving Repr, DecidableEq, Inhabited

def u32Max : Nat := 4294967295

/-- `core::ops::Bound<u32>` as produced by `RangeBounds::{start,end}_bound`. -/
inductive Bound where
  | incl (x : Nat)
  | excl (x : Nat)
  | unb
  deriving Repr, DecidableEq

/-- rect.rs:118 `resolve(b, i, e)`: `Included(x) => Some(x + i)`, `Excluded(x) => Some(x + e)`;
the `u32` addition panics on overflow in the debug profile. -/
def resolve (b : Bound) (i e : Nat) : Outcome (Option Nat) :=
  match b with
  | .incl x => if x + i > u32Max then .panic "attempt to add with overflow" else .ok (some (x + i))
  | .excl x => if x + e > u32Max then .panic "attempt to add with overflow" else .ok (some (x + e))
  | .unb => .ok none

/-- rect.rs:114 `From<(H, V)> for Rect<u32>`; fields are evaluated left, top, right, bottom. -/
def ofBounds (hs he vs ve : Bound) : Outcome Rect :=
  match resolve hs 0 1 with
  | .panic m => .panic m
  | .ok l =>
  match resolve vs 0 1 with
  | .panic m => .panic m
  | .ok t =>
  match resolve he 1 0 with
  | .panic m => .panic m
  | .ok r =>
  match resolve ve 1 0 with
  | .panic m => .panic m
  | .ok b => .ok ⟨l, t, r, b⟩

/-- rect.rs:97 `extremum` -/
def extremum (a b : Option Nat) (f : Nat → Nat → Nat) : Option Nat :=
  match a, b with
  | none, none => none
  | some x, none => some x
  | none, some y => some y
  | some x, some y => some (f x y)

/-- rect.rs:91 `intersect` -/
def intersect (a b : Rect) : Rect :=
  { left := extremum a.left b.left max
    top := extremum a.top b.top max
    right := extremum a.right b.right min
    bottom := extremum a.bottom b.bottom min }

/-- `(Included(lo) | Unbounded, Excluded(hi) | Unbounded).contains(&x)` -/
def inExtent (lo hi : Option Nat) (x : Nat) : Bool :=
  (match lo with | some l => decide (l ≤ x) | none => true) &&
  (match hi with | some h => decide (x < h) | none => true)

/-- rect.rs:65 `contains(x, y)` -/
def contains (r : Rect) (x y : Nat) : Bool := inExtent r.left r.right x && inExtent r.top r.bottom y

/-- `left.is_some() && right.is_some() && left >= right` -/
def extentEmpty (lo hi : Option Nat) : Bool :=
  match lo, hi with
  | some l, some h => decide (h ≤ l)
  | _, _ => false

/-- rect.rs:53 `is_empty` -/
def isEmpty (r : Rect) : Bool := extentEmpty r.left r.right || extentEmpty r.top r.bottom

/-- rect.rs:33 `width`: `r - r.min(l)` -/
def width (r : Rect) : Option Nat :=
  match r.right, r.left with
  | some rt, some l => some (rt - min rt l)
  | _, _ => none
/-- rect.rs:43 `height` -/
def height (r : Rect) : Option Nat :=
  match r.bottom, r.top with
  | some b, some t => some (b - min b t)
  | _, _ => none

/-- `u32::abs_diff` -/
def absDiff (a b : Nat) : Nat := if a < b then b - a else a - b

end Retro.Rect
