/-
Model of core/src/render.rs `render()`, render/target.rs (`Framebuf` and colour-only targets) and
the parts of render/ctx.rs they use. Generic over the scalar; the fragment shader is a parameter.

Buffers are row lists; the unchecked indexing of target.rs (`[sl.y][x0..x1]`) is modelled with its
panics (`Outcome.panic`). Colours are abstract values `C` (what `shade_fragment` returns).
-/
import Retro.Model.Clip
import Retro.Model.Raster

namespace Retro.Render
open Retro Retro.Clip Retro.Raster

inductive FaceCull where
  | front | back
  deriving Repr, DecidableEq

inductive DepthSort where
  | frontToBack | backToFront
  deriving Repr, DecidableEq

/-- `core::cmp::Ordering` as used by `Context::depth_test`. -/
inductive Ord3 where
  | less | equal | greater
  deriving Repr, DecidableEq

/-- ctx.rs:13-58 (the fields render() reads). -/
structure Ctx where
  faceCull : Option FaceCull := some .back
  depthSort : Option DepthSort := none
  depthTest : Option Ord3 := some .less
  colorWrite : Bool := true
  depthWrite : Bool := true
  deriving Repr, DecidableEq

/-- stats.rs: the counters render() maintains (`time` is ignored). -/
structure Stats where
  calls : Nat := 0
  primsI : Nat := 0
  primsO : Nat := 0
  vertsI : Nat := 0
  vertsO : Nat := 0
  fragsI : Nat := 0
  fragsO : Nat := 0
  deriving Repr, DecidableEq, Inhabited

/-- Render target: a colour buffer and, for `Framebuf`, a depth buffer (rows of equal length). -/
structure Target (α C : Type) where
  color : List (List C)
  depth : Option (List (List α))

section
variable {α : Type} [Add α] [Sub α] [Mul α] [Div α] [Neg α] [LT α] [DecidableLT α]
  [OfNat α 0] [OfNat α 1] [OfNat α 2] [HasFloor α] [HasToNat α] {C : Type}

/-- ctx.rs:73-77 `depth_test`: `curr.partial_cmp(&new) == Some(ord)`, `None` passes everything. -/
def depthTest (ctx : Ctx) (new curr : α) : Bool :=
  match ctx.depthTest with
  | none => true
  | some .less => decide (curr < new)
  | some .greater => decide (new < curr)
  | some .equal => !(decide (curr < new)) && !(decide (new < curr))

/-- Replace elements `x0 ..` of a row by `vals` (lengths already matched by the caller). -/
def writeSpan {β : Type} : List β → Nat → List β → List β
  | row, _, [] => row
  | [], _, _ => []
  | r :: rs, 0, v :: vs => v :: writeSpan rs 0 vs
  | r :: rs, x + 1, vs => r :: writeSpan rs x vs

def setRow {β : Type} : List (List β) → Nat → List β → List (List β)
  | [], _, _ => []
  | _ :: rs, 0, r => r :: rs
  | r0 :: rs, y + 1, r => r0 :: setRow rs y r

/-- Per-fragment body of target.rs:57-75 for a `Framebuf`: returns new (colour, depth, written?). -/
def shadeFrag (ctx : Ctx) (shade : List α → Option C) (frag : List α) (curC : C) (curZ : α) : C × α × Nat :=
  let newZ := nth2 frag
  if depthTest ctx newZ curZ then
    match shade frag with
    | some col =>
      (if ctx.colorWrite then col else curC, if ctx.depthWrite then newZ else curZ,
       if ctx.colorWrite then 1 else 0)
    | none => (curC, curZ, 0)
  else (curC, curZ, 0)

/-- Walk `frags.zip(cbuf_span).zip(zbuf_span)`. -/
def shadeSpan (ctx : Ctx) (shade : List α → Option C) : List (List α) → List C → List α → List C × List α × Nat
  | f :: fs, c :: cs, z :: zs =>
    let (c', z', o) := shadeFrag ctx shade f c z
    let (cs', zs', o') := shadeSpan ctx shade fs cs zs
    (c' :: cs', z' :: zs', o + o')
  | _, cs, zs => (cs, zs, 0)

/-- target.rs:93-108, colour-only target: no depth test at all. -/
def shadeSpanColor (ctx : Ctx) (shade : List α → Option C) : List (List α) → List C → List C × Nat
  | f :: fs, c :: cs =>
    let (cs', o') := shadeSpanColor ctx shade fs cs
    match shade f with
    | some col => if ctx.colorWrite then (col :: cs', o' + 1) else (c :: cs', o')
    | none => (c :: cs', o')
  | _, cs => (cs, 0)

/-- target.rs:33-77 / 80-109 `rasterize` of one scanline; `Outcome.panic` for the slice-index
panics of `[sl.y][x0..x1]`. Returns the new target and the Throughput {i, o}. -/
def rasterize (ctx : Ctx) (shade : List α → Option C) (t : Target α C) (sl : Scanline α) :
    Outcome (Target α C × Nat × Nat) :=
  let x0 := sl.x0
  let x1 := Nat.max sl.x1 x0
  match t.color[sl.y]? with
  | none => .panic "row index out of bounds"
  | some crow =>
    if crow.length < x1 then .panic "span range out of bounds"
    else
      let frags := sl.frags.map zdiv
      let cspan := (crow.drop x0).take (x1 - x0)
      match t.depth with
      | none =>
        let (cs, o) := shadeSpanColor ctx shade frags cspan
        .ok ({ t with color := setRow t.color sl.y (writeSpan crow x0 cs) }, x1 - x0, o)
      | some dbuf =>
        match dbuf[sl.y]? with
        | none => .panic "row index out of bounds"
        | some zrow =>
          if zrow.length < x1 then .panic "span range out of bounds"
          else
            let zspan := (zrow.drop x0).take (x1 - x0)
            let (cs, zs, o) := shadeSpan ctx shade frags cspan zspan
            .ok ({ color := setRow t.color sl.y (writeSpan crow x0 cs),
                   depth := some (setRow dbuf sl.y (writeSpan zrow x0 zs)) }, x1 - x0, o)

def rasterizeAll (ctx : Ctx) (shade : List α → Option C) :
    Target α C → Stats → List (Scanline α) → Outcome (Target α C × Stats)
  | t, st, [] => .ok (t, st)
  | t, st, sl :: rest =>
    match rasterize ctx shade t sl with
    | .panic m => .panic m
    | .ok (t', i, o) => rasterizeAll ctx shade t' { st with fragsI := st.fragsI + i, fragsO := st.fragsO + o } rest

/-- A 4×4 matrix as rows (mat.rs), applied to `[x, y, z, 1]` (mat.rs:231-234 `apply`). -/
structure Mat4 (α : Type) where
  r0 : Vec4 α
  r1 : Vec4 α
  r2 : Vec4 α
  r3 : Vec4 α

def applyMat (m : Mat4 α) (x y z : α) : α × α × α :=
  (dot4 m.r0.x m.r0.y m.r0.z m.r0.w x y z 1, dot4 m.r1.x m.r1.y m.r1.z m.r1.w x y z 1,
   dot4 m.r2.x m.r2.y m.r2.z m.r2.w x y z 1)

/-- render.rs:140-157: perspective division `(x, y, 1)/w`, viewport transform, attribute `/w`. -/
def toScreen (m : Mat4 α) (v : ClipVert α) : List α :=
  let w := v.pos.w
  let (sx, sy, sz) := applyMat m (v.pos.x / w) (v.pos.y / w) (1 / w)
  sx :: sy :: sz :: v.attr.map (· / w)

/-- render.rs:192-196 `is_backface` on screen-space vertices. -/
def isBackface (a b c : List α) : Bool :=
  let vx := nth0 b - nth0 a
  let vy := nth1 b - nth1 a
  let ux := nth0 c - nth0 a
  let uy := nth1 c - nth1 a
  decide (0 < vx * uy - vy * ux)

def culled (ctx : Ctx) (a b c : List α) : Bool :=
  match ctx.faceCull with
  | some .back => isBackface a b c
  | some .front => !isBackface a b c
  | none => false

/-- Sort key of render.rs:180-190 (sum of clip-space z). -/
def sortKey (t : Tri α) : α := t.a.pos.z + t.b.pos.z + t.c.pos.z

/-- Insertion sort standing in for `sort_unstable_by`. Equal keys come out in REVERSED submission order
(`foldr` inserts the last triangle first and `insertBy` puts a new element after its equals); the order of
equal keys is unspecified in Rust, no theorem depends on it (`render_painter` handles ties through
`SameInput`), and generators avoid ties. -/
def insertBy (lt : Tri α → Tri α → Bool) (t : Tri α) : List (Tri α) → List (Tri α)
  | [] => [t]
  | u :: us => if lt t u then t :: u :: us else u :: insertBy lt t us

def depthSorted (d : DepthSort) (ts : List (Tri α)) : List (Tri α) :=
  let lt : Tri α → Tri α → Bool :=
    match d with
    | .frontToBack => fun t u => decide (sortKey t < sortKey u)
    | .backToFront => fun t u => decide (sortKey u < sortKey t)
  ts.foldr (insertBy lt) []

/-- Per-triangle tail of render(): screen transform, cull, stats, tri_fill, rasterize. -/
def drawTris (ctx : Ctx) (shade : List α → Option C) (m : Mat4 α) :
    Target α C → Stats → List (Tri α) → Outcome (Target α C × Stats)
  | t, st, [] => .ok (t, st)
  | t, st, tri :: rest =>
    let a := toScreen m tri.a
    let b := toScreen m tri.b
    let c := toScreen m tri.c
    if culled ctx a b c then drawTris ctx shade m t st rest
    else
      let st := { st with primsO := st.primsO + 1, vertsO := st.vertsO + 3 }
      match rasterizeAll ctx shade t st (triFill a b c) with
      | .panic msg => .panic msg
      | .ok (t', st') => drawTris ctx shade m t' st' rest

def lookupTris (verts : List (ClipVert α)) : List (Nat × Nat × Nat) → Outcome (List (Tri α))
  | [] => .ok []
  | (i, j, k) :: rest =>
    match verts[i]?, verts[j]?, verts[k]?, lookupTris verts rest with
    | some a, some b, some c, .ok ts => .ok (⟨a, b, c⟩ :: ts)
    | _, _, _, .panic m => .panic m
    | _, _, _, _ => .panic "vertex index out of bounds"

/-- render.rs:96-178 `render` (vertex shader already applied: `verts` are clip-space positions
with attributes). Returns the new target and the Stats added to `ctx.stats`. -/
def render (ctx : Ctx) (shade : List α → Option C) (m : Mat4 α)
    (tris : List (Nat × Nat × Nat)) (verts : List (Vec4 α × List α)) (t : Target α C) :
    Outcome (Target α C × Stats) :=
  let st : Stats := { calls := 1, primsI := tris.length, vertsI := verts.length }
  let cverts := verts.map fun (p, a) => mkVert p a
  match lookupTris cverts tris with
  | .panic msg => .panic msg
  | .ok ts =>
    let clipped := clipTris ts
    let clipped := match ctx.depthSort with
      | some d => depthSorted d clipped
      | none => clipped
    drawTris ctx shade m t st clipped

end
end Retro.Render
