/-
Generic scalar helpers shared by the render-pipeline models. Everything is written over
core operator classes only, so the same definitions run at `Rat` in the drivers and unfold
at any ordered field in the proof files.
-/
import Retro.Basic

namespace Retro

section
variable {α : Type} [Add α] [Sub α] [Mul α]

/-- math.rs:96  `self.add(&other.sub(self).mul(t))` -/
@[inline] def lerp (a b t : α) : α := a + (b - a) * t

/-- componentwise lerp of attribute tuples (any `Affine` type with `f32` components) -/
def lerpL : List α → List α → α → List α
  | a :: as, b :: bs, t => lerp a b t :: lerpL as bs t
  | _, _, _ => []

/-- space.rs:169 `other.sub(self).mul(recip_dt)` -/
def dvdtL : List α → List α → α → List α
  | a :: as, b :: bs, r => (b - a) * r :: dvdtL as bs r
  | _, _, _ => []

/-- space.rs:175 `self.add(delta)` -/
def stepL : List α → List α → List α
  | a :: as, d :: ds => (a + d) :: stepL as ds
  | _, _ => []
end

/-- vec.rs:188-194 `dot`: left fold from zero of the products. -/
def dot4 {α : Type} [Add α] [Mul α] [OfNat α 0] (a0 a1 a2 a3 b0 b1 b2 b3 : α) : α :=
  (((0 + a0 * b0) + a1 * b1) + a2 * b2) + a3 * b3

end Retro
