/-
Model of core/src/math/spline.rs (`step`, `CubicBezier`, `BezierSpline`) and of the default
`Lerp::lerp` of core/src/math.rs.

Generic over the scalar through core operator classes only: the driver runs these definitions
at `XRat` (exact rationals extended by NaN/±∞, so that the NaN behaviour of `step`, `clamp` and
the saturating `as u32` cast is replayed literally); the theorems in `Retro.Props.C17` are about
the same definitions at an arbitrary linearly ordered field.

A value of an `Affine` type (`f32`, `Vec2/3`, `Point2/3`, `Color3f/4f`, `Angle`) is the list of
its scalar components; `Affine::add/sub`, `Linear::mul/neg` act componentwise in every
implementation (space.rs:82-107, vec.rs:344-380, point.rs:157-173, color.rs:501-531).
-/
import Retro.Model.Scalar

namespace Retro.Spline

/-- `x as u32` needs the integer part of a scalar. For special values the instance says what the
saturating cast does (`NaN ↦ 0`, `+∞ ↦ ≥ 2^32`, `-∞ ↦ < 0`). -/
class HasFloorInt (α : Type) where
  floorInt : α → Int

instance : HasFloorInt Rat := ⟨Rat.floor⟩

/-- Rust `f32 as u32`: truncation toward zero, saturating at 0 and `u32::MAX`, NaN ↦ 0.
(For `x ≥ 0` truncation is `floor`; for `x < 0` both give 0 after `toNat`.) -/
def satU32 {α : Type} [HasFloorInt α] (x : α) : Nat :=
  min (HasFloorInt.floorInt x).toNat 4294967295

section Vec
variable {α : Type} [Add α] [Sub α] [Mul α] [Neg α]

/-- `Affine::add` / `Linear::add`, componentwise. -/
def vadd : List α → List α → List α
  | a :: as, b :: bs => (a + b) :: vadd as bs
  | _, _ => []

/-- `Affine::sub`, componentwise. -/
def vsub : List α → List α → List α
  | a :: as, b :: bs => (a - b) :: vsub as bs
  | _, _ => []

/-- `Linear::mul(scalar)`. -/
def vmul : List α → α → List α
  | a :: as, s => (a * s) :: vmul as s
  | [], _ => []

/-- `Linear::neg`. -/
def vneg : List α → List α
  | a :: as => (-a) :: vneg as
  | [] => []

/-- math.rs:96 default `Lerp::lerp`: `self.add(&other.sub(self).mul(t))`. -/
def vlerp (a b : List α) (t : α) : List α := vadd a (vmul (vsub b a) t)

end Vec

section Step
variable {α : Type} [LE α] [DecidableLE α] [OfNat α 0] [OfNat α 1]

/-- spline.rs:47-58 `step`: `min` if `t <= 0.0`, `max` if `t >= 1.0`, else `f(t)`.
(Both comparisons are false for NaN, which therefore reaches `f`.) -/
def step {β : Type} (t : α) (mn mx : β) (f : α → β) : β :=
  if t ≤ 0 then mn else if 1 ≤ t then mx else f t

end Step

/-- `f32::clamp(self, min, max)` of core: `if x < min {x = min}; if x > max {x = max}; x`
(NaN passes through unchanged). -/
def clampS {α : Type} [LT α] [DecidableLT α] (x mn mx : α) : α :=
  let x := if x < mn then mn else x
  if mx < x then mx else x

section Bezier
variable {α : Type} [Add α] [Sub α] [Mul α] [Neg α] [LT α] [DecidableLT α] [LE α] [DecidableLE α]
  [OfNat α 0] [OfNat α 1] [OfNat α 2] [OfNat α 3]

/-- spline.rs:70-78 `CubicBezier::eval` (De Casteljau). -/
def bezEval (p0 p1 p2 p3 : List α) (t : α) : List α :=
  step t p0 p3 fun t =>
    let p01 := vlerp p0 p1 t
    let p12 := vlerp p1 p2 t
    let p23 := vlerp p2 p3 t
    vlerp (vlerp p01 p12 t) (vlerp p12 p23 t) t

/-- spline.rs:133-156 `coefficients`: `[co3, co2, co1]`. -/
def coefficients (p0 p1 p2 p3 : List α) : List α × List α × List α :=
  let p3_p0 := vsub p3 p0
  let p1_p0_3 := vmul (vsub p1 p0) 3
  let p1_p2_3 := vmul (vsub p1 p2) 3
  (vadd p3_p0 p1_p2_3, vneg (vadd p1_p0_3 p1_p2_3), p1_p0_3)

/-- spline.rs:87-95 `CubicBezier::fast_eval` (Horner on the coefficients, added to `p0`). -/
def bezFast (p0 p1 p2 p3 : List α) (t : α) : List α :=
  step t p0 p3 fun t =>
    let co := coefficients p0 p1 p2 p3
    vadd p0 (vmul (vadd (vmul (vadd (vmul co.1 t) co.2.1) t) co.2.2) t)

/-- spline.rs:100-113 `CubicBezier::tangent`. -/
def bezTangent (p0 p1 p2 p3 : List α) (t : α) : List α :=
  let t := clampS t 0 1
  let co2 := vadd (vmul (vsub p1 p2) 3) (vsub p3 p0)
  let co1 := vmul (vadd (vsub p0 p1) (vsub p2 p1)) 2
  let co0 := vsub p1 p0
  vmul (vadd (vmul (vadd (vmul co2 t) co1) t) co0) 3

end Bezier

section Spline
variable {α : Type} [Add α] [Sub α] [Mul α] [Div α] [Neg α] [LT α] [DecidableLT α] [LE α]
  [DecidableLE α] [OfNat α 0] [OfNat α 1] [OfNat α 2] [OfNat α 3] [NatCast α] [HasFloorInt α]

/-- spline.rs:179-186 `BezierSpline::new`: panics unless `len >= 4 && len % 3 == 1`. -/
def splineNew (pts : List (List α)) : Outcome (List (List α)) :=
  if 4 ≤ pts.length ∧ pts.length % 3 = 1 then .ok pts
  else .panic "length must be 3n+1 for some integer n > 0"

/-- spline.rs:188-204, the `while let` loop of `from_rays`: every ray `(p, v)` contributes
`p.add(&v.neg())` (unless it is the first), `p`, and `p.add(&v)` (unless it is the last). -/
def fromRaysPts : Bool → List (List α × List α) → List (List α)
  | _, [] => []
  | first, (p, v) :: rest =>
    (if first then [] else [vadd p (vneg v)]) ++ [p] ++
      (if rest.isEmpty then [] else [vadd p v]) ++ fromRaysPts false rest

/-- spline.rs:188-206 `BezierSpline::from_rays`: the points above, handed to `new` (which panics
for fewer than two rays). -/
def fromRays (rays : List (List α × List α)) : Outcome (List (List α)) :=
  splineNew (fromRaysPts true rays)

/-- The segment index chosen by spline.rs:228-232:
`segs = ((len-1)/3) as f32; seg = ((t*segs) as u32 as f32).min(segs - 1.0); idx = 3*(seg as usize)`.
`seg` is a small non-negative integer held in an `f32`; it is modelled as the `Nat` it denotes
(`u32 as f32` is monotone and exact below 2^24, `segs - 1.0 < 2^24` for any allocatable spline,
so the `f32` minimum is the `Nat` minimum; for `segs = 0`, which `new` excludes, both give 0). -/
def segIndex (nSegs : Nat) (t : α) : Nat :=
  min (satU32 (t * (nSegs : α))) (nSegs - 1)

/-- spline.rs:227-234 `segment`: local parameter and the four control points; indexing past the
end is a panic. -/
def segment (pts : List (List α)) (t : α) : Outcome (α × List α × List α × List α × List α) :=
  let nSegs := (pts.length - 1) / 3
  let seg := segIndex nSegs t
  let t2 := t * (nSegs : α) - (seg : α)
  let idx := 3 * seg
  match pts[idx]?, pts[idx + 1]?, pts[idx + 2]?, pts[idx + 3]? with
  | some p0, some p1, some p2, some p3 => .ok (t2, p0, p1, p2, p3)
  | _, _, _, _ => .panic "index out of bounds"

/-- spline.rs:211-217 `BezierSpline::eval`. `self.0[0]` and `last().unwrap()` are evaluated
before `step` is entered. -/
def splineEval (pts : List (List α)) (t : α) : Outcome (List α) :=
  match pts.head?, pts.getLast? with
  | some first, some last =>
    step t (.ok first) (.ok last) fun t =>
      match segment pts t with
      | .ok (t2, p0, p1, p2, p3) => .ok (bezFast p0 p1 p2 p3 t2)
      | .panic m => .panic m
  | _, _ => .panic "index out of bounds"

/-- spline.rs:222-225 `BezierSpline::tangent`: `segment` is called with the *unclamped* `t`. -/
def splineTangent (pts : List (List α)) (t : α) : Outcome (List α) :=
  match segment pts t with
  | .ok (t2, p0, p1, p2, p3) => .ok (bezTangent p0 p1 p2 p3 t2)
  | .panic m => .panic m

/-- One emitted piece of `approximate`, with the trace data the theorems speak about:
the parameter interval, the remaining depth at emission, whether `halt` was called (and returned
`true`) and the pushed point `eval(a)`. -/
structure Piece (α : Type) where
  a : α
  b : α
  dep : Nat
  halted : Bool
  pt : List α

/-- The three evaluations and the error vector of spline.rs:287-295:
`mid = a.lerp(&b, 0.5)`, `ap`, `bp`, `real = eval(mid)`, `approx = ap.lerp(&bp, 0.5)`,
result `(ap, real.sub(&approx))`. -/
def approxErr (pts : List (List α)) (a b : α) : Outcome (List α × List α) :=
  let mid := lerp a b (1 / 2)
  match splineEval pts a, splineEval pts b, splineEval pts mid with
  | .ok ap, .ok bp, .ok real => .ok (ap, vsub real (vlerp ap bp (1 / 2)))
  | .panic m, _, _ => .panic m
  | _, .panic m, _ => .panic m
  | _, _, .panic m => .panic m

/-- spline.rs:279-301 `do_approx`. The caller's `halt: impl Fn(&T::Diff) -> bool` may have
interior state (the harness's does), so it is modelled as a state-passing function; a pure
predicate is the case `σ = Unit`. `max_dep == 0 || halt(..)` short-circuits: `halt` is not called
at depth 0. Structural recursion on the depth. -/
def doApprox {σ : Type} (pts : List (List α)) (halt : σ → List α → Bool × σ) :
    Nat → α → α → σ → Outcome (List (Piece α) × σ)
  | 0, a, b, s =>
    match approxErr pts a b with
    | .ok (ap, _) => .ok ([⟨a, b, 0, false, ap⟩], s)
    | .panic m => .panic m
  | d + 1, a, b, s =>
    match approxErr pts a b with
    | .panic m => .panic m
    | .ok (ap, err) =>
      let r := halt s err
      if r.1 then .ok ([⟨a, b, d + 1, true, ap⟩], r.2)
      else
        let mid := lerp a b (1 / 2)
        match doApprox pts halt d a mid r.2 with
        | .panic m => .panic m
        | .ok (l1, s1) =>
          match doApprox pts halt d mid b s1 with
          | .panic m => .panic m
          | .ok (l2, s2) => .ok (l1 ++ l2, s2)

/-- The depth bound of spline.rs:274: `10 + len.ilog2()`. -/
def maxDepth (len : Nat) : Nat := 10 + Nat.log2 len

/-- spline.rs:271-277 `approximate`: the pieces' points followed by the last control point.
(`ilog2` panics on 0 and `self.0[len - 1]` underflows; `new` excludes the empty spline.) -/
def approximate {σ : Type} (pts : List (List α)) (halt : σ → List α → Bool × σ) (s : σ) :
    Outcome (List (Piece α) × List (List α) × σ) :=
  let len := pts.length
  if len = 0 then .panic "ilog2 of zero"
  else
    match doApprox pts halt (maxDepth len) 0 1 s with
    | .panic m => .panic m
    | .ok (ps, s') =>
      match pts[len - 1]? with
      | some l => .ok (ps, ps.map (·.pt) ++ [l], s')
      | none => .panic "index out of bounds"

end Spline

/-! ### smoothstep / smootherstep (spline.rs:32-41) -/
section Smooth
variable {α : Type} [Add α] [Sub α] [Mul α] [LE α] [DecidableLE α]
  [OfNat α 0] [OfNat α 1] [OfNat α 2] [OfNat α 3] [OfNat α 6] [OfNat α 10] [OfNat α 15]

/-- spline.rs:32-34 -/
def smoothstep (t : α) : α := step t 0 1 fun t => t * t * (3 - 2 * t)

/-- spline.rs:39-41 -/
def smootherstep (t : α) : α := step t 0 1 fun t => t * t * t * (10 + t * (6 * t - 15))

end Smooth

end Retro.Spline
