/-
U01 — library utilities (part 3): `core/src/render/stats.rs` minus the clock.

  * `Stats::new` / `default`, `AddAssign for Stats`, `AddAssign for Throughput`   stats.rs:48, 197-214
  * `Stats::per_sec`, `Stats::per_frame`, `Throughput::per_sec/per_frame`          stats.rs:81-143
  * `human_num`, `human_time` (private; reached through `Display`)                 stats.rs:216-245
  * `Display for Throughput` (non-alternate form)                                   stats.rs:179-195

`Duration` is its number of nanoseconds (a `Nat`; `Duration` holds `u64` seconds, so a sum of
`2^64·10^9` ns or more is the "overflow when adding durations" panic).  `usize` is 64 bits (the harness
target); counter additions are overflow-checked (the harness profile).  The `f32` fields `calls` and `frames`
are rationals.

Every `f32` rounding step of the Rust code is an explicit call of the parameter `rnd : Rat → Rat`:
`rnd = id` gives the exact-arithmetic reading the theorems are about, `rnd = f32 round-to-nearest-even`
(`F32.ofRat`) the bit-faithful reading the driver compares strings with.
-/
import Retro.Basic

namespace Retro.StatsUtil

structure Throughput where
  i : Nat
  o : Nat
  deriving Repr, DecidableEq, Inhabited

structure Stats where
  /-- `Duration`, in nanoseconds -/
  time : Nat
  calls : Rat
  frames : Rat
  objs : Throughput
  prims : Throughput
  verts : Throughput
  frags : Throughput
  deriving Repr, DecidableEq, Inhabited

def usizeMax : Nat := 18446744073709551615
/-- `Duration::MAX` in nanoseconds: `u64::MAX` s + 999 999 999 ns -/
def durMax : Nat := 18446744073709551616 * 1000000000 - 1
def nanosPerSec : Nat := 1000000000

/-- stats.rs:48 `Stats::new()` = `Stats::default()`; also `Stats::start()` minus the clock. -/
def Stats.default : Stats := ⟨0, 0, 0, ⟨0, 0⟩, ⟨0, 0⟩, ⟨0, 0⟩, ⟨0, 0⟩⟩

/-- `usize += usize` in the overflow-checks profile -/
def usizeAdd (a b : Nat) : Outcome Nat :=
  if a + b ≤ usizeMax then .ok (a + b) else .panic "attempt to add with overflow"

/-- stats.rs:209-214 `AddAssign for Throughput`: `self.i += rhs.i; self.o += rhs.o` -/
def tpAdd (a b : Throughput) : Outcome Throughput :=
  match usizeAdd a.i b.i with
  | .panic s => .panic s
  | .ok i =>
    match usizeAdd a.o b.o with
    | .panic s => .panic s
    | .ok o => .ok ⟨i, o⟩

/-- `Duration += Duration`: `checked_add(...).expect("overflow when adding durations")` -/
def durAdd (a b : Nat) : Outcome Nat :=
  if a + b ≤ durMax then .ok (a + b) else .panic "overflow when adding durations"

/-- stats.rs:197-207 `AddAssign for Stats`: time, calls, frames, then the four throughputs in the order
objs, prims, verts, frags.  `rnd` rounds the two `f32` sums. -/
def statsAdd (rnd : Rat → Rat) (a b : Stats) : Outcome Stats :=
  match durAdd a.time b.time with
  | .panic s => .panic s
  | .ok t =>
    match tpAdd a.objs b.objs with
    | .panic s => .panic s
    | .ok objs =>
      match tpAdd a.prims b.prims with
      | .panic s => .panic s
      | .ok prims =>
        match tpAdd a.verts b.verts with
        | .panic s => .panic s
        | .ok verts =>
          match tpAdd a.frags b.frags with
          | .panic s => .panic s
          | .ok frags => .ok ⟨t, rnd (a.calls + b.calls), rnd (a.frames + b.frames), objs, prims, verts, frags⟩

/-- Several `+=` in a row, starting from `acc`. -/
def statsSum (rnd : Rat → Rat) (acc : Stats) : List Stats → Outcome Stats
  | [] => .ok acc
  | s :: ss =>
    match statsAdd rnd acc s with
    | .panic m => .panic m
    | .ok acc' => statsSum rnd acc' ss

/-! ### per_sec / per_frame -/

/-- `Duration::as_secs_f32` (core/time.rs): `(secs as f32) + (nanos as f32) / (NANOS_PER_SEC as f32)`. -/
def asSecs (rnd : Rat → Rat) (t : Nat) : Rat :=
  rnd (rnd ((t / nanosPerSec : Nat) : Rat) + rnd (rnd ((t % nanosPerSec : Nat) : Rat) / rnd (nanosPerSec : Rat)))

/-- stats.rs:82-86: `if self.time.is_zero() { 1.0 } else { self.time.as_secs_f32() }` -/
def secsOf (rnd : Rat → Rat) (t : Nat) : Rat := if t = 0 then 1 else asSecs rnd t

/-- `x as usize` for a non-NaN float: truncation toward zero, saturating at both ends. -/
def toUsize (x : Rat) : Nat := if x < 0 then 0 else min x.floor.toNat usizeMax

/-- stats.rs:131-136 `Throughput::per_sec`: `(self.i as f32 / secs) as usize` -/
def tpPerSec (rnd : Rat → Rat) (secs : Rat) (tp : Throughput) : Throughput :=
  ⟨toUsize (rnd (rnd (tp.i : Rat) / secs)), toUsize (rnd (rnd (tp.o : Rat) / secs))⟩

/-- stats.rs:81-100 `per_sec` (the duration is the `time` field). A `secs` of zero is impossible: a non-zero
`Duration` is at least 1 ns. -/
def perSec (rnd : Rat → Rat) (s : Stats) : Stats :=
  let secs := secsOf rnd s.time
  { time := nanosPerSec
    calls := rnd (s.calls / secs)
    frames := rnd (s.frames / secs)
    objs := tpPerSec rnd secs s.objs
    prims := tpPerSec rnd secs s.prims
    verts := tpPerSec rnd secs s.verts
    frags := tpPerSec rnd secs s.frags }

/-- `f32::max(self, 1.0)` on a non-NaN value -/
def max1 (x : Rat) : Rat := if x < 1 then 1 else x

/-- stats.rs:137-142 `Throughput::per_frame`: `self.i / frames as usize` (integer division; the divisor is at
least 1 because `frames = self.frames.max(1.0)`). -/
def tpPerFrame (frames : Rat) (tp : Throughput) : Throughput :=
  ⟨tp.i / toUsize frames, tp.o / toUsize frames⟩

/-- `Duration::div_f32(frames)`: `from_secs_f64(self.as_secs_f64() / frames as f64)`, which rounds to the
nearest nanosecond; the `f64` roundings (relative 2⁻⁵³) are not modelled. -/
def durDiv (t : Nat) (frames : Rat) : Nat := (roundNearestEven ((t : Rat) / frames)).toNat

/-- stats.rs:102-118 `per_frame` -/
def perFrame (rnd : Rat → Rat) (s : Stats) : Stats :=
  let frames := max1 s.frames
  { time := durDiv s.time frames
    calls := rnd (s.calls / frames)
    frames := 1
    objs := tpPerFrame frames s.objs
    prims := tpPerFrame frames s.prims
    verts := tpPerFrame frames s.verts
    frags := tpPerFrame frames s.frags }

/-! ### human_num / human_time -/

/-- What `human_num` prints, before rendering. -/
inductive HNum where
  /-- `format!("{n:5}")` -/
  | plain (n : Nat)
  /-- `format!("{:4.1}<unit>", x)`: `tenths` is `x` rounded to one decimal, times ten -/
  | dec (tenths : Nat) (unit : Char)
  /-- `format!("{:4}<unit>", v)` -/
  | int (v : Nat) (unit : Char)
  /-- `format!("{n:5.1e}")`: `tenths / 10 · 10^exp`, `10 ≤ tenths ≤ 99` -/
  | exp (tenths : Nat) (exp : Nat)
  deriving Repr, DecidableEq, Inhabited

/-- `{:.1}` of a non-negative float: the exact value rounded half-to-even to one decimal (core `fmt`'s
exact mode), times ten. -/
def tenthsOf (x : Rat) : Nat := (roundNearestEven (x * 10)).toNat

/-- number of decimal digits of `n` minus one (`ilog10`), with fuel -/
def ilog10 : Nat → Nat → Nat
  | 0, _ => 0
  | fuel + 1, n => if n < 10 then 0 else ilog10 fuel (n / 10) + 1

/-- `{n:.1e}` for an integer (core/fmt/num.rs `impl_Exp`): coefficient with one decimal, rounded half to
even on the exact integer; a coefficient that reaches 10.0 is renormalised. -/
def expParts (n : Nat) : Nat × Nat :=
  let e := ilog10 64 n
  if e ≤ 1 then (n * 10 ^ (1 - e), e)
  else
    let t := (roundNearestEven ((n : Rat) / ((10 ^ (e - 1) : Nat) : Rat))).toNat
    if t ≥ 100 then (t / 10, e + 1) else (t, e)

/-- stats.rs:216-232 `human_num`. -/
def humanNum (rnd : Rat → Rat) (n : Nat) : HNum :=
  if n < 1000 then .plain n
  else if n < 100000 then .dec (tenthsOf (rnd (rnd (n : Rat) / 1000))) 'k'
  else if n < 1000000 then .int (n / 1000) 'k'
  else if n < 100000000 then .dec (tenthsOf (rnd (rnd (n : Rat) / 1000000))) 'M'
  else if n < 1000000000 then .int (n / 1000000) 'M'
  else if n < 100000000000 then .dec (tenthsOf (rnd (rnd (n : Rat) / 1000000000))) 'G'
  else let p := expParts n; .exp p.1 p.2

/-- The number a printed `HNum` denotes. -/
def unitValue (c : Char) : Rat :=
  if c = 'k' then 1000 else if c = 'M' then 1000000 else if c = 'G' then 1000000000 else 1

def HNum.value : HNum → Rat
  | .plain n => n
  | .dec t u => (t : Rat) / 10 * unitValue u
  | .int v u => (v : Rat) * unitValue u
  | .exp t e => (t : Rat) / 10 * ((10 ^ e : Nat) : Rat)

/-- What `human_time` prints. -/
inductive HTime where
  /-- `format!("{:4.1}μs", secs * 1_000_000.)` -/
  | us (tenths : Nat)
  /-- `format!("{:4.1}ms", secs * 1_000.)` -/
  | ms (tenths : Nat)
  /-- `format!("{:.1}s", secs)` -/
  | secs (tenths : Nat)
  /-- `format!("{:.0}min {:02.0}s", secs / 60.0, secs % 60.0)` -/
  | minsec (min : Nat) (sec : Nat)
  deriving Repr, DecidableEq, Inhabited

/-- `x % 60.0` for a non-negative float: exact (`fmod`). -/
def mod60 (x : Rat) : Rat := x - ((x / 60).floor : Rat) * 60

/-- stats.rs:234-245 `human_time`; `secs = d.as_secs_f32()`. The literal `1e-3` is an `f32`. -/
def humanTimeSecs (rnd : Rat → Rat) (secs : Rat) : HTime :=
  if secs < rnd (1 / 1000) then .us (tenthsOf (rnd (secs * 1000000)))
  else if secs < 1 then .ms (tenthsOf (rnd (secs * 1000)))
  else if secs < 60 then .secs (tenthsOf secs)
  else .minsec (roundNearestEven (rnd (secs / 60))).toNat (roundNearestEven (mod60 secs)).toNat

def humanTime (rnd : Rat → Rat) (t : Nat) : HTime := humanTimeSecs rnd (asSecs rnd t)

/-- The duration in seconds a printed `HTime` denotes. -/
def HTime.value : HTime → Rat
  | .us t => (t : Rat) / 10 / 1000000
  | .ms t => (t : Rat) / 10 / 1000
  | .secs t => (t : Rat) / 10
  | .minsec m s => (m : Rat) * 60 + s

/-! ### rendering (byte-exact strings of `format!`) -/

def digitChar (d : Nat) : Char := Char.ofNat (48 + d % 10)

/-- decimal digits of `n`, most significant first (fuel = number of digits is at most 40 here) -/
def natDigits : Nat → Nat → List Char
  | 0, _ => []
  | fuel + 1, n => if n < 10 then [digitChar n] else natDigits fuel (n / 10) ++ [digitChar (n % 10)]

def natChars (n : Nat) : List Char := natDigits 40 n

/-- `{:>w}`: left-pad with spaces to a minimum width (numbers are right-aligned by default). -/
def padLeft (w : Nat) (c : Char) (s : List Char) : List Char := List.replicate (w - s.length) c ++ s

/-- `I.F` for a value given in tenths -/
def tenthsChars (t : Nat) : List Char := natChars (t / 10) ++ ['.', digitChar (t % 10)]

def HNum.chars : HNum → List Char
  | .plain n => padLeft 5 ' ' (natChars n)
  | .dec t u => padLeft 4 ' ' (tenthsChars t) ++ [u]
  | .int v u => padLeft 4 ' ' (natChars v) ++ [u]
  | .exp t e => padLeft 5 ' ' (tenthsChars t ++ ['e'] ++ natChars e)

def HTime.chars : HTime → List Char
  | .us t => padLeft 4 ' ' (tenthsChars t) ++ ['μ', 's']
  | .ms t => padLeft 4 ' ' (tenthsChars t) ++ ['m', 's']
  | .secs t => tenthsChars t ++ ['s']
  | .minsec m s => natChars m ++ ['m', 'i', 'n', ' '] ++ padLeft 2 '0' (natChars s) ++ ['s']

/-- stats.rs:191-192 `Display for Throughput`, non-alternate: `format!("{} / {}", human_num(i), human_num(o))`
right-aligned to the width (default 10; the text is always at least 13 characters, so never padded). -/
def tpChars (rnd : Rat → Rat) (w : Nat) (tp : Throughput) : List Char :=
  padLeft w ' ' ((humanNum rnd tp.i).chars ++ [' ', '/', ' '] ++ (humanNum rnd tp.o).chars)

end Retro.StatsUtil
