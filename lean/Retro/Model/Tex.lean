/-
Model of core/src/render/tex.rs: textures and the three nearest-neighbour samplers.

The samplers return the *index* `(u, v)` of the texel they read (the harness fills every texel with
its own coordinates, so the index is what the real code lets us observe).  Coordinates are `f32` bit
patterns; all float operations are those of `Retro.Model.F32Ops`.  An out-of-bounds index is the
panic of `Inner::to_index_strict` (util/buf.rs:416), never a default value.
-/
import Retro.Model.F32Ops

namespace Retro.Tex
open Retro Retro.F32

/-- tex.rs:49 `struct Texture { w: f32, h: f32, data: D }`.  `w`, `h` are the `f32` fields (bit
patterns); `dw`, `dh` the `u32` dimensions of `data` (an owned `Buf2` or a borrowed `Slice2`
sub-region – both index through the same `Inner::to_index_strict`). -/
structure Texture where
  w : UInt32
  h : UInt32
  dw : Nat
  dh : Nat
  deriving Repr, DecidableEq

/-- tex.rs:67-87 `impl From<Buf2<C>>` / `impl From<Slice2<C>>`:
`w: data.width() as f32, h: data.height() as f32`. -/
def Texture.ofDims (dw dh : Nat) : Texture :=
  { w := intToF32 dw, h := intToF32 dh, dw := dw, dh := dh }

/-- buf.rs:416-431 `to_index_strict`: `(x < w && y < h)` or panic
"position (x=…, y=…) out of bounds". -/
def index (t : Texture) (u v : Nat) : Outcome (Nat × Nat) :=
  if u < t.dw && v < t.dh then .ok (u, v) else .panic "position out of bounds"

/-- `u32::is_power_of_two`. -/
def isPow2 (n : Nat) : Bool := n != 0 && (n &&& (n - 1)) == 0

/-- tex.rs:93 `struct SamplerRepeatPot { w_mask: u32, h_mask: u32 }`. -/
structure RepeatPot where
  wMask : Nat
  hMask : Nat
  deriving Repr, DecidableEq

/-- tex.rs:102-112 `SamplerRepeatPot::new` (after fix 597c789): the test is on the *integer* dimensions
of the data, `let (w, h) = (data.width(), data.height()); assert!(w.is_power_of_two())`, masks `w - 1`,
`h - 1`. -/
def RepeatPot.new (t : Texture) : Outcome RepeatPot :=
  if !isPow2 t.dw then .panic "width must be 2^n"
  else if !isPow2 t.dh then .panic "height must be 2^n"
  else .ok { wMask := t.dw - 1, hMask := t.dh - 1 }

/-- The test as it was before 597c789, on the rounded `f32` fields: `let w = tex.width() as u32`.
Kept only to state the repaired defect (`Props.C12.repeat_new_old_accepts_non_pot`). -/
def RepeatPot.newViaF32 (t : Texture) : Outcome RepeatPot :=
  let w := toU32Sat t.w
  let h := toU32Sat t.h
  if !isPow2 w then .panic "width must be 2^n"
  else if !isPow2 h then .panic "height must be 2^n"
  else .ok { wMask := w - 1, hMask := h - 1 }

/-! ### One axis of each sampler -/

/-- tex.rs:136 `f32::floor(tc.u()) as i32 as u32 & self.w_mask`, with `math::float::f32::floor` of
the configured back end as a parameter (std / libm: the exact floor; no fp feature: `fallback::floor`;
mm: the adapter's guarded micromath floor). -/
def repeatAxisF (floorF : UInt32 → UInt32) (mask : Nat) (x : UInt32) : Nat :=
  i32ToU32 (toI32Sat (floorF x)) &&& mask

/-- The std build (what `./check C12` compiles): the exact floor. -/
def repeatAxis (mask : Nat) (x : UInt32) : Nat := repeatAxisF floor mask x

/-- tex.rs:172 `f32::floor(tc.u().clamp(0.0, hi)) as u32`, with the upper clamp bound given. -/
def clampAxisHiF (floorF : UInt32 → UInt32) (hi x : UInt32) : Outcome Nat :=
  match clamp x 0 hi with
  | .panic s => .panic s
  | .ok c => .ok (toU32Sat (floorF c))

def clampAxisHi (hi x : UInt32) : Outcome Nat := clampAxisHiF floor hi x

/-- tex.rs:172 with `hi = tex.w - 1.0`. -/
def clampAxisF (floorF : UInt32 → UInt32) (wf x : UInt32) : Outcome Nat := clampAxisHiF floorF (sub wf one) x

def clampAxis (wf x : UInt32) : Outcome Nat := clampAxisF floor wf x

/-- tex.rs:214 `tc.u() as u32`. -/
def onceAxis (x : UInt32) : Nat := toU32Sat x

/-! ### Absolute-coordinate entry points -/

/-- tex.rs:128-139 `SamplerRepeatPot::sample_abs`. -/
def repeatSampleAbsF (floorF : UInt32 → UInt32) (s : RepeatPot) (t : Texture) (u v : UInt32) :
    Outcome (Nat × Nat) :=
  index t (repeatAxisF floorF s.wMask u) (repeatAxisF floorF s.hMask v)

def repeatSampleAbs (s : RepeatPot) (t : Texture) (u v : UInt32) : Outcome (Nat × Nat) :=
  repeatSampleAbsF floor s t u v

/-- tex.rs:166-181 `SamplerClamp::sample_abs` (after fix 5063a3c): the float clamp, then the integer
guard `u.min(data.width().saturating_sub(1))`, because `tex.w - 1.0` is not exact beyond 2^24. -/
def clampSampleAbsF (floorF : UInt32 → UInt32) (t : Texture) (u v : UInt32) : Outcome (Nat × Nat) :=
  match clampAxisF floorF t.w u with
  | .panic s => .panic s
  | .ok iu =>
    match clampAxisF floorF t.h v with
    | .panic s => .panic s
    | .ok iv => index t (min iu (t.dw - 1)) (min iv (t.dh - 1))

def clampSampleAbs (t : Texture) (u v : UInt32) : Outcome (Nat × Nat) := clampSampleAbsF floor t u v

/-- tex.rs:208-223 `SamplerOnce::sample_abs`: `tc.u() as u32`, two `debug_assert!`s, then the index. -/
def onceSampleAbs (t : Texture) (u v : UInt32) : Outcome (Nat × Nat) :=
  let iu := onceAxis u
  let iv := onceAxis v
  if !(iu < t.dw) then .panic "debug_assert u < width"
  else if !(iv < t.dh) then .panic "debug_assert v < height"
  else index t iu iv

/-! ### Relative-coordinate entry points: scale by the texture size, then the absolute sampler -/

/-- tex.rs:119 `uv(tex.width() * tc.u(), tex.height() * tc.v())`. -/
def repeatSample (s : RepeatPot) (t : Texture) (u v : UInt32) : Outcome (Nat × Nat) :=
  repeatSampleAbs s t (mul t.w u) (mul t.h v)

/-- tex.rs:156 `uv(tc.u() * tex.w, tc.v() * tex.h)`. -/
def clampSample (t : Texture) (u v : UInt32) : Outcome (Nat × Nat) :=
  clampSampleAbs t (mul u t.w) (mul v t.h)

/-- tex.rs:194 `uv(tex.width() * tc.u(), tex.height() * tc.v())`. -/
def onceSample (t : Texture) (u v : UInt32) : Outcome (Nat × Nat) :=
  onceSampleAbs t (mul t.w u) (mul t.h v)

end Retro.Tex
