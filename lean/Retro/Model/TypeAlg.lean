/-
C10 — the *tag algebra* of retrofire's math types.

This is a model of which programs over the crate's public math API are accepted by the
crate's `impl` headers and `where` clauses (it is **not** a model of rustc).  Types are the
crate's nominal type constructors applied to tag types; `ty1/ty2/ty3` transcribe, operator by
operator, the `impl` blocks that exist; `infer` is the obvious bottom-up type assignment.

The misuse predicates (`mis1/mis2/mis3`, bottom of the file) are written on the *tags*
(`Ty.space?`, `Ty.dim?`, the kind of nominal type) and never call `ty*`/`affineDiff`.

Source anchors (all under /repo/core/src, line numbers as of /repo 0dcf240):
  math/space.rs  : Affine (12-32), Linear (44-67), Real (73), Proj4 (80), scalar impls (82-160), blanket Vary (155-178)
  math/vec.rs    : Vector, to/to_pt (103-113), Affine/Linear impls (344-385), operators (510-628)
  math/point.rs  : Point, to/to_vec (39-48), Affine impl (157-174), operators (247-296)
  math/mat.rs    : LinearMap/Compose (28-40), Matrix::to (79), row_vec/col_vec (99-112),
                   transpose (113-121, const assert 118), compose/then (158-197), apply/apply_pt/inverse (199-382),
                   RealToProj::apply (384-397), LinearMap/Compose impls (413-436), scale/translate (498-518),
                   orient_y/z (526-541), rotate_* (555-590)
  math/angle.rs  : Angle (private field, 25), rads/degs/turns (47-59), polar/spherical (117-127),
                   to_rads/… (154-175), min (178), trig (213-248), r/az/to_cart (269-345), to_polar/to_spherical (379-430),
                   Affine/Linear (441-470), operators (499-535)
  math/color.rs  : Color (26), conversions (101-393), accessors (396-480), Affine/Linear impls (484-533)
  math.rs        : Lerp (55-109)
  math/vary.rs   : Vary (43-63), `()` and pair impls (71-105)
  render.rs      : Shader bound `Output = Vertex<ProjVec4, Var>` (85-94), render (96-108)
-/
import Retro.Basic

namespace Retro.TypeAlg

/-! ### Tags -/

/-- Basis tags.  `unit` is Rust's `()` (the default `Basis` parameter); `named i` is a user tag
type (`B1`, `B2`, … in the generated programs; `Model`, `World`, `View` … in the crate). -/
inductive Basis where
  | unit
  | named (i : Nat)
  deriving DecidableEq, Repr, Inhabited

/-- Tag types: the second type parameter of `Vector`, `Point`, `Color` (a *space*) and of `Matrix`
(a *map*).  Rust puts no bound on these parameters (`Vector::to::<S>()`, `Matrix::to::<M>()` accept
any type), so spaces and maps are one family here; which tags are maps is the `LinearMap` impls. -/
inductive Tag where
  | real (n : Nat) (b : Basis)   -- space.rs:73  `Real<const DIM, Basis>`
  | proj4                        -- space.rs:80
  | polar                        -- angle.rs:29
  | spherical                    -- angle.rs:33
  | rgb | rgba | linRgb | hsl | hsla   -- color.rs:30-46
  | unit                         -- `()`, the default `Space` of `Vector`/`Point` and `Map` of `Mat4x4`
  | r2r (n : Nat) (s d : Basis)  -- mat.rs:45  `RealToReal<DIM, SrcBasis, DstBasis>`
  | r2p (s : Basis)              -- mat.rs:51  `RealToProj<SrcBasis>`
  deriving DecidableEq, Repr, Inhabited

abbrev Space := Tag
abbrev Map := Tag

/-- `impl LinearMap` (mat.rs:413-436): `<m as LinearMap>::Source`, `none` if `m: LinearMap` does not hold. -/
def Tag.source? : Tag → Option Tag
  | .r2r n s _ => some (.real n s)
  | .r2p s => some (.real 3 s)
  | .unit => some .unit
  | _ => none

/-- `<m as LinearMap>::Dest`. -/
def Tag.dest? : Tag → Option Tag
  | .r2r n _ d => some (.real n d)
  | .r2p _ => some .proj4
  | .unit => some .unit
  | _ => none

/-- `impl Compose<Inner> for Outer` (mat.rs:418-432): exactly two impls exist.
`composeMap outer inner = <outer as Compose<inner>>::Result`. -/
def composeMap : Tag → Tag → Option Tag
  -- impl<DIM,S,I,D> Compose<RealToReal<DIM,S,I>> for RealToReal<DIM,I,D> { Result = RealToReal<DIM,S,D> }
  | .r2r n i d, .r2r n' s i' => if n = n' ∧ i = i' then some (.r2r n s d) else none
  -- impl<S,I> Compose<RealToReal<3,S,I>> for RealToProj<I> { Result = RealToProj<S> }
  | .r2p i, .r2r n' s i' => if n' = 3 ∧ i = i' then some (.r2p s) else none
  | _, _ => none

/-- Scalar (component) types. -/
inductive Sc where
  | f32 | i32 | u32 | u8
  deriving DecidableEq, Repr, Inhabited

/-! ### Types -/

inductive Ty where
  | sc (s : Sc)
  | angle                                  -- angle.rs:25  `pub struct Angle(f32)` (field private)
  | vec (s : Sc) (n : Nat) (sp : Space)    -- `Vector<[s; n], sp>`
  | pt (s : Sc) (n : Nat) (sp : Space)     -- `Point<[s; n], sp>`
  | col (s : Sc) (n : Nat) (sp : Space)    -- `Color<[s; n], sp>`
  | mat (n : Nat) (m : Map)                -- `Matrix<[[f32; n]; n], m>`
  | pair (a b : Ty)                        -- `(a, b)`
  | arr (s : Sc) (n : Nat)                 -- `[s; n]`      (public `.0` of Vector/Point/Color)
  | arr2 (n : Nat)                         -- `[[f32; n]; n]` (public `.0` of Matrix)
  | unit                                   -- `()`
  deriving DecidableEq, Repr, Inhabited

abbrev f32 : Ty := .sc .f32
abbrev projVec4 : Ty := .vec .f32 4 .proj4

/-! ### Trait impls: `Affine`, `Linear`, `Lerp` -/

/-- `<s as Affine>::Diff` for scalars (space.rs:82, 109, 136; `u8` has no impl). -/
def scAffineDiff : Sc → Option Sc
  | .f32 => some .f32
  | .i32 => some .i32
  | .u32 => some .i32
  | .u8 => none

/-- `s: Linear<Scalar = s>` (space.rs:95, 122). -/
def scLinear : Sc → Bool
  | .f32 | .i32 => true
  | _ => false

/-- `<T as Affine>::Diff`, `none` when `T: Affine` does not hold. -/
def affineDiff : Ty → Option Ty
  | .sc s => (scAffineDiff s).map .sc
  | .angle => some .angle                                   -- angle.rs:441
  -- vec.rs:344  where Sc: Affine<Diff: Linear<Scalar = Sc::Diff> + Copy>;  Diff = Vector<[Sc::Diff; DIM], Sp>
  | .vec s n sp =>
    match scAffineDiff s with
    | some d => if scLinear d then some (.vec d n sp) else none
    | none => none
  -- point.rs:157  where Sc: Linear<Scalar = Sc> + Copy;  Diff = Vector<[Sc; N], Sp>
  | .pt s n sp => if scLinear s then some (.vec s n sp) else none
  -- color.rs:484  Color<[u8; DIM], Sp>: Diff = Vector<[i32; DIM], Sp>
  | .col .u8 n sp => some (.vec .i32 n sp)
  -- color.rs:503  Color<[f32; DIM], Sp>: Diff = Self
  | .col .f32 n sp => some (.col .f32 n sp)
  | _ => none

/-- `<T as Linear>::Scalar`, `none` when `T: Linear` does not hold. -/
def linearScalar : Ty → Option Ty
  | .sc s => if scLinear s then some (.sc s) else none
  | .angle => some f32                                       -- angle.rs:456
  | .vec s _ _ => if scLinear s then some (.sc s) else none  -- vec.rs:366
  | .col .f32 _ _ => some f32                                -- color.rs:519
  | _ => none

/-- `T: Lerp` (math.rs:59-109): the blanket impl `T: Affine<Diff: Linear<Scalar = f32>>`,
`()`, and pairs of `Lerp` types. -/
def lerpable : Ty → Bool
  | .unit => true
  | .pair a b => lerpable a && lerpable b
  | t => (affineDiff t).bind linearScalar == some f32

/-- `<T as Vary>::Diff` (space.rs:155-178: the blanket impl for `Clone + Affine<Diff: Linear<Scalar = f32> +
Clone> + ZDiv`, every such type with `f32` components is `ZDiv`; vary.rs:71-100: `()` and pairs). -/
def varyDiff : Ty → Option Ty
  | .unit => some .unit
  | .pair a b =>
    match varyDiff a, varyDiff b with
    | some da, some db => some (.pair da db)
    | _, _ => none
  | t => if lerpable t then affineDiff t else none

/-! ### The expression language: one constructor per public API entry -/

inductive Op1 where
  | neg          -- `-a`
  | mNeg         -- `a.neg()`            Linear::neg
  | to (t : Tag)       -- `a.to::<T>()`  Vector::to / Point::to / Matrix::to (any type `T`)
  | toPt         -- `a.to_pt()`
  | toVec        -- `a.to_vec()`
  | len          -- `a.len()`
  | normalize    -- `a.normalize()`
  | inverse | transpose | determinant
  | rowVec | colVec          -- `a.row_vec(0)`, `a.col_vec(0)`
  | degs | rads | turns | asin | acos   -- free fns f32 → Angle
  | sin | cos | tan | sinCos            -- methods
  | toRads | toDegs | toTurns
  | angleCtor    -- `Angle(a)`      (tuple-struct constructor; field is private)
  | field0       -- `a.0`
  | angleFrom    -- `Angle::from(a)`
  | rotateX | rotateY | rotateZ
  | translate | scale
  | toCart | toPolar | toSpherical | az
  | toRgb | toRgba | toHsl | toHsla | toLinear | toSrgb | toColor3 | toColor4
  | chanR | chanH     -- `a.r()`, `a.h()`   colour channel accessors (per colour space); `r()` is also the radius of a PolarVec
  | compZ             -- `a.z()`            component accessor (per space)
  | render       -- `render(.., &Shader::new(|_, _| vertex(a, ()), ..), ..)`
  deriving DecidableEq, Repr, Inhabited

inductive Op2 where
  | add | sub | mul | div        -- operators
  | mAdd | mSub | mMul           -- `a.add(&b)`, `a.sub(&b)`, `a.mul(b)`
  | addAssign | subAssign | mulAssign | divAssign   -- `{ let mut t = a; t += b; t }` …
  | dot | cross | distance | vproj   -- vproj: `a.vector_project(&b)`
  | sproj | distanceSqr          -- `a.scalar_project(&b)`, `a.distance_sqr(&b)`
  | rem                          -- `a % b`
  | orientY | orientZ            -- `orient_y(a, b)`, `orient_z(a, b)`
  | min                          -- `a.min(b)`
  | apply | applyPt | compose | thn
  | polar | atan2
  | pairOf                       -- `(a, b)`
  deriving DecidableEq, Repr, Inhabited

inductive Op3 where
  | lerp                         -- `a.lerp(&b, t)`
  | clamp                        -- `a.clamp(&b, &c)`    Vector::clamp / Point::clamp
  | dvdt                         -- `a.dv_dt(&b, t)`     Vary::dv_dt
  | spherical                    -- `spherical(r, az, alt)`
  deriving DecidableEq, Repr, Inhabited

inductive Expr where
  | var (i : Nat)
  | un (o : Op1) (a : Expr)
  | bin (o : Op2) (a b : Expr)
  | ter (o : Op3) (a b c : Expr)
  deriving DecidableEq, Repr, Inhabited

abbrev Ctx := List Ty

/-! ### Typing of each operator: transcription of the impl headers -/

/-- `impl Add<Rhs> for X` — result type. -/
def tyAdd (x y : Ty) : Option Ty :=
  match x with
  | .sc _ => if y = x then some x else none            -- core: f32+f32, i32+i32, …
  | .angle => if y = .angle then some .angle else none -- angle.rs:499
  -- vec.rs:540  impl Add<<Self as Affine>::Diff> for Vector<R,Sp> where Self: Affine { Output = Self }
  -- point.rs:247 impl Add<<Self as Affine>::Diff> for Point<R,Sp> where Self: Affine { Output = Self }
  | .vec .. | .pt .. =>
    match affineDiff x with
    | some d => if y = d then some x else none
    | none => none
  | _ => none                                          -- no Add for Color, Matrix

def tySub (x y : Ty) : Option Ty :=
  match x with
  | .sc _ => if y = x then some x else none
  | .angle => if y = .angle then some .angle else none
  -- vec.rs:554  impl Sub<<Self as Affine>::Diff> for Vector { Output = Self }
  | .vec .. =>
    match affineDiff x with
    | some d => if y = d then some x else none
    | none => none
  -- point.rs:267 impl Sub<<Self as Affine>::Diff> for Point { Output = Self }
  -- point.rs:287 impl Sub for Point { Output = <Self as Affine>::Diff }
  | .pt .. =>
    match affineDiff x with
    | some d => if y = d then some x else if y = x then some d else none
    | none => none
  | _ => none

def tyMul (x y : Ty) : Option Ty :=
  match x with
  | .sc s =>
    if y = x then some x                                -- core
    else match y with
      -- vec.rs:597-628  impl Mul<Vector<R,Sp>> for f32/i32/u32 where Vector<R,Sp>: Linear<Scalar = f32/i32/u32>
      | .vec .. => if s ≠ .u8 ∧ linearScalar y = some x then some y else none
      | _ => none
  | .angle => if y = f32 then some .angle else none     -- angle.rs:518
  -- vec.rs:567  impl Mul<<Self as Linear>::Scalar> for Vector where Self: Linear
  | .vec .. =>
    match linearScalar x with
    | some k => if y = k then some x else none
    | none => none
  | _ => none

def tyDiv (x y : Ty) : Option Ty :=
  match x with
  | .sc _ => if y = x then some x else none
  | .angle => if y = f32 then some .angle else none     -- angle.rs:524
  -- vec.rs:582  impl Div<f32> for Vector where Self: Linear<Scalar = f32>
  | .vec .. => if linearScalar x = some f32 ∧ y = f32 then some x else none
  | _ => none

def tyNeg (x : Ty) : Option Ty :=
  match x with
  | .sc .f32 | .sc .i32 => some x                       -- core
  | .angle => some x                                    -- angle.rs:511
  | .vec .. => if (linearScalar x).isSome then some x else none   -- vec.rs:585 where Self: Linear
  | _ => none

/-- Colour conversions (color.rs:101-393): `(conversion, source) ↦ target`, exactly the inherent
impl blocks that exist. -/
def tyColour (o : Op1) (s : Sc) (n : Nat) (sp : Space) : Option Ty :=
  match o, s, n, sp with
  | .toRgba, .u8, 3, .rgb => some (.col .u8 4 .rgba)        -- Color3<Rgb>::to_rgba
  | .toHsl, .u8, 3, .rgb => some (.col .u8 3 .hsl)          -- Color3<Rgb>::to_hsl
  | .toRgb, .u8, 4, .rgba => some (.col .u8 3 .rgb)         -- Color4<Rgba>::to_rgb
  | .toHsla, .u8, 4, .rgba => some (.col .u8 4 .hsla)       -- Color4<Rgba>::to_hsla
  | .toRgba, .f32, 3, .rgb => some (.col .f32 4 .rgba)      -- Color3f<Rgb>::to_rgba
  | .toColor3, .f32, 3, .rgb => some (.col .u8 3 .rgb)
  | .toColor4, .f32, 3, .rgb => some (.col .u8 4 .rgba)
  | .toLinear, .f32, 3, .rgb => some (.col .f32 3 .linRgb)
  | .toHsl, .f32, 3, .rgb => some (.col .f32 3 .hsl)
  | .toRgb, .f32, 4, .rgba => some (.col .f32 3 .rgb)       -- Color4f<Rgba>
  | .toColor3, .f32, 4, .rgba => some (.col .u8 3 .rgb)
  | .toColor4, .f32, 4, .rgba => some (.col .u8 4 .rgba)
  | .toHsla, .f32, 4, .rgba => some (.col .f32 4 .hsla)
  | .toSrgb, .f32, 3, .linRgb => some (.col .f32 3 .rgb)    -- Color3f<LinRgb>::to_srgb
  | .toRgb, .u8, 3, .hsl => some (.col .u8 3 .rgb)          -- Color3<Hsl>::to_rgb
  | .toRgb, .f32, 3, .hsl => some (.col .f32 3 .rgb)        -- Color3f<Hsl>::to_rgb
  | .toHsl, .u8, 4, .hsla => some (.col .u8 3 .hsl)         -- Color4<Hsla>
  | .toRgba, .u8, 4, .hsla => some (.col .u8 4 .rgba)
  | .toHsl, .f32, 4, .hsla => some (.col .f32 3 .hsl)       -- Color4f<Hsla>
  | .toRgba, .f32, 4, .hsla => some (.col .f32 4 .rgba)
  | _, _, _, _ => none

def ty1 (o : Op1) (x : Ty) : Option Ty :=
  match o with
  | .neg => tyNeg x
  | .mNeg => if (linearScalar x).isSome then some x else none   -- Linear::neg(&self) -> Self
  | .to t =>                    -- vec.rs:103, point.rs:39, mat.rs:79: any target type
    match x with
    | .vec sc n _ => some (.vec sc n t)
    | .pt sc n _ => some (.pt sc n t)
    | .mat n _ => some (.mat n t)
    | _ => none                 -- Color has no `to`
  | .toPt => match x with | .vec sc n sp => some (.pt sc n sp) | _ => none    -- vec.rs:110
  | .toVec => match x with | .pt sc n sp => some (.vec sc n sp) | _ => none   -- point.rs:46
  | .len => match x with | .vec .f32 _ _ => some f32 | _ => none               -- vec.rs:116-120
  | .normalize => match x with | .vec .f32 _ _ => some x | _ => none           -- vec.rs:140
  -- mat.rs:300  impl<Src,Dst> Mat4x4<RealToReal<3,Src,Dst>> { fn inverse(&self) -> Mat4x4<RealToReal<3,Dst,Src>> }
  | .inverse => match x with | .mat 4 (.r2r 3 s d) => some (.mat 4 (.r2r 3 d s)) | _ => none
  -- mat.rs:113-117  impl Matrix<[[Sc;N];N], RealToReal<DIM,S,D>> { fn transpose(self) -> …RealToReal<DIM,D,S> }
  -- mat.rs:118    const { assert!(N >= DIM, "map dimension >= matrix dimension") }  (post-monomorphisation error)
  | .transpose =>
    match x with
    | .mat n (.r2r k s d) => if k ≤ n then some (.mat n (.r2r k d s)) else none
    | _ => none
  | .determinant => match x with | .mat 4 (.r2r 3 _ _) => some f32 | _ => none   -- mat.rs:266
  -- mat.rs:92-112  where Map: LinearMap: row_vec -> Vector<[Sc;N], Map::Source>, col_vec -> Vector<[Sc;M], Map::Dest>
  | .rowVec => match x with | .mat n m => m.source?.map (.vec .f32 n) | _ => none
  | .colVec => match x with | .mat n m => m.dest?.map (.vec .f32 n) | _ => none
  -- angle.rs:47-97  rads/degs/turns/asin/acos (a: f32) -> Angle
  | .degs | .rads | .turns | .asin | .acos => if x = f32 then some .angle else none
  -- angle.rs:213-248 Angle::sin/cos/tan(self) -> f32;  std: f32::sin/cos/tan(self) -> f32
  | .sin | .cos | .tan => if x = .angle ∨ x = f32 then some f32 else none
  | .sinCos => if x = .angle ∨ x = f32 then some (.pair f32 f32) else none
  | .toRads | .toDegs | .toTurns => if x = .angle then some f32 else none   -- angle.rs:154-175
  | .angleCtor => none                                   -- angle.rs:25: constructor not visible
  | .field0 =>
    match x with
    | .angle => none                                     -- angle.rs:25: field private
    | .vec s n _ | .pt s n _ | .col s n _ => some (.arr s n)   -- `pub Repr`
    | .mat n _ => some (.arr2 n)
    | .pair a _ => some a
    | _ => none
  | .angleFrom => if x = .angle then some .angle else none     -- only core's reflexive From<T> for T
  -- mat.rs:555-590  rotate_x/y/z(a: Angle) -> Mat4x4<RealToReal<3>>
  | .rotateX | .rotateY | .rotateZ => if x = .angle then some (.mat 4 (.r2r 3 .unit .unit)) else none
  -- mat.rs:498-518  scale/translate(v: Vec3) -> Mat4x4<RealToReal<3>>
  | .translate | .scale => if x = .vec .f32 3 (.real 3 .unit) then some (.mat 4 (.r2r 3 .unit .unit)) else none
  -- angle.rs:304, 332  PolarVec::to_cart -> Vec2, SphericalVec::to_cart -> Vec3
  | .toCart =>
    match x with
    | .vec .f32 2 .polar => some (.vec .f32 2 (.real 2 .unit))
    | .vec .f32 3 .spherical => some (.vec .f32 3 (.real 3 .unit))
    | _ => none
  | .toPolar => if x = .vec .f32 2 (.real 2 .unit) then some (.vec .f32 2 .polar) else none       -- angle.rs:379
  | .toSpherical => if x = .vec .f32 3 (.real 3 .unit) then some (.vec .f32 3 .spherical) else none  -- angle.rs:418
  | .az =>
    match x with
    | .vec .f32 2 .polar | .vec .f32 3 .spherical => some .angle
    | _ => none
  | .toRgb | .toRgba | .toHsl | .toHsla | .toLinear | .toSrgb | .toColor3 | .toColor4 =>
    match x with
    | .col s n sp => tyColour o s n sp
    | _ => none
  -- color.rs:396-480  r()/g()/b() for Color<R, Rgb|Rgba>, h()/s()/l() for Color<R, Hsl|Hsla>
  -- … and angle.rs:269, 313  PolarVec::r(), SphericalVec::r() -> f32 (the same method name)
  | .chanR =>
    match x with
    | .col s _ sp => if sp = .rgb ∨ sp = .rgba then some (.sc s) else none
    | .vec .f32 2 .polar | .vec .f32 3 .spherical => some f32
    | _ => none
  | .chanH => match x with | .col s _ sp => if sp = .hsl ∨ sp = .hsla then some (.sc s) else none | _ => none
  -- vec.rs:254-272, 313-332, point.rs:131-150  z() for Vector<R, Real<3,B>>, Vector<R, Proj4>, Point<R, Real<3,B>>
  | .compZ =>
    match x with
    | .vec s _ (.real 3 _) | .vec s _ .proj4 | .pt s _ (.real 3 _) => some (.sc s)
    | _ => none
  -- render.rs:85-108  Shd: VertexShader<Vtx, Uni, Output = Vertex<ProjVec4, Var>>
  | .render => if x = projVec4 then some .unit else none

/-- The argument type a matrix's `apply` takes and the type it returns (mat.rs:199-250, 384-397). -/
def applySig : Ty → Option (Ty × Ty)
  | .mat 3 (.r2r 2 s d) => some (.vec .f32 2 (.real 2 s), .vec .f32 2 (.real 2 d))
  | .mat 4 (.r2r 3 s d) => some (.vec .f32 3 (.real 3 s), .vec .f32 3 (.real 3 d))
  | .mat 4 (.r2p s) => some (.pt .f32 3 (.real 3 s), projVec4)
  | _ => none

/-- Same for `apply_pt` (mat.rs:218, 244): no such method on projective matrices. -/
def applyPtSig : Ty → Option (Ty × Ty)
  | .mat 3 (.r2r 2 s d) => some (.pt .f32 2 (.real 2 s), .pt .f32 2 (.real 2 d))
  | .mat 4 (.r2r 3 s d) => some (.pt .f32 3 (.real 3 s), .pt .f32 3 (.real 3 d))
  | _ => none

/-- `outer.compose(&inner)` (mat.rs:158-185): same matrix size, `Outer: Compose<Inner>`. -/
def tyCompose (outer inner : Ty) : Option Ty :=
  match outer, inner with
  | .mat n mo, .mat n' mi =>
    if n = n' then (composeMap mo mi).map (.mat n) else none
  | _, _ => none

def ty2 (o : Op2) (x y : Ty) : Option Ty :=
  match o with
  | .add => tyAdd x y
  | .sub => tySub x y
  | .mul => tyMul x y
  | .div => tyDiv x y
  -- vec.rs:530, point.rs:258  impl AddAssign<<Self as Affine>::Diff> where Self: Affine;  core: f32 += f32 …
  -- vec.rs:543, point.rs:278  impl SubAssign<<Self as Affine>::Diff>             (Angle has no op-assign impls)
  | .addAssign | .subAssign =>
    match x with
    | .sc _ => if y = x then some x else none
    | .vec .. | .pt .. => match affineDiff x with | some d => if y = d then some x else none | none => none
    | _ => none
  -- vec.rs:557  impl MulAssign<<Self as Linear>::Scalar> for Vector where Self: Linear
  | .mulAssign =>
    match x with
    | .sc _ => if y = x then some x else none
    | .vec .. => match linearScalar x with | some k => if y = k then some x else none | none => none
    | _ => none
  -- vec.rs:570  impl DivAssign<f32> for Vector where Self: Linear<Scalar = f32>
  | .divAssign =>
    match x with
    | .sc _ => if y = x then some x else none
    | .vec .. => if linearScalar x = some f32 ∧ y = f32 then some x else none
    | _ => none
  -- space.rs:26  fn add(&self, diff: &Self::Diff) -> Self
  | .mAdd => match affineDiff x with | some d => if y = d then some x else none | none => none
  -- space.rs:31  fn sub(&self, other: &Self) -> Self::Diff
  | .mSub => match affineDiff x with | some d => if y = x then some d else none | none => none
  -- space.rs:66  fn mul(&self, scalar: Self::Scalar) -> Self
  | .mMul => match linearScalar x with | some k => if y = k then some x else none | none => none
  -- vec.rs:172-195  where Self: Linear<Scalar = Sc>, Sc: Linear<Scalar = Sc>;  dot(&self, other: &Self) -> Sc
  | .dot => match x with | .vec s _ _ => if scLinear s ∧ y = x then some (.sc s) else none | _ => none
  -- vec.rs:219  vector_project(&self, other: &Self) -> Self where Sc: Div<Sc, Output = Sc>
  | .vproj => match x with | .vec s _ _ => if scLinear s ∧ y = x then some x else none | _ => none
  -- vec.rs:199  scalar_project(&self, other: &Self) -> Sc where Sc: Div<Sc, Output = Sc>
  | .sproj => match x with | .vec s _ _ => if scLinear s ∧ y = x then some (.sc s) else none | _ => none
  -- point.rs:91  impl<const N, B> Point<[f32; N], Real<N, B>> { distance_sqr(&self, other: &Self) -> f32 }
  | .distanceSqr =>
    match x with
    | .pt .f32 n (.real n' _) => if n = n' ∧ y = x then some f32 else none
    | _ => none
  -- angle.rs:530  impl Rem for Angle;  core: f32 % f32, i32 % i32, …
  | .rem =>
    match x with
    | .sc _ => if y = x then some x else none
    | .angle => if y = .angle then some .angle else none
    | _ => none
  -- mat.rs:526, 536  orient_y(new_y: Vec3, x: Vec3), orient_z(new_z: Vec3, x: Vec3) -> Mat4x4<RealToReal<3>>
  | .orientY | .orientZ =>
    if x = .vec .f32 3 (.real 3 .unit) ∧ y = x then some (.mat 4 (.r2r 3 .unit .unit)) else none
  -- angle.rs:178  Angle::min(self, other: Self) -> Self;  core: f32::min, Ord::min for the integers
  | .min =>
    match x with
    | .sc _ => if y = x then some x else none
    | .angle => if y = .angle then some .angle else none
    | _ => none
  -- vec.rs:254-310  impl Vector<R, Real<3,B>> … cross(&self, other: &Self) -> Self where [Sc;3]: Into<Self>
  | .cross =>
    match x with
    | .vec s 3 (.real 3 _) => if scLinear s ∧ y = x then some x else none
    | _ => none
  -- point.rs:61-76  impl<const N, B> Point<[f32; N], Real<N, B>> { distance(&self, other: &Self) -> f32 }
  | .distance =>
    match x with
    | .pt .f32 n (.real n' _) => if n = n' ∧ y = x then some f32 else none
    | _ => none
  | .apply => match applySig x with | some (arg, res) => if y = arg then some res else none | none => none
  | .applyPt => match applyPtSig x with | some (arg, res) => if y = arg then some res else none | none => none
  | .compose => tyCompose x y
  | .thn => tyCompose y x            -- mat.rs:191  then(&self, other: &Matrix<_, Outer>) where Outer: Compose<Map>
  | .polar => if x = f32 ∧ y = .angle then some (.vec .f32 2 .polar) else none   -- angle.rs:117
  | .atan2 => if x = f32 ∧ y = f32 then some .angle else none                    -- angle.rs:112
  | .pairOf => some (.pair x y)

def ty3 (o : Op3) (x y z : Ty) : Option Ty :=
  match o with
  -- math.rs:56  fn lerp(&self, other: &Self, t: f32) -> Self
  | .lerp => if lerpable x ∧ y = x ∧ z = f32 then some x else none
  -- vec.rs:167   impl Vector<[f32; N], Sp> { clamp(&self, min: &Self, max: &Self) -> Self }
  -- point.rs:109 impl Point<[f32; N], Real<N, B>> { clamp(&self, min: &Self, max: &Self) -> Self }
  | .clamp =>
    match x with
    | .vec .f32 _ _ => if y = x ∧ z = x then some x else none
    | .pt .f32 n (.real n' _) => if n = n' ∧ y = x ∧ z = x then some x else none
    | _ => none
  -- vary.rs:57  fn dv_dt(&self, other: &Self, recip_dt: f32) -> Self::Diff
  | .dvdt => match varyDiff x with | some d => if y = x ∧ z = f32 then some d else none | none => none
  -- angle.rs:125  spherical(r: f32, az: Angle, alt: Angle) -> SphericalVec
  | .spherical => if x = f32 ∧ y = .angle ∧ z = .angle then some (.vec .f32 3 .spherical) else none

/-- Bottom-up type assignment; `none` = the program is not accepted by the crate's API. -/
def infer (Γ : Ctx) : Expr → Option Ty
  | .var i => Γ[i]?
  | .un o a =>
    match infer Γ a with
    | some x => ty1 o x
    | none => none
  | .bin o a b =>
    match infer Γ a, infer Γ b with
    | some x, some y => ty2 o x y
    | _, _ => none
  | .ter o a b c =>
    match infer Γ a, infer Γ b, infer Γ c with
    | some x, some y, some z => ty3 o x y z
    | _, _, _ => none

/-! ### Misuse classes of the property, defined on the tags only -/

inductive Misuse where
  | mixSpace          -- add/sub/lerp/dot/… of operands tagged with different spaces or bases
  | mixDim            -- … of different dimension
  | addPoints         -- point + point
  | applySource       -- transform applied to an operand outside its source space
  | composeMismatch   -- inner destination ≠ outer source (also: composed in the wrong order)
  | projAsAffine      -- projective transform inverted / transposed / re-applied / composed-after as if affine
  | angleUnit         -- bare number where an `Angle` is required (or vice versa), access to Angle's raw field
  | colourSpace       -- colour conversion applied to a colour of the wrong space
  | shaderOutput      -- vertex shader output position not in projective clip space
  deriving DecidableEq, Repr, Inhabited

def Misuse.name : Misuse → String
  | .mixSpace => "mix-space"
  | .mixDim => "mix-dim"
  | .addPoints => "add-points"
  | .applySource => "apply-outside-source"
  | .composeMismatch => "compose-mismatch"
  | .projAsAffine => "projective-as-affine"
  | .angleUnit => "angle-unit"
  | .colourSpace => "colour-space"
  | .shaderOutput => "shader-output-space"

/-- The space tag of a tagged value. -/
def Ty.space? : Ty → Option Space
  | .vec _ _ sp | .pt _ _ sp | .col _ _ sp => some sp
  | _ => none

/-- The number of components of a tagged value. -/
def Ty.dim? : Ty → Option Nat
  | .vec _ n _ | .pt _ n _ | .col _ n _ => some n
  | _ => none

def Ty.isPt : Ty → Bool
  | .pt .. => true
  | _ => false

def Ty.isScalar : Ty → Bool
  | .sc _ => true
  | _ => false

def Ty.isAngle : Ty → Bool
  | .angle => true
  | _ => false

/-- Two space tags that differ: only in the dimension of a real space, or otherwise. -/
def spaceClash (a b : Space) : Option Misuse :=
  if a = b then none
  else match a, b with
    | .real n s, .real n' s' => if s = s' ∧ n ≠ n' then some .mixDim else some .mixSpace
    | _, _ => some .mixSpace

/-- Misuse of a pair of tagged operands that are combined component-wise. -/
def tagClash0 (x y : Ty) : Option Misuse :=
  match x.space?, y.space?, x.dim?, y.dim? with
  | some sx, some sy, some nx, some ny =>
    match spaceClash sx sy with
    | some m => some m
    | none => if nx ≠ ny then some .mixDim else none
  | _, _, _, _ => none

/-- The same, looking inside tuples (tuples are combined component-wise by `Lerp`). -/
def tagClash : Ty → Ty → Option Misuse
  | .pair a b, .pair c d =>
    match tagClash a c with
    | some m => some m
    | none => tagClash b d
  | x, y => tagClash0 x y

/-- An angle combined additively with a bare number. -/
def unitClash (x y : Ty) : Option Misuse :=
  if (x.isAngle && y.isScalar) || (x.isScalar && y.isAngle) then some .angleUnit else none

/-- Operators that combine their two operands component-wise. -/
def Op2.additive : Op2 → Bool
  | .add | .sub | .mAdd | .mSub | .addAssign | .subAssign | .dot | .cross | .distance | .vproj
  | .sproj | .distanceSqr | .orientY | .orientZ => true
  | _ => false

def mis1 (o : Op1) (x : Ty) : Option Misuse :=
  match o with
  | .inverse | .determinant =>
    match x with
    | .mat _ (.r2p _) => some .projAsAffine
    | _ => none
  | .transpose =>
    match x with
    | .mat _ (.r2p _) => some .projAsAffine
    -- an n×n array cannot hold a map of a space of more than n dimensions
    | .mat n (.r2r k _ _) => if n < k then some .mixDim else none
    | _ => none
  | .degs | .rads | .turns | .asin | .acos => if x.isAngle then some .angleUnit else none
  | .toRads | .toDegs | .toTurns => if x.isScalar then some .angleUnit else none
  | .rotateX | .rotateY | .rotateZ => if x.isScalar then some .angleUnit else none
  | .angleCtor => if x.isScalar then some .angleUnit else none
  | .angleFrom => if x.isScalar then some .angleUnit else none
  | .field0 => if x.isAngle then some .angleUnit else none
  | .toRgb => match x with | .col _ _ sp => if sp = .rgba ∨ sp = .hsl then none else some .colourSpace | _ => none
  | .toRgba => match x with | .col _ _ sp => if sp = .rgb ∨ sp = .hsla then none else some .colourSpace | _ => none
  | .toHsl => match x with | .col _ _ sp => if sp = .rgb ∨ sp = .hsla then none else some .colourSpace | _ => none
  | .toHsla => match x with | .col _ _ sp => if sp = .rgba then none else some .colourSpace | _ => none
  | .toLinear => match x with | .col _ _ sp => if sp = .rgb then none else some .colourSpace | _ => none
  | .toSrgb => match x with | .col _ _ sp => if sp = .linRgb then none else some .colourSpace | _ => none
  | .toColor3 | .toColor4 =>
    match x with | .col _ _ sp => if sp = .rgb ∨ sp = .rgba then none else some .colourSpace | _ => none
  | .chanR => match x with | .col _ _ sp => if sp = .rgb ∨ sp = .rgba then none else some .colourSpace | _ => none
  | .chanH => match x with | .col _ _ sp => if sp = .hsl ∨ sp = .hsla then none else some .colourSpace | _ => none
  | .compZ =>
    match x with
    | .vec _ _ (.real n _) | .pt _ _ (.real n _) => if n < 3 then some .mixDim else none
    | _ => none
  | .render =>
    match x.space?, x.dim? with
    | some sp, some n => if sp = .proj4 ∧ n = 4 then none else some .shaderOutput
    | _, _ => none
  | _ => none

/-- Misuse of `m.apply(&v)` / `m.apply_pt(&v)`, `isPtCall` = the latter. -/
def misApply (isPtCall : Bool) (m v : Ty) : Option Misuse :=
  match m, v.space?, v.dim? with
  | .mat _ (.r2r k s _), some sp, some n =>
    match spaceClash sp (.real k s) with
    | some .mixDim => some .mixDim
    | some _ => some .applySource
    | none => if n ≠ k then some .mixDim else none
  | .mat _ (.r2p s), some sp, some n =>
    if sp ≠ .real 3 s then some .applySource
    else if n ≠ 3 then some .mixDim
    else if isPtCall || !v.isPt then some .projAsAffine
    else none
  | _, _, _ => none

/-- Misuse of composing `outer ∘ inner`. -/
def misCompose (outer inner : Ty) : Option Misuse :=
  match outer, inner with
  | .mat n mo, .mat n' mi =>
    match mi with
    | .r2p _ => some .projAsAffine
    | _ =>
      match mo.source?, mi.dest? with
      | some src, some dst =>
        if src ≠ dst then some .composeMismatch
        else if n ≠ n' then some .mixDim
        else none
      | _, _ => none
  | _, _ => none

def mis2 (o : Op2) (x y : Ty) : Option Misuse :=
  match o with
  | .apply => misApply false x y
  | .applyPt => misApply true x y
  | .compose => misCompose x y
  | .thn => misCompose y x
  | .polar => if x.isAngle || y.isScalar then some .angleUnit else none
  | .atan2 => if x.isAngle || y.isAngle then some .angleUnit else none
  | .mul | .div | .mMul | .mulAssign | .divAssign | .pairOf => none
  | .min | .rem => unitClash x y
  | _ =>
    -- the additive family
    if (o = .add ∨ o = .mAdd ∨ o = .addAssign) ∧ x.isPt ∧ y.isPt then some .addPoints
    else match tagClash x y with
      | some m => some m
      | none =>
        if o = .add ∨ o = .sub ∨ o = .mAdd ∨ o = .mSub ∨ o = .addAssign ∨ o = .subAssign then unitClash x y
        else none

def mis3 (o : Op3) (x y z : Ty) : Option Misuse :=
  match o with
  | .lerp =>
    match tagClash x y with
    | some m => some m
    | none =>
      match unitClash x y with
      | some m => some m
      | none => if z.isAngle then some .angleUnit else none
  | .clamp =>
    match tagClash x y with
    | some m => some m
    | none => tagClash x z
  | .dvdt =>
    match tagClash x y with
    | some m => some m
    | none =>
      match unitClash x y with
      | some m => some m
      | none => if z.isAngle then some .angleUnit else none
  | .spherical => if x.isAngle || y.isScalar || z.isScalar then some .angleUnit else none

/-- All misuses committed by sub-expressions of `e` whose operands are themselves well-typed
(children before parents, left to right). -/
def misuses (Γ : Ctx) : Expr → List Misuse
  | .var _ => []
  | .un o a =>
    misuses Γ a ++
      (match infer Γ a with
       | some x => (mis1 o x).toList
       | none => [])
  | .bin o a b =>
    misuses Γ a ++ misuses Γ b ++
      (match infer Γ a, infer Γ b with
       | some x, some y => (mis2 o x y).toList
       | _, _ => [])
  | .ter o a b c =>
    misuses Γ a ++ misuses Γ b ++ misuses Γ c ++
      (match infer Γ a, infer Γ b, infer Γ c with
       | some x, some y, some z => (mis3 o x y z).toList
       | _, _, _ => [])

/-- The model's verdict on a program. -/
inductive Judgement where
  | accept (t : Ty)
  | misuse (m : Misuse)     -- rejected, and a sub-expression commits a misuse named by the property
  | other                   -- rejected because no such operation exists (not a tag question)
  deriving DecidableEq, Repr, Inhabited

def classify (Γ : Ctx) (e : Expr) : Judgement :=
  match infer Γ e with
  | some t => .accept t
  | none =>
    match misuses Γ e with
    | m :: _ => .misuse m
    | [] => .other

def Expr.depth : Expr → Nat
  | .var _ => 1
  | .un _ a => a.depth + 1
  | .bin _ a b => max a.depth b.depth + 1
  | .ter _ a b c => max a.depth (max b.depth c.depth) + 1

end Retro.TypeAlg
