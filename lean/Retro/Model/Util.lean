/-
U01 — library utilities that no listed property names (part 1: vectors, points, scalars).

Executable model of
  * `core/src/math/vec.rs`    `splat`, `zero`, `neg`, `mul`, `add`, `sub`, the `-` operator, `dot`,
                              `len_sqr`, `scalar_project`, `vector_project`, `clamp`, `Sum`, `Default`,
                              `PartialEq`, `Index`, `i32 * Vector`
  * `core/src/math/point.rs`  `distance`, `distance_sqr`, `clamp`, `+=`, `-=`, `Point - Point`
  * `core/src/math/space.rs`  `Affine`/`Linear` for `i32`, `u32` (debug-profile overflow panics), `f32`
  * `core/src/math/approx.rs` `ApproxEq for f32` and its lifts to slices / arrays / vectors / points / `Option`

A vector / point of dimension `N` is a `List` of its `N` components (`[Sc; N]`); the cross product,
`normalize` and the matrices are the ones of `Retro.Model.Mat` (re-used, not copied).  Generic over the
scalar through core classes only, so that the same definitions run at `Rat` and at `XRat` (NaN, ±∞) in
the driver and unfold at any ordered field in `Retro/Props/U01`.  Rust panics are `Outcome.panic`.
-/
import Retro.Basic

namespace Retro.Util

/-! ### vec.rs / point.rs over a ring-like scalar -/

section Ring
variable {α : Type} [Add α] [Sub α] [Mul α] [Neg α] [OfNat α 0]

/-- vec.rs:80 `splat(s)`: `array::from_fn(|_| s.clone())`. -/
def splat (n : Nat) (s : α) : List α := List.replicate n s

/-- vec.rs:374 `Linear::zero()`: `[Sc::zero(); DIM]`; also `Default` for numeric arrays (vec.rs:422). -/
def vzero (n : Nat) : List α := List.replicate n 0

/-- vec.rs:356 / point.rs:166 `Affine::add`: `from_fn(|i| self.0[i].add(&other.0[i]))`. -/
def vadd (a b : List α) : List α := List.zipWith (· + ·) a b

/-- vec.rs:361 / point.rs:171 `Affine::sub`: `from_fn(|i| self.0[i].sub(&other.0[i]))`. -/
def vsub (a b : List α) : List α := List.zipWith (· - ·) a b

/-- vec.rs:378 `Linear::neg`: `self.map(|c| c.neg())`. -/
def vneg (a : List α) : List α := a.map (fun c => -c)

/-- vec.rs:382 `Linear::mul`: `self.map(|c| c.mul(scalar))`; also `f32 * v`, `i32 * v` (vec.rs:597-617:
`rhs * self`, i.e. the same `Linear::mul`). -/
def vmul (a : List α) (s : α) : List α := a.map (fun c => c * s)

/-- vec.rs:543-554 the `-` / `-=` operator on vectors and point.rs:267-285 `Point - Vector`, `-=`:
`Affine::add(&*self, &rhs.neg())` — NOT `Affine::sub`. -/
def vsubOp (a b : List α) : List α := vadd a (vneg b)

/-- vec.rs:188 `dot`: `zip.map(|(a, b)| a.mul(*b)).fold(Sc::zero(), |acc, x| acc.add(&x))`. -/
def dot (a b : List α) : α := (List.zipWith (· * ·) a b).foldl (· + ·) 0

/-- vec.rs:182 `len_sqr`: `self.dot(self)`. -/
def lenSqr (a : List α) : α := dot a a

/-- vec.rs:496-503 `Sum`: `iter.fold(Self::zero(), |acc, v| Affine::add(&acc, &v))`. -/
def vsum (n : Nat) (vs : List (List α)) : List α := vs.foldl vadd (vzero n)

/-- point.rs:91 `distance_sqr`: `self.sub(other).len_sqr()`. -/
def distanceSqr (p q : List α) : α := lenSqr (vsub p q)

/-- point.rs:74 `distance`: `self.sub(other).len()`, `len = sqrt(dot(self, self))` (vec.rs:120); the
square root is a parameter of the model (contract in the theorems: `0 ≤ sqrt x ∧ sqrt x * sqrt x = x`
for `0 ≤ x`). -/
def distance (sqrt : α → α) (p q : List α) : α := sqrt (distanceSqr p q)

end Ring

/-- vec.rs:430 / point.rs:226 `PartialEq`: `self.0 == other.0`. -/
def veq {α : Type} [BEq α] (a b : List α) : Bool := a == b

/-- vec.rs:473 `Index`: `assert!(i < Self::DIM)`, then `&self.0[i]`. (`Point`'s `Index`, point.rs:242,
indexes the array directly: the same panic-or-value behaviour.) -/
def index {α : Type} (a : List α) (i : Nat) : Outcome α :=
  match a[i]? with
  | some x => .ok x
  | none => .panic "index out of bounds"

/-! ### projections (vec.rs:199-224) -/

section Field
variable {α : Type} [Add α] [Mul α] [Div α] [OfNat α 0] [DecidableEq α]

/-- vec.rs:199 `scalar_project`: `self.dot(other) / other.dot(other)`.  For `f32` a zero divisor is not a
panic: in exact arithmetic `other·other = 0` forces `other = 0`, hence `self·other = 0` and the quotient
is `0.0 / 0.0 = NaN`: `none`. No value is ever computed from a division by zero. -/
def scalarProject (a b : List α) : Option α :=
  if dot b b = 0 then none else some (dot a b / dot b b)

/-- vec.rs:219 `vector_project`: `other.mul(self.scalar_project(other))`; `none` = every component NaN. -/
def vectorProject (a b : List α) : Option (List α) :=
  match scalarProject a b with
  | some s => some (b.map (fun c => c * s))
  | none => none

end Field

/-! ### `f32::clamp` component-wise (vec.rs:167, point.rs:109) -/

section Clamp
variable {α : Type} [LT α] [DecidableLT α] [LE α] [DecidableLE α]

/-- core `f32::clamp`: `assert!(min <= max, "min > max, or either was NaN")`, then
`if self < min { min } else if self > max { max } else { self }` (a NaN `self` passes through). -/
def clamp1 (x mn mx : α) : Outcome α :=
  if mn ≤ mx then .ok (if x < mn then mn else if mx < x then mx else x)
  else .panic "clamp: min > max, or either was NaN"

/-- vec.rs:167 `array::from_fn(|i| self[i].clamp(min[i], max[i]))`: components in index order, the first
failing assertion panics. -/
def vclamp : List α → List α → List α → Outcome (List α)
  | x :: xs, mn :: mns, mx :: mxs =>
    match clamp1 x mn mx with
    | .panic s => .panic s
    | .ok c =>
      match vclamp xs mns mxs with
      | .panic s => .panic s
      | .ok cs => .ok (c :: cs)
  | _, _, _ => .ok []

end Clamp

/-! ### approx.rs -/

section Approx
variable {α : Type} [Sub α] [Mul α] [Neg α] [OfNat α 0] [OfNat α 1]
  [LT α] [DecidableLT α] [LE α] [DecidableLE α]

/-- `f32::abs` -/
def absS (x : α) : α := if x < 0 then -x else x

/-- `f32::max(self, other)` (IEEE maxNum: a NaN operand is ignored). Over a total order this is the
ordinary maximum; the third branch is only reached when `a` is NaN. -/
def fmax (a b : α) : α := if a < b then b else if b ≤ a then a else b

/-- approx.rs:38-42 `approx_eq_eps`: `let diff = abs(self - other); diff <= *rel_eps * abs(*self).max(1.0)`.
Only the magnitude of `self` scales the tolerance. -/
def approxEqEps (a b eps : α) : Bool := decide (absS (a - b) ≤ eps * fmax (absS a) 1)

/-- approx.rs:53-57 slices (and arrays :63, vectors vec.rs:396, points point.rs:185):
`self.len() == other.len() && zip(self, other).all(|(s, o)| s.approx_eq_eps(o, rel_eps))`. -/
def approxEqList (a b : List α) (eps : α) : Bool :=
  a.length == b.length && (List.zip a b).all (fun p => approxEqEps p.1 p.2 eps)

/-- approx.rs:74-81 `Option<T>` -/
def approxEqOpt (a b : Option α) (eps : α) : Bool :=
  match a, b with
  | some s, some o => approxEqEps s o eps
  | some _, none => false
  | none, some _ => false
  | none, none => true

end Approx

/-! ### space.rs: `Affine` / `Linear` for the integer scalars (debug / overflow-checks profile) -/

def i32Min : Int := -2147483648
def i32Max : Int := 2147483647
def u32Max : Int := 4294967295

def inI32 (x : Int) : Bool := decide (i32Min ≤ x) && decide (x ≤ i32Max)
def inU32 (x : Int) : Bool := decide (0 ≤ x) && decide (x ≤ u32Max)

/-- result of an `i32` operation in the overflow-checks profile -/
def chkI32 (site : String) (x : Int) : Outcome Int := if inI32 x then .ok x else .panic site
def chkU32 (site : String) (x : Int) : Outcome Int := if inU32 x then .ok x else .panic site

/-- space.rs:114 `Affine for i32::add`: `self + rhs` -/
def i32Add (a b : Int) : Outcome Int := chkI32 "attempt to add with overflow" (a + b)
/-- space.rs:117 `Affine for i32::sub`: `self - rhs` -/
def i32Sub (a b : Int) : Outcome Int := chkI32 "attempt to subtract with overflow" (a - b)
/-- space.rs:128 `Linear for i32::neg`: `-self` -/
def i32Neg (a : Int) : Outcome Int := chkI32 "attempt to negate with overflow" (-a)
/-- space.rs:131 `Linear for i32::mul`: `self * rhs` -/
def i32Mul (a b : Int) : Outcome Int := chkI32 "attempt to multiply with overflow" (a * b)
/-- `i32 / i32` (used by `scalar_project` on integer vectors): truncating division; panics for a zero
divisor and for `i32::MIN / -1`. -/
def i32Div (a b : Int) : Outcome Int :=
  if b = 0 then .panic "attempt to divide by zero" else chkI32 "attempt to divide with overflow" (Int.tdiv a b)

/-- space.rs:141 `Affine for u32::add(&i32)`: `overflowing_add_signed` + `debug_assert!(!o)`. -/
def u32AddSigned (a d : Int) : Outcome Int := chkU32 "overflow adding i32 to u32" (a + d)
/-- space.rs:147 `Affine for u32::sub(&u32) -> i32`: `i64` difference + `debug_assert!(i32::try_from(diff).is_ok())`. -/
def u32Sub (a b : Int) : Outcome Int := chkI32 "overflow subtracting u32 from u32" (a - b)

/-- Component-wise lift of a binary scalar operation (`array::from_fn`, index order). -/
def zipO (f : Int → Int → Outcome Int) : List Int → List Int → Outcome (List Int)
  | a :: as, b :: bs =>
    match f a b with
    | .panic s => .panic s
    | .ok c =>
      match zipO f as bs with
      | .panic s => .panic s
      | .ok cs => .ok (c :: cs)
  | _, _ => .ok []

/-- Component-wise lift of a unary scalar operation (`self.map`). -/
def mapO (f : Int → Outcome Int) : List Int → Outcome (List Int)
  | a :: as =>
    match f a with
    | .panic s => .panic s
    | .ok c =>
      match mapO f as with
      | .panic s => .panic s
      | .ok cs => .ok (c :: cs)
  | [] => .ok []

/-- `Vec2i + Vec2i`, `Vec3i + Vec3i` (vec.rs:356 at `Sc = i32`) -/
def viAdd (a b : List Int) : Outcome (List Int) := zipO i32Add a b
/-- `Affine::sub` on integer vectors (vec.rs:361) -/
def viSub (a b : List Int) : Outcome (List Int) := zipO i32Sub a b
/-- `Linear::neg` (vec.rs:378) -/
def viNeg (a : List Int) : Outcome (List Int) := mapO i32Neg a
/-- `v * s`, `s * v` (vec.rs:382, 608) -/
def viMul (a : List Int) (s : Int) : Outcome (List Int) := mapO (fun c => i32Mul c s) a
/-- the `-` operator on integer vectors (vec.rs:549): `add(self, rhs.neg())`; the negation comes first. -/
def viSubOp (a b : List Int) : Outcome (List Int) :=
  match viNeg b with
  | .panic s => .panic s
  | .ok nb => viAdd a nb

/-- `Vec2u + Vec2i` (vec.rs:356 at `Sc = u32`, `Diff = i32`) -/
def vuAdd (a d : List Int) : Outcome (List Int) := zipO u32AddSigned a d
/-- `Affine::sub` on `u32` vectors: the difference is an `i32` vector -/
def vuSub (a b : List Int) : Outcome (List Int) := zipO u32Sub a b
/-- `Vec2u - Vec2i` (vec.rs:549): `add(self, rhs.neg())` -/
def vuSubOp (a d : List Int) : Outcome (List Int) :=
  match viNeg d with
  | .panic s => .panic s
  | .ok nd => vuAdd a nd

/-- vec.rs:188 `dot` at `Sc = i32`: every product and every partial sum is overflow-checked; the products
are formed lazily, one per fold step (`map` then `fold`). -/
def viDotFrom (acc : Int) : List Int → List Int → Outcome Int
  | a :: as, b :: bs =>
    match i32Mul a b with
    | .panic s => .panic s
    | .ok p =>
      match i32Add acc p with
      | .panic s => .panic s
      | .ok acc' => viDotFrom acc' as bs
  | _, _ => .ok acc

def viDot (a b : List Int) : Outcome Int := viDotFrom 0 a b

/-- vec.rs:199 `scalar_project` at `Sc = i32`: `self.dot(other) / other.dot(other)`. -/
def viScalarProject (a b : List Int) : Outcome Int :=
  match viDot a b with
  | .panic s => .panic s
  | .ok n =>
    match viDot b b with
    | .panic s => .panic s
    | .ok d => i32Div n d

/-- vec.rs:500 `Sum` at `Sc = i32` -/
def viSum (n : Nat) : List (List Int) → Outcome (List Int) :=
  let rec go (acc : List Int) : List (List Int) → Outcome (List Int)
    | [] => .ok acc
    | v :: vs =>
      match viAdd acc v with
      | .panic s => .panic s
      | .ok acc' => go acc' vs
  go (List.replicate n 0)

end Retro.Util
