/-
Extended rationals: the exact-arithmetic interpretation of an `f32` that may also be NaN or ±∞.
Used by drivers that must replay the *special-value* behaviour of the Rust code (comparisons
with NaN are false, `NaN as u32 = 0`, `∞ as u32 = u32::MAX`) through the same generic model
definitions the theorems are about. Finite values embed `Rat` exactly. Signed zero is not
modelled (`-0.0` is `0`).
-/
import Retro.Basic

namespace Retro

inductive XRat where
  | fin (q : Rat)
  | pinf
  | ninf
  | nan
  deriving DecidableEq, Inhabited

namespace XRat

def isNaN : XRat → Bool
  | nan => true
  | _ => false

def isFin : XRat → Bool
  | fin _ => true
  | _ => false

def toRat? : XRat → Option Rat
  | fin q => some q
  | _ => none

/-- IEEE addition on the extended line (`∞ + -∞ = NaN`). -/
def add : XRat → XRat → XRat
  | nan, _ => nan
  | _, nan => nan
  | fin a, fin b => fin (a + b)
  | pinf, ninf => nan
  | ninf, pinf => nan
  | pinf, _ => pinf
  | _, pinf => pinf
  | ninf, _ => ninf
  | _, ninf => ninf

def neg : XRat → XRat
  | fin a => fin (-a)
  | pinf => ninf
  | ninf => pinf
  | nan => nan

def sub (a b : XRat) : XRat := add a (neg b)

/-- sign of an extended value: -1, 0, 1 (NaN ↦ 0, never used for NaN). -/
def sgn : XRat → Int
  | fin a => if a < 0 then -1 else if a == 0 then 0 else 1
  | pinf => 1
  | ninf => -1
  | nan => 0

/-- IEEE multiplication (`∞ · 0 = NaN`). -/
def mul : XRat → XRat → XRat
  | nan, _ => nan
  | _, nan => nan
  | fin a, fin b => fin (a * b)
  | a, b =>
    let s := sgn a * sgn b
    if s == 0 then nan else if s < 0 then ninf else pinf

/-- Division; only finite / finite-nonzero is exact, `x/0` follows IEEE for unsigned zero. -/
def div : XRat → XRat → XRat
  | nan, _ => nan
  | _, nan => nan
  | fin a, fin b =>
    if b == 0 then (if a == 0 then nan else if a < 0 then ninf else pinf) else fin (a / b)
  | fin _, _ => fin 0
  | a, fin b => if sgn a * sgn (fin b) < 0 then ninf else pinf
  | _, _ => nan

def lt : XRat → XRat → Bool
  | nan, _ => false
  | _, nan => false
  | fin a, fin b => decide (a < b)
  | ninf, ninf => false
  | ninf, _ => true
  | _, ninf => false
  | pinf, _ => false
  | _, pinf => true

def le : XRat → XRat → Bool
  | nan, _ => false
  | _, nan => false
  | fin a, fin b => decide (a ≤ b)
  | ninf, _ => true
  | _, ninf => false
  | _, pinf => true
  | pinf, _ => false

instance : Add XRat := ⟨add⟩
instance : Sub XRat := ⟨sub⟩
instance : Mul XRat := ⟨mul⟩
instance : Div XRat := ⟨div⟩
instance : Neg XRat := ⟨neg⟩
instance : LT XRat := ⟨fun a b => lt a b = true⟩
instance : LE XRat := ⟨fun a b => le a b = true⟩
instance : DecidableLT XRat := fun a b => inferInstanceAs (Decidable (lt a b = true))
instance : DecidableLE XRat := fun a b => inferInstanceAs (Decidable (le a b = true))
instance : NatCast XRat := ⟨fun n => fin (n : Rat)⟩
instance (n : Nat) : OfNat XRat n := ⟨fin (n : Rat)⟩

/-- Decode an `f32` bit pattern. -/
def ofBits (b : UInt32) : XRat :=
  match F32.toRat? b with
  | some q => fin q
  | none => if F32.isNaN b then nan else if F32.signBit b then ninf else pinf

end XRat
end Retro
