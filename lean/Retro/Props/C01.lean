/-
C01 — Rendered image equals the ideal perspective-correct image.
  `Retro.Props.C01.Persp`   : the perspective-correction identities and the per-vertex screen transform
  `Retro.Props.C01.Compose` : composed through clip → screen transform → scan conversion → z_div:
                              `fragment_is_input_point` — every fragment the pipeline produces for an
                              input triangle carries the attribute, the reciprocal depth and the
                              screen position of ONE point Σγᵢ·Pᵢ (Σγᵢ = 1) of the input triangle's
                              plane: attributes interpolated affinely in clip space, depth 1/w of
                              that point, position its projection through the viewport
  `Retro.Props.C01.IdealFrag`: one fragment per triangle per pixel (`fragsAt_trifill`), and it IS the ideal
                              fragment at the pixel centre: barycentric weights of the centre, all ≥ 0
                              (`fragsAt_trifill_ideal`, `frag_depth_between`, `pixFrag_persp`, `pixFrag_input`)
  `Retro.Props.C01.Ideal`   : the pixel theorems — `drawTris_pixel_ideal`, `drawTris_pixel_untouched`,
                              `render_pixel_ideal`, `render_pixel_ideal_unclipped`, `render_pixel_untouched`,
                              `render_pixel_c01` (the property in one statement over the input triangles)
  `Retro.Props.C01.Visible*`: the link to the VISIBLE PART of the input triangle (on C03 `Cover*`): `det3_bary`,
                              `piece_backface_iff` / `pieces_culled_together` (all pieces of one input triangle are culled or kept
                              together, by the side of its plane the eye is on), `edgeFn_bary`, `visible_strict_inside_piece`,
                              `inside_piece_visible`, `render_pixel_untouched_visible`, `render_pixel_c01_visible`
-/
import Retro.Props.C01.Persp
import Retro.Props.C01.Compose
import Retro.Props.C01.IdealFrag
import Retro.Props.C01.Ideal
import Retro.Props.C01.VisibleRender
import Retro.Props.C01.VisibleEx
import Retro.Props.C01.Examples
