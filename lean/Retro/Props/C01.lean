/-
C01 — Rendered image equals the ideal perspective-correct image.
  `Retro.Props.C01.Persp`   : the perspective-correction identities and the per-vertex screen transform
  `Retro.Props.C01.Compose` : composed through clip → screen transform → scan conversion → z_div:
                              `fragment_is_input_point` — every fragment the pipeline produces for an
                              input triangle carries the attribute, the reciprocal depth and the
                              screen position of ONE point Σγᵢ·Pᵢ (Σγᵢ = 1) of the input triangle's
                              plane: attributes interpolated affinely in clip space, depth 1/w of
                              that point, position its projection through the viewport
-/
import Retro.Props.C01.Persp
import Retro.Props.C01.Compose
