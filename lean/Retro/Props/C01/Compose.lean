import Retro.Props.C01.Persp
import Retro.Props.C03.Base
import Retro.Props.C05
import Retro.Props.C02.NoPanic

namespace Retro.Props.C01
open Retro Retro.Clip Retro.Raster Retro.Render Retro.Lemmas.Clip Retro.Lemmas.Raster Retro.Lemmas.Comb

variable {K : Type} [Field K] [LinearOrder K] [IsStrictOrderedRing K] [FloorRing K]
attribute [local instance] hasFloorK hasToNatK

/-! ### List-level algebra of combinations -/

theorem combL_length (a b c : K) (A B C : List K) (h1 : A.length = B.length) (h2 : B.length = C.length) :
    (combL a b c A B C).length = A.length := by
  induction A generalizing B C with
  | nil => simp [combL]
  | cons x xs ih =>
    cases B with
    | nil => simp at h1
    | cons y ys =>
      cases C with
      | nil => simp at h2
      | cons z zs => simp [combL, ih ys zs (by simpa using h1) (by simpa using h2)]

/-- A combination of three combinations of the same three lists is a combination. -/
theorem combL_combL (a b c a0 b0 c0 a1 b1 c1 a2 b2 c2 : K) (A B C : List K) :
    combL a b c (combL a0 b0 c0 A B C) (combL a1 b1 c1 A B C) (combL a2 b2 c2 A B C) =
      combL (a * a0 + b * a1 + c * a2) (a * b0 + b * b1 + c * b2) (a * c0 + b * c1 + c * c2) A B C := by
  induction A generalizing B C with
  | nil => simp [combL]
  | cons x xs ih =>
    cases B with
    | nil => simp [combL]
    | cons y ys =>
      cases C with
      | nil => simp [combL]
      | cons z zs =>
        simp only [combL, ih]
        congr 1
        ring

/-- Dividing the attributes by w per vertex, combining, and dividing by the combined 1/w is the
combination with the clip-space weights (list form of `persp_attr`). -/
theorem combL_div (a b c w0 w1 w2 Z : K) (A B C : List K) (h0 : w0 ≠ 0) (h1 : w1 ≠ 0) (h2 : w2 ≠ 0) (hZ : Z ≠ 0) :
    (combL a b c (A.map (· / w0)) (B.map (· / w1)) (C.map (· / w2))).map (· / Z) =
      combL (a / w0 / Z) (b / w1 / Z) (c / w2 / Z) A B C := by
  induction A generalizing B C with
  | nil => simp [combL]
  | cons x xs ih =>
    cases B with
    | nil => simp [combL]
    | cons y ys =>
      cases C with
      | nil => simp [combL]
      | cons z zs =>
        simp only [List.map_cons, combL, ih]
        congr 1
        field_simp


theorem c03_combL_eq (a b c : K) (A B C : List K) :
    Retro.Props.C03.combL a b c A B C = combL a b c A B C := by
  induction A generalizing B C with
  | nil => simp [Retro.Props.C03.combL, combL]
  | cons x xs ih =>
    cases B with
    | nil => simp [Retro.Props.C03.combL, combL]
    | cons y ys =>
      cases C with
      | nil => simp [Retro.Props.C03.combL, combL]
      | cons z zs => simp [Retro.Props.C03.combL, combL, ih]

/-- The library's viewport matrix in the form `[[dx,0,0,cx],[0,dy,0,cy],[0,0,1,0],[0,0,0,1]]`. -/
def vpMat (dx dy cx cy : K) : Mat4 K := ⟨⟨dx, 0, 0, cx⟩, ⟨0, dy, 0, cy⟩, ⟨0, 0, 1, 0⟩, ⟨0, 0, 0, 1⟩⟩

/-- **Every fragment is the image of one point of the input triangle's plane.**
Let `tri` be any triangle the clipper emits for input triangle `t`, drawn through the viewport matrix
`vpMat dx dy cx cy`, and `f` any raw fragment of `triFill` for it whose depth slot is non-zero. Then
there are weights γ₀+γ₁+γ₂ = 1 — ONE set for everything — such that, with P = Σγᵢ·Pᵢ the corresponding
point of the input triangle's plane in clip space and W = Σγᵢ·wᵢ its w:
  * after `z_div`, the fragment's attributes are Σγᵢ·attrᵢ (affine in clip space: perspective correct);
  * its depth slot is 1/W;
  * its screen position is the viewport image of the projection (P.x/W, P.y/W).
(No hypothesis on where the vertices are: behind the eye, outside the frustum, anything the clipper
accepts; the only requirements are non-zero w of the emitted vertices and equal attribute lengths.) -/
theorem fragment_is_input_point (dx dy cx cy : K) (t tri : Tri K) (htri : tri ∈ clipTri t)
    (hlen : t.a.attr.length = t.b.attr.length ∧ t.b.attr.length = t.c.attr.length)
    (hwa : tri.a.pos.w ≠ 0) (hwb : tri.b.pos.w ≠ 0) (hwc : tri.c.pos.w ≠ 0)
    (row : Scanline K)
    (hrow : row ∈ triFill (toScreen (vpMat dx dy cx cy) tri.a) (toScreen (vpMat dx dy cx cy) tri.b)
      (toScreen (vpMat dx dy cx cy) tri.c))
    (f : List K) (hf : f ∈ row.frags) (hZ : nth2 f ≠ 0) :
    ∃ g0 g1 g2 : K, g0 + g1 + g2 = 1 ∧
      (zdiv f).drop 3 = combL g0 g1 g2 t.a.attr t.b.attr t.c.attr ∧
      nth2 f * (g0 * t.a.pos.w + g1 * t.b.pos.w + g2 * t.c.pos.w) = 1 ∧
      nth0 f = cx + dx * ((g0 * t.a.pos.x + g1 * t.b.pos.x + g2 * t.c.pos.x) * nth2 f) ∧
      nth1 f = cy + dy * ((g0 * t.a.pos.y + g1 * t.b.pos.y + g2 * t.c.pos.y) * nth2 f) := by
  -- the emitted vertices in terms of the input triangle
  obtain ⟨a0, b0, c0, -, -, -, hs0, hp0, hA0⟩ := Retro.Props.C03.clip_bary t hlen tri htri tri.a (by simp [Retro.Props.C03.triVerts])
  obtain ⟨a1, b1, c1, -, -, -, hs1, hp1, hA1⟩ := Retro.Props.C03.clip_bary t hlen tri htri tri.b (by simp [Retro.Props.C03.triVerts])
  obtain ⟨a2, b2, c2, -, -, -, hs2, hp2, hA2⟩ := Retro.Props.C03.clip_bary t hlen tri htri tri.c (by simp [Retro.Props.C03.triVerts])
  rw [c03_combL_eq] at hA0 hA1 hA2
  -- attribute lengths of the emitted vertices
  have hk := Retro.Props.C02.clip_attr_length t.a.attr.length t rfl hlen.1.symm (hlen.2.symm.trans hlen.1.symm) tri htri
  have hka := hk tri.a (by simp [Retro.Props.C03.triVerts])
  have hkb := hk tri.b (by simp [Retro.Props.C03.triVerts])
  have hkc := hk tri.c (by simp [Retro.Props.C03.triVerts])
  -- the fragment as one affine combination of the three screen tuples
  have hsl : ∀ v : ClipVert K, (toScreen (vpMat dx dy cx cy) v).length = 3 + v.attr.length :=
    fun v => Retro.Props.C02.toScreen_length _ v
  obtain ⟨a, b, c, hsum, hfeq⟩ := Retro.Props.C05.frag_on_plane _ _ _
    (by rw [hsl, hsl, hka, hkb]) (by rw [hsl, hsl, hkb, hkc]) row hrow f hf
  unfold vpMat at hfeq
  rw [toScreen_spec, toScreen_spec, toScreen_spec] at hfeq
  simp only [combL] at hfeq
  subst hfeq
  simp only [nth0, nth1, nth2, zdiv, List.drop_succ_cons, List.drop_zero] at hZ ⊢
  set Z := a * (1 / tri.a.pos.w) + b * (1 / tri.b.pos.w) + c * (1 / tri.c.pos.w) with hZdef
  -- clip-space weights on the emitted triangle, then on the input triangle
  set al0 := a / tri.a.pos.w / Z
  set al1 := b / tri.b.pos.w / Z
  set al2 := c / tri.c.pos.w / Z
  refine ⟨al0 * a0 + al1 * a1 + al2 * a2, al0 * b0 + al1 * b1 + al2 * b2, al0 * c0 + al1 * c1 + al2 * c2,
    ?_, ?_, ?_, ?_, ?_⟩
  · -- weights sum to one
    have hal : al0 + al1 + al2 = 1 := by
      simp only [al0, al1, al2]
      rw [← add_div, ← add_div]
      have : a / tri.a.pos.w + b / tri.b.pos.w + c / tri.c.pos.w = Z := by rw [hZdef]; ring
      rw [this]; exact div_self hZ
    have e : al0 * a0 + al1 * a1 + al2 * a2 + (al0 * b0 + al1 * b1 + al2 * b2) + (al0 * c0 + al1 * c1 + al2 * c2)
        = al0 * (a0 + b0 + c0) + al1 * (a1 + b1 + c1) + al2 * (a2 + b2 + c2) := by ring
    rw [e, hs0, hs1, hs2]; linarith
  · -- attributes
    rw [combL_div a b c _ _ _ Z _ _ _ hwa hwb hwc hZ, hA0, hA1, hA2, combL_combL]
  · -- depth slot is 1/W
    have hwA : tri.a.pos.w = a0 * t.a.pos.w + b0 * t.b.pos.w + c0 * t.c.pos.w := by rw [hp0]; rfl
    have hwB : tri.b.pos.w = a1 * t.a.pos.w + b1 * t.b.pos.w + c1 * t.c.pos.w := by rw [hp1]; rfl
    have hwC : tri.c.pos.w = a2 * t.a.pos.w + b2 * t.b.pos.w + c2 * t.c.pos.w := by rw [hp2]; rfl
    have hW : (al0 * a0 + al1 * a1 + al2 * a2) * t.a.pos.w + (al0 * b0 + al1 * b1 + al2 * b2) * t.b.pos.w
        + (al0 * c0 + al1 * c1 + al2 * c2) * t.c.pos.w
        = al0 * tri.a.pos.w + al1 * tri.b.pos.w + al2 * tri.c.pos.w := by rw [hwA, hwB, hwC]; ring
    rw [hW]
    have e0 : al0 * tri.a.pos.w = a / Z := by simp only [al0]; field_simp
    have e1 : al1 * tri.b.pos.w = b / Z := by simp only [al1]; field_simp
    have e2 : al2 * tri.c.pos.w = c / Z := by simp only [al2]; field_simp
    rw [e0, e1, e2, ← add_div, ← add_div, hsum]
    exact mul_one_div_cancel hZ
  · -- x
    have hxA : tri.a.pos.x = a0 * t.a.pos.x + b0 * t.b.pos.x + c0 * t.c.pos.x := by rw [hp0]; rfl
    have hxB : tri.b.pos.x = a1 * t.a.pos.x + b1 * t.b.pos.x + c1 * t.c.pos.x := by rw [hp1]; rfl
    have hxC : tri.c.pos.x = a2 * t.a.pos.x + b2 * t.b.pos.x + c2 * t.c.pos.x := by rw [hp2]; rfl
    have hX : (al0 * a0 + al1 * a1 + al2 * a2) * t.a.pos.x + (al0 * b0 + al1 * b1 + al2 * b2) * t.b.pos.x
        + (al0 * c0 + al1 * c1 + al2 * c2) * t.c.pos.x
        = al0 * tri.a.pos.x + al1 * tri.b.pos.x + al2 * tri.c.pos.x := by rw [hxA, hxB, hxC]; ring
    rw [hX]
    have e0 : al0 * tri.a.pos.x * Z = a * (tri.a.pos.x / tri.a.pos.w) := by simp only [al0]; field_simp
    have e1 : al1 * tri.b.pos.x * Z = b * (tri.b.pos.x / tri.b.pos.w) := by simp only [al1]; field_simp
    have e2 : al2 * tri.c.pos.x * Z = c * (tri.c.pos.x / tri.c.pos.w) := by simp only [al2]; field_simp
    have e : (al0 * tri.a.pos.x + al1 * tri.b.pos.x + al2 * tri.c.pos.x) * Z
        = a * (tri.a.pos.x / tri.a.pos.w) + b * (tri.b.pos.x / tri.b.pos.w) + c * (tri.c.pos.x / tri.c.pos.w) := by
      rw [add_mul, add_mul, e0, e1, e2]
    rw [e]
    have : a * (cx + dx * (tri.a.pos.x / tri.a.pos.w)) + b * (cx + dx * (tri.b.pos.x / tri.b.pos.w))
        + c * (cx + dx * (tri.c.pos.x / tri.c.pos.w))
        = cx * (a + b + c) + dx * (a * (tri.a.pos.x / tri.a.pos.w) + b * (tri.b.pos.x / tri.b.pos.w)
          + c * (tri.c.pos.x / tri.c.pos.w)) := by ring
    rw [this, hsum, mul_one]
  · -- y
    have hyA : tri.a.pos.y = a0 * t.a.pos.y + b0 * t.b.pos.y + c0 * t.c.pos.y := by rw [hp0]; rfl
    have hyB : tri.b.pos.y = a1 * t.a.pos.y + b1 * t.b.pos.y + c1 * t.c.pos.y := by rw [hp1]; rfl
    have hyC : tri.c.pos.y = a2 * t.a.pos.y + b2 * t.b.pos.y + c2 * t.c.pos.y := by rw [hp2]; rfl
    have hY : (al0 * a0 + al1 * a1 + al2 * a2) * t.a.pos.y + (al0 * b0 + al1 * b1 + al2 * b2) * t.b.pos.y
        + (al0 * c0 + al1 * c1 + al2 * c2) * t.c.pos.y
        = al0 * tri.a.pos.y + al1 * tri.b.pos.y + al2 * tri.c.pos.y := by rw [hyA, hyB, hyC]; ring
    rw [hY]
    have e0 : al0 * tri.a.pos.y * Z = a * (tri.a.pos.y / tri.a.pos.w) := by simp only [al0]; field_simp
    have e1 : al1 * tri.b.pos.y * Z = b * (tri.b.pos.y / tri.b.pos.w) := by simp only [al1]; field_simp
    have e2 : al2 * tri.c.pos.y * Z = c * (tri.c.pos.y / tri.c.pos.w) := by simp only [al2]; field_simp
    have e : (al0 * tri.a.pos.y + al1 * tri.b.pos.y + al2 * tri.c.pos.y) * Z
        = a * (tri.a.pos.y / tri.a.pos.w) + b * (tri.b.pos.y / tri.b.pos.w) + c * (tri.c.pos.y / tri.c.pos.w) := by
      rw [add_mul, add_mul, e0, e1, e2]
    rw [e]
    have : a * (cy + dy * (tri.a.pos.y / tri.a.pos.w)) + b * (cy + dy * (tri.b.pos.y / tri.b.pos.w))
        + c * (cy + dy * (tri.c.pos.y / tri.c.pos.w))
        = cy * (a + b + c) + dy * (a * (tri.a.pos.y / tri.a.pos.w) + b * (tri.b.pos.y / tri.b.pos.w)
          + c * (tri.c.pos.y / tri.c.pos.w)) := by ring
    rw [this, hsum, mul_one]

/-- Non-vacuity: a triangle crossing the right plane yields clipped triangles with non-zero w. -/
example : ∃ tri ∈ clipTri (α := Rat) ⟨mkVert ⟨0, 0, 0, 1⟩ [1], mkVert ⟨2, 0, 0, 1⟩ [3], mkVert ⟨0, 1, 0, 1⟩ [5]⟩,
    tri.a.pos.w ≠ 0 ∧ tri.b.pos.w ≠ 0 ∧ tri.c.pos.w ≠ 0 := by
  decide +kernel

end Retro.Props.C01
