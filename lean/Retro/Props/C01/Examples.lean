/-
Non-vacuity for headline theorems of C01, C02 and C04 that had no instantiation of their own.
-/
import Retro.Props.C01.Ideal
import Retro.Props.C04

namespace Retro.Props.C01.Examples
open Retro Retro.Clip Retro.Raster Retro.Render Retro.Props.C01 Retro.Props.C01.NVI Retro.Props.C02 Retro.Props.C06

/-- All vertices of the `NVI` scene lie inside the frustum (so nothing is clipped). -/
theorem hvis : ∀ v ∈ vs, Retro.Props.C03.Inside v.1 := by
  intro v hv
  simp only [vs, List.mem_cons, List.mem_nil_iff, or_false] at hv
  rw [Retro.Props.C03.inside_iff]
  rcases hv with rfl | rfl | rfl | rfl | rfl | rfl <;> norm_num [pz]

-- C01 render_pixel_ideal_unclipped: the pixel theorem stated on the INPUT triangles
example := render_pixel_ideal_unclipped _ (perspInv (11 / 9 : Rat) (-20 / 9) (by norm_num) (by norm_num)) c0
  ⟨rfl, rfl, rfl⟩ sh 0 4 0 4 4 4 1 (by omega) (by omega) (by omega) (by omega) tris vs (by decide) hverts hvis t0 hwf

/-- An orthographic-like scene: w = 1 everywhere. -/
def vo : List (Vec4 Rat × List Rat) :=
  [(⟨-1, -1, 0, 1⟩, [1]), (⟨3, -1, 0, 1⟩, [1]), (⟨-1, 2, 1 / 2, 1⟩, [1])]
-- C02 render_ok_ortho (one vertex outside the right plane: the triangle is clipped)
example := render_ok_ortho c0 sh 0 4 0 4 4 4 1 (by omega) (by omega) (by omega) (by omega) [(0, 1, 2)] vo (by decide)
  (by
    intro v hv
    simp only [vo, List.mem_cons, List.mem_nil_iff, or_false] at hv
    rcases hv with rfl | rfl | rfl <;> exact ⟨rfl, rfl⟩)
  t0 hwf.1

-- C04 trifill_covers_order_independent on the triangle (2,1) (8,5) (4,6), pixel (4,3)
example := Retro.Props.C04.trifill_covers_order_independent (K := Rat) [2, 1] [8, 5] [4, 6] 2 (by omega) rfl rfl rfl
  (by
    intro v hv
    simp only [List.mem_cons, List.mem_nil_iff, or_false] at hv
    rcases hv with rfl | rfl | rfl <;> norm_num [nth1])
  4 3

end Retro.Props.C01.Examples
