/-
C01, composed (2/2): per-pixel theorems about `drawTris` and `render` in exact arithmetic.

Property C01: every pixel whose centre lies inside the visible part of the nearest triangle ends up holding
that triangle's perspective-correctly interpolated attribute and reciprocal depth, and every pixel whose
centre lies outside all visible parts keeps its previous colour and depth.

`Retro.Props.C01.IdealFrag` says what ONE triangle delivers to ONE pixel (`fragsAt_trifill_ideal`: nothing,
or exactly the ideal fragment `pixFrag`), `Retro.Props.C06` says the draw loop is the per-pixel z-buffer fold
(`drawTris_pix`, `zbuf_nearest`). Composed here:

  * `triFrags_eq`, `mem_triFrags_iff`   the fragments reaching pixel (x, y) are exactly the ideal fragments of
                                        the unculled triangles whose projection contains the pixel centre
  * `drawTris_pixel_ideal`              z-buffer configuration: the pixel is unchanged if no such fragment is
                                        shaded and strictly nearer than the stored depth, otherwise it holds
                                        (shade, depth) of a visible triangle's ideal fragment of MAXIMAL depth
  * `drawTris_pixel_untouched`          any configuration: a pixel whose centre is in no unculled triangle's
                                        projection keeps its colour and depth
  * `render_pixel_ideal`                the same for whole `render` calls (clipping allowed; the triangle list is
                                        the list of clipped pieces — the per-pixel statement does not depend on
                                        the order, so any `depth_sort` setting is covered)
  * `render_pixel_ideal_unclipped`      scenes wholly inside the frustum: the list is the input triangle list
  * `render_pixel_untouched`            arbitrary scenes, any configuration
  * `render_pixel_c01`                  everything in one statement, in terms of the INPUT triangles: a changed
                                        pixel holds `shade [x+½, y+½, d, Σγᵢ·attrᵢ…]`, depth `d = 1/Σγᵢwᵢ`,
                                        γ ≥ 0, Σγ = 1, of the point ΣγᵢPᵢ of an input triangle that projects
                                        onto the pixel centre, and no visible shaded fragment is nearer
-/
import Retro.Props.C01.IdealFrag

namespace Retro.Props.C01
open Retro Retro.Clip Retro.Raster Retro.Render Retro.Lemmas.Clip Retro.Lemmas.Raster Retro.Lemmas.Comb
open Retro.Lemmas.Target Retro.Props.C04 Retro.Props.C05 Retro.Props.C06 Retro.Props.C02

set_option linter.unusedSectionVars false

variable {K : Type} [Field K] [LinearOrder K] [IsStrictOrderedRing K] [FloorRing K] {C : Type}
attribute [local instance] hasFloorK hasToNatK

/-! ### Hypotheses on the drawn triangles -/

/-- The three vertices carry attribute tuples of one length and project to `y ≥ −½`. -/
def ScreenY (m : Mat4 K) (tri : Tri K) : Prop :=
  (tri.a.attr.length = tri.b.attr.length ∧ tri.b.attr.length = tri.c.attr.length) ∧
  ∀ v ∈ [toScreen m tri.a, toScreen m tri.b, toScreen m tri.c], -(1 / 2) ≤ nth1 v

/-- … and to `x ≥ −½` (what survives the clipper always does: `clipped_geom`). -/
def ScreenXY (m : Mat4 K) (tri : Tri K) : Prop :=
  ScreenY m tri ∧ ∀ v ∈ [toScreen m tri.a, toScreen m tri.b, toScreen m tri.c], -(1 / 2) ≤ nth0 v

/-- `tri` is drawn (not culled) and its screen projection contains the centre of pixel (x, y). -/
def VisibleAt (ctx : Ctx) (m : Mat4 K) (tri : Tri K) (x y : Nat) : Prop :=
  culled ctx (toScreen m tri.a) (toScreen m tri.b) (toScreen m tri.c) = false ∧ InsideTri m tri x y

instance decVisibleAt (ctx : Ctx) (m : Mat4 K) (tri : Tri K) (x y : Nat) : Decidable (VisibleAt ctx m tri x y) := by
  unfold VisibleAt; infer_instance

theorem screen_lengths (m : Mat4 K) (tri : Tri K) (h : ScreenY m tri) :
    (toScreen m tri.a).length = 3 + tri.a.attr.length ∧ (toScreen m tri.b).length = 3 + tri.a.attr.length ∧
    (toScreen m tri.c).length = 3 + tri.a.attr.length := by
  obtain ⟨⟨h1, h2⟩, -⟩ := h
  refine ⟨toScreen_length _ _, ?_, ?_⟩
  · rw [toScreen_length, h1]
  · rw [toScreen_length, h1, h2]

/-! ### The fragments that reach one pixel -/

/-- One triangle of the draw loop: nothing unless it is unculled and its projection contains the pixel
centre, and then exactly its ideal fragment. -/
theorem tri_fragsAt (ctx : Ctx) (m : Mat4 K) (tri : Tri K) (h : ScreenXY m tri) (x y : Nat) :
    (if culled ctx (toScreen m tri.a) (toScreen m tri.b) (toScreen m tri.c) then []
      else fragsAt (triFill (toScreen m tri.a) (toScreen m tri.b) (toScreen m tri.c)) x y) =
    if VisibleAt ctx m tri x y then [pixFrag m tri x y] else [] := by
  obtain ⟨la, lb, lc⟩ := screen_lengths m tri h.1
  obtain ⟨hI, hO⟩ := fragsAt_trifill_ideal (toScreen m tri.a) (toScreen m tri.b) (toScreen m tri.c)
    (3 + tri.a.attr.length) (by omega) la lb lc h.1.2 h.2 x y
  by_cases hc : culled ctx (toScreen m tri.a) (toScreen m tri.b) (toScreen m tri.c) = true
  · rw [if_pos hc, if_neg]
    rintro ⟨h1, -⟩
    rw [hc] at h1; cases h1
  · rw [if_neg hc]
    have hc' : culled ctx (toScreen m tri.a) (toScreen m tri.b) (toScreen m tri.c) = false := by
      simpa using hc
    by_cases hin : InsideTri m tri x y
    · rw [if_pos ⟨hc', hin⟩]; exact hI hin
    · rw [if_neg (fun hv => hin hv.2)]; exact hO hin

/-- Without the `x ≥ −½` hypothesis: a triangle that is culled or whose projection does not contain the pixel
centre delivers nothing. -/
theorem tri_fragsAt_nil (ctx : Ctx) (m : Mat4 K) (tri : Tri K) (h : ScreenY m tri) (x y : Nat)
    (hnv : ¬ VisibleAt ctx m tri x y) :
    (if culled ctx (toScreen m tri.a) (toScreen m tri.b) (toScreen m tri.c) then []
      else fragsAt (triFill (toScreen m tri.a) (toScreen m tri.b) (toScreen m tri.c)) x y) = [] := by
  obtain ⟨la, lb, lc⟩ := screen_lengths m tri h
  by_cases hc : culled ctx (toScreen m tri.a) (toScreen m tri.b) (toScreen m tri.c) = true
  · rw [if_pos hc]
  · rw [if_neg hc]
    have hc' : culled ctx (toScreen m tri.a) (toScreen m tri.b) (toScreen m tri.c) = false := by
      simpa using hc
    apply (fragsAt_trifill (toScreen m tri.a) (toScreen m tri.b) (toScreen m tri.c)
      (3 + tri.a.attr.length) (by omega) la lb lc h.2 x y).1
    intro hcov
    exact hnv ⟨hc', (trifill_covers_iff_inside _ _ _ (3 + tri.a.attr.length) (by omega) la lb lc h.2 x y).mp hcov⟩

/-- **The fragments reaching pixel (x, y), in arrival order**: the ideal fragments of the triangles that are
visible at the pixel — one per triangle, none from the others. -/
theorem triFrags_eq (ctx : Ctx) (m : Mat4 K) (ts : List (Tri K)) (hgeo : ∀ tri ∈ ts, ScreenXY m tri) (x y : Nat) :
    triFrags ctx m ts x y =
      ts.flatMap fun tri => if VisibleAt ctx m tri x y then [pixFrag m tri x y] else [] := by
  unfold triFrags
  induction ts with
  | nil => rfl
  | cons tri rest ih =>
    rw [List.flatMap_cons, List.flatMap_cons, ih (fun t ht => hgeo t (List.mem_cons_of_mem _ ht)),
      tri_fragsAt ctx m tri (hgeo tri (by simp)) x y]

theorem mem_triFrags_iff (ctx : Ctx) (m : Mat4 K) (ts : List (Tri K)) (hgeo : ∀ tri ∈ ts, ScreenXY m tri)
    (x y : Nat) (g : List K) :
    g ∈ triFrags ctx m ts x y ↔ ∃ tri ∈ ts, VisibleAt ctx m tri x y ∧ g = pixFrag m tri x y := by
  rw [triFrags_eq ctx m ts hgeo x y, List.mem_flatMap]
  constructor
  · rintro ⟨tri, htri, hg⟩
    by_cases hv : VisibleAt ctx m tri x y
    · rw [if_pos hv] at hg
      exact ⟨tri, htri, hv, by simpa using hg⟩
    · rw [if_neg hv] at hg; simp at hg
  · rintro ⟨tri, htri, hv, rfl⟩
    exact ⟨tri, htri, by rw [if_pos hv]; simp⟩

theorem triFrags_nil (ctx : Ctx) (m : Mat4 K) (ts : List (Tri K)) (hgeo : ∀ tri ∈ ts, ScreenY m tri) (x y : Nat)
    (hnv : ∀ tri ∈ ts, ¬ VisibleAt ctx m tri x y) : triFrags ctx m ts x y = [] := by
  unfold triFrags
  rw [List.flatMap_eq_nil_iff]
  intro tri htri
  exact tri_fragsAt_nil ctx m tri (hgeo tri htri) x y (hnv tri htri)

/-! ### The pixel theorem for a triangle list -/

/-- What the ideal z-buffer renderer leaves in a pixel that held `old`, for the triangle list `ts`:
outside the buffers nothing; otherwise EITHER the pixel is unchanged and no visible triangle has a shaded
ideal fragment strictly nearer than the stored depth, OR it holds the colour and depth of the ideal fragment
of a triangle visible at the pixel, that fragment is shaded, strictly nearer than the stored depth, and of
maximal (reciprocal) depth among all shaded ideal fragments of triangles visible at the pixel. -/
def PixelIdeal (ctx : Ctx) (shade : List K → Option C) (m : Mat4 K) (ts : List (Tri K)) (x y : Nat)
    (old new : Option (C × K)) : Prop :=
  match old with
  | none => new = none
  | some (c, z) =>
    (new = some (c, z) ∧
      ∀ tri ∈ ts, VisibleAt ctx m tri x y → shade (pixFrag m tri x y) ≠ none → nth2 (pixFrag m tri x y) ≤ z) ∨
    (∃ tri ∈ ts, VisibleAt ctx m tri x y ∧ ∃ col, shade (pixFrag m tri x y) = some col ∧
      new = some (col, nth2 (pixFrag m tri x y)) ∧ z < nth2 (pixFrag m tri x y) ∧
      ∀ tri' ∈ ts, VisibleAt ctx m tri' x y → shade (pixFrag m tri' x y) ≠ none →
        nth2 (pixFrag m tri' x y) ≤ nth2 (pixFrag m tri x y))

/-- `PixelIdeal` only depends on which triangles are in the list, not on their order or multiplicity. -/
theorem pixelIdeal_congr (ctx : Ctx) (shade : List K → Option C) (m : Mat4 K) (ts ts' : List (Tri K))
    (h : ∀ tri, tri ∈ ts ↔ tri ∈ ts') (x y : Nat) (old new : Option (C × K))
    (hp : PixelIdeal ctx shade m ts x y old new) : PixelIdeal ctx shade m ts' x y old new := by
  cases old with
  | none => exact hp
  | some s =>
    obtain ⟨c, z⟩ := s
    simp only [PixelIdeal] at hp ⊢
    rcases hp with ⟨h1, h2⟩ | ⟨tri, htri, hv, col, hs, hn, hlt, hall⟩
    · exact Or.inl ⟨h1, fun tri htri => h2 tri ((h tri).mpr htri)⟩
    · exact Or.inr ⟨tri, (h tri).mp htri, hv, col, hs, hn, hlt, fun tri' h' => hall tri' ((h tri').mpr h')⟩

/-- **The pixel theorem for a triangle list (z-buffer configuration).** Under the hypotheses of
`drawTris_pix` (every scanline inside the `W`×`H` depth-buffered target) and for triangles with equal-length
attribute tuples projecting to coordinates ≥ −½, `drawTris` returns and every pixel of the result is the
ideal one. -/
theorem drawTris_pixel_ideal (ctx : Ctx) (hz : ZBuf ctx) (shade : List K → Option C) (m : Mat4 K) (W H : Nat)
    (ts : List (Tri K)) (hin : TrisInRect m W H ts) (hgeo : ∀ tri ∈ ts, ScreenXY m tri)
    (t : Target K C) (st : Stats) (hwf : WFD t W H) :
    ∃ t' st', drawTris ctx shade m t st ts = .ok (t', st') ∧ WFD t' W H ∧
      ∀ x y, PixelIdeal ctx shade m ts x y (pix t x y) (pix t' x y) := by
  obtain ⟨t', st', hr, hwf', hp⟩ := drawTris_pix ctx shade m W H ts hin t st hwf
  refine ⟨t', st', hr, hwf', fun x y => ?_⟩
  rw [hp x y]
  cases hold : pix t x y with
  | none => simp [PixelIdeal]
  | some s =>
    obtain ⟨c, z⟩ := s
    simp only [PixelIdeal, Option.map_some]
    have hmem := fun g => mem_triFrags_iff ctx m ts hgeo x y g
    rcases zbuf_nearest ctx hz shade (triFrags ctx m ts x y) (c, z) with
      ⟨heq, hall⟩ | ⟨f, hf, col, hsf, heq, hlt, hall⟩
    · left
      refine ⟨by rw [heq], ?_⟩
      intro tri htri hvis hne
      exact hall _ ((hmem _).mpr ⟨tri, htri, hvis, rfl⟩) hne
    · obtain ⟨tri, htri, hvis, rfl⟩ := (hmem f).mp hf
      right
      exact ⟨tri, htri, hvis, col, hsf, by rw [heq], hlt,
        fun tri' h' v' hne => hall _ ((hmem _).mpr ⟨tri', h', v', rfl⟩) hne⟩

/-- The final depth of a pixel is the maximum of its initial depth and the depths of all shaded ideal
fragments of the triangles visible at it (`zbuf_depth_max` on the ideal fragment list). -/
theorem drawTris_pixel_depth (ctx : Ctx) (hz : ZBuf ctx) (shade : List K → Option C) (m : Mat4 K) (W H : Nat)
    (ts : List (Tri K)) (hin : TrisInRect m W H ts) (hgeo : ∀ tri ∈ ts, ScreenXY m tri)
    (t : Target K C) (st : Stats) (hwf : WFD t W H) :
    ∃ t' st', drawTris ctx shade m t st ts = .ok (t', st') ∧
      ∀ x y, (pix t' x y).map Prod.snd = (pix t x y).map fun s =>
        ((((ts.flatMap fun tri => if VisibleAt ctx m tri x y then [pixFrag m tri x y] else []).filter
          fun f => (shade f).isSome).map nth2).foldl max s.2) := by
  obtain ⟨t', st', hr, -, hp⟩ := drawTris_pix ctx shade m W H ts hin t st hwf
  refine ⟨t', st', hr, fun x y => ?_⟩
  rw [hp x y, Option.map_map, ← triFrags_eq ctx m ts hgeo x y]
  congr 1
  funext s
  exact zbuf_depth_max ctx hz shade _ s

/-- **A pixel outside every visible part keeps its colour and depth** (any Context, no `x ≥ −½` needed): if no
unculled triangle's screen projection contains the pixel centre, `drawTris` leaves the pixel as it was. -/
theorem drawTris_pixel_untouched (ctx : Ctx) (shade : List K → Option C) (m : Mat4 K) (W H : Nat)
    (ts : List (Tri K)) (hin : TrisInRect m W H ts) (hgeo : ∀ tri ∈ ts, ScreenY m tri)
    (t : Target K C) (st : Stats) (hwf : WFD t W H) :
    ∃ t' st', drawTris ctx shade m t st ts = .ok (t', st') ∧ WFD t' W H ∧
      ∀ x y, (∀ tri ∈ ts, culled ctx (toScreen m tri.a) (toScreen m tri.b) (toScreen m tri.c) = false →
          InsideTri m tri x y → False) → pix t' x y = pix t x y := by
  obtain ⟨t', st', hr, hwf', hp⟩ := drawTris_pix ctx shade m W H ts hin t st hwf
  refine ⟨t', st', hr, hwf', fun x y hout => ?_⟩
  rw [hp x y, triFrags_nil ctx m ts hgeo x y (fun tri htri hv => hout tri htri hv.1 hv.2)]
  cases pix t x y <;> simp [pixelFold]

/-! ### Whole `render` calls -/

/-- The triangles an index list denotes over a vertex list (clip-space vertices built by `ClipVert::new`). -/
def inputTris (verts : List (Vec4 K × List K)) (tris : List (Nat × Nat × Nat)) : List (Tri K) :=
  tris.filterMap (mkTri (verts.map fun (p, a) => mkVert p a))

/-- Whatever the `depth_sort` setting, `render` draws exactly the clipped pieces of the input triangles. -/
theorem renderList_mem (ctx : Ctx) (verts : List (Vec4 K × List K)) (tris : List (Nat × Nat × Nat)) (tri : Tri K) :
    tri ∈ renderList ctx verts tris ↔ tri ∈ clipTris (inputTris verts tris) := by
  unfold renderList inputTris
  simp only
  cases ctx.depthSort with
  | none => exact Iff.rfl
  | some d => exact (depthSorted_perm d _).mem_iff

theorem inputTris_verts (Q : Vec4 K → Prop) (k : Nat) (verts : List (Vec4 K × List K)) (tris : List (Nat × Nat × Nat))
    (hverts : ∀ v ∈ verts, Q v.1 ∧ v.2.length = k) :
    ∀ tri ∈ inputTris verts tris, ∀ v ∈ [tri.a, tri.b, tri.c], WF v ∧ Q v.pos ∧ v.attr.length = k := by
  intro tri htri v hv
  obtain ⟨ijk, -, hmk⟩ := List.mem_filterMap.mp htri
  have hv' := mkTri_mem _ ijk tri hmk v hv
  obtain ⟨pa, hpa, rfl⟩ := List.mem_map.mp hv'
  obtain ⟨q1, q2⟩ := hverts pa hpa
  exact ⟨mkVert_wf _ _, q1, q2⟩

/-- `render` is the draw loop over `renderList`, all of whose scanlines lie inside the target. -/
theorem render_as_drawTris (Q : Vec4 K → Prop) (hQ : ClipInv Q) (ctx : Ctx) (shade : List K → Option C)
    (L R T B W H k : Nat) (hLR : L ≤ R) (hTB : T ≤ B) (hRW : R ≤ W) (hBH : B ≤ H)
    (tris : List (Nat × Nat × Nat)) (verts : List (Vec4 K × List K))
    (hidx : ∀ t ∈ tris, t.1 < verts.length ∧ t.2.1 < verts.length ∧ t.2.2 < verts.length)
    (hverts : ∀ v ∈ verts, Q v.1 ∧ v.2.length = k) (t : Target K C) :
    render ctx shade (viewportMat L R T B) tris verts t =
      drawTris ctx shade (viewportMat L R T B) t { calls := 1, primsI := tris.length, vertsI := verts.length }
        (renderList ctx verts tris) ∧
    TrisInRect (viewportMat L R T B) W H (renderList ctx verts tris) := by
  have hlen : (verts.map fun (p, a) => mkVert p a).length = verts.length := List.length_map _
  constructor
  · unfold render renderList
    simp only
    rw [lookupTris_eq _ _ (by rw [hlen]; exact hidx)]
    rfl
  · have hclip := clipped_inRect Q hQ L R T B W H k hLR hTB hRW hBH (inputTris verts tris)
      (inputTris_verts Q k verts tris hverts)
    intro tri htri
    exact hclip tri ((renderList_mem ctx verts tris tri).mp htri)

/-- **What survives the clipper.** Every piece emitted for a triangle list whose vertices satisfy a clip
invariant (`perspInv`, `affineInv`) and carry `k` attribute components projects, through the library's
viewport matrix, to coordinates ≥ −½, has positive `w` at all three vertices, and comes from an input triangle
with equal attribute lengths. -/
theorem clipped_geom (Q : Vec4 K → Prop) (hQ : ClipInv Q) (L R T B k : Nat) (hLR : L ≤ R) (hTB : T ≤ B)
    (ts : List (Tri K))
    (hts : ∀ tri ∈ ts, ∀ v ∈ [tri.a, tri.b, tri.c], WF v ∧ Q v.pos ∧ v.attr.length = k) :
    ∀ tri ∈ clipTris ts, ScreenXY (viewportMat L R T B) tri ∧
      (0 < tri.a.pos.w ∧ 0 < tri.b.pos.w ∧ 0 < tri.c.pos.w) ∧
      ∃ t0 ∈ ts, tri ∈ clipTri t0 ∧
        (t0.a.attr.length = t0.b.attr.length ∧ t0.b.attr.length = t0.c.attr.length) := by
  intro tri htri
  obtain ⟨t0, ht0, htri0⟩ := List.mem_flatMap.mp htri
  have hv0 := hts t0 ht0
  have hwf0 : Retro.Props.C03.TriWF t0 := ⟨(hv0 _ (by simp)).1, (hv0 _ (by simp)).1, (hv0 _ (by simp)).1⟩
  have hin := Retro.Props.C03.clip_inside t0 hwf0 tri htri0
  have hq := clip_keeps_inv Q hQ t0 (hv0 _ (by simp)).2.1 (hv0 _ (by simp)).2.1 (hv0 _ (by simp)).2.1 tri htri0
  have hlen := clip_attr_length k t0 (hv0 _ (by simp)).2.2 (hv0 _ (by simp)).2.2 (hv0 _ (by simp)).2.2 tri htri0
  have near : ∀ v ∈ Retro.Props.C03.triVerts tri, NearRect L R T B (toScreen (viewportMat L R T B) v) :=
    fun v hv => survivor_near_rect L R T B hLR hTB Q hQ v (hin v hv) (hq v hv)
  have wpos : ∀ v ∈ Retro.Props.C03.triVerts tri, 0 < v.pos.w := fun v hv => hQ.wpos v.pos (hin v hv) (hq v hv)
  have hL : (0 : K) ≤ (L : K) := Nat.cast_nonneg L
  have hT : (0 : K) ≤ (T : K) := Nat.cast_nonneg T
  have ma : tri.a ∈ Retro.Props.C03.triVerts tri := by simp [Retro.Props.C03.triVerts]
  have mb : tri.b ∈ Retro.Props.C03.triVerts tri := by simp [Retro.Props.C03.triVerts]
  have mc : tri.c ∈ Retro.Props.C03.triVerts tri := by simp [Retro.Props.C03.triVerts]
  refine ⟨⟨⟨⟨by rw [hlen _ ma, hlen _ mb], by rw [hlen _ mb, hlen _ mc]⟩, ?_⟩, ?_⟩,
    ⟨wpos _ ma, wpos _ mb, wpos _ mc⟩, t0, ht0, htri0,
    by rw [(hv0 _ (by simp : t0.a ∈ [t0.a, t0.b, t0.c])).2.2, (hv0 _ (by simp : t0.b ∈ [t0.a, t0.b, t0.c])).2.2],
    by rw [(hv0 _ (by simp : t0.b ∈ [t0.a, t0.b, t0.c])).2.2, (hv0 _ (by simp : t0.c ∈ [t0.a, t0.b, t0.c])).2.2]⟩
  · intro v hv
    simp only [List.mem_cons, List.mem_nil_iff, or_false] at hv
    rcases hv with rfl | rfl | rfl
    · have := (near _ ma).2.1; linarith
    · have := (near _ mb).2.1; linarith
    · have := (near _ mc).2.1; linarith
  · intro v hv
    simp only [List.mem_cons, List.mem_nil_iff, or_false] at hv
    rcases hv with rfl | rfl | rfl
    · have := (near _ ma).1.1; linarith
    · have := (near _ mb).1.1; linarith
    · have := (near _ mc).1.1; linarith

/-- **The pixel theorem for whole `render` calls (z-buffer configuration, clipping allowed).** Scene and
matrices as in `render_ok_of`; the target is a `W`×`H` `Framebuf`. `render` returns, and every pixel of the
result is the ideal one for the list of clipped pieces of the input triangles — whatever the `depth_sort`
setting, because `PixelIdeal` does not depend on the order of the list. -/
theorem render_pixel_ideal (Q : Vec4 K → Prop) (hQ : ClipInv Q) (ctx : Ctx) (hz : ZBuf ctx)
    (shade : List K → Option C) (L R T B W H k : Nat) (hLR : L ≤ R) (hTB : T ≤ B) (hRW : R ≤ W) (hBH : B ≤ H)
    (tris : List (Nat × Nat × Nat)) (verts : List (Vec4 K × List K))
    (hidx : ∀ t ∈ tris, t.1 < verts.length ∧ t.2.1 < verts.length ∧ t.2.2 < verts.length)
    (hverts : ∀ v ∈ verts, Q v.1 ∧ v.2.length = k)
    (t : Target K C) (hwf : WFD t W H) :
    ∃ t' st, render ctx shade (viewportMat L R T B) tris verts t = .ok (t', st) ∧ WFD t' W H ∧
      ∀ x y, PixelIdeal ctx shade (viewportMat L R T B) (clipTris (inputTris verts tris)) x y
        (pix t x y) (pix t' x y) := by
  obtain ⟨hr, hrect⟩ := render_as_drawTris Q hQ ctx shade L R T B W H k hLR hTB hRW hBH tris verts hidx hverts t
  have hgeo := clipped_geom Q hQ L R T B k hLR hTB (inputTris verts tris) (inputTris_verts Q k verts tris hverts)
  obtain ⟨t', st', hd, hwf', hp⟩ := drawTris_pixel_ideal ctx hz shade (viewportMat L R T B) W H
    (renderList ctx verts tris) hrect
    (fun tri htri => (hgeo tri ((renderList_mem ctx verts tris tri).mp htri)).1) t
    { calls := 1, primsI := tris.length, vertsI := verts.length } hwf
  refine ⟨t', st', by rw [hr, hd], hwf', fun x y => ?_⟩
  exact pixelIdeal_congr ctx shade _ _ _ (renderList_mem ctx verts tris) x y _ _ (hp x y)

/-- Triangles wholly inside the frustum pass the clipper unchanged. -/
theorem clipTris_visible (ts : List (Tri K))
    (h : ∀ t ∈ ts, Retro.Props.C03.TriWF t ∧ ∀ v ∈ Retro.Props.C03.triVerts t, Retro.Props.C03.Inside v.pos) :
    clipTris ts = ts := by
  induction ts with
  | nil => rfl
  | cons t rest ih =>
    have e : clipTris (t :: rest) = clipTri t ++ clipTris rest := by simp [clipTris]
    rw [e, ih (fun u hu => h u (List.mem_cons_of_mem _ hu)),
      Retro.Props.C03.clip_visible_id t (h t (by simp)).1 (h t (by simp)).2]
    rfl

/-- **Scenes that need no clipping.** If every vertex is inside the frustum (`−w ≤ x, y, z ≤ w`), every pixel
of the `render` result is the ideal one for the INPUT triangle list itself. -/
theorem render_pixel_ideal_unclipped (Q : Vec4 K → Prop) (hQ : ClipInv Q) (ctx : Ctx) (hz : ZBuf ctx)
    (shade : List K → Option C) (L R T B W H k : Nat) (hLR : L ≤ R) (hTB : T ≤ B) (hRW : R ≤ W) (hBH : B ≤ H)
    (tris : List (Nat × Nat × Nat)) (verts : List (Vec4 K × List K))
    (hidx : ∀ t ∈ tris, t.1 < verts.length ∧ t.2.1 < verts.length ∧ t.2.2 < verts.length)
    (hverts : ∀ v ∈ verts, Q v.1 ∧ v.2.length = k)
    (hvis : ∀ v ∈ verts, Retro.Props.C03.Inside v.1)
    (t : Target K C) (hwf : WFD t W H) :
    ∃ t' st, render ctx shade (viewportMat L R T B) tris verts t = .ok (t', st) ∧ WFD t' W H ∧
      ∀ x y, PixelIdeal ctx shade (viewportMat L R T B) (inputTris verts tris) x y (pix t x y) (pix t' x y) := by
  have hid : clipTris (inputTris verts tris) = inputTris verts tris := by
    apply clipTris_visible
    intro tri htri
    have hv := inputTris_verts (fun p => Q p ∧ Retro.Props.C03.Inside p) k verts tris
      (fun v hv => ⟨⟨(hverts v hv).1, hvis v hv⟩, (hverts v hv).2⟩) tri htri
    refine ⟨⟨(hv _ (by simp)).1, (hv _ (by simp)).1, (hv _ (by simp)).1⟩, ?_⟩
    intro v hv'
    exact (hv v (by simpa [Retro.Props.C03.triVerts] using hv')).2.1.2
  have := render_pixel_ideal Q hQ ctx hz shade L R T B W H k hLR hTB hRW hBH tris verts hidx hverts t hwf
  rw [hid] at this
  exact this

/-- **A pixel outside every visible part keeps its content: arbitrary scenes, any Context.** Clipping
allowed, any depth test / write masks / face culling / depth sorting: a pixel whose centre is not inside the
screen projection of any unculled clipped piece holds after `render` exactly the colour and depth it held
before. -/
theorem render_pixel_untouched (Q : Vec4 K → Prop) (hQ : ClipInv Q) (ctx : Ctx)
    (shade : List K → Option C) (L R T B W H k : Nat) (hLR : L ≤ R) (hTB : T ≤ B) (hRW : R ≤ W) (hBH : B ≤ H)
    (tris : List (Nat × Nat × Nat)) (verts : List (Vec4 K × List K))
    (hidx : ∀ t ∈ tris, t.1 < verts.length ∧ t.2.1 < verts.length ∧ t.2.2 < verts.length)
    (hverts : ∀ v ∈ verts, Q v.1 ∧ v.2.length = k)
    (t : Target K C) (hwf : WFD t W H) :
    ∃ t' st, render ctx shade (viewportMat L R T B) tris verts t = .ok (t', st) ∧ WFD t' W H ∧
      ∀ x y, (∀ tri ∈ clipTris (inputTris verts tris),
          culled ctx (toScreen (viewportMat L R T B) tri.a) (toScreen (viewportMat L R T B) tri.b)
            (toScreen (viewportMat L R T B) tri.c) = false →
          InsideTri (viewportMat L R T B) tri x y → False) → pix t' x y = pix t x y := by
  obtain ⟨hr, hrect⟩ := render_as_drawTris Q hQ ctx shade L R T B W H k hLR hTB hRW hBH tris verts hidx hverts t
  have hgeo := clipped_geom Q hQ L R T B k hLR hTB (inputTris verts tris) (inputTris_verts Q k verts tris hverts)
  obtain ⟨t', st', hd, hwf', hp⟩ := drawTris_pixel_untouched ctx shade (viewportMat L R T B) W H
    (renderList ctx verts tris) hrect
    (fun tri htri => (hgeo tri ((renderList_mem ctx verts tris tri).mp htri)).1.1) t
    { calls := 1, primsI := tris.length, vertsI := verts.length } hwf
  refine ⟨t', st', by rw [hr, hd], hwf', fun x y hout => hp x y ?_⟩
  intro tri htri
  exact hout tri ((renderList_mem ctx verts tris tri).mp htri)

theorem viewportMat_eq_vpMat (L R T B : Nat) :
    (viewportMat L R T B : Mat4 K) =
      vpMat (((R : K) - L) / 2) (((B : K) - T) / 2) ((L : K) + ((R : K) - L) / 2) ((T : K) + ((B : K) - T) / 2) := rfl

/-- **C01 in one statement, in terms of the input triangles.** Scene and matrices as in `render_ok_of`,
z-buffer configuration, `W`×`H` `Framebuf`. `render` returns, and for every pixel (x, y) that held colour `c`
and depth `z`:
  * EITHER it still holds `(c, z)`, and no clipped piece visible at the pixel has a shaded ideal fragment
    strictly nearer than `z` (in particular: the centre is outside every visible part);
  * OR there are an input triangle `t0`, one of its clipped pieces `tri` (unculled, its projection contains
    the pixel centre), weights γ₀, γ₁, γ₂ ≥ 0 with Σγᵢ = 1 and a depth `d > 0` such that, with
    `P = ΣγᵢPᵢ` the corresponding point of `t0` in clip space: `d·P.w = 1`, the pixel centre is the viewport
    image of `(P.x/P.w, P.y/P.w)`, the pixel now holds depth `d` and the colour the shader gives to the
    fragment `[x+½, y+½, d, Σγᵢ·attrᵢ …]` — the attributes of `t0` interpolated affinely in clip space, i.e.
    perspective-correctly — `z < d`, and no shaded ideal fragment of any piece visible at the pixel is
    nearer than `d` (the NEAREST visible surface wins). -/
theorem render_pixel_c01 (Q : Vec4 K → Prop) (hQ : ClipInv Q) (ctx : Ctx) (hz : ZBuf ctx)
    (shade : List K → Option C) (L R T B W H k : Nat) (hLR : L ≤ R) (hTB : T ≤ B) (hRW : R ≤ W) (hBH : B ≤ H)
    (tris : List (Nat × Nat × Nat)) (verts : List (Vec4 K × List K))
    (hidx : ∀ t ∈ tris, t.1 < verts.length ∧ t.2.1 < verts.length ∧ t.2.2 < verts.length)
    (hverts : ∀ v ∈ verts, Q v.1 ∧ v.2.length = k)
    (t : Target K C) (hwf : WFD t W H) :
    ∃ t' st, render ctx shade (viewportMat L R T B) tris verts t = .ok (t', st) ∧ WFD t' W H ∧
      ∀ x y c z, pix t x y = some (c, z) →
        (pix t' x y = some (c, z) ∧
          ∀ tri ∈ clipTris (inputTris verts tris), VisibleAt ctx (viewportMat L R T B) tri x y →
            shade (pixFrag (viewportMat L R T B) tri x y) ≠ none →
            nth2 (pixFrag (viewportMat L R T B) tri x y) ≤ z) ∨
        (∃ t0 ∈ inputTris verts tris, ∃ tri ∈ clipTri t0, VisibleAt ctx (viewportMat L R T B) tri x y ∧
          ∃ g0 g1 g2 d : K, ∃ col : C, 0 ≤ g0 ∧ 0 ≤ g1 ∧ 0 ≤ g2 ∧ g0 + g1 + g2 = 1 ∧ 0 < d ∧
            d * (g0 * t0.a.pos.w + g1 * t0.b.pos.w + g2 * t0.c.pos.w) = 1 ∧
            (x : K) + 1 / 2 = (L : K) + ((R : K) - L) / 2 +
              ((R : K) - L) / 2 * ((g0 * t0.a.pos.x + g1 * t0.b.pos.x + g2 * t0.c.pos.x) * d) ∧
            (y : K) + 1 / 2 = (T : K) + ((B : K) - T) / 2 +
              ((B : K) - T) / 2 * ((g0 * t0.a.pos.y + g1 * t0.b.pos.y + g2 * t0.c.pos.y) * d) ∧
            pixFrag (viewportMat L R T B) tri x y =
              ((x : K) + 1 / 2) :: ((y : K) + 1 / 2) :: d :: combL g0 g1 g2 t0.a.attr t0.b.attr t0.c.attr ∧
            shade (((x : K) + 1 / 2) :: ((y : K) + 1 / 2) :: d :: combL g0 g1 g2 t0.a.attr t0.b.attr t0.c.attr)
              = some col ∧
            pix t' x y = some (col, d) ∧ z < d ∧
            ∀ tri' ∈ clipTris (inputTris verts tris), VisibleAt ctx (viewportMat L R T B) tri' x y →
              shade (pixFrag (viewportMat L R T B) tri' x y) ≠ none →
              nth2 (pixFrag (viewportMat L R T B) tri' x y) ≤ d) := by
  obtain ⟨t', st, hr, hwf', hp⟩ := render_pixel_ideal Q hQ ctx hz shade L R T B W H k hLR hTB hRW hBH tris verts
    hidx hverts t hwf
  have hgeo := clipped_geom Q hQ L R T B k hLR hTB (inputTris verts tris) (inputTris_verts Q k verts tris hverts)
  refine ⟨t', st, hr, hwf', fun x y c z hold => ?_⟩
  have h := hp x y
  rw [hold] at h
  simp only [PixelIdeal] at h
  rcases h with h | ⟨tri, htri, hvis, col, hs, hn, hlt, hall⟩
  · exact Or.inl h
  · right
    obtain ⟨-, ⟨wa, wb, wc⟩, t0, ht0, htri0, hlen0⟩ := hgeo tri htri
    have hin := hvis.2
    rw [viewportMat_eq_vpMat] at hin
    obtain ⟨g0, g1, g2, d, k0, k1, k2, ksum, hd, hw, hform, hX, hY⟩ :=
      pixFrag_input _ _ _ _ t0 tri htri0 hlen0 x y wa wb wc hin
    rw [← viewportMat_eq_vpMat] at hform
    have hdz : nth2 (pixFrag (viewportMat L R T B) tri x y) = d := by rw [hform]; rfl
    rw [hdz] at hn hlt hall
    refine ⟨t0, ht0, tri, htri0, hvis, g0, g1, g2, d, col, k0, k1, k2, ksum, hd, hw, hX, hY, hform, ?_, hn, hlt, hall⟩
    rw [← hform]; exact hs

/-! ### Non-vacuity (ℚ): the two-triangle scene of `Retro.Props.C06.Buffer` (`NV`), 4×4 target

Triangle `T1` at w = 2 (reciprocal depth ½, attribute 1) projects to (0,0), (4,0), (0,4); triangle `T2` at
w = 4 (reciprocal depth ¼, attribute 2) projects to (0,0), (4,4), (0,4). Pixel (1,1) is inside both, pixel
(1,3) inside `T2` only, pixel (3,2) inside neither. -/

namespace NVI
def pz (w : Rat) : Rat := 11 / 9 * w - 20 / 9      -- z of `perspective(_, _, 1.0..10.0)`
def vs : List (Vec4 Rat × List Rat) :=
  [(⟨-2, -2, pz 2, 2⟩, [1]), (⟨2, -2, pz 2, 2⟩, [1]), (⟨-2, 2, pz 2, 2⟩, [1]),
   (⟨-4, -4, pz 4, 4⟩, [2]), (⟨4, 4, pz 4, 4⟩, [2]), (⟨-4, 4, pz 4, 4⟩, [2])]
def tris : List (Nat × Nat × Nat) := [(0, 1, 2), (3, 4, 5)]
def sh : List Rat → Option Nat := fun f => some (f.getD 3 0).floor.toNat
def c0 : Ctx := { faceCull := none }
def t0 : Target Rat Nat := ⟨List.replicate 4 (List.replicate 4 0), some (List.replicate 4 (List.replicate 4 0))⟩
def T1 : Tri Rat := ⟨mkVert ⟨-2, -2, pz 2, 2⟩ [1], mkVert ⟨2, -2, pz 2, 2⟩ [1], mkVert ⟨-2, 2, pz 2, 2⟩ [1]⟩
def T2 : Tri Rat := ⟨mkVert ⟨-4, -4, pz 4, 4⟩ [2], mkVert ⟨4, 4, pz 4, 4⟩ [2], mkVert ⟨-4, 4, pz 4, 4⟩ [2]⟩

theorem hverts : ∀ v ∈ vs, v.1.z = (11 / 9 : Rat) * v.1.w + -20 / 9 ∧ v.2.length = 1 := by
  intro v hv
  simp only [vs, List.mem_cons, List.mem_nil_iff, or_false] at hv
  rcases hv with rfl | rfl | rfl | rfl | rfl | rfl <;> refine ⟨?_, rfl⟩ <;> norm_num [pz]

theorem hwf : WFD t0 4 4 := by
  refine ⟨⟨rfl, by decide, ?_⟩, rfl⟩
  intro d hd
  cases hd
  exact ⟨rfl, by decide⟩

/-- The scene needs no clipping: the drawn list is the input list. -/
theorem pieces : clipTris (inputTris vs tris) = [T1, T2] := by decide +kernel

/-- Every hypothesis of `render_pixel_ideal` (hence of `render_pixel_c01`, `render_pixel_untouched`) holds. -/
theorem scene : ∃ t' st, render c0 sh (viewportMat 0 4 0 4) tris vs t0 = .ok (t', st) ∧ WFD t' 4 4 ∧
    ∀ x y, PixelIdeal c0 sh (viewportMat 0 4 0 4) (clipTris (inputTris vs tris)) x y (pix t0 x y) (pix t' x y) :=
  render_pixel_ideal _ (perspInv (11 / 9 : Rat) (-20 / 9) (by norm_num) (by norm_num)) c0 ⟨rfl, rfl, rfl⟩ sh
    0 4 0 4 4 4 1 (by omega) (by omega) (by omega) (by omega) tris vs (by decide) hverts t0 hwf

/-- The ideal fragments at the overlap pixel (1,1): both triangles are visible there; `T1` is nearer. -/
example : VisibleAt c0 (viewportMat 0 4 0 4) T1 1 1 ∧ VisibleAt c0 (viewportMat 0 4 0 4) T2 1 1 ∧
    pixFrag (viewportMat 0 4 0 4) T1 1 1 = [3 / 2, 3 / 2, 1 / 2, 1] ∧
    pixFrag (viewportMat 0 4 0 4) T2 1 1 = [3 / 2, 3 / 2, 1 / 4, 2] := by
  decide +kernel

/-- **The theorem determines the pixel**: from the conclusion of `render_pixel_ideal` alone, pixel (1,1) ends
with the colour of the NEARER triangle `T1` and reciprocal depth ½ (the second alternative of `PixelIdeal`
with `tri = T1`; the first is impossible because `T1`'s fragment is nearer than the initial depth 0, and
`tri = T2` is impossible because `T1`'s fragment is nearer than `T2`'s). -/
example (t' : Target Rat Nat)
    (hp : PixelIdeal c0 sh (viewportMat 0 4 0 4) (clipTris (inputTris vs tris)) 1 1 (pix t0 1 1) (pix t' 1 1)) :
    pix t' 1 1 = some (1, 1 / 2) := by
  have e0 : pix t0 1 1 = some (0, 0) := by decide +kernel
  have v1 : VisibleAt c0 (viewportMat 0 4 0 4) T1 1 1 := by decide +kernel
  have f1 : pixFrag (viewportMat 0 4 0 4) T1 1 1 = [3 / 2, 3 / 2, 1 / 2, 1] := by decide +kernel
  have f2 : pixFrag (viewportMat 0 4 0 4) T2 1 1 = [3 / 2, 3 / 2, 1 / 4, 2] := by decide +kernel
  have s1 : sh [3 / 2, 3 / 2, 1 / 2, 1] = some 1 := by decide +kernel
  rw [e0, pieces] at hp
  simp only [PixelIdeal] at hp
  rcases hp with ⟨-, hall⟩ | ⟨tri, htri, -, col, hs, hn, -, hall⟩
  · have := hall T1 (by simp) v1 (by simp [sh])
    rw [f1] at this
    norm_num [nth2] at this
  · simp only [List.mem_cons, List.mem_nil_iff, or_false] at htri
    rcases htri with rfl | rfl
    · rw [f1] at hs hn
      rw [s1] at hs
      cases hs
      exact hn
    · have := hall T1 (by simp) v1 (by simp [sh])
      rw [f1, f2] at this
      norm_num [nth2] at this

/-- Pixel (3,2) lies outside both projections: the hypothesis of `render_pixel_untouched` holds there. -/
example : ∀ tri ∈ clipTris (inputTris vs tris),
    culled c0 (toScreen (viewportMat 0 4 0 4) tri.a) (toScreen (viewportMat 0 4 0 4) tri.b)
      (toScreen (viewportMat 0 4 0 4) tri.c) = false → InsideTri (viewportMat 0 4 0 4) tri 3 2 → False := by
  decide +kernel

/-- The hypotheses of `drawTris_pixel_ideal` on the list `[T1, T2]` directly. -/
example : ∃ t' st', drawTris c0 sh (viewportMat 0 4 0 4) t0 {} [T1, T2] = .ok (t', st') ∧ WFD t' 4 4 ∧
    ∀ x y, PixelIdeal c0 sh (viewportMat 0 4 0 4) [T1, T2] x y (pix t0 x y) (pix t' x y) := by
  apply drawTris_pixel_ideal c0 ⟨rfl, rfl, rfl⟩ sh (viewportMat 0 4 0 4) 4 4 [T1, T2] _ _ t0 {} hwf
  · unfold TrisInRect; decide +kernel
  · unfold ScreenXY ScreenY; decide +kernel

/-- …and the model run by the kernel agrees: (1,1) shows the nearer triangle, (1,3) the farther one, (3,2)
keeps the initial content. -/
example : (match render c0 sh (viewportMat 0 4 0 4) tris vs t0 with
    | .ok (t', _) => (pix t' 1 1, pix t' 1 3, pix t' 3 2)
    | .panic _ => (none, none, none)) = (some (1, 1 / 2), some (2, 1 / 4), some (0, 0)) := by
  decide +kernel

end NVI

end Retro.Props.C01
