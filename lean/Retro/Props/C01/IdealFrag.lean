/-
C01, composed (1/2): what ONE triangle delivers to ONE pixel.

`Retro.Props.C06.fragsAt (triFill a b c) x y` is the list of fragments the scan conversion of the screen
triangle `a b c` hands to pixel (x, y). This file proves, in exact arithmetic:

  * `fragsAt_trifill`        it is `[]` when the pixel is not covered and a singleton `[zdiv f]` when it is,
                             `f` being fragment `x − x0` of the UNIQUE row with that `y` (no pixel twice)
  * `fragsAt_trifill_ideal`  (coordinates ≥ −½) covered ⇔ centre `Inside` the triangle, and the singleton is
                             `idealFrag a b c x y`: `zdiv` of the combination of the three vertex tuples with
                             the BARYCENTRIC coordinates `E_bc/o, E_ca/o, E_ab/o` of the pixel centre
  * `idealFrag_pos`, `idealFrag_depth`, `frag_depth_between`
                             its position is the pixel centre, its depth slot is the value at the centre of
                             the plane through the three vertex depths and lies between their min and max
  * `idealFrag_persp`        for a triangle drawn through the viewport matrix: ∃ γ ≥ 0, Σγ = 1 (the
                             perspective-corrected weights of `persp_weights`) with attributes = Σγᵢ·attrᵢ of
                             the CLIP-space vertices, depth slot · Σγᵢwᵢ = 1, and the pixel centre = viewport
                             image of the projection of the clip-space point ΣγᵢPᵢ
  * `idealFrag_input`        the same in terms of the INPUT triangle `t` when the drawn triangle is a piece
                             the clipper emitted for `t` (`clip_bary` composed in)
-/
import Retro.Props.C01.Compose
import Retro.Props.C04
import Retro.Props.C05
import Retro.Props.C06.Buffer
import Mathlib.Tactic.LinearCombination

namespace Retro.Props.C01
open Retro Retro.Clip Retro.Raster Retro.Render Retro.Lemmas.Clip Retro.Lemmas.Raster Retro.Lemmas.Comb
open Retro.Props.C04 Retro.Props.C05 Retro.Props.C06

set_option linter.unusedSectionVars false

variable {K : Type} [Field K] [LinearOrder K] [IsStrictOrderedRing K] [FloorRing K]
attribute [local instance] hasFloorK hasToNatK

/-! ### Scanline lists with strictly increasing rows -/

/-- `slFrag` with the `Nat.max` of the span arithmetic removed: a row delivers a fragment to (x, y) iff
it is row `y` and `x0 ≤ x < x1`. -/
theorem slFrag_eq (sl : Scanline K) (x y : Nat) :
    slFrag sl x y = if sl.y = y ∧ sl.x0 ≤ x ∧ x < sl.x1 then (sl.frags[x - sl.x0]?).map zdiv else none := by
  have hmax : Nat.max sl.x1 sl.x0 = max sl.x1 sl.x0 := rfl
  unfold slFrag
  rw [hmax]
  by_cases h : sl.y = y ∧ sl.x0 ≤ x ∧ x < sl.x1
  · rw [if_pos h, if_pos ⟨h.1.symm, h.2.1, by omega⟩, List.getElem?_map]
  · rw [if_neg h, if_neg]
    rintro ⟨h1, h2, h3⟩
    exact h ⟨h1.symm, h2, by omega⟩

theorem fragsAt_nil_of (rows : List (Scanline K)) (x y : Nat) (h : ∀ s ∈ rows, slFrag s x y = none) :
    fragsAt rows x y = [] := by
  unfold fragsAt
  rw [List.flatMap_eq_nil_iff]
  intro s hs
  rw [h s hs]; rfl

theorem fragsAt_cons (s : Scanline K) (rows : List (Scanline K)) (x y : Nat) :
    fragsAt (s :: rows) x y = (slFrag s x y).toList ++ fragsAt rows x y := by
  simp [fragsAt]

/-- Rows in strictly increasing `y`: equal `y` means equal row. -/
theorem sorted_rows_inj (rows : List (Scanline K)) (hs : rows.Pairwise (fun r s => r.y < s.y))
    (r s : Scanline K) (hr : r ∈ rows) (hs' : s ∈ rows) (h : r.y = s.y) : r = s := by
  induction rows with
  | nil => simp at hr
  | cons q rest ih =>
    obtain ⟨hq, hrest⟩ := List.pairwise_cons.mp hs
    rcases List.mem_cons.mp hr with h1 | h1 <;> rcases List.mem_cons.mp hs' with h2 | h2
    · rw [h1, h2]
    · have := hq s h2; rw [← h1] at this; omega
    · have := hq r h1; rw [← h2] at this; omega
    · exact ih hrest h1 h2

/-- In a scanline list with strictly increasing rows, pixel (x, y) receives at most one fragment: the
one of the row with that `y`, if the row's span contains `x`. -/
theorem fragsAt_sorted (rows : List (Scanline K)) (hs : rows.Pairwise (fun r s => r.y < s.y))
    (r : Scanline K) (hr : r ∈ rows) (x : Nat) : fragsAt rows x r.y = (slFrag r x r.y).toList := by
  induction rows with
  | nil => simp at hr
  | cons q rest ih =>
    obtain ⟨hq, hrest⟩ := List.pairwise_cons.mp hs
    rw [fragsAt_cons]
    rcases List.mem_cons.mp hr with rfl | hr
    · rw [fragsAt_nil_of rest x r.y, List.append_nil]
      intro s hs
      rw [slFrag_eq, if_neg]
      rintro ⟨h, -⟩
      have := hq s hs; omega
    · rw [ih hrest hr]
      have : slFrag q x r.y = none := by
        rw [slFrag_eq, if_neg]
        rintro ⟨h, -⟩
        have := hq r hr; omega
      rw [this]; rfl

/-! ### Rows of one trapezoid scan -/

/-- Row `k` of a scan: its pixel row is `⌊y0+½⌋ + k < ⌊y1+½⌋` and its fragment sequence is at least as
long as its span (equal when the left edge is on-grid, see `scan_frag_count`). -/
theorem scan_row_facts (y0 y1 : K) (l0 l1 r0 r1 : List K)
    (hl : l0.length = l1.length) (hl0 : 0 < l0.length) (hr : 0 < r0.length) (hr1 : 0 < r1.length)
    (hy : -(1 / 2) ≤ y0) (k : Nat) (hk : k < (scan y0 y1 l0 l1 r0 r1).length) :
    (((scan y0 y1 l0 l1 r0 r1)[k]).y : Int) = ⌊y0 + 1 / 2⌋ + (k : Int) ∧
    ⌊y0 + 1 / 2⌋ + (k : Int) < ⌊y1 + 1 / 2⌋ ∧
    ((scan y0 y1 l0 l1 r0 r1)[k]).x1 - ((scan y0 y1 l0 l1 r0 r1)[k]).x0 ≤
      ((scan y0 y1 l0 l1 r0 r1)[k]).frags.length := by
  have h0 : 0 ≤ ⌊y0 + 1 / 2⌋ := Int.floor_nonneg.mpr (by linarith)
  have hlen := scan_length y0 y1 l0 l1 r0 r1
  by_cases hne : y1 - y0 = 0
  · exfalso
    have : y1 = y0 := by linarith
    subst this
    rw [hlen] at hk
    simp at hk
  obtain ⟨row, hrow, hyk, hx0, hx1, hn⟩ := scan_get y0 y1 l0 l1 r0 r1 hne hl hl0 hr hr1 k hk
  rw [List.getElem?_eq_getElem hk] at hrow
  have e : (scan y0 y1 l0 l1 r0 r1)[k] = row := Option.some.inj hrow
  rw [e]
  rw [hlen] at hk
  refine ⟨by rw [hyk]; omega, by omega, ?_⟩
  rw [hn, hx0, hx1]
  omega

theorem scan_sorted (y0 y1 : K) (l0 l1 r0 r1 : List K)
    (hl : l0.length = l1.length) (hl0 : 0 < l0.length) (hr : 0 < r0.length) (hr1 : 0 < r1.length)
    (hy : -(1 / 2) ≤ y0) :
    (scan y0 y1 l0 l1 r0 r1).Pairwise (fun r s => r.y < s.y) ∧
    ∀ row ∈ scan y0 y1 l0 l1 r0 r1, ⌊y0 + 1 / 2⌋ ≤ (row.y : Int) ∧ (row.y : Int) < ⌊y1 + 1 / 2⌋ ∧
      row.x1 - row.x0 ≤ row.frags.length := by
  constructor
  · rw [List.pairwise_iff_getElem]
    intro i j hi hj hij
    have fi := (scan_row_facts y0 y1 l0 l1 r0 r1 hl hl0 hr hr1 hy i hi).1
    have fj := (scan_row_facts y0 y1 l0 l1 r0 r1 hl hl0 hr hr1 hy j hj).1
    omega
  · intro row hrow
    obtain ⟨k, hk, rfl⟩ := List.mem_iff_getElem.mp hrow
    obtain ⟨f1, f2, f3⟩ := scan_row_facts y0 y1 l0 l1 r0 r1 hl hl0 hr hr1 hy k hk
    exact ⟨by omega, by omega, f3⟩

/-- **Every fragment of a trapezoid sits at the centre of the pixel it is written to.** For a scan whose
edges span exactly `y0 < y1`, of non-zero width, with `y0 ≥ −½` and left-edge end points at `x ≥ −½`:
fragment `j` of a row has `x = x0 + j + ½`, `y = row.y + ½`. -/
theorem scan_frag_pixel (y0 y1 : K) (l0 l1 r0 r1 : List K) (m : Nat) (hm : 1 < m) (hlt : y0 < y1)
    (h0 : l0.length = m) (h1 : l1.length = m) (h2 : r0.length = m) (h3 : r1.length = m)
    (hy0 : nth1 l0 = y0) (hy0' : nth1 r0 = y0) (hy1 : nth1 l1 = y1) (hy1' : nth1 r1 = y1)
    (hw : ¬(nth0 r0 - nth0 l0 = 0 ∧ nth0 r1 - nth0 l1 = 0))
    (hy : -(1 / 2) ≤ y0) (hx0 : -(1 / 2) ≤ nth0 l0) (hx1 : -(1 / 2) ≤ nth0 l1) :
    ∀ row ∈ scan y0 y1 l0 l1 r0 r1, ∀ (j : Nat) (f : List K), row.frags[j]? = some f →
      nth0 f = (row.x0 : K) + (j : K) + 1 / 2 ∧ nth1 f = (row.y : K) + 1 / 2 := by
  intro row hrow j f hf
  have hne : y1 - y0 ≠ 0 := by
    have : 0 < y1 - y0 := by linarith
    exact this.ne'
  obtain ⟨k, hk, hget⟩ := List.mem_iff_getElem.mp hrow
  obtain ⟨row1, hrow1, hfr⟩ := scan_frag_centre y0 y1 l0 l1 r0 r1 m hm hne h0 h1 h2 h3 hy0 hy0' hy1 hy1' hw k hk
  obtain ⟨row2, hrow2, hyk, hxk, -, -⟩ := scan_get y0 y1 l0 l1 r0 r1 hne (by rw [h0, h1]) (by omega) (by omega)
    (by omega) k hk
  rw [List.getElem?_eq_getElem hk, hget] at hrow1 hrow2
  have e1 : row = row1 := Option.some.inj hrow1
  have e2 : row = row2 := Option.some.inj hrow2
  subst e1
  subst e2
  obtain ⟨hj, hfj⟩ := List.getElem?_eq_some_iff.mp hf
  obtain ⟨f', hf', ex, ey⟩ := hfr j hj
  rw [hf] at hf'
  have ef : f = f' := Option.some.inj hf'
  subst ef
  have hfl0 : 0 ≤ ⌊y0 + 1 / 2⌋ := Int.floor_nonneg.mpr (by linarith)
  have hklen := hk
  rw [scan_length] at hklen
  -- the row's centre height lies in (y0, y1]
  set cy := roundUpHalf y0 + (k : K) with hcy
  have hcy0 : y0 ≤ cy := by
    rw [hcy, roundUpHalf_eq]
    have := Int.lt_floor_add_one (y0 + 1 / 2)
    have hk0 : (0 : K) ≤ (k : K) := Nat.cast_nonneg k
    linarith
  have hcy1 : cy ≤ y1 := by
    have hlt' : ⌊y0 + 1 / 2⌋ + (k : Int) < ⌊y1 + 1 / 2⌋ := by omega
    have := (lt_floor_half_iff y1 (⌊y0 + 1 / 2⌋ + (k : Int))).mp hlt'
    rw [hcy, roundUpHalf_eq]
    push_cast at this
    linarith
  -- so the left edge there is a convex combination of its end points
  have hd : 0 < y1 - y0 := by linarith
  set t := (cy - y0) / (y1 - y0) with ht
  have ht0 : 0 ≤ t := div_nonneg (by linarith) hd.le
  have ht1 : t ≤ 1 := by rw [ht, div_le_one hd]; linarith
  have he : -(1 / 2) ≤ edgeX y0 y1 l0 l1 cy := by
    unfold edgeX
    rw [← ht]
    have p1 := mul_nonneg ht0 (by linarith : 0 ≤ nth0 l1 + 1 / 2)
    have p2 := mul_nonneg (by linarith : 0 ≤ 1 - t) (by linarith : 0 ≤ nth0 l0 + 1 / 2)
    nlinarith
  have hfx : 0 ≤ ⌊edgeX y0 y1 l0 l1 cy + 1 / 2⌋ := Int.floor_nonneg.mpr (by linarith)
  constructor
  · rw [ex, roundUpHalf_eq]
    have : ((row.x0 : Int) : K) = ((⌊edgeX y0 y1 l0 l1 cy + 1 / 2⌋ : Int) : K) := by
      congr 1
      rw [hxk]; exact Int.toNat_of_nonneg hfx
    rw [Int.cast_natCast] at this
    rw [this]; ring
  · rw [ey, hcy, roundUpHalf_eq]
    have : ((row.y : Int) : K) = ((⌊y0 + 1 / 2⌋ + (k : Int) : Int) : K) := by
      congr 1
      rw [hyk]; exact Int.toNat_of_nonneg (by omega)
    rw [Int.cast_natCast] at this
    rw [this]; push_cast; ring

/-! ### Rows of `tri_fill` -/

/-- The y-sorted triple, the split point and the left/right assignment `tri_fill` uses. -/
theorem trifill_parts (a b c : List K) (m : Nat) (ha : a.length = m) (hb : b.length = m) (hc : c.length = m) :
    let T := (sort3 a b c).1
    let M := (sort3 a b c).2.1
    let B := (sort3 a b c).2.2
    let mid1 := lerpL T B ((nth1 M - nth1 T) / (nth1 B - nth1 T))
    let lr := if nth0 M < nth0 mid1 then (M, mid1) else (mid1, M)
    T.length = m ∧ M.length = m ∧ B.length = m ∧ mid1.length = m ∧ lr.1.length = m ∧ lr.2.length = m ∧
    nth1 T ≤ nth1 M ∧ nth1 M ≤ nth1 B ∧
    triFill a b c = scan (nth1 T) (nth1 M) T lr.1 T lr.2 ++ scan (nth1 M) (nth1 B) lr.1 B lr.2 B := by
  intro T M B mid1 lr
  obtain ⟨hT, hM, hB⟩ := sort3_lengths a b c m ha hb hc
  obtain ⟨h1, h2⟩ := sort3_sorted a b c
  have hmid : mid1.length = m := by simp only [mid1]; rw [lerpL_length, hT, hB, Nat.min_self]
  have hlr : lr.1.length = m ∧ lr.2.length = m := by
    simp only [lr]; split <;> exact ⟨by assumption, by assumption⟩
  exact ⟨hT, hM, hB, hmid, hlr.1, hlr.2, h1, h2, trifill_split a b c⟩

/-- **Rows of `tri_fill` arrive in strictly increasing `y`** (so no row, hence no pixel, twice), and every
row carries at least as many fragments as its span is long. -/
theorem trifill_sorted (a b c : List K) (m : Nat) (hm : 1 < m)
    (ha : a.length = m) (hb : b.length = m) (hc : c.length = m)
    (hy : ∀ v ∈ [a, b, c], -(1 / 2) ≤ nth1 v) :
    (triFill a b c).Pairwise (fun r s => r.y < s.y) ∧
    ∀ row ∈ triFill a b c, row.x1 - row.x0 ≤ row.frags.length := by
  have hp := trifill_parts a b c m ha hb hc
  simp only at hp
  obtain ⟨hT, hM, hB, -, hl1, hl2, h1, h2, hsplit⟩ := hp
  set T := (sort3 a b c).1 with hTdef
  set M := (sort3 a b c).2.1 with hMdef
  set B := (sort3 a b c).2.2 with hBdef
  have hyT : -(1 / 2) ≤ nth1 T := hy _ (sort3_mem a b c _ (by simp [T]))
  have hyM : -(1 / 2) ≤ nth1 M := hy _ (sort3_mem a b c _ (by simp [M]))
  set lr := (if nth0 M < nth0 (lerpL T B ((nth1 M - nth1 T) / (nth1 B - nth1 T)))
    then (M, lerpL T B ((nth1 M - nth1 T) / (nth1 B - nth1 T)))
    else (lerpL T B ((nth1 M - nth1 T) / (nth1 B - nth1 T)), M)) with hlrdef
  rw [hsplit]
  obtain ⟨s1, f1⟩ := scan_sorted (nth1 T) (nth1 M) T lr.1 T lr.2 (by rw [hT, hl1]) (by omega) (by omega) (by omega) hyT
  obtain ⟨s2, f2⟩ := scan_sorted (nth1 M) (nth1 B) lr.1 B lr.2 B (by rw [hl1, hB]) (by omega) (by omega) (by omega) hyM
  constructor
  · rw [List.pairwise_append]
    refine ⟨s1, s2, ?_⟩
    intro r hr s hs
    have := (f1 r hr).2.1
    have := (f2 s hs).1
    omega
  · intro row hrow
    rcases List.mem_append.mp hrow with h | h
    · exact (f1 row h).2.2
    · exact (f2 row h).2.2

/-- A scan between equal heights emits no row. -/
theorem scan_nil_of_eq (y0 y1 : K) (l0 l1 r0 r1 : List K) (h : y0 = y1) : scan y0 y1 l0 l1 r0 r1 = [] := by
  rw [← List.length_eq_zero_iff, scan_length, h]
  simp

theorem lerp_ge (lo a b t : K) (ha : lo ≤ a) (hb : lo ≤ b) (h0 : 0 ≤ t) (h1 : t ≤ 1) : lo ≤ lerp a b t := by
  unfold lerp
  nlinarith [mul_nonneg h0 (sub_nonneg.mpr hb), mul_nonneg (sub_nonneg.mpr h1) (sub_nonneg.mpr ha)]

/-- **Every fragment of a non-degenerate triangle with coordinates ≥ −½ sits at the centre of the pixel it
is written to**: fragment `j` of a row has `x = x0 + j + ½` and `y = row.y + ½`. -/
theorem trifill_frag_pixel (a b c : List K) (m : Nat) (hm : 1 < m)
    (ha : a.length = m) (hb : b.length = m) (hc : c.length = m) (harea : area2 a b c ≠ 0)
    (hy : ∀ v ∈ [a, b, c], -(1 / 2) ≤ nth1 v) (hx : ∀ v ∈ [a, b, c], -(1 / 2) ≤ nth0 v) :
    ∀ row ∈ triFill a b c, ∀ (j : Nat) (f : List K), row.frags[j]? = some f →
      nth0 f = (row.x0 : K) + (j : K) + 1 / 2 ∧ nth1 f = (row.y : K) + 1 / 2 := by
  have hp := trifill_parts a b c m ha hb hc
  have hdiv := trifill_divisors_ne_zero a b c m hm ha hb hc harea
  simp only at hp hdiv
  obtain ⟨hT, hM, hB, hmidlen, hl1, hl2, h1, h2, hsplit⟩ := hp
  obtain ⟨hne, hgap⟩ := hdiv
  set T := (sort3 a b c).1 with hTdef
  set M := (sort3 a b c).2.1 with hMdef
  set B := (sort3 a b c).2.2 with hBdef
  have hyT : -(1 / 2) ≤ nth1 T := hy _ (sort3_mem a b c _ (by simp [T]))
  have hyM : -(1 / 2) ≤ nth1 M := hy _ (sort3_mem a b c _ (by simp [M]))
  have hxT : -(1 / 2) ≤ nth0 T := hx _ (sort3_mem a b c _ (by simp [T]))
  have hxM : -(1 / 2) ≤ nth0 M := hx _ (sort3_mem a b c _ (by simp [M]))
  have hxB : -(1 / 2) ≤ nth0 B := hx _ (sort3_mem a b c _ (by simp [B]))
  set tpar := (nth1 M - nth1 T) / (nth1 B - nth1 T) with htpar
  have hBT : 0 < nth1 B - nth1 T := lt_of_le_of_ne (by linarith) (Ne.symm hne)
  have ht0 : 0 ≤ tpar := div_nonneg (by linarith) hBT.le
  have ht1 : tpar ≤ 1 := by rw [htpar, div_le_one hBT]; linarith
  set mid1 := lerpL T B tpar with hmid1
  have hmidy : nth1 mid1 = nth1 M := nth1_mid1 T B (nth1 M) (by omega) (by omega) hne
  have hmidx : -(1 / 2) ≤ nth0 mid1 := by
    rw [hmid1, nth0_lerpL _ _ _ (by omega) (by omega)]
    exact lerp_ge _ _ _ _ hxT hxB ht0 ht1
  set lr := (if nth0 M < nth0 mid1 then (M, mid1) else (mid1, M)) with hlrdef
  have hlr : nth1 lr.1 = nth1 M ∧ nth1 lr.2 = nth1 M ∧ nth0 lr.2 - nth0 lr.1 ≠ 0 ∧ -(1 / 2) ≤ nth0 lr.1 := by
    rw [hlrdef]
    split
    · exact ⟨rfl, hmidy, by intro h; apply hgap; linarith, hxM⟩
    · exact ⟨hmidy, rfl, by intro h; apply hgap; linarith, hmidx⟩
  obtain ⟨y1, y2, hw, hxl⟩ := hlr
  intro row hrow
  rw [hsplit] at hrow
  rcases List.mem_append.mp hrow with h | h
  · rcases h1.lt_or_eq with hlt | heq
    · exact scan_frag_pixel (nth1 T) (nth1 M) T lr.1 T lr.2 m hm hlt hT hl1 hT hl2 rfl rfl y1 y2
        (by rintro ⟨-, h'⟩; exact hw h') hyT hxT hxl row h
    · exfalso
      rw [scan_nil_of_eq _ _ _ _ _ _ heq] at h
      simp at h
  · rcases h2.lt_or_eq with hlt | heq
    · exact scan_frag_pixel (nth1 M) (nth1 B) lr.1 B lr.2 B m hm hlt hl1 hB hl2 hB y1 y2 rfl rfl
        (by rintro ⟨h', -⟩; exact hw h') hyM hxl hxB row h
    · exfalso
      rw [scan_nil_of_eq _ _ _ _ _ _ heq] at h
      simp at h

/-! ### What one triangle delivers to one pixel -/

/-- **One fragment per triangle per pixel.** For screen tuples of a common length ≥ 2 with y ≥ −½: pixel
(x, y) receives nothing from `tri_fill a b c` when it is not covered, and exactly one fragment when it is —
`zdiv` of fragment `x − x0` of the unique row of that `y`. -/
theorem fragsAt_trifill (a b c : List K) (m : Nat) (hm : 1 < m)
    (ha : a.length = m) (hb : b.length = m) (hc : c.length = m)
    (hy : ∀ v ∈ [a, b, c], -(1 / 2) ≤ nth1 v) (x y : Nat) :
    (¬ Covers (triFill a b c) x y → fragsAt (triFill a b c) x y = []) ∧
    (Covers (triFill a b c) x y →
      ∃ row ∈ triFill a b c, ∃ f, row.y = y ∧ row.x0 ≤ x ∧ x < row.x1 ∧ row.frags[x - row.x0]? = some f ∧
        (∀ row' ∈ triFill a b c, row'.y = y → row' = row) ∧
        fragsAt (triFill a b c) x y = [zdiv f]) := by
  obtain ⟨hs, hlen⟩ := trifill_sorted a b c m hm ha hb hc hy
  constructor
  · intro hnc
    apply fragsAt_nil_of
    intro s hs'
    rw [slFrag_eq, if_neg]
    rintro ⟨h1, h2, h3⟩
    exact hnc ⟨s, hs', h1, h2, h3⟩
  · rintro ⟨row, hrow, hry, hx0, hx1⟩
    have hl := hlen row hrow
    have hj : x - row.x0 < row.frags.length := by omega
    refine ⟨row, hrow, row.frags[x - row.x0], hry, hx0, hx1, List.getElem?_eq_getElem hj, ?_, ?_⟩
    · intro row' hrow' hy'
      exact sorted_rows_inj _ hs row' row hrow' hrow (by rw [hy', hry])
    · subst hry
      rw [fragsAt_sorted _ hs row hrow x, slFrag_eq, if_pos ⟨rfl, hx0, hx1⟩, List.getElem?_eq_getElem hj]
      rfl

/-- Centre of pixel (x, y). -/
def centre (x y : Nat) : K × K := ((x : K) + 1 / 2, (y : K) + 1 / 2)

/-- Barycentric coordinates of the point `p` in the screen triangle `a b c`: `E_bc/o`, `E_ca/o`, `E_ab/o`
(the weights of `Retro.Props.C04.inside_bary`). -/
def baryA (a b c : List K) (p : K × K) : K := edgeFn (pt b) (pt c) p / orient (pt a) (pt b) (pt c)
def baryB (a b c : List K) (p : K × K) : K := edgeFn (pt c) (pt a) p / orient (pt a) (pt b) (pt c)
def baryC (a b c : List K) (p : K × K) : K := edgeFn (pt a) (pt b) p / orient (pt a) (pt b) (pt c)

/-- The raw (pre-`zdiv`) tuple of the ideal fragment at pixel (x, y): every component (x, y, 1/w, attr/w)
evaluated at the pixel centre on the plane through the three vertex tuples. -/
def idealRaw (a b c : List K) (x y : Nat) : List K :=
  combL (baryA a b c (centre x y)) (baryB a b c (centre x y)) (baryC a b c (centre x y)) a b c

/-- The ideal fragment: attributes divided by the interpolated reciprocal depth. -/
def idealFrag (a b c : List K) (x y : Nat) : List K := zdiv (idealRaw a b c x y)

theorem area2_eq_orient (a b c : List K) : area2 a b c = orient (pt a) (pt b) (pt c) := rfl

/-- An affine combination of three points that reproduces `p` has the edge-function weights: for a
non-degenerate triangle (`orient ≠ 0`) the weights are unique. -/
theorem bary_unique (a b c p : K × K) (α β γ : K) (hs : α + β + γ = 1)
    (hx : p.1 = α * a.1 + β * b.1 + γ * c.1) (hy : p.2 = α * a.2 + β * b.2 + γ * c.2) :
    edgeFn b c p = α * orient a b c ∧ edgeFn c a p = β * orient a b c ∧ edgeFn a b p = γ * orient a b c := by
  have hg : γ = 1 - α - β := by linarith
  unfold edgeFn orient cross
  rw [hx, hy, hg]
  refine ⟨?_, ?_, ?_⟩ <;> ring

theorem nth0_combL (α β γ : K) (a b c : List K) (ha : 0 < a.length) (hb : 0 < b.length) (hc : 0 < c.length) :
    nth0 (combL α β γ a b c) = α * nth0 a + β * nth0 b + γ * nth0 c := by
  match a, b, c, ha, hb, hc with
  | _ :: _, _ :: _, _ :: _, _, _, _ => simp [combL, nth0]

theorem nth1_combL (α β γ : K) (a b c : List K) (ha : 1 < a.length) (hb : 1 < b.length) (hc : 1 < c.length) :
    nth1 (combL α β γ a b c) = α * nth1 a + β * nth1 b + γ * nth1 c := by
  match a, b, c, ha, hb, hc with
  | _ :: _ :: _, _ :: _ :: _, _ :: _ :: _, _, _, _ => simp [combL, nth1]

theorem nth2_combL (α β γ : K) (a b c : List K) (h1 : a.length = b.length) (h2 : b.length = c.length) :
    nth2 (combL α β γ a b c) = α * nth2 a + β * nth2 b + γ * nth2 c := by
  rcases a with _ | ⟨x0, _ | ⟨x1, _ | ⟨x2, xs⟩⟩⟩ <;> rcases b with _ | ⟨y0, _ | ⟨y1, _ | ⟨y2, ys⟩⟩⟩ <;>
    rcases c with _ | ⟨z0, _ | ⟨z1, _ | ⟨z2, zs⟩⟩⟩ <;> simp at h1 h2 <;> simp [combL, nth2]

theorem nth0_zdiv (v : List K) : nth0 (zdiv v) = nth0 v := by
  rcases v with _ | ⟨x0, _ | ⟨x1, _ | ⟨x2, xs⟩⟩⟩ <;> simp [zdiv, nth0]

theorem nth1_zdiv (v : List K) : nth1 (zdiv v) = nth1 v := by
  rcases v with _ | ⟨x0, _ | ⟨x1, _ | ⟨x2, xs⟩⟩⟩ <;> simp [zdiv, nth1]

theorem nth2_zdiv (v : List K) : nth2 (zdiv v) = nth2 v := by
  rcases v with _ | ⟨x0, _ | ⟨x1, _ | ⟨x2, xs⟩⟩⟩ <;> simp [zdiv, nth2]

/-- The barycentric coordinates of a centre that passes the inside test are ≥ 0, sum to 1 and reproduce
the centre (`inside_bary` on the screen tuples). -/
theorem bary_of_inside (a b c : List K) (x y : Nat) (hin : Inside (pt a) (pt b) (pt c) (centre x y)) :
    0 ≤ baryA a b c (centre x y) ∧ 0 ≤ baryB a b c (centre x y) ∧ 0 ≤ baryC a b c (centre x y) ∧
    baryA a b c (centre x y) + baryB a b c (centre x y) + baryC a b c (centre x y) = 1 ∧
    (x : K) + 1 / 2 = baryA a b c (centre x y) * nth0 a + baryB a b c (centre x y) * nth0 b
      + baryC a b c (centre x y) * nth0 c ∧
    (y : K) + 1 / 2 = baryA a b c (centre x y) * nth1 a + baryB a b c (centre x y) * nth1 b
      + baryC a b c (centre x y) * nth1 c :=
  inside_bary (pt a) (pt b) (pt c) (centre x y) hin

/-- **What that fragment is.** For screen tuples of a common length ≥ 2 with all coordinates ≥ −½: the
pixel whose centre passes the three-edge-function test receives exactly the ideal fragment — the
combination of the three vertex tuples with the barycentric coordinates of the pixel centre, attributes
divided by the interpolated reciprocal depth; every other pixel receives nothing. -/
theorem fragsAt_trifill_ideal (a b c : List K) (m : Nat) (hm : 1 < m)
    (ha : a.length = m) (hb : b.length = m) (hc : c.length = m)
    (hy : ∀ v ∈ [a, b, c], -(1 / 2) ≤ nth1 v) (hx : ∀ v ∈ [a, b, c], -(1 / 2) ≤ nth0 v) (x y : Nat) :
    (Inside (pt a) (pt b) (pt c) (centre x y) → fragsAt (triFill a b c) x y = [idealFrag a b c x y]) ∧
    (¬ Inside (pt a) (pt b) (pt c) (centre x y) → fragsAt (triFill a b c) x y = []) := by
  have hcov : Covers (triFill a b c) x y ↔ Inside (pt a) (pt b) (pt c) (centre x y) :=
    trifill_covers_iff_inside a b c m hm ha hb hc hy x y
  obtain ⟨hnil, hone⟩ := fragsAt_trifill a b c m hm ha hb hc hy x y
  refine ⟨fun hin => ?_, fun hnin => hnil (fun h => hnin (hcov.mp h))⟩
  obtain ⟨row, hrow, f, hry, hx0, hx1, hf, -, hfr⟩ := hone (hcov.mpr hin)
  rw [hfr]
  have ho : orient (pt a) (pt b) (pt c) ≠ 0 := hin.1
  obtain ⟨α, β, γ, hsum, hfe⟩ := frag_on_plane a b c (by rw [ha, hb]) (by rw [hb, hc]) row hrow f
    (List.mem_of_getElem? hf)
  obtain ⟨px, py⟩ := trifill_frag_pixel a b c m hm ha hb hc ho hy hx row hrow _ f hf
  rw [hfe, nth0_combL _ _ _ _ _ _ (by omega) (by omega) (by omega)] at px
  rw [hfe, nth1_combL _ _ _ _ _ _ (by omega) (by omega) (by omega)] at py
  have hcx : (row.x0 : K) + ((x - row.x0 : Nat) : K) + 1 / 2 = (x : K) + 1 / 2 := by
    rw [Nat.cast_sub hx0]; ring
  obtain ⟨e1, e2, e3⟩ := bary_unique (pt a) (pt b) (pt c) (centre x y) α β γ hsum
    (by show (x : K) + 1 / 2 = _; rw [← hcx, ← px]; rfl)
    (by show (y : K) + 1 / 2 = _; rw [← hry, ← py]; rfl)
  unfold idealFrag idealRaw baryA baryB baryC
  rw [e1, e2, e3, mul_div_cancel_right₀ _ ho, mul_div_cancel_right₀ _ ho, mul_div_cancel_right₀ _ ho, hfe]

/-- The ideal fragment sits at the pixel centre. -/
theorem idealFrag_pos (a b c : List K) (m : Nat) (hm : 1 < m)
    (ha : a.length = m) (hb : b.length = m) (hc : c.length = m) (x y : Nat)
    (hin : Inside (pt a) (pt b) (pt c) (centre x y)) :
    nth0 (idealFrag a b c x y) = (x : K) + 1 / 2 ∧ nth1 (idealFrag a b c x y) = (y : K) + 1 / 2 := by
  obtain ⟨-, -, -, -, hX, hY⟩ := bary_of_inside a b c x y hin
  unfold idealFrag idealRaw
  rw [nth0_zdiv, nth1_zdiv, nth0_combL _ _ _ _ _ _ (by omega) (by omega) (by omega),
    nth1_combL _ _ _ _ _ _ (by omega) (by omega) (by omega)]
  exact ⟨hX.symm, hY.symm⟩

/-- Its depth slot is the value, at the pixel centre, of the plane through the three vertices' depth slots
(`z = 1/w`): the barycentric combination. -/
theorem idealFrag_depth (a b c : List K) (h1 : a.length = b.length) (h2 : b.length = c.length) (x y : Nat) :
    nth2 (idealFrag a b c x y) = baryA a b c (centre x y) * nth2 a + baryB a b c (centre x y) * nth2 b
      + baryC a b c (centre x y) * nth2 c := by
  unfold idealFrag idealRaw
  rw [nth2_zdiv, nth2_combL _ _ _ _ _ _ h1 h2]

/-- **The depth of a covered pixel's fragment lies between the smallest and the largest vertex depth.** -/
theorem frag_depth_between (a b c : List K) (h1 : a.length = b.length) (h2 : b.length = c.length) (x y : Nat)
    (hin : Inside (pt a) (pt b) (pt c) (centre x y)) :
    min (nth2 a) (min (nth2 b) (nth2 c)) ≤ nth2 (idealFrag a b c x y) ∧
    nth2 (idealFrag a b c x y) ≤ max (nth2 a) (max (nth2 b) (nth2 c)) := by
  obtain ⟨hA, hB, hC, hsum, -, -⟩ := bary_of_inside a b c x y hin
  rw [idealFrag_depth a b c h1 h2]
  generalize baryA a b c (centre x y) = α at *
  generalize baryB a b c (centre x y) = β at *
  generalize baryC a b c (centre x y) = γ at *
  constructor
  · set lo := min (nth2 a) (min (nth2 b) (nth2 c)) with hlo
    have la : lo ≤ nth2 a := min_le_left _ _
    have lb : lo ≤ nth2 b := le_trans (min_le_right _ _) (min_le_left _ _)
    have lc : lo ≤ nth2 c := le_trans (min_le_right _ _) (min_le_right _ _)
    clear_value lo
    have e : α * nth2 a + β * nth2 b + γ * nth2 c - lo
        = α * (nth2 a - lo) + β * (nth2 b - lo) + γ * (nth2 c - lo) := by linear_combination lo * hsum
    have := mul_nonneg hA (sub_nonneg.mpr la)
    have := mul_nonneg hB (sub_nonneg.mpr lb)
    have := mul_nonneg hC (sub_nonneg.mpr lc)
    linarith
  · set hi := max (nth2 a) (max (nth2 b) (nth2 c)) with hhi
    have la : nth2 a ≤ hi := le_max_left _ _
    have lb : nth2 b ≤ hi := le_trans (le_max_left _ _) (le_max_right _ _)
    have lc : nth2 c ≤ hi := le_trans (le_max_right _ _) (le_max_right _ _)
    clear_value hi
    have e : hi - (α * nth2 a + β * nth2 b + γ * nth2 c)
        = α * (hi - nth2 a) + β * (hi - nth2 b) + γ * (hi - nth2 c) := by linear_combination (-hi) * hsum
    have := mul_nonneg hA (sub_nonneg.mpr la)
    have := mul_nonneg hB (sub_nonneg.mpr lb)
    have := mul_nonneg hC (sub_nonneg.mpr lc)
    linarith

/-! ### The fragment of a clip-space triangle drawn through the viewport matrix -/

/-- The ideal fragment of clip-space triangle `tri` at pixel (x, y) under screen matrix `m`. -/
def pixFrag (m : Mat4 K) (tri : Tri K) (x y : Nat) : List K :=
  idealFrag (toScreen m tri.a) (toScreen m tri.b) (toScreen m tri.c) x y

/-- The centre of pixel (x, y) passes the three-edge-function test of `tri`'s screen projection. -/
def InsideTri (m : Mat4 K) (tri : Tri K) (x y : Nat) : Prop :=
  Inside (pt (toScreen m tri.a)) (pt (toScreen m tri.b)) (pt (toScreen m tri.c)) (centre x y)

/-- **Perspective-correct content of a covered pixel.** `tri` is drawn through the viewport matrix
`vpMat dx dy cx cy`, its three `w` are positive, and the centre of pixel (x, y) is inside its projection.
Then there are weights γ₀, γ₁, γ₂ ≥ 0, Σγᵢ = 1 — the perspective-corrected barycentric coordinates
`(aᵢ/wᵢ)/Σ(aⱼ/wⱼ)` of `persp_weights` — and a depth `d > 0` such that the ideal fragment is exactly
`[x+½, y+½, d, Σγᵢ·attrᵢ …]` with
  * attributes `Σγᵢ·attrᵢ` of the CLIP-space vertices (interpolation affine in clip space),
  * `d · Σγᵢwᵢ = 1` (the depth slot is the reciprocal of the clip-space-affine `w`),
  * and the pixel centre is the viewport image of the projection of the clip-space point `ΣγᵢPᵢ`. -/
theorem pixFrag_persp (dx dy cx cy : K) (tri : Tri K) (x y : Nat)
    (hwa : 0 < tri.a.pos.w) (hwb : 0 < tri.b.pos.w) (hwc : 0 < tri.c.pos.w)
    (hin : InsideTri (vpMat dx dy cx cy) tri x y) :
    ∃ g0 g1 g2 d : K, 0 ≤ g0 ∧ 0 ≤ g1 ∧ 0 ≤ g2 ∧ g0 + g1 + g2 = 1 ∧ 0 < d ∧
      d * (g0 * tri.a.pos.w + g1 * tri.b.pos.w + g2 * tri.c.pos.w) = 1 ∧
      pixFrag (vpMat dx dy cx cy) tri x y =
        ((x : K) + 1 / 2) :: ((y : K) + 1 / 2) :: d :: combL g0 g1 g2 tri.a.attr tri.b.attr tri.c.attr ∧
      (x : K) + 1 / 2 = cx + dx * ((g0 * tri.a.pos.x + g1 * tri.b.pos.x + g2 * tri.c.pos.x) * d) ∧
      (y : K) + 1 / 2 = cy + dy * ((g0 * tri.a.pos.y + g1 * tri.b.pos.y + g2 * tri.c.pos.y) * d) := by
  obtain ⟨hA, hB, hC, hsum, hX, hY⟩ := bary_of_inside _ _ _ x y hin
  unfold pixFrag idealFrag idealRaw
  generalize baryA (toScreen (vpMat dx dy cx cy) tri.a) (toScreen (vpMat dx dy cx cy) tri.b)
    (toScreen (vpMat dx dy cx cy) tri.c) (centre x y) = α at *
  generalize baryB (toScreen (vpMat dx dy cx cy) tri.a) (toScreen (vpMat dx dy cx cy) tri.b)
    (toScreen (vpMat dx dy cx cy) tri.c) (centre x y) = β at *
  generalize baryC (toScreen (vpMat dx dy cx cy) tri.a) (toScreen (vpMat dx dy cx cy) tri.b)
    (toScreen (vpMat dx dy cx cy) tri.c) (centre x y) = γ at *
  unfold vpMat at hX hY ⊢
  rw [toScreen_spec, toScreen_spec, toScreen_spec] at hX hY ⊢
  simp only [nth0, nth1] at hX hY
  simp only [combL, zdiv]
  obtain ⟨hs0, k0, k1, k2, ksum⟩ := persp_weights α β γ tri.a.pos.w tri.b.pos.w tri.c.pos.w hA hB hC hsum hwa hwb hwc
  have hZ : α * (1 / tri.a.pos.w) + β * (1 / tri.b.pos.w) + γ * (1 / tri.c.pos.w)
      = α / tri.a.pos.w + β / tri.b.pos.w + γ / tri.c.pos.w := by ring
  rw [hZ]
  set Z := α / tri.a.pos.w + β / tri.b.pos.w + γ / tri.c.pos.w with hZdef
  have hZne : Z ≠ 0 := hs0.ne'
  refine ⟨α / tri.a.pos.w / Z, β / tri.b.pos.w / Z, γ / tri.c.pos.w / Z, Z, k0, k1, k2, ksum, hs0, ?_, ?_, ?_, ?_⟩
  · rw [persp_w α β γ _ _ _ hsum hwa.ne' hwb.ne' hwc.ne' hZne]
    exact mul_one_div_cancel hZne
  · rw [← hX, ← hY, combL_div α β γ _ _ _ Z _ _ _ hwa.ne' hwb.ne' hwc.ne' hZne]
  · have e : (α / tri.a.pos.w / Z * tri.a.pos.x + β / tri.b.pos.w / Z * tri.b.pos.x
        + γ / tri.c.pos.w / Z * tri.c.pos.x) * Z
        = α * (tri.a.pos.x / tri.a.pos.w) + β * (tri.b.pos.x / tri.b.pos.w) + γ * (tri.c.pos.x / tri.c.pos.w) := by
      field_simp
    rw [e, hX]
    linear_combination cx * hsum
  · have e : (α / tri.a.pos.w / Z * tri.a.pos.y + β / tri.b.pos.w / Z * tri.b.pos.y
        + γ / tri.c.pos.w / Z * tri.c.pos.y) * Z
        = α * (tri.a.pos.y / tri.a.pos.w) + β * (tri.b.pos.y / tri.b.pos.w) + γ * (tri.c.pos.y / tri.c.pos.w) := by
      field_simp
    rw [e, hY]
    linear_combination cy * hsum

/-- **…in terms of the INPUT triangle.** If `tri` is one of the pieces the clipper emits for input triangle
`t` (`tri = t` when `t` needs no clipping), the covered pixel's fragment is `[x+½, y+½, d, Σγᵢ·attrᵢ …]` with
the attributes `attrᵢ` of `t`'s OWN vertices, γ ≥ 0, Σγᵢ = 1, `d` the reciprocal of the clip-space-affine
`w = Σγᵢwᵢ` of that point of `t`, and the pixel centre the viewport image of its projection: the pixel shows
the point of the input triangle that projects onto its centre, perspective-correctly interpolated. -/
theorem pixFrag_input (dx dy cx cy : K) (t tri : Tri K) (htri : tri ∈ clipTri t)
    (hlen : t.a.attr.length = t.b.attr.length ∧ t.b.attr.length = t.c.attr.length) (x y : Nat)
    (hwa : 0 < tri.a.pos.w) (hwb : 0 < tri.b.pos.w) (hwc : 0 < tri.c.pos.w)
    (hin : InsideTri (vpMat dx dy cx cy) tri x y) :
    ∃ g0 g1 g2 d : K, 0 ≤ g0 ∧ 0 ≤ g1 ∧ 0 ≤ g2 ∧ g0 + g1 + g2 = 1 ∧ 0 < d ∧
      d * (g0 * t.a.pos.w + g1 * t.b.pos.w + g2 * t.c.pos.w) = 1 ∧
      pixFrag (vpMat dx dy cx cy) tri x y =
        ((x : K) + 1 / 2) :: ((y : K) + 1 / 2) :: d :: combL g0 g1 g2 t.a.attr t.b.attr t.c.attr ∧
      (x : K) + 1 / 2 = cx + dx * ((g0 * t.a.pos.x + g1 * t.b.pos.x + g2 * t.c.pos.x) * d) ∧
      (y : K) + 1 / 2 = cy + dy * ((g0 * t.a.pos.y + g1 * t.b.pos.y + g2 * t.c.pos.y) * d) := by
  obtain ⟨a0, b0, c0, pa0, pb0, pc0, hs0, hp0, hA0⟩ :=
    Retro.Props.C03.clip_bary t hlen tri htri tri.a (by simp [Retro.Props.C03.triVerts])
  obtain ⟨a1, b1, c1, pa1, pb1, pc1, hs1, hp1, hA1⟩ :=
    Retro.Props.C03.clip_bary t hlen tri htri tri.b (by simp [Retro.Props.C03.triVerts])
  obtain ⟨a2, b2, c2, pa2, pb2, pc2, hs2, hp2, hA2⟩ :=
    Retro.Props.C03.clip_bary t hlen tri htri tri.c (by simp [Retro.Props.C03.triVerts])
  rw [c03_combL_eq] at hA0 hA1 hA2
  obtain ⟨g0, g1, g2, d, k0, k1, k2, ksum, hpos, hw, hform, hX, hY⟩ :=
    pixFrag_persp dx dy cx cy tri x y hwa hwb hwc hin
  have hwA : tri.a.pos.w = a0 * t.a.pos.w + b0 * t.b.pos.w + c0 * t.c.pos.w := by rw [hp0]; rfl
  have hwB : tri.b.pos.w = a1 * t.a.pos.w + b1 * t.b.pos.w + c1 * t.c.pos.w := by rw [hp1]; rfl
  have hwC : tri.c.pos.w = a2 * t.a.pos.w + b2 * t.b.pos.w + c2 * t.c.pos.w := by rw [hp2]; rfl
  have hxA : tri.a.pos.x = a0 * t.a.pos.x + b0 * t.b.pos.x + c0 * t.c.pos.x := by rw [hp0]; rfl
  have hxB : tri.b.pos.x = a1 * t.a.pos.x + b1 * t.b.pos.x + c1 * t.c.pos.x := by rw [hp1]; rfl
  have hxC : tri.c.pos.x = a2 * t.a.pos.x + b2 * t.b.pos.x + c2 * t.c.pos.x := by rw [hp2]; rfl
  have hyA : tri.a.pos.y = a0 * t.a.pos.y + b0 * t.b.pos.y + c0 * t.c.pos.y := by rw [hp0]; rfl
  have hyB : tri.b.pos.y = a1 * t.a.pos.y + b1 * t.b.pos.y + c1 * t.c.pos.y := by rw [hp1]; rfl
  have hyC : tri.c.pos.y = a2 * t.a.pos.y + b2 * t.b.pos.y + c2 * t.c.pos.y := by rw [hp2]; rfl
  refine ⟨g0 * a0 + g1 * a1 + g2 * a2, g0 * b0 + g1 * b1 + g2 * b2, g0 * c0 + g1 * c1 + g2 * c2, d,
    ?_, ?_, ?_, ?_, hpos, ?_, ?_, ?_, ?_⟩
  · exact add_nonneg (add_nonneg (mul_nonneg k0 pa0) (mul_nonneg k1 pa1)) (mul_nonneg k2 pa2)
  · exact add_nonneg (add_nonneg (mul_nonneg k0 pb0) (mul_nonneg k1 pb1)) (mul_nonneg k2 pb2)
  · exact add_nonneg (add_nonneg (mul_nonneg k0 pc0) (mul_nonneg k1 pc1)) (mul_nonneg k2 pc2)
  · linear_combination g0 * hs0 + g1 * hs1 + g2 * hs2 + ksum
  · rw [← hw, hwA, hwB, hwC]; ring
  · rw [hform, hA0, hA1, hA2, combL_combL]
  · rw [hX, hxA, hxB, hxC]; ring
  · rw [hY, hyA, hyB, hyC]; ring

/-! ### Decidability (so that concrete scenes can be decided by the kernel) -/

instance decInside (a b c p : K × K) : Decidable (Inside a b c p) := by
  unfold Inside EdgeOK OKs Owns; infer_instance

instance decInsideTri (m : Mat4 K) (tri : Tri K) (x y : Nat) : Decidable (InsideTri m tri x y) := by
  unfold InsideTri; infer_instance

/-! ### Non-vacuity (ℚ): the triangle (2,1), (8,5), (4,6) with depths 1, ½, ¼ and attributes 0, 3, 6 -/

section Examples

private theorem exA_y : ∀ v ∈ [([2, 1, 1, 0] : List Rat), [8, 5, 1 / 2, 3], [4, 6, 1 / 4, 6]], -(1 / 2) ≤ nth1 v := by
  intro v hv
  simp only [List.mem_cons, List.mem_nil_iff, or_false] at hv
  rcases hv with rfl | rfl | rfl <;> norm_num [nth1]

private theorem exA_x : ∀ v ∈ [([2, 1, 1, 0] : List Rat), [8, 5, 1 / 2, 3], [4, 6, 1 / 4, 6]], -(1 / 2) ≤ nth0 v := by
  intro v hv
  simp only [List.mem_cons, List.mem_nil_iff, or_false] at hv
  rcases hv with rfl | rfl | rfl <;> norm_num [nth0]

/-- Pixel (4,3): its centre is inside, so by `fragsAt_trifill_ideal` it receives exactly the ideal fragment … -/
example : fragsAt (triFill (α := Rat) [2, 1, 1, 0] [8, 5, 1 / 2, 3] [4, 6, 1 / 4, 6]) 4 3 =
    [idealFrag ([2, 1, 1, 0] : List Rat) [8, 5, 1 / 2, 3] [4, 6, 1 / 4, 6] 4 3] :=
  (fragsAt_trifill_ideal (K := Rat) [2, 1, 1, 0] [8, 5, 1 / 2, 3] [4, 6, 1 / 4, 6] 4 (by omega) rfl rfl rfl
    exA_y exA_x 4 3).1
    (by norm_num [Inside, EdgeOK, OKs, Owns, edgeFn, orient, cross, sgn, pt, nth0, nth1, centre])

/-- … which is the centre (4½, 3½), depth 29/44 (between ¼ and 1), attribute 105/29; the model run by the
kernel agrees, and pixel (2,3), whose centre is outside, receives nothing. -/
example : idealFrag ([2, 1, 1, 0] : List Rat) [8, 5, 1 / 2, 3] [4, 6, 1 / 4, 6] 4 3 = [9 / 2, 7 / 2, 29 / 44, 105 / 29] ∧
    fragsAt (triFill (α := Rat) [2, 1, 1, 0] [8, 5, 1 / 2, 3] [4, 6, 1 / 4, 6]) 4 3 = [[9 / 2, 7 / 2, 29 / 44, 105 / 29]] ∧
    fragsAt (triFill (α := Rat) [2, 1, 1, 0] [8, 5, 1 / 2, 3] [4, 6, 1 / 4, 6]) 2 3 = [] := by
  decide +kernel

example : fragsAt (triFill (α := Rat) [2, 1, 1, 0] [8, 5, 1 / 2, 3] [4, 6, 1 / 4, 6]) 2 3 = [] :=
  (fragsAt_trifill_ideal (K := Rat) [2, 1, 1, 0] [8, 5, 1 / 2, 3] [4, 6, 1 / 4, 6] 4 (by omega) rfl rfl rfl
    exA_y exA_x 2 3).2
    (by norm_num [Inside, EdgeOK, OKs, Owns, edgeFn, orient, cross, sgn, pt, nth0, nth1, centre])

/-- `fragsAt_trifill` (item 1) on the same pixel: the covering row is row 3, span [3, 6), fragment index 1. -/
example : ∃ row ∈ triFill (α := Rat) [2, 1, 1, 0] [8, 5, 1 / 2, 3] [4, 6, 1 / 4, 6], ∃ f,
    row.y = 3 ∧ row.x0 ≤ 4 ∧ 4 < row.x1 ∧ row.frags[4 - row.x0]? = some f ∧
    (∀ row' ∈ triFill (α := Rat) [2, 1, 1, 0] [8, 5, 1 / 2, 3] [4, 6, 1 / 4, 6], row'.y = 3 → row' = row) ∧
    fragsAt (triFill (α := Rat) [2, 1, 1, 0] [8, 5, 1 / 2, 3] [4, 6, 1 / 4, 6]) 4 3 = [zdiv f] :=
  (fragsAt_trifill (K := Rat) [2, 1, 1, 0] [8, 5, 1 / 2, 3] [4, 6, 1 / 4, 6] 4 (by omega) rfl rfl rfl exA_y 4 3).2
    (by unfold Covers; decide +kernel)

end Examples

end Retro.Props.C01
