/-
C01 — Rendered image equals the ideal perspective-correct image.

What is proved here (exact arithmetic, any linearly ordered field), about the model functions
the correspondence check runs against render():

  * `toScreen_spec`        the per-vertex work of render(): screen position = viewport(x/w, y/w),
                           depth slot = 1/w, attributes = attr/w
  * `persp_weights`        for screen-space weights (a,b,c) (a+b+c = 1) of a fragment and vertex depths
                           w₀,w₁,w₂ > 0, the clip-space weights αᵢ = (aᵢ/wᵢ)/Σ(aⱼ/wⱼ) are ≥ 0 and sum to 1
                           when the aᵢ are ≥ 0
  * `persp_attr`           Σ aᵢ·(attrᵢ/wᵢ) / Σ aᵢ/wᵢ = Σ αᵢ·attrᵢ        (what `zdiv` computes)
  * `persp_depth`          Σ aᵢ/wᵢ = 1 / Σ αᵢ·wᵢ                        (the depth slot is the reciprocal of the
                           clip-space-affine w)
  * `persp_position`       Σ aᵢ·(xᵢ/wᵢ) = (Σ αᵢ·xᵢ) / (Σ αᵢ·wᵢ)          (the fragment's NDC position is the
                           projection of the clip-space point Σ αᵢPᵢ of the triangle)
  Together with C05 `frag_on_plane` (every fragment is one affine combination of the screen
  vertices) and C03 `clip_bary` (clipped vertices are convex combinations of the input, attributes
  alike) this is the statement that every written pixel holds the input triangle's attribute,
  interpolated affinely in clip space, at the point that projects to the pixel centre, and 1/w of it.
Which pixels are written and which surface wins is composed in `Retro.Props.C01.Ideal` and
`Retro.Props.C01.Visible*` (`render_pixel_c01`, `render_pixel_c01_visible`). PARTIAL: float rounding
(0.5 % / 0.2 %) is outside the theorems; the homogeneous-rasterisation oracle `Retro.Spec.Ideal` decides it
per scene on the implementation's own buffers.
-/
import Retro.Model.Render
import Retro.Lemmas.Clip
import Mathlib.Tactic.Ring
import Mathlib.Tactic.FieldSimp
import Mathlib.Tactic.Positivity
import Mathlib.Tactic.Linarith

namespace Retro.Props.C01
open Retro Retro.Clip Retro.Raster Retro.Render

variable {K : Type} [Field K] [LinearOrder K] [IsStrictOrderedRing K]

/-- render.rs:140-157 for one vertex, with the library's viewport matrix
`[[dx,0,0,cx],[0,dy,0,cy],[0,0,1,0],[0,0,0,1]]`. -/
theorem toScreen_spec [HasFloor K] [HasToNat K] (dx dy cx cy : K) (v : ClipVert K) :
    toScreen (⟨⟨dx, 0, 0, cx⟩, ⟨0, dy, 0, cy⟩, ⟨0, 0, 1, 0⟩, ⟨0, 0, 0, 1⟩⟩ : Mat4 K) v =
      (cx + dx * (v.pos.x / v.pos.w)) :: (cy + dy * (v.pos.y / v.pos.w)) :: (1 / v.pos.w) ::
        v.attr.map (· / v.pos.w) := by
  simp only [toScreen, applyMat, dot4]
  congr 1
  · ring
  · congr 1
    · ring
    · congr 1; ring

/-- Clip-space weights from screen-space weights are a convex combination. -/
theorem persp_weights (a b c w0 w1 w2 : K) (ha : 0 ≤ a) (hb : 0 ≤ b) (hc : 0 ≤ c) (hs : a + b + c = 1)
    (h0 : 0 < w0) (h1 : 0 < w1) (h2 : 0 < w2) :
    let s := a / w0 + b / w1 + c / w2
    0 < s ∧ 0 ≤ a / w0 / s ∧ 0 ≤ b / w1 / s ∧ 0 ≤ c / w2 / s ∧ a / w0 / s + b / w1 / s + c / w2 / s = 1 := by
  intro s
  have hs0 : 0 < s := by
    have e0 : 0 ≤ a / w0 := div_nonneg ha h0.le
    have e1 : 0 ≤ b / w1 := div_nonneg hb h1.le
    have e2 : 0 ≤ c / w2 := div_nonneg hc h2.le
    rcases lt_trichotomy 0 a with h | h | h
    · have : 0 < a / w0 := div_pos h h0
      show 0 < a / w0 + b / w1 + c / w2; linarith
    · rcases lt_trichotomy 0 b with h' | h' | h'
      · have : 0 < b / w1 := div_pos h' h1
        show 0 < a / w0 + b / w1 + c / w2; linarith
      · have hc' : 0 < c := by linarith
        have : 0 < c / w2 := div_pos hc' h2
        show 0 < a / w0 + b / w1 + c / w2; linarith
      · linarith
    · linarith
  refine ⟨hs0, div_nonneg (div_nonneg ha h0.le) hs0.le, div_nonneg (div_nonneg hb h1.le) hs0.le,
    div_nonneg (div_nonneg hc h2.le) hs0.le, ?_⟩
  rw [← add_div, ← add_div]; exact div_self hs0.ne'

/-- What `zdiv` computes is the clip-space-affine interpolation of the attribute. -/
theorem persp_attr (a b c w0 w1 w2 t0 t1 t2 : K) (h0 : w0 ≠ 0) (h1 : w1 ≠ 0) (h2 : w2 ≠ 0)
    (hs : a / w0 + b / w1 + c / w2 ≠ 0) :
    (a * (t0 / w0) + b * (t1 / w1) + c * (t2 / w2)) / (a * (1 / w0) + b * (1 / w1) + c * (1 / w2)) =
      (a / w0 / (a / w0 + b / w1 + c / w2)) * t0 + (b / w1 / (a / w0 + b / w1 + c / w2)) * t1
        + (c / w2 / (a / w0 + b / w1 + c / w2)) * t2 := by
  have e : a * (1 / w0) + b * (1 / w1) + c * (1 / w2) = a / w0 + b / w1 + c / w2 := by ring
  rw [e]
  field_simp

/-- Σ αᵢ·wᵢ = 1/s: the clip-space-affine `w` of the fragment's pre-image. -/
theorem persp_w (a b c w0 w1 w2 : K) (hsum : a + b + c = 1) (h0 : w0 ≠ 0) (h1 : w1 ≠ 0) (h2 : w2 ≠ 0)
    (hs : a / w0 + b / w1 + c / w2 ≠ 0) :
    (a / w0 / (a / w0 + b / w1 + c / w2)) * w0 + (b / w1 / (a / w0 + b / w1 + c / w2)) * w1
        + (c / w2 / (a / w0 + b / w1 + c / w2)) * w2 = 1 / (a / w0 + b / w1 + c / w2) := by
  generalize hsd : a / w0 + b / w1 + c / w2 = s at hs ⊢
  have e : a / w0 / s * w0 + b / w1 / s * w1 + c / w2 / s * w2 = (a + b + c) / s := by
    field_simp
  rw [e, hsum]

/-- The interpolated depth slot is the reciprocal of the clip-space-affine `w`. -/
theorem persp_depth (a b c w0 w1 w2 : K) (hsum : a + b + c = 1) (h0 : w0 ≠ 0) (h1 : w1 ≠ 0) (h2 : w2 ≠ 0)
    (hs : a / w0 + b / w1 + c / w2 ≠ 0) :
    a * (1 / w0) + b * (1 / w1) + c * (1 / w2) =
      1 / ((a / w0 / (a / w0 + b / w1 + c / w2)) * w0 + (b / w1 / (a / w0 + b / w1 + c / w2)) * w1
        + (c / w2 / (a / w0 + b / w1 + c / w2)) * w2) := by
  rw [persp_w a b c w0 w1 w2 hsum h0 h1 h2 hs, one_div_one_div]
  ring

/-- The fragment's NDC position is the projection of the clip-space point `Σ αᵢ·Pᵢ`. -/
theorem persp_position (a b c w0 w1 w2 x0 x1 x2 : K) (hsum : a + b + c = 1)
    (h0 : w0 ≠ 0) (h1 : w1 ≠ 0) (h2 : w2 ≠ 0) (hs : a / w0 + b / w1 + c / w2 ≠ 0) :
    a * (x0 / w0) + b * (x1 / w1) + c * (x2 / w2) =
      ((a / w0 / (a / w0 + b / w1 + c / w2)) * x0 + (b / w1 / (a / w0 + b / w1 + c / w2)) * x1
        + (c / w2 / (a / w0 + b / w1 + c / w2)) * x2) /
      ((a / w0 / (a / w0 + b / w1 + c / w2)) * w0 + (b / w1 / (a / w0 + b / w1 + c / w2)) * w1
        + (c / w2 / (a / w0 + b / w1 + c / w2)) * w2) := by
  rw [persp_w a b c w0 w1 w2 hsum h0 h1 h2 hs]
  generalize hsd : a / w0 + b / w1 + c / w2 = s at hs ⊢
  field_simp

/-- Non-vacuity: weights (1/2, 1/4, 1/4) and depths 1, 2, 4. -/
example : (1 / 2 : Rat) + 1 / 4 + 1 / 4 = 1 ∧ (1 / 2 : Rat) / 1 + (1 / 4) / 2 + (1 / 4) / 4 ≠ 0 := by
  constructor <;> norm_num

end Retro.Props.C01
