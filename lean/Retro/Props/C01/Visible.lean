/-
C01 / Visible, part 1: determinant and edge-function transport through the clipper and the projection.

`det3 A B C` is the determinant of the (x, y, w) clip coordinates of three positions: its sign says on
which side of the plane through A, B, C the eye (the origin of (x, y, w)-space) lies.

  A. `det3_bary`          det3 of three points of `t`'s barycentric plane = orient2 (coords) * det3 t
     `clip_det3`          every clipped piece: det3 piece = orient2 s * det3 t with orient2 s ≥ 0
     `orient_proj`        screen orientation of projected points = dx*dy*det3 / (wa*wb*wc)
     `piece_backface_iff` every non-degenerate piece is back-facing iff 0 < dx*dy*det3 t
     `piece_culled_eq`    … hence culled iff `cullsInput ctx dx dy t`: all pieces of one input triangle are
                          culled or kept TOGETHER, by the side of the input triangle's plane the eye is on
  B. `edgeFn_bary`        edge function of a projected piece edge at a projected point of `t`
     `edgeFn_bary`, `strictIn_insideTri`, `insideTri_weakIn`, `insideTri_nondeg`   (file VisibleEdge)
-/
import Retro.Props.C01.Ideal
import Retro.Props.C03.Cover
import Retro.Props.C03.CoverAll
import Retro.Props.C07.Base

namespace Retro.Props.C01
open Retro Retro.Clip Retro.Raster Retro.Render Retro.Lemmas.Clip Retro.Lemmas.Raster Retro.Lemmas.Comb
open Retro.Props.C04 Retro.Props.C02
open Retro.Props.C03 (Pt orient2 baryPos baryD baryAttr Rep TriRep Tri2 InSimplex Visible WeakIn StrictIn
  TriWF comb2 comb4)

set_option linter.unusedSectionVars false

section Algebra
variable {K : Type} [Field K] [LinearOrder K] [IsStrictOrderedRing K]

/-- Determinant of the (x, y, w) coordinates of three clip-space positions. -/
def det3 (a b c : Vec4 K) : K :=
  a.x * (b.y * c.w - b.w * c.y) - a.y * (b.x * c.w - b.w * c.x) + a.w * (b.x * c.y - b.y * c.x)

/-- det3 of the input triangle -/
def triDet (t : Tri K) : K := det3 t.a.pos t.b.pos t.c.pos

/-- **A. Determinant transport.** Three points of the barycentric plane of `t`. -/
theorem det3_bary (t : Tri K) (sa sb sc : Pt K) :
    det3 (baryPos t sa) (baryPos t sb) (baryPos t sc) = orient2 sa sb sc * triDet t := by
  simp only [det3, triDet, baryPos, comb4, orient2]; ring

/-- det3 of a represented piece -/
theorem det3_triRep (t tri : Tri K) (s : Tri2 K) (h : TriRep t s tri) :
    triDet tri = orient2 s.a s.b s.c * triDet t := by
  unfold triDet
  rw [h.1.2.1, h.2.1.2.1, h.2.2.2.1, det3_bary]; rfl

/-- **`clip_det3`.** Every piece the clipper emits has det3 = (a non-negative factor) × det3 of the input:
a non-degenerate piece (factor > 0) has the SAME det3 sign as the input triangle. -/
theorem clip_det3 (t : Tri K) (hwf : TriWF t)
    (hlen : t.a.attr.length = t.b.attr.length ∧ t.b.attr.length = t.c.attr.length) :
    ∀ tri ∈ clipTri t, ∃ s : Tri2 K, TriRep t s tri ∧ 0 ≤ orient2 s.a s.b s.c ∧
      triDet tri = orient2 s.a s.b s.c * triDet t := by
  intro tri htri
  obtain ⟨s, hrep, -, ho⟩ := Retro.Props.C03.clip_winding t hwf hlen tri htri
  exact ⟨s, hrep, ho, det3_triRep t tri s hrep⟩

/-- Viewport image of the perspective projection of a clip-space position. -/
def proj (dx dy cx cy : K) (P : Vec4 K) : K × K := (cx + dx * (P.x / P.w), cy + dy * (P.y / P.w))

/-- **Screen orientation = dx·dy·det3 / (w w w).** -/
theorem orient_proj (dx dy cx cy : K) (A B C : Vec4 K) (ha : A.w ≠ 0) (hb : B.w ≠ 0) (hc : C.w ≠ 0) :
    orient (proj dx dy cx cy A) (proj dx dy cx cy B) (proj dx dy cx cy C) =
      dx * dy * det3 A B C / (A.w * B.w * C.w) := by
  simp only [orient, cross, proj, det3]
  field_simp
  ring

theorem edgeFn_eq_orient (P Q p : K × K) : edgeFn P Q p = orient P Q p := rfl

end Algebra

section Screen
variable {K : Type} [Field K] [LinearOrder K] [IsStrictOrderedRing K] [FloorRing K]
attribute [local instance] hasFloorK hasToNatK

/-- the screen position `render` computes for a vertex is `proj` of its clip position -/
theorem pt_toScreen (dx dy cx cy : K) (v : ClipVert K) :
    pt (toScreen (vpMat dx dy cx cy) v) = proj dx dy cx cy v.pos := by
  unfold vpMat; rw [toScreen_spec]; rfl

theorem area2_toScreen (dx dy cx cy : K) (tri : Tri K)
    (ha : tri.a.pos.w ≠ 0) (hb : tri.b.pos.w ≠ 0) (hc : tri.c.pos.w ≠ 0) :
    Retro.Props.C07.area2 (toScreen (vpMat dx dy cx cy) tri.a) (toScreen (vpMat dx dy cx cy) tri.b)
      (toScreen (vpMat dx dy cx cy) tri.c) =
      dx * dy * triDet tri / (tri.a.pos.w * tri.b.pos.w * tri.c.pos.w) := by
  have e : Retro.Props.C07.area2 (toScreen (vpMat dx dy cx cy) tri.a) (toScreen (vpMat dx dy cx cy) tri.b)
      (toScreen (vpMat dx dy cx cy) tri.c) = orient (pt (toScreen (vpMat dx dy cx cy) tri.a))
      (pt (toScreen (vpMat dx dy cx cy) tri.b)) (pt (toScreen (vpMat dx dy cx cy) tri.c)) := rfl
  rw [e, pt_toScreen, pt_toScreen, pt_toScreen, orient_proj _ _ _ _ _ _ _ ha hb hc]; rfl

/-- **A(ii). Screen area of a clipped piece**, in terms of the INPUT triangle. -/
theorem area2_piece (dx dy cx cy : K) (t tri : Tri K) (s : Tri2 K) (hrep : TriRep t s tri)
    (ha : tri.a.pos.w ≠ 0) (hb : tri.b.pos.w ≠ 0) (hc : tri.c.pos.w ≠ 0) :
    Retro.Props.C07.area2 (toScreen (vpMat dx dy cx cy) tri.a) (toScreen (vpMat dx dy cx cy) tri.b)
      (toScreen (vpMat dx dy cx cy) tri.c) =
      dx * dy * (orient2 s.a s.b s.c * triDet t) / (tri.a.pos.w * tri.b.pos.w * tri.c.pos.w) := by
  rw [area2_toScreen _ _ _ _ _ ha hb hc, det3_triRep t tri s hrep]

/-- **`piece_backface_iff`.** A non-degenerate piece (w > 0 at its vertices, orient2 s > 0) of input
triangle `t` is back-facing on screen iff `0 < dx*dy*det3 t`: the answer does not depend on the piece. -/
theorem piece_backface_iff (dx dy cx cy : K) (t tri : Tri K) (s : Tri2 K) (hrep : TriRep t s tri)
    (ha : 0 < tri.a.pos.w) (hb : 0 < tri.b.pos.w) (hc : 0 < tri.c.pos.w) (hs : 0 < orient2 s.a s.b s.c) :
    isBackface (toScreen (vpMat dx dy cx cy) tri.a) (toScreen (vpMat dx dy cx cy) tri.b)
      (toScreen (vpMat dx dy cx cy) tri.c) = true ↔ 0 < dx * dy * triDet t := by
  rw [Retro.Props.C07.isBackface_iff, area2_piece dx dy cx cy t tri s hrep ha.ne' hb.ne' hc.ne']
  have hw : 0 < tri.a.pos.w * tri.b.pos.w * tri.c.pos.w := by positivity
  rw [div_pos_iff_of_pos_right hw]
  have e : dx * dy * (orient2 s.a s.b s.c * triDet t) = orient2 s.a s.b s.c * (dx * dy * triDet t) := by ring
  rw [e, mul_pos_iff_of_pos_left hs]

/-- Whether face culling removes the pieces of input triangle `t` (decided on `t` alone). -/
def cullsInput (ctx : Ctx) (dx dy : K) (t : Tri K) : Bool :=
  match ctx.faceCull with
  | some .back => decide (0 < dx * dy * triDet t)
  | some .front => !decide (0 < dx * dy * triDet t)
  | none => false

/-- **All pieces of one input triangle are culled or kept together.** -/
theorem piece_culled_eq (ctx : Ctx) (dx dy cx cy : K) (t tri : Tri K) (s : Tri2 K) (hrep : TriRep t s tri)
    (ha : 0 < tri.a.pos.w) (hb : 0 < tri.b.pos.w) (hc : 0 < tri.c.pos.w) (hs : 0 < orient2 s.a s.b s.c) :
    culled ctx (toScreen (vpMat dx dy cx cy) tri.a) (toScreen (vpMat dx dy cx cy) tri.b)
      (toScreen (vpMat dx dy cx cy) tri.c) = cullsInput ctx dx dy t := by
  have h := piece_backface_iff dx dy cx cy t tri s hrep ha hb hc hs
  have e : isBackface (toScreen (vpMat dx dy cx cy) tri.a) (toScreen (vpMat dx dy cx cy) tri.b)
      (toScreen (vpMat dx dy cx cy) tri.c) = decide (0 < dx * dy * triDet t) := by
    rw [Bool.eq_iff_iff, h, decide_eq_true_iff]
  unfold culled cullsInput
  rw [e]
  cases ctx.faceCull with
  | none => rfl
  | some m => cases m <;> rfl

/-- Two non-degenerate pieces of the same input triangle receive the same culling decision. -/
theorem pieces_culled_together (ctx : Ctx) (dx dy cx cy : K) (t tri tri' : Tri K) (s s' : Tri2 K)
    (hrep : TriRep t s tri) (hrep' : TriRep t s' tri')
    (ha : 0 < tri.a.pos.w) (hb : 0 < tri.b.pos.w) (hc : 0 < tri.c.pos.w) (hs : 0 < orient2 s.a s.b s.c)
    (ha' : 0 < tri'.a.pos.w) (hb' : 0 < tri'.b.pos.w) (hc' : 0 < tri'.c.pos.w) (hs' : 0 < orient2 s'.a s'.b s'.c) :
    culled ctx (toScreen (vpMat dx dy cx cy) tri.a) (toScreen (vpMat dx dy cx cy) tri.b)
      (toScreen (vpMat dx dy cx cy) tri.c) =
    culled ctx (toScreen (vpMat dx dy cx cy) tri'.a) (toScreen (vpMat dx dy cx cy) tri'.b)
      (toScreen (vpMat dx dy cx cy) tri'.c) := by
  rw [piece_culled_eq ctx dx dy cx cy t tri s hrep ha hb hc hs,
    piece_culled_eq ctx dx dy cx cy t tri' s' hrep' ha' hb' hc' hs']

end Screen

end Retro.Props.C01
