/-
C01 / Visible, part 2 (B): edge functions of a projected clipped piece at a projected point of the input
triangle, in terms of the 2-D edge tests `orient2` in the barycentric plane of the input triangle.
-/
import Retro.Props.C01.Visible

namespace Retro.Props.C01
open Retro Retro.Clip Retro.Raster Retro.Render Retro.Lemmas.Clip Retro.Lemmas.Raster Retro.Lemmas.Comb
open Retro.Props.C04 Retro.Props.C02
open Retro.Props.C03 (Pt orient2 baryPos baryD baryAttr Rep TriRep Tri2 InSimplex Visible WeakIn StrictIn
  TriWF comb2 comb4)

set_option linter.unusedSectionVars false

section Algebra
variable {K : Type} [Field K] [LinearOrder K] [IsStrictOrderedRing K]

/-- **B. Edge-function transport.** Edge a→b of a piece with barycentric corners `sa sb`, evaluated at the
projection of the point of `t` with barycentric coordinates `q`. -/
theorem edgeFn_bary (dx dy cx cy : K) (t : Tri K) (sa sb q : Pt K)
    (ha : (baryPos t sa).w ≠ 0) (hb : (baryPos t sb).w ≠ 0) (hq : (baryPos t q).w ≠ 0) :
    edgeFn (proj dx dy cx cy (baryPos t sa)) (proj dx dy cx cy (baryPos t sb)) (proj dx dy cx cy (baryPos t q)) =
      dx * dy * (orient2 sa sb q * triDet t) / ((baryPos t sa).w * (baryPos t sb).w * (baryPos t q).w) := by
  rw [edgeFn_eq_orient, orient_proj _ _ _ _ _ _ _ ha hb hq, det3_bary]

theorem sgn_mul_pos_of (k p e : K) (hk : k ≠ 0) (hp : 0 < p) (he : 0 < e) : 0 < sgn (k * p) * (k * e) := by
  rcases lt_or_gt_of_ne hk with h | h
  · rw [sgn_neg (mul_neg_of_neg_of_pos h hp)]
    have := mul_neg_of_neg_of_pos h he
    linarith
  · rw [sgn_pos (mul_pos h hp), one_mul]; exact mul_pos h he

/-- Strictly inside the 2-D triangle `sa sb sc` of the barycentric plane ⇒ the projection passes the
three-edge-function test of the projected piece (all four `w` positive, `dx*dy*det3 t ≠ 0`). -/
theorem strictIn_inside_proj (dx dy cx cy : K) (t : Tri K) (sa sb sc q : Pt K)
    (ha : 0 < (baryPos t sa).w) (hb : 0 < (baryPos t sb).w) (hc : 0 < (baryPos t sc).w)
    (hq : 0 < (baryPos t q).w) (hk : dx * dy * triDet t ≠ 0) (hin : StrictIn q ⟨sa, sb, sc⟩) :
    Inside (proj dx dy cx cy (baryPos t sa)) (proj dx dy cx cy (baryPos t sb)) (proj dx dy cx cy (baryPos t sc))
      (proj dx dy cx cy (baryPos t q)) := by
  obtain ⟨h1, h2, h3⟩ := hin
  simp only at h1 h2 h3
  have hO : 0 < orient2 sa sb sc := by rw [← Retro.Props.C03.orient2_sum sa sb sc q]; positivity
  set wa := (baryPos t sa).w
  set wb := (baryPos t sb).w
  set wc := (baryPos t sc).w
  set wq := (baryPos t q).w
  set k := dx * dy * triDet t with hkdef
  have eo : orient (proj dx dy cx cy (baryPos t sa)) (proj dx dy cx cy (baryPos t sb))
      (proj dx dy cx cy (baryPos t sc)) = k * (orient2 sa sb sc / (wa * wb * wc)) := by
    rw [orient_proj _ _ _ _ _ _ _ ha.ne' hb.ne' hc.ne', det3_bary, hkdef]; ring
  have e1 : edgeFn (proj dx dy cx cy (baryPos t sa)) (proj dx dy cx cy (baryPos t sb))
      (proj dx dy cx cy (baryPos t q)) = k * (orient2 sa sb q / (wa * wb * wq)) := by
    rw [edgeFn_bary _ _ _ _ _ _ _ _ ha.ne' hb.ne' hq.ne', hkdef]; ring
  have e2 : edgeFn (proj dx dy cx cy (baryPos t sb)) (proj dx dy cx cy (baryPos t sc))
      (proj dx dy cx cy (baryPos t q)) = k * (orient2 sb sc q / (wb * wc * wq)) := by
    rw [edgeFn_bary _ _ _ _ _ _ _ _ hb.ne' hc.ne' hq.ne', hkdef]; ring
  have e3 : edgeFn (proj dx dy cx cy (baryPos t sc)) (proj dx dy cx cy (baryPos t sa))
      (proj dx dy cx cy (baryPos t q)) = k * (orient2 sc sa q / (wc * wa * wq)) := by
    rw [edgeFn_bary _ _ _ _ _ _ _ _ hc.ne' ha.ne' hq.ne', hkdef]; ring
  have pO : 0 < orient2 sa sb sc / (wa * wb * wc) := by positivity
  apply inside_of_strict
  · rw [eo]; exact mul_ne_zero hk pO.ne'
  · rw [eo, e1]; exact sgn_mul_pos_of k _ _ hk pO (by positivity)
  · rw [eo, e2]; exact sgn_mul_pos_of k _ _ hk pO (by positivity)
  · rw [eo, e3]; exact sgn_mul_pos_of k _ _ hk pO (by positivity)

theorem nonneg_of_sgn_mul (k p e : K) (hk : k ≠ 0) (hp : 0 < p) (h : 0 ≤ sgn (k * p) * (k * e)) : 0 ≤ e := by
  by_contra hne
  have he : e < 0 := not_le.mp hne
  rcases lt_or_gt_of_ne hk with hk' | hk'
  · rw [sgn_neg (mul_neg_of_neg_of_pos hk' hp)] at h
    have := mul_pos_of_neg_of_neg hk' he
    linarith
  · rw [sgn_pos (mul_pos hk' hp), one_mul] at h
    have := mul_neg_of_pos_of_neg hk' he
    linarith

/-- Conversely: passing the three-edge-function test of the projected piece ⇒ weakly inside the 2-D triangle
(and the piece is non-degenerate, `dx*dy*det3 t ≠ 0`). `0 ≤ orient2 sa sb sc` is `clip_winding`. -/
theorem inside_proj_weakIn (dx dy cx cy : K) (t : Tri K) (sa sb sc q : Pt K)
    (ha : 0 < (baryPos t sa).w) (hb : 0 < (baryPos t sb).w) (hc : 0 < (baryPos t sc).w)
    (hq : 0 < (baryPos t q).w) (hO : 0 ≤ orient2 sa sb sc)
    (hin : Inside (proj dx dy cx cy (baryPos t sa)) (proj dx dy cx cy (baryPos t sb))
      (proj dx dy cx cy (baryPos t sc)) (proj dx dy cx cy (baryPos t q))) :
    WeakIn q ⟨sa, sb, sc⟩ ∧ 0 < orient2 sa sb sc ∧ dx * dy * triDet t ≠ 0 := by
  obtain ⟨ho, k1, k2, k3⟩ := hin
  have n1 := edgeOK_nonneg k1
  have n2 := edgeOK_nonneg k2
  have n3 := edgeOK_nonneg k3
  set wa := (baryPos t sa).w
  set wb := (baryPos t sb).w
  set wc := (baryPos t sc).w
  set wq := (baryPos t q).w
  set k := dx * dy * triDet t with hkdef
  have eo : orient (proj dx dy cx cy (baryPos t sa)) (proj dx dy cx cy (baryPos t sb))
      (proj dx dy cx cy (baryPos t sc)) = k * (orient2 sa sb sc / (wa * wb * wc)) := by
    rw [orient_proj _ _ _ _ _ _ _ ha.ne' hb.ne' hc.ne', det3_bary, hkdef]; ring
  rw [eo] at ho n1 n2 n3
  have hk : k ≠ 0 := left_ne_zero_of_mul ho
  have hO' : 0 < orient2 sa sb sc := by
    rcases hO.lt_or_eq with h | h
    · exact h
    · exfalso; apply ho; rw [← h]; simp
  have pO : 0 < orient2 sa sb sc / (wa * wb * wc) := by positivity
  rw [edgeFn_bary _ _ _ _ _ _ _ _ ha.ne' hb.ne' hq.ne',
    show dx * dy * (orient2 sa sb q * triDet t) / (wa * wb * wq) = k * (orient2 sa sb q / (wa * wb * wq)) by
      rw [hkdef]; ring] at n1
  rw [edgeFn_bary _ _ _ _ _ _ _ _ hb.ne' hc.ne' hq.ne',
    show dx * dy * (orient2 sb sc q * triDet t) / (wb * wc * wq) = k * (orient2 sb sc q / (wb * wc * wq)) by
      rw [hkdef]; ring] at n2
  rw [edgeFn_bary _ _ _ _ _ _ _ _ hc.ne' ha.ne' hq.ne',
    show dx * dy * (orient2 sc sa q * triDet t) / (wc * wa * wq) = k * (orient2 sc sa q / (wc * wa * wq)) by
      rw [hkdef]; ring] at n3
  have m1 := nonneg_of_sgn_mul k _ _ hk pO n1
  have m2 := nonneg_of_sgn_mul k _ _ hk pO n2
  have m3 := nonneg_of_sgn_mul k _ _ hk pO n3
  have p1 : 0 < wa * wb * wq := by positivity
  have p2 : 0 < wb * wc * wq := by positivity
  have p3 : 0 < wc * wa * wq := by positivity
  have nn : ∀ a p : K, 0 < p → 0 ≤ a / p → 0 ≤ a := fun a p hp h => by
    have := mul_nonneg h hp.le
    rwa [div_mul_cancel₀ _ hp.ne'] at this
  exact ⟨⟨nn _ _ p1 m1, nn _ _ p2 m2, nn _ _ p3 m3⟩, hO', hk⟩

end Algebra

section Screen
variable {K : Type} [Field K] [LinearOrder K] [IsStrictOrderedRing K] [FloorRing K]
attribute [local instance] hasFloorK hasToNatK

theorem insideTri_iff_proj (dx dy cx cy : K) (t tri : Tri K) (s : Tri2 K) (hrep : TriRep t s tri) (x y : Nat) :
    InsideTri (vpMat dx dy cx cy) tri x y ↔
      Inside (proj dx dy cx cy (baryPos t s.a)) (proj dx dy cx cy (baryPos t s.b))
        (proj dx dy cx cy (baryPos t s.c)) (centre x y) := by
  unfold InsideTri
  rw [pt_toScreen, pt_toScreen, pt_toScreen, hrep.1.2.1, hrep.2.1.2.1, hrep.2.2.2.1]

/-- **B, positive direction.** `q` strictly inside the 2-D triangle `s` of a clipped piece `tri` of `t`, pixel
centre = projection of the point of `t` at `q` ⇒ the centre passes the inside test of the projected piece. -/
theorem strictIn_insideTri (dx dy cx cy : K) (t tri : Tri K) (s : Tri2 K) (hrep : TriRep t s tri) (q : Pt K)
    (ha : 0 < tri.a.pos.w) (hb : 0 < tri.b.pos.w) (hc : 0 < tri.c.pos.w) (hq : 0 < (baryPos t q).w)
    (hk : dx * dy * triDet t ≠ 0) (hin : StrictIn q s) (x y : Nat)
    (hxy : centre x y = proj dx dy cx cy (baryPos t q)) : InsideTri (vpMat dx dy cx cy) tri x y := by
  rw [insideTri_iff_proj dx dy cx cy t tri s hrep, hxy]
  rw [hrep.1.2.1] at ha; rw [hrep.2.1.2.1] at hb; rw [hrep.2.2.2.1] at hc
  exact strictIn_inside_proj dx dy cx cy t s.a s.b s.c q ha hb hc hq hk hin

/-- **B, converse.** The centre passes the inside test of the projected piece and is the projection of the
point of `t` at `q` (with positive w) ⇒ `q` is weakly inside the piece's 2-D triangle; moreover the piece is
non-degenerate and `dx*dy*det3 t ≠ 0`. -/
theorem insideTri_weakIn (dx dy cx cy : K) (t tri : Tri K) (s : Tri2 K) (hrep : TriRep t s tri) (q : Pt K)
    (ha : 0 < tri.a.pos.w) (hb : 0 < tri.b.pos.w) (hc : 0 < tri.c.pos.w) (hq : 0 < (baryPos t q).w)
    (hO : 0 ≤ orient2 s.a s.b s.c) (x y : Nat) (hxy : centre x y = proj dx dy cx cy (baryPos t q))
    (hin : InsideTri (vpMat dx dy cx cy) tri x y) :
    WeakIn q s ∧ 0 < orient2 s.a s.b s.c ∧ dx * dy * triDet t ≠ 0 := by
  rw [insideTri_iff_proj dx dy cx cy t tri s hrep, hxy] at hin
  rw [hrep.1.2.1] at ha; rw [hrep.2.1.2.1] at hb; rw [hrep.2.2.2.1] at hc
  exact inside_proj_weakIn dx dy cx cy t s.a s.b s.c q ha hb hc hq hO hin

/-- A piece whose projection contains any pixel centre is non-degenerate in the barycentric plane. -/
theorem insideTri_nondeg (dx dy cx cy : K) (t tri : Tri K) (s : Tri2 K) (hrep : TriRep t s tri)
    (ha : 0 < tri.a.pos.w) (hb : 0 < tri.b.pos.w) (hc : 0 < tri.c.pos.w)
    (hO : 0 ≤ orient2 s.a s.b s.c) (x y : Nat) (hin : InsideTri (vpMat dx dy cx cy) tri x y) :
    0 < orient2 s.a s.b s.c ∧ dx * dy * triDet t ≠ 0 := by
  have ho := hin.1
  have e := area2_piece dx dy cx cy t tri s hrep ha.ne' hb.ne' hc.ne'
  have ho' : Retro.Props.C07.area2 (toScreen (vpMat dx dy cx cy) tri.a) (toScreen (vpMat dx dy cx cy) tri.b)
      (toScreen (vpMat dx dy cx cy) tri.c) ≠ 0 := ho
  rw [e] at ho'
  clear ho
  have ho := ho'
  have h1 : dx * dy * (orient2 s.a s.b s.c * triDet t) ≠ 0 := fun h => ho (by rw [h, zero_div])
  have h2 : orient2 s.a s.b s.c ≠ 0 := fun h => h1 (by rw [h]; ring)
  exact ⟨lt_of_le_of_ne hO (Ne.symm h2), fun h => h1 (by linear_combination orient2 s.a s.b s.c * h)⟩

end Screen

end Retro.Props.C01
