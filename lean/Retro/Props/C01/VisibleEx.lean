/-
C01 / Visible, part 5 (D): non-vacuity on ℚ. The triangle `T` of `Retro.Props.C03.Ex` (affine, w = 1, pokes
out through the right and top planes; clipped into a fan of three pieces), drawn on a 4×4 target through
`viewportMat 0 4 0 4` (dx = dy = 2, cx = cy = 2). Pixel (2,2) has centre (5/2, 5/2), i.e. NDC (1/4, 1/4), which is
the point of `T` at barycentric coordinates q = (3/10, 3/10): inside the second fan piece, off all edge lines.
-/
import Retro.Props.C01.VisibleRender
import Retro.Props.C03.CoverEx

namespace Retro.Props.C01.VisEx
open Retro Retro.Clip Retro.Raster Retro.Render Retro.Lemmas.Clip Retro.Lemmas.Raster Retro.Lemmas.Comb
open Retro.Lemmas.Target Retro.Props.C04 Retro.Props.C05 Retro.Props.C06 Retro.Props.C02
open Retro.Props.C03 (Pt orient2 baryPos baryD baryAttr Rep TriRep Tri2 InSimplex Visible WeakIn StrictIn
  TriWF comb2 comb4 InOpenSimplex)
open Retro.Props.C03.Ex (T T_wf T_len T_nd)

attribute [local instance] hasFloorK hasToNatK

def q : Pt Rat := (3/10, 3/10)
def P1 : Tri Rat := ⟨mkVert ⟨-1/2, -1/2, 0, 1⟩ [0], mkVert ⟨1, -1/2, 0, 1⟩ [3], mkVert ⟨1, 1/2, 0, 1⟩ [7]⟩
def P2 : Tri Rat := ⟨mkVert ⟨-1/2, -1/2, 0, 1⟩ [0], mkVert ⟨1, 1/2, 0, 1⟩ [7], mkVert ⟨1/2, 1, 0, 1⟩ [8]⟩
def S2 : Tri2 Rat := ⟨(0, 0), (3/5, 2/5), (2/5, 3/5)⟩

theorem P2_mem : P2 ∈ clipTri T := by decide +kernel
theorem P1_mem : P1 ∈ clipTri T := by decide +kernel

/-! ### A: determinants -/

theorem T_det : triDet T = 25 / 4 := by decide +kernel
theorem T_det_ne : triDet T ≠ 0 := by rw [T_det]; norm_num

/-- `det3_bary` on the corners of the second piece: 1/5 · 25/4 = 5/4 -/
example : det3 (baryPos T S2.a) (baryPos T S2.b) (baryPos T S2.c) = 5 / 4 ∧ orient2 S2.a S2.b S2.c = 1 / 5 ∧
    triDet P2 = 5 / 4 := by decide +kernel

example := clip_det3 T T_wf T_len

/-- both pieces face the same way as `T` itself: back-facing on the (y-down) screen, since dx·dy·det3 T > 0 -/
example : isBackface (toScreen (viewportMat 0 4 0 4) P1.a) (toScreen (viewportMat 0 4 0 4) P1.b)
      (toScreen (viewportMat 0 4 0 4) P1.c) = true ∧
    isBackface (toScreen (viewportMat 0 4 0 4) P2.a) (toScreen (viewportMat 0 4 0 4) P2.b)
      (toScreen (viewportMat 0 4 0 4) P2.c) = true ∧ (0 : Rat) < 2 * 2 * triDet T := by decide +kernel

theorem S2_rep : TriRep T S2 P2 := by
  refine ⟨⟨mkVert_wf _ _, ?_, ?_⟩, ⟨mkVert_wf _ _, ?_, ?_⟩, ⟨mkVert_wf _ _, ?_, ?_⟩⟩ <;> decide +kernel

/-- hypotheses of `piece_backface_iff` / `piece_culled_eq` hold for the second piece -/
example := piece_backface_iff (2 : Rat) 2 2 2 T P2 S2 S2_rep (by decide +kernel) (by decide +kernel)
  (by decide +kernel) (by decide +kernel)

/-! ### B / C: the point q and pixel (2,2) -/

theorem q_visible : Visible T q := by unfold Visible InSimplex; decide +kernel
theorem q_off : OffEdges T q := by decide +kernel
theorem q_centre : centre 2 2 = projV 0 4 0 4 (baryPos T q) := by decide +kernel
theorem q_strict : StrictIn q S2 := by unfold StrictIn; decide +kernel
theorem T_Q : (T.a.pos.w = 1 ∧ T.b.pos.w = 1 ∧ T.c.pos.w = 1) := by decide +kernel

/-- the edge-function identity of B on the first edge of the second piece -/
example : edgeFn (proj 2 2 2 2 (baryPos T S2.a)) (proj 2 2 2 2 (baryPos T S2.b)) (proj 2 2 2 2 (baryPos T q)) =
    2 * 2 * (orient2 S2.a S2.b q * triDet T) / ((baryPos T S2.a).w * (baryPos T S2.b).w * (baryPos T q).w) :=
  edgeFn_bary 2 2 2 2 T S2.a S2.b q (by decide +kernel) (by decide +kernel) (by decide +kernel)

/-- `visible_strict_inside_piece` applies: pixel (2,2) is inside some projected piece … -/
theorem q_covered : ∃ tri ∈ clipTri T, InsideTri (viewportMat 0 4 0 4) tri 2 2 :=
  visible_strict_inside_piece _ affineInv 0 4 0 4 (by omega) (by omega) T T_wf T_Q T_len T_nd T_det_ne q
    q_visible q_off 2 2 q_centre

/-- … namely the second one (checked directly), and not the first -/
example : InsideTri (viewportMat 0 4 0 4) P2 2 2 ∧ ¬ InsideTri (viewportMat 0 4 0 4) P1 2 2 := by
  decide +kernel

/-- `inside_piece_visible` applies to that piece -/
example : ∃ q' : Pt Rat, Visible T q' ∧ centre 2 2 = projV 0 4 0 4 (baryPos T q') :=
  inside_piece_visible 0 4 0 4 T T_wf T_len P2 P2_mem (by decide +kernel) (by decide +kernel)
    (by decide +kernel) 2 2 (by decide +kernel)

/-- the fragment of the covering piece is `visFrag T q 2 2` = [5/2, 5/2, 1, 9/2] -/
example : pixFrag (viewportMat 0 4 0 4) P2 2 2 = visFrag T q 2 2 ∧ visFrag T q 2 2 = [5/2, 5/2, 1, 9/2] := by
  decide +kernel

/-! ### The `render` theorems on the one-triangle scene `[T]`, 4×4 target of `NVI` -/

def vs : List (Vec4 Rat × List Rat) :=
  [(⟨-1/2, -1/2, 0, 1⟩, [0]), (⟨2, -1/2, 0, 1⟩, [5]), (⟨-1/2, 2, 0, 1⟩, [10])]
def tris : List (Nat × Nat × Nat) := [(0, 1, 2)]
def cN : Ctx := { faceCull := none }
def cB : Ctx := {}

theorem inp : inputTris vs tris = [T] := by decide +kernel
theorem hverts : ∀ v ∈ vs, v.1.w = 1 ∧ v.2.length = 1 := by decide +kernel

/-- No culling: every hypothesis of `render_pixel_c01_visible` holds for `T`, `q`, pixel (2,2); the pixel ends
with a depth slot ≥ 1 = 1/w(q) (it held 0). -/
theorem scene_nearest : ∃ t' st, render cN NVI.sh (viewportMat 0 4 0 4) tris vs NVI.t0 = .ok (t', st) ∧
    WFD t' 4 4 ∧ ∃ c' d', pix t' 2 2 = some (c', d') ∧ 1 ≤ d' := by
  obtain ⟨t', st, hr, hwf', h⟩ := render_pixel_c01_visible _ affineInv cN ⟨rfl, rfl, rfl⟩ NVI.sh 0 4 0 4 4 4 1
    (by omega) (by omega) (by omega) (by omega) tris vs (by decide) hverts NVI.t0 NVI.hwf
  refine ⟨t', st, hr, hwf', ?_⟩
  have hw : (baryPos T q).w = 1 := by decide +kernel
  have := h 2 2 0 0 (by decide +kernel) T (by rw [inp]; simp) (by decide +kernel) T_nd T_det_ne q q_visible q_off
    q_centre (by simp [NVI.sh])
  rwa [hw, div_one] at this

/-- Back-face culling (the default Context): `T` is culled as a whole (`cullsInput`), so by
`render_pixel_untouched_visible` every pixel keeps its content — although `T` covers pixel (2,2). -/
theorem scene_culled : ∃ t' st, render cB NVI.sh (viewportMat 0 4 0 4) tris vs NVI.t0 = .ok (t', st) ∧
    WFD t' 4 4 ∧ ∀ x y, pix t' x y = pix NVI.t0 x y := by
  obtain ⟨t', st, hr, hwf', h⟩ := render_pixel_untouched_visible _ affineInv cB NVI.sh 0 4 0 4 4 4 1
    (by omega) (by omega) (by omega) (by omega) tris vs (by decide) hverts NVI.t0 NVI.hwf
  refine ⟨t', st, hr, hwf', fun x y => h x y ?_⟩
  intro t0 ht0
  rw [inp, List.mem_singleton] at ht0
  subst ht0
  exact Or.inl (by decide +kernel)

/-- Without culling a pixel off the visible part is untouched: pixel (0,0), centre NDC (−3/4, −3/4), is outside `T`
(whose left edge is x = −1/2 in NDC: the pre-image would have u = −1/10 < 0). -/
theorem scene_outside : ∃ t' st, render cN NVI.sh (viewportMat 0 4 0 4) tris vs NVI.t0 = .ok (t', st) ∧
    WFD t' 4 4 ∧ pix t' 0 0 = pix NVI.t0 0 0 := by
  obtain ⟨t', st, hr, hwf', h⟩ := render_pixel_untouched_visible _ affineInv cN NVI.sh 0 4 0 4 4 4 1
    (by omega) (by omega) (by omega) (by omega) tris vs (by decide) hverts NVI.t0 NVI.hwf
  refine ⟨t', st, hr, hwf', h 0 0 ?_⟩
  intro t0 ht0
  rw [inp, List.mem_singleton] at ht0
  subst ht0
  refine Or.inr fun q' hq' hc => ?_
  obtain ⟨⟨h1, h2, h3⟩, -⟩ := hq'
  have e : centre 0 0 = ((1 / 2 : Rat), (1 / 2 : Rat)) := by decide +kernel
  rw [e] at hc
  simp only [projV, proj, baryPos, comb4, T, mkVert, Prod.mk.injEq] at hc
  obtain ⟨c1, c2⟩ := hc
  have e1 : (1 - q'.1 - q'.2 + q'.1 + q'.2 : Rat) = 1 := by ring
  norm_num [e1] at c1 c2
  linarith

end Retro.Props.C01.VisEx
