/-
C01 / Visible, part 3 (C): the link between "inside some clipped PIECE" and "inside the VISIBLE PART of the
input triangle".

  * `proj_bary_inj`               a non-degenerate input triangle (det3 ≠ 0): the point with positive w that
                                  projects onto a given screen point is unique
  * `visible_strict_inside_piece` a visible point off the piece edge lines is inside some projected piece
  * `inside_piece_visible`        a pixel inside a projected piece is the projection of a visible point, and
                                  its ideal fragment is `visFrag t q` (depends on `t` and `q` only)
-/
import Retro.Props.C01.VisibleEdge

namespace Retro.Props.C01
open Retro Retro.Clip Retro.Raster Retro.Render Retro.Lemmas.Clip Retro.Lemmas.Raster Retro.Lemmas.Comb
open Retro.Props.C04 Retro.Props.C02
open Retro.Props.C03 (Pt orient2 baryPos baryD baryAttr Rep TriRep Tri2 InSimplex Visible WeakIn StrictIn
  TriWF comb2 comb4 InOpenSimplex)

set_option linter.unusedSectionVars false

section Algebra
variable {K : Type} [Field K] [LinearOrder K] [IsStrictOrderedRing K]

theorem comb_pos (a b c x y z : K) (ha : 0 ≤ a) (hb : 0 ≤ b) (hc : 0 ≤ c) (hs : a + b + c = 1)
    (hx : 0 < x) (hy : 0 < y) (hz : 0 < z) : 0 < a * x + b * y + c * z := by
  have h1 := mul_nonneg ha hx.le
  have h2 := mul_nonneg hb hy.le
  have h3 := mul_nonneg hc hz.le
  rcases ha.lt_or_eq with h | h
  · have := mul_pos h hx; linarith
  · rcases hb.lt_or_eq with h' | h'
    · have := mul_pos h' hy; linarith
    · have hc1 : c = 1 := by linarith
      rw [← h, ← h', hc1]; linarith

/-- Cramer: the barycentric coordinates of a point of `t`'s plane from determinants. -/
theorem det3_bary_b (t : Tri K) (q : Pt K) :
    det3 t.a.pos (baryPos t q) t.c.pos = q.1 * triDet t := by
  simp only [det3, triDet, baryPos, comb4]; ring

theorem det3_bary_c (t : Tri K) (q : Pt K) :
    det3 t.a.pos t.b.pos (baryPos t q) = q.2 * triDet t := by
  simp only [det3, triDet, baryPos, comb4]; ring

theorem det3_bary_a (t : Tri K) (q : Pt K) :
    det3 (baryPos t q) t.b.pos t.c.pos = (1 - q.1 - q.2) * triDet t := by
  simp only [det3, triDet, baryPos, comb4]; ring

/-- **Uniqueness of the pre-image.** For a non-degenerate input triangle (the eye is not in its plane) two
points of its plane with non-zero `w` and the same perspective projection coincide. -/
theorem proj_bary_inj (dx dy cx cy : K) (hdx : dx ≠ 0) (hdy : dy ≠ 0) (t : Tri K) (hdet : triDet t ≠ 0)
    (q q' : Pt K) (hw : (baryPos t q).w ≠ 0) (hw' : (baryPos t q').w ≠ 0)
    (h : proj dx dy cx cy (baryPos t q) = proj dx dy cx cy (baryPos t q')) : q = q' := by
  set P := baryPos t q with hP
  set P' := baryPos t q' with hP'
  simp only [proj, Prod.mk.injEq] at h
  obtain ⟨h1, h2⟩ := h
  have hx : P.x * P'.w = P'.x * P.w := by
    have := mul_left_cancel₀ hdx (add_left_cancel h1)
    field_simp at this; linarith
  have hy : P.y * P'.w = P'.y * P.w := by
    have := mul_left_cancel₀ hdy (add_left_cancel h2)
    field_simp at this; linarith
  have eb : P'.w * det3 t.a.pos P t.c.pos = P.w * det3 t.a.pos P' t.c.pos := by
    simp only [det3]
    linear_combination (-(t.a.pos.y * t.c.pos.w) + t.a.pos.w * t.c.pos.y) * hx
      + (t.a.pos.x * t.c.pos.w - t.a.pos.w * t.c.pos.x) * hy
  have ec : P'.w * det3 t.a.pos t.b.pos P = P.w * det3 t.a.pos t.b.pos P' := by
    simp only [det3]
    linear_combination (t.a.pos.y * t.b.pos.w - t.a.pos.w * t.b.pos.y) * hx
      + (-(t.a.pos.x * t.b.pos.w) + t.a.pos.w * t.b.pos.x) * hy
  have ea : P'.w * det3 P t.b.pos t.c.pos = P.w * det3 P' t.b.pos t.c.pos := by
    simp only [det3]
    linear_combination (t.b.pos.y * t.c.pos.w - t.b.pos.w * t.c.pos.y) * hx
      - (t.b.pos.x * t.c.pos.w - t.b.pos.w * t.c.pos.x) * hy
  rw [hP, hP', det3_bary_b, det3_bary_b] at eb
  rw [hP, hP', det3_bary_c, det3_bary_c] at ec
  rw [hP, hP', det3_bary_a, det3_bary_a] at ea
  rw [← hP, ← hP'] at ea eb ec
  have fb : P'.w * q.1 = P.w * q'.1 := mul_right_cancel₀ hdet (by linear_combination eb)
  have fc : P'.w * q.2 = P.w * q'.2 := mul_right_cancel₀ hdet (by linear_combination ec)
  have fa : P'.w * (1 - q.1 - q.2) = P.w * (1 - q'.1 - q'.2) := mul_right_cancel₀ hdet (by linear_combination ea)
  have hww : P'.w = P.w := by linear_combination fa + fb + fc
  rw [hww] at fb fc
  exact Prod.ext (mul_left_cancel₀ hw fb) (mul_left_cancel₀ hw fc)

end Algebra

section Screen
variable {K : Type} [Field K] [LinearOrder K] [IsStrictOrderedRing K] [FloorRing K]
attribute [local instance] hasFloorK hasToNatK

/-- `proj` through the library's viewport matrix `viewportMat L R T B`. -/
def projV (L R T B : Nat) (P : Vec4 K) : K × K :=
  proj (((R : K) - L) / 2) (((B : K) - T) / 2) ((L : K) + ((R : K) - L) / 2) ((T : K) + ((B : K) - T) / 2) P

/-- The fragment of the point of input triangle `t` at barycentric coordinates `q`, seen at pixel (x, y):
`[x+½, y+½, 1/w(q), attributes of t interpolated affinely in clip space at q]`. -/
def visFrag (t : Tri K) (q : Pt K) (x y : Nat) : List K :=
  ((x : K) + 1 / 2) :: ((y : K) + 1 / 2) :: (1 / (baryPos t q).w) :: baryAttr t q

theorem baryAttr_comb2 (t : Tri K) (wa wb wc : K) (a b c : Pt K) (hs : wa + wb + wc = 1) :
    baryAttr t (comb2 wa wb wc a b c) = combL wa wb wc (baryAttr t a) (baryAttr t b) (baryAttr t c) := by
  have e : wa = 1 - wb - wc := by linarith
  subst e
  simp only [baryAttr, c03_combL_eq, combL_combL, comb2]
  congr 1; ring

/-- Every piece of a triangle on a `ClipInv` image has positive `w` at its three vertices. -/
theorem piece_wpos (Q : Vec4 K → Prop) (hQ : ClipInv Q) (t : Tri K) (hwf : TriWF t)
    (hQt : Q t.a.pos ∧ Q t.b.pos ∧ Q t.c.pos) (tri : Tri K) (htri : tri ∈ clipTri t) :
    0 < tri.a.pos.w ∧ 0 < tri.b.pos.w ∧ 0 < tri.c.pos.w := by
  have hin := Retro.Props.C03.clip_inside t hwf tri htri
  have hq := clip_keeps_inv Q hQ t hQt.1 hQt.2.1 hQt.2.2 tri htri
  have w : ∀ v ∈ Retro.Props.C03.triVerts tri, 0 < v.pos.w := fun v hv => hQ.wpos v.pos (hin v hv) (hq v hv)
  exact ⟨w _ (by simp [Retro.Props.C03.triVerts]), w _ (by simp [Retro.Props.C03.triVerts]),
    w _ (by simp [Retro.Props.C03.triVerts])⟩

/-- A point of a non-degenerate 2-D piece has positive `w` when the piece's vertices have. -/
theorem weakIn_wpos (t tri : Tri K) (s : Tri2 K) (hrep : TriRep t s tri) (q : Pt K)
    (ha : 0 < tri.a.pos.w) (hb : 0 < tri.b.pos.w) (hc : 0 < tri.c.pos.w)
    (hpos : 0 < orient2 s.a s.b s.c) (h : WeakIn q s) : 0 < (baryPos t q).w := by
  obtain ⟨wa, wb, wc, h0, h1, h2, hsum, rfl⟩ := Retro.Props.C03.weakIn_hull q s hpos h
  rw [Retro.Props.C03.baryPos_comb2 t wa wb wc _ _ _ hsum, ← hrep.1.2.1, ← hrep.2.1.2.1, ← hrep.2.2.2.1]
  exact comb_pos wa wb wc _ _ _ h0 h1 h2 hsum ha hb hc

/-- `q` lies on none of the three edge lines of any piece of `t`, in `t`'s barycentric plane; the pieces'
barycentric corners are the (computable) list `clipTri2 t`, which represents `clipTri t` vertex for vertex
(`Retro.Props.C03.rep_clipTri`). -/
def OffEdges (t : Tri K) (q : Pt K) : Prop :=
  ∀ s ∈ Retro.Props.C03.clipTri2 t,
    orient2 s.a s.b q ≠ 0 ∧ orient2 s.b s.c q ≠ 0 ∧ orient2 s.c s.a q ≠ 0

instance decOffEdges (t : Tri K) (q : Pt K) : Decidable (OffEdges t q) := by unfold OffEdges; infer_instance

/-- The same condition stated on ALL barycentric representations of the emitted pieces implies `OffEdges`. -/
theorem offEdges_of_rep (t : Tri K) (hwf : TriWF t)
    (hlen : t.a.attr.length = t.b.attr.length ∧ t.b.attr.length = t.c.attr.length) (q : Pt K)
    (h : ∀ tri ∈ clipTri t, ∀ s : Tri2 K, TriRep t s tri →
      orient2 s.a s.b q ≠ 0 ∧ orient2 s.b s.c q ≠ 0 ∧ orient2 s.c s.a q ≠ 0) : OffEdges t q := by
  intro s hs
  obtain ⟨tri, htri, hrep⟩ := Retro.Props.C03.forall₂_mem_left (Retro.Props.C03.rep_clipTri t hwf hlen) s hs
  exact h tri htri s hrep

/-- Covering piece of a visible point, any viewport scale `dx*dy ≠ 0` (detailed form). -/
theorem visible_covered (dx dy cx cy : K) (hdd : dx * dy ≠ 0) (Q : Vec4 K → Prop) (hQ : ClipInv Q)
    (t : Tri K) (hwf : TriWF t) (hQt : Q t.a.pos ∧ Q t.b.pos ∧ Q t.c.pos)
    (hlen : t.a.attr.length = t.b.attr.length ∧ t.b.attr.length = t.c.attr.length)
    (hnd : ∃ q0 : Pt K, InOpenSimplex q0 ∧ ∀ p ∈ (planes : List (Plane K)), baryD p t q0 < 0)
    (hdet : triDet t ≠ 0) (q : Pt K) (hq : Visible t q) (hoff : OffEdges t q) (x y : Nat)
    (hxy : centre x y = proj dx dy cx cy (baryPos t q)) :
    ∃ tri ∈ clipTri t, ∃ s : Tri2 K, TriRep t s tri ∧ StrictIn q s ∧ 0 < (baryPos t q).w ∧
      InsideTri (vpMat dx dy cx cy) tri x y := by
  obtain ⟨q0, h0, h0D⟩ := hnd
  obtain ⟨s, hs, h1, h2, h3⟩ := Retro.Props.C03.clipTri2_covers t hwf q0 h0 h0D q hq
  obtain ⟨tri, htri, hrep⟩ := Retro.Props.C03.forall₂_mem_left (Retro.Props.C03.rep_clipTri t hwf hlen) s hs
  obtain ⟨n1, n2, n3⟩ := hoff s hs
  have hst : StrictIn q s := ⟨lt_of_le_of_ne h1 (Ne.symm n1), lt_of_le_of_ne h2 (Ne.symm n2),
    lt_of_le_of_ne h3 (Ne.symm n3)⟩
  have hO : 0 < orient2 s.a s.b s.c := by
    rw [← Retro.Props.C03.orient2_sum s.a s.b s.c q]
    have := hst.1; have := hst.2.1; have := hst.2.2
    linarith
  obtain ⟨wa, wb, wc⟩ := piece_wpos Q hQ t hwf hQt tri htri
  have hwq := weakIn_wpos t tri s hrep q wa wb wc hO ⟨h1, h2, h3⟩
  exact ⟨tri, htri, s, hrep, hst, hwq,
    strictIn_insideTri dx dy cx cy t tri s hrep q wa wb wc hwq (mul_ne_zero hdd hdet) hst x y hxy⟩

/-- **`visible_strict_inside_piece`.** Input triangle `t` on a `ClipInv` image, its visible part has interior
(`hnd`), the eye is not in its plane (`det3 t ≠ 0`), the viewport is not empty (`L < R`, `T < B`: otherwise every
projection is degenerate and nothing is ever inside). If the centre of pixel (x, y) is the projection of a
VISIBLE point `q` of `t` that lies on no edge line of a piece, then the centre is inside the projection of one
of the pieces the clipper emits for `t`. -/
theorem visible_strict_inside_piece (Q : Vec4 K → Prop) (hQ : ClipInv Q) (L R T B : Nat) (hLR : L < R)
    (hTB : T < B) (t : Tri K) (hwf : TriWF t) (hQt : Q t.a.pos ∧ Q t.b.pos ∧ Q t.c.pos)
    (hlen : t.a.attr.length = t.b.attr.length ∧ t.b.attr.length = t.c.attr.length)
    (hnd : ∃ q0 : Pt K, InOpenSimplex q0 ∧ ∀ p ∈ (planes : List (Plane K)), baryD p t q0 < 0)
    (hdet : triDet t ≠ 0) (q : Pt K) (hq : Visible t q) (hoff : OffEdges t q) (x y : Nat)
    (hxy : centre x y = projV L R T B (baryPos t q)) :
    ∃ tri ∈ clipTri t, InsideTri (viewportMat L R T B) tri x y := by
  have h1 : (0 : K) < ((R : K) - L) / 2 := by
    have : (L : K) < R := by exact_mod_cast hLR
    linarith
  have h2 : (0 : K) < ((B : K) - T) / 2 := by
    have : (T : K) < B := by exact_mod_cast hTB
    linarith
  obtain ⟨tri, htri, s, -, -, -, hin⟩ := visible_covered _ _ _ _ (mul_pos h1 h2).ne' Q hQ t hwf hQt hlen hnd hdet
    q hq hoff x y hxy
  exact ⟨tri, htri, hin⟩

/-- **`inside_piece_visible`** (detailed form, any viewport scale). A pixel whose centre is inside the
projection of a clipped piece `tri` of `t` (positive `w` at the piece's vertices) is the projection of a VISIBLE
point `q` of `t`, with positive `w`, and the ideal fragment of the piece at the pixel is `visFrag t q x y`:
reciprocal depth `1/w(q)` and the attributes of `t` at `q` — it depends on the input triangle and the point
only, not on the piece. -/
theorem inside_piece_visible_frag (dx dy cx cy : K) (t : Tri K) (hwf : TriWF t)
    (hlen : t.a.attr.length = t.b.attr.length ∧ t.b.attr.length = t.c.attr.length)
    (tri : Tri K) (htri : tri ∈ clipTri t)
    (hwa : 0 < tri.a.pos.w) (hwb : 0 < tri.b.pos.w) (hwc : 0 < tri.c.pos.w) (x y : Nat)
    (hin : InsideTri (vpMat dx dy cx cy) tri x y) :
    ∃ q : Pt K, Visible t q ∧ 0 < (baryPos t q).w ∧ centre x y = proj dx dy cx cy (baryPos t q) ∧
      pixFrag (vpMat dx dy cx cy) tri x y = visFrag t q x y := by
  obtain ⟨g0, g1, g2, d, k0, k1, k2, ksum, hd, hw, hform, hX, hY⟩ :=
    pixFrag_persp dx dy cx cy tri x y hwa hwb hwc hin
  obtain ⟨s, hrep, hv⟩ := Retro.Props.C03.clip_output_subset_visible t hwf hlen tri htri
  have hpos : baryPos t (comb2 g0 g1 g2 s.a s.b s.c) = comb4 g0 g1 g2 tri.a.pos tri.b.pos tri.c.pos := by
    rw [Retro.Props.C03.baryPos_comb2 t g0 g1 g2 _ _ _ ksum, ← hrep.1.2.1, ← hrep.2.1.2.1, ← hrep.2.2.2.1]
  have hWd : g0 * tri.a.pos.w + g1 * tri.b.pos.w + g2 * tri.c.pos.w = 1 / d :=
    eq_div_of_mul_eq hd.ne' (by linarith)
  have hPw : (baryPos t (comb2 g0 g1 g2 s.a s.b s.c)).w = 1 / d := by rw [hpos]; exact hWd
  have hPx : (baryPos t (comb2 g0 g1 g2 s.a s.b s.c)).x
      = g0 * tri.a.pos.x + g1 * tri.b.pos.x + g2 * tri.c.pos.x := by rw [hpos]; rfl
  have hPy : (baryPos t (comb2 g0 g1 g2 s.a s.b s.c)).y
      = g0 * tri.a.pos.y + g1 * tri.b.pos.y + g2 * tri.c.pos.y := by rw [hpos]; rfl
  refine ⟨comb2 g0 g1 g2 s.a s.b s.c, hv g0 g1 g2 k0 k1 k2 ksum, ?_, ?_, ?_⟩
  · rw [hPw]; positivity
  · unfold centre proj
    rw [hPw, hPx, hPy, hX, hY, div_div_eq_mul_div, div_one, div_div_eq_mul_div, div_one]
  · rw [hform]
    unfold visFrag
    rw [hPw, one_div_one_div, baryAttr_comb2 t g0 g1 g2 _ _ _ ksum, ← hrep.1.2.2, ← hrep.2.1.2.2,
      ← hrep.2.2.2.2]

/-- **`inside_piece_visible`.** Through the library's viewport matrix: a pixel inside the projection of a
clipped piece of `t` is the projection of a visible point of `t`. -/
theorem inside_piece_visible (L R T B : Nat) (t : Tri K) (hwf : TriWF t)
    (hlen : t.a.attr.length = t.b.attr.length ∧ t.b.attr.length = t.c.attr.length)
    (tri : Tri K) (htri : tri ∈ clipTri t)
    (hwa : 0 < tri.a.pos.w) (hwb : 0 < tri.b.pos.w) (hwc : 0 < tri.c.pos.w) (x y : Nat)
    (hin : InsideTri (viewportMat L R T B) tri x y) :
    ∃ q : Pt K, Visible t q ∧ centre x y = projV L R T B (baryPos t q) := by
  obtain ⟨q, hv, -, hc, -⟩ := inside_piece_visible_frag _ _ _ _ t hwf hlen tri htri hwa hwb hwc x y hin
  exact ⟨q, hv, hc⟩

/-- The covering piece of `visible_covered` shows exactly `visFrag t q x y` at the pixel. -/
theorem visible_covered_frag (dx dy cx cy : K) (hdd : dx * dy ≠ 0) (Q : Vec4 K → Prop) (hQ : ClipInv Q)
    (t : Tri K) (hwf : TriWF t) (hQt : Q t.a.pos ∧ Q t.b.pos ∧ Q t.c.pos)
    (hlen : t.a.attr.length = t.b.attr.length ∧ t.b.attr.length = t.c.attr.length)
    (hnd : ∃ q0 : Pt K, InOpenSimplex q0 ∧ ∀ p ∈ (planes : List (Plane K)), baryD p t q0 < 0)
    (hdet : triDet t ≠ 0) (q : Pt K) (hq : Visible t q) (hoff : OffEdges t q) (x y : Nat)
    (hxy : centre x y = proj dx dy cx cy (baryPos t q)) :
    ∃ tri ∈ clipTri t, ∃ s : Tri2 K, TriRep t s tri ∧ StrictIn q s ∧ 0 < (baryPos t q).w ∧
      InsideTri (vpMat dx dy cx cy) tri x y ∧ pixFrag (vpMat dx dy cx cy) tri x y = visFrag t q x y := by
  obtain ⟨tri, htri, s, hrep, hst, hwq, hin⟩ := visible_covered dx dy cx cy hdd Q hQ t hwf hQt hlen hnd hdet
    q hq hoff x y hxy
  obtain ⟨wa, wb, wc⟩ := piece_wpos Q hQ t hwf hQt tri htri
  obtain ⟨q', -, hwq', hc', hf⟩ := inside_piece_visible_frag dx dy cx cy t hwf hlen tri htri wa wb wc x y hin
  have e : q = q' := proj_bary_inj dx dy cx cy (left_ne_zero_of_mul hdd) (right_ne_zero_of_mul hdd) t hdet q q'
    hwq.ne' hwq'.ne' (by rw [← hxy, hc'])
  subst e
  exact ⟨tri, htri, s, hrep, hst, hwq, hin, hf⟩

end Screen

end Retro.Props.C01
