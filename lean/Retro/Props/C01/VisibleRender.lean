/-
C01 / Visible, part 4: the per-pixel theorems of `Retro.Props.C01.Ideal` restated with the VISIBLE PART of the
input triangles instead of "some clipped piece".

  * `render_pixel_untouched_visible`  a pixel whose centre is not the projection of any visible point of any
                                      unculled input triangle keeps its colour and depth
  * `render_pixel_c01_visible`        if the centre is the projection of a visible point `q` of an unculled,
                                      non-degenerate input triangle (off the piece edge lines) whose fragment
                                      `visFrag t0 q x y` is shaded, the final depth slot is ≥ 1/w(q): the nearest
                                      visible surface wins
Culling is decided on the input triangle (`cullsInput`, see `piece_culled_eq`).
-/
import Retro.Props.C01.VisibleLink

namespace Retro.Props.C01
open Retro Retro.Clip Retro.Raster Retro.Render Retro.Lemmas.Clip Retro.Lemmas.Raster Retro.Lemmas.Comb
open Retro.Lemmas.Target Retro.Props.C04 Retro.Props.C05 Retro.Props.C06 Retro.Props.C02
open Retro.Props.C03 (Pt orient2 baryPos baryD baryAttr Rep TriRep Tri2 InSimplex Visible WeakIn StrictIn
  TriWF comb2 comb4 InOpenSimplex)

set_option linter.unusedSectionVars false

variable {K : Type} [Field K] [LinearOrder K] [IsStrictOrderedRing K] [FloorRing K] {C : Type}
attribute [local instance] hasFloorK hasToNatK

/-- Input triangles of a `render` call are well-formed, on the clip invariant, with `k` attributes. -/
theorem inputTris_facts (Q : Vec4 K → Prop) (k : Nat) (verts : List (Vec4 K × List K))
    (tris : List (Nat × Nat × Nat)) (hverts : ∀ v ∈ verts, Q v.1 ∧ v.2.length = k) :
    ∀ t0 ∈ inputTris verts tris, TriWF t0 ∧ (Q t0.a.pos ∧ Q t0.b.pos ∧ Q t0.c.pos) ∧
      (t0.a.attr.length = t0.b.attr.length ∧ t0.b.attr.length = t0.c.attr.length) := by
  intro t0 ht0
  have h := inputTris_verts Q k verts tris hverts t0 ht0
  have ha := h t0.a (by simp)
  have hb := h t0.b (by simp)
  have hc := h t0.c (by simp)
  exact ⟨⟨ha.1, hb.1, hc.1⟩, ⟨ha.2.1, hb.2.1, hc.2.1⟩, by rw [ha.2.2, hb.2.2], by rw [hb.2.2, hc.2.2]⟩

/-- **A pixel outside every visible part keeps its content.** Hypotheses of `render_pixel_untouched` (any
Context). If for every input triangle `t0` EITHER face culling removes it (`cullsInput`, decided on `t0`) OR the
pixel centre is not the projection of any visible point of `t0`, the pixel keeps its colour and depth. -/
theorem render_pixel_untouched_visible (Q : Vec4 K → Prop) (hQ : ClipInv Q) (ctx : Ctx)
    (shade : List K → Option C) (L R T B W H k : Nat) (hLR : L ≤ R) (hTB : T ≤ B) (hRW : R ≤ W) (hBH : B ≤ H)
    (tris : List (Nat × Nat × Nat)) (verts : List (Vec4 K × List K))
    (hidx : ∀ t ∈ tris, t.1 < verts.length ∧ t.2.1 < verts.length ∧ t.2.2 < verts.length)
    (hverts : ∀ v ∈ verts, Q v.1 ∧ v.2.length = k)
    (t : Target K C) (hwf : WFD t W H) :
    ∃ t' st, render ctx shade (viewportMat L R T B) tris verts t = .ok (t', st) ∧ WFD t' W H ∧
      ∀ x y, (∀ t0 ∈ inputTris verts tris,
          cullsInput ctx (((R : K) - L) / 2) (((B : K) - T) / 2) t0 = true ∨
          ∀ q : Pt K, Visible t0 q → centre x y ≠ projV L R T B (baryPos t0 q)) →
        pix t' x y = pix t x y := by
  obtain ⟨t', st, hr, hwf', hp⟩ := render_pixel_untouched Q hQ ctx shade L R T B W H k hLR hTB hRW hBH tris verts
    hidx hverts t hwf
  have hgeo := clipped_geom Q hQ L R T B k hLR hTB (inputTris verts tris) (inputTris_verts Q k verts tris hverts)
  refine ⟨t', st, hr, hwf', fun x y h => hp x y ?_⟩
  intro tri htri hunc hin
  obtain ⟨-, ⟨wa, wb, wc⟩, t0, ht0, htri0, hlen0⟩ := hgeo tri htri
  obtain ⟨hwf0, -, -⟩ := inputTris_facts Q k verts tris hverts t0 ht0
  rcases h t0 ht0 with hc | hv
  · obtain ⟨s, hrep, -, hO⟩ := Retro.Props.C03.clip_winding t0 hwf0 hlen0 tri htri0
    rw [viewportMat_eq_vpMat] at hin hunc
    obtain ⟨hO', -⟩ := insideTri_nondeg _ _ _ _ t0 tri s hrep wa wb wc hO x y hin
    rw [piece_culled_eq ctx _ _ _ _ t0 tri s hrep wa wb wc hO', hc] at hunc
    cases hunc
  · obtain ⟨q, hq, hcen⟩ := inside_piece_visible L R T B t0 hwf0 hlen0 tri htri0 wa wb wc x y hin
    exact hv q hq hcen

/-- **The nearest visible surface wins, in terms of the input triangles.** Hypotheses of `render_pixel_c01`
(z-buffer configuration) with a non-empty viewport (`L < R`, `T < B`). Let the pixel (x, y) hold `(c, z)` before
the call, and let `t0` be an input triangle that face culling keeps (`cullsInput … = false`), whose visible part
has interior (`hnd`), with the eye off its plane (`det3 t0 ≠ 0`). If the pixel centre is the projection of a
VISIBLE point `q` of `t0` lying on no piece edge line, and the shader does not discard the fragment
`visFrag t0 q x y` (`[x+½, y+½, 1/w(q), attributes of t0 at q]`), then after `render` the pixel holds a depth slot
`d' ≥ 1/w(q)`: nothing farther than that visible point survives at the pixel. -/
theorem render_pixel_c01_visible (Q : Vec4 K → Prop) (hQ : ClipInv Q) (ctx : Ctx) (hz : ZBuf ctx)
    (shade : List K → Option C) (L R T B W H k : Nat) (hLR : L < R) (hTB : T < B) (hRW : R ≤ W) (hBH : B ≤ H)
    (tris : List (Nat × Nat × Nat)) (verts : List (Vec4 K × List K))
    (hidx : ∀ t ∈ tris, t.1 < verts.length ∧ t.2.1 < verts.length ∧ t.2.2 < verts.length)
    (hverts : ∀ v ∈ verts, Q v.1 ∧ v.2.length = k)
    (t : Target K C) (hwf : WFD t W H) :
    ∃ t' st, render ctx shade (viewportMat L R T B) tris verts t = .ok (t', st) ∧ WFD t' W H ∧
      ∀ x y c z, pix t x y = some (c, z) →
        ∀ t0 ∈ inputTris verts tris, cullsInput ctx (((R : K) - L) / 2) (((B : K) - T) / 2) t0 = false →
          (∃ q0 : Pt K, InOpenSimplex q0 ∧ ∀ p ∈ (planes : List (Plane K)), baryD p t0 q0 < 0) →
          triDet t0 ≠ 0 →
          ∀ q : Pt K, Visible t0 q → OffEdges t0 q → centre x y = projV L R T B (baryPos t0 q) →
            shade (visFrag t0 q x y) ≠ none →
            ∃ c' d', pix t' x y = some (c', d') ∧ 1 / (baryPos t0 q).w ≤ d' := by
  obtain ⟨t', st, hr, hwf', hp⟩ := render_pixel_c01 Q hQ ctx hz shade L R T B W H k hLR.le hTB.le hRW hBH tris
    verts hidx hverts t hwf
  refine ⟨t', st, hr, hwf', fun x y c z hold t0 ht0 hcull hnd hdet q hq hoff hxy hsh => ?_⟩
  obtain ⟨hwf0, hQ0, hlen0⟩ := inputTris_facts Q k verts tris hverts t0 ht0
  have h1 : (0 : K) < ((R : K) - L) / 2 := by
    have : (L : K) < R := by exact_mod_cast hLR
    linarith
  have h2 : (0 : K) < ((B : K) - T) / 2 := by
    have : (T : K) < B := by exact_mod_cast hTB
    linarith
  obtain ⟨tri, htri0, s, hrep, hst, hwq, hin, hf⟩ := visible_covered_frag _ _ _ _ (mul_pos h1 h2).ne' Q hQ t0
    hwf0 hQ0 hlen0 hnd hdet q hq hoff x y hxy
  obtain ⟨wa, wb, wc⟩ := piece_wpos Q hQ t0 hwf0 hQ0 tri htri0
  have hO : 0 < orient2 s.a s.b s.c := by
    rw [← Retro.Props.C03.orient2_sum s.a s.b s.c q]
    have := hst.1; have := hst.2.1; have := hst.2.2
    linarith
  have hmem : tri ∈ clipTris (inputTris verts tris) := List.mem_flatMap.mpr ⟨t0, ht0, htri0⟩
  have hvis : VisibleAt ctx (viewportMat L R T B) tri x y := by
    refine ⟨?_, hin⟩
    rw [viewportMat_eq_vpMat, piece_culled_eq ctx _ _ _ _ t0 tri s hrep wa wb wc hO, hcull]
  have hf' : pixFrag (viewportMat L R T B) tri x y = visFrag t0 q x y := hf
  have hdep : nth2 (pixFrag (viewportMat L R T B) tri x y) = 1 / (baryPos t0 q).w := by rw [hf']; rfl
  have hsh' : shade (pixFrag (viewportMat L R T B) tri x y) ≠ none := by rw [hf']; exact hsh
  rcases hp x y c z hold with ⟨hsame, hall⟩ | ⟨_, _, _, _, _, _, _, _, d, col, _, _, _, _, _, _, _, _, _, _, hpix, _, hall⟩
  · exact ⟨c, z, hsame, by have := hall tri hmem hvis hsh'; rwa [hdep] at this⟩
  · exact ⟨col, d, hpix, by have := hall tri hmem hvis hsh'; rwa [hdep] at this⟩

end Retro.Props.C01
