/-
C02 — Rendering never panics and never writes outside the viewport.
  `Retro.Props.C02.Links`   : the mechanism link by link (w > 0 after clipping, NDC square, viewport
                              rectangle, half-pixel slack for scanlines, no slice-index panic)
  `Retro.Props.C02.NoPanic` : the links composed — `drawTris_ok`, `render_ok`: in exact arithmetic,
                              `render` of any scene whose clip-space vertices come from the library's
                              perspective matrix completes without a panic, through the library's
                              viewport matrix for a rectangle inside the buffer
  `Retro.Props.C02.Confined`: `render_viewport_confined` — every pixel outside the viewport rectangle keeps
                              its colour and depth (per-pixel semantics of the draw loop from C06)
  `Retro.Props.C02.ConfinedColor`: the same for colour-only targets (`drawTris_pixC`, `render_color_target`)
  `Retro.Props.C02.Poison`  : NaN/∞-freedom of the depth buffer as a theorem — `render` run at `Poison K` on a lifted
                              scene is the lift of the exact run (`render_poison_free`), so the returned depth
                              buffer holds no `bad` entry (`render_depth_poison_free`)
-/
import Retro.Props.C02.Links
import Retro.Props.C02.NoPanic
import Retro.Props.C02.Confined
import Retro.Props.C02.ConfinedColor
import Retro.Props.C02.Poison
