/-
C02 — Rendering never panics and never writes outside the viewport.
  `Retro.Props.C02.Links`   : the mechanism link by link (w > 0 after clipping, NDC square, viewport
                              rectangle, half-pixel slack for scanlines, no slice-index panic)
  `Retro.Props.C02.NoPanic` : the links composed — `drawTris_ok`, `render_ok`: in exact arithmetic,
                              `render` of any scene whose clip-space vertices come from the library's
                              perspective matrix completes without a panic, through the library's
                              viewport matrix for a rectangle inside the buffer
  `Retro.Props.C02.Confined`: `render_viewport_confined` — every pixel outside the viewport rectangle keeps
                              its colour and depth (per-pixel semantics of the draw loop from C06)
  `Retro.Props.C02.ConfinedColor`: the same for colour-only targets (`drawTris_pixC`, `render_color_target`)
  `Retro.Props.C02.Poison`  : NaN/∞-freedom of the depth buffer as a theorem — `render` run at `Poison K` on a lifted
                              scene is the lift of the exact run (`render_poison_free`), so the returned depth
                              buffer holds no `bad` entry (`render_depth_poison_free`)
  `Retro.Props.C02.SlackF32`: the f32 side of the vertex and row links, at the IEEE binary32 bit level — a vertex
                              the f32 outcode test lets through (`outcode_zero_inside`) has its f32 screen position
                              inside the viewport rectangle exactly (`ndc_f32_bound`, `viewport_y_f32_bound`,
                              `viewport_x_f32_bound`, `survivor_screen_f32`), so every row an f32 scan visits
                              between such vertices is a row of the viewport (`rows_in_viewport_f32`,
                              `row_index_in_bounds_f32`)
-/
import Retro.Props.C02.Links
import Retro.Props.C02.NoPanic
import Retro.Props.C02.Confined
import Retro.Props.C02.ConfinedColor
import Retro.Props.C02.Poison
import Retro.Props.C02.SlackF32
