/-
C02, second half: `render` touches no pixel outside the viewport rectangle — as a theorem about the
final framebuffer (depth-buffered targets), from the per-pixel semantics of the draw loop
(`Retro.Props.C06.drawTris_pix`) and the fact that every scanline of every surviving triangle lies
inside the rectangle (`trifill_rows_in_rect`).
-/
import Retro.Props.C06.Buffer

namespace Retro.Props.C02
open Retro Retro.Clip Retro.Raster Retro.Render Retro.Lemmas.Clip Retro.Lemmas.Raster Retro.Lemmas.Target
open Retro.Props.C06

variable {K : Type} [Field K] [LinearOrder K] [IsStrictOrderedRing K] [FloorRing K] {C : Type}
attribute [local instance] hasFloorK hasToNatK

/-- Every scanline of every triangle of the list lies inside the rectangle (L,T)..(R,B). -/
def TrisInViewport (m : Mat4 K) (L R T B : Nat) (ts : List (Tri K)) : Prop :=
  ∀ tri ∈ ts, ∀ sl ∈ triFill (toScreen m tri.a) (toScreen m tri.b) (toScreen m tri.c),
    T ≤ sl.y ∧ sl.y < B ∧ L ≤ sl.x0 ∧ Nat.max sl.x1 sl.x0 ≤ R

/-- A scanline inside the rectangle delivers no fragment to a pixel outside it. -/
theorem slFrag_outside (sl : Scanline K) (L R T B x y : Nat)
    (h : T ≤ sl.y ∧ sl.y < B ∧ L ≤ sl.x0 ∧ Nat.max sl.x1 sl.x0 ≤ R)
    (hout : ¬(L ≤ x ∧ x < R ∧ T ≤ y ∧ y < B)) : slFrag sl x y = none := by
  unfold slFrag
  rw [if_neg]
  rintro ⟨rfl, h1, h2⟩
  exact hout ⟨by omega, by omega, h.1, h.2.1⟩

theorem triFrags_outside (ctx : Ctx) (m : Mat4 K) (L R T B : Nat) (ts : List (Tri K))
    (hin : TrisInViewport m L R T B ts) (x y : Nat) (hout : ¬(L ≤ x ∧ x < R ∧ T ≤ y ∧ y < B)) :
    triFrags ctx m ts x y = [] := by
  unfold triFrags
  rw [List.flatMap_eq_nil_iff]
  intro tri htri
  split
  · rfl
  · unfold fragsAt
    rw [List.flatMap_eq_nil_iff]
    intro sl hsl
    rw [slFrag_outside sl L R T B x y (hin tri htri sl hsl) hout]
    rfl

/-- Clipped triangles of a scene on a clip-invariant image project, through the library's viewport
matrix, to scanlines inside the viewport rectangle. -/
theorem clipped_inViewport (Q : Vec4 K → Prop) (hQ : ClipInv Q) (L R T B k : Nat)
    (hLR : L ≤ R) (hTB : T ≤ B) (ts : List (Tri K))
    (hts : ∀ tri ∈ ts, ∀ v ∈ [tri.a, tri.b, tri.c], WF v ∧ Q v.pos ∧ v.attr.length = k) :
    TrisInViewport (viewportMat L R T B) L R T B (clipTris ts) := by
  intro tri htri
  obtain ⟨t0, ht0, htri0⟩ := List.mem_flatMap.mp htri
  have hv0 := hts t0 ht0
  have hwf0 : Retro.Props.C03.TriWF t0 := ⟨(hv0 _ (by simp)).1, (hv0 _ (by simp)).1, (hv0 _ (by simp)).1⟩
  have hin := Retro.Props.C03.clip_inside t0 hwf0 tri htri0
  have hq := clip_keeps_inv Q hQ t0 (hv0 _ (by simp)).2.1 (hv0 _ (by simp)).2.1 (hv0 _ (by simp)).2.1 tri htri0
  have hlen := clip_attr_length k t0 (hv0 _ (by simp)).2.2 (hv0 _ (by simp)).2.2 (hv0 _ (by simp)).2.2 tri htri0
  have near : ∀ v ∈ Retro.Props.C03.triVerts tri, NearRect L R T B (toScreen (viewportMat L R T B) v) :=
    fun v hv => survivor_near_rect L R T B hLR hTB Q hQ v (hin v hv) (hq v hv)
  have hl : ∀ v ∈ Retro.Props.C03.triVerts tri, (toScreen (viewportMat L R T B) v).length = 3 + k := by
    intro v hv
    rw [toScreen_length, hlen v hv]
  have hrows := trifill_rows_in_rect L R T B (toScreen (viewportMat L R T B) tri.a) (toScreen (viewportMat L R T B) tri.b)
    (toScreen (viewportMat L R T B) tri.c) (3 + k) (by omega)
    (hl _ (by simp [Retro.Props.C03.triVerts])) (hl _ (by simp [Retro.Props.C03.triVerts]))
    (hl _ (by simp [Retro.Props.C03.triVerts]))
    (near _ (by simp [Retro.Props.C03.triVerts])) (near _ (by simp [Retro.Props.C03.triVerts]))
    (near _ (by simp [Retro.Props.C03.triVerts]))
  intro sl hsl
  obtain ⟨h1, h2, h3, h4, h5⟩ := hrows sl hsl
  exact ⟨h1, h2, h3, by rw [Nat.max_le]; omega⟩

/-- **`render` writes nothing outside the viewport.** For any scene on a clip-invariant image
(`perspInv`, `affineInv`), any Context and fragment shader, the library's viewport matrix for a rectangle
(L,T)..(R,B) inside a depth-buffered `W`×`H` target: `render` returns, and every pixel outside the
rectangle holds exactly the colour and depth it held before. -/
theorem render_viewport_confined (Q : Vec4 K → Prop) (hQ : ClipInv Q) (ctx : Ctx) (shade : List K → Option C)
    (L R T B W H k : Nat) (hLR : L ≤ R) (hTB : T ≤ B) (hRW : R ≤ W) (hBH : B ≤ H)
    (tris : List (Nat × Nat × Nat)) (verts : List (Vec4 K × List K))
    (hidx : ∀ t ∈ tris, t.1 < verts.length ∧ t.2.1 < verts.length ∧ t.2.2 < verts.length)
    (hverts : ∀ v ∈ verts, Q v.1 ∧ v.2.length = k) (t : Target K C) (hwf : WFD t W H) :
    ∃ t' st, render ctx shade (viewportMat L R T B) tris verts t = .ok (t', st) ∧ WFD t' W H ∧
      ∀ x y, ¬(L ≤ x ∧ x < R ∧ T ≤ y ∧ y < B) → pix t' x y = pix t x y := by
  obtain ⟨e, hin⟩ := render_eq_drawTris Q hQ ctx shade L R T B W H k hLR hTB hRW hBH tris verts hidx hverts t
  rw [e]
  obtain ⟨t', st', hr, hw', hpx⟩ := drawTris_pix ctx shade _ W H _ hin t
    { calls := 1, primsI := tris.length, vertsI := verts.length } hwf
  refine ⟨t', st', hr, hw', fun x y hout => ?_⟩
  have hcv : ∀ v ∈ verts.map (fun (p, a) => mkVert p a), WF v ∧ Q v.pos ∧ v.attr.length = k := by
    intro v hv
    obtain ⟨pa, hpa, rfl⟩ := List.mem_map.mp hv
    obtain ⟨q1, q2⟩ := hverts pa hpa
    exact ⟨mkVert_wf _ _, q1, q2⟩
  have hvp : TrisInViewport (viewportMat L R T B) L R T B (renderList ctx verts tris) := by
    have hclip := clipped_inViewport Q hQ L R T B k hLR hTB
      (tris.filterMap (mkTri (verts.map fun (p, a) => mkVert p a)))
      (by
        intro tri htri v hv
        obtain ⟨ijk, _, hmk⟩ := List.mem_filterMap.mp htri
        exact hcv v (mkTri_mem _ ijk tri hmk v hv))
    unfold renderList
    simp only
    cases ctx.depthSort with
    | none => exact hclip
    | some d => exact fun tri htri => hclip tri ((depthSorted_perm d _).subset htri)
  rw [hpx x y, triFrags_outside ctx _ L R T B _ hvp x y hout]
  cases pix t x y <;> simp [pixelFold]

end Retro.Props.C02
