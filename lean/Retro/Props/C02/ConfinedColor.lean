/-
Colour-only targets (`impl Target for Buf: AsMutSlice2<u32>`): per-pixel semantics of the draw loop,
viewport confinement (C02) and write masks (C07) as theorems about the returned colour buffer.
-/
import Retro.Props.C02.Confined
import Retro.Lemmas.TargetColor

namespace Retro.Props.C02
open Retro Retro.Clip Retro.Raster Retro.Render Retro.Lemmas.Clip Retro.Lemmas.Raster Retro.Lemmas.Target
open Retro.Lemmas.TargetColor Retro.Props.C06

variable {K : Type} [Field K] [LinearOrder K] [IsStrictOrderedRing K] [FloorRing K] {C : Type}
attribute [local instance] hasFloorK hasToNatK

/-- A `W`×`H` colour-only target. -/
def WFC (t : Target K C) (W H : Nat) : Prop := WFT t W H ∧ t.depth = none

/-- All fragments reaching a pixel of a colour-only target, applied in arrival order. -/
def foldC (ctx : Ctx) (shade : List K → Option C) (fs : List (List K)) (c : C) : C :=
  fs.foldl (stepC ctx shade) c

theorem foldC_append (ctx : Ctx) (shade : List K → Option C) (l1 l2 : List (List K)) (c : C) :
    foldC ctx shade (l1 ++ l2) c = foldC ctx shade l2 (foldC ctx shade l1 c) := by
  simp [foldC, List.foldl_append]

theorem rasterize_pixC2 (ctx : Ctx) (shade : List K → Option C) (t : Target K C) (W H : Nat) (sl : Scanline K)
    (hwf : WFC t W H) (hy : sl.y < H) (hx : Nat.max sl.x1 sl.x0 ≤ W) :
    ∃ t' i o, rasterize ctx shade t sl = .ok (t', i, o) ∧ WFC t' W H ∧
      ∀ x y, pixC t' x y = (pixC t x y).map (foldC ctx shade (slFrag sl x y).toList) := by
  obtain ⟨hw, hd⟩ := hwf
  obtain ⟨t1, i1, o1, h1, hw1⟩ := rasterize_ok ctx shade t W H sl hw hy hx
  obtain ⟨t2, i2, o2, h2, hd2, hp⟩ := rasterize_pixC ctx shade t W H sl hd hw.1 hw.2.1 hy hx
  rw [h1] at h2
  have e : t1 = t2 := by injection h2 with h2; injection h2
  subst e
  refine ⟨t1, i1, o1, h1, ⟨hw1, hd2⟩, fun x y => ?_⟩
  rw [hp x y]
  unfold slFrag
  by_cases hcond : y = sl.y ∧ sl.x0 ≤ x ∧ x < Nat.max sl.x1 sl.x0
  · rw [if_pos hcond, if_pos hcond]
    cases (List.map zdiv sl.frags)[x - sl.x0]? <;> cases pixC t x y <;> simp [foldC]
  · rw [if_neg hcond, if_neg hcond]
    cases pixC t x y <;> simp [foldC]

theorem rasterizeAll_pixC (ctx : Ctx) (shade : List K → Option C) (W H : Nat) (sls : List (Scanline K))
    (hin : ∀ sl ∈ sls, sl.y < H ∧ Nat.max sl.x1 sl.x0 ≤ W) (t : Target K C) (st : Stats) (hwf : WFC t W H) :
    ∃ t' st', rasterizeAll ctx shade t st sls = .ok (t', st') ∧ WFC t' W H ∧
      ∀ x y, pixC t' x y = (pixC t x y).map (foldC ctx shade (fragsAt sls x y)) := by
  induction sls generalizing t st with
  | nil =>
    refine ⟨t, st, rfl, hwf, fun x y => ?_⟩
    cases pixC t x y <;> simp [fragsAt, foldC]
  | cons sl rest ih =>
    obtain ⟨hy, hx⟩ := hin sl (by simp)
    obtain ⟨t1, i, o, hr, hwf1, hp1⟩ := rasterize_pixC2 ctx shade t W H sl hwf hy hx
    simp only [rasterizeAll, hr]
    obtain ⟨t2, st2, hr2, hwf2, hp2⟩ := ih (fun s hs => hin s (List.mem_cons_of_mem _ hs)) t1
      { st with fragsI := st.fragsI + i, fragsO := st.fragsO + o } hwf1
    refine ⟨t2, st2, hr2, hwf2, fun x y => ?_⟩
    rw [hp2 x y, hp1 x y, Option.map_map]
    congr 1
    funext s
    simp only [Function.comp, fragsAt, List.flatMap_cons]
    rw [foldC_append]

/-- **`drawTris` on a colour-only target is the per-pixel fold** (no depth test: every shaded fragment
is written when `color_write` is on). -/
theorem drawTris_pixC (ctx : Ctx) (shade : List K → Option C) (m : Mat4 K) (W H : Nat) (ts : List (Tri K))
    (hin : TrisInRect m W H ts) (t : Target K C) (st : Stats) (hwf : WFC t W H) :
    ∃ t' st', drawTris ctx shade m t st ts = .ok (t', st') ∧ WFC t' W H ∧
      ∀ x y, pixC t' x y = (pixC t x y).map (foldC ctx shade (triFrags ctx m ts x y)) := by
  induction ts generalizing t st with
  | nil =>
    refine ⟨t, st, rfl, hwf, fun x y => ?_⟩
    cases pixC t x y <;> simp [triFrags, foldC]
  | cons tri rest ih =>
    have hrest : TrisInRect m W H rest := fun t ht => hin t (List.mem_cons_of_mem _ ht)
    simp only [drawTris]
    by_cases hcull : culled ctx (toScreen m tri.a) (toScreen m tri.b) (toScreen m tri.c) = true
    · rw [if_pos hcull]
      obtain ⟨t2, st2, hr2, hwf2, hp2⟩ := ih hrest t st hwf
      refine ⟨t2, st2, hr2, hwf2, fun x y => ?_⟩
      rw [hp2 x y]
      simp only [triFrags, List.flatMap_cons, if_pos hcull, List.nil_append]
    · rw [if_neg hcull]
      obtain ⟨t1, st1, hr, hwf1, hp1⟩ := rasterizeAll_pixC ctx shade W H _ (hin tri (by simp)) t
        { st with primsO := st.primsO + 1, vertsO := st.vertsO + 3 } hwf
      simp only [hr]
      obtain ⟨t2, st2, hr2, hwf2, hp2⟩ := ih hrest t1 st1 hwf1
      refine ⟨t2, st2, hr2, hwf2, fun x y => ?_⟩
      rw [hp2 x y, hp1 x y, Option.map_map]
      congr 1
      funext s
      simp only [Function.comp, triFrags, List.flatMap_cons, if_neg hcull]
      rw [foldC_append]

theorem foldC_color_off (ctx : Ctx) (h : ctx.colorWrite = false) (shade : List K → Option C)
    (fs : List (List K)) (c : C) : foldC ctx shade fs c = c := by
  unfold foldC
  induction fs generalizing c with
  | nil => rfl
  | cons f fs ih =>
    simp only [List.foldl_cons]
    have : stepC ctx shade c f = c := by unfold stepC; cases shade f <;> simp [h]
    rw [this]; exact ih c

theorem foldC_discard_all (ctx : Ctx) (shade : List K → Option C) (hs : ∀ f, shade f = none)
    (fs : List (List K)) (c : C) : foldC ctx shade fs c = c := by
  unfold foldC
  induction fs generalizing c with
  | nil => rfl
  | cons f fs ih =>
    simp only [List.foldl_cons]
    have : stepC ctx shade c f = c := by unfold stepC; rw [hs f]
    rw [this]; exact ih c

/-- Two `W`×`H` colour-only targets with equal pixels are equal. -/
theorem targetC_ext (t1 t2 : Target K C) (W H : Nat) (w1 : WFC t1 W H) (w2 : WFC t2 W H)
    (h : ∀ x y, x < W → y < H → pixC t1 x y = pixC t2 x y) : t1 = t2 := by
  have ec : t1.color = t2.color := grid_ext W H _ _ w1.1.1 w2.1.1 w1.1.2.1 w2.1.2.1 h
  cases t1; cases t2
  simp only at ec
  have d1 := w1.2; have d2 := w2.2
  simp only at d1 d2
  subst ec d1 d2; rfl

/-- **Colour-only targets: `render` writes nothing outside the viewport**, leaves the buffer untouched
when `color_write = false` or when the shader returns no colour. -/
theorem render_color_target (Q : Vec4 K → Prop) (hQ : ClipInv Q) (ctx : Ctx) (shade : List K → Option C)
    (L R T B W H k : Nat) (hLR : L ≤ R) (hTB : T ≤ B) (hRW : R ≤ W) (hBH : B ≤ H)
    (tris : List (Nat × Nat × Nat)) (verts : List (Vec4 K × List K))
    (hidx : ∀ t ∈ tris, t.1 < verts.length ∧ t.2.1 < verts.length ∧ t.2.2 < verts.length)
    (hverts : ∀ v ∈ verts, Q v.1 ∧ v.2.length = k) (t : Target K C) (hwf : WFC t W H) :
    ∃ t' st, render ctx shade (viewportMat L R T B) tris verts t = .ok (t', st) ∧ WFC t' W H ∧
      (∀ x y, ¬(L ≤ x ∧ x < R ∧ T ≤ y ∧ y < B) → pixC t' x y = pixC t x y) ∧
      (ctx.colorWrite = false → t' = t) ∧ ((∀ f, shade f = none) → t' = t) := by
  obtain ⟨e, hin⟩ := render_eq_drawTris Q hQ ctx shade L R T B W H k hLR hTB hRW hBH tris verts hidx hverts t
  rw [e]
  obtain ⟨t', st', hr, hw', hpx⟩ := drawTris_pixC ctx shade _ W H _ hin t
    { calls := 1, primsI := tris.length, vertsI := verts.length } hwf
  refine ⟨t', st', hr, hw', ?_, ?_, ?_⟩
  · intro x y hout
    have hcv : ∀ v ∈ verts.map (fun (p, a) => mkVert p a), WF v ∧ Q v.pos ∧ v.attr.length = k := by
      intro v hv
      obtain ⟨pa, hpa, rfl⟩ := List.mem_map.mp hv
      obtain ⟨q1, q2⟩ := hverts pa hpa
      exact ⟨mkVert_wf _ _, q1, q2⟩
    have hvp : TrisInViewport (viewportMat L R T B) L R T B (renderList ctx verts tris) := by
      have hclip := clipped_inViewport Q hQ L R T B k hLR hTB
        (tris.filterMap (mkTri (verts.map fun (p, a) => mkVert p a)))
        (by
          intro tri htri v hv
          obtain ⟨ijk, _, hmk⟩ := List.mem_filterMap.mp htri
          exact hcv v (mkTri_mem _ ijk tri hmk v hv))
      unfold renderList
      simp only
      cases ctx.depthSort with
      | none => exact hclip
      | some d => exact fun tri htri => hclip tri ((depthSorted_perm d _).subset htri)
    rw [hpx x y, triFrags_outside ctx _ L R T B _ hvp x y hout]
    cases pixC t x y <;> simp [foldC]
  · intro hcw
    apply targetC_ext t' t W H hw' hwf
    intro x y _ _
    rw [hpx x y]
    cases pixC t x y <;> simp [foldC_color_off ctx hcw]
  · intro hs
    apply targetC_ext t' t W H hw' hwf
    intro x y _ _
    rw [hpx x y]
    cases pixC t x y <;> simp [foldC_discard_all ctx shade hs]

end Retro.Props.C02
