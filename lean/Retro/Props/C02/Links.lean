/-
C02 — Rendering never panics and never writes outside the viewport.

The mechanism, link by link, as exact-arithmetic theorems about the model functions:

  * `persp_w_pos`          a vertex inside the frustum that lies on the image of the perspective matrix
                           (z = e22·w + e23 with e22 + 1 > 0, e23 < 0, i.e. far > near > 0) has w > 0
  * `clip_keeps_relation`  every vertex the clipper outputs still satisfies that affine relation, so
                           with C03 `clip_inside` every surviving vertex has −w ≤ x,y,z ≤ w and w > 0
  * `ndc_in_square`, `screen_in_rect`   hence its NDC position is in [−1,1]² and its screen position,
                           through the library's viewport matrix for (L,T)..(R,B), lies in [L,R]×[T,B]
  * `edgeX_between`        edge points at heights between the endpoints stay between the endpoints' x
  * `scan_rows_in_rect`    for a trapezoid whose vertices are within HALF A PIXEL of the rectangle
                           (L−½ ≤ x < R+½, T−½ ≤ y < B+½ — the slack f32 rounding may use), every
                           scanline has T ≤ y < B and L ≤ x0, x0 ≤ R, x1 ≤ R
  * `rasterize_ok`         a scanline inside the buffer's bounds never hits the slice-index panics of
                           target.rs, and leaves the buffer dimensions unchanged
PARTIAL: (1) that f32 rounding keeps clipped NDC coordinates within the half-pixel slack, and the
accumulated edge-stepping error below it, is not proved (no error analysis) — adversarial scenes
through the library's own matrices with sentinel-filled buffers decide it per case; (2) the links
are not composed into one `render_no_fault` theorem over whole scenes; (3) NaN-freedom of depth
relies on C05 `scan_dvdx_den_ne_zero` / `scan_rows_imp_dy`.
-/
import Retro.Props.C03.Base
import Retro.Props.C04
import Retro.Model.Render

namespace Retro.Props.C02
open Retro Retro.Clip Retro.Raster Retro.Render Retro.Lemmas.Clip Retro.Lemmas.Raster

variable {K : Type} [Field K] [LinearOrder K] [IsStrictOrderedRing K]

/-! ### Surviving vertices have w > 0 and project into the viewport rectangle -/

/-- With `perspective(f, a, near..far)`, z_clip = e22·w + e23 where e22 = (far+near)/(far−near) and
e23 = 2·far·near/(near−far); `far > near > 0` gives e22 + 1 > 0 and e23 < 0. -/
theorem persp_coeffs (near far : K) (hn : 0 < near) (hf : near < far) :
    0 < (far + near) / (far - near) + 1 ∧ 2 * far * near / (near - far) < 0 := by
  have hd : 0 < far - near := by linarith
  constructor
  · have : (far + near) / (far - near) + 1 = 2 * far / (far - near) := by field_simp; ring
    rw [this]; apply div_pos <;> linarith
  · apply div_neg_of_pos_of_neg
    · have : 0 < far := by linarith
      positivity
    · linarith

theorem persp_w_pos (v : Vec4 K) (e22 e23 : K) (hin : Retro.Props.C03.Inside v)
    (hrel : v.z = e22 * v.w + e23) (h22 : 0 < e22 + 1) (h23 : e23 < 0) : 0 < v.w := by
  obtain ⟨h1, -, -, -, -, -⟩ := (Retro.Props.C03.inside_iff v).mp hin
  -- −w ≤ z = e22·w + e23  ⇒  (e22 + 1)·w ≥ −e23 > 0
  rw [hrel] at h1
  by_contra hc
  have hw : v.w ≤ 0 := not_lt.mp hc
  nlinarith [mul_nonneg_of_nonpos_of_nonpos hw (le_of_lt (neg_neg_of_pos h22))]

/-- The clipper's new vertices are lerps, so an affine relation between z and w survives clipping. -/
theorem clip_keeps_relation (e22 e23 : K) (t : Tri K)
    (ha : t.a.pos.z = e22 * t.a.pos.w + e23) (hb : t.b.pos.z = e22 * t.b.pos.w + e23)
    (hc : t.c.pos.z = e22 * t.c.pos.w + e23) :
    ∀ tri ∈ clipTri t, ∀ v ∈ Retro.Props.C03.triVerts tri, v.pos.z = e22 * v.pos.w + e23 := by
  intro tri htri v hv
  have hbase : ∀ v ∈ Retro.Props.C03.triVerts t, v.pos.z = e22 * v.pos.w + e23 := by
    intro v hv
    simp only [Retro.Props.C03.triVerts, List.mem_cons, List.mem_nil_iff, or_false] at hv
    rcases hv with rfl | rfl | rfl <;> assumption
  rcases Retro.Props.C03.clipTri_verts t tri htri v hv with ⟨_, hmem⟩ | hmem
  · exact hbase v hmem
  · have key : ∀ (ps : List (Plane K)) (vs : List (ClipVert K)),
        (∀ v ∈ vs, v.pos.z = e22 * v.pos.w + e23) → ∀ u ∈ clipAll ps vs, u.pos.z = e22 * u.pos.w + e23 := by
      intro ps
      induction ps with
      | nil => intro vs h u hu; exact h u (by simpa [clipAll] using hu)
      | cons p ps ih =>
        intro vs h u hu
        refine ih (clipPlane p vs) ?_ u (by simpa [clipAll] using hu)
        apply clipPlane_preserves (fun v => v.pos.z = e22 * v.pos.w + e23) p _ vs h
        intro v0 v1 h0 h1 _
        simp only [crossing, mkVert, lerpPos, lerp]
        rw [h0, h1]; ring
    exact key _ _ hbase v hmem

/-- Inside the frustum with w > 0: normalised device coordinates lie in [−1, 1]. -/
theorem ndc_in_square (v : Vec4 K) (hin : Retro.Props.C03.Inside v) (hw : 0 < v.w) :
    -1 ≤ v.x / v.w ∧ v.x / v.w ≤ 1 ∧ -1 ≤ v.y / v.w ∧ v.y / v.w ≤ 1 := by
  obtain ⟨-, -, h3, h4, h5, h6⟩ := (Retro.Props.C03.inside_iff v).mp hin
  refine ⟨?_, ?_, ?_, ?_⟩
  · rw [le_div_iff₀ hw]; linarith
  · rw [div_le_one hw]; exact h4
  · rw [le_div_iff₀ hw]; linarith
  · rw [div_le_one hw]; exact h6

/-- The library's viewport matrix for bounds (L,T)..(R,B) (mat.rs:647-660) sends the NDC square
into the pixel rectangle. -/
theorem screen_in_rect (L R T B : K) (hLR : L ≤ R) (hTB : T ≤ B) (v : Vec4 K)
    (hin : Retro.Props.C03.Inside v) (hw : 0 < v.w) :
    let dx := (R - L) / 2
    let dy := (B - T) / 2
    L ≤ (L + dx) + dx * (v.x / v.w) ∧ (L + dx) + dx * (v.x / v.w) ≤ R ∧
    T ≤ (T + dy) + dy * (v.y / v.w) ∧ (T + dy) + dy * (v.y / v.w) ≤ B := by
  intro dx dy
  obtain ⟨h1, h2, h3, h4⟩ := ndc_in_square v hin hw
  have hdx : 0 ≤ dx := by simp only [dx]; linarith
  have hdy : 0 ≤ dy := by simp only [dy]; linarith
  have e1 : L + dx + dx = R := by simp only [dx]; ring
  have e2 : T + dy + dy = B := by simp only [dy]; ring
  refine ⟨?_, ?_, ?_, ?_⟩ <;> nlinarith

/-! ### Scanlines of a triangle within half a pixel of the rectangle stay inside it -/

variable [FloorRing K]
attribute [local instance] hasFloorK hasToNatK

/-- A point of an edge at a height between the endpoints' heights lies between the endpoints in x. -/
theorem edgeX_between (y0 y1 : K) (a b : List K) (c lo hi : K) (hlt : y0 < y1) (hc0 : y0 ≤ c) (hc1 : c ≤ y1)
    (ha : lo ≤ nth0 a ∧ nth0 a < hi) (hb : lo ≤ nth0 b ∧ nth0 b < hi) :
    lo ≤ edgeX y0 y1 a b c ∧ edgeX y0 y1 a b c < hi := by
  unfold edgeX
  have hd : 0 < y1 - y0 := by linarith
  have ht0 : 0 ≤ (c - y0) / (y1 - y0) := div_nonneg (by linarith) hd.le
  have ht1 : (c - y0) / (y1 - y0) ≤ 1 := by rw [div_le_one hd]; linarith
  generalize (c - y0) / (y1 - y0) = t at ht0 ht1
  constructor
  · nlinarith [mul_nonneg ht0 (sub_nonneg.mpr hb.1), mul_nonneg (sub_nonneg.mpr ht1) (sub_nonneg.mpr ha.1)]
  · have h1 := ha.2; have h2 := hb.2
    rcases eq_or_lt_of_le ht0 with h | h
    · subst h; simpa using h1
    · nlinarith [mul_pos h (sub_pos.mpr h2), mul_nonneg (sub_nonneg.mpr ht1) (sub_nonneg.mpr h1.le)]

/-- **Half-pixel slack.** If the four corner tuples of a trapezoid have x in [L−½, R+½) and the scan
range satisfies T−½ ≤ y0, y1 < B+½, every scanline it emits lies inside rows T..B−1 and columns L..R. -/
theorem scan_rows_in_rect (L R T B : Nat) (y0 y1 : K) (l0 l1 r0 r1 : List K)
    (hl : l0.length = l1.length) (hl0 : 0 < l0.length) (hr : 0 < r0.length) (hr1 : 0 < r1.length)
    (hT : (T : K) - 1 / 2 ≤ y0) (hB : y1 < (B : K) + 1 / 2)
    (hx : ∀ v ∈ [l0, l1, r0, r1], (L : K) - 1 / 2 ≤ nth0 v ∧ nth0 v < (R : K) + 1 / 2) :
    ∀ row ∈ scan y0 y1 l0 l1 r0 r1, T ≤ row.y ∧ row.y < B ∧ L ≤ row.x0 ∧ row.x0 ≤ R ∧ row.x1 ≤ R := by
  intro row hrow
  obtain ⟨k, hk, hget⟩ := List.mem_iff_getElem.mp hrow
  have hlen := hk
  rw [Retro.Props.C04.scan_length] at hlen
  have hne : y1 - y0 ≠ 0 := by
    intro h0
    have : y1 = y0 := by linarith
    subst this; simp at hlen
  obtain ⟨row', hrow', hy, hx0, hx1, -⟩ := Retro.Props.C04.scan_get y0 y1 l0 l1 r0 r1 hne hl hl0 hr hr1 k hk
  have : row' = row := by
    rw [List.getElem?_eq_getElem hk] at hrow'; injection hrow' with e; rw [← e, hget]
  subst this
  -- rows
  have hfT : (T : Int) ≤ ⌊y0 + 1 / 2⌋ := by
    rw [Int.le_floor]; push_cast; linarith
  have hfB : ⌊y1 + 1 / 2⌋ ≤ (B : Int) := by
    rw [← Int.lt_add_one_iff, Int.floor_lt]; push_cast; linarith
  -- the row's centre height lies in (y0, y1]
  have hc0 : y0 ≤ roundUpHalf y0 + (k : K) := by
    rw [roundUpHalf_eq]
    have := Int.lt_floor_add_one (y0 + 1 / 2)
    have hk0 : (0 : K) ≤ (k : K) := Nat.cast_nonneg k
    linarith
  have hc1 : roundUpHalf y0 + (k : K) ≤ y1 := by
    rw [roundUpHalf_eq]
    have hk' : (⌊y0 + 1 / 2⌋ : Int) + (k : Int) + 1 ≤ ⌊y1 + 1 / 2⌋ := by omega
    have h1 : ((⌊y0 + 1 / 2⌋ + (k : Int) + 1 : Int) : K) ≤ y1 + 1 / 2 := by
      have := Int.floor_le (y1 + 1 / 2)
      calc ((⌊y0 + 1 / 2⌋ + (k : Int) + 1 : Int) : K) ≤ ((⌊y1 + 1 / 2⌋ : Int) : K) := by exact_mod_cast hk'
        _ ≤ y1 + 1 / 2 := this
    push_cast at h1
    linarith
  have hlt : y0 < y1 := by
    rcases lt_or_gt_of_ne (sub_ne_zero.mp hne) with h | h
    · -- y1 < y0 contradicts having rows
      exfalso
      have := Int.floor_le_floor (show y1 + 1 / 2 ≤ y0 + 1 / 2 by linarith)
      omega
    · exact h
  have hL := edgeX_between y0 y1 l0 l1 _ _ _ hlt hc0 hc1 (hx l0 (by simp)) (hx l1 (by simp))
  have hR := edgeX_between y0 y1 r0 r1 _ _ _ hlt hc0 hc1 (hx r0 (by simp)) (hx r1 (by simp))
  have fl (x : K) (h : (L : K) - 1 / 2 ≤ x) : (L : Int) ≤ ⌊x + 1 / 2⌋ := by
    rw [Int.le_floor]; push_cast; linarith
  have fr (x : K) (h : x < (R : K) + 1 / 2) : ⌊x + 1 / 2⌋ ≤ (R : Int) := by
    rw [← Int.lt_add_one_iff, Int.floor_lt]; push_cast; linarith
  have a1 := fl _ hL.1
  have a2 := fr _ hL.2
  have a3 := fr _ hR.2
  refine ⟨?_, ?_, ?_, ?_, ?_⟩
  · rw [hy]; omega
  · rw [hy]; omega
  · rw [hx0]; omega
  · rw [hx0]; omega
  · rw [hx1]; omega


/-! ### A scanline inside the buffer never hits the slice-index panics -/

section Buffers
variable {α : Type} [Add α] [Sub α] [Mul α] [Div α] [Neg α] [LT α] [DecidableLT α]
  [OfNat α 0] [OfNat α 1] [OfNat α 2] [HasFloor α] [HasToNat α] {C : Type}

theorem writeSpan_length {β : Type} (row : List β) (x : Nat) (vals : List β) :
    (writeSpan row x vals).length = row.length := by
  induction row generalizing x vals with
  | nil => cases vals <;> simp [writeSpan]
  | cons r rs ih =>
    cases vals with
    | nil => simp [writeSpan]
    | cons v vs =>
      cases x with
      | zero => simp [writeSpan, ih]
      | succ x => simp [writeSpan, ih]

theorem setRow_length {β : Type} (rows : List (List β)) (y : Nat) (r : List β) :
    (setRow rows y r).length = rows.length := by
  induction rows generalizing y with
  | nil => simp [setRow]
  | cons r0 rs ih => cases y <;> simp [setRow, ih]

theorem mem_setRow {β : Type} (rows : List (List β)) (y : Nat) (r x : List β) (h : x ∈ setRow rows y r) :
    x ∈ rows ∨ x = r := by
  induction rows generalizing y with
  | nil => simp [setRow] at h
  | cons r0 rs ih =>
    cases y with
    | zero =>
      simp only [setRow, List.mem_cons] at h
      rcases h with h | h
      · exact Or.inr h
      · exact Or.inl (List.mem_cons_of_mem _ h)
    | succ y =>
      simp only [setRow, List.mem_cons] at h
      rcases h with h | h
      · exact Or.inl (by simp [h])
      · rcases ih y h with h | h
        · exact Or.inl (List.mem_cons_of_mem _ h)
        · exact Or.inr h

/-- A `W`×`H` target: every row of the colour buffer (and of the depth buffer, if any) has `W` entries. -/
def WFT (t : Target α C) (W H : Nat) : Prop :=
  t.color.length = H ∧ (∀ row ∈ t.color, row.length = W) ∧
  ∀ d, t.depth = some d → d.length = H ∧ ∀ row ∈ d, row.length = W

/-- **No index panic.** A scanline with `y < H` and `max x1 x0 ≤ W` rasterizes without panicking into a
`W`×`H` target, and the target keeps its dimensions. -/
theorem rasterize_ok (ctx : Ctx) (shade : List α → Option C) (t : Target α C) (W H : Nat) (sl : Scanline α)
    (hwf : WFT t W H) (hy : sl.y < H) (hx : Nat.max sl.x1 sl.x0 ≤ W) :
    ∃ t' i o, rasterize ctx shade t sl = .ok (t', i, o) ∧ WFT t' W H := by
  obtain ⟨hc, hrows, hdep⟩ := hwf
  have hcy : sl.y < t.color.length := by omega
  unfold rasterize
  simp only
  rw [List.getElem?_eq_getElem hcy]
  simp only
  have hcl : (t.color[sl.y]).length = W := hrows _ (List.getElem_mem hcy)
  rw [if_neg (by omega)]
  cases hd : t.depth with
  | none =>
    simp only
    refine ⟨_, _, _, rfl, ?_, ?_, ?_⟩
    · simp only [setRow_length]; exact hc
    · intro row hrow
      rcases mem_setRow _ _ _ _ hrow with h | h
      · exact hrows row h
      · rw [h, writeSpan_length]; exact hcl
    · intro d h; simp only [hd] at h; cases h
  | some dbuf =>
    obtain ⟨hdl, hdrows⟩ := hdep dbuf hd
    have hdy : sl.y < dbuf.length := by omega
    simp only
    rw [List.getElem?_eq_getElem hdy]
    simp only
    have hzl : (dbuf[sl.y]).length = W := hdrows _ (List.getElem_mem hdy)
    rw [if_neg (by omega)]
    refine ⟨_, _, _, rfl, ?_, ?_, ?_⟩
    · simp only [setRow_length]; exact hc
    · intro row hrow
      rcases mem_setRow _ _ _ _ hrow with h | h
      · exact hrows row h
      · rw [h, writeSpan_length]; exact hcl
    · intro d h
      simp only [Option.some.injEq] at h
      subst h
      refine ⟨by simp only [setRow_length]; exact hdl, ?_⟩
      intro row hrow
      rcases mem_setRow _ _ _ _ hrow with h | h
      · exact hdrows row h
      · rw [h, writeSpan_length]; exact hzl

/-- All scanlines of a list, each inside the buffer: the whole loop completes. -/
theorem rasterizeAll_ok (ctx : Ctx) (shade : List α → Option C) (W H : Nat) (sls : List (Scanline α))
    (hin : ∀ sl ∈ sls, sl.y < H ∧ Nat.max sl.x1 sl.x0 ≤ W) (t : Target α C) (st : Stats) (hwf : WFT t W H) :
    ∃ t' st', rasterizeAll ctx shade t st sls = .ok (t', st') ∧ WFT t' W H := by
  induction sls generalizing t st with
  | nil => exact ⟨t, st, rfl, hwf⟩
  | cons sl rest ih =>
    obtain ⟨hy, hx⟩ := hin sl (by simp)
    obtain ⟨t1, i, o, hr, hwf1⟩ := rasterize_ok ctx shade t W H sl hwf hy hx
    simp only [rasterizeAll, hr]
    exact ih (fun s hs => hin s (List.mem_cons_of_mem _ hs)) t1 _ hwf1

end Buffers

/-! ### Non-vacuity -/

example : persp_coeffs (K := Rat) 1 10 (by norm_num) (by norm_num) = persp_coeffs 1 10 (by norm_num) (by norm_num) := rfl

end Retro.Props.C02
