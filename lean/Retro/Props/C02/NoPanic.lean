import Retro.Props.C02.Links
import Retro.Props.C01.Persp
import Retro.Props.C06.Pixel

namespace Retro.Props.C02
open Retro Retro.Clip Retro.Raster Retro.Render Retro.Lemmas.Clip Retro.Lemmas.Raster

variable {K : Type} [Field K] [LinearOrder K] [IsStrictOrderedRing K] [FloorRing K]
attribute [local instance] hasFloorK hasToNatK

/-- A screen-space vertex tuple within half a pixel of the rectangle (L,T)..(R,B). -/
def NearRect (L R T B : Nat) (v : List K) : Prop :=
  ((L : K) - 1 / 2 ≤ nth0 v ∧ nth0 v < (R : K) + 1 / 2) ∧ ((T : K) - 1 / 2 ≤ nth1 v ∧ nth1 v < (B : K) + 1 / 2)

/-- `lerp` between two values of an interval stays in the interval for 0 ≤ t ≤ 1. -/
theorem lerp_between (lo hi a b t : K) (ha : lo ≤ a ∧ a < hi) (hb : lo ≤ b ∧ b < hi) (h0 : 0 ≤ t) (h1 : t ≤ 1) :
    lo ≤ lerp a b t ∧ lerp a b t < hi := by
  unfold lerp
  constructor
  · nlinarith [mul_nonneg h0 (sub_nonneg.mpr hb.1), mul_nonneg (sub_nonneg.mpr h1) (sub_nonneg.mpr ha.1)]
  · rcases eq_or_lt_of_le h0 with h | h
    · subst h; simpa using ha.2
    · nlinarith [mul_pos h (sub_pos.mpr hb.2), mul_nonneg (sub_nonneg.mpr h1) (sub_nonneg.mpr ha.2.le)]

/-- **All scanlines of a triangle near the rectangle lie inside it.** -/
theorem trifill_rows_in_rect (L R T B : Nat) (a b c : List K) (m : Nat) (hm : 1 < m)
    (ha : a.length = m) (hb : b.length = m) (hc : c.length = m)
    (hna : NearRect L R T B a) (hnb : NearRect L R T B b) (hnc : NearRect L R T B c) :
    ∀ row ∈ triFill a b c, T ≤ row.y ∧ row.y < B ∧ L ≤ row.x0 ∧ row.x0 ≤ R ∧ row.x1 ≤ R := by
  obtain ⟨hT, hM, hB⟩ := Retro.Props.C04.sort3_lengths a b c m ha hb hc
  obtain ⟨h1, h2⟩ := Retro.Props.C04.sort3_sorted a b c
  have hmem := Retro.Props.C04.sort3_mem a b c
  have hnear : ∀ v ∈ [a, b, c], NearRect L R T B v := by
    intro v hv
    simp only [List.mem_cons, List.mem_nil_iff, or_false] at hv
    rcases hv with rfl | rfl | rfl <;> assumption
  set Tt := (sort3 a b c).1 with hTt
  set Mm := (sort3 a b c).2.1 with hMm
  set Bb := (sort3 a b c).2.2 with hBb
  have nT : NearRect L R T B Tt := hnear _ (hmem _ (by simp [Tt]))
  have nM : NearRect L R T B Mm := hnear _ (hmem _ (by simp [Mm]))
  have nB : NearRect L R T B Bb := hnear _ (hmem _ (by simp [Bb]))
  -- the split point on the long edge
  set tpar := (nth1 Mm - nth1 Tt) / (nth1 Bb - nth1 Tt) with htpar
  have ht0 : 0 ≤ tpar := by
    rw [htpar]; apply div_nonneg <;> linarith
  have ht1 : tpar ≤ 1 := by
    rw [htpar]
    by_cases hz : nth1 Bb - nth1 Tt = 0
    · rw [hz]; simp
    · have : 0 < nth1 Bb - nth1 Tt := lt_of_le_of_ne (by linarith) (Ne.symm hz)
      rw [div_le_one this]; linarith
  set mid1 := lerpL Tt Bb tpar with hmid1
  have hmidlen : mid1.length = m := by rw [hmid1, lerpL_length, hT, hB, Nat.min_self]
  have hmidx : (L : K) - 1 / 2 ≤ nth0 mid1 ∧ nth0 mid1 < (R : K) + 1 / 2 := by
    rw [hmid1, nth0_lerpL _ _ _ (by omega) (by omega)]
    exact lerp_between _ _ _ _ _ nT.1 nB.1 ht0 ht1
  intro row hrow
  rw [Retro.Props.C04.trifill_split] at hrow
  simp only at hrow
  rw [← hTt, ← hMm, ← hBb, ← htpar, ← hmid1] at hrow
  have hxs : ∀ (l r : List K), (l = Mm ∧ r = mid1) ∨ (l = mid1 ∧ r = Mm) →
      (∀ v ∈ [Tt, l, Tt, r], (L : K) - 1 / 2 ≤ nth0 v ∧ nth0 v < (R : K) + 1 / 2) ∧
      (∀ v ∈ [l, Bb, r, Bb], (L : K) - 1 / 2 ≤ nth0 v ∧ nth0 v < (R : K) + 1 / 2) ∧
      l.length = m ∧ r.length = m := by
    intro l r h
    rcases h with ⟨rfl, rfl⟩ | ⟨rfl, rfl⟩
    · refine ⟨?_, ?_, hM, hmidlen⟩ <;>
      · intro v hv
        simp only [List.mem_cons, List.mem_nil_iff, or_false] at hv
        rcases hv with rfl | rfl | rfl | rfl <;> first | exact nT.1 | exact nM.1 | exact nB.1 | exact hmidx
    · refine ⟨?_, ?_, hmidlen, hM⟩ <;>
      · intro v hv
        simp only [List.mem_cons, List.mem_nil_iff, or_false] at hv
        rcases hv with rfl | rfl | rfl | rfl <;> first | exact nT.1 | exact nM.1 | exact nB.1 | exact hmidx
  split_ifs at hrow with hcond
  · obtain ⟨hx1, hx2, hl, hr⟩ := hxs Mm mid1 (Or.inl ⟨rfl, rfl⟩)
    rcases List.mem_append.mp hrow with h | h
    · exact scan_rows_in_rect L R T B _ _ Tt Mm Tt mid1 (by rw [hT, hl]) (by omega) (by omega) (by omega)
        nT.2.1 nM.2.2 hx1 row h
    · exact scan_rows_in_rect L R T B _ _ Mm Bb mid1 Bb (by rw [hl, hB]) (by omega) (by omega) (by omega)
        nM.2.1 nB.2.2 hx2 row h
  · obtain ⟨hx1, hx2, hl, hr⟩ := hxs mid1 Mm (Or.inr ⟨rfl, rfl⟩)
    rcases List.mem_append.mp hrow with h | h
    · exact scan_rows_in_rect L R T B _ _ Tt mid1 Tt Mm (by rw [hT, hl]) (by omega) (by omega) (by omega)
        nT.2.1 nM.2.2 hx1 row h
    · exact scan_rows_in_rect L R T B _ _ mid1 Bb Mm Bb (by rw [hl, hB]) (by omega) (by omega) (by omega)
        nM.2.1 nB.2.2 hx2 row h


/-! ### From triangles to the whole draw loop -/

section Draw
variable {C : Type}

/-- Screen-space triangle whose three tuples have a common length ≥ 2 and lie near the rectangle. -/
def TriNear (L R T B : Nat) (m : Mat4 K) (k : Nat) (t : Tri K) : Prop :=
  (∀ v ∈ [t.a, t.b, t.c], (toScreen m v).length = 3 + k) ∧
  NearRect L R T B (toScreen m t.a) ∧ NearRect L R T B (toScreen m t.b) ∧ NearRect L R T B (toScreen m t.c)

/-- **The draw loop completes.** If every (post-clip) triangle projects to within half a pixel of a
rectangle that lies inside the `W`×`H` target, `drawTris` returns without a panic. -/
theorem drawTris_ok (ctx : Ctx) (shade : List K → Option C) (m : Mat4 K) (L R T B W H k : Nat)
    (hRW : R ≤ W) (hBH : B ≤ H) (ts : List (Tri K)) (hts : ∀ t ∈ ts, TriNear L R T B m k t)
    (t : Target K C) (st : Stats) (hwf : WFT t W H) :
    ∃ t' st', drawTris ctx shade m t st ts = .ok (t', st') ∧ WFT t' W H := by
  induction ts generalizing t st with
  | nil => exact ⟨t, st, rfl, hwf⟩
  | cons tri rest ih =>
    obtain ⟨hlen, na, nb, nc⟩ := hts tri (by simp)
    have hrest : ∀ t ∈ rest, TriNear L R T B m k t := fun t ht => hts t (List.mem_cons_of_mem _ ht)
    simp only [drawTris]
    split
    · exact ih hrest t st hwf
    · have hrows := trifill_rows_in_rect L R T B (toScreen m tri.a) (toScreen m tri.b) (toScreen m tri.c)
        (3 + k) (by omega) (hlen _ (by simp)) (hlen _ (by simp)) (hlen _ (by simp)) na nb nc
      have hin : ∀ sl ∈ triFill (toScreen m tri.a) (toScreen m tri.b) (toScreen m tri.c),
          sl.y < H ∧ Nat.max sl.x1 sl.x0 ≤ W := by
        intro sl hsl
        obtain ⟨_, h2, _, h4, h5⟩ := hrows sl hsl
        exact ⟨by omega, by rw [Nat.max_le]; omega⟩
      obtain ⟨t1, st1, hr, hwf1⟩ := rasterizeAll_ok ctx shade W H _ hin t
        { st with primsO := st.primsO + 1, vertsO := st.vertsO + 3 } hwf
      simp only [hr]
      exact ih hrest t1 st1 hwf1

end Draw

/-! ### The whole `render` call through the library's matrices -/

/-- Attribute lists keep their length through clipping (lerp of equal-length lists). -/
theorem clip_attr_length (k : Nat) (t : Tri K) (ha : t.a.attr.length = k) (hb : t.b.attr.length = k)
    (hc : t.c.attr.length = k) :
    ∀ tri ∈ clipTri t, ∀ v ∈ Retro.Props.C03.triVerts tri, v.attr.length = k := by
  intro tri htri v hv
  have hbase : ∀ v ∈ Retro.Props.C03.triVerts t, v.attr.length = k := by
    intro v hv
    simp only [Retro.Props.C03.triVerts, List.mem_cons, List.mem_nil_iff, or_false] at hv
    rcases hv with rfl | rfl | rfl <;> assumption
  rcases Retro.Props.C03.clipTri_verts t tri htri v hv with ⟨_, hmem⟩ | hmem
  · exact hbase v hmem
  · have key : ∀ (ps : List (Plane K)) (vs : List (ClipVert K)),
        (∀ v ∈ vs, v.attr.length = k) → ∀ u ∈ clipAll ps vs, u.attr.length = k := by
      intro ps
      induction ps with
      | nil => intro vs h u hu; exact h u (by simpa [clipAll] using hu)
      | cons p ps ih =>
        intro vs h u hu
        refine ih (clipPlane p vs) ?_ u (by simpa [clipAll] using hu)
        apply clipPlane_preserves (fun v => v.attr.length = k) p _ vs h
        intro v0 v1 h0 h1 _
        simp only [crossing, mkVert]
        rw [lerpL_length, h0, h1, Nat.min_self]
    exact key _ _ hbase v hmem

theorem toScreen_length (m : Mat4 K) (v : ClipVert K) : (toScreen m v).length = 3 + v.attr.length := by
  simp [toScreen]; omega

/-- The library's viewport matrix for pixel bounds (L,T)..(R,B) (mat.rs:647-660). -/
def viewportMat (L R T B : Nat) : Mat4 K :=
  ⟨⟨((R : K) - L) / 2, 0, 0, (L : K) + ((R : K) - L) / 2⟩, ⟨0, ((B : K) - T) / 2, 0, (T : K) + ((B : K) - T) / 2⟩,
   ⟨0, 0, 1, 0⟩, ⟨0, 0, 0, 1⟩⟩

/-- A vertex invariant that survives clipping (closed under the clipper's lerp) and forces `w > 0`
inside the frustum. Instances: the image of the perspective matrix, the image of an affine
(orthographic) matrix. -/
structure ClipInv (Q : Vec4 K → Prop) : Prop where
  lerp : ∀ a b t, Q a → Q b → Q (lerpPos a b t)
  wpos : ∀ v, Retro.Props.C03.Inside v → Q v → 0 < v.w

theorem clip_keeps_inv (Q : Vec4 K → Prop) (hQ : ClipInv Q) (t : Tri K)
    (ha : Q t.a.pos) (hb : Q t.b.pos) (hc : Q t.c.pos) :
    ∀ tri ∈ clipTri t, ∀ v ∈ Retro.Props.C03.triVerts tri, Q v.pos := by
  intro tri htri v hv
  have hbase : ∀ v ∈ Retro.Props.C03.triVerts t, Q v.pos := by
    intro v hv
    simp only [Retro.Props.C03.triVerts, List.mem_cons, List.mem_nil_iff, or_false] at hv
    rcases hv with rfl | rfl | rfl <;> assumption
  rcases Retro.Props.C03.clipTri_verts t tri htri v hv with ⟨_, hmem⟩ | hmem
  · exact hbase v hmem
  · have key : ∀ (ps : List (Plane K)) (vs : List (ClipVert K)),
        (∀ v ∈ vs, Q v.pos) → ∀ u ∈ clipAll ps vs, Q u.pos := by
      intro ps
      induction ps with
      | nil => intro vs h u hu; exact h u (by simpa [clipAll] using hu)
      | cons p ps ih =>
        intro vs h u hu
        refine ih (clipPlane p vs) ?_ u (by simpa [clipAll] using hu)
        apply clipPlane_preserves (fun v => Q v.pos) p _ vs h
        intro v0 v1 h0 h1 _
        simp only [crossing, mkVert]
        exact hQ.lerp _ _ _ h0 h1
    exact key _ _ hbase v hmem

/-- Points on the image of the library's perspective matrix. -/
theorem perspInv (e22 e23 : K) (h22 : 0 < e22 + 1) (h23 : e23 < 0) :
    ClipInv (fun v : Vec4 K => v.z = e22 * v.w + e23) where
  lerp := by
    intro a b t ha hb
    simp only [lerpPos, lerp]
    rw [ha, hb]; ring
  wpos := fun v hin hrel => persp_w_pos v e22 e23 hin hrel h22 h23

/-- Points with `w = 1` (any affine map, e.g. `orthographic`, applied to points). -/
theorem affineInv : ClipInv (fun v : Vec4 K => v.w = 1) where
  lerp := by
    intro a b t ha hb
    simp only [lerpPos, lerp]
    rw [ha, hb]; ring
  wpos := by
    intro v _ hw
    rw [hw]; exact one_pos

/-- A surviving vertex lands within the rectangle (hence within the half-pixel slack). -/
theorem survivor_near_rect (L R T B : Nat) (hLR : L ≤ R) (hTB : T ≤ B) (Q : Vec4 K → Prop) (hQ : ClipInv Q)
    (v : ClipVert K) (hin : Retro.Props.C03.Inside v.pos) (hq : Q v.pos) :
    NearRect L R T B (toScreen (viewportMat L R T B) v) := by
  have hw := hQ.wpos v.pos hin hq
  have hs := screen_in_rect (L : K) (R : K) (T : K) (B : K) (by exact_mod_cast hLR) (by exact_mod_cast hTB)
    v.pos hin hw
  simp only at hs
  obtain ⟨h1, h2, h3, h4⟩ := hs
  unfold viewportMat
  rw [Retro.Props.C01.toScreen_spec]
  simp only [NearRect, nth0, nth1]
  refine ⟨⟨by linarith, by linarith⟩, ⟨by linarith, by linarith⟩⟩

/-- **`render` completes without a panic (exact arithmetic).** Scene: any triangle list with valid
indices over any vertex list whose clip-space positions satisfy a clipping invariant `Q`
(`perspInv`: the image of the library's perspective matrix, far > near > 0; `affineInv`: w = 1, e.g.
`orthographic`) and whose attribute tuples have a common length; any Context; any fragment shader; the
library's viewport matrix for a rectangle (L,T)..(R,B) inside a `W`×`H` target. Then `render` returns a
value — no vertex-index, row-index or span-index panic — and the target keeps its dimensions. Vertices
may be anywhere: behind the eye, on the planes, coincident, zero-area. -/
theorem render_ok_of {C : Type} (Q : Vec4 K → Prop) (hQ : ClipInv Q) (ctx : Ctx) (shade : List K → Option C)
    (L R T B W H k : Nat) (hLR : L ≤ R) (hTB : T ≤ B) (hRW : R ≤ W) (hBH : B ≤ H)
    (tris : List (Nat × Nat × Nat)) (verts : List (Vec4 K × List K))
    (hidx : ∀ t ∈ tris, t.1 < verts.length ∧ t.2.1 < verts.length ∧ t.2.2 < verts.length)
    (hverts : ∀ v ∈ verts, Q v.1 ∧ v.2.length = k)
    (t : Target K C) (hwf : WFT t W H) :
    ∃ t' st, render ctx shade (viewportMat L R T B) tris verts t = .ok (t', st) ∧ WFT t' W H := by
  unfold render
  simp only
  have hcv : ∀ v ∈ verts.map (fun (p, a) => mkVert p a), WF v ∧ Q v.pos ∧ v.attr.length = k := by
    intro v hv
    obtain ⟨pa, hpa, rfl⟩ := List.mem_map.mp hv
    obtain ⟨h1, h2⟩ := hverts pa hpa
    exact ⟨mkVert_wf _ _, h1, h2⟩
  have hlook : ∀ (ts : List (Nat × Nat × Nat)),
      (∀ t ∈ ts, t.1 < verts.length ∧ t.2.1 < verts.length ∧ t.2.2 < verts.length) →
      ∃ out, lookupTris (verts.map (fun (p, a) => mkVert p a)) ts = .ok out ∧
        ∀ tri ∈ out, ∀ v ∈ [tri.a, tri.b, tri.c], v ∈ verts.map (fun (p, a) => mkVert p a) := by
    intro ts
    induction ts with
    | nil => intro _; exact ⟨[], rfl, by simp⟩
    | cons hd tl ih =>
      intro h
      obtain ⟨out, ho, hmem⟩ := ih (fun t ht => h t (List.mem_cons_of_mem _ ht))
      obtain ⟨i, j, l⟩ := hd
      obtain ⟨hi, hj, hl⟩ := h (i, j, l) (by simp)
      simp only at hi hj hl
      have li : i < (verts.map (fun (p, a) => mkVert p a)).length := by simpa using hi
      have lj : j < (verts.map (fun (p, a) => mkVert p a)).length := by simpa using hj
      have ll : l < (verts.map (fun (p, a) => mkVert p a)).length := by simpa using hl
      refine ⟨(⟨(verts.map (fun (p, a) => mkVert p a))[i], (verts.map (fun (p, a) => mkVert p a))[j],
        (verts.map (fun (p, a) => mkVert p a))[l]⟩ : Tri K) :: out, ?_, ?_⟩
      · simp only [lookupTris, List.getElem?_eq_getElem li, List.getElem?_eq_getElem lj,
          List.getElem?_eq_getElem ll, ho]
      · intro tri htri v hv
        rcases List.mem_cons.mp htri with rfl | htri
        · simp only [List.mem_cons, List.mem_nil_iff, or_false] at hv
          rcases hv with rfl | rfl | rfl <;> exact List.getElem_mem _
        · exact hmem tri htri v hv
  obtain ⟨ts, hts, htsmem⟩ := hlook tris hidx
  rw [hts]
  simp only
  have hclip : ∀ tri ∈ clipTris ts, TriNear L R T B (viewportMat L R T B) k tri := by
    intro tri htri
    obtain ⟨t0, ht0, htri0⟩ := List.mem_flatMap.mp htri
    have hv0 := fun v hv => hcv v (htsmem t0 ht0 v hv)
    have hwf0 : Retro.Props.C03.TriWF t0 := ⟨(hv0 _ (by simp)).1, (hv0 _ (by simp)).1, (hv0 _ (by simp)).1⟩
    have hin := Retro.Props.C03.clip_inside t0 hwf0 tri htri0
    have hq := clip_keeps_inv Q hQ t0 (hv0 _ (by simp)).2.1 (hv0 _ (by simp)).2.1 (hv0 _ (by simp)).2.1 tri htri0
    have hlen := clip_attr_length k t0 (hv0 _ (by simp)).2.2 (hv0 _ (by simp)).2.2 (hv0 _ (by simp)).2.2 tri htri0
    have near : ∀ v ∈ Retro.Props.C03.triVerts tri, NearRect L R T B (toScreen (viewportMat L R T B) v) :=
      fun v hv => survivor_near_rect L R T B hLR hTB Q hQ v (hin v hv) (hq v hv)
    refine ⟨?_, near _ (by simp [Retro.Props.C03.triVerts]), near _ (by simp [Retro.Props.C03.triVerts]),
      near _ (by simp [Retro.Props.C03.triVerts])⟩
    intro v hv
    rw [toScreen_length, hlen v (by simpa [Retro.Props.C03.triVerts] using hv)]
  have hsorted : ∀ tri ∈ (match ctx.depthSort with
      | some d => depthSorted d (clipTris ts)
      | none => clipTris ts), TriNear L R T B (viewportMat L R T B) k tri := by
    intro tri htri
    cases hd : ctx.depthSort with
    | none => rw [hd] at htri; exact hclip tri htri
    | some d =>
      rw [hd] at htri
      exact hclip tri ((Retro.Props.C06.depthSorted_perm d (clipTris ts)).subset htri)
  exact drawTris_ok ctx shade (viewportMat L R T B) L R T B W H k hRW hBH _ hsorted t _ hwf

/-- `render_ok_of` for scenes projected with `perspective(_, _, near..far)`, far > near > 0. -/
theorem render_ok {C : Type} (ctx : Ctx) (shade : List K → Option C) (L R T B W H k : Nat)
    (hLR : L ≤ R) (hTB : T ≤ B) (hRW : R ≤ W) (hBH : B ≤ H) (e22 e23 : K) (h22 : 0 < e22 + 1) (h23 : e23 < 0)
    (tris : List (Nat × Nat × Nat)) (verts : List (Vec4 K × List K))
    (hidx : ∀ t ∈ tris, t.1 < verts.length ∧ t.2.1 < verts.length ∧ t.2.2 < verts.length)
    (hverts : ∀ v ∈ verts, v.1.z = e22 * v.1.w + e23 ∧ v.2.length = k)
    (t : Target K C) (hwf : WFT t W H) :
    ∃ t' st, render ctx shade (viewportMat L R T B) tris verts t = .ok (t', st) ∧ WFT t' W H :=
  render_ok_of _ (perspInv e22 e23 h22 h23) ctx shade L R T B W H k hLR hTB hRW hBH tris verts hidx hverts t hwf

/-- `render_ok_of` for scenes projected with an affine matrix such as `orthographic` (w = 1). -/
theorem render_ok_ortho {C : Type} (ctx : Ctx) (shade : List K → Option C) (L R T B W H k : Nat)
    (hLR : L ≤ R) (hTB : T ≤ B) (hRW : R ≤ W) (hBH : B ≤ H)
    (tris : List (Nat × Nat × Nat)) (verts : List (Vec4 K × List K))
    (hidx : ∀ t ∈ tris, t.1 < verts.length ∧ t.2.1 < verts.length ∧ t.2.2 < verts.length)
    (hverts : ∀ v ∈ verts, v.1.w = 1 ∧ v.2.length = k)
    (t : Target K C) (hwf : WFT t W H) :
    ∃ t' st, render ctx shade (viewportMat L R T B) tris verts t = .ok (t', st) ∧ WFT t' W H :=
  render_ok_of _ affineInv ctx shade L R T B W H k hLR hTB hRW hBH tris verts hidx hverts t hwf

/-- Non-vacuity: the coefficient hypotheses are those of `perspective(_, _, 1.0..10.0)`. -/
example : (0 : Rat) < (10 + 1) / (10 - 1) + 1 ∧ (2 * 10 * 1 / (1 - 10) : Rat) < 0 := persp_coeffs 1 10 (by norm_num) (by norm_num)

end Retro.Props.C02
