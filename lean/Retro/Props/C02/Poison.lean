/-
C02 — "`render` … leaves the depth buffer free of NaN", as a theorem.

The whole pipeline model `Retro.Render.render` (clip → depth sort → screen transform → cull → `tri_fill`
→ `z_div` → depth test/shade/write) is run at the scalar `Poison K` (`Retro/Model/Poison.lean`) on a
LIFTED scene. Theorems, link by link (each says: the poison run is the lift of the exact run):

  * `clipTris_poison_free`   the clipper — UNCONDITIONALLY: the crossing parameter `-d0/(d1-d0)` is only
                             evaluated when `d0*d1 < 0`, which forces `d1 ≠ d0`
  * `depthSorted_poison_free` the painter's sort (keys are sums; comparisons of values)
  * `toScreen_poison_free`   perspective division + viewport transform, for `w ≠ 0`
  * `rasterize_poison_free`, `rasterizeAll_poison_free`   `z_div`, depth test, shading, span writes — for
                             scanlines whose fragments have `z ≠ 0`
  * `drawTris_poison_free`   the draw loop over triangles that are `TriFinite` (w ≠ 0, fragments' z ≠ 0)
  * `clipped_triFinite`      triangles that survive clipping of a scene on a clip-invariant image
                             (`perspInv`, `affineInv`: survivors have w > 0), drawn through the library's
                             viewport matrix, ARE `TriFinite`: vertex z = 1/w > 0 and C05 `frag_z_pos`
  * **`render_poison_free`** the whole call: poison run = lift of the exact run (value or panic alike)
  * **`render_depth_poison_free`** hence the returned depth buffer has no `bad` entry if the initial one
                             has none; `render_poison_ok`: and under the hypotheses of `render_ok_of` the
                             call returns (no panic) under the poison interpretation too
NOT covered: overflow of finite f32 operands to ∞, rounding, NaN/∞ input (design/Poison.md).
-/
import Retro.Model.Poison
import Retro.Props.C02.NoPanic
import Retro.Props.C05

namespace Retro.Props.C02
open Retro Retro.Clip Retro.Raster Retro.Render Retro.Lemmas.Clip Retro.Lemmas.Raster
open Retro.Poison (val bad liftL)
open Retro.Props.C05 (val_div_of_ne nth0_lift nth1_lift nth2_lift lerpL_lift liftL_not_bad map_div_lift)

set_option linter.unusedSectionVars false

variable {K : Type} [Field K] [LinearOrder K] [IsStrictOrderedRing K] [FloorRing K] {C : Type}
attribute [local instance] hasFloorK hasToNatK

/-! ### Lifting of the clip-space structures -/

def liftV4 (v : Vec4 K) : Vec4 (Poison K) := ⟨val v.x, val v.y, val v.z, val v.w⟩
def liftCV (v : ClipVert K) : ClipVert (Poison K) := ⟨liftV4 v.pos, liftL v.attr, v.oc⟩
def liftTri (t : Tri K) : Tri (Poison K) := ⟨liftCV t.a, liftCV t.b, liftCV t.c⟩
def liftPlane (p : Plane K) : Plane (Poison K) := ⟨liftV4 p.n, p.bit⟩
def liftMat (m : Mat4 K) : Mat4 (Poison K) := ⟨liftV4 m.r0, liftV4 m.r1, liftV4 m.r2, liftV4 m.r3⟩

/-! ### The clipper -/

theorem planes_lift : (planes : List (Plane (Poison K))) = (planes : List (Plane K)).map liftPlane := rfl

theorem signedDist_lift (p : Plane K) (v : Vec4 K) :
    signedDist (liftPlane p) (liftV4 v) = val (signedDist p v) := rfl

theorem planeOutcode_lift (p : Plane K) (v : Vec4 K) :
    planeOutcode (liftPlane p) (liftV4 v) = planeOutcode p v := by
  unfold planeOutcode
  rw [signedDist_lift]
  by_cases h : 0 < signedDist p v
  · have h' : (0 : Poison K) < val (signedDist p v) := h
    rw [if_pos h, if_pos h']; rfl
  · have h' : ¬ (0 : Poison K) < val (signedDist p v) := h
    rw [if_neg h, if_neg h']

theorem outcodeOf_lift (ps : List (Plane K)) (v : Vec4 K) :
    outcodeOf (ps.map liftPlane) (liftV4 v) = outcodeOf ps v := by
  unfold outcodeOf
  suffices h : ∀ acc : Nat, List.foldl (fun acc p => acc + planeOutcode p (liftV4 v)) acc (ps.map liftPlane) =
      List.foldl (fun acc p => acc + planeOutcode p v) acc ps from h 0
  induction ps with
  | nil => intro acc; rfl
  | cons p ps ih => intro acc; simp only [List.map_cons, List.foldl_cons, planeOutcode_lift, ih]

theorem mkVert_lift (pos : Vec4 K) (attr : List K) :
    mkVert (liftV4 pos) (liftL attr) = liftCV (mkVert pos attr) := by
  unfold mkVert
  rw [planes_lift, outcodeOf_lift]
  rfl

theorem lerpPos_lift (a b : Vec4 K) (t : K) : lerpPos (liftV4 a) (liftV4 b) (val t) = liftV4 (lerpPos a b t) := rfl

/-- The one division of the clipper. It is evaluated only for an edge whose end points are strictly on
opposite sides of the plane, and then its divisor `d1 − d0` cannot vanish. -/
theorem crossing_lift (p : Plane K) (v0 v1 : ClipVert K)
    (h : signedDist p v0.pos * signedDist p v1.pos < 0) :
    crossing (liftPlane p) (liftCV v0) (liftCV v1) = liftCV (crossing p v0 v1) := by
  have hne : signedDist p v1.pos - signedDist p v0.pos ≠ 0 := by
    intro he
    have : signedDist p v1.pos = signedDist p v0.pos := by linarith
    rw [this] at h
    nlinarith [mul_self_nonneg (signedDist p v0.pos)]
  unfold crossing
  simp only [liftCV, signedDist_lift, Poison.val_neg, Poison.val_sub, val_div_of_ne _ _ hne, lerpPos_lift,
    lerpL_lift, mkVert_lift]

theorem clipEdge_lift (p : Plane K) (v0 v1 : ClipVert K) :
    clipEdge (liftPlane p) (liftCV v0) (liftCV v1) = (clipEdge p v0 v1).map liftCV := by
  unfold clipEdge
  have hin : isInside (liftPlane p) (liftCV v0) = isInside p v0 := rfl
  simp only [hin]
  by_cases h : signedDist p v0.pos * signedDist p v1.pos < 0
  · have h' : signedDist (liftPlane p) (liftCV v0).pos * signedDist (liftPlane p) (liftCV v1).pos < 0 := h
    rw [if_pos h, if_pos h', crossing_lift p v0 v1 h]
    split <;> simp
  · have h' : ¬ signedDist (liftPlane p) (liftCV v0).pos * signedDist (liftPlane p) (liftCV v1).pos < 0 := h
    rw [if_neg h, if_neg h']
    split <;> simp

theorem clipEdges_lift (p : Plane K) (first : ClipVert K) (vs : List (ClipVert K)) :
    clipEdges (liftPlane p) (liftCV first) (vs.map liftCV) = (clipEdges p first vs).map liftCV := by
  induction vs with
  | nil => rfl
  | cons v rest ih =>
    cases rest with
    | nil => simp only [List.map_cons, List.map_nil, clipEdges, clipEdge_lift]
    | cons w rest' =>
      simp only [List.map_cons, clipEdges, clipEdge_lift, List.map_append] at ih ⊢
      rw [ih]

theorem clipPlane_lift (p : Plane K) (vs : List (ClipVert K)) :
    clipPlane (liftPlane p) (vs.map liftCV) = (clipPlane p vs).map liftCV := by
  cases vs with
  | nil => rfl
  | cons v rest =>
    simp only [List.map_cons, clipPlane]
    exact clipEdges_lift p v (v :: rest)

theorem clipPolygon_lift (ps : List (Plane K)) (vs : List (ClipVert K)) :
    clipPolygon (ps.map liftPlane) (vs.map liftCV) = (clipPolygon ps vs).map liftCV := by
  induction ps generalizing vs with
  | nil => rfl
  | cons p ps ih =>
    cases ps with
    | nil => simp only [List.map_cons, List.map_nil, clipPolygon, clipPlane_lift]
    | cons q ps' =>
      simp only [List.map_cons, clipPolygon, clipPlane_lift, List.isEmpty_map] at ih ⊢
      split
      · rfl
      · exact ih _

theorem fan_lift (a : ClipVert K) (vs : List (ClipVert K)) :
    fan (liftCV a) (vs.map liftCV) = (fan a vs).map liftTri := by
  induction vs with
  | nil => rfl
  | cons e0 rest ih =>
    cases rest with
    | nil => rfl
    | cons e1 rest' =>
      simp only [List.map_cons, fan] at ih ⊢
      rw [ih]; rfl

theorem clipTri_lift (t : Tri K) : clipTri (liftTri t) = (clipTri t).map liftTri := by
  unfold clipTri
  have hs : status [(liftTri t).a, (liftTri t).b, (liftTri t).c] = status [t.a, t.b, t.c] := rfl
  rw [hs]
  cases status [t.a, t.b, t.c] with
  | visible => rfl
  | hidden => rfl
  | clipped =>
    simp only
    have hp := clipPolygon_lift (planes : List (Plane K)) [t.a, t.b, t.c]
    rw [← planes_lift] at hp
    have e : [(liftTri t).a, (liftTri t).b, (liftTri t).c] = [t.a, t.b, t.c].map liftCV := rfl
    rw [e, hp]
    cases clipPolygon (planes : List (Plane K)) [t.a, t.b, t.c] with
    | nil => rfl
    | cons a rest => exact fan_lift a rest

/-- **The clipper is poison-free — unconditionally.** Clipping the lifted triangles gives the lifts of
the clipped triangles: no vertex position, attribute or outcode the clipper produces from finite input
involves a division by zero. -/
theorem clipTris_poison_free (ts : List (Tri K)) :
    clipTris (ts.map liftTri) = (clipTris ts).map liftTri := by
  unfold clipTris
  induction ts with
  | nil => rfl
  | cons t rest ih => simp only [List.map_cons, List.flatMap_cons, clipTri_lift, ih, List.map_append]

/-! ### Depth sort -/

theorem sortKey_lift (t : Tri K) : sortKey (liftTri t) = val (sortKey t) := rfl

theorem insertBy_lift (ltP : Tri (Poison K) → Tri (Poison K) → Bool) (lt : Tri K → Tri K → Bool)
    (h : ∀ t u, ltP (liftTri t) (liftTri u) = lt t u) (t : Tri K) (us : List (Tri K)) :
    insertBy ltP (liftTri t) (us.map liftTri) = (insertBy lt t us).map liftTri := by
  induction us with
  | nil => rfl
  | cons u us ih =>
    simp only [List.map_cons, insertBy, h]
    split
    · rfl
    · rw [ih]; rfl

theorem decide_lt_lift (a b : K) : decide ((val a : Poison K) < val b) = decide (a < b) := by
  by_cases h : a < b
  · have h' : (val a : Poison K) < val b := h
    rw [decide_eq_true h, decide_eq_true h']
  · have h' : ¬ (val a : Poison K) < val b := h
    rw [decide_eq_false h, decide_eq_false h']

/-- The painter's sort is poison-free: keys are sums of values, comparisons are comparisons of values. -/
theorem depthSorted_poison_free (d : DepthSort) (ts : List (Tri K)) :
    depthSorted d (ts.map liftTri) = (depthSorted d ts).map liftTri := by
  unfold depthSorted
  simp only
  induction ts with
  | nil => rfl
  | cons t rest ih =>
    simp only [List.map_cons, List.foldr_cons]
    rw [ih]
    apply insertBy_lift
    intro t u
    cases d <;> simp only [sortKey_lift] <;> exact decide_lt_lift _ _

/-! ### Screen transform, culling -/

/-- **Perspective division is poison-free for `w ≠ 0`.** -/
theorem toScreen_poison_free (m : Mat4 K) (v : ClipVert K) (hw : v.pos.w ≠ 0) :
    toScreen (liftMat m) (liftCV v) = liftL (toScreen m v) := by
  unfold toScreen
  simp only [liftCV, liftV4, liftMat, applyMat, dot4, val_div_of_ne _ _ hw, Poison.ofNat_eq, Poison.val_mul,
    Poison.val_add, map_div_lift _ _ hw, Poison.liftL_cons]

/-- With `w = 0` the position is poisoned (`x/0`): the hypothesis matters. -/
theorem toScreen_w_zero_bad (m : Mat4 K) (p : Vec4 K) (attr : List K) (oc : Nat) (hw : p.w = 0) :
    nth2 (toScreen (liftMat m) (liftCV ⟨p, attr, oc⟩)) = bad := by
  unfold toScreen
  simp only [liftCV, liftV4, liftMat, applyMat, dot4, hw, Poison.val_div, if_true, Poison.ofNat_eq]
  rfl

theorem isBackface_lift (a b c : List K) : isBackface (liftL a) (liftL b) (liftL c) = isBackface a b c := by
  unfold isBackface
  simp only [nth0_lift, nth1_lift, Poison.val_sub, Poison.val_mul, Poison.ofNat_eq, decide_lt_lift]

theorem culled_lift (ctx : Ctx) (a b c : List K) : culled ctx (liftL a) (liftL b) (liftL c) = culled ctx a b c := by
  unfold culled
  rw [isBackface_lift]

/-! ### Depth test, shading, span writes -/

theorem depthTest_lift (ctx : Ctx) (new curr : K) :
    depthTest ctx (val new : Poison K) (val curr) = depthTest ctx new curr := by
  unfold depthTest
  cases ctx.depthTest with
  | none => rfl
  | some o => cases o <;> simp only [decide_lt_lift]

/-- A render target with every depth entry embedded. -/
def liftTarget (t : Target K C) : Target (Poison K) C := ⟨t.color, t.depth.map (·.map liftL)⟩

theorem shadeFrag_lift (ctx : Ctx) (shadeP : List (Poison K) → Option C) (f : List K) (c : C) (z : K) :
    shadeFrag ctx shadeP (liftL f) c (val z) =
      ((shadeFrag ctx (fun g => shadeP (liftL g)) f c z).1, val (shadeFrag ctx (fun g => shadeP (liftL g)) f c z).2.1,
        (shadeFrag ctx (fun g => shadeP (liftL g)) f c z).2.2) := by
  unfold shadeFrag
  simp only [nth2_lift, depthTest_lift]
  split
  · cases shadeP (liftL f) with
    | none => rfl
    | some col => simp only; split <;> split <;> rfl
  · rfl

theorem shadeSpan_lift (ctx : Ctx) (shadeP : List (Poison K) → Option C) (fs : List (List K)) (cs : List C)
    (zs : List K) :
    shadeSpan ctx shadeP (fs.map liftL) cs (liftL zs) =
      ((shadeSpan ctx (fun g => shadeP (liftL g)) fs cs zs).1,
        liftL (shadeSpan ctx (fun g => shadeP (liftL g)) fs cs zs).2.1,
        (shadeSpan ctx (fun g => shadeP (liftL g)) fs cs zs).2.2) := by
  induction fs generalizing cs zs with
  | nil => simp [shadeSpan]
  | cons f fs ih =>
    cases cs with
    | nil => simp [shadeSpan]
    | cons c cs =>
      cases zs with
      | nil => simp [shadeSpan]
      | cons z zs =>
        simp only [List.map_cons, Poison.liftL_cons, shadeSpan, shadeFrag_lift, ih]

theorem shadeSpanColor_lift (ctx : Ctx) (shadeP : List (Poison K) → Option C) (fs : List (List K)) (cs : List C) :
    shadeSpanColor ctx shadeP (fs.map liftL) cs = shadeSpanColor ctx (fun g => shadeP (liftL g)) fs cs := by
  induction fs generalizing cs with
  | nil => simp [shadeSpanColor]
  | cons f fs ih =>
    cases cs with
    | nil => simp [shadeSpanColor]
    | cons c cs => simp only [List.map_cons, shadeSpanColor, ih]

theorem writeSpan_lift (row : List K) (x : Nat) (vals : List K) :
    writeSpan (liftL row) x (liftL vals) = liftL (writeSpan row x vals) := by
  induction row generalizing x vals with
  | nil => cases vals <;> simp [writeSpan]
  | cons r rs ih =>
    cases vals with
    | nil => simp [writeSpan]
    | cons v vs =>
      cases x with
      | zero => simp only [Poison.liftL_cons, writeSpan]; rw [← Poison.liftL_cons, ih]; rfl
      | succ x => simp only [Poison.liftL_cons, writeSpan]; rw [← Poison.liftL_cons, ih]

theorem setRow_lift (rows : List (List K)) (y : Nat) (r : List K) :
    setRow (rows.map liftL) y (liftL r) = (setRow rows y r).map liftL := by
  induction rows generalizing y with
  | nil => rfl
  | cons r0 rs ih => cases y <;> simp [setRow, ih]

/-- The outcome of a rasterization step / draw loop with the depth buffer embedded. -/
def liftOut {β : Type} : Outcome (Target K C × β) → Outcome (Target (Poison K) C × β)
  | .ok (t, b) => .ok (liftTarget t, b)
  | .panic s => .panic s

theorem zdiv_frags_lift (frags : List (List K)) (hz : ∀ f ∈ frags, nth2 f ≠ 0) :
    (frags.map liftL).map zdiv = (frags.map zdiv).map liftL := by
  rw [List.map_map, List.map_map]
  apply List.map_congr_left
  intro f hf
  exact Retro.Props.C05.zdiv_poison_free f (hz f hf)

theorem liftL_drop_take (row : List K) (a n : Nat) :
    ((liftL row).drop a).take n = liftL ((row.drop a).take n) := by
  simp [liftL, List.map_drop, List.map_take]

/-- **One scanline.** If no fragment of the scanline has `z = 0`, rasterizing its lift into the lifted target
under the poison interpretation gives the lift of the exact result (or the same panic). -/
theorem rasterize_poison_free (ctx : Ctx) (shadeP : List (Poison K) → Option C) (t : Target K C)
    (sl : Scanline K) (hz : ∀ f ∈ sl.frags, nth2 f ≠ 0) :
    rasterize ctx shadeP (liftTarget t) sl.lift = liftOut (rasterize ctx (fun g => shadeP (liftL g)) t sl) := by
  unfold rasterize
  simp only [Scanline.lift, liftTarget, zdiv_frags_lift _ hz]
  cases hc : t.color[sl.y]? with
  | none => rfl
  | some crow =>
    simp only
    split
    · rfl
    · cases hd : t.depth with
      | none =>
        simp only [Option.map_none, shadeSpanColor_lift]
        rfl
      | some dbuf =>
        simp only [Option.map_some, List.getElem?_map]
        cases hzr : dbuf[sl.y]? with
        | none => rfl
        | some zrow =>
          simp only [Option.map_some, Retro.Props.C05.liftL_length]
          split
          · rfl
          · simp only [liftL_drop_take, shadeSpan_lift, writeSpan_lift, setRow_lift]
            rfl

theorem rasterizeAll_poison_free (ctx : Ctx) (shadeP : List (Poison K) → Option C) (sls : List (Scanline K))
    (hz : ∀ sl ∈ sls, ∀ f ∈ sl.frags, nth2 f ≠ 0) (t : Target K C) (st : Stats) :
    rasterizeAll ctx shadeP (liftTarget t) st (sls.map Scanline.lift) =
      liftOut (rasterizeAll ctx (fun g => shadeP (liftL g)) t st sls) := by
  induction sls generalizing t st with
  | nil => rfl
  | cons sl rest ih =>
    simp only [List.map_cons, rasterizeAll]
    rw [rasterize_poison_free ctx shadeP t sl (hz sl (by simp))]
    cases rasterize ctx (fun g => shadeP (liftL g)) t sl with
    | panic m => rfl
    | ok r =>
      obtain ⟨t', i, o⟩ := r
      simp only [liftOut]
      exact ih (fun s hs => hz s (List.mem_cons_of_mem _ hs)) t' _

/-- A (post-clip) triangle the draw loop processes without a zero divisor: the three `w` are non-zero
(perspective division) and no fragment of its scan conversion has `z = 0` (`z_div`). -/
def TriFinite (m : Mat4 K) (t : Tri K) : Prop :=
  t.a.pos.w ≠ 0 ∧ t.b.pos.w ≠ 0 ∧ t.c.pos.w ≠ 0 ∧
  ∀ row ∈ triFill (toScreen m t.a) (toScreen m t.b) (toScreen m t.c), ∀ f ∈ row.frags, nth2 f ≠ 0

/-- **The draw loop is poison-free** over `TriFinite` triangles: screen transform, culling, statistics,
`tri_fill` (C05 `trifill_poison_free`), `z_div`, depth test, shading and the buffer writes of the poison
run are the lifts of the exact run's. -/
theorem drawTris_poison_free (ctx : Ctx) (shadeP : List (Poison K) → Option C) (m : Mat4 K)
    (ts : List (Tri K)) (hts : ∀ t ∈ ts, TriFinite m t) (t : Target K C) (st : Stats) :
    drawTris ctx shadeP (liftMat m) (liftTarget t) st (ts.map liftTri) =
      liftOut (drawTris ctx (fun g => shadeP (liftL g)) m t st ts) := by
  induction ts generalizing t st with
  | nil => rfl
  | cons tri rest ih =>
    obtain ⟨wa, wb, wc, hz⟩ := hts tri (by simp)
    have hrest : ∀ t ∈ rest, TriFinite m t := fun t ht => hts t (List.mem_cons_of_mem _ ht)
    have ea : toScreen (liftMat m) (liftTri tri).a = liftL (toScreen m tri.a) := toScreen_poison_free m tri.a wa
    have eb : toScreen (liftMat m) (liftTri tri).b = liftL (toScreen m tri.b) := toScreen_poison_free m tri.b wb
    have ec : toScreen (liftMat m) (liftTri tri).c = liftL (toScreen m tri.c) := toScreen_poison_free m tri.c wc
    simp only [List.map_cons, drawTris, ea, eb, ec, culled_lift, Retro.Props.C05.trifill_poison_free]
    split
    · exact ih hrest t st
    · rw [rasterizeAll_poison_free ctx shadeP _ hz]
      cases rasterizeAll ctx (fun g => shadeP (liftL g)) t
          { st with primsO := st.primsO + 1, vertsO := st.vertsO + 3 }
          (triFill (toScreen m tri.a) (toScreen m tri.b) (toScreen m tri.c)) with
      | panic msg => rfl
      | ok r =>
        obtain ⟨t', st'⟩ := r
        simp only [liftOut]
        exact ih hrest t' st'

/-! ### Survivors of the clipper are `TriFinite` -/

theorem viewport_z (L R T B : Nat) (v : ClipVert K) : nth2 (toScreen (viewportMat L R T B) v) = 1 / v.pos.w := by
  unfold viewportMat
  rw [Retro.Props.C01.toScreen_spec]
  rfl

/-- Triangles that survive clipping of a scene on a clip-invariant image, drawn through the library's
viewport matrix: `w > 0` at every vertex (C03 `clip_inside`, `ClipInv`), so the reciprocal depth `1/w` of
every screen vertex is positive, so every fragment has `z > 0` (C05 `frag_z_pos`). -/
theorem clipped_triFinite (Q : Vec4 K → Prop) (hQ : ClipInv Q) (L R T B k : Nat) (ts : List (Tri K))
    (hts : ∀ tri ∈ ts, ∀ v ∈ [tri.a, tri.b, tri.c], WF v ∧ Q v.pos ∧ v.attr.length = k) :
    ∀ tri ∈ clipTris ts, TriFinite (viewportMat L R T B) tri := by
  intro tri htri
  obtain ⟨t0, ht0, htri0⟩ := List.mem_flatMap.mp htri
  have hv0 := hts t0 ht0
  have hwf0 : Retro.Props.C03.TriWF t0 := ⟨(hv0 _ (by simp)).1, (hv0 _ (by simp)).1, (hv0 _ (by simp)).1⟩
  have hin := Retro.Props.C03.clip_inside t0 hwf0 tri htri0
  have hq := clip_keeps_inv Q hQ t0 (hv0 _ (by simp)).2.1 (hv0 _ (by simp)).2.1 (hv0 _ (by simp)).2.1 tri htri0
  have hlen := clip_attr_length k t0 (hv0 _ (by simp)).2.2 (hv0 _ (by simp)).2.2 (hv0 _ (by simp)).2.2 tri htri0
  have hw : ∀ v ∈ Retro.Props.C03.triVerts tri, 0 < v.pos.w := fun v hv => hQ.wpos v.pos (hin v hv) (hq v hv)
  have hl : ∀ v ∈ Retro.Props.C03.triVerts tri, (toScreen (viewportMat L R T B) v).length = 3 + k := by
    intro v hv
    rw [toScreen_length, hlen v hv]
  have hzp : ∀ v ∈ Retro.Props.C03.triVerts tri, 0 < nth2 (toScreen (viewportMat L R T B) v) := by
    intro v hv
    rw [viewport_z]
    exact one_div_pos.mpr (hw v hv)
  have ma : tri.a ∈ Retro.Props.C03.triVerts tri := by simp [Retro.Props.C03.triVerts]
  have mb : tri.b ∈ Retro.Props.C03.triVerts tri := by simp [Retro.Props.C03.triVerts]
  have mc : tri.c ∈ Retro.Props.C03.triVerts tri := by simp [Retro.Props.C03.triVerts]
  refine ⟨(hw _ ma).ne', (hw _ mb).ne', (hw _ mc).ne', ?_⟩
  intro row hrow f hf
  exact (Retro.Props.C05.frag_z_pos _ _ _ (3 + k) (by omega) (hl _ ma) (hl _ mb) (hl _ mc)
    (hzp _ ma) (hzp _ mb) (hzp _ mc) row hrow f hf).ne'

/-! ### The whole `render` call -/

def liftVert (v : Vec4 K × List K) : Vec4 (Poison K) × List (Poison K) := (liftV4 v.1, liftL v.2)

theorem lookupTris_lift (vs : List (ClipVert K)) (tris : List (Nat × Nat × Nat)) :
    lookupTris (vs.map liftCV) tris =
      match lookupTris vs tris with
      | .ok ts => .ok (ts.map liftTri)
      | .panic msg => .panic msg := by
  induction tris with
  | nil => rfl
  | cons hd tl ih =>
    obtain ⟨i, j, l⟩ := hd
    simp only [lookupTris, List.getElem?_map, ih]
    cases vs[i]? <;> cases vs[j]? <;> cases vs[l]? <;> cases lookupTris vs tl <;> rfl

theorem lookupTris_mem (vs : List (ClipVert K)) (tris : List (Nat × Nat × Nat)) (out : List (Tri K))
    (h : lookupTris vs tris = .ok out) : ∀ tri ∈ out, ∀ v ∈ [tri.a, tri.b, tri.c], v ∈ vs := by
  induction tris generalizing out with
  | nil =>
    simp only [lookupTris, Outcome.ok.injEq] at h
    subst h; simp
  | cons hd tl ih =>
    obtain ⟨i, j, l⟩ := hd
    simp only [lookupTris] at h
    cases ha : vs[i]? with
    | none => cases hr : lookupTris vs tl <;> simp [ha, hr] at h
    | some a =>
      cases hb : vs[j]? with
      | none => cases hr : lookupTris vs tl <;> simp [ha, hb, hr] at h
      | some b =>
        cases hc : vs[l]? with
        | none => cases hr : lookupTris vs tl <;> simp [ha, hb, hc, hr] at h
        | some c =>
          cases hr : lookupTris vs tl with
          | panic msg => simp [ha, hb, hc, hr] at h
          | ok ts =>
            simp only [ha, hb, hc, hr, Outcome.ok.injEq] at h
            subst h
            intro tri htri v hv
            rcases List.mem_cons.mp htri with rfl | htri
            · simp only [List.mem_cons, List.mem_nil_iff, or_false] at hv
              rcases hv with rfl | rfl | rfl
              · exact List.mem_of_getElem? ha
              · exact List.mem_of_getElem? hb
              · exact List.mem_of_getElem? hc
            · exact ih ts hr tri htri v hv

/-- **`render` is poison-free.** Scene: ANY index triples (valid or not) over ANY vertex list whose
clip-space positions satisfy a clipping invariant `Q` (`perspInv`: the image of the library's perspective
matrix, far > near > 0; `affineInv`: w = 1) with attribute tuples of one length; any Context, any
fragment shader `shadeP` (it is handed poison-scalars and sees only lifts); the library's viewport matrix;
any target. Then the run of the pipeline model under the poison interpretation on the lifted scene IS
the lift of the exact run: the same panic, or the same colour buffer, the same statistics and a depth
buffer whose every entry is the (finite) value the exact run wrote. -/
theorem render_poison_free (Q : Vec4 K → Prop) (hQ : ClipInv Q) (ctx : Ctx)
    (shadeP : List (Poison K) → Option C) (L R T B k : Nat)
    (tris : List (Nat × Nat × Nat)) (verts : List (Vec4 K × List K))
    (hverts : ∀ v ∈ verts, Q v.1 ∧ v.2.length = k) (t : Target K C) :
    render ctx shadeP (liftMat (viewportMat L R T B)) tris (verts.map liftVert) (liftTarget t) =
      liftOut (render ctx (fun g => shadeP (liftL g)) (viewportMat L R T B) tris verts t) := by
  unfold render
  simp only [List.length_map]
  have hcv : (verts.map liftVert).map (fun (p, a) => mkVert p a) =
      (verts.map (fun (p, a) => mkVert p a)).map liftCV := by
    rw [List.map_map, List.map_map]
    apply List.map_congr_left
    intro v _
    exact mkVert_lift v.1 v.2
  rw [hcv, lookupTris_lift]
  cases hlk : lookupTris (verts.map fun (p, a) => mkVert p a) tris with
  | panic msg => rfl
  | ok ts =>
    simp only
    have hmem := lookupTris_mem _ _ _ hlk
    have hts : ∀ tri ∈ ts, ∀ v ∈ [tri.a, tri.b, tri.c], WF v ∧ Q v.pos ∧ v.attr.length = k := by
      intro tri htri v hv
      obtain ⟨pa, hpa, rfl⟩ := List.mem_map.mp (hmem tri htri v hv)
      obtain ⟨q1, q2⟩ := hverts pa hpa
      exact ⟨mkVert_wf _ _, q1, q2⟩
    have hfin := clipped_triFinite Q hQ L R T B k ts hts
    rw [clipTris_poison_free]
    cases hd : ctx.depthSort with
    | none => exact drawTris_poison_free ctx shadeP _ _ hfin t _
    | some d =>
      simp only
      rw [depthSorted_poison_free]
      exact drawTris_poison_free ctx shadeP _ _
        (fun tri htri => hfin tri ((Retro.Props.C06.depthSorted_perm d _).subset htri)) t _

/-- No entry of the target's depth buffer (if it has one) is `bad`. -/
def NoBadDepth (t : Target (Poison K) C) : Prop :=
  ∀ d, t.depth = some d → ∀ row ∈ d, ∀ z ∈ row, z ≠ bad

theorem liftTarget_noBad (t : Target K C) : NoBadDepth (liftTarget t) := by
  intro d hd row hrow z hz
  cases h : t.depth with
  | none => simp [liftTarget, h] at hd
  | some d0 =>
    simp only [liftTarget, h, Option.map_some, Option.some.injEq] at hd
    subst hd
    obtain ⟨r0, -, rfl⟩ := List.mem_map.mp hrow
    exact liftL_not_bad r0 z hz

theorem unlift_row (row : List (Poison K)) (h : ∀ z ∈ row, z ≠ bad) : ∃ r : List K, row = liftL r := by
  induction row with
  | nil => exact ⟨[], rfl⟩
  | cons z zs ih =>
    obtain ⟨r, hr⟩ := ih (fun z hz => h z (List.mem_cons_of_mem _ hz))
    cases z with
    | bad => exact absurd rfl (h bad (by simp))
    | val a => exact ⟨a :: r, by rw [hr]; rfl⟩

/-- A poison-scalar target without `bad` depth entries is the lift of a target over the field. -/
theorem unlift_target (tP : Target (Poison K) C) (h : NoBadDepth tP) : ∃ t : Target K C, tP = liftTarget t := by
  obtain ⟨color, depth⟩ := tP
  cases depth with
  | none => exact ⟨⟨color, none⟩, rfl⟩
  | some d =>
    have key : ∀ rows : List (List (Poison K)), (∀ row ∈ rows, ∀ z ∈ row, z ≠ bad) →
        ∃ rs : List (List K), rows = rs.map liftL := by
      intro rows
      induction rows with
      | nil => intro _; exact ⟨[], rfl⟩
      | cons r rs ih =>
        intro hr
        obtain ⟨r', hr'⟩ := unlift_row r (hr r (by simp))
        obtain ⟨rs', hrs'⟩ := ih (fun row hrow => hr row (List.mem_cons_of_mem _ hrow))
        exact ⟨r' :: rs', by rw [hr', hrs']; rfl⟩
    obtain ⟨rs, hrs⟩ := key d (h d rfl)
    exact ⟨⟨color, some rs⟩, by rw [hrs]; rfl⟩

/-- **`render` leaves the depth buffer free of NaN / ∞.** Same scene class as `render_poison_free`; the
target is ANY poison-scalar target whose depth buffer holds no `bad` entry before the call. Whatever
`render` returns under the poison interpretation — for every Context, depth test `None` included, so
that every fragment's depth is written — the returned depth buffer holds no `bad` entry. -/
theorem render_depth_poison_free (Q : Vec4 K → Prop) (hQ : ClipInv Q) (ctx : Ctx)
    (shadeP : List (Poison K) → Option C) (L R T B k : Nat)
    (tris : List (Nat × Nat × Nat)) (verts : List (Vec4 K × List K))
    (hverts : ∀ v ∈ verts, Q v.1 ∧ v.2.length = k) (tP : Target (Poison K) C) (hclean : NoBadDepth tP)
    (tP' : Target (Poison K) C) (st : Stats)
    (hrun : render ctx shadeP (liftMat (viewportMat L R T B)) tris (verts.map liftVert) tP = .ok (tP', st)) :
    NoBadDepth tP' := by
  obtain ⟨t, rfl⟩ := unlift_target tP hclean
  rw [render_poison_free Q hQ ctx shadeP L R T B k tris verts hverts t] at hrun
  cases hr : render ctx (fun g => shadeP (liftL g)) (viewportMat L R T B) tris verts t with
  | panic msg => rw [hr] at hrun; simp [liftOut] at hrun
  | ok r =>
    obtain ⟨t', st'⟩ := r
    rw [hr] at hrun
    simp only [liftOut, Outcome.ok.injEq, Prod.mk.injEq] at hrun
    rw [← hrun.1]
    exact liftTarget_noBad t'

/-- … and with the remaining hypotheses of `render_ok_of` (valid indices, viewport rectangle inside a
well-formed `W`×`H` target) the call DOES return under the poison interpretation: no panic, and the
result is the lift of the exact result. -/
theorem render_poison_ok (Q : Vec4 K → Prop) (hQ : ClipInv Q) (ctx : Ctx)
    (shadeP : List (Poison K) → Option C) (L R T B W H k : Nat)
    (hLR : L ≤ R) (hTB : T ≤ B) (hRW : R ≤ W) (hBH : B ≤ H)
    (tris : List (Nat × Nat × Nat)) (verts : List (Vec4 K × List K))
    (hidx : ∀ t ∈ tris, t.1 < verts.length ∧ t.2.1 < verts.length ∧ t.2.2 < verts.length)
    (hverts : ∀ v ∈ verts, Q v.1 ∧ v.2.length = k) (t : Target K C) (hwf : WFT t W H) :
    ∃ t' st, render ctx shadeP (liftMat (viewportMat L R T B)) tris (verts.map liftVert) (liftTarget t) =
        .ok (liftTarget t', st) ∧
      render ctx (fun g => shadeP (liftL g)) (viewportMat L R T B) tris verts t = .ok (t', st) ∧
      WFT t' W H ∧ NoBadDepth (liftTarget t') := by
  obtain ⟨t', st, hr, hwf'⟩ := render_ok_of Q hQ ctx (fun g => shadeP (liftL g)) L R T B W H k hLR hTB hRW hBH
    tris verts hidx hverts t hwf
  refine ⟨t', st, ?_, hr, hwf', liftTarget_noBad t'⟩
  rw [render_poison_free Q hQ ctx shadeP L R T B k tris verts hverts t, hr]
  rfl

/-- The perspective-image instance (`perspective(_, _, near..far)`, far > near > 0), as in `render_ok`. -/
theorem render_depth_poison_free_persp (ctx : Ctx) (shadeP : List (Poison K) → Option C) (L R T B k : Nat)
    (e22 e23 : K) (h22 : 0 < e22 + 1) (h23 : e23 < 0)
    (tris : List (Nat × Nat × Nat)) (verts : List (Vec4 K × List K))
    (hverts : ∀ v ∈ verts, v.1.z = e22 * v.1.w + e23 ∧ v.2.length = k)
    (tP : Target (Poison K) C) (hclean : NoBadDepth tP) (tP' : Target (Poison K) C) (st : Stats)
    (hrun : render ctx shadeP (liftMat (viewportMat L R T B)) tris (verts.map liftVert) tP = .ok (tP', st)) :
    NoBadDepth tP' :=
  render_depth_poison_free _ (perspInv e22 e23 h22 h23) ctx shadeP L R T B k tris verts hverts tP hclean tP' st hrun

/-! ### Non-vacuity -/

/-- A scene on the image of `perspective(_, _, 1..3)` (`z = 2·w − 3`), one triangle that the clipper cuts
(its third vertex lies on the top plane), attribute tuples of length 1. -/
def exVerts : List (Vec4 Rat × List Rat) :=
  [(⟨-1, -1, 1, 2⟩, [1]), (⟨2, -1, 1, 2⟩, [2]), (⟨0, 3, 3, 3⟩, [3])]

/-- It meets the hypotheses of `render_depth_poison_free_persp` with `e22 = 2`, `e23 = −3`. -/
example : (∀ v ∈ exVerts, v.1.z = 2 * v.1.w + (-3) ∧ v.2.length = 1) ∧ (0 : Rat) < 2 + 1 ∧ (-3 : Rat) < 0 := by
  refine ⟨?_, by norm_num, by norm_num⟩
  intro v hv
  simp only [exVerts, List.mem_cons, List.mem_nil_iff, or_false] at hv
  rcases hv with rfl | rfl | rfl <;> norm_num

/-- The pipeline model run at `Poison ℚ` on that scene (depth test `None`: every fragment's depth is
written; 4×4 target, zero-filled depth buffer): four depth entries are written, none is `bad`. -/
example :
    (match render (C := Nat) { depthTest := none, faceCull := none } (fun _ => some 7)
        (liftMat (viewportMat 0 4 0 4)) [(0, 1, 2)] (exVerts.map liftVert)
        (liftTarget ⟨List.replicate 4 (List.replicate 4 0), some (List.replicate 4 (List.replicate 4 0))⟩) with
      | .ok (t, st) => (t.depth.map (·.map (·.map Poison.toOption)), st.fragsO)
      | .panic _ => (none, 0)) =
    (some [[some 0, some 0, some 0, some 0], [some 0, some (17/36), some (17/36), some (17/36)],
           [some 0, some 0, some (5/12), some 0], [some 0, some 0, some 0, some 0]], 4) := by
  decide +kernel

/-- `toScreen_poison_free` needs `w ≠ 0`: met by `w = 2`, and with `w = 0` the vertex IS poisoned. -/
example : toScreen (liftMat (viewportMat (K := Rat) 0 4 0 4)) (liftCV ⟨⟨1, -1, 1, 2⟩, [2], 0⟩) =
      liftL [3, 1, 1 / 2, 1] ∧
    toScreen (liftMat (viewportMat (K := Rat) 0 4 0 4)) (liftCV ⟨⟨0, 0, 0, 0⟩, [2], 0⟩) = [bad, bad, bad, bad] := by
  decide +kernel

/-- The clipper's division on a crossing edge (`d0·d1 < 0`): near plane, `w + z` changes sign. -/
example : (clipTris [liftTri (K := Rat) ⟨mkVert ⟨0, 0, -2, 1⟩ [1], mkVert ⟨0, 0, 0, 1⟩ [2], mkVert ⟨1, 0, 0, 1⟩ [3]⟩]).map
      (fun t => t.a.pos.z) = [val (-1), val (-1)] := by
  decide +kernel

end Retro.Props.C02
