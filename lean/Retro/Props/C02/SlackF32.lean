/-
C02 — in f32 the screen position of a clip survivor stays inside the viewport rectangle EXACTLY, hence the
rows an f32 scan visits are rows of the viewport (theorems at the IEEE binary32 bit level).

The exact-arithmetic theorem `render_ok_of` rests on `scan_rows_in_rect`, which tolerates any perturbation of
the screen coordinates by less than half a pixel; what was left open was that the f32 perturbation IS that
small.  For the VERTICES it is zero in the only sense that matters: every f32 operation between the clip
coordinates and the screen coordinates is a round-to-nearest of an exact value that lies between two binary32
values (−1 and 1; −half_d and half_d; the viewport bounds), and round-to-nearest never crosses a binary32 value
(`F32.ofRat_between`).  No epsilon appears anywhere below.

The scalar `B32` is a binary32 BIT PATTERN with `+ * /` = `F32.add / mul / div` (one round-to-nearest-even of the
exact result, with the IEEE NaN / ∞ / signed-zero rules); the theorems are about the generic model functions
`Render.toScreen`, `Render.applyMat`, `Clip.planeOutcode`, `Clip.outcodeOf`, `Clip.planes` — the very
definitions the correspondence check runs — instantiated at `B32`, and about `C04.rowsF`.

  * `ndc_f32_bound`         `-w ≤ c ≤ w`, `0 < w` as f32 comparisons of finite values ⇒ the f32 quotient `c / w` is
                            finite with value in `[−1, 1]`  (monotonicity only: ±1 are binary32 values)
  * `viewportF_entries`     the library's viewport matrix in f32 (`viewportMatF`: `c as f32`, `(e − s) * 2.0.recip()`,
                            `s + half_d`) has EXACT entries `(R−L)/2`, `(L+R)/2`, `(B−T)/2`, `(T+B)/2` for
                            `R, B ≤ 2^23 − 1`
  * `viewport_y_f32_bound`  for finite NDC `(nx, ny, nz)` with `|ny| ≤ 1` the f32 evaluation of row 1 of
                            `to_screen.apply`, `(((0 + 0·nx) + dy·ny) + 0·nz) + cy·1`, is finite with value in
                            `[T, B]` — exactly, not up to a slack
  * `viewport_x_f32_bound`  the same for row 0 and `[L, R]`
  * `toScreen_f32_in_rect`  `Render.toScreen` at `B32` through `viewportMatF` on a vertex with finite `x, y, w`,
                            `|x|, |y| ≤ w` and `w` normal: the screen position is finite, `L ≤ sx ≤ R`, `T ≤ sy ≤ B`
  * `outcode_zero_inside`   the hypothesis, from the code: a vertex with finite components and `0 ≤ w` whose outcode
                            (`Clip.outcodeOf Clip.planes` at `B32`: `signed_dist(pt) > 0.0` per plane, each a
                            rounded dot product) is 0 satisfies `−w ≤ x, y, z ≤ w` EXACTLY
  * `survivor_screen_f32`   the two composed: outcode 0, `w` normal ⇒ screen position in the rectangle
  * `inside_bottom_top_iff`, `toScreen_y_f32`, `tested_screen_y_f32`
                            the same for the HEIGHT alone under the weaker, literal hypothesis "`is_inside` holds for
                            the bottom and the top plane" (bits 16 and 32 of the stored outcode clear, whatever the
                            other four are): this covers every vertex that leaves `clip_simple_polygon` except those
                            CREATED at the bottom or top plane, because a created vertex is re-tested against all
                            LATER planes and bottom, top are the last two
  * `rows_in_viewport_f32`  every row visited by the f32 scan (`C04.rowsF`, either build) between two such screen
                            heights satisfies `T ≤ r < B`
  * `trifill_rows_in_viewport_f32`  both half-triangle scans of `tri_fill` on three such vertices, whatever order the
                            sort puts them in
  * `row_index_in_bounds_f32` hence `color_buf[r]` and `depth_buf[r]` exist for a target of height `≥ B`: the
                            `row index out of bounds` outcome of `Render.rasterize` is not reachable from a row of
                            such a scan
  * sharpness               `w_subnormal_screen_nan` (a survivor with `w = 2^-149`: `1/w = ∞`, `0·∞ = NaN`, the screen
                            position is NaN — "w normal" cannot be dropped), `two_ulps_outside_leaves_rect` (a vertex
                            with `y` two ulps above `w`, which the outcode test rejects, lands ABOVE `B`)

Bound: `R, B ≤ 2^23 − 1 = 8 388 607` (so that `(L+R)/2`, `(T+B)/2` have 24 significant bits and `mem_rowsF_iff`
applies).

NOT proved here (stays with the correspondence check and the exact-arithmetic half-pixel slack):
  * the vertices the clipper CREATES (`crossing`: `v0 + (v1 − v0)·t`, rounded) are pushed without being tested
    against the plane that created them (clip.rs:170) or any EARLIER plane; only later planes test them.  So for
    rows, the vertices created at the bottom or top plane (and for columns, those created at the left, right,
    bottom or top plane) satisfy `|y| ≤ w` (resp. `|x| ≤ w`) only up to a few ulps, and their f32 screen position
    is within a few ulps of the rectangle, not inside it (`one_ulp_outside_leaves_rect`) — that is the half-pixel
    slack's job and needs an error analysis of `crossing` that is not done here
  * that a created vertex has finite components, `w` normal and `|x| ≤ 2^100·w` is a hypothesis, not a conclusion
  * the x ends of the spans BETWEEN vertices (edge stepping `left += dl`, rounded in f32) and the fragment values
-/
import Retro.Props.C04.RowsF32
import Retro.Lemmas.F32Mono
import Retro.Model.Render

namespace Retro.Props.C02
open Retro Retro.F32 Retro.Clip Retro.Render

/-! ### Binary32 bit patterns as a scalar of the generic model -/

/-- A binary32 bit pattern, with the arithmetic of the Rust `f32` (`Model/F32Ops.lean`, `F32.div`). -/
structure B32 where
  bits : UInt32

instance : Add B32 := ⟨fun a b => ⟨F32.add a.bits b.bits⟩⟩
instance : Sub B32 := ⟨fun a b => ⟨F32.sub a.bits b.bits⟩⟩
instance : Mul B32 := ⟨fun a b => ⟨F32.mul a.bits b.bits⟩⟩
instance : Div B32 := ⟨fun a b => ⟨F32.div a.bits b.bits⟩⟩
instance : Neg B32 := ⟨fun a => ⟨F32.neg a.bits⟩⟩
instance : LT B32 := ⟨fun a b => F32.lt a.bits b.bits = true⟩
instance : DecidableLT B32 := fun a b => inferInstanceAs (Decidable (F32.lt a.bits b.bits = true))
instance : OfNat B32 0 := ⟨⟨0⟩⟩
instance : OfNat B32 1 := ⟨⟨F32.one⟩⟩

/-- the exact value of a finite pattern -/
def B32.val? (a : B32) : Option ℚ := toRat? a.bits

/-- `2.0f32` -/
def two : UInt32 := 0x40000000

/-- `2.0f32.recip()` is `0.5` -/
theorem recip_two : F32.div F32.one two = F32.half := by decide +kernel

/-- mat.rs:652-665 `viewport(pt2(L, T)..pt2(R, B))` in f32: `s = c as f32`, `half_d = (e − s) / 2.0` where
`Vector / f32` is `* rhs.recip()` (vec.rs:570-578), centre `s + half_d` (the literal form of
`F32R.viewportMatF`, on bit patterns). -/
def viewportMatF (L R T B : Nat) : Mat4 B32 :=
  let sx : B32 := ⟨natF L⟩
  let sy : B32 := ⟨natF T⟩
  let ex : B32 := ⟨natF R⟩
  let ey : B32 := ⟨natF B⟩
  let rec2 : B32 := (1 : B32) / ⟨two⟩
  let dx := (ex - sx) * rec2
  let dy := (ey - sy) * rec2
  ⟨⟨dx, 0, 0, sx + dx⟩, ⟨0, dy, 0, sy + dy⟩, ⟨0, 0, 1, 0⟩, ⟨0, 0, 0, 1⟩⟩

/-! ### 1. NDC: the rounded quotient of something in `[−1, 1]` is in `[−1, 1]` -/

theorem rep_one : Rep (1 : ℚ) := by simpa using rep_nat (n := 1) (by norm_num)

/-- value form: `−w ≤ c ≤ w`, `0 < w` ⇒ `c / w` rounds into `[−1, 1]` -/
theorem ndc_f32_bound_val {c w : UInt32} {qc qw : ℚ} (hc : toRat? c = some qc) (hw : toRat? w = some qw)
    (hpos : 0 < qw) (h1 : -qw ≤ qc) (h2 : qc ≤ qw) :
    ∃ q : ℚ, toRat? (F32.div c w) = some q ∧ -1 ≤ q ∧ q ≤ 1 :=
  div_between hc hw hpos.ne' rep_one.neg rep_one
    (by rw [le_div_iff₀ hpos]; linarith) (by rw [div_le_one hpos]; exact h2)

/-- **ndc_f32_bound.**  For finite `c`, `w`: if the f32 comparisons `-w <= c`, `c <= w`, `0.0 < w` hold then the
f32 quotient `c / w` is finite and its value lies in `[−1, 1]`.  (An f32 comparison of finite values is the exact
comparison of their rationals; rounding to nearest is monotone and ±1 are binary32 values.) -/
theorem ndc_f32_bound {c w : UInt32} {qc qw : ℚ} (hc : toRat? c = some qc) (hw : toRat? w = some qw)
    (hpos : F32.lt 0 w = true) (h1 : F32.le (F32.neg w) c = true) (h2 : F32.le c w = true) :
    ∃ q : ℚ, toRat? (F32.div c w) = some q ∧ -1 ≤ q ∧ q ≤ 1 := by
  rw [lt_finite toRat?_zero hw, decide_eq_true_eq] at hpos
  rw [le_finite (toRat?_neg hw) hc, decide_eq_true_eq] at h1
  rw [le_finite hc hw, decide_eq_true_eq] at h2
  exact ndc_f32_bound_val hc hw hpos h1 h2

-- satisfiable: c = −1.5 (0xBFC00000), w = 1.5 (0x3FC00000): the quotient is −1.0
example : toRat? (0xBFC00000 : UInt32) = some (-3 / 2) ∧ toRat? (0x3FC00000 : UInt32) = some (3 / 2) ∧
    F32.lt 0 0x3FC00000 = true ∧ F32.le (F32.neg 0x3FC00000) 0xBFC00000 = true ∧
    F32.le 0xBFC00000 0x3FC00000 = true ∧ F32.div 0xBFC00000 0x3FC00000 = 0xBF800000 := by
  decide +kernel

/-- `1 / w` is finite for a NORMAL positive `w` (it is at most `2^126`). -/
theorem recip_w_finite {w : UInt32} {qw : ℚ} (hw : toRat? w = some qw) (hn : (2:ℚ) ^ (-126 : ℤ) ≤ qw) :
    ∃ q : ℚ, toRat? (F32.div F32.one w) = some q ∧ 0 ≤ q := by
  have hpos : 0 < qw := lt_of_lt_of_le (by positivity) hn
  have r126 : Rep ((2:ℚ) ^ 126) :=
    ⟨2 ^ 22, 104, by norm_num, by norm_num, by norm_num, by rw [abs_of_pos (by positivity)]; norm_num⟩
  obtain ⟨q, hq, h0, -⟩ := div_between toRat?_one hw hpos.ne' rep_zero r126
    (by positivity) (by
      rw [div_le_iff₀ hpos]
      calc (1:ℚ) = (2:ℚ) ^ 126 * (2:ℚ) ^ (-126 : ℤ) := by norm_num
        _ ≤ (2:ℚ) ^ 126 * qw := mul_le_mul_of_nonneg_left hn (by positivity))
  exact ⟨q, hq, h0⟩

/-! ### 2. The viewport matrix has exact entries -/

/-- one axis of `viewport`: `half_d = (e − s) * 0.5` and `s + half_d` are exact for `s ≤ e ≤ 2^23 − 1` -/
theorem axis_entries {s e : ℕ} (hse : s ≤ e) (he : e ≤ 2 ^ 23 - 1) :
    toRat? (F32.mul (F32.sub (natF e) (natF s)) (F32.div F32.one two)) = some (((e : ℚ) - s) / 2) ∧
    toRat? (F32.add (natF s) (F32.mul (F32.sub (natF e) (natF s)) (F32.div F32.one two)))
      = some (((s : ℚ) + e) / 2) := by
  have hs24 : s ≤ 2 ^ 24 := by omega
  have he24 : e ≤ 2 ^ 24 := by omega
  have hd : toRat? (F32.sub (natF e) (natF s)) = some (((e - s : ℕ) : ℚ)) := by
    have := sub_finite_exact (toRat?_natF he24) (toRat?_natF hs24)
      (by rw [← Nat.cast_sub hse]; exact rep_nat (by omega))
    rwa [← Nat.cast_sub hse] at this
  have hh : toRat? (F32.mul (F32.sub (natF e) (natF s)) (F32.div F32.one two))
      = some (((e - s : ℕ) : ℚ) / 2) := by
    rw [recip_two]
    have := mul_rep_exact hd toRat?_half
      (by rw [show ((e - s : ℕ) : ℚ) * (1 / 2) = ((e - s : ℕ) : ℚ) / 2 by ring]; exact rep_half_nat (by omega))
    rw [this]; congr 1; ring
  refine ⟨by rw [hh, Nat.cast_sub hse], ?_⟩
  have e1 : (s : ℚ) + ((e - s : ℕ) : ℚ) / 2 = ((s + e : ℕ) : ℚ) / 2 := by
    rw [Nat.cast_sub hse]; push_cast; ring
  have := add_finite_exact (toRat?_natF hs24) hh (by rw [e1]; exact rep_half_nat (by omega))
  rw [this, e1]; push_cast; rfl

/-- **viewportF_entries.**  The f32 viewport matrix of the library for `L ≤ R ≤ 2^23 − 1`, `T ≤ B ≤ 2^23 − 1` has
exactly the entries of the exact one (`NoPanic.viewportMat`): nothing rounds. -/
theorem viewportF_entries {L R T B : ℕ} (hLR : L ≤ R) (hR : R ≤ 2 ^ 23 - 1) (hTB : T ≤ B) (hB : B ≤ 2 ^ 23 - 1) :
    (viewportMatF L R T B).r0.x.val? = some (((R : ℚ) - L) / 2) ∧
    (viewportMatF L R T B).r0.w.val? = some (((L : ℚ) + R) / 2) ∧
    (viewportMatF L R T B).r1.y.val? = some (((B : ℚ) - T) / 2) ∧
    (viewportMatF L R T B).r1.w.val? = some (((T : ℚ) + B) / 2) :=
  ⟨(axis_entries hLR hR).1, (axis_entries hLR hR).2, (axis_entries hTB hB).1, (axis_entries hTB hB).2⟩

/-! ### 3. One row of `to_screen.apply`: every rounding is anchored by binary32 values -/

/-- the last step shared by both rows: `p + c·1` for `p ∈ [−d, d]`, `c − d = lo`, `c + d = hi` binary32 values -/
theorem axis_tail {p c : UInt32} {qp qc qd lo hi : ℚ} (hp : toRat? p = some qp) (hc : toRat? c = some qc)
    (h1 : -qd ≤ qp) (h2 : qp ≤ qd) (hlo : Rep lo) (hhi : Rep hi) (elo : lo = qc - qd) (ehi : hi = qc + qd) :
    ∃ v : ℚ, toRat? (F32.add p (F32.mul c F32.one)) = some v ∧ lo ≤ v ∧ v ≤ hi :=
  add_between hp (mul_one_right hc) hlo hhi (by linarith) (by linarith)

/-- the product `d·n` for `|n| ≤ 1`, `0 ≤ d`: rounds into `[−d, d]` (the endpoints are `±` the binary32 `d`) -/
theorem scaled_ndc {d n : UInt32} {qd qn : ℚ} (hd : toRat? d = some qd) (hn : toRat? n = some qn)
    (hd0 : 0 ≤ qd) (h1 : -1 ≤ qn) (h2 : qn ≤ 1) :
    ∃ v : ℚ, toRat? (F32.mul d n) = some v ∧ -qd ≤ v ∧ v ≤ qd :=
  mul_between hd hn (rep_of_toRat? hd).neg (rep_of_toRat? hd) (by nlinarith) (by nlinarith)

/-- row `[0, d, 0, c]` of a matrix applied to `(nx, ny, nz, 1)`, the dot product folded left from zero -/
theorem row_y_between {d c nx ny nz : UInt32} {qd qc qx qy qz lo hi : ℚ}
    (hd : toRat? d = some qd) (hc : toRat? c = some qc)
    (hx : toRat? nx = some qx) (hy : toRat? ny = some qy) (hz : toRat? nz = some qz)
    (hd0 : 0 ≤ qd) (h1 : -1 ≤ qy) (h2 : qy ≤ 1)
    (hlo : Rep lo) (hhi : Rep hi) (elo : lo = qc - qd) (ehi : hi = qc + qd) :
    ∃ v : ℚ, toRat? (F32.add (F32.add (F32.add (F32.add 0 (F32.mul 0 nx)) (F32.mul d ny)) (F32.mul 0 nz))
      (F32.mul c F32.one)) = some v ∧ lo ≤ v ∧ v ≤ hi := by
  obtain ⟨vp, hvp, p1, p2⟩ := scaled_ndc hd hy hd0 h1 h2
  have s1 := add_zero_left toRat?_zero (mul_zero_left toRat?_zero hx)
  have s2 := add_zero_left s1 hvp
  have s3 := add_zero_right s2 (mul_zero_left toRat?_zero hz)
  exact axis_tail s3 hc p1 p2 hlo hhi elo ehi

/-- row `[d, 0, 0, c]` -/
theorem row_x_between {d c nx ny nz : UInt32} {qd qc qx qy qz lo hi : ℚ}
    (hd : toRat? d = some qd) (hc : toRat? c = some qc)
    (hx : toRat? nx = some qx) (hy : toRat? ny = some qy) (hz : toRat? nz = some qz)
    (hd0 : 0 ≤ qd) (h1 : -1 ≤ qx) (h2 : qx ≤ 1)
    (hlo : Rep lo) (hhi : Rep hi) (elo : lo = qc - qd) (ehi : hi = qc + qd) :
    ∃ v : ℚ, toRat? (F32.add (F32.add (F32.add (F32.add 0 (F32.mul d nx)) (F32.mul 0 ny)) (F32.mul 0 nz))
      (F32.mul c F32.one)) = some v ∧ lo ≤ v ∧ v ≤ hi := by
  obtain ⟨vp, hvp, p1, p2⟩ := scaled_ndc hd hx hd0 h1 h2
  have s1 := add_zero_left toRat?_zero hvp
  have s2 := add_zero_right s1 (mul_zero_left toRat?_zero hy)
  have s3 := add_zero_right s2 (mul_zero_left toRat?_zero hz)
  exact axis_tail s3 hc p1 p2 hlo hhi elo ehi

/-- **viewport_y_f32_bound.**  For finite NDC `(nx, ny, nz)` with `|ny| ≤ 1`, the f32 evaluation of the y row of
`to_screen.apply` — `(((0 + 0·nx) + dy·ny) + 0·nz) + cy·1`, the generic `applyMat` at `B32` on the f32 viewport
matrix — is finite and its value lies in `[T, B]` EXACTLY, for `T ≤ B ≤ 2^23 − 1`. -/
theorem viewport_y_f32_bound {L R T B : ℕ} (hTB : T ≤ B) (hB : B ≤ 2 ^ 23 - 1) {nx ny nz : B32} {qx qy qz : ℚ}
    (hx : nx.val? = some qx) (hy : ny.val? = some qy) (hz : nz.val? = some qz) (h1 : -1 ≤ qy) (h2 : qy ≤ 1) :
    ∃ v : ℚ, (applyMat (viewportMatF L R T B) nx ny nz).2.1.val? = some v ∧ (T : ℚ) ≤ v ∧ v ≤ B := by
  obtain ⟨e1, e2⟩ := axis_entries hTB hB
  exact row_y_between e1 e2 hx hy hz (by have : (T : ℚ) ≤ B := by exact_mod_cast hTB
                                         linarith) h1 h2
    (rep_nat (by omega)) (rep_nat (by omega)) (by ring) (by ring)

/-- **viewport_x_f32_bound.**  The same for the x row `(((0 + dx·nx) + 0·ny) + 0·nz) + cx·1` and `[L, R]`. -/
theorem viewport_x_f32_bound {L R T B : ℕ} (hLR : L ≤ R) (hR : R ≤ 2 ^ 23 - 1) {nx ny nz : B32} {qx qy qz : ℚ}
    (hx : nx.val? = some qx) (hy : ny.val? = some qy) (hz : nz.val? = some qz) (h1 : -1 ≤ qx) (h2 : qx ≤ 1) :
    ∃ v : ℚ, (applyMat (viewportMatF L R T B) nx ny nz).1.val? = some v ∧ (L : ℚ) ≤ v ∧ v ≤ R := by
  obtain ⟨e1, e2⟩ := axis_entries hLR hR
  exact row_x_between e1 e2 hx hy hz (by have : (L : ℚ) ≤ R := by exact_mod_cast hLR
                                         linarith) h1 h2
    (rep_nat (by omega)) (rep_nat (by omega)) (by ring) (by ring)

/-! ### `Render.toScreen` at `B32` -/

/-- **toScreen_f32_in_rect.**  The generic `Render.toScreen` (render.rs:140-157: `x / w`, `y / w`, `1 / w`, then
`to_screen.apply`) run on binary32 bit patterns through the f32 viewport matrix of `(L,T)..(R,B)`,
`R, B ≤ 2^23 − 1`, on a vertex with finite `x, y, w`, `−w ≤ x, y ≤ w` and `w` positive NORMAL
(`2^-126 ≤ w`): the screen position is finite and lies in the closed rectangle, `L ≤ sx ≤ R`, `T ≤ sy ≤ B`,
EXACTLY (three roundings per coordinate, none of which can cross a binary32 anchor). -/
theorem toScreen_f32_in_rect {L R T B : ℕ} (hLR : L ≤ R) (hR : R ≤ 2 ^ 23 - 1) (hTB : T ≤ B) (hB : B ≤ 2 ^ 23 - 1)
    (v : ClipVert B32) {qx qy qw : ℚ}
    (hx : v.pos.x.val? = some qx) (hy : v.pos.y.val? = some qy) (hw : v.pos.w.val? = some qw)
    (hn : (2:ℚ) ^ (-126 : ℤ) ≤ qw) (hx1 : -qw ≤ qx) (hx2 : qx ≤ qw) (hy1 : -qw ≤ qy) (hy2 : qy ≤ qw) :
    ∃ (sx sy sz : B32) (attrs : List B32) (vx vy : ℚ),
      toScreen (viewportMatF L R T B) v = sx :: sy :: sz :: attrs ∧
      sx.val? = some vx ∧ (L : ℚ) ≤ vx ∧ vx ≤ R ∧ sy.val? = some vy ∧ (T : ℚ) ≤ vy ∧ vy ≤ B := by
  have hpos : 0 < qw := lt_of_lt_of_le (by positivity) hn
  obtain ⟨nx, hnx, nx1, nx2⟩ := ndc_f32_bound_val hx hw hpos hx1 hx2
  obtain ⟨ny, hny, ny1, ny2⟩ := ndc_f32_bound_val hy hw hpos hy1 hy2
  obtain ⟨nz, hnz, -⟩ := recip_w_finite hw hn
  obtain ⟨vx, hvx, bx1, bx2⟩ := viewport_x_f32_bound (L := L) (R := R) (T := T) (B := B) hLR hR
    (nx := v.pos.x / v.pos.w) (ny := v.pos.y / v.pos.w) (nz := 1 / v.pos.w) hnx hny hnz nx1 nx2
  obtain ⟨vy, hvy, by1, by2⟩ := viewport_y_f32_bound (L := L) (R := R) (T := T) (B := B) hTB hB
    (nx := v.pos.x / v.pos.w) (ny := v.pos.y / v.pos.w) (nz := 1 / v.pos.w) hnx hny hnz ny1 ny2
  exact ⟨_, _, _, _, vx, vy, rfl, hvx, bx1, bx2, hvy, by1, by2⟩

/-- a quotient with a crude bound `|c| ≤ 2^100·w` is finite (all that the ZERO entries of a matrix row need) -/
theorem ndc_finite {c w : UInt32} {qc qw : ℚ} (hc : toRat? c = some qc) (hw : toRat? w = some qw)
    (hpos : 0 < qw) (hb : |qc| ≤ 2 ^ 100 * qw) : ∃ q : ℚ, toRat? (F32.div c w) = some q := by
  rw [abs_le] at hb
  obtain ⟨q, hq, -, -⟩ := div_between hc hw hpos.ne' (rep_two_pow (k := 100) (by norm_num)).neg
    (rep_two_pow (k := 100) (by norm_num)) (by rw [le_div_iff₀ hpos]; linarith [hb.1])
    (by rw [div_le_iff₀ hpos]; exact hb.2)
  exact ⟨q, hq⟩

/-- **toScreen_y_f32.**  The y half on its own: for the screen HEIGHT only `−w ≤ y ≤ w` is needed exactly; of `x`
only that `x / w` does not overflow (`|x| ≤ 2^100·w`, so that `0.0 · (x/w)` is a zero and not a NaN).  This is
the form that applies to a vertex the clipper created at the near, far, left or right plane: such a vertex is
afterwards tested against the bottom and top planes (`inside_bottom_top_iff`), not against the plane that
created it. -/
theorem toScreen_y_f32 {L R T B : ℕ} (hTB : T ≤ B) (hB : B ≤ 2 ^ 23 - 1)
    (v : ClipVert B32) {qx qy qw : ℚ}
    (hx : v.pos.x.val? = some qx) (hy : v.pos.y.val? = some qy) (hw : v.pos.w.val? = some qw)
    (hn : (2:ℚ) ^ (-126 : ℤ) ≤ qw) (hxb : |qx| ≤ 2 ^ 100 * qw) (hy1 : -qw ≤ qy) (hy2 : qy ≤ qw) :
    ∃ (sx sy sz : B32) (attrs : List B32) (vy : ℚ),
      toScreen (viewportMatF L R T B) v = sx :: sy :: sz :: attrs ∧
      sy.val? = some vy ∧ (T : ℚ) ≤ vy ∧ vy ≤ B := by
  have hpos : 0 < qw := lt_of_lt_of_le (by positivity) hn
  obtain ⟨nx, hnx⟩ := ndc_finite hx hw hpos hxb
  obtain ⟨ny, hny, ny1, ny2⟩ := ndc_f32_bound_val hy hw hpos hy1 hy2
  obtain ⟨nz, hnz, -⟩ := recip_w_finite hw hn
  obtain ⟨vy, hvy, by1, by2⟩ := viewport_y_f32_bound (L := L) (R := R) (T := T) (B := B) hTB hB
    (nx := v.pos.x / v.pos.w) (ny := v.pos.y / v.pos.w) (nz := 1 / v.pos.w) hnx hny hnz ny1 ny2
  exact ⟨_, _, _, _, vy, rfl, hvy, by1, by2⟩

/-- a vertex from four bit patterns (no attributes; the outcode is the code's own) -/
def vtx (x y z w : UInt32) : ClipVert B32 := mkVert ⟨⟨x⟩, ⟨y⟩, ⟨z⟩, ⟨w⟩⟩ []

-- satisfiable, and the bounds are attained: the NDC corner (−w, w) goes to (L, B) exactly.
-- x = −1.5 (0xBFC00000), y = 1.5 (0x3FC00000), w = 1.5; viewport (3,1)..(640,480); 0x40400000 = 3.0, 0x43F00000 = 480.0
example : toRat? (0xBFC00000 : UInt32) = some (-3 / 2) ∧ toRat? (0x3FC00000 : UInt32) = some (3 / 2) ∧
    (2:ℚ) ^ (-126 : ℤ) ≤ 3 / 2 ∧
    ((toScreen (viewportMatF 3 640 1 480) (vtx 0xBFC00000 0x3FC00000 0 0x3FC00000)).map (·.bits)).take 2
      = [0x40400000, 0x43F00000] := by
  refine ⟨by decide +kernel, by decide +kernel, ?_, by decide +kernel⟩
  exact le_trans (zpow_le_one_of_nonpos₀ (by norm_num) (by norm_num)) (by norm_num)

/-! ### The hypothesis, from the code: outcode 0 means inside, exactly -/

theorem val_zero : (0 : B32).val? = some 0 := toRat?_zero
theorem val_one : (1 : B32).val? = some 1 := toRat?_one
theorem val_neg_one : (-1 : B32).val? = some (-1) := toRat?_neg_one

/-- a product with `±1.0` is exact -/
theorem mul_sign {s x : UInt32} {qs qx : ℚ} (hs : toRat? s = some qs) (hx : toRat? x = some qx)
    (h : qs = 1 ∨ qs = -1) : toRat? (F32.mul s x) = some (qs * qx) := by
  apply mul_rep_exact hs hx
  rcases h with h | h <;> rw [h]
  · rw [one_mul]; exact rep_of_toRat? hx
  · rw [neg_one_mul]; exact (rep_of_toRat? hx).neg

/-- `signed_dist(pt) > 0.0` for a plane `[s, 0, 0, -1]`, `s = ±1.0`: the f32 test is the exact test `s·x > w` -/
theorem dist_pos_x {s x y z w : UInt32} {qs qx qy qz qw : ℚ} (hs : toRat? s = some qs) (h : qs = 1 ∨ qs = -1)
    (hx : toRat? x = some qx) (hy : toRat? y = some qy) (hz : toRat? z = some qz) (hw : toRat? w = some qw)
    (hw0 : 0 ≤ qw) :
    F32.lt 0 (F32.add (F32.add (F32.add (F32.add 0 (F32.mul s x)) (F32.mul 0 y)) (F32.mul 0 z))
      (F32.mul (F32.neg F32.one) w)) = true ↔ qw < qs * qx := by
  have s1 := add_zero_left toRat?_zero (mul_sign hs hx h)
  have s2 := add_zero_right s1 (mul_zero_left toRat?_zero hy)
  have s3 := add_zero_right s2 (mul_zero_left toRat?_zero hz)
  have m := mul_sign toRat?_neg_one hw (Or.inr rfl)
  rw [add_pos_iff s3 m (by linarith)]
  constructor <;> intro h <;> linarith

/-- … for a plane `[0, s, 0, -1]` -/
theorem dist_pos_y {s x y z w : UInt32} {qs qx qy qz qw : ℚ} (hs : toRat? s = some qs) (h : qs = 1 ∨ qs = -1)
    (hx : toRat? x = some qx) (hy : toRat? y = some qy) (hz : toRat? z = some qz) (hw : toRat? w = some qw)
    (hw0 : 0 ≤ qw) :
    F32.lt 0 (F32.add (F32.add (F32.add (F32.add 0 (F32.mul 0 x)) (F32.mul s y)) (F32.mul 0 z))
      (F32.mul (F32.neg F32.one) w)) = true ↔ qw < qs * qy := by
  have s1 := add_zero_left toRat?_zero (mul_zero_left toRat?_zero hx)
  have s2 := add_zero_left s1 (mul_sign hs hy h)
  have s3 := add_zero_right s2 (mul_zero_left toRat?_zero hz)
  have m := mul_sign toRat?_neg_one hw (Or.inr rfl)
  rw [add_pos_iff s3 m (by linarith)]
  constructor <;> intro h <;> linarith

/-- … for a plane `[0, 0, s, -1]` -/
theorem dist_pos_z {s x y z w : UInt32} {qs qx qy qz qw : ℚ} (hs : toRat? s = some qs) (h : qs = 1 ∨ qs = -1)
    (hx : toRat? x = some qx) (hy : toRat? y = some qy) (hz : toRat? z = some qz) (hw : toRat? w = some qw)
    (hw0 : 0 ≤ qw) :
    F32.lt 0 (F32.add (F32.add (F32.add (F32.add 0 (F32.mul 0 x)) (F32.mul 0 y)) (F32.mul s z))
      (F32.mul (F32.neg F32.one) w)) = true ↔ qw < qs * qz := by
  have s1 := add_zero_left toRat?_zero (mul_zero_left toRat?_zero hx)
  have s2 := add_zero_right s1 (mul_zero_left toRat?_zero hy)
  have s3 := add_zero_left s2 (mul_sign hs hz h)
  have m := mul_sign toRat?_neg_one hw (Or.inr rfl)
  rw [add_pos_iff s3 m (by linarith)]
  constructor <;> intro h <;> linarith

/-- a plane's contribution to the outcode is 0 exactly when `signed_dist(pt) > 0.0` is false -/
theorem planeOutcode_zero_iff (pl : Plane B32) (p : Vec4 B32) (hb : pl.bit ≠ 0) :
    planeOutcode pl p = 0 ↔ ¬ (0 < signedDist pl p) := by
  unfold planeOutcode
  by_cases hlt : 0 < signedDist pl p
  · rw [if_pos hlt]; exact ⟨fun h => absurd h hb, fun h => absurd hlt h⟩
  · rw [if_neg hlt]; exact ⟨fun _ => hlt, fun _ => rfl⟩

theorem planeOutcode_cases (pl : Plane B32) (p : Vec4 B32) :
    planeOutcode pl p = 0 ∨ planeOutcode pl p = pl.bit := by
  unfold planeOutcode
  split
  · exact Or.inr rfl
  · exact Or.inl rfl

/-- the outcode is the sum of the six planes' bits -/
theorem outcode_sum (p : Vec4 B32) :
    outcodeOf planes p = planeOutcode ⟨⟨0, 0, -1, -1⟩, 1⟩ p + planeOutcode ⟨⟨0, 0, 1, -1⟩, 2⟩ p
      + planeOutcode ⟨⟨-1, 0, 0, -1⟩, 4⟩ p + planeOutcode ⟨⟨1, 0, 0, -1⟩, 8⟩ p
      + planeOutcode ⟨⟨0, -1, 0, -1⟩, 16⟩ p + planeOutcode ⟨⟨0, 1, 0, -1⟩, 32⟩ p := by
  simp [outcodeOf, planes]

/-- **outcode_zero_inside.**  The frustum test of the code, in f32: for a clip-space position with finite
components and `0 ≤ w`, the outcode `Clip.outcodeOf Clip.planes` computed on bit patterns (per plane
`signed_dist(pt) = (((0 + n0·x) + n1·y) + n2·z) + (−1)·w`, every operation rounded, then `> 0.0`) is 0 if and
only if `−w ≤ x, y, z ≤ w` holds EXACTLY: the products with `0.0` and `±1.0` are exact and the sign of the one
rounded sum is the sign of the exact sum (gradual underflow). -/
theorem outcode_zero_inside (p : Vec4 B32) {qx qy qz qw : ℚ}
    (hx : p.x.val? = some qx) (hy : p.y.val? = some qy) (hz : p.z.val? = some qz) (hw : p.w.val? = some qw)
    (hw0 : 0 ≤ qw) :
    outcodeOf planes p = 0 ↔
      (-qw ≤ qx ∧ qx ≤ qw) ∧ (-qw ≤ qy ∧ qy ≤ qw) ∧ (-qw ≤ qz ∧ qz ≤ qw) := by
  have near := dist_pos_z toRat?_neg_one (Or.inr rfl) hx hy hz hw hw0
  have far := dist_pos_z toRat?_one (Or.inl rfl) hx hy hz hw hw0
  have left := dist_pos_x toRat?_neg_one (Or.inr rfl) hx hy hz hw hw0
  have right := dist_pos_x toRat?_one (Or.inl rfl) hx hy hz hw hw0
  have bottom := dist_pos_y toRat?_neg_one (Or.inr rfl) hx hy hz hw hw0
  have top := dist_pos_y toRat?_one (Or.inl rfl) hx hy hz hw hw0
  have key := fun (pl : Plane B32) (hb : pl.bit ≠ 0) => planeOutcode_zero_iff pl p hb
  rw [outcode_sum]
  simp only [Nat.add_eq_zero_iff]
  rw [key _ (by decide), key _ (by decide), key _ (by decide), key _ (by decide), key _ (by decide),
    key _ (by decide)]
  change ((((¬ _ ∧ ¬ _) ∧ ¬ _) ∧ ¬ _) ∧ ¬ _) ∧ ¬ _ ↔ _
  rw [show ((0 : B32) < signedDist ⟨⟨0, 0, -1, -1⟩, 1⟩ p) ↔ qw < -1 * qz from near,
    show ((0 : B32) < signedDist ⟨⟨0, 0, 1, -1⟩, 2⟩ p) ↔ qw < 1 * qz from far,
    show ((0 : B32) < signedDist ⟨⟨-1, 0, 0, -1⟩, 4⟩ p) ↔ qw < -1 * qx from left,
    show ((0 : B32) < signedDist ⟨⟨1, 0, 0, -1⟩, 8⟩ p) ↔ qw < 1 * qx from right,
    show ((0 : B32) < signedDist ⟨⟨0, -1, 0, -1⟩, 16⟩ p) ↔ qw < -1 * qy from bottom,
    show ((0 : B32) < signedDist ⟨⟨0, 1, 0, -1⟩, 32⟩ p) ↔ qw < 1 * qy from top]
  constructor
  · rintro ⟨⟨⟨⟨⟨h1, h2⟩, h3⟩, h4⟩, h5⟩, h6⟩
    refine ⟨⟨?_, ?_⟩, ⟨?_, ?_⟩, ⟨?_, ?_⟩⟩ <;> linarith
  · rintro ⟨⟨h1, h2⟩, ⟨h3, h4⟩, ⟨h5, h6⟩⟩
    refine ⟨⟨⟨⟨⟨?_, ?_⟩, ?_⟩, ?_⟩, ?_⟩, ?_⟩ <;> linarith

/-- **survivor_screen_f32.**  A vertex whose STORED outcode is the code's own (`mkVert`, i.e. `ClipVert::new`) and is
0 — what `status` = `Visible` and `is_inside` for all six planes test — with finite components and `w` positive
normal, goes through `toScreen` and the f32 viewport matrix to a finite screen position inside the closed
rectangle `[L, R] × [T, B]`. -/
theorem survivor_screen_f32 {L R T B : ℕ} (hLR : L ≤ R) (hR : R ≤ 2 ^ 23 - 1) (hTB : T ≤ B) (hB : B ≤ 2 ^ 23 - 1)
    (pos : Vec4 B32) (attr : List B32) {qx qy qz qw : ℚ}
    (hx : pos.x.val? = some qx) (hy : pos.y.val? = some qy) (hz : pos.z.val? = some qz)
    (hw : pos.w.val? = some qw) (hn : (2:ℚ) ^ (-126 : ℤ) ≤ qw) (hoc : (mkVert pos attr).oc = 0) :
    ∃ (sx sy sz : B32) (attrs : List B32) (vx vy : ℚ),
      toScreen (viewportMatF L R T B) (mkVert pos attr) = sx :: sy :: sz :: attrs ∧
      sx.val? = some vx ∧ (L : ℚ) ≤ vx ∧ vx ≤ R ∧ sy.val? = some vy ∧ (T : ℚ) ≤ vy ∧ vy ≤ B := by
  have hpos : 0 < qw := lt_of_lt_of_le (by positivity) hn
  obtain ⟨⟨a1, a2⟩, ⟨b1, b2⟩, -⟩ := (outcode_zero_inside pos hx hy hz hw hpos.le).mp hoc
  exact toScreen_f32_in_rect hLR hR hTB hB (mkVert pos attr) hx hy hw hn a1 a2 b1 b2

-- satisfiable: the corner vertex above has outcode 0 (it lies ON the left and top planes); one ulp further out
-- (y = 1.5000001 = 0x3FC00001) the top bit, 32, is set
example : (vtx 0xBFC00000 0x3FC00000 0 0x3FC00000).oc = 0 ∧ (vtx 0xBFC00000 0x3FC00001 0 0x3FC00000).oc = 32 := by
  decide +kernel

/-- the fifth and sixth plane of `view_frustum::PLANES` -/
def bottomPlane : Plane B32 := ⟨⟨0, -1, 0, -1⟩, 16⟩
def topPlane : Plane B32 := ⟨⟨0, 1, 0, -1⟩, 32⟩

example : (planes (α := B32)).drop 4 = [bottomPlane, topPlane] := rfl

/-- **inside_bottom_top_iff.**  `is_inside` (clip.rs:119: the plane's bit is clear in the stored outcode) for the
LAST TWO planes of the clipping loop, on a vertex made by `ClipVert::new` with finite components and `0 ≤ w`:
both tests pass iff `−w ≤ y ≤ w` EXACTLY — whatever the other four bits are.  Every vertex that leaves
`clip_simple_polygon` has passed both, except the vertices CREATED at the bottom plane (tested against top only)
and at the top plane (not tested again). -/
theorem inside_bottom_top_iff (pos : Vec4 B32) (attr : List B32) {qx qy qz qw : ℚ}
    (hx : pos.x.val? = some qx) (hy : pos.y.val? = some qy) (hz : pos.z.val? = some qz)
    (hw : pos.w.val? = some qw) (hw0 : 0 ≤ qw) :
    (isInside bottomPlane (mkVert pos attr) = true ∧ isInside topPlane (mkVert pos attr) = true) ↔
      (-qw ≤ qy ∧ qy ≤ qw) := by
  have bottom := dist_pos_y toRat?_neg_one (Or.inr rfl) hx hy hz hw hw0
  have top := dist_pos_y toRat?_one (Or.inl rfl) hx hy hz hw hw0
  have bits : ∀ b1 b2 b3 b4 b5 b6 : ℕ, (b1 = 0 ∨ b1 = 1) → (b2 = 0 ∨ b2 = 2) → (b3 = 0 ∨ b3 = 4) →
      (b4 = 0 ∨ b4 = 8) → (b5 = 0 ∨ b5 = 16) → (b6 = 0 ∨ b6 = 32) →
      (((16 &&& (b1 + b2 + b3 + b4 + b5 + b6) == 0) = true ∧ (32 &&& (b1 + b2 + b3 + b4 + b5 + b6) == 0) = true)
        ↔ (b5 = 0 ∧ b6 = 0)) := by
    rintro b1 b2 b3 b4 b5 b6 (rfl | rfl) (rfl | rfl) (rfl | rfl) (rfl | rfl) (rfl | rfl) (rfl | rfl) <;> decide
  have hoc : (mkVert pos attr).oc = outcodeOf planes pos := rfl
  unfold isInside bottomPlane topPlane
  rw [hoc, outcode_sum]
  simp only
  rw [bits _ _ _ _ _ _ (planeOutcode_cases _ pos) (planeOutcode_cases _ pos) (planeOutcode_cases _ pos)
    (planeOutcode_cases _ pos) (planeOutcode_cases _ pos) (planeOutcode_cases _ pos),
    planeOutcode_zero_iff _ pos (by decide), planeOutcode_zero_iff _ pos (by decide)]
  rw [show ((0 : B32) < signedDist ⟨⟨0, -1, 0, -1⟩, 16⟩ pos) ↔ qw < -1 * qy from bottom,
    show ((0 : B32) < signedDist ⟨⟨0, 1, 0, -1⟩, 32⟩ pos) ↔ qw < 1 * qy from top]
  constructor
  · rintro ⟨h1, h2⟩; constructor <;> linarith
  · rintro ⟨h1, h2⟩; constructor <;> linarith

/-- **tested_screen_y_f32.**  A vertex made by `ClipVert::new` that passes `is_inside` for the bottom and the top
plane (finite components, `w` positive normal, `x / w` not overflowing) has a finite f32 screen height in
`[T, B]` exactly — the hypothesis is literally the pair of tests `clip_simple_polygon` performs last. -/
theorem tested_screen_y_f32 {L R T B : ℕ} (hTB : T ≤ B) (hB : B ≤ 2 ^ 23 - 1)
    (pos : Vec4 B32) (attr : List B32) {qx qy qz qw : ℚ}
    (hx : pos.x.val? = some qx) (hy : pos.y.val? = some qy) (hz : pos.z.val? = some qz)
    (hw : pos.w.val? = some qw) (hn : (2:ℚ) ^ (-126 : ℤ) ≤ qw) (hxb : |qx| ≤ 2 ^ 100 * qw)
    (hbot : isInside bottomPlane (mkVert pos attr) = true) (htop : isInside topPlane (mkVert pos attr) = true) :
    ∃ (sx sy sz : B32) (attrs : List B32) (vy : ℚ),
      toScreen (viewportMatF L R T B) (mkVert pos attr) = sx :: sy :: sz :: attrs ∧
      sy.val? = some vy ∧ (T : ℚ) ≤ vy ∧ vy ≤ B := by
  have hpos : 0 < qw := lt_of_lt_of_le (by positivity) hn
  obtain ⟨b1, b2⟩ := (inside_bottom_top_iff pos attr hx hy hz hw hpos.le).mp ⟨hbot, htop⟩
  exact toScreen_y_f32 hTB hB (mkVert pos attr) hx hy hw hn hxb b1 b2

-- satisfiable with a NON-zero outcode: x = 3.0 (0x40400000) is outside the right plane (bit 8), y = 1.5 = w passes
-- bottom and top; the screen height is B = 480.0 although the vertex is not a survivor
example : (vtx 0x40400000 0x3FC00000 0 0x3FC00000).oc = 8 ∧
    isInside bottomPlane (vtx 0x40400000 0x3FC00000 0 0x3FC00000) = true ∧
    isInside topPlane (vtx 0x40400000 0x3FC00000 0 0x3FC00000) = true ∧
    ((toScreen (viewportMatF 3 640 1 480) (vtx 0x40400000 0x3FC00000 0 0x3FC00000)).map (·.bits))[1]?
      = some 0x43F00000 := by
  decide +kernel

/-! ### 3. Rows -/

/-- **rows_in_viewport_f32.**  Every row the f32 scan (`C04.rowsF`: `round_up_to_half`, `(y1r − y0r) as u32`,
`y as usize`, `y += 1.0`, on bit patterns) visits between two screen heights whose VALUES lie in `[T, B]`,
`B ≤ 2^23 − 1`, is a row of the viewport: `T ≤ r < B`.  (Centre rule `mem_rowsF_iff`: `r + ½ ∈ (y0, y1] ⊆ (T, B]`.) -/
theorem rows_in_viewport_f32 {T B : ℕ} (hB : B ≤ 2 ^ 23 - 1) {y0 y1 : UInt32} {q0 q1 : ℚ}
    (h0 : toRat? y0 = some q0) (h1 : toRat? y1 = some q1)
    (a0 : (T : ℚ) ≤ q0) (b0 : q0 ≤ B) (a1 : (T : ℚ) ≤ q1) (b1 : q1 ≤ B) :
    ∀ r ∈ C04.rowsF y0 y1, T ≤ r ∧ r < B := by
  have hBq : (B : ℚ) ≤ 2 ^ 23 - 1 := by
    have : ((B : ℕ) : ℚ) ≤ ((2 ^ 23 - 1 : ℕ) : ℚ) := Nat.cast_le.mpr hB
    norm_num at this ⊢; exact this
  have hT0 : (0 : ℚ) ≤ T := by positivity
  intro r hr
  rw [C04.mem_rowsF_iff h0 h1 (by linarith) (by linarith) (by rw [abs_le]; constructor <;> linarith)] at hr
  obtain ⟨c1, c2⟩ := hr
  constructor
  · by_contra hc
    rw [not_le] at hc
    have : (r : ℚ) + 1 ≤ T := by exact_mod_cast hc
    linarith
  · by_contra hc
    rw [not_lt] at hc
    have : (B : ℚ) ≤ r := by exact_mod_cast hc
    linarith

/-- the same for the build without an fp feature (`(x + 0.5) as i32 as f32`) -/
theorem rows_in_viewport_f32_nofp {T B : ℕ} (hB : B ≤ 2 ^ 23 - 1) {y0 y1 : UInt32} {q0 q1 : ℚ}
    (h0 : toRat? y0 = some q0) (h1 : toRat? y1 = some q1)
    (a0 : (T : ℚ) ≤ q0) (b0 : q0 ≤ B) (a1 : (T : ℚ) ≤ q1) (b1 : q1 ≤ B) :
    ∀ r ∈ C04.rowsFNoFp y0 y1, T ≤ r ∧ r < B := by
  have hBq : (B : ℚ) ≤ 2 ^ 23 - 1 := by
    have : ((B : ℕ) : ℚ) ≤ ((2 ^ 23 - 1 : ℕ) : ℚ) := Nat.cast_le.mpr hB
    norm_num at this ⊢; exact this
  have hT0 : (0 : ℚ) ≤ T := by positivity
  rw [C04.rowsFNoFp_eq_rowsF h0 h1 (by linarith) (by linarith) (by linarith) (by linarith)]
  exact rows_in_viewport_f32 hB h0 h1 a0 b0 a1 b1

-- satisfiable: y0 = 1.0 (0x3F800000) = T, y1 = 480.0 (0x43F00000) = B: rows 1 … 479, all of them
example : toRat? (0x3F800000 : UInt32) = some 1 ∧ toRat? (0x43F00000 : UInt32) = some 480 ∧
    C04.rowsF 0x3F800000 0x43F00000 = List.range' 1 479 := by
  unfold C04.rowsF C04.rowsWith Retro.FloatFallback.roundUpHalfFp Retro.FloatFallback.roundUpHalfCore
  decide +kernel

/-- a screen-space height whose value lies in `[T, B]` — what `survivor_screen_f32` delivers -/
def HeightIn (T B : ℕ) (y : UInt32) : Prop := ∃ q : ℚ, toRat? y = some q ∧ (T : ℚ) ≤ q ∧ q ≤ B

/-- **trifill_rows_in_viewport_f32.**  `tri_fill` (raster.rs:110-147) sorts the three vertices by `y` and scans
`top_y..mid_y` and `mid_y..bot_y`, where `top_y, mid_y, bot_y` are the `y` of the three vertices in SOME order.
Whatever the order: every row either scan visits in f32 is a row of the viewport. -/
theorem trifill_rows_in_viewport_f32 {T B : ℕ} (hB : B ≤ 2 ^ 23 - 1) {ya yb yc : UInt32}
    (ha : HeightIn T B ya) (hb : HeightIn T B yb) (hc : HeightIn T B yc) :
    ∀ s ∈ [ya, yb, yc], ∀ e ∈ [ya, yb, yc], ∀ r ∈ C04.rowsF s e, T ≤ r ∧ r < B := by
  have all : ∀ y ∈ [ya, yb, yc], HeightIn T B y := by
    intro y hy
    simp only [List.mem_cons, List.mem_nil_iff, or_false] at hy
    rcases hy with rfl | rfl | rfl <;> assumption
  intro s hs e he
  obtain ⟨q0, h0, a0, b0⟩ := all s hs
  obtain ⟨q1, h1, a1, b1⟩ := all e he
  exact rows_in_viewport_f32 hB h0 h1 a0 b0 a1 b1

/-- **row_index_in_bounds_f32.**  Hence the row lookups of `Render.rasterize` (`t.color[sl.y]?`, `dbuf[sl.y]?`, whose
`none` branch is the outcome `row index out of bounds`, target.rs `color_buf[sl.y]`, `depth_buf[sl.y]`) succeed
for every row of such a scan on a buffer of height `≥ B`. -/
theorem row_index_in_bounds_f32 {T B : ℕ} (hB : B ≤ 2 ^ 23 - 1) {y0 y1 : UInt32}
    (h0 : HeightIn T B y0) (h1 : HeightIn T B y1) {X : Type} (buf : List X) (hH : B ≤ buf.length) :
    ∀ r ∈ C04.rowsF y0 y1, ∃ row, buf[r]? = some row := by
  obtain ⟨q0, e0, a0, b0⟩ := h0
  obtain ⟨q1, e1, a1, b1⟩ := h1
  intro r hr
  obtain ⟨-, h⟩ := rows_in_viewport_f32 hB e0 e1 a0 b0 a1 b1 r hr
  exact ⟨buf[r]'(by omega), List.getElem?_eq_getElem (by omega)⟩

/-! ### Sharpness -/

/-- **"w normal" cannot be dropped.**  The position `(0, 0, 0, 2^-149)` has outcode 0 (it IS inside the frustum),
but `1 / w` overflows to `+∞`, `0.0 · ∞ = NaN`, and both screen coordinates come out NaN (on which `tri_fill`'s
`partial_cmp(..).unwrap()` panics).  Outside the property's domain (`w ≥ near ≥ 1e-5` there), inside this
theorem's vocabulary. -/
theorem w_subnormal_screen_nan :
    toRat? (0x00000001 : UInt32) = some ((2:ℚ) ^ (-149 : ℤ)) ∧ (vtx 0 0 0 0x00000001).oc = 0 ∧
    (toScreen (viewportMatF 0 2 0 3) (vtx 0 0 0 0x00000001)).map (·.bits) = [canonNaN, canonNaN, posInf] := by
  refine ⟨?_, by decide +kernel, by decide +kernel⟩
  have : toRat? (0x00000001 : UInt32) = some (1 / 713623846352979940529142984724747568191373312 : ℚ) := by
    decide +kernel
  rw [this]; norm_num

/-- **The outcode test is the sharp hypothesis.**  `y` ONE ulp above `w` (`w = 1.0`, `y = 1.0000001 = 0x3F800001`:
outcode 32, the clipper rejects or clips it): through the viewport `(0,0)..(2,3)` the f32 screen height is
`3.0000002 = 0x40400001 > B = 3` — outside `[T, B]` (by one ulp: still far inside the half-pixel slack). -/
theorem one_ulp_outside_leaves_rect :
    (vtx 0 0x3F800001 0 0x3F800000).oc = 32 ∧
    (toScreen (viewportMatF 0 2 0 3) (vtx 0 0x3F800001 0 0x3F800000)).map (·.bits)
      = [0x3F800000, 0x40400001, 0x3F800000] ∧
    toRat? (0x40400001 : UInt32) = some (3 + 1 / 4194304) := by
  refine ⟨by decide +kernel, by decide +kernel, by decide +kernel⟩

end Retro.Props.C02
