/-
C03 — Frustum clipping returns exactly the inside part, attributes intact.
  `Retro.Props.C03.Base`   : `clip_inside`, `clip_bary`, `clip_visible_id`, `clip_hidden_nil`, `clip_append`, `clip_wf`
  `Retro.Props.C03.Cover*` : the six-plane composition in the input triangle's barycentric plane (prover sub-agent):
      `clip_winding` / `clip_polygon_conv`  every output triangle keeps the input's winding (or is degenerate); the
                                            clipped polygon is weakly convex, counter-clockwise
      `clip_output_subset_visible`          every point of every output triangle is in the visible part
      `clip_nonoverlap`                     two different output triangles share no interior point
      `clip_covers_hull` (`clip_covers`)    no inside point is lost: every visible point is a convex combination of the
                                            corners of a NON-DEGENERATE output triangle — when the visible part has non-empty interior;
                                            `CoverEx` proves the statement FALSE without that hypothesis (a triangle
                                            touching the frustum from outside at one vertex yields nothing)
-/
import Retro.Props.C03.Base
import Retro.Props.C03.CoverEx
import Retro.Props.C03.CoverStrong
