/-
C03 — Frustum clipping returns exactly the inside part, attributes intact.

Theorems are over an arbitrary linearly ordered field K (so for ℚ and ℝ alike) and about the
very functions the driver runs (`Retro.Clip.clipTri`, `clipTris`).

Proved here (Tier A of DESIGN.md):
  * `clip_inside`      every output vertex satisfies all six frustum inequalities
  * `clip_bary`        every output vertex is a convex combination of the input triangle's
                       vertices, and its attribute is the same combination of the input
                       attributes (lies in the triangle, carries the linear field's value there)
  * `clip_visible_id`  a triangle wholly inside is emitted unchanged
  * `clip_hidden_nil`  a triangle wholly outside one plane produces nothing
  * `clip_append`      batching independence
  * `clip_wf`          outputs carry consistent stored outcodes (re-clipping is meaningful)
Exact coverage / non-overlap / winding of the six-plane composition are proved in
`Retro.Props.C03.Cover*` (`clip_covers`, `clip_nonoverlap`, `clip_winding`,
`clip_output_subset_visible`); the spec oracle `Retro.Spec.ClipArea` also checks them on every
correspondence case. Float rounding is outside these theorems.
-/
import Retro.Lemmas.Clip

namespace Retro.Props.C03
open Retro Retro.Clip Retro.Lemmas.Clip

variable {K : Type} [Field K] [LinearOrder K] [IsStrictOrderedRing K]

/-- Inside the view frustum: all six signed distances are non-positive (−w ≤ x,y,z ≤ w). -/
def Inside (v : Vec4 K) : Prop := ∀ p ∈ (planes : List (Plane K)), signedDist p v ≤ 0

def triVerts (t : Tri K) : List (ClipVert K) := [t.a, t.b, t.c]

/-- All three vertices were built by `ClipVert::new`. -/
def TriWF (t : Tri K) : Prop := WF t.a ∧ WF t.b ∧ WF t.c

/-- `Inside` spelled out: −w ≤ x, y, z ≤ w. -/
theorem inside_iff (v : Vec4 K) :
    Inside v ↔ (-v.w ≤ v.z ∧ v.z ≤ v.w ∧ -v.w ≤ v.x ∧ v.x ≤ v.w ∧ -v.w ≤ v.y ∧ v.y ≤ v.w) := by
  unfold Inside
  rw [planes_eq]
  simp only [List.mem_cons, List.mem_nil_iff, or_false, forall_eq_or_imp, forall_eq,
    signedDist, dot4, P0, P1, P2, P3, P4, P5]
  constructor
  · rintro ⟨h0, h1, h2, h3, h4, h5⟩
    refine ⟨?_, ?_, ?_, ?_, ?_, ?_⟩ <;> linarith
  · rintro ⟨h0, h1, h2, h3, h4, h5⟩
    refine ⟨?_, ?_, ?_, ?_, ?_, ?_⟩ <;> linarith

/-! ### Invariant of the plane loop -/

theorem clipAll_inv (ps : List (Plane K)) :
    ∀ (done : List (Plane K)) (vs : List (ClipVert K)),
      (∀ p ∈ ps, p ∈ (planes : List (Plane K))) →
      (∀ v ∈ vs, WF v ∧ ∀ q ∈ done, signedDist q v.pos ≤ 0) →
      ∀ u ∈ clipAll ps vs, WF u ∧ ∀ q ∈ done ++ ps, signedDist q u.pos ≤ 0 := by
  induction ps with
  | nil => intro done vs _ hvs u hu; simpa [clipAll] using hvs u hu
  | cons p ps ih =>
    intro done vs hsub hvs u hu
    have hp : p ∈ (planes : List (Plane K)) := hsub p (by simp)
    have hstep : ∀ v ∈ clipPlane p vs, WF v ∧ ∀ q ∈ done ++ [p], signedDist q v.pos ≤ 0 := by
      intro v hv
      have hQ := clipPlane_preserves (fun v => WF v ∧ ∀ q ∈ done, signedDist q v.pos ≤ 0) p
        (fun v0 v1 h0 h1 hc => ⟨mkVert_wf _ _, fun q hq => crossing_inside p q v0 v1 (h0.2 q hq) (h1.2 q hq) hc⟩)
        vs hvs v hv
      refine ⟨hQ.1, fun q hq => ?_⟩
      rcases List.mem_append.mp hq with hq | hq
      · exact hQ.2 q hq
      · have : q = p := by simpa using hq
        subst this
        exact clipPlane_inside q hp vs (fun v hv => (hvs v hv).1) v hv
    have := ih (done ++ [p]) (clipPlane p vs) (fun q hq => hsub q (by simp [hq])) hstep u
      (by simpa [clipAll] using hu)
    simpa [List.append_assoc] using this

theorem mem_fan (a : ClipVert K) (rest : List (ClipVert K)) (t : Tri K) (h : t ∈ fan a rest) :
    t.a = a ∧ t.b ∈ rest ∧ t.c ∈ rest := by
  induction rest with
  | nil => simp [fan] at h
  | cons e0 rest ih =>
    cases rest with
    | nil => simp [fan] at h
    | cons e1 rest' =>
      simp only [fan, List.mem_cons] at h
      rcases h with rfl | h
      · simp
      · obtain ⟨h1, h2, h3⟩ := ih (by simpa [List.mem_cons] using h)
        exact ⟨h1, List.mem_cons_of_mem _ h2, List.mem_cons_of_mem _ h3⟩

/-- Every vertex of every output triangle is an input vertex (visible case) or a vertex of the
clipped polygon. -/
theorem clipTri_verts (t : Tri K) (tri : Tri K) (h : tri ∈ clipTri t) (v : ClipVert K)
    (hv : v ∈ triVerts tri) :
    (status (triVerts t) = .visible ∧ v ∈ triVerts t) ∨
    (v ∈ clipAll planes (triVerts t)) := by
  unfold clipTri at h
  cases hs : status [t.a, t.b, t.c] with
  | visible =>
    simp only [hs, List.mem_singleton] at h
    subst h
    exact Or.inl ⟨hs, hv⟩
  | hidden => simp [hs] at h
  | clipped =>
    simp only [hs] at h
    right
    have hpoly : clipPolygon planes [t.a, t.b, t.c] = clipAll planes (triVerts t) := by
      rw [clipPolygon_eq, planes_eq]; simp [triVerts]
    cases hc : clipPolygon (planes : List (Plane K)) [t.a, t.b, t.c] with
    | nil => simp [hc] at h
    | cons a rest =>
      simp only [hc] at h
      obtain ⟨h1, h2, h3⟩ := mem_fan a rest tri h
      rw [← hpoly, hc]
      simp only [triVerts, List.mem_cons, List.mem_nil_iff, or_false] at hv
      rcases hv with rfl | rfl | rfl
      · simp [h1]
      · exact List.mem_cons_of_mem _ h2
      · exact List.mem_cons_of_mem _ h3

theorem status_visible_iff (vs : List (ClipVert K)) :
    status vs = .visible → ∀ v ∈ vs, v.oc = 0 := by
  intro h v hv
  unfold status at h
  simp only at h
  split at h
  · cases h
  · split at h
    · rename_i _ hany
      have hany : List.foldl (fun a v => a ||| v.oc) 0 vs = 0 := by simpa using hany
      have key : ∀ (l : List (ClipVert K)) (acc : Nat), List.foldl (fun a v => a ||| v.oc) acc l = 0 →
          acc = 0 ∧ ∀ v ∈ l, v.oc = 0 := by
        intro l
        induction l with
        | nil => intro acc h; exact ⟨by simpa using h, by simp⟩
        | cons x xs ih =>
          intro acc h
          simp only [List.foldl_cons] at h
          obtain ⟨h1, h2⟩ := ih _ h
          have := Nat.or_eq_zero_iff.mp h1
          exact ⟨this.1, by intro v hv; rcases List.mem_cons.mp hv with rfl | hv; exact this.2; exact h2 v hv⟩
      exact (key vs 0 hany).2 v hv
    · cases h

/-- **No output point is outside.** Every vertex of every output triangle satisfies all six
frustum inequalities. -/
theorem clip_inside (t : Tri K) (hwf : TriWF t) :
    ∀ tri ∈ clipTri t, ∀ v ∈ triVerts tri, Inside v.pos := by
  intro tri htri v hv
  have hall : ∀ v ∈ triVerts t, WF v := by
    intro v hv
    simp only [triVerts, List.mem_cons, List.mem_nil_iff, or_false] at hv
    rcases hv with rfl | rfl | rfl
    · exact hwf.1
    · exact hwf.2.1
    · exact hwf.2.2
  rcases clipTri_verts t tri htri v hv with ⟨hs, hmem⟩ | hmem
  · exact (wf_oc_zero_iff v (hall v hmem)).mp (status_visible_iff _ hs v hmem)
  · have := clipAll_inv (planes : List (Plane K)) [] (triVerts t) (fun p hp => hp)
      (fun v hv => ⟨hall v hv, by simp⟩) v hmem
    simpa [Inside] using this.2

/-- Outputs are well-formed clip vertices again. -/
theorem clip_wf (t : Tri K) (hwf : TriWF t) :
    ∀ tri ∈ clipTri t, ∀ v ∈ triVerts tri, WF v := by
  intro tri htri v hv
  have hall : ∀ v ∈ triVerts t, WF v := by
    intro v hv
    simp only [triVerts, List.mem_cons, List.mem_nil_iff, or_false] at hv
    rcases hv with rfl | rfl | rfl
    · exact hwf.1
    · exact hwf.2.1
    · exact hwf.2.2
  rcases clipTri_verts t tri htri v hv with ⟨_, hmem⟩ | hmem
  · exact hall v hmem
  · exact (clipAll_inv (planes : List (Plane K)) [] (triVerts t) (fun p hp => hp)
      (fun v hv => ⟨hall v hv, by simp⟩) v hmem).1

/-- **Independence of batching**: the result for a list is the concatenation of the results for
its parts, so it does not depend on what else is clipped in the same call. -/
theorem clip_append (s t : List (Tri K)) : clipTris (s ++ t) = clipTris s ++ clipTris t := by
  simp [clipTris, List.flatMap_append]


/-! ### Trivial accept / reject, stated geometrically -/

/-- **A triangle wholly inside is emitted unchanged.** -/
theorem clip_visible_id (t : Tri K) (hwf : TriWF t) (hin : ∀ v ∈ triVerts t, Inside v.pos) :
    clipTri t = [t] := by
  have ha : t.a.oc = 0 := (wf_oc_zero_iff _ hwf.1).mpr (hin _ (by simp [triVerts]))
  have hb : t.b.oc = 0 := (wf_oc_zero_iff _ hwf.2.1).mpr (hin _ (by simp [triVerts]))
  have hc : t.c.oc = 0 := (wf_oc_zero_iff _ hwf.2.2).mpr (hin _ (by simp [triVerts]))
  simp [clipTri, status, ha, hb, hc]

theorem ocOf_testBit (d0 d1 d2 d3 d4 d5 : K) :
    (ocOf d0 d1 d2 d3 d4 d5).testBit 0 = decide (0 < d0) ∧
    (ocOf d0 d1 d2 d3 d4 d5).testBit 1 = decide (0 < d1) ∧
    (ocOf d0 d1 d2 d3 d4 d5).testBit 2 = decide (0 < d2) ∧
    (ocOf d0 d1 d2 d3 d4 d5).testBit 3 = decide (0 < d3) ∧
    (ocOf d0 d1 d2 d3 d4 d5).testBit 4 = decide (0 < d4) ∧
    (ocOf d0 d1 d2 d3 d4 d5).testBit 5 = decide (0 < d5) := by
  unfold ocOf
  by_cases h0 : 0 < d0 <;> by_cases h1 : 0 < d1 <;> by_cases h2 : 0 < d2 <;>
  by_cases h3 : 0 < d3 <;> by_cases h4 : 0 < d4 <;> by_cases h5 : 0 < d5 <;>
  simp only [h0, h1, h2, h3, h4, h5, if_true, if_false, decide_true, decide_false] <;> decide

/-- bit index of each frustum plane in the outcode -/
theorem wf_testBit (p : Plane K) (hp : p ∈ (planes : List (Plane K))) (v : ClipVert K) (hwf : WF v)
    (hout : 0 < signedDist p v.pos) : ∃ k, k < 6 ∧ p.bit = 2 ^ k ∧ v.oc.testBit k = true := by
  obtain ⟨h0, h1, h2, h3, h4, h5⟩ := ocOf_testBit (signedDist P0 v.pos) (signedDist P1 v.pos)
    (signedDist P2 v.pos) (signedDist P3 v.pos) (signedDist P4 v.pos) (signedDist P5 v.pos)
  rw [hwf, outcode_eq]
  rcases mem_planes p hp with rfl | rfl | rfl | rfl | rfl | rfl
  · exact ⟨0, by omega, rfl, by rw [h0]; exact decide_eq_true hout⟩
  · exact ⟨1, by omega, rfl, by rw [h1]; exact decide_eq_true hout⟩
  · exact ⟨2, by omega, rfl, by rw [h2]; exact decide_eq_true hout⟩
  · exact ⟨3, by omega, rfl, by rw [h3]; exact decide_eq_true hout⟩
  · exact ⟨4, by omega, rfl, by rw [h4]; exact decide_eq_true hout⟩
  · exact ⟨5, by omega, rfl, by rw [h5]; exact decide_eq_true hout⟩

/-- **A triangle wholly outside one plane produces nothing.** -/
theorem clip_hidden_nil (t : Tri K) (hwf : TriWF t) (p : Plane K) (hp : p ∈ (planes : List (Plane K)))
    (hout : ∀ v ∈ triVerts t, 0 < signedDist p v.pos) : clipTri t = [] := by
  obtain ⟨ka, hka, hba, hta⟩ := wf_testBit p hp t.a hwf.1 (hout _ (by simp [triVerts]))
  obtain ⟨kb, _, hbb, htb⟩ := wf_testBit p hp t.b hwf.2.1 (hout _ (by simp [triVerts]))
  obtain ⟨kc, _, hbc, htc⟩ := wf_testBit p hp t.c hwf.2.2 (hout _ (by simp [triVerts]))
  have e1 : kb = ka := Nat.pow_right_injective (le_refl 2) (show 2 ^ kb = 2 ^ ka by rw [← hbb, ← hba])
  have e2 : kc = ka := Nat.pow_right_injective (le_refl 2) (show 2 ^ kc = 2 ^ ka by rw [← hbc, ← hba])
  subst e1 e2
  have h255 : (255 : Nat).testBit kc = true := by
    have : kc = 0 ∨ kc = 1 ∨ kc = 2 ∨ kc = 3 ∨ kc = 4 ∨ kc = 5 := by omega
    rcases this with rfl | rfl | rfl | rfl | rfl | rfl <;> decide
  have hall : (((255 &&& t.a.oc) &&& t.b.oc) &&& t.c.oc) ≠ 0 := by
    intro h0
    have : (((255 &&& t.a.oc) &&& t.b.oc) &&& t.c.oc).testBit kc = true := by
      simp [Nat.testBit_and, h255, hta, htb, htc]
    rw [h0] at this
    simp at this
  simp [clipTri, status, hall]

/-! ### Outputs lie in the input triangle and carry its linear attribute field -/

/-- a·P + b·Q + c·R on positions -/
def comb4 (a b c : K) (P Q R : Vec4 K) : Vec4 K :=
  ⟨a * P.x + b * Q.x + c * R.x, a * P.y + b * Q.y + c * R.y,
   a * P.z + b * Q.z + c * R.z, a * P.w + b * Q.w + c * R.w⟩

/-- a·A + b·B + c·C on attribute component lists -/
def combL (a b c : K) : List K → List K → List K → List K
  | x :: xs, y :: ys, z :: zs => (a * x + b * y + c * z) :: combL a b c xs ys zs
  | _, _, _ => []

/-- `v` is the point of triangle `t` with barycentric coordinates (a,b,c), position and attribute alike. -/
def BaryOf (t : Tri K) (v : ClipVert K) : Prop :=
  ∃ a b c : K, 0 ≤ a ∧ 0 ≤ b ∧ 0 ≤ c ∧ a + b + c = 1 ∧
    v.pos = comb4 a b c t.a.pos t.b.pos t.c.pos ∧
    v.attr = combL a b c t.a.attr t.b.attr t.c.attr

theorem lerpL_combL (a b c a' b' c' s : K) (A B C : List K) :
    lerpL (combL a b c A B C) (combL a' b' c' A B C) s =
      combL (lerp a a' s) (lerp b b' s) (lerp c c' s) A B C := by
  induction A generalizing B C with
  | nil => simp [combL, lerpL]
  | cons x xs ih =>
    cases B with
    | nil => simp [combL, lerpL]
    | cons y ys =>
      cases C with
      | nil => simp [combL, lerpL]
      | cons z zs =>
        simp only [combL, lerpL, ih]
        congr 1
        simp only [lerp]; ring

theorem combL_one (A B C : List K) (h1 : A.length = B.length) (h2 : B.length = C.length) :
    combL 1 0 0 A B C = A ∧ combL 0 1 0 A B C = B ∧ combL 0 0 1 A B C = C := by
  induction A generalizing B C with
  | nil =>
    cases B <;> cases C <;> simp_all [combL]
  | cons x xs ih =>
    cases B with
    | nil => simp at h1
    | cons y ys =>
      cases C with
      | nil => simp at h2
      | cons z zs =>
        obtain ⟨i1, i2, i3⟩ := ih ys zs (by simpa using h1) (by simpa using h2)
        simp [combL, i1, i2, i3]

theorem baryOf_crossing (t : Tri K) (p : Plane K) (v0 v1 : ClipVert K) (h0 : BaryOf t v0) (h1 : BaryOf t v1)
    (hc : signedDist p v0.pos * signedDist p v1.pos < 0) : BaryOf t (crossing p v0 v1) := by
  obtain ⟨a, b, c, ha, hb, hcc, hs, hp0, hA0⟩ := h0
  obtain ⟨a', b', c', ha', hb', hcc', hs', hp1, hA1⟩ := h1
  obtain ⟨ht0, ht1⟩ := crossT_mem _ _ hc
  set s := -signedDist p v0.pos / (signedDist p v1.pos - signedDist p v0.pos) with hsdef
  have hconv : ∀ x y : K, 0 ≤ x → 0 ≤ y → 0 ≤ lerp x y s := by
    intro x y hx hy
    unfold lerp
    nlinarith [mul_nonneg ht0.le hy, mul_nonneg (sub_nonneg.mpr ht1.le) hx]
  refine ⟨lerp a a' s, lerp b b' s, lerp c c' s, hconv _ _ ha ha', hconv _ _ hb hb', hconv _ _ hcc hcc', ?_, ?_, ?_⟩
  · simp only [lerp]
    have e : a + (a' - a) * s + (b + (b' - b) * s) + (c + (c' - c) * s) =
        (a + b + c) + ((a' + b' + c') - (a + b + c)) * s := by ring
    rw [e, hs, hs']; ring
  · simp only [crossing, mkVert, ← hsdef]
    rw [hp0, hp1]
    simp only [lerpPos, comb4, lerp, Vec4.mk.injEq]
    refine ⟨?_, ?_, ?_, ?_⟩ <;> ring
  · simp only [crossing, mkVert, ← hsdef]
    rw [hA0, hA1, lerpL_combL]

/-- **Outputs lie in the input and keep its attribute field.** Every vertex of every output
triangle is a convex combination of the input triangle's three vertices, and its attribute is the
same combination of the input's attributes — i.e. the value of the input triangle's linear attribute
field at the output vertex's own position. -/
theorem clip_bary (t : Tri K) (hlen : t.a.attr.length = t.b.attr.length ∧ t.b.attr.length = t.c.attr.length) :
    ∀ tri ∈ clipTri t, ∀ v ∈ triVerts tri, BaryOf t v := by
  intro tri htri v hv
  obtain ⟨c1, c2, c3⟩ := combL_one t.a.attr t.b.attr t.c.attr hlen.1 hlen.2
  have hbase : ∀ v ∈ triVerts t, BaryOf t v := by
    intro v hv
    simp only [triVerts, List.mem_cons, List.mem_nil_iff, or_false] at hv
    rcases hv with rfl | rfl | rfl
    · exact ⟨1, 0, 0, by norm_num, by norm_num, by norm_num, by norm_num, by simp [comb4], c1.symm⟩
    · exact ⟨0, 1, 0, by norm_num, by norm_num, by norm_num, by norm_num, by simp [comb4], c2.symm⟩
    · exact ⟨0, 0, 1, by norm_num, by norm_num, by norm_num, by norm_num, by simp [comb4], c3.symm⟩
  rcases clipTri_verts t tri htri v hv with ⟨_, hmem⟩ | hmem
  · exact hbase v hmem
  · have key : ∀ (ps : List (Plane K)) (vs : List (ClipVert K)), (∀ v ∈ vs, BaryOf t v) →
        ∀ u ∈ clipAll ps vs, BaryOf t u := by
      intro ps
      induction ps with
      | nil => intro vs h u hu; exact h u (by simpa [clipAll] using hu)
      | cons p ps ih =>
        intro vs h u hu
        exact ih (clipPlane p vs)
          (clipPlane_preserves (BaryOf t) p (fun v0 v1 h0 h1 hc => baryOf_crossing t p v0 v1 h0 h1 hc) vs h)
          u (by simpa [clipAll] using hu)
    exact key _ _ hbase v hmem

/-! ### Non-vacuity: a concrete triangle crossing the right plane, over ℚ -/

example : clipTri (α := Rat) ⟨mkVert ⟨0, 0, 0, 1⟩ [1], mkVert ⟨2, 0, 0, 1⟩ [3], mkVert ⟨0, 1, 0, 1⟩ [5]⟩ =
    [⟨mkVert ⟨0, 0, 0, 1⟩ [1], mkVert ⟨1, 0, 0, 1⟩ [2], mkVert ⟨1, 1/2, 0, 1⟩ [4]⟩,
     ⟨mkVert ⟨0, 0, 0, 1⟩ [1], mkVert ⟨1, 1/2, 0, 1⟩ [4], mkVert ⟨0, 1, 0, 1⟩ [5]⟩] := by
  decide +kernel

end Retro.Props.C03
