/-
C03 / Cover: headline theorems about `Retro.Clip.clipTri` in the input triangle's own
barycentric plane (exact arithmetic, any linearly ordered field).

A point of the input triangle t = (A,B,C) is (1−u−v)·A + u·B + v·C; we write c = (u,v) : Pt K.
`Rep t c v`     : clip vertex v sits at coordinates c of t (position, attribute, outcode).
`TriRep t s tri`: the three vertices of output triangle `tri` sit at the corners of the 2-D
                  triangle `s : Tri2 K`.
`orient2`       : twice the signed area; the input triangle (0,0),(1,0),(0,1) has orient2 = 1.

P1 `clip_winding`                (this file) every output triangle has orient2 ≥ 0 in that plane;
   `clip_polygon_conv`           the whole clipped polygon is weakly convex, counter-clockwise
P4 `clip_output_subset_visible`  (this file) every convex combination of an output triangle's corners is
   `…_pos`                       in V = {simplex, all six D ≤ 0}; 4-D form: inside the frustum, in t
P3 `clip_nonoverlap`             (CoverFan.lean) output triangles have pairwise disjoint open interiors
P2 `clip_covers`                 (CoverAll.lean) every point of V lies in the closed triangle of some
                                 output triangle, PROVIDED V has non-empty interior (∃ q0 in the open
                                 simplex strictly inside all six planes). Without that hypothesis the
                                 statement is false (CoverEx.lean: a triangle touching the frustum in one
                                 vertex is dropped entirely). `clip_nonempty` is a corollary.
P5 CoverEx.lean                  a triangle through two planes → pentagon → three fan triangles.
All under the hypotheses of `clip_bary` only: well-formed outcodes (`TriWF`), equal attribute lengths.
Not done: the optional 3-D/screen-space restatement of the orientation sign for w > 0.
Proof layers: CoverConv (Conv invariant) → CoverClip2 (2-D S–H, Conv preserved) → CoverBridge
(`clipPlane` = `clipPlane2` on coordinates) → CoverIn/CoverStep (one-plane coverage) → CoverAll.
-/
import Retro.Props.C03.CoverBridge

namespace Retro.Props.C03
open Retro Retro.Clip Retro.Lemmas.Clip

set_option linter.unusedSectionVars false

variable {K : Type} [Field K] [LinearOrder K] [IsStrictOrderedRing K]

/-- **P1. Winding preservation.** Every triangle emitted by `clipTri t` has, in the barycentric
plane of `t`, the same orientation as `t` itself or is degenerate: there are coordinates
`s.a s.b s.c` in the closed simplex at which its three vertices sit (position and attribute),
with `orient2 s.a s.b s.c ≥ 0`. -/
theorem clip_winding (t : Tri K) (hwf : TriWF t)
    (hlen : t.a.attr.length = t.b.attr.length ∧ t.b.attr.length = t.c.attr.length) :
    ∀ tri ∈ clipTri t, ∃ s : Tri2 K, TriRep t s tri ∧
      (InSimplex s.a ∧ InSimplex s.b ∧ InSimplex s.c) ∧ 0 ≤ orient2 s.a s.b s.c := by
  intro tri htri
  obtain ⟨s, hs, hrep⟩ := forall₂_mem_right (rep_clipTri t hwf hlen) tri htri
  exact ⟨s, hrep, clipTri2_inSimplex t s hs, clipTri2_orient t s hs⟩

/-- The whole clipped polygon (before the fan) is weakly convex and counter-clockwise: every
index-ordered triple of its vertices has `orient2 ≥ 0`, not only the fan triples. -/
theorem clip_polygon_conv (t : Tri K) (hwf : TriWF t)
    (hlen : t.a.attr.length = t.b.attr.length ∧ t.b.attr.length = t.c.attr.length) :
    ∃ cs : List (Pt K), List.Forall₂ (Rep t) cs (clipPolygon planes (triVerts t)) ∧ Conv cs ∧
      ∀ c ∈ cs, InSimplex c :=
  ⟨clipAll2 t planes simplex3,
    by rw [clipPolygon_planes]; exact rep_clipAll t planes (fun p hp => hp) _ _ (rep_simplex3 t hwf hlen),
    conv_clipAll2_simplex t, inSimplex_clipAll2 t planes simplex3 inSimplex_simplex3⟩

/-- hypotheses of `clip_winding` are satisfiable, and the conclusion is not vacuous: the
triangle of the C03 example yields two output triangles -/
example : TriWF (K := Rat) ⟨mkVert ⟨0, 0, 0, 1⟩ [1], mkVert ⟨2, 0, 0, 1⟩ [3], mkVert ⟨0, 1, 0, 1⟩ [5]⟩ :=
  ⟨mkVert_wf _ _, mkVert_wf _ _, mkVert_wf _ _⟩

/-! ### P4: every point of every output triangle is visible -/

/-- The visible part V of triangle `t`, in its barycentric plane: inside the simplex and on the
inner side of all six frustum planes. -/
def Visible (t : Tri K) (q : Pt K) : Prop :=
  InSimplex q ∧ ∀ p ∈ (planes : List (Plane K)), baryD p t q ≤ 0

/-- wa·a + wb·b + wc·c in the plane -/
def comb2 (wa wb wc : K) (a b c : Pt K) : Pt K :=
  (wa * a.1 + wb * b.1 + wc * c.1, wa * a.2 + wb * b.2 + wc * c.2)

theorem baryD_comb2 (p : Plane K) (t : Tri K) (wa wb wc : K) (a b c : Pt K) (hs : wa + wb + wc = 1) :
    baryD p t (comb2 wa wb wc a b c) = wa * baryD p t a + wb * baryD p t b + wc * baryD p t c := by
  have e : wa = 1 - wb - wc := by linarith
  subst e
  simp only [baryD, comb2]; ring

theorem inSimplex_comb2 (wa wb wc : K) (a b c : Pt K) (h0 : 0 ≤ wa) (h1 : 0 ≤ wb) (h2 : 0 ≤ wc)
    (hs : wa + wb + wc = 1) (ha : InSimplex a) (hb : InSimplex b) (hc : InSimplex c) :
    InSimplex (comb2 wa wb wc a b c) := by
  obtain ⟨a1, a2, a3⟩ := ha
  obtain ⟨b1, b2, b3⟩ := hb
  obtain ⟨c1, c2, c3⟩ := hc
  refine ⟨?_, ?_, ?_⟩
  · simp only [comb2]; positivity
  · simp only [comb2]; positivity
  · simp only [comb2]
    nlinarith [mul_nonneg h0 (sub_nonneg.mpr a3), mul_nonneg h1 (sub_nonneg.mpr b3),
      mul_nonneg h2 (sub_nonneg.mpr c3)]

/-- **P4. Exactness (2-D form).** Every convex combination of the three corners of an output
triangle is a visible point of the input triangle: in the simplex and inside all six planes. -/
theorem clip_output_subset_visible (t : Tri K) (hwf : TriWF t)
    (hlen : t.a.attr.length = t.b.attr.length ∧ t.b.attr.length = t.c.attr.length) :
    ∀ tri ∈ clipTri t, ∃ s : Tri2 K, TriRep t s tri ∧
      ∀ wa wb wc : K, 0 ≤ wa → 0 ≤ wb → 0 ≤ wc → wa + wb + wc = 1 →
        Visible t (comb2 wa wb wc s.a s.b s.c) := by
  intro tri htri
  obtain ⟨s, hs, hrep⟩ := forall₂_mem_right (rep_clipTri t hwf hlen) tri htri
  refine ⟨s, hrep, fun wa wb wc h0 h1 h2 hsum => ⟨?_, fun p hp => ?_⟩⟩
  · obtain ⟨ia, ib, ic⟩ := clipTri2_inSimplex t s hs
    exact inSimplex_comb2 wa wb wc _ _ _ h0 h1 h2 hsum ia ib ic
  · have hin := clip_inside t hwf tri htri
    have key : ∀ (c : Pt K) (v : ClipVert K), Rep t c v → v ∈ triVerts tri → baryD p t c ≤ 0 := by
      intro c v hr hv
      have := hin v hv p hp
      rwa [hr.2.1, signedDist_baryPos] at this
    rw [baryD_comb2 p t wa wb wc _ _ _ hsum]
    have ha := key _ _ hrep.1 (by simp [triVerts])
    have hb := key _ _ hrep.2.1 (by simp [triVerts])
    have hc := key _ _ hrep.2.2 (by simp [triVerts])
    nlinarith [mul_nonneg h0 (neg_nonneg.mpr ha), mul_nonneg h1 (neg_nonneg.mpr hb),
      mul_nonneg h2 (neg_nonneg.mpr hc)]

/-- `Visible` in 4-D terms: the point of `t` at coordinates `q` satisfies −w ≤ x,y,z ≤ w. -/
theorem visible_iff (t : Tri K) (q : Pt K) :
    Visible t q ↔ InSimplex q ∧ Inside (baryPos t q) := by
  simp only [Visible, Inside, signedDist_baryPos]

theorem baryPos_comb2 (t : Tri K) (wa wb wc : K) (a b c : Pt K) (hs : wa + wb + wc = 1) :
    baryPos t (comb2 wa wb wc a b c) = comb4 wa wb wc (baryPos t a) (baryPos t b) (baryPos t c) := by
  have e : wa = 1 - wb - wc := by linarith
  subst e
  simp only [baryPos, comb2, comb4, Vec4.mk.injEq]
  refine ⟨?_, ?_, ?_, ?_⟩ <;> ring

/-- **P4, 4-D form.** Every convex combination of the three positions of an output triangle is
inside the frustum and is a point of the input triangle (barycentric coordinates in the simplex). -/
theorem clip_output_subset_visible_pos (t : Tri K) (hwf : TriWF t)
    (hlen : t.a.attr.length = t.b.attr.length ∧ t.b.attr.length = t.c.attr.length) :
    ∀ tri ∈ clipTri t, ∀ wa wb wc : K, 0 ≤ wa → 0 ≤ wb → 0 ≤ wc → wa + wb + wc = 1 →
      Inside (comb4 wa wb wc tri.a.pos tri.b.pos tri.c.pos) ∧
      ∃ q : Pt K, InSimplex q ∧ comb4 wa wb wc tri.a.pos tri.b.pos tri.c.pos = baryPos t q := by
  intro tri htri wa wb wc h0 h1 h2 hsum
  obtain ⟨s, hrep, hv⟩ := clip_output_subset_visible t hwf hlen tri htri
  have hq := (visible_iff t _).mp (hv wa wb wc h0 h1 h2 hsum)
  have e : comb4 wa wb wc tri.a.pos tri.b.pos tri.c.pos = baryPos t (comb2 wa wb wc s.a s.b s.c) := by
    rw [baryPos_comb2 t wa wb wc _ _ _ hsum, hrep.1.2.1, hrep.2.1.2.1, hrep.2.2.2.1]
  exact ⟨e ▸ hq.2, _, hq.1, e⟩
