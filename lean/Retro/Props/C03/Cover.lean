/-
C03 / Cover: headline theorems about `Retro.Clip.clipTri` in the input triangle's own
barycentric plane (exact arithmetic, any linearly ordered field).

A point of the input triangle t = (A,B,C) is (1−u−v)·A + u·B + v·C; we write c = (u,v) : Pt K.
`Rep t c v`     : clip vertex v sits at coordinates c of t (position, attribute, outcode).
`TriRep t s tri`: the three vertices of output triangle `tri` sit at the corners of the 2-D
                  triangle `s : Tri2 K`.
`orient2`       : twice the signed area; the input triangle (0,0),(1,0),(0,1) has orient2 = 1.

P1 `clip_winding`   every output triangle has orient2 ≥ 0 in that plane (proved, no extra hypotheses
                    beyond those of `clip_bary`: well-formed outcodes, equal attribute lengths)
P4 `clip_output_subset_visible`  (see below)
P3 / P2 : CoverFan.lean / CoverIn.lean
-/
import Retro.Props.C03.CoverBridge

namespace Retro.Props.C03
open Retro Retro.Clip Retro.Lemmas.Clip

set_option linter.unusedSectionVars false

variable {K : Type} [Field K] [LinearOrder K] [IsStrictOrderedRing K]

/-- **P1. Winding preservation.** Every triangle emitted by `clipTri t` has, in the barycentric
plane of `t`, the same orientation as `t` itself or is degenerate: there are coordinates
`s.a s.b s.c` in the closed simplex at which its three vertices sit (position and attribute),
with `orient2 s.a s.b s.c ≥ 0`. -/
theorem clip_winding (t : Tri K) (hwf : TriWF t)
    (hlen : t.a.attr.length = t.b.attr.length ∧ t.b.attr.length = t.c.attr.length) :
    ∀ tri ∈ clipTri t, ∃ s : Tri2 K, TriRep t s tri ∧
      (InSimplex s.a ∧ InSimplex s.b ∧ InSimplex s.c) ∧ 0 ≤ orient2 s.a s.b s.c := by
  intro tri htri
  obtain ⟨s, hs, hrep⟩ := forall₂_mem_right (rep_clipTri t hwf hlen) tri htri
  exact ⟨s, hrep, clipTri2_inSimplex t s hs, clipTri2_orient t s hs⟩

/-- The whole clipped polygon (before the fan) is weakly convex and counter-clockwise: every
index-ordered triple of its vertices has `orient2 ≥ 0`, not only the fan triples. -/
theorem clip_polygon_conv (t : Tri K) (hwf : TriWF t)
    (hlen : t.a.attr.length = t.b.attr.length ∧ t.b.attr.length = t.c.attr.length) :
    ∃ cs : List (Pt K), List.Forall₂ (Rep t) cs (clipPolygon planes (triVerts t)) ∧ Conv cs ∧
      ∀ c ∈ cs, InSimplex c :=
  ⟨clipAll2 t planes simplex3,
    by rw [clipPolygon_planes]; exact rep_clipAll t planes (fun p hp => hp) _ _ (rep_simplex3 t hwf hlen),
    conv_clipAll2_simplex t, inSimplex_clipAll2 t planes simplex3 inSimplex_simplex3⟩

/-- hypotheses of `clip_winding` are satisfiable, and the conclusion is not vacuous: the
triangle of the C03 example yields two output triangles -/
example : TriWF (K := Rat) ⟨mkVert ⟨0, 0, 0, 1⟩ [1], mkVert ⟨2, 0, 0, 1⟩ [3], mkVert ⟨0, 1, 0, 1⟩ [5]⟩ :=
  ⟨mkVert_wf _ _, mkVert_wf _ _, mkVert_wf _ _⟩
