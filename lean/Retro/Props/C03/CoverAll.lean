/-
C03 / Cover, P2: no inside point is lost — assembly over the six planes and the bridge to
`clipTri`. See `clip_covers` at the end for the statement and its (necessary) hypothesis.
-/
import Retro.Props.C03.CoverStep
import Retro.Props.C03.CoverFan
import Mathlib.Data.Nat.Bitwise
import Mathlib.Tactic.IntervalCases

namespace Retro.Props.C03
open Retro Retro.Clip Retro.Lemmas.Clip

set_option linter.unusedSectionVars false

variable {K : Type} [Field K] [LinearOrder K] [IsStrictOrderedRing K]

theorem isAff_baryD (p : Plane K) (t : Tri K) : IsAff (baryD p t) :=
  ⟨signedDist p t.a.pos, signedDist p t.b.pos - signedDist p t.a.pos,
    signedDist p t.c.pos - signedDist p t.a.pos, fun c => by simp only [baryD]; ring⟩

/-- the plane loop keeps: non-empty, strict witness inside, weak point inside -/
theorem cover_clipAll2 (t : Tri K) (q0 q : Pt K) (ps : List (Plane K))
    (hq0 : ∀ p ∈ ps, baryD p t q0 < 0) (hq : ∀ p ∈ ps, baryD p t q ≤ 0) :
    ∀ cs : List (Pt K), cs ≠ [] → Conv cs → Cyc (Es q0) cs → Cyc (Ew q) cs →
      clipAll2 t ps cs ≠ [] ∧ Cyc (Es q0) (clipAll2 t ps cs) ∧ Cyc (Ew q) (clipAll2 t ps cs) := by
  induction ps with
  | nil => intro cs hne _ h0 h; exact ⟨hne, h0, h⟩
  | cons p ps ih =>
    intro cs hne hconv h0 h
    have hD := isAff_baryD p t
    have hp0 := hq0 p (by simp)
    obtain ⟨s1, s2⟩ := step_strict _ hD q0 hp0 cs hne hconv h0
    have s3 := step_weak _ hD q0 hp0 cs hne hconv h0 q (hq p (by simp)) h
    exact ih (fun r hr => hq0 r (List.mem_cons_of_mem _ hr))
      (fun r hr => hq r (List.mem_cons_of_mem _ hr)) _ s2 (conv_clipPlane2 _ cs hconv) s1 s3

/-- strictly inside the simplex: all three barycentric coordinates positive -/
def InOpenSimplex (c : Pt K) : Prop := 0 < c.1 ∧ 0 < c.2 ∧ c.1 + c.2 < 1

theorem cyc_simplex3_strict (q0 : Pt K) (h : InOpenSimplex q0) : Cyc (Es q0) simplex3 := by
  obtain ⟨h1, h2, h3⟩ := h
  simp only [simplex3, Cyc, List.cons_append, List.nil_append, List.isChain_cons_cons,
    List.isChain_singleton, and_true, Es, orient2]
  refine ⟨?_, ?_, ?_⟩ <;> linarith

theorem cyc_simplex3_weak (q : Pt K) (h : InSimplex q) : Cyc (Ew q) simplex3 := by
  obtain ⟨h1, h2, h3⟩ := h
  simp only [simplex3, Cyc, List.cons_append, List.nil_append, List.isChain_cons_cons,
    List.isChain_singleton, and_true, Ew, orient2]
  refine ⟨?_, ?_, ?_⟩ <;> linarith

theorem ocOf_lt (d0 d1 d2 d3 d4 d5 : K) : ocOf d0 d1 d2 d3 d4 d5 < 64 := by
  unfold ocOf
  by_cases h0 : 0 < d0 <;> by_cases h1 : 0 < d1 <;> by_cases h2 : 0 < d2 <;>
  by_cases h3 : 0 < d3 <;> by_cases h4 : 0 < d4 <;> by_cases h5 : 0 < d5 <;>
  simp only [h0, h1, h2, h3, h4, h5, if_true, if_false] <;> decide

/-- a set outcode bit of a well-formed vertex names a frustum plane it is strictly outside of -/
theorem wf_testBit_out (v : ClipVert K) (hwf : WF v) (k : Nat) (h : v.oc.testBit k = true) :
    k < 6 ∧ ∀ p ∈ (planes : List (Plane K)).drop k |>.head?, 0 < signedDist p v.pos := by
  have hlt : k < 6 := by
    by_contra hk
    rw [not_lt] at hk
    have h64 : v.oc < 2 ^ k := by
      rw [hwf, outcode_eq]
      exact lt_of_lt_of_le (ocOf_lt _ _ _ _ _ _) (by
        calc 64 = 2 ^ 6 := by norm_num
          _ ≤ 2 ^ k := Nat.pow_le_pow_right (by norm_num) hk)
    rw [Nat.testBit_lt_two_pow h64] at h
    cases h
  refine ⟨hlt, ?_⟩
  obtain ⟨h0, h1, h2, h3, h4, h5⟩ := ocOf_testBit (signedDist P0 v.pos) (signedDist P1 v.pos)
    (signedDist P2 v.pos) (signedDist P3 v.pos) (signedDist P4 v.pos) (signedDist P5 v.pos)
  rw [hwf, outcode_eq] at h
  rw [planes_eq]
  interval_cases k
  · rw [h0] at h; simpa using h
  · rw [h1] at h; simpa using h
  · rw [h2] at h; simpa using h
  · rw [h3] at h; simpa using h
  · rw [h4] at h; simpa using h
  · rw [h5] at h; simpa using h

/-- trivially rejected ⇒ some frustum plane has all three vertices strictly outside -/
theorem hidden_common_plane (t : Tri K) (hwf : TriWF t) (hs : status [t.a, t.b, t.c] = .hidden) :
    ∃ p ∈ (planes : List (Plane K)), 0 < signedDist p t.a.pos ∧ 0 < signedDist p t.b.pos ∧
      0 < signedDist p t.c.pos := by
  have hne : (((255 &&& t.a.oc) &&& t.b.oc) &&& t.c.oc) ≠ 0 := by
    intro h0
    simp [status, h0] at hs
    split at hs <;> cases hs
  obtain ⟨k, hk⟩ := Nat.exists_testBit_of_ne_zero hne
  simp only [Nat.testBit_and, Bool.and_eq_true] at hk
  obtain ⟨⟨⟨_, ka⟩, kb⟩, kc⟩ := hk
  obtain ⟨hlt, ha⟩ := wf_testBit_out t.a hwf.1 k ka
  obtain ⟨_, hb⟩ := wf_testBit_out t.b hwf.2.1 k kb
  obtain ⟨_, hc⟩ := wf_testBit_out t.c hwf.2.2 k kc
  have hlen : k < (planes : List (Plane K)).length := by rw [planes_eq]; simpa using hlt
  have hhead : ((planes : List (Plane K)).drop k).head? = some ((planes : List (Plane K))[k]) := by
    rw [List.head?_drop, List.getElem?_eq_getElem hlen]
  refine ⟨(planes : List (Plane K))[k], List.getElem_mem hlen, ha _ ?_, hb _ ?_, hc _ ?_⟩ <;>
    rw [hhead] <;> rfl

theorem forall₂_mem_left {α β : Type} {R : α → β → Prop} {l1 : List α} {l2 : List β}
    (h : List.Forall₂ R l1 l2) : ∀ x ∈ l1, ∃ y ∈ l2, R x y := by
  induction h with
  | nil => simp
  | cons h0 _ ih =>
    intro x hx
    rcases List.mem_cons.mp hx with rfl | hx
    · exact ⟨_, by simp, h0⟩
    · obtain ⟨y, hy, hr⟩ := ih x hx
      exact ⟨y, List.mem_cons_of_mem _ hy, hr⟩

/-- an affine function positive at the three corners is positive on the simplex -/
theorem baryD_pos (p : Plane K) (t : Tri K) (q : Pt K) (hq : InSimplex q)
    (ha : 0 < signedDist p t.a.pos) (hb : 0 < signedDist p t.b.pos) (hc : 0 < signedDist p t.c.pos) :
    0 < baryD p t q := by
  obtain ⟨h1, h2, h3⟩ := hq
  unfold baryD
  rcases h1.lt_or_eq with hu | hu
  · have := mul_pos hu hb
    nlinarith [mul_nonneg (sub_nonneg.mpr h3) ha.le, mul_nonneg h2 hc.le]
  · rcases h2.lt_or_eq with hv | hv
    · have := mul_pos hv hc
      nlinarith [mul_nonneg (sub_nonneg.mpr h3) ha.le, mul_nonneg h1 hb.le]
    · rw [← hu, ← hv]; simpa using ha

/-- 2-D form of coverage -/
theorem clipTri2_covers (t : Tri K) (hwf : TriWF t) (q0 : Pt K) (h0 : InOpenSimplex q0)
    (h0D : ∀ p ∈ (planes : List (Plane K)), baryD p t q0 < 0) (q : Pt K) (hq : Visible t q) :
    ∃ s ∈ clipTri2 t, WeakIn q s := by
  unfold clipTri2
  cases hs : status [t.a, t.b, t.c] with
  | visible =>
    obtain ⟨h1, h2, h3⟩ := hq.1
    refine ⟨⟨(0, 0), (1, 0), (0, 1)⟩, by simp, ?_, ?_, ?_⟩ <;> simp only [orient2] <;> linarith
  | hidden =>
    exfalso
    obtain ⟨p, hp, ha, hb, hc⟩ := hidden_common_plane t hwf hs
    exact absurd (baryD_pos p t q hq.1 ha hb hc) (not_lt.mpr (hq.2 p hp))
  | clipped =>
    simp only
    obtain ⟨hne, hs0, hsw⟩ := cover_clipAll2 t q0 q planes h0D hq.2 simplex3 (by simp [simplex3])
      conv_simplex3 (cyc_simplex3_strict q0 h0) (cyc_simplex3_weak q hq.1)
    obtain ⟨a, e0, e1, l, hl⟩ := three_of_strict q0 _ hne hs0
    rw [hl] at hsw ⊢
    exact fan_cover a e0 (e1 :: l) (by simp) q hsw

/-- For a non-degenerate triangle the three weak edge tests are genuine membership: the point is
a convex combination of the corners. -/
theorem weakIn_hull (q : Pt K) (s : Tri2 K) (hpos : 0 < orient2 s.a s.b s.c) (h : WeakIn q s) :
    ∃ wa wb wc : K, 0 ≤ wa ∧ 0 ≤ wb ∧ 0 ≤ wc ∧ wa + wb + wc = 1 ∧ q = comb2 wa wb wc s.a s.b s.c := by
  obtain ⟨h1, h2, h3⟩ := h
  have hT := hpos.ne'
  refine ⟨orient2 s.b s.c q / orient2 s.a s.b s.c, orient2 s.c s.a q / orient2 s.a s.b s.c,
    orient2 s.a s.b q / orient2 s.a s.b s.c, div_nonneg h2 hpos.le, div_nonneg h3 hpos.le,
    div_nonneg h1 hpos.le, ?_, ?_⟩
  · rw [← add_div, ← add_div, div_eq_one_iff_eq hT, ← orient2_sum s.a s.b s.c q]; ring
  · apply Prod.ext
    · simp only [comb2]; field_simp; simp only [orient2]; ring
    · simp only [comb2]; field_simp; simp only [orient2]; ring

/-- **P2. No inside point is lost.** Assume the visible part V of the triangle has non-empty
interior in the triangle's barycentric plane: some point `q0` of the open simplex is strictly inside
all six frustum planes. Then every visible point `q` (closed simplex, all six `D ≤ 0`, boundary
included) lies in the closed 2-D triangle `s` of some output triangle `tri ∈ clipTri t`
(`WeakIn`: the three edge tests `orient2 ≥ 0`; by `clip_winding` `s` is counter-clockwise or
degenerate, and by `weakIn_hull` the tests mean convex-hull membership when `s` is not degenerate).

The hypothesis is necessary and excludes exactly the inputs whose visible part is empty, a point
or a segment (a triangle touching the frustum from outside in a vertex or along an edge, or a
degenerate sliver lying in a frustum plane): there the clipper emits nothing or only degenerate
triangles, see the `example` after this theorem. No 2-D area is lost in those cases.
Full-strength statement without the hypothesis: FALSE (counter-example below). -/
theorem clip_covers (t : Tri K) (hwf : TriWF t)
    (hlen : t.a.attr.length = t.b.attr.length ∧ t.b.attr.length = t.c.attr.length)
    (hnd : ∃ q0 : Pt K, InOpenSimplex q0 ∧ ∀ p ∈ (planes : List (Plane K)), baryD p t q0 < 0) :
    ∀ q : Pt K, Visible t q → ∃ tri ∈ clipTri t, ∃ s : Tri2 K, TriRep t s tri ∧ WeakIn q s := by
  intro q hq
  obtain ⟨q0, h0, h0D⟩ := hnd
  obtain ⟨s, hs, hw⟩ := clipTri2_covers t hwf q0 h0 h0D q hq
  obtain ⟨tri, htri, hrep⟩ := forall₂_mem_left (rep_clipTri t hwf hlen) s hs
  exact ⟨tri, htri, s, hrep, hw⟩

/-- In particular a non-degenerately visible triangle is never dropped. -/
theorem clip_nonempty (t : Tri K) (hwf : TriWF t)
    (hlen : t.a.attr.length = t.b.attr.length ∧ t.b.attr.length = t.c.attr.length)
    (hnd : ∃ q0 : Pt K, InOpenSimplex q0 ∧ ∀ p ∈ (planes : List (Plane K)), baryD p t q0 < 0) :
    clipTri t ≠ [] := by
  obtain ⟨q0, h0, h0D⟩ := hnd
  have hv : Visible t q0 := ⟨⟨h0.1.le, h0.2.1.le, h0.2.2.le⟩, fun p hp => (h0D p hp).le⟩
  obtain ⟨tri, htri, _⟩ := clip_covers t hwf hlen ⟨q0, h0, h0D⟩ q0 hv
  exact List.ne_nil_of_mem htri
