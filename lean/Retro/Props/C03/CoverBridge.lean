/-
C03 / Cover, part 3: the bridge from the model's clipper to the 2-D clipper.

`Rep t c v` : the clip vertex `v` is the point of triangle `t` with barycentric coordinates
(1−u−v, u, v), (u,v) = c — position and attribute alike — and carries a consistent outcode.
Running `clipPlane p` on represented vertices is running `clipPlane2 (baryD p t)` on their
coordinates (`rep_clipPlane`), so every statement about 2-D polygons transfers.
-/
import Retro.Props.C03.CoverClip2

namespace Retro.Props.C03
open Retro Retro.Clip Retro.Lemmas.Clip

set_option linter.unusedSectionVars false

variable {K : Type} [Field K] [LinearOrder K] [IsStrictOrderedRing K]

/-- signed distance to plane `p` as an affine function on the barycentric plane of `t` -/
def baryD (p : Plane K) (t : Tri K) (c : Pt K) : K :=
  (1 - c.1 - c.2) * signedDist p t.a.pos + c.1 * signedDist p t.b.pos + c.2 * signedDist p t.c.pos

def baryPos (t : Tri K) (c : Pt K) : Vec4 K :=
  comb4 (1 - c.1 - c.2) c.1 c.2 t.a.pos t.b.pos t.c.pos

def baryAttr (t : Tri K) (c : Pt K) : List K :=
  combL (1 - c.1 - c.2) c.1 c.2 t.a.attr t.b.attr t.c.attr

/-- `v` is the point of `t` at barycentric coordinates `c` -/
def Rep (t : Tri K) (c : Pt K) (v : ClipVert K) : Prop :=
  WF v ∧ v.pos = baryPos t c ∧ v.attr = baryAttr t c

theorem signedDist_baryPos (p : Plane K) (t : Tri K) (c : Pt K) :
    signedDist p (baryPos t c) = baryD p t c := by
  simp only [signedDist, baryPos, comb4, baryD, dot4]; ring

theorem baryPos_lerp (t : Tri K) (c0 c1 : Pt K) (s : K) :
    baryPos t (lerpPt c0 c1 s) = lerpPos (baryPos t c0) (baryPos t c1) s := by
  simp only [baryPos, lerpPt, lerpPos, comb4, lerp, Vec4.mk.injEq]
  refine ⟨?_, ?_, ?_, ?_⟩ <;> ring

theorem baryAttr_lerp (t : Tri K) (c0 c1 : Pt K) (s : K) :
    baryAttr t (lerpPt c0 c1 s) = lerpL (baryAttr t c0) (baryAttr t c1) s := by
  simp only [baryAttr, lerpL_combL, lerpPt]
  congr 1
  simp only [lerp]; ring

theorem baryD_lerp (p : Plane K) (t : Tri K) (c0 c1 : Pt K) (s : K) :
    baryD p t (lerpPt c0 c1 s) = lerp (baryD p t c0) (baryD p t c1) s := by
  simp only [baryD, lerpPt, lerp]; ring

theorem rep_crossing (t : Tri K) (p : Plane K) (c0 c1 : Pt K) (v0 v1 : ClipVert K)
    (h0 : Rep t c0 v0) (h1 : Rep t c1 v1) :
    Rep t (lerpPt c0 c1 (crossT (baryD p t c0) (baryD p t c1))) (crossing p v0 v1) := by
  obtain ⟨_, hp0, ha0⟩ := h0
  obtain ⟨_, hp1, ha1⟩ := h1
  refine ⟨mkVert_wf _ _, ?_, ?_⟩
  · simp only [crossing, mkVert, hp0, hp1, signedDist_baryPos, baryPos_lerp, crossT]
  · simp only [crossing, mkVert, hp0, hp1, ha0, ha1, signedDist_baryPos, baryAttr_lerp, crossT]

theorem rep_clipEdge (t : Tri K) (p : Plane K) (hp : p ∈ (planes : List (Plane K)))
    (c0 c1 : Pt K) (v0 v1 : ClipVert K) (h0 : Rep t c0 v0) (h1 : Rep t c1 v1) :
    List.Forall₂ (Rep t) (clipEdge2 (baryD p t) c0 c1) (clipEdge p v0 v1) := by
  have e0 : signedDist p v0.pos = baryD p t c0 := by rw [h0.2.1, signedDist_baryPos]
  have e1 : signedDist p v1.pos = baryD p t c1 := by rw [h1.2.1, signedDist_baryPos]
  have hin : isInside p v0 = true ↔ baryD p t c0 ≤ 0 := by rw [isInside_iff p hp v0 h0.1, e0]
  have hx := rep_crossing t p c0 c1 v0 v1 h0 h1
  unfold clipEdge clipEdge2 cross2
  simp only [e0, e1]
  by_cases hi : baryD p t c0 ≤ 0 <;> by_cases hc : baryD p t c0 * baryD p t c1 < 0
  · simp [hi, hc, hin.mpr hi, h0, hx]
  · simp [hi, hc, hin.mpr hi, h0]
  · have : isInside p v0 = false := by
      rw [← Bool.not_eq_true]; exact fun h => hi (hin.mp h)
    simp [hi, hc, this, hx]
  · have : isInside p v0 = false := by
      rw [← Bool.not_eq_true]; exact fun h => hi (hin.mp h)
    simp [hi, hc, this]

theorem rep_clipEdges (t : Tri K) (p : Plane K) (hp : p ∈ (planes : List (Plane K)))
    (cf : Pt K) (vf : ClipVert K) (hf : Rep t cf vf) (cs : List (Pt K)) (vs : List (ClipVert K))
    (h : List.Forall₂ (Rep t) cs vs) :
    List.Forall₂ (Rep t) (clipEdges2 (baryD p t) cf cs) (clipEdges p vf vs) := by
  induction h with
  | nil => exact List.Forall₂.nil
  | cons h0 hrest ih =>
    cases hrest with
    | nil => exact rep_clipEdge t p hp _ _ _ _ h0 hf
    | cons h1 hrest' =>
      exact List.rel_append (rep_clipEdge t p hp _ _ _ _ h0 h1) ih

/-- **The model's per-plane clip is the 2-D clip on barycentric coordinates.** -/
theorem rep_clipPlane (t : Tri K) (p : Plane K) (hp : p ∈ (planes : List (Plane K)))
    (cs : List (Pt K)) (vs : List (ClipVert K)) (h : List.Forall₂ (Rep t) cs vs) :
    List.Forall₂ (Rep t) (clipPlane2 (baryD p t) cs) (clipPlane p vs) := by
  cases h with
  | nil => exact List.Forall₂.nil
  | cons h0 hrest => exact rep_clipEdges t p hp _ _ h0 _ _ (List.Forall₂.cons h0 hrest)

/-- the plane loop on coordinates -/
def clipAll2 (t : Tri K) (ps : List (Plane K)) (cs : List (Pt K)) : List (Pt K) :=
  ps.foldl (fun acc p => clipPlane2 (baryD p t) acc) cs

theorem rep_clipAll (t : Tri K) (ps : List (Plane K)) (hps : ∀ p ∈ ps, p ∈ (planes : List (Plane K))) :
    ∀ (cs : List (Pt K)) (vs : List (ClipVert K)), List.Forall₂ (Rep t) cs vs →
      List.Forall₂ (Rep t) (clipAll2 t ps cs) (clipAll ps vs) := by
  induction ps with
  | nil => intro cs vs h; exact h
  | cons p ps ih =>
    intro cs vs h
    exact ih (fun q hq => hps q (List.mem_cons_of_mem _ hq)) _ _
      (rep_clipPlane t p (hps p (by simp)) cs vs h)

theorem conv_clipAll2 (t : Tri K) (ps : List (Plane K)) :
    ∀ cs : List (Pt K), Conv cs → Conv (clipAll2 t ps cs) := by
  induction ps with
  | nil => intro cs h; exact h
  | cons p ps ih => intro cs h; exact ih _ (conv_clipPlane2 _ cs h)

/-- the input triangle in its own barycentric plane -/
def simplex3 : List (Pt K) := [(0, 0), (1, 0), (0, 1)]

theorem conv_simplex3 : Conv (simplex3 : List (Pt K)) := by
  simp [simplex3, conv_cons, orient2]

/-- Input vertices represent the corners of the simplex (needs equal attribute lengths, as
`clip_bary` does, because `combL` truncates to the shortest list). -/
theorem rep_simplex3 (t : Tri K) (hwf : TriWF t)
    (hlen : t.a.attr.length = t.b.attr.length ∧ t.b.attr.length = t.c.attr.length) :
    List.Forall₂ (Rep t) simplex3 (triVerts t) := by
  obtain ⟨c1, c2, c3⟩ := combL_one t.a.attr t.b.attr t.c.attr hlen.1 hlen.2
  refine List.Forall₂.cons ⟨hwf.1, ?_, ?_⟩ (List.Forall₂.cons ⟨hwf.2.1, ?_, ?_⟩
    (List.Forall₂.cons ⟨hwf.2.2, ?_, ?_⟩ List.Forall₂.nil))
  · simp [baryPos, comb4]
  · simpa [baryAttr] using c1.symm
  · simp [baryPos, comb4]
  · simpa [baryAttr] using c2.symm
  · simp [baryPos, comb4]
  · simpa [baryAttr] using c3.symm

/-! ### Triangles of the barycentric plane and the fan -/

structure Tri2 (K : Type) where
  a : Pt K
  b : Pt K
  c : Pt K

def fan2 (a : Pt K) : List (Pt K) → List (Tri2 K)
  | e0 :: e1 :: rest => ⟨a, e0, e1⟩ :: fan2 a (e1 :: rest)
  | _ => []

def TriRep (t : Tri K) (s : Tri2 K) (tri : Tri K) : Prop :=
  Rep t s.a tri.a ∧ Rep t s.b tri.b ∧ Rep t s.c tri.c

theorem rep_fan (t : Tri K) (ca : Pt K) (va : ClipVert K) (ha : Rep t ca va)
    (cs : List (Pt K)) (vs : List (ClipVert K)) (h : List.Forall₂ (Rep t) cs vs) :
    List.Forall₂ (TriRep t) (fan2 ca cs) (fan va vs) := by
  induction h with
  | nil => exact List.Forall₂.nil
  | cons h0 hrest ih =>
    cases hrest with
    | nil => exact List.Forall₂.nil
    | cons h1 hrest' => exact List.Forall₂.cons ⟨ha, h0, h1⟩ ih

/-- The coordinates of the output of `clipTri t`, computed entirely in the barycentric plane
(only the trivial accept/reject test reads the stored outcodes). -/
def clipTri2 (t : Tri K) : List (Tri2 K) :=
  match status [t.a, t.b, t.c] with
  | .visible => [⟨(0, 0), (1, 0), (0, 1)⟩]
  | .hidden => []
  | .clipped =>
    match clipAll2 t planes simplex3 with
    | [] => []
    | a :: rest => fan2 a rest

theorem clipPolygon_planes (vs : List (ClipVert K)) :
    clipPolygon planes vs = clipAll planes vs := by
  rw [clipPolygon_eq, planes_eq]; simp

/-- **`clipTri t` is, vertex for vertex, the 2-D fan `clipTri2 t`.** -/
theorem rep_clipTri (t : Tri K) (hwf : TriWF t)
    (hlen : t.a.attr.length = t.b.attr.length ∧ t.b.attr.length = t.c.attr.length) :
    List.Forall₂ (TriRep t) (clipTri2 t) (clipTri t) := by
  have h3 := rep_simplex3 t hwf hlen
  unfold clipTri clipTri2
  cases hs : status [t.a, t.b, t.c] with
  | visible =>
    simp only [simplex3, triVerts, List.forall₂_cons, List.forall₂_nil_left_iff, and_true] at h3
    exact List.Forall₂.cons ⟨h3.1, h3.2.1, h3.2.2⟩ List.Forall₂.nil
  | hidden => exact List.Forall₂.nil
  | clipped =>
    simp only
    have hall := rep_clipAll t planes (fun p hp => hp) _ _ h3
    rw [clipPolygon_planes]
    change List.Forall₂ (Rep t) (clipAll2 t planes simplex3) (clipAll planes [t.a, t.b, t.c]) at hall
    generalize clipAll2 t planes simplex3 = cs at hall ⊢
    generalize clipAll planes [t.a, t.b, t.c] = vs at hall ⊢
    cases hall with
    | nil => exact List.Forall₂.nil
    | cons h0 hrest => exact rep_fan t _ _ h0 _ _ hrest

theorem fan2_orient (a : Pt K) (l : List (Pt K)) (h : Conv (a :: l)) :
    ∀ s ∈ fan2 a l, 0 ≤ orient2 s.a s.b s.c := by
  induction l with
  | nil => simp [fan2]
  | cons e0 l ih =>
    cases l with
    | nil => simp [fan2]
    | cons e1 l =>
      intro s hs
      simp only [fan2, List.mem_cons] at hs
      rcases hs with rfl | hs
      · exact (List.pairwise_cons.mp h.1).1 e1 (by simp)
      · exact ih (Conv.sublist (by simp) h) s hs

/-- the polygon `clipTri2 t` fans out, when the triangle is neither accepted nor rejected -/
theorem conv_clipAll2_simplex (t : Tri K) : Conv (clipAll2 t planes simplex3) :=
  conv_clipAll2 t planes _ conv_simplex3

/-- 2-D form of winding preservation -/
theorem clipTri2_orient (t : Tri K) : ∀ s ∈ clipTri2 t, 0 ≤ orient2 s.a s.b s.c := by
  unfold clipTri2
  cases status [t.a, t.b, t.c] with
  | visible => intro s hs; simp only [List.mem_singleton] at hs; subst hs; simp [orient2]
  | hidden => simp
  | clipped =>
    simp only
    have hc := conv_clipAll2_simplex t
    cases hl : clipAll2 t planes simplex3 with
    | nil => simp
    | cons a rest => rw [hl] at hc; exact fan2_orient a rest hc

/-! ### Coordinates stay in the simplex -/

theorem inSimplex_clipAll2 (t : Tri K) (ps : List (Plane K)) :
    ∀ cs : List (Pt K), (∀ c ∈ cs, InSimplex c) → ∀ c ∈ clipAll2 t ps cs, InSimplex c := by
  induction ps with
  | nil => intro cs h; exact h
  | cons p ps ih =>
    intro cs h
    exact ih _ (clipPlane2_preserves InSimplex _ inSimplex_lerp cs h)

theorem inSimplex_simplex3 : ∀ c ∈ (simplex3 : List (Pt K)), InSimplex c := by
  intro c hc
  simp only [simplex3, List.mem_cons, List.mem_nil_iff, or_false] at hc
  rcases hc with rfl | rfl | rfl <;> simp [InSimplex]

theorem mem_fan2 (a : Pt K) (l : List (Pt K)) (s : Tri2 K) (h : s ∈ fan2 a l) :
    s.a = a ∧ s.b ∈ l ∧ s.c ∈ l := by
  induction l with
  | nil => simp [fan2] at h
  | cons e0 l ih =>
    cases l with
    | nil => simp [fan2] at h
    | cons e1 l =>
      simp only [fan2, List.mem_cons] at h
      rcases h with rfl | h
      · simp
      · obtain ⟨h1, h2, h3⟩ := ih (by simpa [List.mem_cons] using h)
        exact ⟨h1, List.mem_cons_of_mem _ h2, List.mem_cons_of_mem _ h3⟩

theorem clipTri2_inSimplex (t : Tri K) :
    ∀ s ∈ clipTri2 t, InSimplex s.a ∧ InSimplex s.b ∧ InSimplex s.c := by
  unfold clipTri2
  cases status [t.a, t.b, t.c] with
  | visible => intro s hs; simp only [List.mem_singleton] at hs; subst hs; simp [InSimplex]
  | hidden => simp
  | clipped =>
    simp only
    have hc := inSimplex_clipAll2 t planes simplex3 inSimplex_simplex3
    cases hl : clipAll2 t planes simplex3 with
    | nil => simp
    | cons a rest =>
      rw [hl] at hc
      intro s hs
      obtain ⟨h1, h2, h3⟩ := mem_fan2 a rest s hs
      exact ⟨h1 ▸ hc a (by simp), hc _ (List.mem_cons_of_mem _ h2), hc _ (List.mem_cons_of_mem _ h3)⟩

theorem forall₂_mem_right {α β : Type} {R : α → β → Prop} {l1 : List α} {l2 : List β}
    (h : List.Forall₂ R l1 l2) : ∀ y ∈ l2, ∃ x ∈ l1, R x y := by
  induction h with
  | nil => simp
  | cons h0 _ ih =>
    intro y hy
    rcases List.mem_cons.mp hy with rfl | hy
    · exact ⟨_, by simp, h0⟩
    · obtain ⟨x, hx, hr⟩ := ih y hy
      exact ⟨x, List.mem_cons_of_mem _ hx, hr⟩
