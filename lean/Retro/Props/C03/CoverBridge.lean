/-
C03 / Cover, part 3: the bridge from the model's clipper to the 2-D clipper.

`Rep t c v` : the clip vertex `v` is the point of triangle `t` with barycentric coordinates
(1−u−v, u, v), (u,v) = c — position and attribute alike — and carries a consistent outcode.
Running `clipPlane p` on represented vertices is running `clipPlane2 (baryD p t)` on their
coordinates (`rep_clipPlane`), so every statement about 2-D polygons transfers.
-/
import Retro.Props.C03.CoverClip2

namespace Retro.Props.C03
open Retro Retro.Clip Retro.Lemmas.Clip

set_option linter.unusedSectionVars false

variable {K : Type} [Field K] [LinearOrder K] [IsStrictOrderedRing K]

/-- signed distance to plane `p` as an affine function on the barycentric plane of `t` -/
def baryD (p : Plane K) (t : Tri K) (c : Pt K) : K :=
  (1 - c.1 - c.2) * signedDist p t.a.pos + c.1 * signedDist p t.b.pos + c.2 * signedDist p t.c.pos

def baryPos (t : Tri K) (c : Pt K) : Vec4 K :=
  comb4 (1 - c.1 - c.2) c.1 c.2 t.a.pos t.b.pos t.c.pos

def baryAttr (t : Tri K) (c : Pt K) : List K :=
  combL (1 - c.1 - c.2) c.1 c.2 t.a.attr t.b.attr t.c.attr

/-- `v` is the point of `t` at barycentric coordinates `c` -/
def Rep (t : Tri K) (c : Pt K) (v : ClipVert K) : Prop :=
  WF v ∧ v.pos = baryPos t c ∧ v.attr = baryAttr t c

theorem signedDist_baryPos (p : Plane K) (t : Tri K) (c : Pt K) :
    signedDist p (baryPos t c) = baryD p t c := by
  simp only [signedDist, baryPos, comb4, baryD, dot4]; ring

theorem baryPos_lerp (t : Tri K) (c0 c1 : Pt K) (s : K) :
    baryPos t (lerpPt c0 c1 s) = lerpPos (baryPos t c0) (baryPos t c1) s := by
  simp only [baryPos, lerpPt, lerpPos, comb4, lerp, Vec4.mk.injEq]
  refine ⟨?_, ?_, ?_, ?_⟩ <;> ring

theorem baryAttr_lerp (t : Tri K) (c0 c1 : Pt K) (s : K) :
    baryAttr t (lerpPt c0 c1 s) = lerpL (baryAttr t c0) (baryAttr t c1) s := by
  simp only [baryAttr, lerpL_combL, lerpPt]
  congr 1
  simp only [lerp]; ring

theorem baryD_lerp (p : Plane K) (t : Tri K) (c0 c1 : Pt K) (s : K) :
    baryD p t (lerpPt c0 c1 s) = lerp (baryD p t c0) (baryD p t c1) s := by
  simp only [baryD, lerpPt, lerp]; ring

theorem rep_crossing (t : Tri K) (p : Plane K) (c0 c1 : Pt K) (v0 v1 : ClipVert K)
    (h0 : Rep t c0 v0) (h1 : Rep t c1 v1) :
    Rep t (lerpPt c0 c1 (crossT (baryD p t c0) (baryD p t c1))) (crossing p v0 v1) := by
  obtain ⟨_, hp0, ha0⟩ := h0
  obtain ⟨_, hp1, ha1⟩ := h1
  refine ⟨mkVert_wf _ _, ?_, ?_⟩
  · simp only [crossing, mkVert, hp0, hp1, signedDist_baryPos, baryPos_lerp, crossT]
  · simp only [crossing, mkVert, hp0, hp1, ha0, ha1, signedDist_baryPos, baryAttr_lerp, crossT]

theorem rep_clipEdge (t : Tri K) (p : Plane K) (hp : p ∈ (planes : List (Plane K)))
    (c0 c1 : Pt K) (v0 v1 : ClipVert K) (h0 : Rep t c0 v0) (h1 : Rep t c1 v1) :
    List.Forall₂ (Rep t) (clipEdge2 (baryD p t) c0 c1) (clipEdge p v0 v1) := by
  have e0 : signedDist p v0.pos = baryD p t c0 := by rw [h0.2.1, signedDist_baryPos]
  have e1 : signedDist p v1.pos = baryD p t c1 := by rw [h1.2.1, signedDist_baryPos]
  have hin : isInside p v0 = true ↔ baryD p t c0 ≤ 0 := by rw [isInside_iff p hp v0 h0.1, e0]
  have hx := rep_crossing t p c0 c1 v0 v1 h0 h1
  unfold clipEdge clipEdge2 cross2
  simp only [e0, e1]
  by_cases hi : baryD p t c0 ≤ 0 <;> by_cases hc : baryD p t c0 * baryD p t c1 < 0
  · simp [hi, hc, hin.mpr hi, h0, hx]
  · simp [hi, hc, hin.mpr hi, h0]
  · have : isInside p v0 = false := by
      rw [← Bool.not_eq_true]; exact fun h => hi (hin.mp h)
    simp [hi, hc, this, hx]
  · have : isInside p v0 = false := by
      rw [← Bool.not_eq_true]; exact fun h => hi (hin.mp h)
    simp [hi, hc, this]

theorem rep_clipEdges (t : Tri K) (p : Plane K) (hp : p ∈ (planes : List (Plane K)))
    (cf : Pt K) (vf : ClipVert K) (hf : Rep t cf vf) (cs : List (Pt K)) (vs : List (ClipVert K))
    (h : List.Forall₂ (Rep t) cs vs) :
    List.Forall₂ (Rep t) (clipEdges2 (baryD p t) cf cs) (clipEdges p vf vs) := by
  induction h with
  | nil => exact List.Forall₂.nil
  | cons h0 hrest ih =>
    cases hrest with
    | nil => exact rep_clipEdge t p hp _ _ _ _ h0 hf
    | cons h1 hrest' =>
      exact List.rel_append (rep_clipEdge t p hp _ _ _ _ h0 h1) ih

/-- **The model's per-plane clip is the 2-D clip on barycentric coordinates.** -/
theorem rep_clipPlane (t : Tri K) (p : Plane K) (hp : p ∈ (planes : List (Plane K)))
    (cs : List (Pt K)) (vs : List (ClipVert K)) (h : List.Forall₂ (Rep t) cs vs) :
    List.Forall₂ (Rep t) (clipPlane2 (baryD p t) cs) (clipPlane p vs) := by
  cases h with
  | nil => exact List.Forall₂.nil
  | cons h0 hrest => exact rep_clipEdges t p hp _ _ h0 _ _ (List.Forall₂.cons h0 hrest)

/-- the plane loop on coordinates -/
def clipAll2 (t : Tri K) (ps : List (Plane K)) (cs : List (Pt K)) : List (Pt K) :=
  ps.foldl (fun acc p => clipPlane2 (baryD p t) acc) cs

theorem rep_clipAll (t : Tri K) (ps : List (Plane K)) (hps : ∀ p ∈ ps, p ∈ (planes : List (Plane K))) :
    ∀ (cs : List (Pt K)) (vs : List (ClipVert K)), List.Forall₂ (Rep t) cs vs →
      List.Forall₂ (Rep t) (clipAll2 t ps cs) (clipAll ps vs) := by
  induction ps with
  | nil => intro cs vs h; exact h
  | cons p ps ih =>
    intro cs vs h
    exact ih (fun q hq => hps q (List.mem_cons_of_mem _ hq)) _ _
      (rep_clipPlane t p (hps p (by simp)) cs vs h)

theorem conv_clipAll2 (t : Tri K) (ps : List (Plane K)) :
    ∀ cs : List (Pt K), Conv cs → Conv (clipAll2 t ps cs) := by
  induction ps with
  | nil => intro cs h; exact h
  | cons p ps ih => intro cs h; exact ih _ (conv_clipPlane2 _ cs h)

/-- the input triangle in its own barycentric plane -/
def simplex3 : List (Pt K) := [(0, 0), (1, 0), (0, 1)]

theorem conv_simplex3 : Conv (simplex3 : List (Pt K)) := by
  simp [simplex3, conv_cons, orient2]

/-- Input vertices represent the corners of the simplex (needs equal attribute lengths, as
`clip_bary` does, because `combL` truncates to the shortest list). -/
theorem rep_simplex3 (t : Tri K) (hwf : TriWF t)
    (hlen : t.a.attr.length = t.b.attr.length ∧ t.b.attr.length = t.c.attr.length) :
    List.Forall₂ (Rep t) simplex3 (triVerts t) := by
  obtain ⟨c1, c2, c3⟩ := combL_one t.a.attr t.b.attr t.c.attr hlen.1 hlen.2
  refine List.Forall₂.cons ⟨hwf.1, ?_, ?_⟩ (List.Forall₂.cons ⟨hwf.2.1, ?_, ?_⟩
    (List.Forall₂.cons ⟨hwf.2.2, ?_, ?_⟩ List.Forall₂.nil))
  · simp [baryPos, comb4]
  · simpa [baryAttr] using c1.symm
  · simp [baryPos, comb4]
  · simpa [baryAttr] using c2.symm
  · simp [baryPos, comb4]
  · simpa [baryAttr] using c3.symm
