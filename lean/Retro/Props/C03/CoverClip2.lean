/-
C03 / Cover, part 2: Sutherland–Hodgman in the plane, `clipPlane2`, mirroring
`Retro.Clip.clipPlane` vertex for vertex, and the proof that it preserves `Conv`.

`refine D L` inserts the crossing point on every cyclic edge whose endpoints have `D` of strictly
opposite signs; `clipPlane2 D L` is a sublist of it (and, for affine `D`, exactly its filter by
`D ≤ 0`, see part 4).
-/
import Retro.Props.C03.CoverConv

namespace Retro.Props.C03
open Retro Retro.Lemmas.Clip

set_option linter.unusedSectionVars false

variable {K : Type} [Field K] [LinearOrder K] [IsStrictOrderedRing K]

/-- the crossing parameter of clip.rs:165 -/
def crossT (d0 d1 : K) : K := -d0 / (d1 - d0)

/-- the vertex inserted on edge c0→c1, if the edge crosses `D = 0` strictly -/
def cross2 (D : Pt K → K) (c0 c1 : Pt K) : List (Pt K) :=
  if D c0 * D c1 < 0 then [lerpPt c0 c1 (crossT (D c0) (D c1))] else []

def clipEdge2 (D : Pt K → K) (c0 c1 : Pt K) : List (Pt K) :=
  (if D c0 ≤ 0 then [c0] else []) ++ cross2 D c0 c1

def clipEdges2 (D : Pt K → K) (first : Pt K) : List (Pt K) → List (Pt K)
  | [] => []
  | [v] => clipEdge2 D v first
  | v0 :: v1 :: rest => clipEdge2 D v0 v1 ++ clipEdges2 D first (v1 :: rest)

/-- 2-D Sutherland–Hodgman against the half-plane `D ≤ 0` (cyclic vertex list). -/
def clipPlane2 (D : Pt K → K) : List (Pt K) → List (Pt K)
  | [] => []
  | v :: vs => clipEdges2 D v (v :: vs)

def refEdges (D : Pt K → K) (first : Pt K) : List (Pt K) → List (Pt K)
  | [] => []
  | [v] => v :: cross2 D v first
  | v0 :: v1 :: rest => (v0 :: cross2 D v0 v1) ++ refEdges D first (v1 :: rest)

/-- all old vertices, plus the crossing points, in cyclic order -/
def refine (D : Pt K → K) : List (Pt K) → List (Pt K)
  | [] => []
  | v :: vs => refEdges D v (v :: vs)

theorem clipEdge2_sublist (D : Pt K → K) (c0 c1 : Pt K) :
    (clipEdge2 D c0 c1).Sublist (c0 :: cross2 D c0 c1) := by
  unfold clipEdge2
  split
  · exact List.Sublist.refl _
  · exact List.sublist_cons_self _ _

theorem clipEdges2_sublist (D : Pt K → K) (first : Pt K) (l : List (Pt K)) :
    (clipEdges2 D first l).Sublist (refEdges D first l) := by
  induction l with
  | nil => exact List.Sublist.refl _
  | cons v l ih =>
    cases l with
    | nil => exact clipEdge2_sublist D v first
    | cons w l => exact List.Sublist.append (clipEdge2_sublist D v w) ih

theorem clipPlane2_sublist (D : Pt K → K) (l : List (Pt K)) :
    (clipPlane2 D l).Sublist (refine D l) := by
  cases l with
  | nil => exact List.Sublist.refl _
  | cons v l => exact clipEdges2_sublist D v (v :: l)

/-- closing the polygon by repeating its first vertex keeps `Conv` -/
theorem conv_close (a : Pt K) (l : List (Pt K)) (h : Conv (a :: l)) : Conv (a :: l ++ [a]) := by
  rw [List.cons_append, conv_cons, conv_rotate1]
  refine ⟨?_, h⟩
  rw [List.pairwise_append]
  refine ⟨h.1, List.pairwise_singleton _ _, ?_⟩
  intro p _ q hq
  rw [List.mem_singleton.mp hq, orient2_self_outer]

theorem conv_cross2 (D : Pt K → K) (l1 l2 : List (Pt K)) (a b : Pt K)
    (h : Conv (l1 ++ a :: b :: l2)) : Conv (l1 ++ (a :: cross2 D a b) ++ b :: l2) := by
  unfold cross2
  split
  · rename_i hc
    obtain ⟨h0, h1⟩ := crossT_mem _ _ hc
    simpa [crossT] using conv_insert l1 l2 a b _ h0.le h1.le h
  · simpa using h

theorem conv_refEdges (D : Pt K → K) (first : Pt K) (l : List (Pt K)) :
    ∀ pre : List (Pt K), Conv (pre ++ l ++ [first]) → Conv (pre ++ refEdges D first l ++ [first]) := by
  induction l with
  | nil => intro pre h; simpa [refEdges] using h
  | cons v l ih =>
    cases l with
    | nil =>
      intro pre h
      have := conv_cross2 D pre [] v first (by simpa using h)
      simpa [refEdges] using this
    | cons w l =>
      intro pre h
      have h1 := conv_cross2 D pre (l ++ [first]) v w (by simpa using h)
      have h2 := ih (pre ++ (v :: cross2 D v w)) (by simpa using h1)
      simpa [refEdges] using h2

theorem conv_refine (D : Pt K → K) (l : List (Pt K)) (h : Conv l) : Conv (refine D l) := by
  cases l with
  | nil => trivial
  | cons v l =>
    have h1 := conv_refEdges D v (v :: l) [] (by simpa using conv_close v l h)
    exact Conv.sublist (by simp [refine]) h1

/-- **One plane keeps the polygon weakly convex and counter-clockwise.** -/
theorem conv_clipPlane2 (D : Pt K → K) (l : List (Pt K)) (h : Conv l) : Conv (clipPlane2 D l) :=
  Conv.sublist (clipPlane2_sublist D l) (conv_refine D l h)

/-! ### Vertex-wise predicates closed under strict interpolation survive a plane -/

theorem mem_refEdges (D : Pt K → K) (first : Pt K) (l : List (Pt K)) (c : Pt K)
    (h : c ∈ refEdges D first l) : c ∈ l ∨ ∃ a ∈ l, ∃ b ∈ first :: l, c ∈ cross2 D a b := by
  induction l with
  | nil => simp [refEdges] at h
  | cons v l ih =>
    cases l with
    | nil =>
      simp only [refEdges, List.mem_cons] at h
      rcases h with rfl | h
      · exact Or.inl (by simp)
      · exact Or.inr ⟨v, by simp, first, by simp, h⟩
    | cons w l =>
      simp only [refEdges, List.cons_append, List.mem_cons, List.mem_append] at h
      rcases h with rfl | h | h
      · exact Or.inl (by simp)
      · exact Or.inr ⟨v, by simp, w, by simp, h⟩
      · rcases ih (by simpa [List.mem_cons] using h) with h | ⟨a, ha, b, hb, hc⟩
        · exact Or.inl (List.mem_cons_of_mem _ h)
        · refine Or.inr ⟨a, List.mem_cons_of_mem _ ha, b, ?_, hc⟩
          simp only [List.mem_cons] at hb ⊢
          tauto

theorem refine_preserves (Q : Pt K → Prop) (D : Pt K → K)
    (hQ : ∀ a b s, Q a → Q b → 0 < s → s < 1 → Q (lerpPt a b s))
    (l : List (Pt K)) (hl : ∀ c ∈ l, Q c) : ∀ c ∈ refine D l, Q c := by
  intro c hc
  cases l with
  | nil => simp [refine] at hc
  | cons v l =>
    rcases mem_refEdges D v (v :: l) c hc with h | ⟨a, ha, b, hb, hx⟩
    · exact hl c h
    · have hb' : b ∈ v :: l := by
        simp only [List.mem_cons] at hb ⊢; tauto
      unfold cross2 at hx
      split at hx
      · rename_i hcr
        obtain ⟨h0, h1⟩ := crossT_mem _ _ hcr
        rw [List.mem_singleton.mp hx]
        exact hQ a b _ (hl a ha) (hl b hb') h0 h1
      · simp at hx

theorem clipPlane2_preserves (Q : Pt K → Prop) (D : Pt K → K)
    (hQ : ∀ a b s, Q a → Q b → 0 < s → s < 1 → Q (lerpPt a b s))
    (l : List (Pt K)) (hl : ∀ c ∈ l, Q c) : ∀ c ∈ clipPlane2 D l, Q c :=
  fun c hc => refine_preserves Q D hQ l hl c ((clipPlane2_sublist D l).subset hc)

/-- the closed unit simplex of barycentric coordinates (u,v) -/
def InSimplex (c : Pt K) : Prop := 0 ≤ c.1 ∧ 0 ≤ c.2 ∧ c.1 + c.2 ≤ 1

theorem inSimplex_lerp (a b : Pt K) (s : K) (ha : InSimplex a) (hb : InSimplex b)
    (h0 : 0 < s) (h1 : s < 1) : InSimplex (lerpPt a b s) := by
  obtain ⟨a1, a2, a3⟩ := ha
  obtain ⟨b1, b2, b3⟩ := hb
  have e : ∀ x y : K, lerp x y s = (1 - s) * x + s * y := by intro x y; simp only [lerp]; ring
  have h1s : 0 ≤ 1 - s := by linarith
  refine ⟨?_, ?_, ?_⟩
  · simp only [lerpPt, e]; exact cc_nonneg h0.le h1.le a1 b1
  · simp only [lerpPt, e]; exact cc_nonneg h0.le h1.le a2 b2
  · simp only [lerpPt, e]
    nlinarith [mul_nonneg h1s (sub_nonneg.mpr a3), mul_nonneg h0.le (sub_nonneg.mpr b3)]
