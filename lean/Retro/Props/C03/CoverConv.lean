/-
C03 / Cover, part 1: weakly convex counter-clockwise point lists in the plane.

`Conv L` : every index-ordered triple i < j < k of `L` has `orient2 (L i) (L j) (L k) ≥ 0`.
It is stated with `List.Pairwise` so that the `List` API does the index bookkeeping.
Closed under: sublists, rotation, inserting a point on the segment between two neighbours.
-/
import Retro.Props.C03.Base
import Mathlib.Data.List.Pairwise
import Mathlib.Tactic.Linarith
import Mathlib.Tactic.Ring

namespace Retro.Props.C03
open Retro

set_option linter.unusedSectionVars false

variable {K : Type} [Field K] [LinearOrder K] [IsStrictOrderedRing K]

/-- A point of the input triangle's barycentric plane: (u,v) = (λb, λc). -/
abbrev Pt (K : Type) := K × K

/-- Twice the signed area of (p,q,r); positive = counter-clockwise. -/
def orient2 (p q r : Pt K) : K := (q.1 - p.1) * (r.2 - p.2) - (q.2 - p.2) * (r.1 - p.1)

/-- the point p + (q − p)·t -/
def lerpPt (p q : Pt K) (t : K) : Pt K := (lerp p.1 q.1 t, lerp p.2 q.2 t)

theorem orient2_rot (p q r : Pt K) : orient2 p q r = orient2 q r p := by
  simp only [orient2]; ring

theorem orient2_swap (p q r : Pt K) : orient2 p r q = - orient2 p q r := by
  simp only [orient2]; ring

theorem orient2_self_left (p r : Pt K) : orient2 p p r = 0 := by simp only [orient2]; ring
theorem orient2_self_right (p q : Pt K) : orient2 p q q = 0 := by simp only [orient2]; ring
theorem orient2_self_outer (p q : Pt K) : orient2 p q p = 0 := by simp only [orient2]; ring

theorem orient2_lerp_1 (a b q r : Pt K) (t : K) :
    orient2 (lerpPt a b t) q r = (1 - t) * orient2 a q r + t * orient2 b q r := by
  simp only [orient2, lerpPt, lerp]; ring
theorem orient2_lerp_2 (a b p r : Pt K) (t : K) :
    orient2 p (lerpPt a b t) r = (1 - t) * orient2 p a r + t * orient2 p b r := by
  simp only [orient2, lerpPt, lerp]; ring
theorem orient2_lerp_3 (a b p q : Pt K) (t : K) :
    orient2 p q (lerpPt a b t) = (1 - t) * orient2 p q a + t * orient2 p q b := by
  simp only [orient2, lerpPt, lerp]; ring

/-- a convex combination of two non-negative numbers -/
theorem cc_nonneg {x y t : K} (ht0 : 0 ≤ t) (ht1 : t ≤ 1) (hx : 0 ≤ x) (hy : 0 ≤ y) :
    0 ≤ (1 - t) * x + t * y :=
  add_nonneg (mul_nonneg (sub_nonneg.mpr ht1) hx) (mul_nonneg ht0 hy)

/-- Weakly convex, counter-clockwise in list order: all index-ordered triples are
non-negatively oriented. -/
def Conv : List (Pt K) → Prop
  | [] => True
  | a :: l => l.Pairwise (fun b c => 0 ≤ orient2 a b c) ∧ Conv l

@[simp] theorem conv_nil : Conv ([] : List (Pt K)) := trivial

theorem conv_cons (a : Pt K) (l : List (Pt K)) :
    Conv (a :: l) ↔ l.Pairwise (fun b c => 0 ≤ orient2 a b c) ∧ Conv l := Iff.rfl

theorem Conv.sublist {l l' : List (Pt K)} (h : l'.Sublist l) (hc : Conv l) : Conv l' := by
  induction h with
  | slnil => trivial
  | cons a _ ih => exact ih hc.2
  | cons_cons a hs ih => exact ⟨hc.1.sublist hs, ih hc.2⟩

theorem conv_append (l1 l2 : List (Pt K)) :
    Conv (l1 ++ l2) ↔ Conv l1 ∧ Conv l2 ∧
      (∀ a ∈ l1, l2.Pairwise (fun b c => 0 ≤ orient2 a b c)) ∧
      (∀ c ∈ l2, l1.Pairwise (fun a b => 0 ≤ orient2 a b c)) := by
  induction l1 with
  | nil => simp
  | cons x l1 ih =>
    simp only [List.cons_append, conv_cons, ih, List.pairwise_append, List.pairwise_cons,
      List.mem_cons, forall_eq_or_imp]
    constructor
    · rintro ⟨⟨h1, h2, h3⟩, h4, h5, h6, h7⟩
      exact ⟨⟨h1, h4⟩, h5, ⟨h2, h6⟩, fun c hc => ⟨fun b hb => h3 b hb c hc, h7 c hc⟩⟩
    · rintro ⟨⟨h1, h4⟩, h5, ⟨h2, h6⟩, h7⟩
      exact ⟨⟨h1, h2, fun b hb c hc => (h7 c hc).1 b hb⟩, h4, h5, h6, fun c hc => (h7 c hc).2⟩

/-- The triple characterisation, as used by clients. -/
theorem Conv.triple {l : List (Pt K)} (hc : Conv l) {a b c : Pt K} (h : [a, b, c].Sublist l) :
    0 ≤ orient2 a b c := by
  have := Conv.sublist h hc
  simp only [conv_cons, List.pairwise_cons, List.mem_cons, List.mem_nil_iff, or_false,
    forall_eq] at this
  exact this.1.1

/-- Rotation: `orient2` is cyclically symmetric, so moving the head to the end keeps `Conv`. -/
theorem conv_rotate1 (a : Pt K) (l : List (Pt K)) : Conv (l ++ [a]) ↔ Conv (a :: l) := by
  rw [conv_append, conv_cons]
  simp only [conv_cons, conv_nil, List.Pairwise.nil, and_true, List.pairwise_singleton,
    implies_true, List.mem_singleton, forall_eq, true_and]
  have : (fun p q : Pt K => 0 ≤ orient2 p q a) = (fun p q => 0 ≤ orient2 a p q) := by
    funext p q; rw [orient2_rot a p q]
  rw [this]; exact and_comm

theorem conv_rotate (l1 l2 : List (Pt K)) : Conv (l1 ++ l2) ↔ Conv (l2 ++ l1) := by
  induction l1 generalizing l2 with
  | nil => simp
  | cons a l1 ih =>
    rw [List.cons_append, ← conv_rotate1, List.append_assoc, ih (l2 ++ [a]), List.append_assoc,
      List.singleton_append]

/-- A point of the segment [a,b] may be inserted between the neighbours a and b. -/
theorem conv_insert (l1 l2 : List (Pt K)) (a b : Pt K) (t : K) (ht0 : 0 ≤ t) (ht1 : t ≤ 1)
    (h : Conv (l1 ++ a :: b :: l2)) : Conv (l1 ++ a :: lerpPt a b t :: b :: l2) := by
  have h1t : 0 ≤ 1 - t := sub_nonneg.mpr ht1
  rw [conv_append] at h ⊢
  obtain ⟨hl1, hab, hA, hB⟩ := h
  simp only [conv_cons, List.pairwise_cons, List.mem_cons, forall_eq_or_imp] at hab hA hB ⊢
  obtain ⟨⟨hab_l2, ha_l2⟩, hb_l2, hcl2⟩ := hab
  refine ⟨hl1, ⟨⟨⟨?_, ?_⟩, hab_l2, ha_l2⟩, ⟨?_, ?_⟩, hb_l2, hcl2⟩, ?_, hB.1, ?_, hB.2⟩
  · rw [orient2_lerp_2, orient2_self_left, orient2_self_right]; simp
  · intro c hc
    rw [orient2_lerp_2, orient2_self_left]
    simpa using mul_nonneg ht0 (hab_l2 c hc)
  · intro c hc
    rw [orient2_lerp_1, orient2_self_left]
    simpa using mul_nonneg h1t (hab_l2 c hc)
  · refine (ha_l2.and hb_l2).imp ?_
    rintro c d ⟨h1, h2⟩
    rw [orient2_lerp_1]; exact cc_nonneg ht0 ht1 h1 h2
  · intro p hp
    obtain ⟨⟨hpab, hpal2⟩, hpbl2, hpl2⟩ := hA p hp
    refine ⟨⟨?_, hpab, hpal2⟩, ⟨?_, ?_⟩, hpbl2, hpl2⟩
    · rw [orient2_lerp_3, orient2_self_right]; simpa using mul_nonneg ht0 hpab
    · rw [orient2_lerp_2, orient2_self_right]; simpa using mul_nonneg h1t hpab
    · intro c hc
      rw [orient2_lerp_2]; exact cc_nonneg ht0 ht1 (hpal2 c hc) (hpbl2 c hc)
  · refine (hB.1.and hB.2.1).imp ?_
    rintro p q ⟨h1, h2⟩
    rw [orient2_lerp_3]; exact cc_nonneg ht0 ht1 h1 h2
