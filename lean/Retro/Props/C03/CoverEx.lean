/-
C03 / Cover, P5: non-vacuity on ℚ.

`T` pokes out of the frustum through the right (x ≤ w) and top (y ≤ w) planes; its visible part
is a pentagon, emitted as a fan of three triangles. `U` touches the right plane from outside
in one vertex: its visible part is that single point and nothing is emitted — the reason for the
non-degeneracy hypothesis of `clip_covers`.
-/
import Retro.Props.C03.CoverAll

namespace Retro.Props.C03.Ex
open Retro Retro.Clip Retro.Lemmas.Clip Retro.Props.C03

def T : Tri Rat :=
  ⟨mkVert ⟨-1/2, -1/2, 0, 1⟩ [0], mkVert ⟨2, -1/2, 0, 1⟩ [5], mkVert ⟨-1/2, 2, 0, 1⟩ [10]⟩

theorem T_wf : TriWF T := ⟨mkVert_wf _ _, mkVert_wf _ _, mkVert_wf _ _⟩
theorem T_len : T.a.attr.length = T.b.attr.length ∧ T.b.attr.length = T.c.attr.length := by decide

/-- the output: three triangles fanning the pentagon, attributes interpolated -/
example : clipTri T =
    [⟨mkVert ⟨-1/2, -1/2, 0, 1⟩ [0], mkVert ⟨1, -1/2, 0, 1⟩ [3], mkVert ⟨1, 1/2, 0, 1⟩ [7]⟩,
     ⟨mkVert ⟨-1/2, -1/2, 0, 1⟩ [0], mkVert ⟨1, 1/2, 0, 1⟩ [7], mkVert ⟨1/2, 1, 0, 1⟩ [8]⟩,
     ⟨mkVert ⟨-1/2, -1/2, 0, 1⟩ [0], mkVert ⟨1/2, 1, 0, 1⟩ [8], mkVert ⟨-1/2, 1, 0, 1⟩ [6]⟩] := by
  decide +kernel

/-- the same output in the barycentric plane of `T` -/
example : (clipTri2 T).map (fun s => (s.a, s.b, s.c)) =
    [((0, 0), (3/5, 0), (3/5, 2/5)), ((0, 0), (3/5, 2/5), (2/5, 3/5)),
     ((0, 0), (2/5, 3/5), (0, 3/5))] := by
  decide +kernel

/-- the non-degeneracy hypothesis of `clip_covers` holds for `T` (witness (1/5, 1/5)) -/
theorem T_nd : ∃ q0 : Pt Rat, InOpenSimplex q0 ∧ ∀ p ∈ (planes : List (Plane Rat)), baryD p T q0 < 0 :=
  ⟨(1/5, 1/5), by unfold InOpenSimplex; decide +kernel, by decide +kernel⟩

/-- (2/5, 2/5), i.e. the position (1/2, 1/2, 0, 1), is a visible point of `T` … -/
theorem T_visible : Visible T (2/5, 2/5) := by
  unfold Visible InSimplex; decide +kernel

/-- … and it lies in the second fan triangle -/
example : WeakIn (2/5, 2/5) (⟨(0, 0), (3/5, 2/5), (2/5, 3/5)⟩ : Tri2 Rat) := by
  unfold WeakIn; decide +kernel

/-- all headline theorems apply to `T` -/
example := clip_winding T T_wf T_len
example := clip_output_subset_visible T T_wf T_len
example := clip_nonoverlap T T_wf T_len
example := clip_covers T T_wf T_len T_nd (2/5, 2/5) T_visible

/-! ### The hypothesis of `clip_covers` cannot be dropped -/

def U : Tri Rat := ⟨mkVert ⟨1, 0, 0, 1⟩ [0], mkVert ⟨3, 0, 0, 1⟩ [5], mkVert ⟨3, 1, 0, 1⟩ [10]⟩

/-- `U`'s first vertex lies on the right plane, the rest of `U` is outside: the corner (0,0) is a
visible point, but the clipper emits no triangle at all. Coverage without the non-degeneracy
hypothesis is false. -/
example : TriWF U ∧ Visible U (0, 0) ∧ clipTri U = [] :=
  ⟨⟨mkVert_wf _ _, mkVert_wf _ _, mkVert_wf _ _⟩, by unfold Visible InSimplex; decide +kernel,
    by decide +kernel⟩

end Retro.Props.C03.Ex
