/-
C03 / Cover, P3: two different output triangles of one input triangle share no interior point.

`StrictIn q s` : q is strictly to the left of all three edges of the 2-D triangle s.
For a `Conv` polygon a :: l the fan triangles (a, lᵢ, lᵢ₊₁) have pairwise disjoint interiors:
a point strictly inside (a,b,c) is a positive combination of a,b,c, so for any later fan vertex d
(orient2 a b d ≥ 0, orient2 a c d ≥ 0) it is weakly right of the ray a→d, whereas the interior of
a later triangle (a,d,d') is strictly left of it.
-/
import Retro.Props.C03.Cover

namespace Retro.Props.C03
open Retro Retro.Clip Retro.Lemmas.Clip

set_option linter.unusedSectionVars false

variable {K : Type} [Field K] [LinearOrder K] [IsStrictOrderedRing K]

/-- strictly inside the (counter-clockwise) triangle s -/
def StrictIn (q : Pt K) (s : Tri2 K) : Prop :=
  0 < orient2 s.a s.b q ∧ 0 < orient2 s.b s.c q ∧ 0 < orient2 s.c s.a q

/-- barycentric expansion of an affine function vanishing at `a`, scaled by the area -/
theorem orient2_bary_expand (a b c d q : Pt K) :
    orient2 a b c * orient2 a d q =
      orient2 c a q * orient2 a d b + orient2 a b q * orient2 a d c := by
  simp only [orient2]; ring

theorem orient2_sum (a b c q : Pt K) :
    orient2 a b q + orient2 b c q + orient2 c a q = orient2 a b c := by
  simp only [orient2]; ring

theorem fan_pair_disjoint (a b c d q : Pt K) (hb : 0 ≤ orient2 a b d) (hc : 0 ≤ orient2 a c d)
    (hin : StrictIn q ⟨a, b, c⟩) : orient2 a d q ≤ 0 := by
  obtain ⟨h1, h2, h3⟩ := hin
  simp only at h1 h2 h3
  have hT : 0 < orient2 a b c := by rw [← orient2_sum a b c q]; positivity
  have e := orient2_bary_expand a b c d q
  rw [orient2_swap a b d, orient2_swap a c d] at e
  by_contra hpos
  rw [not_le] at hpos
  nlinarith [mul_pos hT hpos, mul_nonneg h3.le hb, mul_nonneg h1.le hc]

def Disjoint2 (s1 s2 : Tri2 K) : Prop := ∀ q : Pt K, ¬ (StrictIn q s1 ∧ StrictIn q s2)

theorem fan2_disjoint (a : Pt K) (l : List (Pt K)) (h : Conv (a :: l)) :
    (fan2 a l).Pairwise Disjoint2 := by
  induction l with
  | nil => simp [fan2]
  | cons e0 l ih =>
    cases l with
    | nil => simp [fan2]
    | cons e1 l =>
      simp only [fan2, List.pairwise_cons]
      refine ⟨?_, ih (Conv.sublist (by simp) h)⟩
      intro s hs q ⟨hq1, hq2⟩
      obtain ⟨hsa, hsb, _⟩ := mem_fan2 a (e1 :: l) s hs
      have hpw := h.1
      simp only [List.pairwise_cons, List.mem_cons, forall_eq_or_imp] at hpw
      have hb : 0 ≤ orient2 a e0 s.b := by
        rcases List.mem_cons.mp hsb with e | hm
        · rw [e]; exact hpw.1.1
        · exact hpw.1.2 _ hm
      have hc : 0 ≤ orient2 a e1 s.b := by
        rcases List.mem_cons.mp hsb with e | hm
        · rw [e, orient2_self_right]
        · exact hpw.2.1 _ hm
      have := fan_pair_disjoint a e0 e1 s.b q hb hc hq1
      have h2 := hq2.1
      rw [hsa] at h2
      exact absurd h2 (not_lt.mpr this)

/-- 2-D form of non-overlap -/
theorem clipTri2_disjoint (t : Tri K) : (clipTri2 t).Pairwise Disjoint2 := by
  unfold clipTri2
  cases status [t.a, t.b, t.c] with
  | visible => simp
  | hidden => simp
  | clipped =>
    simp only
    have hc := conv_clipAll2_simplex t
    cases hl : clipAll2 t planes simplex3 with
    | nil => simp
    | cons a rest => rw [hl] at hc; exact fan2_disjoint a rest hc

/-- **P3. Non-overlap.** The output triangles of one input triangle sit (vertex for vertex,
positions and attributes) at 2-D triangles `ss` of the barycentric plane whose open interiors are
pairwise disjoint: no point is strictly inside two triangles at different list positions. -/
theorem clip_nonoverlap (t : Tri K) (hwf : TriWF t)
    (hlen : t.a.attr.length = t.b.attr.length ∧ t.b.attr.length = t.c.attr.length) :
    ∃ ss : List (Tri2 K), List.Forall₂ (TriRep t) ss (clipTri t) ∧
      ss.Pairwise (fun s1 s2 => ∀ q : Pt K, ¬ (StrictIn q s1 ∧ StrictIn q s2)) :=
  ⟨clipTri2 t, rep_clipTri t hwf hlen, clipTri2_disjoint t⟩
