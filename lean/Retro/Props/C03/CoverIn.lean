/-
C03 / Cover, P2 part a: dropping the outside vertices of a convex polygon keeps every inside
point of the half-plane `D ≤ 0` inside the polygon.

`Cyc R L`       : `R` holds along every cyclic edge of `L` (chain over `L ++ [head L]`).
`Ew q`, `Es q`  : q is weakly / strictly to the left of an edge.
`CF D`          : an edge does not cross `D = 0` strictly (what `refine` establishes).
Key step (`removable_weak/strict`): if r is outside (D r > 0), its neighbours x, y are not
strictly inside, the corner x,r,y is convex, and q (D q ≤ 0) is left of x→r and r→y, then q is
left of the short-cut x→y — otherwise q would be in the triangle x,r,y, where D > 0.
-/
import Retro.Props.C03.CoverClip2
import Mathlib.Data.List.Chain
import Mathlib.Tactic.Positivity

namespace Retro.Props.C03
open Retro Retro.Lemmas.Clip

set_option linter.unusedSectionVars false

variable {K : Type} [Field K] [LinearOrder K] [IsStrictOrderedRing K]

/-- `D` is an affine function of the plane -/
def IsAff (D : Pt K → K) : Prop := ∃ d0 du dv : K, ∀ c : Pt K, D c = d0 + du * c.1 + dv * c.2

theorem IsAff.lerp {D : Pt K → K} (h : IsAff D) (a b : Pt K) (s : K) :
    D (lerpPt a b s) = Retro.lerp (D a) (D b) s := by
  obtain ⟨d0, du, dv, hD⟩ := h
  simp only [hD, lerpPt, Retro.lerp]; ring

/-- barycentric expansion of an affine function over the triangle x,r,y (scaled by its area) -/
theorem IsAff.expand {D : Pt K → K} (h : IsAff D) (x r y q : Pt K) :
    D q * orient2 x r y =
      orient2 r y q * D x + orient2 y x q * D r + orient2 x r q * D y := by
  obtain ⟨d0, du, dv, hD⟩ := h
  simp only [hD, orient2]; ring

theorem orient2_sum' (a b c q : Pt K) :
    orient2 a b q + orient2 b c q + orient2 c a q = orient2 a b c := by
  simp only [orient2]; ring

/-- weakly / strictly left of the edge a→b -/
def Ew (q : Pt K) (a b : Pt K) : Prop := 0 ≤ orient2 a b q
def Es (q : Pt K) (a b : Pt K) : Prop := 0 < orient2 a b q

/-- the edge a→b does not cross `D = 0` strictly -/
def CF (D : Pt K → K) (a b : Pt K) : Prop := ¬ (D a * D b < 0)

/-- `E` survives cutting off an outside convex corner -/
def Removable (D : Pt K → K) (E : Pt K → Pt K → Prop) : Prop :=
  ∀ x r y, 0 ≤ D x → 0 < D r → 0 ≤ D y → 0 ≤ orient2 x r y → E x r → E r y → E x y

theorem removable_weak {D : Pt K → K} (hD : IsAff D) (q : Pt K) (hq : D q ≤ 0) :
    Removable D (Ew q) := by
  intro x r y hx hr hy hT h1 h2
  unfold Ew at *
  by_contra hneg
  rw [not_le] at hneg
  have e := hD.expand x r y q
  have hsw : orient2 y x q = - orient2 x y q := by simp only [orient2]; ring
  rw [hsw] at e
  nlinarith [mul_nonneg h2 hx, mul_nonneg h1 hy, mul_pos (neg_pos.mpr hneg) hr,
    mul_nonneg (neg_nonneg.mpr hq) hT]

theorem removable_strict {D : Pt K → K} (hD : IsAff D) (q : Pt K) (hq : D q < 0) :
    Removable D (Es q) := by
  intro x r y hx hr hy hT h1 h2
  unfold Es at *
  by_contra hneg
  rw [not_lt] at hneg
  have e := hD.expand x r y q
  have hsum := orient2_sum' x r y q
  have hsw : orient2 y x q = - orient2 x y q := by simp only [orient2]; ring
  rw [hsw] at e hsum
  have hTpos : 0 < orient2 x r y := by linarith
  nlinarith [mul_nonneg h2.le hx, mul_nonneg h1.le hy, mul_nonneg (neg_nonneg.mpr hneg) hr.le,
    mul_pos (neg_pos.mpr hq) hTpos]

/-- the S–H keep test on coordinates -/
def keepD (D : Pt K → K) (c : Pt K) : Bool := decide (D c ≤ 0)

theorem cf_left {D : Pt K → K} {a b : Pt K} (h : CF D a b) (hb : 0 < D b) : 0 ≤ D a := by
  by_contra hc; rw [not_le] at hc
  exact h (mul_neg_of_neg_of_pos hc hb)

theorem cf_right {D : Pt K → K} {a b : Pt K} (h : CF D a b) (ha : 0 < D a) : 0 ≤ D b := by
  by_contra hc; rw [not_le] at hc
  exact h (mul_neg_of_pos_of_neg ha hc)

/-- Open-chain form of the filter step. (A): the chain starts at a kept vertex. (B): `x0` is the
last kept vertex, `x` the current dropped one, and `E x0 x` has been carried along. -/
theorem chain_filter (D : Pt K → K) (E : Pt K → Pt K → Prop) (hE : Removable D E) :
    ∀ (P : List (Pt K)) (x : Pt K),
      (D x ≤ 0 → Conv (x :: P) → List.IsChain E (x :: P) → List.IsChain (CF D) (x :: P) →
        List.IsChain E (x :: P.filter (keepD D))) ∧
      (∀ x0, 0 ≤ D x0 → 0 < D x → Conv (x0 :: x :: P) → E x0 x → List.IsChain E (x :: P) →
        List.IsChain (CF D) (x :: P) → List.IsChain E (x0 :: P.filter (keepD D))) := by
  intro P
  induction P with
  | nil => intro x; exact ⟨fun _ _ _ _ => by simp, fun x0 _ _ _ _ _ _ => by simp⟩
  | cons y P ih =>
    intro x
    obtain ⟨ihA, ihB⟩ := ih y
    constructor
    · intro hx hconv hch hcf
      rw [List.isChain_cons_cons] at hch hcf
      have hconv' : Conv (y :: P) := hconv.2
      by_cases hy : D y ≤ 0
      · have : (y :: P).filter (keepD D) = y :: P.filter (keepD D) := by simp [keepD, hy]
        rw [this, List.isChain_cons_cons]
        exact ⟨hch.1, ihA hy hconv' hch.2 hcf.2⟩
      · have : (y :: P).filter (keepD D) = P.filter (keepD D) := by simp [keepD, hy]
        rw [this]
        rw [not_le] at hy
        exact ihB x (cf_left hcf.1 hy) hy hconv hch.1 hch.2 hcf.2
    · intro x0 hx0 hx hconv hE0 hch hcf
      rw [List.isChain_cons_cons] at hch hcf
      have hy0 : 0 ≤ D y := cf_right hcf.1 hx
      have hT : 0 ≤ orient2 x0 x y := hconv.triple (by simp)
      have hE1 : E x0 y := hE x0 x y hx0 hx hy0 hT hE0 hch.1
      have hconv' : Conv (x0 :: y :: P) := Conv.sublist (by simp) hconv
      by_cases hy : D y ≤ 0
      · have : (y :: P).filter (keepD D) = y :: P.filter (keepD D) := by simp [keepD, hy]
        rw [this, List.isChain_cons_cons]
        exact ⟨hE1, ihA hy hconv'.2 hch.2 hcf.2⟩
      · have : (y :: P).filter (keepD D) = P.filter (keepD D) := by simp [keepD, hy]
        rw [this]
        rw [not_le] at hy
        exact ihB x0 hx0 hy hconv' hE1 hch.2 hcf.2

/-- If everything after `x0` is outside, `E x0 ·` propagates to every later vertex. -/
theorem chain_allout (D : Pt K → K) (E : Pt K → Pt K → Prop) (hE : Removable D E) :
    ∀ (P : List (Pt K)) (x0 x : Pt K), 0 ≤ D x0 → (∀ z ∈ x :: P, 0 < D z) →
      Conv (x0 :: x :: P) → E x0 x → List.IsChain E (x :: P) → ∀ z ∈ x :: P, E x0 z := by
  intro P
  induction P with
  | nil => intro x0 x _ _ _ h _ z hz; rw [List.mem_singleton.mp hz]; exact h
  | cons y P ih =>
    intro x0 x hx0 hall hconv hE0 hch z hz
    rcases List.mem_cons.mp hz with rfl | hz
    · exact hE0
    · rw [List.isChain_cons_cons] at hch
      have hT : 0 ≤ orient2 x0 x y := hconv.triple (by simp)
      have hy : 0 < D y := hall y (by simp)
      have hE1 : E x0 y := hE x0 x y hx0 (hall x (by simp)) hy.le hT hE0 hch.1
      exact ih x0 y hx0 (fun w hw => hall w (List.mem_cons_of_mem _ hw))
        (Conv.sublist (by simp) hconv) hE1 hch.2 z hz

/-! ### Cyclic chains -/

/-- `R` holds along every edge of the closed polygon, including last → first -/
def Cyc (R : Pt K → Pt K → Prop) : List (Pt K) → Prop
  | [] => True
  | a :: l => List.IsChain R (a :: l ++ [a])

theorem cyc_rotate1 (R : Pt K → Pt K → Prop) (a : Pt K) (l : List (Pt K)) :
    Cyc R (l ++ [a]) ↔ Cyc R (a :: l) := by
  cases l with
  | nil => simp [Cyc]
  | cons b l =>
    simp only [Cyc, List.cons_append, List.isChain_cons_cons]
    have := @List.isChain_append_cons_cons _ R a b (b :: l) []
    simp only [List.cons_append, List.append_assoc, List.nil_append] at this ⊢
    rw [this]
    simp only [List.isChain_singleton, and_true]
    exact and_comm

theorem cyc_rotate (R : Pt K → Pt K → Prop) (l1 l2 : List (Pt K)) :
    Cyc R (l1 ++ l2) ↔ Cyc R (l2 ++ l1) := by
  induction l1 generalizing l2 with
  | nil => simp
  | cons a l1 ih =>
    rw [List.cons_append, ← cyc_rotate1, List.append_assoc, ih (l2 ++ [a]), List.append_assoc,
      List.singleton_append]

theorem cyc_filter_head (D : Pt K → K) (E : Pt K → Pt K → Prop) (hE : Removable D E)
    (a : Pt K) (l : List (Pt K)) (ha : D a ≤ 0) (hconv : Conv (a :: l))
    (hch : Cyc E (a :: l)) (hcf : Cyc (CF D) (a :: l)) :
    Cyc E ((a :: l).filter (keepD D)) := by
  have h := (chain_filter D E hE (l ++ [a]) a).1 ha (conv_close a l hconv) hch hcf
  have e1 : (a :: l).filter (keepD D) = a :: l.filter (keepD D) := by simp [keepD, ha]
  have e2 : (l ++ [a]).filter (keepD D) = l.filter (keepD D) ++ [a] := by
    simp [List.filter_append, keepD, ha]
  rw [e1]
  rw [e2] at h
  exact h

/-- **Filter step.** In a convex polygon with no strictly crossing edge, dropping the vertices
with `D > 0` keeps `E` along all (new) cyclic edges, provided some vertex is kept. -/
theorem cyc_filter (D : Pt K → K) (E : Pt K → Pt K → Prop) (hE : Removable D E)
    (L : List (Pt K)) (hconv : Conv L) (hch : Cyc E L) (hcf : Cyc (CF D) L)
    (hk : ∃ b ∈ L, D b ≤ 0) : Cyc E (L.filter (keepD D)) := by
  obtain ⟨b, hb, hDb⟩ := hk
  obtain ⟨l1, l2, rfl⟩ := List.append_of_mem hb
  have h := cyc_filter_head D E hE b (l2 ++ l1) hDb
    (by simpa using (conv_rotate l1 (b :: l2)).mp hconv)
    (by simpa using (cyc_rotate E l1 (b :: l2)).mp hch)
    (by simpa using (cyc_rotate (CF D) l1 (b :: l2)).mp hcf)
  rw [List.filter_append]
  rw [← List.cons_append, List.filter_append] at h
  exact (cyc_rotate E _ _).mpr h

/-- With a strictly inside witness, not all vertices can be outside. -/
theorem exists_kept (D : Pt K → K) (q0 : Pt K) (hD : IsAff D) (hq0 : D q0 < 0)
    (L : List (Pt K)) (hne : L ≠ []) (hconv : Conv L) (hch : Cyc (Es q0) L) :
    ∃ b ∈ L, D b ≤ 0 := by
  by_contra hno
  push Not at hno
  cases L with
  | nil => exact hne rfl
  | cons a l =>
    have hself : ¬ Es q0 a a := by simp [Es, orient2_self_left]
    cases l with
    | nil =>
      simp only [Cyc, List.nil_append, List.cons_append, List.isChain_pair] at hch
      exact hself hch
    | cons r P =>
      have hcl := conv_close a (r :: P) hconv
      simp only [Cyc, List.cons_append, List.isChain_cons_cons] at hch
      have hall : ∀ z ∈ r :: (P ++ [a]), 0 < D z := by
        intro z hz
        apply hno
        simp only [List.mem_cons, List.mem_append, List.mem_nil_iff, or_false] at hz ⊢
        tauto
      have := chain_allout D (Es q0) (removable_strict hD q0 hq0) (P ++ [a]) a r
        (hno a (by simp)).le hall (by simpa using hcl) hch.1 hch.2 a (by simp)
      exact hself this
