/-
C03 / Cover, P2 part b: one plane of 2-D Sutherland–Hodgman loses no inside point.

`clipPlane2 D L = (refine D L).filter (D ≤ 0)` for affine `D` (crossing points have D = 0).
`refine` keeps `Ew q` / `Es q` along all cyclic edges (sub-segments of old edges) and leaves
no strictly crossing edge; the filter step is `cyc_filter` of part a.
-/
import Retro.Props.C03.CoverIn
import Retro.Props.C03.CoverBridge

namespace Retro.Props.C03
open Retro Retro.Lemmas.Clip

set_option linter.unusedSectionVars false

variable {K : Type} [Field K] [LinearOrder K] [IsStrictOrderedRing K]

theorem refEdges_head (D : Pt K → K) (first v : Pt K) (l : List (Pt K)) :
    ∃ tl, refEdges D first (v :: l) = v :: tl := by
  cases l with
  | nil => exact ⟨_, rfl⟩
  | cons w l => exact ⟨_, rfl⟩

/-- Edge-wise transfer of a chain relation through `refEdges`. -/
theorem chain_refEdges (D : Pt K → K) (R0 G : Pt K → Pt K → Prop)
    (hedge : ∀ a b, R0 a b → List.IsChain G (a :: cross2 D a b ++ [b]))
    (first : Pt K) (l : List (Pt K)) (h : List.IsChain R0 (l ++ [first])) :
    List.IsChain G (refEdges D first l ++ [first]) := by
  induction l with
  | nil => simp [refEdges]
  | cons v l ih =>
    cases l with
    | nil =>
      simp only [List.cons_append, List.nil_append, List.isChain_pair] at h
      simpa [refEdges] using hedge v first h
    | cons w l =>
      simp only [List.cons_append, List.isChain_cons_cons] at h
      have h2 := ih (by simpa using h.2)
      obtain ⟨tl, htl⟩ := refEdges_head D first w l
      have h1 := hedge v w h.1
      simp only [refEdges, List.cons_append, List.append_assoc]
      rw [htl] at h2 ⊢
      simp only [List.cons_append] at h1 h2 ⊢
      have := (@List.isChain_split _ G w (v :: cross2 D v w) (tl ++ [first])).mpr
        ⟨by simpa using h1, h2⟩
      simpa using this

theorem cyc_refine (D : Pt K → K) (R0 G : Pt K → Pt K → Prop)
    (hedge : ∀ a b, R0 a b → List.IsChain G (a :: cross2 D a b ++ [b]))
    (L : List (Pt K)) (h : Cyc R0 L) : Cyc G (refine D L) := by
  cases L with
  | nil => simp [refine, Cyc]
  | cons v l =>
    obtain ⟨tl, htl⟩ := refEdges_head D v v l
    have := chain_refEdges D R0 G hedge v (v :: l) h
    simp only [refine]
    rw [htl] at this ⊢
    exact this

theorem edge_Ew (D : Pt K → K) (q a b : Pt K) (h : Ew q a b) :
    List.IsChain (Ew q) (a :: cross2 D a b ++ [b]) := by
  unfold cross2
  split
  · rename_i hc
    obtain ⟨h0, h1⟩ : 0 < crossT (D a) (D b) ∧ crossT (D a) (D b) < 1 := crossT_mem _ _ hc
    simp only [List.cons_append, List.nil_append, List.isChain_cons_cons, List.isChain_singleton,
      and_true, Ew] at h ⊢
    constructor
    · rw [orient2_lerp_2, orient2_self_left]; simpa using mul_nonneg h0.le h
    · rw [orient2_lerp_1, orient2_self_left]
      simpa using mul_nonneg (sub_nonneg.mpr h1.le) h
  · simpa using h

theorem edge_Es (D : Pt K → K) (q a b : Pt K) (h : Es q a b) :
    List.IsChain (Es q) (a :: cross2 D a b ++ [b]) := by
  unfold cross2
  split
  · rename_i hc
    obtain ⟨h0, h1⟩ : 0 < crossT (D a) (D b) ∧ crossT (D a) (D b) < 1 := crossT_mem _ _ hc
    simp only [List.cons_append, List.nil_append, List.isChain_cons_cons, List.isChain_singleton,
      and_true, Es] at h ⊢
    constructor
    · rw [orient2_lerp_2, orient2_self_left]; simpa using mul_pos h0 h
    · rw [orient2_lerp_1, orient2_self_left]
      simpa using mul_pos (sub_pos.mpr h1) h
  · simpa using h

theorem D_cross (D : Pt K → K) (hD : IsAff D) (a b : Pt K) (hc : D a * D b < 0) :
    D (lerpPt a b (crossT (D a) (D b))) = 0 := by
  rw [hD.lerp]; exact lerp_crossT _ _ hc

theorem edge_CF (D : Pt K → K) (hD : IsAff D) (a b : Pt K) (_ : True) :
    List.IsChain (CF D) (a :: cross2 D a b ++ [b]) := by
  unfold cross2
  split
  · rename_i hc
    simp only [List.cons_append, List.nil_append, List.isChain_cons_cons, List.isChain_singleton,
      and_true, CF, D_cross D hD a b hc]
    simp
  · rename_i hc
    simpa [CF] using hc

/-! ### `clipPlane2` is the filter of `refine` -/

theorem clipEdge2_eq_filter (D : Pt K → K) (hD : IsAff D) (a b : Pt K) :
    clipEdge2 D a b = (a :: cross2 D a b).filter (keepD D) := by
  have hx : (cross2 D a b).filter (keepD D) = cross2 D a b := by
    unfold cross2
    split
    · rename_i hc; simp [keepD, D_cross D hD a b hc]
    · simp
  unfold clipEdge2
  by_cases ha : D a ≤ 0 <;> simp [keepD, ha, hx]

theorem clipEdges2_eq_filter (D : Pt K → K) (hD : IsAff D) (first : Pt K) (l : List (Pt K)) :
    clipEdges2 D first l = (refEdges D first l).filter (keepD D) := by
  induction l with
  | nil => rfl
  | cons v l ih =>
    cases l with
    | nil => exact clipEdge2_eq_filter D hD v first
    | cons w l =>
      simp only [clipEdges2, refEdges, List.filter_append, ← ih, ← clipEdge2_eq_filter D hD]

theorem clipPlane2_eq_filter (D : Pt K → K) (hD : IsAff D) (L : List (Pt K)) :
    clipPlane2 D L = (refine D L).filter (keepD D) := by
  cases L with
  | nil => rfl
  | cons v l => exact clipEdges2_eq_filter D hD v (v :: l)

theorem refine_ne_nil (D : Pt K → K) (L : List (Pt K)) (h : L ≠ []) : refine D L ≠ [] := by
  cases L with
  | nil => exact absurd rfl h
  | cons v l =>
    obtain ⟨tl, htl⟩ := refEdges_head D v v l
    simp [refine, htl]

theorem isChain_true (l : List (Pt K)) : List.IsChain (fun _ _ => True) l := by
  induction l with
  | nil => simp
  | cons a l ih =>
    cases l with
    | nil => simp
    | cons b l => exact List.isChain_cons_cons.mpr ⟨trivial, ih⟩

theorem cyc_true (L : List (Pt K)) : Cyc (fun _ _ => True) L := by
  cases L with
  | nil => trivial
  | cons a l => exact isChain_true _

/-- **One-plane step, strict witness.** A point strictly inside a convex polygon and strictly
inside the half-plane stays strictly inside the clipped polygon, which is therefore non-empty. -/
theorem step_strict (D : Pt K → K) (hD : IsAff D) (q0 : Pt K) (hq0 : D q0 < 0)
    (L : List (Pt K)) (hne : L ≠ []) (hconv : Conv L) (hin : Cyc (Es q0) L) :
    Cyc (Es q0) (clipPlane2 D L) ∧ clipPlane2 D L ≠ [] := by
  have hR := conv_refine D L hconv
  have hE := cyc_refine D (Es q0) (Es q0) (edge_Es D q0) L hin
  have hC : Cyc (CF D) (refine D L) :=
    cyc_refine D (fun _ _ => True) (CF D) (edge_CF D hD) L (cyc_true L)
  have hk := exists_kept D q0 hD hq0 (refine D L) (refine_ne_nil D L hne) hR hE
  rw [clipPlane2_eq_filter D hD]
  refine ⟨cyc_filter D (Es q0) (removable_strict hD q0 hq0) _ hR hE hC hk, ?_⟩
  obtain ⟨b, hb, hDb⟩ := hk
  exact List.ne_nil_of_mem (List.mem_filter.mpr ⟨hb, by simp [keepD, hDb]⟩)

/-- **One-plane step (a).** If the convex polygon `L` has non-empty interior inside the
half-plane (witness `q0`), every point `q` of the closed polygon with `D q ≤ 0` is in the closed
clipped polygon. -/
theorem step_weak (D : Pt K → K) (hD : IsAff D) (q0 : Pt K) (hq0 : D q0 < 0)
    (L : List (Pt K)) (hne : L ≠ []) (hconv : Conv L) (hin0 : Cyc (Es q0) L)
    (q : Pt K) (hq : D q ≤ 0) (hin : Cyc (Ew q) L) : Cyc (Ew q) (clipPlane2 D L) := by
  have hR := conv_refine D L hconv
  have hE0 := cyc_refine D (Es q0) (Es q0) (edge_Es D q0) L hin0
  have hE := cyc_refine D (Ew q) (Ew q) (edge_Ew D q) L hin
  have hC : Cyc (CF D) (refine D L) :=
    cyc_refine D (fun _ _ => True) (CF D) (edge_CF D hD) L (cyc_true L)
  have hk := exists_kept D q0 hD hq0 (refine D L) (refine_ne_nil D L hne) hR hE0
  rw [clipPlane2_eq_filter D hD]
  exact cyc_filter D (Ew q) (removable_weak hD q hq) _ hR hE hC hk

/-! ### (b) Fan coverage -/

/-- q is in the closed triangle s (three weak edge tests) -/
def WeakIn (q : Pt K) (s : Tri2 K) : Prop :=
  0 ≤ orient2 s.a s.b q ∧ 0 ≤ orient2 s.b s.c q ∧ 0 ≤ orient2 s.c s.a q

theorem orient2_flip (a b q : Pt K) : orient2 b a q = - orient2 a b q := by
  simp only [orient2]; ring

/-- discrete intermediate value along the fan: the sign of `orient2 a eᵢ q` starts ≥ 0 and the
closing edge forces it ≤ 0 at the end -/
theorem fan_cover_aux (a q : Pt K) :
    ∀ (l : List (Pt K)) (e0 : Pt K), l ≠ [] → 0 ≤ orient2 a e0 q →
      List.IsChain (Ew q) (e0 :: l ++ [a]) → ∃ s ∈ fan2 a (e0 :: l), WeakIn q s := by
  intro l
  induction l with
  | nil => intro e0 h; exact absurd rfl h
  | cons e1 l ih =>
    intro e0 _ h0 hch
    simp only [List.cons_append, List.isChain_cons_cons] at hch
    by_cases h1 : orient2 a e1 q ≤ 0
    · refine ⟨⟨a, e0, e1⟩, by simp [fan2], h0, hch.1, ?_⟩
      simp only [orient2_flip a e1 q]; linarith
    · rw [not_le] at h1
      cases l with
      | nil =>
        exfalso
        have := hch.2
        simp only [List.nil_append, List.isChain_pair, Ew, orient2_flip a e1 q] at this
        linarith
      | cons e2 l =>
        obtain ⟨s, hs, hw⟩ := ih e1 (by simp) h1.le (by simpa using hch.2)
        exact ⟨s, List.mem_cons_of_mem _ hs, hw⟩

/-- **Fan coverage (b).** A point weakly left of every cyclic edge of a polygon with at least
three vertices lies in one of its fan triangles. (No convexity needed.) -/
theorem fan_cover (a e0 : Pt K) (l : List (Pt K)) (hl : l ≠ []) (q : Pt K)
    (h : Cyc (Ew q) (a :: e0 :: l)) : ∃ s ∈ fan2 a (e0 :: l), WeakIn q s := by
  simp only [Cyc, List.cons_append, List.isChain_cons_cons] at h
  exact fan_cover_aux a q l e0 hl h.1 (by simpa using h.2)

/-- a polygon with a strictly inside point has at least three vertices -/
theorem three_of_strict (q0 : Pt K) (L : List (Pt K)) (hne : L ≠ []) (h : Cyc (Es q0) L) :
    ∃ a e0 e1 l, L = a :: e0 :: e1 :: l := by
  cases L with
  | nil => exact absurd rfl hne
  | cons a L =>
    cases L with
    | nil =>
      simp only [Cyc, List.nil_append, List.cons_append, List.isChain_pair, Es, orient2_self_left] at h
      exact absurd h (lt_irrefl _)
    | cons e0 L =>
      cases L with
      | nil =>
        simp only [Cyc, List.nil_append, List.cons_append, List.isChain_cons_cons,
          List.isChain_singleton, and_true, Es] at h
        rw [orient2_flip a e0 q0] at h
        linarith [h.1, h.2]
      | cons e1 l => exact ⟨a, e0, e1, l, rfl⟩
