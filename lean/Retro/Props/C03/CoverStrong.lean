/-
C03 / Cover, P2 strengthened (review finding F6): the covering output triangle can always be
chosen NON-DEGENERATE, so that "q lies in it" is genuine convex-hull membership
(`clip_covers_hull`), not merely the three weak edge tests (which a degenerate piece passes
for points outside it).

Fan selection (`fan_cover_pos_aux`): with sᵢ = orient2 a eᵢ q, gᵢ = orient2 eᵢ eᵢ₊₁ q ≥ 0 and
Tᵢ = orient2 a eᵢ eᵢ₊₁ = sᵢ + gᵢ − sᵢ₊₁, walking the fan from the end either finds a triangle with
sᵢ ≥ 0 ≥ sᵢ₊₁ and Tᵢ > 0, or all Tᵢ vanish — impossible when some q0 is strictly inside the polygon
(`fan_all_flat_false`: for collinear a,x,y strict leftness is transitive, and would give both
`Es q0 a eₘ` and `Es q0 eₘ a`).
-/
import Retro.Props.C03.CoverAll
import Retro.Props.C03.CoverEx

namespace Retro.Props.C03
open Retro Retro.Clip Retro.Lemmas.Clip

set_option linter.unusedSectionVars false

variable {K : Type} [Field K] [LinearOrder K] [IsStrictOrderedRing K]

/-- a positively oriented fan triangle weakly containing q, or: the head ray already passes
through q (`orient2 a e0 q = 0`) and every fan triangle is flat -/
theorem fan_cover_pos_aux (a q : Pt K) :
    ∀ (l : List (Pt K)) (e0 : Pt K), l ≠ [] → 0 ≤ orient2 a e0 q →
      List.IsChain (Ew q) (e0 :: l ++ [a]) →
      (∃ s ∈ fan2 a (e0 :: l), 0 < orient2 s.a s.b s.c ∧ WeakIn q s) ∨
      (orient2 a e0 q = 0 ∧ ∀ s ∈ fan2 a (e0 :: l), orient2 s.a s.b s.c = 0) := by
  intro l
  induction l with
  | nil => intro e0 h; exact absurd rfl h
  | cons e1 l ih =>
    intro e0 _ h0 hch
    simp only [List.cons_append, List.isChain_cons_cons] at hch
    have hg : 0 ≤ orient2 e0 e1 q := hch.1
    have hT : orient2 a e0 e1 = orient2 a e0 q + orient2 e0 e1 q - orient2 a e1 q := by
      simp only [orient2]; ring
    have hfl : orient2 e1 a q = - orient2 a e1 q := orient2_flip a e1 q
    -- the head triangle, once we know s₁ ≤ 0
    have head : orient2 a e1 q ≤ 0 → (∀ s ∈ fan2 a (e1 :: l), orient2 s.a s.b s.c = 0) →
        (∃ s ∈ fan2 a (e0 :: e1 :: l), 0 < orient2 s.a s.b s.c ∧ WeakIn q s) ∨
        (orient2 a e0 q = 0 ∧ ∀ s ∈ fan2 a (e0 :: e1 :: l), orient2 s.a s.b s.c = 0) := by
      intro h1 hflat
      have hw : WeakIn q ⟨a, e0, e1⟩ := ⟨h0, hg, by simp only [hfl]; linarith⟩
      rcases (show 0 ≤ orient2 a e0 e1 by rw [hT]; linarith).lt_or_eq with hpos | hzero
      · exact Or.inl ⟨⟨a, e0, e1⟩, by simp [fan2], hpos, hw⟩
      · refine Or.inr ⟨by rw [hT] at hzero; linarith, ?_⟩
        intro s hs
        rcases List.mem_cons.mp (show s ∈ (⟨a, e0, e1⟩ : Tri2 K) :: fan2 a (e1 :: l) from hs) with rfl | hs
        · exact hzero.symm
        · exact hflat s hs
    by_cases h1 : orient2 a e1 q < 0
    · refine Or.inl ⟨⟨a, e0, e1⟩, by simp [fan2], by rw [hT]; linarith, h0, hg, ?_⟩
      simp only [hfl]; linarith
    · rw [not_lt] at h1
      cases l with
      | nil =>
        have hclose : 0 ≤ orient2 e1 a q := by
          simpa [Ew] using hch.2
        exact head (by rw [hfl] at hclose; linarith) (by simp [fan2])
      | cons e2 l =>
        rcases ih e1 (by simp) h1 (by simpa using hch.2) with ⟨s, hs, hp, hw⟩ | ⟨hz, hflat⟩
        · exact Or.inl ⟨s, List.mem_cons_of_mem _ hs, hp, hw⟩
        · exact head hz.le hflat

/-- A fan all of whose triangles are flat cannot have a strictly inside point. -/
theorem fan_all_flat_false (a q0 : Pt K) :
    ∀ (l : List (Pt K)) (e0 : Pt K), Es q0 a e0 → List.IsChain (Es q0) (e0 :: l ++ [a]) →
      (∀ s ∈ fan2 a (e0 :: l), orient2 s.a s.b s.c = 0) → False := by
  intro l
  induction l with
  | nil =>
    intro e0 h0 hch _
    simp only [List.nil_append, List.cons_append, List.isChain_pair, Es] at hch h0
    rw [orient2_flip a e0 q0] at hch
    linarith
  | cons e1 l ih =>
    intro e0 h0 hch hflat
    simp only [List.cons_append, List.isChain_cons_cons] at hch
    have hT : orient2 a e0 e1 = 0 := hflat ⟨a, e0, e1⟩ (by simp [fan2])
    have hsum := orient2_sum a e0 e1 q0
    have hfl := orient2_flip a e1 q0
    have h1 : Es q0 a e1 := by
      unfold Es at *
      have := hch.1
      linarith
    exact ih e1 h1 (by simpa using hch.2)
      (fun s hs => hflat s (List.mem_cons_of_mem _ hs))

/-- **Fan coverage, strong form.** In a polygon with a strictly inside point q0, every point q
weakly left of all cyclic edges lies in a POSITIVELY oriented fan triangle. -/
theorem fan_cover_pos (a e0 : Pt K) (l : List (Pt K)) (q0 q : Pt K)
    (h0 : Cyc (Es q0) (a :: e0 :: l)) (h : Cyc (Ew q) (a :: e0 :: l)) :
    ∃ s ∈ fan2 a (e0 :: l), 0 < orient2 s.a s.b s.c ∧ WeakIn q s := by
  simp only [Cyc, List.cons_append, List.isChain_cons_cons] at h h0
  have hflatF := fan_all_flat_false a q0 l e0 h0.1 (by simpa using h0.2)
  cases l with
  | nil => exact absurd (by simp [fan2]) hflatF
  | cons e1 l =>
    rcases fan_cover_pos_aux a q (e1 :: l) e0 (by simp) h.1 (by simpa using h.2) with hl | ⟨_, hflat⟩
    · exact hl
    · exact absurd hflat hflatF

/-- 2-D form: a non-degenerate covering piece -/
theorem clipTri2_covers_pos (t : Tri K) (hwf : TriWF t) (q0 : Pt K) (h0 : InOpenSimplex q0)
    (h0D : ∀ p ∈ (planes : List (Plane K)), baryD p t q0 < 0) (q : Pt K) (hq : Visible t q) :
    ∃ s ∈ clipTri2 t, 0 < orient2 s.a s.b s.c ∧ WeakIn q s := by
  unfold clipTri2
  cases hs : status [t.a, t.b, t.c] with
  | visible =>
    obtain ⟨h1, h2, h3⟩ := hq.1
    refine ⟨⟨(0, 0), (1, 0), (0, 1)⟩, by simp, by simp [orient2], ?_, ?_, ?_⟩ <;>
      simp only [orient2] <;> linarith
  | hidden =>
    exfalso
    obtain ⟨p, hp, ha, hb, hc⟩ := hidden_common_plane t hwf hs
    exact absurd (baryD_pos p t q hq.1 ha hb hc) (not_lt.mpr (hq.2 p hp))
  | clipped =>
    simp only
    obtain ⟨hne, hs0, hsw⟩ := cover_clipAll2 t q0 q planes h0D hq.2 simplex3 (by simp [simplex3])
      conv_simplex3 (cyc_simplex3_strict q0 h0) (cyc_simplex3_weak q hq.1)
    obtain ⟨a, e0, e1, l, hl⟩ := three_of_strict q0 _ hne hs0
    rw [hl] at hsw hs0 ⊢
    exact fan_cover_pos a e0 (e1 :: l) q0 q hs0 hsw

/-- **P2, strong form. No inside point is lost — genuine membership.** Under the hypotheses of
`clip_covers` (well-formed outcodes, equal attribute lengths, and the visible part having
non-empty interior: some q0 of the open simplex strictly inside all six planes), every visible
point q — boundary of V included — is a CONVEX COMBINATION of the three corners of the 2-D triangle
`s` of some output triangle `tri ∈ clipTri t`, and that piece is non-degenerate
(`0 < orient2 s.a s.b s.c`). Degenerate output pieces are never needed to cover V. -/
theorem clip_covers_hull (t : Tri K) (hwf : TriWF t)
    (hlen : t.a.attr.length = t.b.attr.length ∧ t.b.attr.length = t.c.attr.length)
    (hnd : ∃ q0 : Pt K, InOpenSimplex q0 ∧ ∀ p ∈ (planes : List (Plane K)), baryD p t q0 < 0) :
    ∀ q : Pt K, Visible t q → ∃ tri ∈ clipTri t, ∃ s : Tri2 K, TriRep t s tri ∧
      0 < orient2 s.a s.b s.c ∧
      ∃ wa wb wc : K, 0 ≤ wa ∧ 0 ≤ wb ∧ 0 ≤ wc ∧ wa + wb + wc = 1 ∧
        q = comb2 wa wb wc s.a s.b s.c := by
  intro q hq
  obtain ⟨q0, h0, h0D⟩ := hnd
  obtain ⟨s, hs, hpos, hw⟩ := clipTri2_covers_pos t hwf q0 h0 h0D q hq
  obtain ⟨tri, htri, hrep⟩ := forall₂_mem_left (rep_clipTri t hwf hlen) s hs
  exact ⟨tri, htri, s, hrep, hpos, weakIn_hull q s hpos hw⟩

/-- 4-D reading: the visible point's position is the same convex combination of the output
triangle's three vertex positions. -/
theorem clip_covers_hull_pos (t : Tri K) (hwf : TriWF t)
    (hlen : t.a.attr.length = t.b.attr.length ∧ t.b.attr.length = t.c.attr.length)
    (hnd : ∃ q0 : Pt K, InOpenSimplex q0 ∧ ∀ p ∈ (planes : List (Plane K)), baryD p t q0 < 0) :
    ∀ q : Pt K, Visible t q → ∃ tri ∈ clipTri t,
      ∃ wa wb wc : K, 0 ≤ wa ∧ 0 ≤ wb ∧ 0 ≤ wc ∧ wa + wb + wc = 1 ∧
        baryPos t q = comb4 wa wb wc tri.a.pos tri.b.pos tri.c.pos := by
  intro q hq
  obtain ⟨tri, htri, s, hrep, _, wa, wb, wc, h1, h2, h3, hsum, rfl⟩ :=
    clip_covers_hull t hwf hlen hnd q hq
  refine ⟨tri, htri, wa, wb, wc, h1, h2, h3, hsum, ?_⟩
  rw [baryPos_comb2 t wa wb wc _ _ _ hsum, hrep.1.2.1, hrep.2.1.2.1, hrep.2.2.2.1]

/-! ### Non-vacuity on the two-plane triangle `Ex.T` -/

/-- the theorem applies to `T` and its visible point (2/5, 2/5) … -/
example := clip_covers_hull Ex.T Ex.T_wf Ex.T_len Ex.T_nd (2/5, 2/5) Ex.T_visible

/-- … and this is the piece it speaks of: the second fan triangle is positively oriented and
(2/5, 2/5) = ⅕·(0,0) + ⅖·(3/5,2/5) + ⅖·(2/5,3/5). -/
example : 0 < orient2 ((0 : Rat), (0 : Rat)) (3/5, 2/5) (2/5, 3/5) ∧
    ((2/5, 2/5) : Pt Rat) = comb2 (1/5) (2/5) (2/5) (0, 0) (3/5, 2/5) (2/5, 3/5) := by
  refine ⟨by norm_num [orient2], ?_⟩
  apply Prod.ext <;> norm_num [comb2]
