/-
C04 — Scan conversion covers exactly the pixels whose centres are inside.
  `Retro.Props.C04.Scan`  : per-trapezoid theorems (closed form of rows, pixel-centre rule, row order,
                            span/fragment count), `trifill_split`, `sort3_*`
  `Retro.Props.C04.Slice` : triangle level — `trifill_covers_iff`: covered ⇔ the pixel centre lies in
                            the half-open horizontal slice of the triangle
  `Retro.Props.C04.Order` : `trifill_covers_order_independent` — all six vertex orders cover the same pixels
  `Retro.Props.C04.Edge`  : the slice rule IS the three-edge-function test with a top-left-style tie rule
                            (`sliceRule_iff_inside`, `trifill_covers_iff_inside`), `inside_perm`, and the
                            shared-edge partition (`trifill_shared_edge_no_overlap`, `…_no_gap`), `inside_bary`
  `Retro.Props.C04.RowsF32` : IEEE binary32 bit level — the ROWS a scan visits in f32 are exactly the rows of the
                            exact model on the exact values of the same inputs, for |y| ≤ 2^23 − 1 (`rowsF_exact`,
                            `rowsF_eq_scan_rows`, `rowsF_increasing`, `rowsF_nodup`, `mem_rowsF_iff`, `trifill_rowsF`),
                            with witnesses of what fails beyond the bound
-/
import Retro.Props.C04.Scan
import Retro.Props.C04.Slice
import Retro.Props.C04.Order
import Retro.Props.C04.Edge
import Retro.Props.C04.RowsF32
