/-
C04: the slice rule of `trifill_covers_iff` restated as the classical THREE-EDGE-FUNCTION test with a
consistent tie rule, and the shared-edge partition corollaries.

Coordinates: screen space, x to the right, y DOWN; a point is a pair `(x, y) : K × K`.

  * `cross ux uy vx vy = ux*vy − uy*vx`
  * `edgeFn P Q p = cross (Q − P) (p − P)`             edge function of the directed edge P→Q at p
  * `orient a b c = cross (b − a) (c − a)`             twice the signed area
  * `sgn o ∈ {+1, −1, 0}`                              orientation sign
  * `Owns s dx dy := 0 < s*dy ∨ (dy = 0 ∧ s*dx < 0)`   the TIE RULE (derived from `SliceRule`/`InSlice`):
      a point lying exactly on the line of the directed edge d = (dx, dy) of a triangle of orientation
      sign s belongs to the triangle iff the edge is a RIGHT edge (s*dy > 0: the interior is on the
      side of smaller x) or a horizontal BOTTOM edge (dy = 0 and s*dx < 0: the interior is on the side
      of smaller y).  LEFT edges (s*dy < 0) and horizontal TOP edges (dy = 0, s*dx > 0) do not own
      their points.  This is exactly `min < cx ≤ max` (left exclusive, right inclusive) and
      `T.y < cy ≤ B.y` (top exclusive, bottom inclusive).
  * `EdgeOK s P Q p := 0 < s * edgeFn P Q p ∨ (edgeFn P Q p = 0 ∧ Owns s (Q.x − P.x) (Q.y − P.y))`
  * `Inside a b c p := orient a b c ≠ 0 ∧ EdgeOK s a b p ∧ EdgeOK s b c p ∧ EdgeOK s c a p`
      with s = sgn (orient a b c).

Theorems:
  * `sliceRule_iff_inside`        SliceRule T M B cx cy ⇔ Inside T M B (cx,cy) for T.y ≤ M.y ≤ B.y
  * `inside_rot`, `inside_swap`, `inside_perm`   Inside is invariant under all six vertex orders
  * `trifill_covers_iff_inside`   Covers (triFill a b c) px py ⇔ Inside a b c (px+½, py+½)
  * `shared_edge_no_overlap`, `shared_edge_no_gap` and their `trifill_…` pixel versions
  * `inside_bary`                 Inside ⇒ barycentric weights E_i / o are ≥ 0, sum to 1 and reproduce p
-/
import Retro.Props.C04.Order
import Mathlib.Tactic.Linarith
import Mathlib.Tactic.Ring
import Mathlib.Tactic.FieldSimp
import Mathlib.Tactic.Positivity
import Mathlib.Tactic.LinearCombination
import Mathlib.Tactic.NormNum

namespace Retro.Props.C04
open Retro Retro.Raster Retro.Lemmas.Raster

section Defs
variable {K : Type} [Field K] [LinearOrder K]

/-- 2-D cross product `u × v`. -/
def cross (ux uy vx vy : K) : K := ux * vy - uy * vx

/-- Edge function of the directed edge `P → Q` evaluated at `p`. -/
def edgeFn (P Q p : K × K) : K := cross (Q.1 - P.1) (Q.2 - P.2) (p.1 - P.1) (p.2 - P.2)

/-- Orientation (twice the signed area) of the triangle `a b c`. -/
def orient (a b c : K × K) : K := cross (b.1 - a.1) (b.2 - a.2) (c.1 - a.1) (c.2 - a.2)

/-- Sign as a scalar: `+1`, `−1` or `0`. -/
def sgn (o : K) : K := if 0 < o then 1 else if o < 0 then -1 else 0

/-- **Tie rule.** The directed edge `(dx, dy)` of a triangle with orientation sign `s` owns the points
of its own line iff it is a right edge (`s*dy > 0`) or a horizontal bottom edge (`dy = 0`, `s*dx < 0`). -/
def Owns (s dx dy : K) : Prop := 0 < s * dy ∨ (dy = 0 ∧ s * dx < 0)

/-- Scalar form of the per-edge test: value `e` of the edge function, edge direction `(dx, dy)`. -/
def OKs (s e dx dy : K) : Prop := 0 < s * e ∨ (e = 0 ∧ Owns s dx dy)

/-- Per-edge test: strictly on the interior side, or on the edge line and owned by the edge. -/
def EdgeOK (s : K) (P Q p : K × K) : Prop := OKs s (edgeFn P Q p) (Q.1 - P.1) (Q.2 - P.2)

/-- **Three-edge-function inside test** with the half-open tie rule. -/
def Inside (a b c p : K × K) : Prop :=
  orient a b c ≠ 0 ∧
    EdgeOK (sgn (orient a b c)) a b p ∧ EdgeOK (sgn (orient a b c)) b c p ∧
    EdgeOK (sgn (orient a b c)) c a p

/-- The screen position of a vertex tuple. -/
def pt (v : List K) : K × K := (nth0 v, nth1 v)

theorem sgn_pos {o : K} (h : 0 < o) : sgn o = 1 := by simp [sgn, h]
theorem sgn_neg {o : K} (h : o < 0) : sgn o = -1 := by simp [sgn, h, not_lt.mpr h.le]

end Defs

section Ring
variable {K : Type} [Field K]

theorem edgeFn_rev (P Q p : K × K) : edgeFn Q P p = -edgeFn P Q p := by
  unfold edgeFn cross; ring

theorem edgeFn_sum (a b c p : K × K) :
    edgeFn a b p + edgeFn b c p + edgeFn c a p = orient a b c := by
  unfold edgeFn orient cross; ring

/-- For a non-horizontal edge, the signed horizontal distance from the edge line to the point, scaled
by the edge's height, is minus the edge function. -/
theorem lineX_key (P Q : List K) (cx cy : K) (h : nth1 Q - nth1 P ≠ 0) :
    (nth1 Q - nth1 P) * (cx - lineX P Q cy) = -edgeFn (pt P) (pt Q) (cx, cy) := by
  unfold lineX edgeX edgeFn cross pt
  simp only
  field_simp
  ring

theorem orient_rot (a b c : K × K) : orient b c a = orient a b c := by
  unfold orient cross; ring

theorem orient_swap (a b c : K × K) : orient b a c = -orient a b c := by
  unfold orient cross; ring

/-- The edge functions reproduce the point: `o • p = E_bc • a + E_ca • b + E_ab • c`. -/
theorem edgeFn_bary_x (a b c p : K × K) :
    orient a b c * p.1 = edgeFn b c p * a.1 + edgeFn c a p * b.1 + edgeFn a b p * c.1 := by
  unfold orient edgeFn cross; ring

theorem edgeFn_bary_y (a b c p : K × K) :
    orient a b c * p.2 = edgeFn b c p * a.2 + edgeFn c a p * b.2 + edgeFn a b p * c.2 := by
  unfold orient edgeFn cross; ring

end Ring

section Algebra
variable {K : Type} [Field K] [LinearOrder K] [IsStrictOrderedRing K]

theorem sgn_neg_eq (o : K) : sgn (-o) = -sgn o := by
  rcases lt_trichotomy o 0 with h | h | h
  · rw [sgn_neg h, sgn_pos (by linarith : 0 < -o)]; ring
  · subst h; simp [sgn]
  · rw [sgn_pos h, sgn_neg (by linarith : -o < 0)]

omit [IsStrictOrderedRing K] in
/-- The tie rule spelled out for a positively oriented triangle (`orient > 0`; with y down this is the
clockwise-on-screen order): an edge owns its line iff it runs downwards (it is then a right edge) or is
horizontal and runs to the left (it is then the bottom edge). -/
theorem owns_one_iff (dx dy : K) : Owns 1 dx dy ↔ (0 < dy ∨ (dy = 0 ∧ dx < 0)) := by
  unfold Owns; rw [one_mul, one_mul]

/-- … and for a negatively oriented triangle: the edge runs upwards, or is horizontal and runs to the
right. -/
theorem owns_neg_one_iff (dx dy : K) : Owns (-1) dx dy ↔ (dy < 0 ∨ (dy = 0 ∧ 0 < dx)) := by
  unfold Owns
  constructor
  · rintro (h | ⟨h, h'⟩)
    · exact Or.inl (by linarith)
    · exact Or.inr ⟨h, by linarith⟩
  · rintro (h | ⟨h, h'⟩)
    · exact Or.inl (by linarith)
    · exact Or.inr ⟨h, by linarith⟩

omit [IsStrictOrderedRing K] in
/-- Strictly on the interior side of all three edges ⇒ inside (no tie rule involved). -/
theorem inside_of_strict (a b c p : K × K) (ho : orient a b c ≠ 0)
    (h1 : 0 < sgn (orient a b c) * edgeFn a b p) (h2 : 0 < sgn (orient a b c) * edgeFn b c p)
    (h3 : 0 < sgn (orient a b c) * edgeFn c a p) : Inside a b c p :=
  ⟨ho, Or.inl h1, Or.inl h2, Or.inl h3⟩

/-- The combinatorial core of `sliceRule_iff_inside`, on abstract scalars: `h1 = M.y − T.y`,
`h2 = B.y − M.y`, `u = cy − T.y`, `v = M.y − cy`, the three edge functions `e1 e2 e3` of T→M, M→B, B→T,
the x-extents `d1 d2 d3` of those edges, and the polynomial identities that tie them together. -/
theorem core_iff (h1 h2 u v o e1 e2 e3 d1 d2 d3 : K)
    (hh1 : 0 ≤ h1) (hh2 : 0 ≤ h2) (huv : u + v = h1)
    (I1 : (h1 + h2) * e1 + h1 * e3 = u * o)
    (I1' : (h1 + h2) * e2 + h2 * e3 = (h2 + v) * o)
    (I3 : h1 * e2 = v * o + h2 * e1)
    (I4 : o = d1 * (h1 + h2) + h1 * d3)
    (I5 : o = -((h1 + h2) * d2) - h2 * d3) :
    ((0 < u ∧ 0 ≤ v ∧ ((e1 < 0 ∧ e3 ≤ 0) ∨ (0 < e3 ∧ 0 ≤ e1))) ∨
     (v < 0 ∧ 0 ≤ h2 + v ∧ ((e2 < 0 ∧ e3 ≤ 0) ∨ (0 < e3 ∧ 0 ≤ e2)))) ↔
    (o ≠ 0 ∧ OKs (sgn o) e1 d1 h1 ∧ OKs (sgn o) e2 d2 h2 ∧ OKs (sgn o) e3 d3 (-(h1 + h2))) := by
  constructor
  · rintro (⟨hu, hv, hc⟩ | ⟨hv, hw, hc⟩)
    · have h1p : 0 < h1 := by linarith
      rcases hc with ⟨he1, he3⟩ | ⟨he3, he1⟩
      · -- left of TM, right of or on TB: negative orientation
        have ho : o < 0 := by
          by_contra hcon
          have a1 : 0 ≤ u * o := mul_nonneg hu.le (not_lt.mp hcon)
          have a2 : (h1 + h2) * e1 < 0 := mul_neg_of_pos_of_neg (by linarith) he1
          have a3 : h1 * e3 ≤ 0 := mul_nonpos_of_nonneg_of_nonpos hh1 he3
          linarith
        have a4 : v * o ≤ 0 := mul_nonpos_of_nonneg_of_nonpos hv ho.le
        have a5 : h2 * e1 ≤ 0 := mul_nonpos_of_nonneg_of_nonpos hh2 he1.le
        have he2 : e2 ≤ 0 := by
          by_contra hcon
          have : 0 < h1 * e2 := mul_pos h1p (not_le.mp hcon)
          linarith
        rw [sgn_neg ho]
        refine ⟨ho.ne, Or.inl (by linarith), ?_, ?_⟩
        · rcases he2.lt_or_eq with h | h
          · exact Or.inl (by linarith)
          · right
            refine ⟨h, Or.inr ?_⟩
            have hz : h2 * e1 = 0 := by rw [h] at I3; linarith
            have h20 : h2 = 0 := by
              rcases mul_eq_zero.mp hz with h' | h'
              · exact h'
              · exact absurd h' he1.ne
            refine ⟨h20, ?_⟩
            have : (h1 + h2) * d2 > 0 := by rw [h20] at I5 ⊢; linarith
            have : 0 < d2 := by
              by_contra hcon
              have : (h1 + h2) * d2 ≤ 0 :=
                mul_nonpos_of_nonneg_of_nonpos (by linarith) (not_lt.mp hcon)
              linarith
            linarith
        · rcases he3.lt_or_eq with h | h
          · exact Or.inl (by linarith)
          · exact Or.inr ⟨h, Or.inl (by linarith)⟩
      · -- right of TB, left of or on TM: positive orientation
        have ho : 0 < o := by
          by_contra hcon
          have a1 : u * o ≤ 0 := mul_nonpos_of_nonneg_of_nonpos hu.le (not_lt.mp hcon)
          have a2 : 0 ≤ (h1 + h2) * e1 := mul_nonneg (by linarith) he1
          have a3 : 0 < h1 * e3 := mul_pos h1p he3
          linarith
        have a4 : 0 ≤ v * o := mul_nonneg hv ho.le
        have a5 : 0 ≤ h2 * e1 := mul_nonneg hh2 he1
        have he2 : 0 ≤ e2 := by
          by_contra hcon
          have : h1 * e2 < 0 := mul_neg_of_pos_of_neg h1p (not_le.mp hcon)
          linarith
        rw [sgn_pos ho]
        refine ⟨ho.ne', ?_, ?_, Or.inl (by linarith)⟩
        · rcases he1.lt_or_eq with h | h
          · exact Or.inl (by linarith)
          · exact Or.inr ⟨h.symm, Or.inl (by linarith)⟩
        · rcases he2.lt_or_eq with h | h
          · exact Or.inl (by linarith)
          · right
            refine ⟨h.symm, ?_⟩
            rcases hh2.lt_or_eq with h2p | h20
            · exact Or.inl (by linarith)
            · right
              refine ⟨h20.symm, ?_⟩
              have : (h1 + h2) * d2 < 0 := by rw [← h20] at I5 ⊢; linarith
              have : d2 < 0 := by
                by_contra hcon
                have : 0 ≤ (h1 + h2) * d2 := mul_nonneg (by linarith) (not_lt.mp hcon)
                linarith
              linarith
    · have h2p : 0 < h2 := by linarith
      rcases hc with ⟨he2, he3⟩ | ⟨he3, he2⟩
      · have ho : o < 0 := by
          by_contra hcon
          have a1 : 0 ≤ (h2 + v) * o := mul_nonneg hw (not_lt.mp hcon)
          have a2 : (h1 + h2) * e2 < 0 := mul_neg_of_pos_of_neg (by linarith) he2
          have a3 : h2 * e3 ≤ 0 := mul_nonpos_of_nonneg_of_nonpos hh2 he3
          linarith
        have a4 : 0 < v * o := mul_pos_of_neg_of_neg hv ho
        have a5 : h1 * e2 ≤ 0 := mul_nonpos_of_nonneg_of_nonpos hh1 he2.le
        have he1 : e1 < 0 := by
          by_contra hcon
          have : 0 ≤ h2 * e1 := mul_nonneg hh2 (not_lt.mp hcon)
          linarith
        rw [sgn_neg ho]
        refine ⟨ho.ne, Or.inl (by linarith), Or.inl (by linarith), ?_⟩
        rcases he3.lt_or_eq with h | h
        · exact Or.inl (by linarith)
        · exact Or.inr ⟨h, Or.inl (by linarith)⟩
      · have ho : 0 < o := by
          by_contra hcon
          have a1 : (h2 + v) * o ≤ 0 := mul_nonpos_of_nonneg_of_nonpos hw (not_lt.mp hcon)
          have a2 : 0 ≤ (h1 + h2) * e2 := mul_nonneg (by linarith) he2
          have a3 : 0 < h2 * e3 := mul_pos h2p he3
          linarith
        have a4 : v * o < 0 := mul_neg_of_neg_of_pos hv ho
        have a5 : 0 ≤ h1 * e2 := mul_nonneg hh1 he2
        have he1 : 0 < e1 := by
          by_contra hcon
          have : h2 * e1 ≤ 0 := mul_nonpos_of_nonneg_of_nonpos hh2 (not_lt.mp hcon)
          linarith
        rw [sgn_pos ho]
        refine ⟨ho.ne', Or.inl (by linarith), ?_, Or.inl (by linarith)⟩
        rcases he2.lt_or_eq with h | h
        · exact Or.inl (by linarith)
        · exact Or.inr ⟨h.symm, Or.inl (by linarith)⟩
  · rintro ⟨ho, k1, k2, k3⟩
    have hH : 0 < h1 + h2 := by
      rcases (add_nonneg hh1 hh2).lt_or_eq with h | h
      · exact h
      · exfalso
        have : h1 = 0 := by linarith
        rw [← h, this] at I4
        apply ho; rw [I4]; ring
    rcases lt_or_gt_of_ne ho with hneg | hpos
    · rw [sgn_neg hneg] at k1 k2 k3
      unfold OKs Owns at k1 k2 k3
      have he1 : e1 < 0 := by
        rcases k1 with h | ⟨h, h' | ⟨h', h''⟩⟩
        · linarith
        · linarith
        · exfalso
          rw [h'] at I4
          have : 0 < d1 * (0 + h2) := mul_pos (by linarith) (by linarith)
          linarith
      have he3 : e3 ≤ 0 := by
        rcases k3 with h | ⟨h, -⟩
        · linarith
        · exact h.le
      have b1 : (h1 + h2) * e1 < 0 := mul_neg_of_pos_of_neg hH he1
      have b2 : h1 * e3 ≤ 0 := mul_nonpos_of_nonneg_of_nonpos hh1 he3
      have hu : 0 < u := by
        by_contra hcon
        have : 0 ≤ u * o := mul_nonneg_of_nonpos_of_nonpos (not_lt.mp hcon) hneg.le
        linarith
      rcases le_or_gt 0 v with hv | hv
      · exact Or.inl ⟨hu, hv, Or.inl ⟨he1, he3⟩⟩
      · right
        have he2' : e2 ≤ 0 := by
          rcases k2 with h | ⟨h, -⟩
          · linarith
          · exact h.le
        have b3 : (h1 + h2) * e2 ≤ 0 := mul_nonpos_of_nonneg_of_nonpos hH.le he2'
        have b4 : h2 * e3 ≤ 0 := mul_nonpos_of_nonneg_of_nonpos hh2 he3
        have hw : 0 ≤ h2 + v := by
          by_contra hcon
          have : 0 < (h2 + v) * o := mul_pos_of_neg_of_neg (not_le.mp hcon) hneg
          linarith
        have he2 : e2 < 0 := by
          rcases k2 with h | ⟨h, h' | ⟨h', h''⟩⟩
          · linarith
          · linarith
          · exfalso; linarith
        exact ⟨hv, hw, Or.inl ⟨he2, he3⟩⟩
    · rw [sgn_pos hpos] at k1 k2 k3
      unfold OKs Owns at k1 k2 k3
      have he3 : 0 < e3 := by
        rcases k3 with h | ⟨h, h' | ⟨h', h''⟩⟩
        · linarith
        · linarith
        · linarith
      have he1 : 0 ≤ e1 := by
        rcases k1 with h | ⟨h, -⟩
        · linarith
        · exact h.ge
      have he2 : 0 ≤ e2 := by
        rcases k2 with h | ⟨h, -⟩
        · linarith
        · exact h.ge
      rcases le_or_gt 0 v with hv | hv
      · left
        have b1 : 0 ≤ (h1 + h2) * e1 := mul_nonneg hH.le he1
        have b2 : 0 ≤ h1 * e3 := mul_nonneg hh1 he3.le
        have hu0 : 0 ≤ u := by
          by_contra hcon
          have : u * o < 0 := mul_neg_of_neg_of_pos (not_le.mp hcon) hpos
          linarith
        have hu : 0 < u := by
          rcases hu0.lt_or_eq with h | h
          · exact h
          · exfalso
            have h10 : h1 = 0 := by
              by_contra hcon
              have : 0 < h1 * e3 := mul_pos (lt_of_le_of_ne hh1 (Ne.symm hcon)) he3
              rw [← h] at I1; linarith
            have e10 : e1 = 0 := by
              rw [← h, h10] at I1
              have : (0 + h2) * e1 = 0 := by linarith
              rcases mul_eq_zero.mp this with h' | h'
              · linarith
              · exact h'
            rcases k1 with h' | ⟨-, h' | ⟨-, h''⟩⟩
            · rw [e10] at h'; linarith
            · linarith
            · rw [h10] at I4
              have : d1 * (0 + h2) < 0 := mul_neg_of_neg_of_pos (by linarith) (by linarith)
              linarith
        exact ⟨hu, hv, Or.inr ⟨he3, he1⟩⟩
      · right
        have b3 : 0 ≤ (h1 + h2) * e2 := mul_nonneg hH.le he2
        have b4 : 0 ≤ h2 * e3 := mul_nonneg hh2 he3.le
        have hw : 0 ≤ h2 + v := by
          by_contra hcon
          have : (h2 + v) * o < 0 := mul_neg_of_neg_of_pos (not_le.mp hcon) hpos
          linarith
        exact ⟨hv, hw, Or.inr ⟨he3, he2⟩⟩


/-! ### Edge functions versus edge lines -/

theorem lineX_lt_iff (P Q : List K) (cx cy : K) (h : nth1 P < nth1 Q) :
    lineX P Q cy < cx ↔ edgeFn (pt P) (pt Q) (cx, cy) < 0 := by
  have hd : 0 < nth1 Q - nth1 P := by linarith
  have key := lineX_key P Q cx cy hd.ne'
  constructor
  · intro hl
    have : 0 < (nth1 Q - nth1 P) * (cx - lineX P Q cy) := mul_pos hd (by linarith)
    linarith
  · intro he
    by_contra hcon
    have : (nth1 Q - nth1 P) * (cx - lineX P Q cy) ≤ 0 :=
      mul_nonpos_of_nonneg_of_nonpos hd.le (by linarith [not_lt.mp hcon])
    linarith

theorem le_lineX_iff (P Q : List K) (cx cy : K) (h : nth1 P < nth1 Q) :
    cx ≤ lineX P Q cy ↔ 0 ≤ edgeFn (pt P) (pt Q) (cx, cy) := by
  rw [← not_lt, lineX_lt_iff P Q cx cy h, not_lt]

theorem inSlice_iff (x1 x2 cx : K) :
    InSlice x1 x2 cx ↔ (x1 < cx ∧ cx ≤ x2) ∨ (x2 < cx ∧ cx ≤ x1) := by
  unfold InSlice
  rcases le_total x1 x2 with h | h
  · rw [min_eq_left h, max_eq_right h]
    constructor
    · exact Or.inl
    · rintro (h' | ⟨p, q⟩)
      · exact h'
      · exfalso; linarith
  · rw [min_eq_right h, max_eq_left h]
    constructor
    · exact Or.inr
    · rintro (⟨p, q⟩ | h')
      · exfalso; linarith
      · exact h'

/-- The half-open slice between two non-horizontal edge lines, as sign conditions on their edge
functions (both edges directed downwards). -/
theorem inSlice_lineX_iff (P Q R S : List K) (cx cy : K) (hPQ : nth1 P < nth1 Q) (hRS : nth1 R < nth1 S) :
    InSlice (lineX P Q cy) (lineX R S cy) cx ↔
      (edgeFn (pt P) (pt Q) (cx, cy) < 0 ∧ 0 ≤ edgeFn (pt R) (pt S) (cx, cy)) ∨
      (edgeFn (pt R) (pt S) (cx, cy) < 0 ∧ 0 ≤ edgeFn (pt P) (pt Q) (cx, cy)) := by
  rw [inSlice_iff, lineX_lt_iff P Q cx cy hPQ, le_lineX_iff R S cx cy hRS,
    lineX_lt_iff R S cx cy hRS, le_lineX_iff P Q cx cy hPQ]

/-- **Slice rule = three-edge-function test.** For y-sorted vertices T, M, B (ties allowed, flat tops,
flat bottoms and collinear triples included — for the latter both sides are false) the half-open slice
rule that `tri_fill` implements is the edge-function inside test with the tie rule `Owns`. -/
theorem sliceRule_iff_inside (T M B : List K) (cx cy : K)
    (h1 : nth1 T ≤ nth1 M) (h2 : nth1 M ≤ nth1 B) :
    SliceRule T M B cx cy ↔ Inside (pt T) (pt M) (pt B) (cx, cy) := by
  have core := core_iff (nth1 M - nth1 T) (nth1 B - nth1 M) (cy - nth1 T) (nth1 M - cy)
    (orient (pt T) (pt M) (pt B))
    (edgeFn (pt T) (pt M) (cx, cy)) (edgeFn (pt M) (pt B) (cx, cy)) (edgeFn (pt B) (pt T) (cx, cy))
    (nth0 M - nth0 T) (nth0 B - nth0 M) (nth0 T - nth0 B)
    (by linarith) (by linarith) (by ring)
    (by simp only [orient, edgeFn, cross, pt]; ring)
    (by simp only [orient, edgeFn, cross, pt]; ring)
    (by simp only [orient, edgeFn, cross, pt]; ring)
    (by simp only [orient, cross, pt]; ring)
    (by simp only [orient, cross, pt]; ring)
  have hneg : nth1 T - nth1 B = -(nth1 M - nth1 T + (nth1 B - nth1 M)) := by ring
  have hin : Inside (pt T) (pt M) (pt B) (cx, cy) ↔
      (orient (pt T) (pt M) (pt B) ≠ 0 ∧
        OKs (sgn (orient (pt T) (pt M) (pt B))) (edgeFn (pt T) (pt M) (cx, cy)) (nth0 M - nth0 T) (nth1 M - nth1 T) ∧
        OKs (sgn (orient (pt T) (pt M) (pt B))) (edgeFn (pt M) (pt B) (cx, cy)) (nth0 B - nth0 M) (nth1 B - nth1 M) ∧
        OKs (sgn (orient (pt T) (pt M) (pt B))) (edgeFn (pt B) (pt T) (cx, cy)) (nth0 T - nth0 B)
          (-(nth1 M - nth1 T + (nth1 B - nth1 M)))) := by
    rw [← hneg]; rfl
  rw [hin, ← core]
  have hrev : edgeFn (pt T) (pt B) (cx, cy) = -edgeFn (pt B) (pt T) (cx, cy) := edgeFn_rev _ _ _
  unfold SliceRule
  apply or_congr
  · constructor
    · rintro ⟨a, b, c⟩
      rw [inSlice_lineX_iff T M T B cx cy (by linarith) (by linarith), hrev] at c
      refine ⟨by linarith, by linarith, ?_⟩
      rcases c with ⟨p, q⟩ | ⟨p, q⟩
      · exact Or.inl ⟨p, by linarith⟩
      · exact Or.inr ⟨by linarith, q⟩
    · rintro ⟨a, b, c⟩
      refine ⟨by linarith, by linarith, ?_⟩
      rw [inSlice_lineX_iff T M T B cx cy (by linarith) (by linarith), hrev]
      rcases c with ⟨p, q⟩ | ⟨p, q⟩
      · exact Or.inl ⟨p, by linarith⟩
      · exact Or.inr ⟨by linarith, q⟩
  · constructor
    · rintro ⟨a, b, c⟩
      rw [inSlice_lineX_iff M B T B cx cy (by linarith) (by linarith), hrev] at c
      refine ⟨by linarith, by linarith, ?_⟩
      rcases c with ⟨p, q⟩ | ⟨p, q⟩
      · exact Or.inl ⟨p, by linarith⟩
      · exact Or.inr ⟨by linarith, q⟩
    · rintro ⟨a, b, c⟩
      refine ⟨by linarith, by linarith, ?_⟩
      rw [inSlice_lineX_iff M B T B cx cy (by linarith) (by linarith), hrev]
      rcases c with ⟨p, q⟩ | ⟨p, q⟩
      · exact Or.inl ⟨p, by linarith⟩
      · exact Or.inr ⟨by linarith, q⟩

/-! ### Invariance under vertex permutations -/

/-- Reversing an edge together with the orientation sign does not change the per-edge test. -/
theorem edgeOK_rev (s : K) (P Q p : K × K) : EdgeOK (-s) Q P p ↔ EdgeOK s P Q p := by
  unfold EdgeOK OKs Owns
  rw [edgeFn_rev P Q p]
  have a1 : -s * -(edgeFn P Q p) = s * edgeFn P Q p := by ring
  have a2 : -s * (P.2 - Q.2) = s * (Q.2 - P.2) := by ring
  have a3 : -s * (P.1 - Q.1) = s * (Q.1 - P.1) := by ring
  have a4 : P.2 - Q.2 = 0 ↔ Q.2 - P.2 = 0 := by constructor <;> intro h <;> linarith
  rw [a1, a2, a3, a4, neg_eq_zero]

omit [IsStrictOrderedRing K] in
/-- Cyclic rotation of the vertices. -/
theorem inside_rot (a b c p : K × K) : Inside b c a p ↔ Inside a b c p := by
  unfold Inside
  rw [orient_rot]
  constructor
  · rintro ⟨h0, h1, h2, h3⟩; exact ⟨h0, h3, h1, h2⟩
  · rintro ⟨h0, h1, h2, h3⟩; exact ⟨h0, h2, h3, h1⟩

/-- Exchange of the first two vertices (orientation flips, every edge is reversed). -/
theorem inside_swap (a b c p : K × K) : Inside b a c p ↔ Inside a b c p := by
  unfold Inside
  rw [orient_swap, sgn_neg_eq, neg_ne_zero, edgeOK_rev, edgeOK_rev, edgeOK_rev]
  constructor
  · rintro ⟨h0, h1, h2, h3⟩; exact ⟨h0, h1, h3, h2⟩
  · rintro ⟨h0, h1, h2, h3⟩; exact ⟨h0, h1, h3, h2⟩

/-- **`Inside` does not depend on the order of the three vertices** (all five non-identity orders). -/
theorem inside_perm (a b c p : K × K) :
    (Inside b a c p ↔ Inside a b c p) ∧ (Inside a c b p ↔ Inside a b c p) ∧
    (Inside c b a p ↔ Inside a b c p) ∧ (Inside b c a p ↔ Inside a b c p) ∧
    (Inside c a b p ↔ Inside a b c p) := by
  have r1 := inside_rot a b c p
  have r2 := (inside_rot b c a p).trans r1
  refine ⟨inside_swap a b c p, ?_, ?_, r1, r2⟩
  · -- a c b = swap of (c a b)
    exact (inside_swap c a b p).trans r2
  · -- c b a = swap of (b c a)
    exact (inside_swap b c a p).trans r1

/-! ### Shared-edge partition, on points -/

/-- Two triangles on opposite sides of their common edge a–b never both contain a point: on the shared
edge line their edge functions coincide while the orientation signs are opposite, and `Owns` gives the
line to exactly one side. -/
theorem shared_edge_no_overlap (a b c d p : K × K)
    (hopp : (0 < orient a b c ∧ orient a b d < 0) ∨ (orient a b c < 0 ∧ 0 < orient a b d)) :
    ¬ (Inside a b c p ∧ Inside a b d p) := by
  rintro ⟨⟨-, k1, -, -⟩, ⟨-, k2, -, -⟩⟩
  rcases hopp with ⟨o1, o2⟩ | ⟨o1, o2⟩
  · rw [sgn_pos o1] at k1; rw [sgn_neg o2] at k2
    unfold EdgeOK OKs Owns at k1 k2
    rcases k1 with h | ⟨h, h' | ⟨h', h''⟩⟩ <;> rcases k2 with g | ⟨g, g' | ⟨g', g''⟩⟩ <;> linarith
  · rw [sgn_neg o1] at k1; rw [sgn_pos o2] at k2
    unfold EdgeOK OKs Owns at k1 k2
    rcases k1 with h | ⟨h, h' | ⟨h', h''⟩⟩ <;> rcases k2 with g | ⟨g, g' | ⟨g', g''⟩⟩ <;> linarith

/-- A non-degenerate edge direction is owned by exactly one of the two orientation signs. -/
theorem owns_flip (dx dy : K) (h : dx ≠ 0 ∨ dy ≠ 0) :
    (Owns 1 dx dy ∨ Owns (-1) dx dy) ∧ ¬ (Owns 1 dx dy ∧ Owns (-1) dx dy) := by
  unfold Owns
  constructor
  · rcases lt_trichotomy dy 0 with hy | hy | hy
    · exact Or.inr (Or.inl (by linarith))
    · have hx : dx ≠ 0 := by
        rcases h with h | h
        · exact h
        · exact absurd hy h
      rcases lt_or_gt_of_ne hx with hx | hx
      · exact Or.inl (Or.inr ⟨hy, by linarith⟩)
      · exact Or.inr (Or.inr ⟨hy, by linarith⟩)
    · exact Or.inl (Or.inl (by linarith))
  · rintro ⟨h1 | ⟨h1, h1'⟩, h2 | ⟨h2, h2'⟩⟩ <;> linarith

/-- A point on the shared edge line that is strictly inside with respect to the other two edges of both
triangles belongs to exactly one of them: no gap and no double cover along a shared edge. -/
theorem shared_edge_no_gap (a b c d p : K × K) (hab : a ≠ b)
    (hopp : (0 < orient a b c ∧ orient a b d < 0) ∨ (orient a b c < 0 ∧ 0 < orient a b d))
    (hE : edgeFn a b p = 0)
    (hbc : 0 < sgn (orient a b c) * edgeFn b c p) (hca : 0 < sgn (orient a b c) * edgeFn c a p)
    (hbd : 0 < sgn (orient a b d) * edgeFn b d p) (hda : 0 < sgn (orient a b d) * edgeFn d a p) :
    (Inside a b c p ∨ Inside a b d p) ∧ ¬ (Inside a b c p ∧ Inside a b d p) := by
  refine ⟨?_, shared_edge_no_overlap a b c d p hopp⟩
  have hd : b.1 - a.1 ≠ 0 ∨ b.2 - a.2 ≠ 0 := by
    by_contra hcon
    rw [not_or, not_not, not_not] at hcon
    apply hab
    ext
    · linarith [hcon.1]
    · linarith [hcon.2]
  have hown := (owns_flip (b.1 - a.1) (b.2 - a.2) hd).1
  have mk : ∀ (e : K × K) (s : K), orient a b e ≠ 0 → sgn (orient a b e) = s →
      0 < sgn (orient a b e) * edgeFn b e p → 0 < sgn (orient a b e) * edgeFn e a p →
      Owns s (b.1 - a.1) (b.2 - a.2) → Inside a b e p := by
    intro e s h0 hs h1 h2 hown
    refine ⟨h0, Or.inr ⟨hE, ?_⟩, Or.inl h1, Or.inl h2⟩
    rw [hs]; exact hown
  rcases hopp with ⟨o1, o2⟩ | ⟨o1, o2⟩
  · rcases hown with h | h
    · exact Or.inl (mk c 1 o1.ne' (sgn_pos o1) hbc hca h)
    · exact Or.inr (mk d (-1) o2.ne (sgn_neg o2) hbd hda h)
  · rcases hown with h | h
    · exact Or.inr (mk d 1 o2.ne' (sgn_pos o2) hbd hda h)
    · exact Or.inl (mk c (-1) o1.ne (sgn_neg o1) hbc hca h)

/-! ### Barycentric weights -/

theorem sgn_mul_div_abs (o e : K) (ho : o ≠ 0) : sgn o * e / |o| = e / o := by
  rcases lt_or_gt_of_ne ho with h | h
  · rw [sgn_neg h, abs_of_neg h]
    field_simp
  · rw [sgn_pos h, abs_of_pos h, one_mul]

omit [IsStrictOrderedRing K] in
theorem edgeOK_nonneg {s : K} {P Q p : K × K} (h : EdgeOK s P Q p) : 0 ≤ s * edgeFn P Q p := by
  rcases h with h | ⟨h, -⟩
  · exact h.le
  · rw [h, mul_zero]

/-- **A covered point is a convex combination of the vertices.** With `o = orient a b c`, the
normalised barycentric weights `wa = E_bc / o`, `wb = E_ca / o`, `wc = E_ab / o` (equal to
`s * E_i / |o|`, see `sgn_mul_div_abs`) of a point passing the inside test are non-negative, sum to 1,
and reproduce the point. -/
theorem inside_bary (a b c p : K × K) (h : Inside a b c p) :
    0 ≤ edgeFn b c p / orient a b c ∧ 0 ≤ edgeFn c a p / orient a b c ∧
    0 ≤ edgeFn a b p / orient a b c ∧
    edgeFn b c p / orient a b c + edgeFn c a p / orient a b c + edgeFn a b p / orient a b c = 1 ∧
    p.1 = edgeFn b c p / orient a b c * a.1 + edgeFn c a p / orient a b c * b.1
            + edgeFn a b p / orient a b c * c.1 ∧
    p.2 = edgeFn b c p / orient a b c * a.2 + edgeFn c a p / orient a b c * b.2
            + edgeFn a b p / orient a b c * c.2 := by
  obtain ⟨ho, k1, k2, k3⟩ := h
  have n1 := edgeOK_nonneg k1
  have n2 := edgeOK_nonneg k2
  have n3 := edgeOK_nonneg k3
  have hsum := edgeFn_sum a b c p
  have hx := edgeFn_bary_x a b c p
  have hy := edgeFn_bary_y a b c p
  have hw : ∀ e : K, 0 ≤ sgn (orient a b c) * e → 0 ≤ e / orient a b c := by
    intro e he
    rcases lt_or_gt_of_ne ho with hn | hp
    · rw [sgn_neg hn] at he
      exact div_nonneg_of_nonpos (by linarith) hn.le
    · rw [sgn_pos hp] at he
      exact div_nonneg (by linarith) hp.le
  refine ⟨hw _ n2, hw _ n3, hw _ n1, ?_, ?_, ?_⟩
  · rw [← add_div, ← add_div, div_eq_one_iff_eq ho]; linarith
  · field_simp; linarith
  · field_simp; linarith

end Algebra

/-! ### Pixel-level statements about `tri_fill` -/

section Pixels
variable {K : Type} [Field K] [LinearOrder K] [IsStrictOrderedRing K] [FloorRing K]
attribute [local instance] hasFloorK hasToNatK

omit [FloorRing K] in
/-- The inside test on the y-sorted triple is the inside test on the triangle as given. -/
theorem inside_sort3 (a b c : List K) (p : K × K) :
    Inside (pt (sort3 a b c).1) (pt (sort3 a b c).2.1) (pt (sort3 a b c).2.2) p ↔
      Inside (pt a) (pt b) (pt c) p := by
  obtain ⟨p1, p2, p3, p4, p5⟩ := inside_perm (pt a) (pt b) (pt c) p
  unfold sort3
  by_cases h1 : nth1 b < nth1 a <;> simp only [h1, if_true, if_false] <;>
  · split_ifs <;> simp only <;>
    first
      | exact Iff.rfl
      | exact p1
      | exact p2
      | exact p3
      | exact p4
      | exact p5

/-- **`tri_fill` = three-edge-function test.** For every triangle with y ≥ −½ (tuples of a common
length ≥ 2, any vertex order, degenerate triangles included), pixel (px, py) is covered iff its centre
passes the edge-function inside test with the tie rule `Owns` — no tolerance. -/
theorem trifill_covers_iff_inside (a b c : List K) (m : Nat) (hm : 1 < m)
    (ha : a.length = m) (hb : b.length = m) (hc : c.length = m)
    (hy : ∀ v ∈ [a, b, c], -(1 / 2) ≤ nth1 v) (px py : Nat) :
    Covers (triFill a b c) px py ↔
      Inside (pt a) (pt b) (pt c) ((px : K) + 1 / 2, (py : K) + 1 / 2) := by
  rw [trifill_covers_iff_rule a b c m hm ha hb hc hy px py,
    sliceRule_iff_inside _ _ _ _ _ (sort3_sorted a b c).1 (sort3_sorted a b c).2,
    inside_sort3]

/-- Two triangles sharing the edge a–b, with third vertices strictly on opposite sides of it, never
cover the same pixel. -/
theorem trifill_shared_edge_no_overlap (a b c d : List K) (m : Nat) (hm : 1 < m)
    (ha : a.length = m) (hb : b.length = m) (hc : c.length = m) (hd : d.length = m)
    (hy : ∀ v ∈ [a, b, c, d], -(1 / 2) ≤ nth1 v)
    (hopp : (0 < orient (pt a) (pt b) (pt c) ∧ orient (pt a) (pt b) (pt d) < 0) ∨
            (orient (pt a) (pt b) (pt c) < 0 ∧ 0 < orient (pt a) (pt b) (pt d)))
    (px py : Nat) :
    ¬ (Covers (triFill a b c) px py ∧ Covers (triFill a b d) px py) := by
  have hyc : ∀ v ∈ [a, b, c], -(1 / 2) ≤ nth1 v := by
    intro v hv; apply hy
    simp only [List.mem_cons, List.mem_nil_iff, or_false] at hv ⊢
    tauto
  have hyd : ∀ v ∈ [a, b, d], -(1 / 2) ≤ nth1 v := by
    intro v hv; apply hy
    simp only [List.mem_cons, List.mem_nil_iff, or_false] at hv ⊢
    tauto
  rw [trifill_covers_iff_inside a b c m hm ha hb hc hyc, trifill_covers_iff_inside a b d m hm ha hb hd hyd]
  exact shared_edge_no_overlap _ _ _ _ _ hopp

/-- A pixel whose centre lies exactly on the shared edge line, strictly inside with respect to the other
two edges of both triangles, is covered by exactly one of the two triangles. -/
theorem trifill_shared_edge_no_gap (a b c d : List K) (m : Nat) (hm : 1 < m)
    (ha : a.length = m) (hb : b.length = m) (hc : c.length = m) (hd : d.length = m)
    (hy : ∀ v ∈ [a, b, c, d], -(1 / 2) ≤ nth1 v)
    (hab : pt a ≠ pt b)
    (hopp : (0 < orient (pt a) (pt b) (pt c) ∧ orient (pt a) (pt b) (pt d) < 0) ∨
            (orient (pt a) (pt b) (pt c) < 0 ∧ 0 < orient (pt a) (pt b) (pt d)))
    (px py : Nat)
    (hE : edgeFn (pt a) (pt b) ((px : K) + 1 / 2, (py : K) + 1 / 2) = 0)
    (hbc : 0 < sgn (orient (pt a) (pt b) (pt c)) * edgeFn (pt b) (pt c) ((px : K) + 1 / 2, (py : K) + 1 / 2))
    (hca : 0 < sgn (orient (pt a) (pt b) (pt c)) * edgeFn (pt c) (pt a) ((px : K) + 1 / 2, (py : K) + 1 / 2))
    (hbd : 0 < sgn (orient (pt a) (pt b) (pt d)) * edgeFn (pt b) (pt d) ((px : K) + 1 / 2, (py : K) + 1 / 2))
    (hda : 0 < sgn (orient (pt a) (pt b) (pt d)) * edgeFn (pt d) (pt a) ((px : K) + 1 / 2, (py : K) + 1 / 2)) :
    (Covers (triFill a b c) px py ∨ Covers (triFill a b d) px py) ∧
    ¬ (Covers (triFill a b c) px py ∧ Covers (triFill a b d) px py) := by
  have hyc : ∀ v ∈ [a, b, c], -(1 / 2) ≤ nth1 v := by
    intro v hv; apply hy
    simp only [List.mem_cons, List.mem_nil_iff, or_false] at hv ⊢
    tauto
  have hyd : ∀ v ∈ [a, b, d], -(1 / 2) ≤ nth1 v := by
    intro v hv; apply hy
    simp only [List.mem_cons, List.mem_nil_iff, or_false] at hv ⊢
    tauto
  rw [trifill_covers_iff_inside a b c m hm ha hb hc hyc, trifill_covers_iff_inside a b d m hm ha hb hd hyd]
  exact shared_edge_no_gap _ _ _ _ _ hab hopp hE hbc hca hbd hda

end Pixels

/-! ### Non-vacuity (ℚ) -/

section Examples
attribute [local instance] hasFloorK hasToNatK

/-- The centre (4½, 3½) is inside the triangle (2,1), (8,5), (4,6); the centre (2½, 3½) is not. -/
example : Inside ((2, 1) : ℚ × ℚ) (8, 5) (4, 6) (4 + 1 / 2, 3 + 1 / 2) ∧
    ¬ Inside ((2, 1) : ℚ × ℚ) (8, 5) (4, 6) (2 + 1 / 2, 3 + 1 / 2) := by
  constructor <;> norm_num [Inside, EdgeOK, OKs, Owns, edgeFn, orient, cross, sgn]

/-- The same through `tri_fill`, and in agreement with the slice-rule example of `Slice.lean`:
pixel (4,3) is covered, pixel (2,3) is not. -/
example : Covers (triFill (α := Rat) [2, 1] [8, 5] [4, 6]) 4 3 ∧
    ¬ Covers (triFill (α := Rat) [2, 1] [8, 5] [4, 6]) 2 3 := by
  have hyv : ∀ v ∈ [([2, 1] : List Rat), [8, 5], [4, 6]], -(1 / 2) ≤ nth1 v := by
    intro v hv
    simp only [List.mem_cons, List.mem_nil_iff, or_false] at hv
    rcases hv with rfl | rfl | rfl <;> norm_num [nth1]
  have h1 := trifill_covers_iff_inside (K := Rat) [2, 1] [8, 5] [4, 6] 2 (by omega) rfl rfl rfl hyv 4 3
  have h2 := trifill_covers_iff_inside (K := Rat) [2, 1] [8, 5] [4, 6] 2 (by omega) rfl rfl rfl hyv 2 3
  refine ⟨h1.mpr ?_, fun hc => absurd (h2.mp hc) ?_⟩ <;>
    norm_num [Inside, EdgeOK, OKs, Owns, edgeFn, orient, cross, sgn, pt, nth0, nth1]

/-- A centre exactly on a shared edge: the square (0,0)–(4,4) split along the diagonal a = (0,0),
b = (4,4) into the upper-right triangle (third vertex c = (4,0)) and the lower-left triangle (third
vertex d = (0,4)). The centre (2½, 2½) is on the diagonal; the diagonal is the LEFT edge of a b c (not
owned) and the RIGHT edge of a b d (owned): the point belongs to a b d only. -/
example : edgeFn ((0, 0) : ℚ × ℚ) (4, 4) (2 + 1 / 2, 2 + 1 / 2) = 0 ∧
    ¬ Inside ((0, 0) : ℚ × ℚ) (4, 4) (4, 0) (2 + 1 / 2, 2 + 1 / 2) ∧
    Inside ((0, 0) : ℚ × ℚ) (4, 4) (0, 4) (2 + 1 / 2, 2 + 1 / 2) := by
  refine ⟨?_, ?_, ?_⟩ <;> norm_num [Inside, EdgeOK, OKs, Owns, edgeFn, orient, cross, sgn]

/-- The hypotheses of `trifill_shared_edge_no_gap` are satisfiable (same square, pixel (2,2)), and its
conclusion is the expected one: exactly the lower-left triangle covers the pixel on the diagonal. -/
example : (Covers (triFill (α := Rat) [0, 0] [4, 4] [4, 0]) 2 2 ∨
      Covers (triFill (α := Rat) [0, 0] [4, 4] [0, 4]) 2 2) ∧
    ¬ (Covers (triFill (α := Rat) [0, 0] [4, 4] [4, 0]) 2 2 ∧
      Covers (triFill (α := Rat) [0, 0] [4, 4] [0, 4]) 2 2) := by
  have hyv : ∀ v ∈ [([0, 0] : List Rat), [4, 4], [4, 0], [0, 4]], -(1 / 2) ≤ nth1 v := by
    intro v hv
    simp only [List.mem_cons, List.mem_nil_iff, or_false] at hv
    rcases hv with rfl | rfl | rfl | rfl <;> norm_num [nth1]
  apply trifill_shared_edge_no_gap (K := Rat) [0, 0] [4, 4] [4, 0] [0, 4] 2 (by omega) rfl rfl rfl rfl hyv
  · norm_num [pt, nth0, nth1]
  · right; norm_num [orient, cross, pt, nth0, nth1]
  all_goals norm_num [edgeFn, orient, cross, sgn, pt, nth0, nth1]

example : ¬ Covers (triFill (α := Rat) [0, 0] [4, 4] [4, 0]) 2 2 ∧
    Covers (triFill (α := Rat) [0, 0] [4, 4] [0, 4]) 2 2 := by
  have hy1 : ∀ v ∈ [([0, 0] : List Rat), [4, 4], [4, 0]], -(1 / 2) ≤ nth1 v := by
    intro v hv
    simp only [List.mem_cons, List.mem_nil_iff, or_false] at hv
    rcases hv with rfl | rfl | rfl <;> norm_num [nth1]
  have hy2 : ∀ v ∈ [([0, 0] : List Rat), [4, 4], [0, 4]], -(1 / 2) ≤ nth1 v := by
    intro v hv
    simp only [List.mem_cons, List.mem_nil_iff, or_false] at hv
    rcases hv with rfl | rfl | rfl <;> norm_num [nth1]
  have h1 := trifill_covers_iff_inside (K := Rat) [0, 0] [4, 4] [4, 0] 2 (by omega) rfl rfl rfl hy1 2 2
  have h2 := trifill_covers_iff_inside (K := Rat) [0, 0] [4, 4] [0, 4] 2 (by omega) rfl rfl rfl hy2 2 2
  refine ⟨fun hc => absurd (h1.mp hc) ?_, h2.mpr ?_⟩ <;>
    norm_num [Inside, EdgeOK, OKs, Owns, edgeFn, orient, cross, sgn, pt, nth0, nth1]

/-- …and the model itself agrees when run (kernel evaluation of `triFill` over ℚ): row 2 of the
upper-right triangle starts at pixel 3, row 2 of the lower-left triangle ends after pixel 2. -/
example : ((triFill (α := Rat) [0, 0] [4, 4] [4, 0]).map fun r => (r.y, r.x0, r.x1)) =
      [(0, 1, 4), (1, 2, 4), (2, 3, 4), (3, 4, 4)] ∧
    ((triFill (α := Rat) [0, 0] [4, 4] [0, 4]).map fun r => (r.y, r.x0, r.x1)) =
      [(0, 0, 1), (1, 0, 2), (2, 0, 3), (3, 0, 4)] := by
  decide +kernel

end Examples

end Retro.Props.C04
