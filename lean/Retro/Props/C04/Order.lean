/-
C04: the pixels `tri_fill` covers do not depend on the order in which the three vertices are given
(exact arithmetic; in f32 only pixels within the property's 0.001 px band can differ).
-/
import Retro.Props.C04.Slice

namespace Retro.Props.C04
open Retro Retro.Raster Retro.Lemmas.Raster

variable {K : Type} [Field K] [LinearOrder K] [IsStrictOrderedRing K] [FloorRing K]
attribute [local instance] hasFloorK hasToNatK

/-- The slice rule of `trifill_covers_iff` as a predicate of the sorted triple. -/
def SliceRule (T M B : List K) (cx cy : K) : Prop :=
  (nth1 T < cy ∧ cy ≤ nth1 M ∧ InSlice (lineX T M cy) (lineX T B cy) cx) ∨
  (nth1 M < cy ∧ cy ≤ nth1 B ∧ InSlice (lineX M B cy) (lineX T B cy) cx)

theorem inSlice_comm (x1 x2 cx : K) : InSlice x1 x2 cx ↔ InSlice x2 x1 cx := by
  unfold InSlice; rw [min_comm, max_comm]

/-- Swapping the top two vertices of equal height does not change the rule. -/
theorem sliceRule_swap_top (T M B : List K) (cx cy : K) (h : nth1 T = nth1 M) :
    SliceRule M T B cx cy ↔ SliceRule T M B cx cy := by
  unfold SliceRule
  constructor
  · rintro (⟨h1, h2, -⟩ | ⟨h1, h2, h3⟩)
    · rw [h] at h2; linarith
    · right; exact ⟨by rw [← h]; exact h1, h2, (inSlice_comm _ _ _).mp h3⟩
  · rintro (⟨h1, h2, -⟩ | ⟨h1, h2, h3⟩)
    · rw [h] at h1; linarith
    · right; exact ⟨by rw [h]; exact h1, h2, (inSlice_comm _ _ _).mp h3⟩

/-- Swapping the bottom two vertices of equal height does not change the rule. -/
theorem sliceRule_swap_bottom (T M B : List K) (cx cy : K) (h : nth1 M = nth1 B) :
    SliceRule T B M cx cy ↔ SliceRule T M B cx cy := by
  unfold SliceRule
  constructor
  · rintro (⟨h1, h2, h3⟩ | ⟨h1, h2, -⟩)
    · left; exact ⟨h1, by rw [h]; exact h2, (inSlice_comm _ _ _).mp h3⟩
    · rw [h] at h2; linarith
  · rintro (⟨h1, h2, h3⟩ | ⟨h1, h2, -⟩)
    · left; exact ⟨h1, by rw [← h]; exact h2, (inSlice_comm _ _ _).mp h3⟩
    · rw [h] at h1; linarith

/-- Three vertices of equal height: nothing is covered, whatever the labelling. -/
theorem sliceRule_flat (T M B : List K) (cx cy : K) (h1 : nth1 T = nth1 M) (h2 : nth1 M = nth1 B) :
    ¬ SliceRule T M B cx cy := by
  unfold SliceRule
  rintro (⟨a, b, -⟩ | ⟨a, b, -⟩)
  · rw [h1] at a; linarith
  · rw [h2] at a; linarith

theorem trifill_covers_iff_rule (a b c : List K) (m : Nat) (hm : 1 < m)
    (ha : a.length = m) (hb : b.length = m) (hc : c.length = m)
    (hy : ∀ v ∈ [a, b, c], -(1 / 2) ≤ nth1 v) (px py : Nat) :
    Covers (triFill a b c) px py ↔
      SliceRule (sort3 a b c).1 (sort3 a b c).2.1 (sort3 a b c).2.2 ((px : K) + 1 / 2) ((py : K) + 1 / 2) := by
  have := trifill_covers_iff a b c m hm ha hb hc hy px py
  simpa [SliceRule] using this

/-- The rule on the sorted triple is invariant under exchanging the first two arguments of the sort. -/
theorem rule_sort_swap12 (a b c : List K) (cx cy : K) :
    SliceRule (sort3 b a c).1 (sort3 b a c).2.1 (sort3 b a c).2.2 cx cy ↔
    SliceRule (sort3 a b c).1 (sort3 a b c).2.1 (sort3 a b c).2.2 cx cy := by
  unfold sort3
  by_cases h1 : nth1 b < nth1 a <;> by_cases h2 : nth1 a < nth1 b <;>
    simp only [h1, h2, if_true, if_false] <;>
  · split_ifs <;> simp only <;>
    first
      | exact Iff.rfl
      | (exfalso; linarith)
      | exact sliceRule_swap_top _ _ _ _ _ (by linarith)
      | exact (sliceRule_swap_top _ _ _ _ _ (by linarith)).symm
      | exact sliceRule_swap_bottom _ _ _ _ _ (by linarith)
      | exact (sliceRule_swap_bottom _ _ _ _ _ (by linarith)).symm
      | exact ⟨fun h => absurd h (sliceRule_flat _ _ _ _ _ (by linarith) (by linarith)),
               fun h => absurd h (sliceRule_flat _ _ _ _ _ (by linarith) (by linarith))⟩

/-- … and under exchanging the last two. -/
theorem rule_sort_swap23 (a b c : List K) (cx cy : K) :
    SliceRule (sort3 a c b).1 (sort3 a c b).2.1 (sort3 a c b).2.2 cx cy ↔
    SliceRule (sort3 a b c).1 (sort3 a b c).2.1 (sort3 a b c).2.2 cx cy := by
  unfold sort3
  by_cases h1 : nth1 b < nth1 a <;> by_cases h2 : nth1 c < nth1 a <;>
  by_cases h3 : nth1 c < nth1 b <;> by_cases h4 : nth1 b < nth1 c <;>
    simp only [h1, h2, h3, h4, if_true, if_false] <;>
    first
      | exact Iff.rfl
      | (exfalso; linarith)
      | exact sliceRule_swap_top _ _ _ _ _ (by linarith)
      | exact (sliceRule_swap_top _ _ _ _ _ (by linarith)).symm
      | exact sliceRule_swap_bottom _ _ _ _ _ (by linarith)
      | exact (sliceRule_swap_bottom _ _ _ _ _ (by linarith)).symm
      | exact ⟨fun h => absurd h (sliceRule_flat _ _ _ _ _ (by linarith) (by linarith)),
               fun h => absurd h (sliceRule_flat _ _ _ _ _ (by linarith) (by linarith))⟩

/-- **Vertex-order independence.** For every triangle with y ≥ −½ (tuples of a common length ≥ 2),
all six orders of the three vertices make `tri_fill` cover exactly the same pixels. -/
theorem trifill_covers_order_independent (a b c : List K) (m : Nat) (hm : 1 < m)
    (ha : a.length = m) (hb : b.length = m) (hc : c.length = m)
    (hy : ∀ v ∈ [a, b, c], -(1 / 2) ≤ nth1 v) (px py : Nat) :
    (Covers (triFill b a c) px py ↔ Covers (triFill a b c) px py) ∧
    (Covers (triFill a c b) px py ↔ Covers (triFill a b c) px py) ∧
    (Covers (triFill c b a) px py ↔ Covers (triFill a b c) px py) ∧
    (Covers (triFill b c a) px py ↔ Covers (triFill a b c) px py) ∧
    (Covers (triFill c a b) px py ↔ Covers (triFill a b c) px py) := by
  have hya : -(1 / 2) ≤ nth1 a := hy a (by simp)
  have hyb : -(1 / 2) ≤ nth1 b := hy b (by simp)
  have hyc : -(1 / 2) ≤ nth1 c := hy c (by simp)
  have mk : ∀ x y z : List K, -(1 / 2) ≤ nth1 x → -(1 / 2) ≤ nth1 y → -(1 / 2) ≤ nth1 z →
      ∀ v ∈ [x, y, z], -(1 / 2) ≤ nth1 v := by
    intro x y z hx hy' hz v hv
    simp only [List.mem_cons, List.mem_nil_iff, or_false] at hv
    rcases hv with rfl | rfl | rfl <;> assumption
  have r0 := trifill_covers_iff_rule a b c m hm ha hb hc hy px py
  have rbac := trifill_covers_iff_rule b a c m hm hb ha hc (mk b a c hyb hya hyc) px py
  have racb := trifill_covers_iff_rule a c b m hm ha hc hb (mk a c b hya hyc hyb) px py
  have rcba := trifill_covers_iff_rule c b a m hm hc hb ha (mk c b a hyc hyb hya) px py
  have rbca := trifill_covers_iff_rule b c a m hm hb hc ha (mk b c a hyb hyc hya) px py
  have rcab := trifill_covers_iff_rule c a b m hm hc ha hb (mk c a b hyc hya hyb) px py
  refine ⟨?_, ?_, ?_, ?_, ?_⟩
  · exact rbac.trans ((rule_sort_swap12 a b c _ _).trans r0.symm)
  · exact racb.trans ((rule_sort_swap23 a b c _ _).trans r0.symm)
  · -- c b a = swap12 (b c a) ; b c a = swap23 (b a c) ; b a c = swap12 (a b c)
    exact rcba.trans (((rule_sort_swap12 b c a _ _).trans
      ((rule_sort_swap23 b a c _ _).trans (rule_sort_swap12 a b c _ _))).trans r0.symm)
  · exact rbca.trans (((rule_sort_swap23 b a c _ _).trans (rule_sort_swap12 a b c _ _)).trans r0.symm)
  · exact rcab.trans (((rule_sort_swap12 a c b _ _).trans (rule_sort_swap23 a b c _ _)).trans r0.symm)

end Retro.Props.C04
